// c09persist: correspondence harness (T1) for vivid persistence (StateChanged / SaveSnapshot /
// persist on restart and on termination / recovery after OnLaunch) against MV.C09.PersistModel.
//
// A persistent recording actor (state = list of ints) is driven sequentially through the REAL
// vivid.ActorSystem. Every step is a blocking ask from one goroutine, so a run is deterministic.
// Storage is persistence.MemoryStorage (or, per case, an own map storage whose stored slices have spare capacity)
// behind a recording wrapper that copies what Save receives and has a fault switch: while the switch is on, Save
// records what it received and returns an error without touching the storage (any subset of the saves may fail).
package main

import (
	"encoding/json"
	"errors"
	"flag"
	"fmt"
	"io"
	"log/slog"
	"os"
	"sync"
	"time"

	"github.com/kercylan98/minotaur/engine/vivid"
	"github.com/kercylan98/minotaur/engine/vivid/persistence"
	"github.com/kercylan98/minotaur/engine/vivid/supervision"
	"github.com/kercylan98/minotaur/toolkit/log"
	"verif/harness/vh"
)

// ---------------------------------------------------------------- case format

type Op struct {
	K string `json:"k"`           // E event(V) | F fail (panic -> supervised restart) | S stop + re-create (V = threshold of the new context) | P explicit ctx.Persistence() | Q query
	V int64  `json:"v,omitempty"` // E: event value; S: threshold of the re-created actor
	// Fault (F, S, P): Storage.Save returns an error during this operation (the storage is left as it was)
	Fault bool `json:"fault,omitempty"`
}

// Rec is a (snapshot, events) pair as handed to Storage.Save.
type Rec struct {
	HasSnap bool    `json:"has_snap"`
	Snap    []int64 `json:"snap"`
	Events  []int64 `json:"events"`
	Failed  bool    `json:"failed,omitempty"` // this Save returned an error (fault switch)
}

// Item is one message delivered to a fresh instance during recovery.
type Item struct {
	Snap  bool    `json:"snap,omitempty"`  // true: snapshot message, false: event message
	State []int64 `json:"state,omitempty"` // snapshot contents
	V     int64   `json:"v,omitempty"`     // event value
	// Early: the instance received this recovery message BEFORE its OnLaunch (C03: the first message an incarnation handles
	// is OnLaunch — preceded only by OnRestarted)
	Early bool `json:"early,omitempty"`
}

type Res struct {
	K       string  `json:"k"`                 // event | launch | saved | state | timeout | panic
	Num     int64   `json:"num,omitempty"`     // event: value returned by StateChanged
	Msg     string  `json:"msg,omitempty"`     // event: ctx.Message() right after StateChanged: add | snapreq | other
	MsgV    int64   `json:"msg_v,omitempty"`   // event: payload when Msg == add
	Sender  string  `json:"sender,omitempty"`  // event: ctx.Sender() right after StateChanged: asker | self | nil | other
	SnapReq bool    `json:"snapreq,omitempty"` // event: the handler received OnPersistenceSnapshot during StateChanged
	Saved   *Rec    `json:"saved,omitempty"`   // launch/saved: what Storage.Save received during this step (absent: Save not called)
	Trace   []Item  `json:"trace,omitempty"`   // launch: messages the new instance received while recovering
	Counts  []int64 `json:"counts,omitempty"`  // launch: values returned by StateChanged while replaying
	State   []int64 `json:"state,omitempty"`   // launch/state: the actor's state
	// HandlerErr (saved): ctx.Persistence() returned an error to the handler
	HandlerErr bool   `json:"handler_err,omitempty"`
	Err        string `json:"err,omitempty"`
}

type Case struct {
	RF bool  `json:"record_first,omitempty"` // the actor calls StateChanged before applying the event (open finding C09-snapshot-before-apply)
	Th int64 `json:"th"`                     // snapshot threshold of the first context
	// Store: "" = persistence.MemoryStorage; "roomy" = the harness's own map storage, which keeps a copy of what it is
	// handed in a slice with spare capacity (what Load returns can be appended to in place)
	Store string `json:"store,omitempty"`
	Ops   []Op   `json:"ops"`
	Impl  []Res  `json:"impl"`
}

// ---------------------------------------------------------------- recording storage

type recStorage struct {
	inner persistence.Storage
	env   *env
}

var errInjected = errors.New("c09 injected storage fault")

// roomyStorage: an ordinary persistence.Storage. It keeps its own copy of the events, in a slice that has room for more.
type roomyStorage struct{}

type roomyRecord struct {
	snapshot persistence.Snapshot
	events   []persistence.Event
}

var roomyRecords sync.Map // persistence.Name -> *roomyRecord

func (roomyStorage) Save(name persistence.Name, snapshot persistence.Snapshot, events []persistence.Event) error {
	cp := make([]persistence.Event, len(events), len(events)+3)
	copy(cp, events)
	roomyRecords.Store(name, &roomyRecord{snapshot: snapshot, events: cp})
	return nil
}
func (roomyStorage) Load(name persistence.Name) (persistence.Snapshot, []persistence.Event, error) {
	if r, ok := roomyRecords.Load(name); ok {
		rec := r.(*roomyRecord)
		return rec.snapshot, rec.events, nil
	}
	return nil, nil, persistence.ErrorPersistenceNotHasRecord
}
func (roomyStorage) Clear(name persistence.Name) error { roomyRecords.Delete(name); return nil }

func newInner(kind string) persistence.Storage {
	if kind == "roomy" {
		return roomyStorage{}
	}
	return persistence.NewMemoryStorage()
}

func (s *recStorage) Save(name persistence.Name, snapshot persistence.Snapshot, events []persistence.Event) error {
	r := &Rec{}
	if snapshot != nil {
		r.HasSnap = true
		if sm, ok := snapshot.(*snapMsg); ok {
			r.Snap = append([]int64{}, sm.state...)
		} else {
			r.Snap = []int64{-999}
		}
	}
	r.Events = []int64{}
	for _, e := range events {
		if a, ok := e.(*addMsg); ok {
			r.Events = append(r.Events, a.v)
		} else {
			r.Events = append(r.Events, -999)
		}
	}
	s.env.mu.Lock()
	r.Failed = s.env.fault
	s.env.saves = append(s.env.saves, r)
	s.env.mu.Unlock()
	if r.Failed {
		return errInjected // the storage is not touched
	}
	return s.inner.Save(name, snapshot, events) // the caller's slice is passed on unchanged
}
func (s *recStorage) Load(name persistence.Name) (persistence.Snapshot, []persistence.Event, error) {
	return s.inner.Load(name)
}
func (s *recStorage) Clear(name persistence.Name) error { return s.inner.Clear(name) }

// ---------------------------------------------------------------- messages and actors

type addMsg struct{ v int64 }
type snapMsg struct{ state []int64 }
type crashMsg struct{}
type persistMsg struct{ err error } // reply: what ctx.Persistence() returned
type queryMsg struct{}
type spawnMsg struct {
	env *env
	th  int
}
type stopMsg struct{ env *env }

type evReply struct {
	num     int64
	msg     string
	msgV    int64
	sender  string
	snapReq bool
}
type queryReply struct {
	gen    int
	state  []int64
	trace  []Item
	counts []int64
}

// env is the per-case environment shared by the harness goroutine and the actor instances.
type env struct {
	mu         sync.Mutex
	name       string // persistence name and actor name
	rf         bool   // record before apply
	store      string // kind of the storage behind the wrapper
	fault      bool   // fault switch of the recording storage: Save fails while it is on
	saves      []*Rec
	gen        int
	launched   chan int
	terminated chan struct{}
	child      vivid.ActorRef
}

func (e *env) setFault(on bool) {
	e.mu.Lock()
	e.fault = on
	e.mu.Unlock()
}

func (e *env) takeSaves() []*Rec {
	e.mu.Lock()
	defer e.mu.Unlock()
	s := e.saves
	e.saves = nil
	return s
}

// recorder is the persistent actor under test: state = list of applied events.
type recorder struct {
	env     *env
	gen     int
	state   []int64
	trace   []Item
	counts  []int64
	snapReq bool
	// launchSeen: this instance has handled its OnLaunch
	launchSeen bool
}

func (r *recorder) OnReceive(ctx vivid.ActorContext) {
	switch m := ctx.Message().(type) {
	case *vivid.OnLaunch:
		r.launchSeen = true
		select {
		case r.env.launched <- r.gen:
		default:
		}
	case *addMsg:
		sender := ctx.Sender()
		replay := sender != nil && sender.Equal(ctx.Ref())
		r.snapReq = false
		var num int
		if r.env.rf {
			num = ctx.StateChanged(m) // record, then apply
			r.state = append(r.state, m.v)
		} else {
			r.state = append(r.state, m.v) // apply, then record
			num = ctx.StateChanged(m)
		}
		if replay {
			r.trace = append(r.trace, Item{V: m.v, Early: !r.launchSeen})
			r.counts = append(r.counts, int64(num))
			return
		}
		rep := &evReply{num: int64(num), snapReq: r.snapReq}
		switch am := ctx.Message().(type) {
		case *addMsg:
			rep.msg, rep.msgV = "add", am.v
		case *vivid.OnPersistenceSnapshot:
			rep.msg = "snapreq"
		default:
			rep.msg = "other"
		}
		switch sa := ctx.Sender(); {
		case sa == nil:
			rep.sender = "nil"
		case sender != nil && sa.Equal(sender):
			rep.sender = "asker"
		case sa.Equal(ctx.Ref()):
			rep.sender = "self"
		default:
			rep.sender = "other"
		}
		if sender != nil {
			ctx.Tell(sender, rep)
		}
	case *vivid.OnPersistenceSnapshot:
		r.snapReq = true
		ctx.SaveSnapshot(&snapMsg{state: append([]int64{}, r.state...)})
	case *snapMsg:
		r.state = append([]int64{}, m.state...)
		r.trace = append(r.trace, Item{Snap: true, State: append([]int64{}, m.state...), Early: !r.launchSeen})
	case *crashMsg:
		panic("c09 injected failure")
	case *persistMsg:
		ctx.Reply(&persistMsg{err: ctx.Persistence()})
	case *queryMsg:
		ctx.Reply(&queryReply{gen: r.gen, state: append([]int64{}, r.state...), trace: append([]Item{}, r.trace...), counts: append([]int64{}, r.counts...)})
	}
}

// supervisor: spawns the persistent children inside its own handler (ActorOf is not safe from outside
// goroutines) and reports their termination.
type supervisor struct {
	envs map[string]*env
}

var restartNow = supervision.FunctionalStrategyProvider(func() supervision.Strategy {
	return supervision.FunctionalStrategy(func(record *supervision.AccidentRecord) {
		record.Supervisor.Restart(record.Victim)
	})
})

func (s *supervisor) OnReceive(ctx vivid.ActorContext) {
	switch m := ctx.Message().(type) {
	case *spawnMsg:
		e := m.env
		ref := ctx.ActorOfF(func() vivid.Actor {
			e.mu.Lock()
			e.gen++
			g := e.gen
			e.mu.Unlock()
			return &recorder{env: e, gen: g}
		}, func(d *vivid.ActorDescriptor) {
			d.WithName(e.name)
			d.WithPersistenceName("c09:" + e.name)
			d.WithPersistenceEventThreshold(m.th)
			d.WithPersistenceStorageProvider(persistence.FunctionalStorageProvider(func() persistence.Storage {
				return &recStorage{inner: newInner(e.store), env: e}
			}))
			d.WithSupervisionStrategyProvider(restartNow)
		})
		s.envs[ref.GetLogicalAddress()] = e
		ctx.Reply(ref)
	case *stopMsg:
		ctx.Terminate(m.env.child, false)
	case *vivid.OnTerminated:
		addr := m.TerminatedActor.GetLogicalAddress()
		if e, ok := s.envs[addr]; ok {
			delete(s.envs, addr)
			select {
			case e.terminated <- struct{}{}:
			default:
			}
		}
	}
}

// ---------------------------------------------------------------- driver

// Every wait is bounded. A lost step (no answer in time) is reported as output "timeout" (OBad for the model), the
// system is abandoned and the run is repeated once on a fresh one; after maxLost lost runs nothing more is started.
const stepTimeout = 8 * time.Second
const maxLost = 3

type driver struct {
	sys    *vivid.ActorSystem
	sup    vivid.ActorRef
	poison bool
	seq    int64
	lost   int // runs with a lost step
}

var silent = log.FunctionalLoggerProvider(func() *log.Logger {
	return slog.New(slog.NewTextHandler(io.Discard, &slog.HandlerOptions{Level: slog.Level(100)}))
})

func (d *driver) ensure() {
	if d.sys != nil && !d.poison {
		return
	}
	if d.sys != nil {
		old := d.sys
		go func() { defer func() { _ = recover() }(); old.Shutdown(false) }() // a system with a lost step is abandoned
	}
	d.poison = false
	d.sys = vivid.NewActorSystem(vivid.FunctionalActorSystemConfigurator(func(c *vivid.ActorSystemConfiguration) {
		c.WithLoggerProvider(silent)
	}))
	d.sup = d.sys.ActorOfF(func() vivid.Actor { return &supervisor{envs: map[string]*env{}} }, func(desc *vivid.ActorDescriptor) {
		desc.WithName("c09sup")
	})
}

func (d *driver) shutdown() {
	if d.sys == nil {
		return
	}
	done := make(chan struct{})
	go func() {
		defer func() { _ = recover(); close(done) }()
		d.sys.Shutdown(true)
	}()
	select {
	case <-done:
	case <-time.After(5 * time.Second):
	}
	d.sys = nil
}

var errTimeout = fmt.Errorf("timeout")

// ask = ActorSystem.FutureAsk + Result, guarded by an own timer (a future whose timer is not armed would block forever).
func (d *driver) ask(target vivid.ActorRef, m vivid.Message) (res vivid.Message, err error) {
	type rr struct {
		m   vivid.Message
		err error
	}
	ch := make(chan rr, 1)
	f := d.sys.FutureAsk(target, m, stepTimeout)
	go func() {
		defer func() {
			if e := recover(); e != nil {
				ch <- rr{nil, fmt.Errorf("panic: %v", e)}
			}
		}()
		v, e := f.Result()
		ch <- rr{v, e}
	}()
	select {
	case r := <-ch:
		if r.err != nil {
			d.poison = true
		}
		return r.m, r.err
	case <-time.After(stepTimeout + 2*time.Second):
		d.poison = true
		return nil, errTimeout
	}
}

func recOf(saves []*Rec) *Rec {
	if len(saves) == 0 {
		return nil
	}
	return saves[len(saves)-1] // the record that is in storage after the step
}

func (d *driver) spawn(e *env, th int64) error {
	r, err := d.ask(d.sup, &spawnMsg{env: e, th: int(th)})
	if err != nil {
		return err
	}
	ref, ok := r.(vivid.ActorRef)
	if !ok {
		return fmt.Errorf("spawn: unexpected reply %T", r)
	}
	e.child = ref
	return nil
}

func waitLaunch(e *env) error {
	select {
	case <-e.launched:
		return nil
	case <-time.After(stepTimeout):
		return errTimeout
	}
}

// launchRes: after a (re)launch, ask the fresh instance for what it saw while recovering.
func (d *driver) launchRes(e *env, gen int) Res {
	q, err := d.ask(e.child, &queryMsg{})
	if err != nil {
		return bad(err)
	}
	qr, ok := q.(*queryReply)
	if !ok {
		return Res{K: "panic", Err: fmt.Sprintf("unexpected reply %T", q)}
	}
	if qr.gen <= gen {
		return Res{K: "panic", Err: fmt.Sprintf("query answered by generation %d, expected a later one than %d", qr.gen, gen)}
	}
	return Res{K: "launch", Saved: recOf(e.takeSaves()), Trace: qr.trace, Counts: qr.counts, State: qr.state}
}

// bad: a step without a usable answer (own timer, future timeout, future closed with an error).
func bad(err error) Res { return Res{K: "timeout", Err: err.Error()} }

func (d *driver) curGen(e *env) int {
	e.mu.Lock()
	defer e.mu.Unlock()
	return e.gen
}

func lostStep(c *Case) bool {
	for _, r := range c.Impl {
		if r.K == "timeout" || r.K == "panic" {
			return true
		}
	}
	return false
}

func (d *driver) runImpl(c *Case) {
	d.runOnce(c)
	if lostStep(c) && d.lost < maxLost {
		d.runOnce(c) // once more on a fresh system: a loaded machine must not look like a defect
	}
	if lostStep(c) {
		d.lost++
	}
}

func (d *driver) runOnce(c *Case) {
	c.Impl = c.Impl[:0]
	if d.lost >= maxLost {
		for range c.Ops {
			c.Impl = append(c.Impl, Res{K: "timeout", Err: "not run: too many lost steps in this run of the harness"})
		}
		return
	}
	d.ensure()
	d.seq++
	e := &env{name: fmt.Sprintf("p%d-%d", os.Getpid(), d.seq), rf: c.RF, store: c.Store, launched: make(chan int, 8), terminated: make(chan struct{}, 8)}
	defer func() { _ = newInner(e.store).Clear("c09:" + e.name) }()
	fail := func(r Res) {
		for len(c.Impl) < len(c.Ops) {
			c.Impl = append(c.Impl, r)
		}
	}
	if err := d.spawn(e, c.Th); err != nil {
		fail(bad(err))
		return
	}
	if err := waitLaunch(e); err != nil {
		d.poison = true
		fail(bad(err))
		return
	}
	alive := true
	for _, o := range c.Ops {
		var res Res
		e.setFault(o.Fault && (o.K == "P" || o.K == "F" || o.K == "S"))
		switch o.K {
		case "E":
			r, err := d.ask(e.child, &addMsg{v: o.V})
			if err != nil {
				res = bad(err)
				break
			}
			er, ok := r.(*evReply)
			if !ok {
				res = Res{K: "panic", Err: fmt.Sprintf("unexpected reply %T", r)}
				break
			}
			res = Res{K: "event", Num: er.num, Msg: er.msg, MsgV: er.msgV, Sender: er.sender, SnapReq: er.snapReq}
		case "Q":
			r, err := d.ask(e.child, &queryMsg{})
			if err != nil {
				res = bad(err)
				break
			}
			qr, ok := r.(*queryReply)
			if !ok {
				res = Res{K: "panic", Err: fmt.Sprintf("unexpected reply %T", r)}
				break
			}
			res = Res{K: "state", State: qr.state}
		case "P":
			e.takeSaves()
			r, err := d.ask(e.child, &persistMsg{})
			if err != nil {
				res = bad(err)
				break
			}
			pr, ok := r.(*persistMsg)
			if !ok {
				res = Res{K: "panic", Err: fmt.Sprintf("unexpected reply %T", r)}
				break
			}
			res = Res{K: "saved", Saved: recOf(e.takeSaves()), HandlerErr: pr.err != nil}
		case "F":
			e.takeSaves()
			gen := d.curGen(e)
			d.sys.Tell(e.child, &crashMsg{})
			if err := waitLaunch(e); err != nil {
				d.poison = true
				res = bad(err)
				break
			}
			res = d.launchRes(e, gen)
		case "S":
			e.takeSaves()
			gen := d.curGen(e)
			d.sys.Tell(d.sup, &stopMsg{env: e})
			select {
			case <-e.terminated:
			case <-time.After(stepTimeout):
				d.poison = true
				res = bad(errTimeout)
			}
			if res.K != "" {
				break
			}
			if err := d.spawn(e, o.V); err != nil {
				res = bad(err)
				break
			}
			if err := waitLaunch(e); err != nil {
				d.poison = true
				res = bad(err)
				break
			}
			res = d.launchRes(e, gen)
		default:
			panic("bad op " + o.K)
		}
		e.setFault(false)
		c.Impl = append(c.Impl, res)
		if res.K == "timeout" || res.K == "panic" {
			alive = false
			d.poison = true
			fail(Res{K: "timeout", Err: "not run: an earlier step was lost"})
			break
		}
	}
	if alive {
		d.sys.Tell(d.sup, &stopMsg{env: e})
		select {
		case <-e.terminated:
		case <-time.After(stepTimeout):
			d.poison = true
		}
	}
}

// ---------------------------------------------------------------- monitor (Go-side restatement of the property)

func eqs(a, b []int64) bool {
	if len(a) != len(b) {
		return false
	}
	for i := range a {
		if a[i] != b[i] {
			return false
		}
	}
	return true
}

func subseq(a, b []int64) bool { // a is a subsequence of b
	i := 0
	for _, x := range b {
		if i < len(a) && a[i] == x {
			i++
		}
	}
	return i == len(a)
}

func sameMultiset(a, b []int64) bool {
	if len(a) != len(b) {
		return false
	}
	m := map[int64]int{}
	for _, x := range a {
		m[x]++
	}
	for _, x := range b {
		m[x]--
	}
	for _, n := range m {
		if n != 0 {
			return false
		}
	}
	return true
}

func classify(want, got []int64) string {
	switch {
	case len(got) < len(want) && subseq(got, want):
		return "lost"
	case len(got) > len(want) && subseq(want, got):
		return "duplicated"
	case sameMultiset(want, got):
		return "reordered"
	}
	return "wrong"
}

func opName(k string) string {
	switch k {
	case "F":
		return "restart"
	case "S":
		return "recreate"
	case "E":
		return "statechanged"
	case "P":
		return "persist"
	}
	return "query"
}

// faultTrack follows, on the Go side and from the implementation's own outputs, what the property needs to know about
// failing saves: has any Save returned an error yet; has one failed since the last Save that returned nil; was the
// journal truncated by a threshold snapshot and appended to again since the last Save that returned nil (the appends
// reuse the journal's backing array in place: a stored record that shares it is overwritten).
type faultTrack struct {
	anyFailed, failedSinceOK, everSaved bool
	truncSinceOK, overwriteSinceOK      bool
	consecutive, maxConsecutive         int
}

func (t *faultTrack) event(snapReq bool) {
	if t.truncSinceOK {
		t.overwriteSinceOK = true
	}
	if snapReq {
		t.truncSinceOK = true
	}
}

func (t *faultTrack) save(r *Rec) {
	if r == nil {
		return
	}
	if r.Failed {
		t.anyFailed, t.failedSinceOK = true, true
		t.consecutive++
		if t.consecutive > t.maxConsecutive {
			t.maxConsecutive = t.consecutive
		}
		return
	}
	*t = faultTrack{anyFailed: t.anyFailed, everSaved: true, maxConsecutive: t.maxConsecutive}
}

func yn(b bool) string {
	if b {
		return "yes"
	}
	return "no"
}

func monitor(c *Case) (viol []vh.Violation) {
	// want: the state the current instance must have = the state rebuilt at its launch followed by the events recorded since.
	// Without failing saves that is every event recorded so far, in order.
	var want []int64
	// pers: the state the actor had at the last Storage.Save that returned nil (nothing yet: empty) = what every launch must rebuild
	var pers []int64
	var ft faultTrack
	// what the open finding C09-snapshot-before-apply predicts for a record-first actor: the snapshot requested inside
	// StateChanged is taken before the event is applied, and the event is dropped from the journal
	var fLive, fSnap, fTail, wantF []int64
	gens := 1
	var stored *Rec // the record storage holds: the last one handed to Storage.Save
	explained := false
	// differs: got is not the expected state; in a record-first run remember whether it is what the finding predicts
	differsFrom := func(got, exp []int64) bool {
		if eqs(got, exp) {
			return false
		}
		explained = c.RF && eqs(got, wantF)
		return true
	}
	differs := func(got []int64) bool { return differsFrom(got, want) }
	stop := false
	add := func(i int, kind, detail string, sig map[string]string) {
		if c.RF && len(viol) > 0 {
			return
		}
		if c.RF {
			// after the first loss the later observations of this run all differ: report one hit per run
			stop = true
			if explained {
				kind, sig = "persist:record-first:threshold-event-lost", map[string]string{"order": "record-first"}
			}
		}
		explained = false
		if len(viol) < 4 {
			if sig == nil {
				sig = map[string]string{}
			}
			sig["op"] = opName(c.Ops[i].K)
			viol = append(viol, vh.Violation{Kind: kind, Detail: fmt.Sprintf("step #%d %s(%d), generation %d: %s", i, c.Ops[i].K, c.Ops[i].V, gens, detail), Sig: sig})
		}
	}
	for i, o := range c.Ops {
		if i >= len(c.Impl) || stop {
			break
		}
		got := c.Impl[i]
		if got.K == "timeout" || got.K == "panic" {
			// a lost step is not evidence about the property: it reaches the model as OBad (disagreement), never as a monitor hit
			return
		}
		switch o.K {
		case "E":
			want = append(want, o.V)
			ft.event(got.SnapReq)
			if got.SnapReq {
				fSnap, fTail = append([]int64{}, fLive...), nil
			} else {
				fTail = append(fTail, o.V)
			}
			fLive = append(fLive, o.V)
			if got.Msg != "add" || got.MsgV != o.V {
				add(i, "persist:statechanged:message-changed", fmt.Sprintf("ctx.Message() after StateChanged is %s(%d), expected the add(%d) being handled", got.Msg, got.MsgV, o.V), map[string]string{"snapshot_requested": fmt.Sprint(got.SnapReq)})
			}
			if got.Sender != "asker" {
				add(i, "persist:statechanged:sender-changed", fmt.Sprintf("ctx.Sender() after StateChanged is %s, expected the asker", got.Sender), map[string]string{"snapshot_requested": fmt.Sprint(got.SnapReq)})
			}
		case "Q":
			wantF = fLive
			if differs(got.State) {
				add(i, "persist:query:state-"+classify(want, got.State), fmt.Sprintf("state %v, expected %v", got.State, want), nil)
			}
		case "P", "F", "S":
			failedNow := got.Saved != nil && got.Saved.Failed
			if got.Saved != nil && !failedNow {
				stored = got.Saved
			}
			wantF = append(append([]int64{}, fSnap...), fTail...)
			if o.K != "P" {
				fLive = wantF
			}
			if failedNow {
				// what the failing Save was handed is still the state the actor has now
				all := append(append([]int64{}, got.Saved.Snap...), got.Saved.Events...)
				if differs(all) {
					add(i, "persist:"+opName(o.K)+":handed-to-save-"+classify(want, all), fmt.Sprintf("the (failing) Save received snapshot %v (present=%v) + events %v, state at persist is %v", got.Saved.Snap, got.Saved.HasSnap, got.Saved.Events, want), nil)
				}
			} else if stored != nil {
				// what storage holds after the persist of this step must rebuild the state the actor has now
				all := append(append([]int64{}, stored.Snap...), stored.Events...)
				if differs(all) {
					add(i, "persist:"+opName(o.K)+":stored-"+classify(want, all), fmt.Sprintf("storage holds snapshot %v (present=%v) + events %v (saved in this step: %v), state at persist is %v", stored.Snap, stored.HasSnap, stored.Events, got.Saved != nil, want), nil)
				}
			} else if len(want) > 0 {
				add(i, "persist:"+opName(o.K)+":not-stored", fmt.Sprintf("Storage.Save never called, state at persist is %v", want), nil)
			}
			launchSig := map[string]string{"save": "none", "record": "none", "overwrite": yn(ft.overwriteSinceOK)}
			if ft.everSaved {
				launchSig["record"] = "present"
			}
			if got.Saved != nil {
				launchSig["save"] = "ok"
				if failedNow {
					launchSig["save"] = "failed"
				} else {
					pers = append([]int64{}, want...) // a Save returned nil: this is the state every later launch rebuilds
				}
			}
			ft.save(got.Saved)
			if o.K == "P" {
				break
			}
			gens++
			// the launch: the new instance starts from the state at the last Save that returned nil
			want = append([]int64{}, pers...)
			if differs(got.State) {
				if ft.anyFailed {
					add(i, "persist:launch:recovered-"+classify(want, got.State), fmt.Sprintf("state at launch %v, state at the last Save that returned nil %v (this step's Save: %s)", got.State, want, launchSig["save"]), launchSig)
				} else {
					add(i, "persist:"+opName(o.K)+":launch-state-"+classify(want, got.State), fmt.Sprintf("state at launch %v, state at last persist %v", got.State, want), map[string]string{"generation": genBucket(gens)})
				}
			}
			// replay: at most one snapshot, first; snapshot ++ replayed events = state; nothing recorded again
			var rebuilt []int64
			for j, it := range got.Trace {
				if it.Early {
					add(i, "C03:persist:replay-before-OnLaunch", fmt.Sprintf("the recovering instance handled recovery message #%d (snapshot=%v) before its OnLaunch", j, it.Snap), nil)
					break
				}
			}
			for j, it := range got.Trace {
				if it.Snap {
					if j != 0 {
						add(i, "persist:"+opName(o.K)+":snapshot-not-first", fmt.Sprintf("snapshot delivered at position %d of the recovery", j), nil)
					}
					rebuilt = append([]int64{}, it.State...)
				} else {
					rebuilt = append(rebuilt, it.V)
				}
			}
			if differs(rebuilt) {
				add(i, "persist:"+opName(o.K)+":replay-"+classify(want, rebuilt), fmt.Sprintf("recovery delivered %v, rebuilding %v; expected %v", got.Trace, rebuilt, want), map[string]string{"generation": genBucket(gens)})
			}
			for j := 1; j < len(got.Counts); j++ {
				if got.Counts[j] != got.Counts[0] {
					add(i, "persist:"+opName(o.K)+":replay-records-again", fmt.Sprintf("event count during replay changes: %v", got.Counts), nil)
					break
				}
			}
		}
	}
	return
}

func genBucket(g int) string {
	if g >= 3 {
		return "3+"
	}
	return fmt.Sprint(g)
}

// ---------------------------------------------------------------- Coq terms

func coqOp(o Op) string {
	switch o.K {
	case "E":
		return vh.App("Event", vh.Z(o.V))
	case "F":
		if o.Fault {
			return "FailF"
		}
		return "Fail"
	case "S":
		if o.Fault {
			return vh.App("StopRecreateF", vh.Z(o.V))
		}
		return vh.App("StopRecreate", vh.Z(o.V))
	case "P":
		if o.Fault {
			return "PersistF"
		}
		return "Persist"
	case "Q":
		return "Query"
	}
	panic(o.K)
}

func coqRec(r *Rec) string {
	if r == nil {
		return "None"
	}
	s := "None"
	if r.HasSnap {
		s = vh.Some(vh.ListZ(r.Snap))
	}
	return vh.Some(vh.Pair(s, vh.ListZ(r.Events)))
}

func coqRes(r Res) string {
	switch r.K {
	case "event":
		var m string
		switch r.Msg {
		case "add":
			m = vh.App("MAdd", vh.Z(r.MsgV))
		case "snapreq":
			m = "MSnapReq"
		default:
			m = "MOther"
		}
		var w string
		switch r.Sender {
		case "asker":
			w = "WAsker"
		case "self":
			w = "WSelf"
		case "nil":
			w = "WNone"
		default:
			w = "WOther"
		}
		return vh.App("OEvent", vh.Z(r.Num), m, w, vh.Bool(r.SnapReq))
	case "launch":
		tr := make([]string, len(r.Trace))
		for i, it := range r.Trace {
			if it.Snap {
				tr[i] = vh.App("RSnap", vh.ListZ(it.State))
			} else {
				tr[i] = vh.App("REv", vh.Z(it.V))
			}
		}
		o := vh.App("OLaunch", coqRec(r.Saved), vh.List(tr), vh.ListZ(r.Counts), vh.ListZ(r.State))
		if r.Saved != nil && r.Saved.Failed { // the Save of the old instance's persist returned an error
			return vh.App("OSaveFailed", o)
		}
		return o
	case "saved":
		if (r.Saved != nil && r.Saved.Failed) != r.HandlerErr {
			return "OBad" // Storage.Save's result and what ctx.Persistence() returned to the handler differ
		}
		if r.HandlerErr {
			return vh.App("OSaveFailed", vh.App("OSaved", coqRec(r.Saved)))
		}
		return vh.App("OSaved", coqRec(r.Saved))
	case "state":
		return vh.App("OState", vh.ListZ(r.State))
	}
	return "OBad"
}

func coqCase(id int, c *Case) string {
	ops := make([]string, len(c.Ops))
	for i, o := range c.Ops {
		ops[i] = coqOp(o)
	}
	rs := make([]string, len(c.Impl))
	for i, r := range c.Impl {
		rs[i] = coqRes(r)
	}
	return fmt.Sprintf("{| cid := %d; crf := %s; cth := %s; cops := %s; cimpl := %s |}", id, vh.Bool(c.RF), vh.Z(c.Th), vh.List(ops), vh.List(rs))
}

// ---------------------------------------------------------------- generators

// genCase: a random history. With faults allowed, the storage kind is drawn too and, in 3 of 5 histories, each persisting
// operation (explicit persist, restart, stop + re-create) fails with probability 15 / 30 / 40 % (at least 50 % right
// after another failure: runs of consecutive failures), about 19 % of all saves; one history in 10 has a long journal
// (threshold 18..20 and as many events less one first: the copy a storage makes of 17+ events has spare capacity).
func genCase(rng *vh.RNG, faults bool) (Case, bool) {
	var c Case
	malformed := false
	pct, lastFailed := 0, false
	long := false
	if faults {
		if rng.Bool() {
			c.Store = "roomy"
		}
		pct = []int{0, 0, 15, 30, 40}[rng.Intn(5)]
		long = rng.Chance(1, 10)
	}
	faulty := func() bool {
		p := pct
		if lastFailed && p > 0 && p < 50 {
			p = 50
		}
		lastFailed = rng.Intn(100) < p
		return lastFailed
	}
	pickTh := func() int64 {
		switch rng.Intn(20) {
		case 0:
			malformed = true
			return int64(rng.Range(-2, 0)) // threshold <= 0: a snapshot at every event
		case 1:
			return 1000 // default threshold: never reached
		case 2:
			return int64(rng.Range(6, 9))
		}
		return int64(rng.Range(1, 5))
	}
	c.Th = pickTh()
	var next int64
	if long {
		c.Th = int64(rng.Range(18, 20))
		for next < c.Th-1 {
			next++
			c.Ops = append(c.Ops, Op{K: "E", V: next})
		}
	}
	th := c.Th
	n := rng.Range(1, 40)
	pE := rng.Range(4, 8)
	for i := 0; i < n; i++ {
		if rng.Intn(10) < pE {
			next++
			v := next
			if rng.Chance(1, 10) {
				v = int64(rng.Range(-3, 3)) // repeated and non-positive values
			}
			c.Ops = append(c.Ops, Op{K: "E", V: v})
			continue
		}
		switch rng.Intn(8) {
		case 0, 1, 2:
			c.Ops = append(c.Ops, Op{K: "F", Fault: faulty()})
		case 3, 4, 5:
			if rng.Chance(1, 4) {
				th = pickTh()
			}
			c.Ops = append(c.Ops, Op{K: "S", V: th, Fault: faulty()})
		case 6:
			c.Ops = append(c.Ops, Op{K: "P", Fault: faulty()})
		case 7:
			c.Ops = append(c.Ops, Op{K: "Q"})
		}
	}
	c.Ops = append(c.Ops, Op{K: "Q"})
	return c, malformed
}

// genFaultCase: a history assembled from the shapes in which a failing save matters: a failure before any record exists,
// a failure after a threshold snapshot truncated the journal and later events were appended in place, several failures
// in a row, a failure followed by a success, stop + re-create with a failure.
func genFaultCase(rng *vh.RNG) Case {
	var c Case
	c.Th = int64(rng.Range(2, 5))
	if rng.Bool() {
		c.Store = "roomy"
	}
	th := c.Th
	var next int64
	events := func(k int) {
		for ; k > 0; k-- {
			next++
			c.Ops = append(c.Ops, Op{K: "E", V: next})
		}
	}
	relaunch := func(fault bool) {
		if rng.Bool() {
			c.Ops = append(c.Ops, Op{K: "F", Fault: fault})
			return
		}
		if rng.Chance(1, 5) {
			th = int64(rng.Range(1, 5))
		}
		c.Ops = append(c.Ops, Op{K: "S", V: th, Fault: fault})
	}
	saveOK := func() {
		if rng.Chance(2, 3) {
			c.Ops = append(c.Ops, Op{K: "P"})
		} else {
			relaunch(false)
		}
	}
	for seg := rng.Range(1, 4); seg > 0 && len(c.Ops) < 36; seg-- {
		switch rng.Intn(6) {
		case 0: // failure before (or without) a new record
			events(rng.Range(0, int(th)))
			relaunch(true)
		case 1: // record, then truncation, then in-place appends, then failure(s)
			events(int(th) + rng.Range(0, int(th)-1))
			saveOK()
			events(int(th))
			events(rng.Range(1, 2))
			for k := rng.Range(0, 2); k > 0; k-- {
				c.Ops = append(c.Ops, Op{K: "P", Fault: true})
			}
			relaunch(true)
		case 2: // several failures in a row
			events(rng.Range(0, 2))
			for k := rng.Range(2, 4); k > 0; k-- {
				if rng.Chance(1, 3) {
					c.Ops = append(c.Ops, Op{K: "P", Fault: true})
				} else {
					relaunch(true)
				}
				events(rng.Range(0, 1))
			}
		case 3: // failure, then success
			events(rng.Range(0, 2))
			relaunch(true)
			events(rng.Range(0, 2))
			saveOK()
			relaunch(rng.Chance(1, 4))
		case 4: // stop + re-create with a failure
			events(rng.Range(1, int(th)))
			c.Ops = append(c.Ops, Op{K: "S", V: th, Fault: true})
		case 5:
			events(rng.Range(1, 3))
			relaunch(false)
		}
		if rng.Chance(1, 4) {
			c.Ops = append(c.Ops, Op{K: "Q"})
		}
	}
	c.Ops = append(c.Ops, Op{K: "Q"})
	return c
}

// enumerateFaults: every history over {event, a, persist, a with a failing save} (a = "F" restart or "S" stop +
// re-create) of length 1..maxLen that contains at least one failing save.
func enumerateFaults(maxLen int, ths []int64, store, a string, each func(c *Case)) {
	alpha := []string{"E", a, "P", "X"}
	for _, th := range ths {
		var rec func(prefix []string, depth int, hasX bool)
		rec = func(prefix []string, depth int, hasX bool) {
			if hasX {
				c := Case{Th: th, Store: store}
				var k int64
				for _, x := range prefix {
					switch x {
					case "E":
						k++
						c.Ops = append(c.Ops, Op{K: "E", V: k})
					case "X":
						c.Ops = append(c.Ops, Op{K: a, V: map[string]int64{"S": th}[a], Fault: true})
					case "S":
						c.Ops = append(c.Ops, Op{K: "S", V: th})
					default:
						c.Ops = append(c.Ops, Op{K: x})
					}
				}
				c.Ops = append(c.Ops, Op{K: "Q"})
				each(&c)
			}
			if depth == 0 {
				return
			}
			for _, x := range alpha {
				rec(append(prefix[:len(prefix):len(prefix)], x), depth-1, hasX || x == "X")
			}
		}
		rec(nil, maxLen, false)
	}
}

// enumerate every history over {event, fail, stop+re-create} of length 1..maxLen: the crash or stop is
// placed after every prefix of every shorter history.
func enumerate(maxLen int, ths []int64, each func(c *Case)) {
	alpha := []string{"E", "F", "S"}
	for _, th := range ths {
		var rec func(prefix []string, depth int)
		rec = func(prefix []string, depth int) {
			if len(prefix) > 0 {
				c := Case{Th: th}
				var k int64
				for _, a := range prefix {
					switch a {
					case "E":
						k++
						c.Ops = append(c.Ops, Op{K: "E", V: k})
					case "S":
						c.Ops = append(c.Ops, Op{K: "S", V: th})
					default:
						c.Ops = append(c.Ops, Op{K: a})
					}
				}
				c.Ops = append(c.Ops, Op{K: "Q"})
				each(&c)
			}
			if depth == 0 {
				return
			}
			for _, a := range alpha {
				rec(append(prefix[:len(prefix):len(prefix)], a), depth-1)
			}
		}
		rec(nil, maxLen)
	}
}

func corpus() []Case {
	ev := func(v int64) Op { return Op{K: "E", V: v} }
	q := Op{K: "Q"}
	s := func(th int64) Op { return Op{K: "S", V: th} }
	f := Op{K: "F"}
	p := Op{K: "P"}
	pf, ff := Op{K: "P", Fault: true}, Op{K: "F", Fault: true}
	sf := func(th int64) Op { return Op{K: "S", V: th, Fault: true} }
	evs := func(from, to int64) (l []Op) {
		for v := from; v <= to; v++ {
			l = append(l, ev(v))
		}
		return
	}
	cat := func(ls ...[]Op) (l []Op) {
		for _, x := range ls {
			l = append(l, x...)
		}
		return
	}
	return []Case{
		// ---- failing saves (round 12): minimised witnesses of the three defects first
		// (a) MemoryStorage.Save kept the caller's slice: snapshot [1 2] + events [3] are stored, then the journal is truncated
		//     (event 4) and event 5 is appended in place, over the stored 3; the restart's save fails: launch state [1 2 5], not [1 2 3]
		{Th: 2, Ops: []Op{ev(1), ev(2), ev(3), p, ev(4), ev(5), ff, q}},
		// the same with the history of the report (threshold 3)
		{Th: 3, Ops: []Op{ev(1), ev(2), ev(3), ev(4), p, ev(5), ev(6), ev(7), pf, ff, q}},
		// (b) a restart whose save fails while nothing is stored: the new instance starts empty, the kept journal must too;
		//     otherwise the next successful save writes 1 2 out and the last launch rebuilds [1 2 3] instead of [3]
		{Th: 1000, Ops: []Op{ev(1), ev(2), ff, q, ev(3), f, q}},
		{Th: 3, Ops: []Op{ev(1), ev(2), ff, ff, ev(3), p, ev(4), ev(5), s(3), q}},
		// (c) the seeded change "State.Load adopts the storage's slice": the stored events [1] get event 2 appended in place
		//     (spare capacity), the snapshot truncates, event 3 lands on the stored 1; the restart's save fails: launch state [3], not [1]
		{Th: 2, Store: "roomy", Ops: []Op{ev(1), f, ev(2), ev(3), ff, q}},
		// the same through MemoryStorage: the copy it makes of 17 events has capacity 18
		{Th: 18, Ops: cat(evs(1, 17), []Op{f, ev(18), ev(19), ff, q})},
		{Th: 18, Ops: cat(evs(1, 17), []Op{s(18), ev(18), ev(19), sf(18), q})},
		// failure, then success; consecutive failures; stop + re-create with a failure; failure before any record
		{Th: 2, Store: "roomy", Ops: []Op{ev(1), pf, ff, q, ev(2), ev(3), sf(2), ev(4), p, ev(5), ev(6), ev(7), pf, sf(3), q}},
		{Th: 3, Ops: []Op{ff, sf(3), pf, ev(1), sf(3), q, ev(2), ev(3), ev(4), ev(5), f, ev(6), ev(7), ev(8), pf, pf, ff, ff, q}},
		{Th: 1, Ops: []Op{ev(1), ff, ev(2), sf(1), q, ev(3), p, ev(4), ff, q}},
		// DESIGN §6 C09 probe (a): three generations under one persistence name, two events each, no snapshot
		{Th: 1000, Ops: []Op{q, ev(1), ev(1), s(1000), ev(1), ev(1), s(1000), q}},
		{Th: 5, Ops: []Op{ev(1), ev(2), s(5), ev(3), ev(4), s(5), ev(5), f, q}},
		// probe (b): the threshold snapshot must leave ctx.Message()/ctx.Sender() alone
		{Th: 2, Ops: []Op{ev(1), ev(2), ev(3), q}},
		// snapshot, restart, more events, stop + re-create, restart
		{Th: 2, Ops: []Op{ev(1), ev(2), ev(3), f, ev(4), s(2), ev(5), f, q}},
		// explicit persist followed by a truncation and an append (storage record aliases the journal's array)
		{Th: 3, Ops: []Op{ev(1), ev(2), {K: "P"}, ev(3), ev(4), {K: "P"}, f, ev(5), ev(6), s(3), q}},
		// fresh actor restarted and re-created without any event
		{Th: 1, Ops: []Op{f, s(1), f, q, ev(7), s(1), q}},
	}
}

// ---------------------------------------------------------------- main

func record(out *vh.Out, d *driver, c *Case, malformed bool) {
	d.runImpl(c)
	v := monitor(c)
	gens, snaps, events := 1, 0, 0
	// distribution of the failing saves, measured on what the recording storage saw
	var ft faultTrack
	saves, failedSaves := 0, 0
	for i, o := range c.Ops {
		k := o.K
		if o.Fault {
			k += "-failing-save"
		}
		out.Count("op_mix", k)
		var got Res
		if i < len(c.Impl) {
			got = c.Impl[i]
		}
		switch o.K {
		case "F", "S", "P":
			if got.Saved != nil {
				saves++
				out.Count("save_results", map[bool]string{true: "error", false: "nil"}[got.Saved.Failed])
				if got.Saved.Failed {
					failedSaves++
					out.Count("failing_save", opName(o.K)+map[bool]string{true: ":a-record-exists", false: ":before-any-record"}[ft.everSaved])
				}
			}
			ft.save(got.Saved)
			if o.K == "P" {
				break
			}
			gens++
			out.Count("launch", fmt.Sprintf("save-failed-since-last-good-save=%s in-place-append-after-truncation-since-last-good-save=%s", yn(ft.failedSinceOK), yn(ft.overwriteSinceOK)))
			if ft.anyFailed && !ft.failedSinceOK {
				out.Count("launch_shapes", "failure-then-success")
			}
			if ft.failedSinceOK && ft.overwriteSinceOK {
				out.Count("launch_shapes", "failure-after-truncation-and-in-place-append")
			}
			if ft.failedSinceOK && !ft.everSaved {
				out.Count("launch_shapes", "failure-before-any-record")
			}
			if o.K == "S" && got.Saved != nil && got.Saved.Failed {
				out.Count("launch_shapes", "recreate-with-failure")
			}
		case "E":
			events++
			if got.SnapReq {
				snaps++
			}
			ft.event(got.SnapReq)
		}
	}
	out.Count("saves", "all:"+vh.Bucket(saves))
	out.Count("saves", "failing:"+vh.Bucket(failedSaves))
	out.Count("consecutive_failing_saves", fmt.Sprint(ft.maxConsecutive))
	if c.Store == "" {
		out.Count("storage", "MemoryStorage")
	} else {
		out.Count("storage", c.Store)
	}
	out.Count("generations", vh.Bucket(gens))
	out.Count("snapshots", vh.Bucket(snaps))
	out.Count("history_len", vh.Bucket(len(c.Ops)))
	out.Count("events", vh.Bucket(events))
	out.Count("threshold", fmt.Sprint(c.Th))
	if c.RF {
		out.Count("actor", "record-first")
	} else {
		out.Count("actor", "apply-first")
	}
	for _, r := range c.Impl {
		if r.K == "timeout" || r.K == "panic" {
			out.Count("lost_steps", r.K)
			break
		}
	}
	if malformed {
		out.Malformed()
	}
	out.Add(c, coqCase(out.N(), c), gens >= 2 && snaps >= 1, v)
}

func main() {
	recordFirst := flag.Bool("recordfirst", false, "also run the actor that records before applying (enabled by checks/c09.py when the finding C09-snapshot-before-apply is open)")
	family := flag.String("family", "persist", "persist: sequential histories against MV.C09.PersistModel | notice: re-create on notice with a slow storage against MV.C09.OrderModel (notice.go)")
	f := vh.ParseFlags()
	d := &driver{}
	if f.Replay != "" {
		var hdr struct {
			Sub string `json:"sub"`
		}
		if b, err := os.ReadFile(f.Replay); err == nil {
			_ = json.Unmarshal(b, &hdr)
		}
		if hdr.Sub == "notice" {
			noticeReplay(f.Replay)
			return
		}
		var c Case
		vh.LoadReplayCase(f.Replay, &c)
		want := append([]Res(nil), c.Impl...)
		d.runImpl(&c)
		d.shutdown()
		v := monitor(&c)
		b, _ := json.Marshal(map[string]interface{}{"case": c, "recorded_impl": want, "monitor": v})
		fmt.Println(string(b))
		if len(v) > 0 {
			os.Exit(1)
		}
		return
	}
	if *family == "notice" {
		noticeMain(f)
		return
	}
	out := vh.NewOut(f.Out, "persist", "From MV Require Import Lib.ListX C09.PersistModel C09.PersistRun.", "case", "mismatches", f.Seed,
		"histories over {event, fail(restart), stop+re-create(threshold), explicit persist, query} run on a real ActorSystem with a recording actor; "+
			"quick: every history over {event, fail, stop+re-create} of length<=5 x thresholds 1..3 + random histories (len 1..40, thresholds -2..9 and 1000); "+
			"thorough: every such history of length<=8 x thresholds 1..4 + 10x random; non-trivial = at least 2 generations and at least 1 threshold snapshot "+
			"(both measured on the implementation's outputs); distinct by hash of (actor kind, threshold, ops); "+
			"failing saves (any subset of the Storage.Save calls returns an error and leaves the storage as it was; Load and Clear never fail): corpus of "+
			"defect witnesses first; every history over {event, restart, persist, restart with failing save} of length<=5 with at least one failing save x "+
			"thresholds 2,3 on a storage whose stored slices have spare capacity (thorough: length<=6, plus length<=7 x threshold 2 on MemoryStorage, plus "+
			"stop+re-create instead of restart, length<=6); random histories assembled from the shapes failure-before-any-record / record, truncation, in-place "+
			"appends, failure / consecutive failures / failure then success / re-create with failure; in the random histories about 19% of the saves fail and half "+
			"run on the roomy storage; the fault-free histories and the record-first stream are generated as before; "+
			"with -recordfirst the same generators also drive the actor that records before it applies (open finding)")
	rng := vh.NewRNG(f.Seed)
	for _, c := range corpus() {
		c := c
		record(out, d, &c, false)
	}
	maxLen, ths, n := 5, []int64{1, 2, 3}, 1500
	if f.Tier == "thorough" {
		maxLen, ths, n = 8, []int64{1, 2, 3, 4}, 15000
	}
	if f.N != 0 {
		n = f.N
	}
	if vh.NoCoq { // failing-input search: random volume only, the enumeration is seed independent
		maxLen = 0
	}
	if maxLen > 0 {
		enumerate(maxLen, ths, func(c *Case) { record(out, d, c, false) })
		rec := func(c *Case) { record(out, d, c, false) }
		if f.Tier == "thorough" {
			enumerateFaults(6, []int64{2, 3}, "roomy", "F", rec)
			enumerateFaults(7, []int64{2}, "", "F", rec)
			enumerateFaults(6, []int64{2, 3}, "", "S", rec)
		} else {
			enumerateFaults(5, []int64{2, 3}, "roomy", "F", rec)
		}
	}
	for i := 0; i < n; i++ {
		cr, _ := rng.Derive()
		c, mal := genCase(cr, true)
		record(out, d, &c, mal)
	}
	for i := 0; i < n/2; i++ {
		cr, _ := rng.Derive()
		c := genFaultCase(cr)
		record(out, d, &c, false)
	}
	if *recordFirst {
		// the actor that records before it applies: witness, small enumeration, random
		ev := func(v int64) Op { return Op{K: "E", V: v} }
		w := Case{RF: true, Th: 2, Ops: []Op{ev(1), ev(2), ev(3), {K: "F"}, {K: "Q"}}}
		record(out, d, &w, false)
		if !vh.NoCoq {
			enumerate(4, []int64{1, 2}, func(c *Case) { c.RF = true; record(out, d, c, false) })
		}
		for i := 0; i < n/5; i++ {
			cr, _ := rng.Derive()
			c, mal := genCase(cr, false)
			c.RF = true
			record(out, d, &c, mal)
		}
	}
	d.shutdown()
	out.Close()
}
