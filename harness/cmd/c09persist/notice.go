// notice.go: the scenario family "re-create on notice" (-family notice, sub-harness "notice") against MV.C09.OrderModel.
//
// The storage is an ordinary persistence.Storage whose Save takes time (it copies what it is handed, sleeps, then commits;
// Load returns the committed record). The persistent recording actor lives through several generations under ONE
// persistence name; the next generation is created by whoever observes the end of the previous one, the moment he observes it:
//
//	parent    the parent re-creates the child (same actor name, same persistence name) inside its OnTerminated handler
//	watcher   a watcher (not the parent) re-creates it as its own child inside its OnTerminated handler; the two
//	          supervisors take turns (the old parent becomes the watcher of the new generation)
//	shutdown  the actor is a top-level actor; ActorSystem.Shutdown is called and, as soon as it has returned, a NEW
//	          system is started on the same storage and the actor created again
//
// and a generation may also end by a failure (supervised restart at once: the new instance launches on the same context).
// Property (C09): the state rebuilt at every launch equals the state the previous generation had when it ended — which
// requires that the last persist of a generation is COMMITTED before its end becomes observable.
package main

import (
	"encoding/json"
	"fmt"
	"os"
	"sync"
	"sync/atomic"
	"time"

	"github.com/kercylan98/minotaur/engine/vivid"
	"github.com/kercylan98/minotaur/engine/vivid/persistence"
	"verif/harness/vh"
)

// ---------------------------------------------------------------- case format

type NGen struct {
	Events []int64 `json:"events"`
	End    string  `json:"end"` // stop (graceful terminate / Shutdown(true)) | stop-now (not graceful) | fail (panic -> restart at once)
}

type NObs struct {
	End    []int64 `json:"end_state"`    // what the generation answered to a query just before it ended
	Launch []int64 `json:"launch_state"` // what the next generation answered right after its launch
	Err    string  `json:"err,omitempty"`
}

type NCase struct {
	Mode    string   `json:"mode"` // parent | watcher | shutdown
	DelayUS int      `json:"save_delay_us"`
	Th      int64    `json:"th"`
	Gens    []NGen   `json:"gens"`
	Impl    []NObs   `json:"impl"`
	Storage []string `json:"storage_trace,omitempty"` // what the storage saw, in order (evidence for the replay; not judged)
}

// ---------------------------------------------------------------- slow storage

type slowRec struct {
	snapshot persistence.Snapshot
	events   []persistence.Event
}

type slowStorage struct {
	mu    sync.Mutex
	delay time.Duration
	recs  map[persistence.Name]*slowRec
	trace []string
}

func recState(snapshot persistence.Snapshot, events []persistence.Event) []int64 {
	st := []int64{}
	if sm, ok := snapshot.(*snapMsg); ok {
		st = append(st, sm.state...)
	} else if snapshot != nil {
		st = append(st, -999)
	}
	for _, e := range events {
		if a, ok := e.(*addMsg); ok {
			st = append(st, a.v)
		} else {
			st = append(st, -999)
		}
	}
	return st
}

func (s *slowStorage) note(format string, a ...any) {
	if len(s.trace) < 64 {
		s.trace = append(s.trace, fmt.Sprintf(format, a...))
	}
}

func (s *slowStorage) Save(name persistence.Name, snapshot persistence.Snapshot, events []persistence.Event) error {
	rec := &slowRec{snapshot: snapshot, events: append([]persistence.Event(nil), events...)}
	st := recState(snapshot, events)
	s.mu.Lock()
	s.note("save-begin %v", st)
	s.mu.Unlock()
	time.Sleep(s.delay) // write latency
	s.mu.Lock()
	s.recs[name] = rec
	s.note("save-commit %v", st)
	s.mu.Unlock()
	return nil
}

func (s *slowStorage) Load(name persistence.Name) (persistence.Snapshot, []persistence.Event, error) {
	s.mu.Lock()
	defer s.mu.Unlock()
	rec, ok := s.recs[name]
	if !ok {
		s.note("load -> no record")
		return nil, nil, persistence.ErrorPersistenceNotHasRecord
	}
	s.note("load -> %v", recState(rec.snapshot, rec.events))
	return rec.snapshot, append([]persistence.Event(nil), rec.events...), nil
}

func (s *slowStorage) Clear(name persistence.Name) error {
	s.mu.Lock()
	defer s.mu.Unlock()
	delete(s.recs, name)
	return nil
}

func (s *slowStorage) takeTrace() []string {
	s.mu.Lock()
	defer s.mu.Unlock()
	return append([]string(nil), s.trace...)
}

// ---------------------------------------------------------------- observers

type nSpawn struct{}
type nArm struct{}
type nStop struct{ graceful bool }
type nSetPeer struct{ peer vivid.ActorRef }
type nWatch struct{ ref vivid.ActorRef }

// nsup spawns the persistent actor inside its own handlers. As "parent" it re-creates its child when it is told that the
// child has terminated; as "watcher" it re-creates the actor it watches (as its own child) when it is told that it has
// terminated, and asks its peer to watch the new one.
type nsup struct {
	sc       *nscene
	watcher  bool
	peer     vivid.ActorRef
	child    vivid.ActorRef
	watching vivid.ActorRef
	armed    bool
}

type nscene struct {
	env     *env
	storage *slowStorage
	th      int
	refs    chan vivid.ActorRef
	watched chan struct{}
}

func (sc *nscene) provider() vivid.Actor {
	e := sc.env
	e.mu.Lock()
	e.gen++
	g := e.gen
	e.mu.Unlock()
	return &recorder{env: e, gen: g}
}

func (sc *nscene) configure(d *vivid.ActorDescriptor) {
	d.WithName("acc")
	d.WithPersistenceName("c09n:" + sc.env.name)
	d.WithPersistenceEventThreshold(sc.th)
	d.WithPersistenceStorageProvider(persistence.FunctionalStorageProvider(func() persistence.Storage { return sc.storage }))
	d.WithSupervisionStrategyProvider(restartNow)
}

func (s *nsup) OnReceive(ctx vivid.ActorContext) {
	switch m := ctx.Message().(type) {
	case *nSpawn:
		s.child = ctx.ActorOfF(s.sc.provider, s.sc.configure)
		ctx.Reply(s.child)
	case *nSetPeer:
		s.peer = m.peer
		ctx.Reply(m)
	case *nWatch:
		s.watching = m.ref
		ctx.Watch(m.ref)
		select {
		case s.sc.watched <- struct{}{}:
		default:
		}
		if ctx.Sender() != nil {
			ctx.Reply(m)
		}
	case *nArm:
		s.armed = true
		ctx.Reply(m)
	case *nStop:
		ctx.Terminate(s.child, m.graceful)
	case *vivid.OnTerminated:
		if !s.armed {
			return
		}
		if !s.watcher && s.child != nil && m.TerminatedActor.Equal(s.child) {
			// the parent has been told that its child has terminated: the child is created again, here and now
			s.armed = false
			s.child = ctx.ActorOfF(s.sc.provider, s.sc.configure)
			s.sc.refs <- s.child
		} else if s.watcher && s.watching != nil && m.TerminatedActor.Equal(s.watching) {
			// a watcher has been told that the actor has terminated: it creates it again as its own child
			s.armed = false
			s.watching = nil
			s.child = ctx.ActorOfF(s.sc.provider, s.sc.configure)
			if s.peer != nil {
				ctx.Tell(s.peer, &nWatch{ref: s.child})
			}
			s.sc.refs <- s.child
		}
	}
}

// ---------------------------------------------------------------- driver

const nStepTimeout = 6 * time.Second

var nseq atomic.Int64

type ndriver struct {
	sys *vivid.ActorSystem
}

func newSilentSystem() *vivid.ActorSystem {
	return vivid.NewActorSystem(vivid.FunctionalActorSystemConfigurator(func(c *vivid.ActorSystemConfiguration) {
		c.WithLoggerProvider(silent)
	}))
}

func (d *ndriver) ask(target vivid.ActorRef, m vivid.Message) (res vivid.Message, err error) {
	type rr struct {
		m   vivid.Message
		err error
	}
	ch := make(chan rr, 1)
	sys := d.sys
	go func() {
		defer func() {
			if e := recover(); e != nil {
				ch <- rr{nil, fmt.Errorf("panic: %v", e)}
			}
		}()
		v, e := sys.FutureAsk(target, m, nStepTimeout).Result()
		ch <- rr{v, e}
	}()
	select {
	case r := <-ch:
		return r.m, r.err
	case <-time.After(nStepTimeout + 2*time.Second):
		return nil, errTimeout
	}
}

func (d *ndriver) shutdown(graceful bool) error {
	sys := d.sys
	done := make(chan struct{})
	go func() {
		defer func() { _ = recover(); close(done) }()
		sys.Shutdown(graceful)
	}()
	select {
	case <-done:
		return nil
	case <-time.After(nStepTimeout):
		return errTimeout
	}
}

func (d *ndriver) query(ref vivid.ActorRef, afterGen int) ([]int64, int, error) {
	r, err := d.ask(ref, &queryMsg{})
	if err != nil {
		return nil, 0, err
	}
	qr, ok := r.(*queryReply)
	if !ok {
		return nil, 0, fmt.Errorf("unexpected reply %T", r)
	}
	if qr.gen <= afterGen {
		return nil, 0, fmt.Errorf("query answered by generation %d, expected a later one than %d", qr.gen, afterGen)
	}
	return qr.state, qr.gen, nil
}

func waitGen(e *env, after int) error {
	deadline := time.After(nStepTimeout)
	for {
		select {
		case g := <-e.launched:
			if g > after {
				return nil
			}
		case <-deadline:
			return errTimeout
		}
	}
}

func waitRef(ch chan vivid.ActorRef) (vivid.ActorRef, error) {
	select {
	case r := <-ch:
		return r, nil
	case <-time.After(nStepTimeout):
		return nil, errTimeout
	}
}

func waitSig(ch chan struct{}) error {
	select {
	case <-ch:
		return nil
	case <-time.After(nStepTimeout):
		return errTimeout
	}
}

// runNotice drives one case on the real system and fills c.Impl / c.Storage.
func runNotice(c *NCase) {
	c.Impl = make([]NObs, 0, len(c.Gens))
	st := &slowStorage{delay: time.Duration(c.DelayUS) * time.Microsecond, recs: map[persistence.Name]*slowRec{}}
	e := &env{name: fmt.Sprintf("n%d-%d", os.Getpid(), nseq.Add(1)), launched: make(chan int, 64), terminated: make(chan struct{}, 8)}
	sc := &nscene{env: e, storage: st, th: int(c.Th), refs: make(chan vivid.ActorRef, 4), watched: make(chan struct{}, 4)}
	d := &ndriver{sys: newSilentSystem()}
	defer func() {
		c.Storage = st.takeTrace()
		sys := d.sys
		go func() { defer func() { _ = recover() }(); sys.Shutdown(false) }()
	}()
	lost := func(err error) {
		for len(c.Impl) < len(c.Gens) {
			c.Impl = append(c.Impl, NObs{Err: err.Error()})
			err = fmt.Errorf("not run: an earlier step was lost")
		}
	}

	var child vivid.ActorRef
	var sups [2]vivid.ActorRef // parent mode: sups[0]; watcher mode: both, pi = index of the present parent
	pi := 0
	mkSup := func(name string, watcher bool) vivid.ActorRef {
		return d.sys.ActorOfF(func() vivid.Actor { return &nsup{sc: sc, watcher: watcher} }, func(desc *vivid.ActorDescriptor) { desc.WithName(name) })
	}
	switch c.Mode {
	case "parent", "watcher":
		sups[0] = mkSup("c09n-a", c.Mode == "watcher")
		r, err := d.ask(sups[0], &nSpawn{})
		if err != nil {
			lost(err)
			return
		}
		child = r.(vivid.ActorRef)
		if c.Mode == "watcher" {
			sups[1] = mkSup("c09n-b", true)
			for i := 0; i < 2; i++ {
				if _, err := d.ask(sups[i], &nSetPeer{peer: sups[1-i]}); err != nil {
					lost(err)
					return
				}
			}
			if _, err := d.ask(sups[1], &nWatch{ref: child}); err != nil {
				lost(err)
				return
			}
			if err := waitSig(sc.watched); err != nil {
				lost(err)
				return
			}
		}
	case "shutdown":
		child = d.sys.ActorOfF(sc.provider, sc.configure)
	default:
		panic("bad mode " + c.Mode)
	}
	if err := waitGen(e, 0); err != nil {
		lost(err)
		return
	}
	gen := 1
	for _, g := range c.Gens {
		var obs NObs
		fail := func(err error) {
			obs.Err = err.Error()
			c.Impl = append(c.Impl, obs)
			lost(fmt.Errorf("not run: an earlier step was lost"))
		}
		for _, v := range g.Events {
			if _, err := d.ask(child, &addMsg{v: v}); err != nil {
				fail(err)
				return
			}
		}
		end, _, err := d.query(child, gen-1)
		if err != nil {
			fail(err)
			return
		}
		obs.End = end
		switch {
		case g.End == "fail":
			d.sys.Tell(child, &crashMsg{})
			if err := waitGen(e, gen); err != nil {
				fail(err)
				return
			}
		case c.Mode == "shutdown":
			if err := d.shutdown(g.End == "stop"); err != nil {
				fail(err)
				return
			}
			// Shutdown has returned: a new system on the same storage, the actor is created again at once
			d.sys = newSilentSystem()
			child = d.sys.ActorOfF(sc.provider, sc.configure)
			if err := waitGen(e, gen); err != nil {
				fail(err)
				return
			}
		default:
			observer := sups[pi]
			if c.Mode == "watcher" {
				observer = sups[1-pi]
			}
			if _, err := d.ask(observer, &nArm{}); err != nil {
				fail(err)
				return
			}
			d.sys.Tell(sups[pi], &nStop{graceful: g.End == "stop"})
			ref, err := waitRef(sc.refs)
			if err != nil {
				fail(err)
				return
			}
			child = ref
			if c.Mode == "watcher" {
				if err := waitSig(sc.watched); err != nil { // the old parent now watches the new generation
					fail(err)
					return
				}
				pi = 1 - pi
			}
		}
		launch, g2, err := d.query(child, gen)
		if err != nil {
			fail(err)
			return
		}
		gen = g2
		obs.Launch = launch
		c.Impl = append(c.Impl, obs)
	}
}

// ---------------------------------------------------------------- monitor (Go-side restatement of the property)

func nmonitor(c *NCase) (viol []vh.Violation) {
	var ends [][]int64
	for i, g := range c.Gens {
		if i >= len(c.Impl) || c.Impl[i].Err != "" {
			return // a lost step is not evidence about the property
		}
		want, got := c.Impl[i].End, c.Impl[i].Launch
		if !eqs(want, got) {
			class := "state-wrong"
			stale := -1
			for j, old := range ends {
				if len(old) > 0 && eqs(old, got) {
					stale = j
				}
			}
			switch {
			case stale >= 0:
				class = "state-stale"
			case len(got) == 0 || classify(want, got) == "lost":
				class = "state-lost"
			}
			how := "created the moment the end was observed (" + c.Mode + ")"
			if g.End == "fail" {
				how = "the instance launched by the supervised restart"
			}
			detail := fmt.Sprintf("generation %d ended (%s) with state %v; the next generation, %s, launched with state %v", i+1, g.End, want, how, got)
			if stale >= 0 {
				detail += fmt.Sprintf(" = the state generation %d had ended with (an older record)", stale+1)
			}
			detail += fmt.Sprintf("; Save latency %dus; storage saw: %v", c.DelayUS, c.Storage)
			if len(viol) < 3 {
				viol = append(viol, vh.Violation{Kind: "persist:recreate-on-notice:" + class, Detail: detail,
					Sig: map[string]string{"mode": c.Mode, "end": g.End}})
			}
		}
		ends = append(ends, want)
	}
	return
}

// ---------------------------------------------------------------- Coq terms

func coqNCase(id int, c *NCase) string {
	gens := []string{}
	for i, g := range c.Gens {
		if i == 0 {
			continue
		}
		gens = append(gens, vh.Pair(vh.ListZ(g.Events), vh.Bool(g.End == "fail")))
	}
	gens = append(gens, vh.Pair("[]", "false")) // the generation launched after the last end
	impl := make([]string, len(c.Impl))
	for i, o := range c.Impl {
		if o.Err != "" {
			impl[i] = "None"
		} else {
			impl[i] = vh.Some(vh.ListZ(o.Launch))
		}
	}
	return fmt.Sprintf("{| nid := %d; nfirst := %s; nfirst_r := %s; ngens := %s; nimpl := %s |}", id, vh.ListZ(c.Gens[0].Events),
		vh.Bool(c.Gens[0].End == "fail"), vh.List(gens), vh.List(impl))
}

// ---------------------------------------------------------------- generators

func noticeCorpus() []NCase {
	var cs []NCase
	for _, mode := range []string{"parent", "watcher", "shutdown"} {
		for _, delay := range []int{300, 4000, 25000} {
			// the demonstration of the seeded change: six events, threshold 4, stop, re-create on the notice
			cs = append(cs, NCase{Mode: mode, DelayUS: delay, Th: 4, Gens: []NGen{{Events: []int64{1, 2, 3, 4, 5, 6}, End: "stop"}, {Events: []int64{7}, End: "stop-now"}}})
			// three generations, the second one short-lived: a late Save of the first overwrites / is loaded instead of the second's
			cs = append(cs, NCase{Mode: mode, DelayUS: delay, Th: 2, Gens: []NGen{{Events: []int64{1, 2, 3}, End: "stop"}, {Events: []int64{4}, End: "fail"}, {Events: []int64{5, 6}, End: "stop"}, {Events: nil, End: "stop-now"}}})
		}
	}
	return cs
}

func genNotice(rng *vh.RNG) NCase {
	c := NCase{Mode: []string{"parent", "watcher", "shutdown"}[rng.Intn(3)]}
	c.DelayUS = []int{0, 200, 1000, 5000, 20000}[rng.Intn(5)]
	switch rng.Intn(6) {
	case 0:
		c.Th = 1000
	default:
		c.Th = int64(rng.Range(1, 4))
	}
	n := rng.Range(2, 4)
	var next int64
	for i := 0; i < n; i++ {
		g := NGen{}
		for k := rng.Intn(4); k > 0; k-- {
			next++
			g.Events = append(g.Events, next)
		}
		switch rng.Intn(4) {
		case 0:
			g.End = "fail"
		case 1:
			g.End = "stop-now"
		default:
			g.End = "stop"
		}
		c.Gens = append(c.Gens, g)
	}
	return c
}

// ---------------------------------------------------------------- main of the family

func noticeNontrivial(c *NCase) bool {
	n := 0
	for _, o := range c.Impl {
		if o.Err == "" && len(o.End) > 0 {
			n++
		}
	}
	return len(c.Gens) >= 2 && n >= 1
}

func noticeReplay(path string) {
	var c NCase
	vh.LoadReplayCase(path, &c)
	want := append([]NObs(nil), c.Impl...)
	runNotice(&c)
	v := nmonitor(&c)
	b, _ := json.Marshal(map[string]interface{}{"case": c, "recorded_impl": want, "monitor": v})
	fmt.Println(string(b))
	if len(v) > 0 {
		os.Exit(1)
	}
}

func noticeMain(f vh.Flags) {
	out := vh.NewOut(f.Out, "notice", "From MV Require Import Lib.ListX C09.OrderModel C09.OrderRun.", "ncase", "notice_mismatches", f.Seed,
		"generations of one persistent actor under one persistence name on a real ActorSystem with a storage whose Save takes 0..25 ms; the next "+
			"generation is created by the observer of the previous one's end, the moment he observes it: the parent inside OnTerminated, a watcher "+
			"inside OnTerminated, a new system right after Shutdown has returned; a generation may also end by a supervised restart; "+
			"corpus (3 observers x 3 latencies x 2 scripts) + random scripts (2..4 generations, 0..3 events each, thresholds 1..4 and 1000); "+
			"non-trivial = at least 2 generations and at least one that ended with a non-empty state")
	var cases []NCase
	cases = append(cases, noticeCorpus()...)
	n := 24
	if f.Tier == "thorough" {
		n = 300
	}
	if f.N != 0 {
		n = f.N
	}
	rng := vh.NewRNG(f.Seed ^ 0xc09)
	for i := 0; i < n; i++ {
		cr, _ := rng.Derive()
		cases = append(cases, genNotice(cr))
	}
	// the cases are independent (own systems, own storage): a few at a time
	var wg sync.WaitGroup
	sem := make(chan struct{}, 4)
	for i := range cases {
		wg.Add(1)
		sem <- struct{}{}
		go func(c *NCase) {
			defer func() { <-sem; wg.Done() }()
			runNotice(c)
			lostStep := false
			for _, o := range c.Impl {
				lostStep = lostStep || o.Err != ""
			}
			if lostStep { // once more: a loaded machine must not look like a defect
				runNotice(c)
			}
		}(&cases[i])
	}
	wg.Wait()
	for i := range cases {
		c := &cases[i]
		v := nmonitor(c)
		out.Count("observer", c.Mode)
		out.Count("save_latency_us", fmt.Sprint(c.DelayUS))
		out.Count("generations", vh.Bucket(len(c.Gens)))
		out.Count("threshold", fmt.Sprint(c.Th))
		for _, g := range c.Gens {
			out.Count("end", g.End)
		}
		for _, o := range c.Impl {
			if o.Err != "" {
				out.Count("lost_steps", "lost")
				break
			}
		}
		out.Add(c, coqNCase(out.N(), c), noticeNontrivial(c), v)
	}
	out.Close()
}
