// c03launch: search oracle for the window inside ActorOf between the registration of the new address and the queuing of
// OnLaunch (defect repaired by /repo bde59a1: the mailbox is created suspended). Parent actors spawn children under
// predictable names while foreign goroutines keep sending to those addresses; the first message each child handles must be
// its OnLaunch. Real ActorSystem, real goroutines; no Coq evaluation (the kernel theorem C03_launch_first assumes that
// spawn is atomic — this harness samples the assumption on the real code).
package main

import (
	"encoding/json"
	"fmt"
	"os"
	"runtime"
	"sync"
	"sync/atomic"

	"github.com/kercylan98/minotaur/engine/vivid"
	"github.com/kercylan98/minotaur/engine/vivid/dispatcher"
	"github.com/kercylan98/minotaur/engine/vivid/mailbox"
	"github.com/kercylan98/minotaur/toolkit/log"
	"verif/harness/vh"
)

type Case struct {
	Spawns  int    `json:"spawns"`
	Senders int    `json:"senders"`
	Mailbox string `json:"mailbox"`
	Parents int    `json:"parents"`
	Early   int    `json:"early"`   // children whose first handled message was not OnLaunch
	Reached int    `json:"reached"` // children that received at least one of the racing messages at all
	First   string `json:"first"`   // type of the first offending message
}

type child struct {
	first *atomic.Value
	got   *atomic.Int32
}

func (c *child) OnReceive(ctx vivid.ActorContext) {
	c.first.CompareAndSwap(nil, fmt.Sprintf("%T", ctx.Message()))
	switch m := ctx.Message().(type) {
	case string:
		if m == "sync" {
			ctx.Reply("ok")
		} else {
			c.got.Add(1)
		}
	}
}

type spawn struct {
	name  string
	first *atomic.Value
	got   *atomic.Int32
	mbox  string
	done  chan vivid.ActorRef
}

type parent struct{}

func (p *parent) OnReceive(ctx vivid.ActorContext) {
	if m, ok := ctx.Message().(*spawn); ok {
		m.done <- ctx.ActorOfF(func() vivid.Actor { return &child{first: m.first, got: m.got} }, func(d *vivid.ActorDescriptor) {
			d.WithName(m.name)
			if m.mbox == "GlobalOrderedLockFree" {
				d.WithMailboxProvider(vivid.FunctionalMailboxProvider(func(disp dispatcher.Dispatcher, r mailbox.Recipient) mailbox.Mailbox {
					return mailbox.NewGlobalOrderedLockFree(disp, r)
				}))
			}
		})
	}
}

func runCase(c *Case) []vh.Violation {
	if runtime.GOMAXPROCS(0) < 4 {
		runtime.GOMAXPROCS(4)
	}
	sys := vivid.NewActorSystem(vivid.FunctionalActorSystemConfigurator(func(cfg *vivid.ActorSystemConfiguration) {
		cfg.WithLoggerProvider(log.FunctionalLoggerProvider(func() *log.Logger { return log.NewSilentLogger() }))
	}))
	defer sys.Shutdown(false)
	parents := make([]vivid.ActorRef, c.Parents)
	for i := range parents {
		i := i
		parents[i] = sys.ActorOfF(func() vivid.Actor { return &parent{} }, func(d *vivid.ActorDescriptor) { d.WithName(fmt.Sprintf("p%d", i)) })
	}
	c.Early, c.Reached, c.First = 0, 0, ""
	for i := 0; i < c.Spawns; i++ {
		pi := i % c.Parents
		name := fmt.Sprintf("c%d", i)
		first, got := &atomic.Value{}, &atomic.Int32{}
		target := vivid.NewActorRef(sys.PhysicalAddress(), fmt.Sprintf("/user/p%d/%s", pi, name))
		stop := make(chan struct{})
		var wg sync.WaitGroup
		for s := 0; s < c.Senders; s++ {
			wg.Add(1)
			go func() {
				defer wg.Done()
				for {
					select {
					case <-stop:
						return
					default:
						sys.Tell(target, "early")
						runtime.Gosched()
					}
				}
			}()
		}
		req := &spawn{name: name, first: first, got: got, mbox: c.Mailbox, done: make(chan vivid.ActorRef, 1)}
		sys.Tell(parents[pi], req)
		ref := <-req.done
		close(stop)
		wg.Wait()
		sys.FutureAsk(ref, "sync").Wait()
		if got.Load() > 0 {
			c.Reached++
		}
		if k, _ := first.Load().(string); k != "*vivid.OnLaunch" {
			c.Early++
			if c.First == "" {
				c.First = k
			}
		}
	}
	if c.Early > 0 {
		return []vh.Violation{{Kind: "C03:launch:user-message-before-OnLaunch",
			Detail: fmt.Sprintf("%d of %d freshly created actors handled a message (%s) before their OnLaunch: it was sent to the new address while the parent was still inside ActorOf (mailbox %s, %d racing sender(s))",
				c.Early, c.Spawns, c.First, c.Mailbox, c.Senders)}}
	}
	return nil
}

func main() {
	f := vh.ParseFlags()
	if f.Replay != "" {
		var c Case
		vh.LoadReplayCase(f.Replay, &c)
		var v []vh.Violation
		for attempt := 0; attempt < 10 && len(v) == 0; attempt++ {
			v = runCase(&c)
		}
		b, _ := json.Marshal(map[string]interface{}{"case": c, "monitor": v})
		fmt.Println(string(b))
		if len(v) > 0 {
			os.Exit(1)
		}
		return
	}
	out := vh.NewOut(f.Out, "launch", "", "", "", f.Seed,
		"parents spawning children under predictable names while 1-2 foreign goroutines keep sending to the address being created; both shipped mailboxes; the first message every child handles must be OnLaunch; non-trivial = at least one of the racing messages reached the child")
	rng := vh.NewRNG(f.Seed)
	n := 6
	per := 3000
	if f.Tier == "thorough" {
		n, per = 24, 5000
	}
	for i := 0; i < n; i++ {
		c := &Case{Spawns: per, Senders: 1 + rng.Intn(2), Parents: 1 + rng.Intn(3), Mailbox: []string{"LockFree", "GlobalOrderedLockFree"}[i%2]}
		v := runCase(c)
		out.Count("mailbox", c.Mailbox)
		out.Count("senders", fmt.Sprint(c.Senders))
		out.Count("children_reached_by_a_racing_message", vh.Bucket(c.Reached))
		out.Count("children_with_early_message", vh.Bucket(c.Early))
		out.Add(c, "", c.Reached > 0, v)
	}
	out.Close()
}
