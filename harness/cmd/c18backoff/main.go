// c18backoff: correspondence harness (T1) for toolkit/chrono.ExponentialBackoff /
// StandardExponentialBackoff against MV.C18.BackoffModel.
//
// The two oracle parameters of the model are obtained on the Go side: p = math.Pow(mult, float64(count))
// is computed here with the same toolchain, and r = rand.Float64() is controlled by replacing the
// global generator of math/rand/v2 (go:linkname, needs -ldflags=-checklinkname=0) with one whose
// source returns a chosen 53-bit integer k, so r = k / 2^53 exactly.  Floats travel as bit patterns.
package main

import (
	"encoding/json"
	"fmt"
	"math"
	"math/rand/v2"
	"os"
	"strconv"
	"time"
	_ "unsafe"

	"github.com/kercylan98/minotaur/toolkit/chrono"
	"verif/harness/cmd/c18lib"
	"verif/harness/vh"
)

//go:linkname globalRand math/rand/v2.globalRand
var globalRand *rand.Rand

type fixedSrc struct {
	v     uint64
	draws int
}

func (f *fixedSrc) Uint64() uint64 { f.draws++; return f.v }

var src = &fixedSrc{}

type Case struct {
	Fn    string  `json:"fn"` // exp | std
	Count int64   `json:"count"`
	Limit int64   `json:"limit"`
	Base  int64   `json:"base"`
	Max   int64   `json:"max"`
	Mult  float64 `json:"mult"`
	Rnd   float64 `json:"rnd"`
	K     uint64  `json:"k"` // r = k / 2^53
	// observed
	PBits string `json:"p_bits"` // bits of math.Pow(mult, float64(count)), decimal
	P     string `json:"p"`
	Impl  int64  `json:"impl"`
	Panic string `json:"panic,omitempty"`
	Draws int    `json:"draws"`
}

func runImpl(c *Case) {
	p := math.Pow(c.Mult, float64(c.Count))
	c.PBits = strconv.FormatUint(math.Float64bits(p), 10)
	c.P = strconv.FormatFloat(p, 'g', -1, 64)
	src.v, src.draws = c.K, 0
	c.Panic = ""
	func() {
		defer func() {
			if e := recover(); e != nil {
				c.Panic = fmt.Sprint(e)
			}
		}()
		if c.Fn == "std" {
			c.Impl = int64(chrono.StandardExponentialBackoff(int(c.Count), int(c.Limit), time.Duration(c.Base), time.Duration(c.Max)))
		} else {
			c.Impl = int64(chrono.ExponentialBackoff(int(c.Count), int(c.Limit), time.Duration(c.Base), time.Duration(c.Max), c.Mult, c.Rnd))
		}
	}()
	c.Draws = src.draws
}

func fnName(c *Case) string {
	if c.Fn == "std" {
		return "StandardExponentialBackoff"
	}
	return "ExponentialBackoff"
}

func inRange(c *Case) bool { return c18lib.InRange(c.Count, c.Base, c.Max, c.Mult, c.Rnd) }

// ---- property monitor (independent of the Coq model): the statement of C18 for the back-off function
func monitor(c *Case) (viol []vh.Violation) {
	add := func(class, detail string) {
		viol = append(viol, vh.Violation{Kind: "backoff:" + fnName(c) + ":" + class, Detail: detail, Case: *c,
			Sig: map[string]string{"fn": fnName(c)}})
	}
	if c.Panic != "" {
		add("panic", c.Panic)
		return
	}
	if !inRange(c) {
		return
	}
	stop := c.Limit >= 0 && c.Count > c.Limit
	if stop != (c.Impl == -1) {
		add("stop-mismatch", fmt.Sprintf("count=%d limit=%d: stop expected=%v, returned %d", c.Count, c.Limit, stop, c.Impl))
		return
	}
	if stop {
		return
	}
	if class, detail := c18lib.Delay(c.Count, c.Base, c.Max, c.Mult, c.Rnd, c.Impl); class != "" {
		add(class, detail)
	}
	return
}

// ---- non-triviality (DESIGN §6a): product within 4x of max, or >= 2^62, or count at limit±1
func classify(c *Case) (nt bool, region string) {
	if c.Limit >= 0 && c.Count >= c.Limit-1 && c.Count <= c.Limit+1 {
		nt = true
	}
	if !inRange(c) {
		return nt, "malformed"
	}
	region, big := c18lib.Region(c.Count, c.Base, c.Max, c.Mult)
	return nt || big, region
}

func coqCase(id int, c *Case) string {
	impl := c18lib.Z(c.Impl)
	if c.Panic != "" {
		impl = "(zn 7)"
	}
	pb, _ := strconv.ParseUint(c.PBits, 10, 64)
	return fmt.Sprintf("Build_case %s %s %s %s %s %s %s (zi %d) %s %s",
		c18lib.Nat(id), c18lib.Z(c.Count), c18lib.Z(c.Limit), c18lib.Z(c.Base), c18lib.Z(c.Max), c18lib.Bits(math.Float64bits(c.Rnd)), c18lib.Bits(pb), c.K, vh.Bool(c.Panic != ""), impl)
}

func countBucket(n int64) string {
	switch {
	case n < 0:
		return "<0"
	case n <= 10:
		return "0-10"
	case n <= 35:
		return "11-35"
	case n <= 70:
		return "36-70"
	case n <= 1023:
		return "71-1023"
	case n <= 2000:
		return "1024-2000"
	}
	return ">2000"
}

func record(out *vh.Out, c *Case, malformed bool) {
	runImpl(c)
	v := monitor(c)
	nt, region := classify(c)
	if malformed || !inRange(c) {
		out.Malformed()
		nt = false
	}
	out.Count("count", countBucket(c.Count))
	out.Count("product_region", region)
	out.Count("limit", vh.Bucket(int(c.Limit)))
	out.Count("fn", c.Fn)
	if c.Limit >= 0 && c.Count > c.Limit {
		out.Count("outcome", "stop")
	} else if c.Impl == c.Max {
		out.Count("outcome", "max")
	} else {
		out.Count("outcome", "below-max")
	}
	out.Add(c, coqCase(out.N(), c), nt, v)
}

// ---- generators (value generators are in c18lib)
const days30 = c18lib.Days30

func genCase(rng *vh.RNG) (c Case, malformed bool) {
	c.Fn = "exp"
	c.Base, c.Max = c18lib.GenDur(rng), c18lib.GenDur(rng)
	if rng.Chance(3, 4) && c.Base > c.Max {
		c.Base, c.Max = c.Max, c.Base
	}
	if rng.Chance(1, 40) {
		c.Max = math.MaxInt64 - int64(rng.Intn(3))
	}
	if rng.Chance(1, 40) {
		c.Base = 1 << uint(rng.Range(53, 62))
	}
	c.Mult, c.Rnd, c.K = c18lib.GenMult(rng), c18lib.GenRnd(rng), c18lib.GenK(rng)
	if rng.Chance(1, 2) {
		c.Limit = -1
	} else {
		c.Limit = int64(rng.Range(-1, 12))
	}
	switch rng.Intn(10) {
	case 0, 1, 2:
		c.Count = int64(rng.Range(0, 70))
	case 3, 4:
		c.Count = int64(rng.Range(0, 2000))
	case 5:
		k := uint(rng.Range(1, 62))
		c.Count = int64(1)<<k + int64(rng.Range(-1, 1))
	case 6, 7: // around the point where the product crosses max
		c.Count = c18lib.Crossing(c.Base, c.Mult, float64(c.Max)) + int64(rng.Range(-2, 2))
	default: // around the point where the product crosses 2^62, 2^63, 2^64, MaxFloat64
		t := []float64{0x1p62, 0x1p63, 0x1p64, math.MaxFloat64}[rng.Intn(4)]
		c.Count = c18lib.Crossing(c.Base, c.Mult, t) + int64(rng.Range(-2, 2))
	}
	if c.Count < 0 {
		c.Count = 0
	}
	if c.Limit >= 0 && rng.Chance(1, 2) {
		c.Count = c.Limit + int64(rng.Range(-1, 1))
		if c.Count < 0 {
			c.Count = 0
		}
	}
	if rng.Chance(1, 6) {
		c.Fn = "std"
		c.Mult, c.Rnd = 2, 0.5
	}
	// malformed stream: outside the documented ranges (model comparison only, no property monitor)
	if rng.Chance(1, 25) {
		malformed = true
		switch rng.Intn(6) {
		case 0:
			c.Base = -c.Base - 1
		case 1:
			c.Max = -c.Max - 1
		case 2:
			c.Fn, c.Mult = "exp", []float64{0, 0.5, 0.9, -2, 11, 1e300}[rng.Intn(6)]
		case 3:
			c.Fn, c.Rnd = "exp", []float64{-1, 2, 1e300, -1e300, 17.5}[rng.Intn(5)]
		case 4:
			c.Count = -int64(rng.Range(1, 2000))
		case 5:
			c.Limit = -int64(rng.Range(2, 1000)) // still "unlimited"
		}
	}
	return
}

func corpus() []Case {
	std := func(count, limit, base, max int64) Case {
		return Case{Fn: "std", Count: count, Limit: limit, Base: base, Max: max, Mult: 2, Rnd: 0.5, K: 1 << 52}
	}
	cs := []Case{
		// DESIGN §6 C18 probe: float->int64 overflow before the comparison with max
		std(36, -1, 200_000_000, 3_000_000_000), std(35, -1, 200_000_000, 3_000_000_000), std(40, -1, 200_000_000, 3_000_000_000),
		std(2000, -1, 200_000_000, 3_000_000_000), std(10, -1, 200_000_000, 3_000_000_000), std(3, -1, 200_000_000, 3_000_000_000),
		std(0, -1, 200_000_000, 3_000_000_000), std(4, 3, 200_000_000, 3_000_000_000), std(3, 3, 200_000_000, 3_000_000_000),
		std(1024, -1, 0, 3_000_000_000), std(1023, -1, 1, 3_000_000_000), std(1024, -1, 1, 3_000_000_000),
		std(62, -1, 1, math.MaxInt64), std(63, -1, 1, math.MaxInt64), std(64, -1, 1, math.MaxInt64), std(62, -1, 2, math.MaxInt64),
		std(1, 0, 5, 10), std(0, 0, 5, 10), std(13, 12, 5, 10),
	}
	cs = append(cs, Case{Fn: "exp", Count: 19, Limit: -1, Base: 1, Max: 1_000_000, Mult: 10, Rnd: 0, K: 0},
		Case{Fn: "exp", Count: 18, Limit: -1, Base: 1, Max: 1_000_000, Mult: 10, Rnd: 1, K: 1<<53 - 1},
		Case{Fn: "exp", Count: 1 << 40, Limit: -1, Base: 1000, Max: 1_000_000, Mult: 1, Rnd: 1, K: 0},
		Case{Fn: "exp", Count: 1<<62 + 1, Limit: 12, Base: 1000, Max: 1_000_000, Mult: 1.5, Rnd: 1, K: 0},
		// math.Pow loses 1.2e-7 here (x close to 1, huge y): must not be blamed on the back-off
		Case{Fn: "exp", Count: 1<<56 + 1, Limit: -1, Base: 2, Max: days30, Mult: 1.0000000000000002, Rnd: 0.9826353675972973, K: 0})
	return cs
}

func main() {
	globalRand = rand.New(src)
	f := vh.ParseFlags()
	if f.Replay != "" {
		var c Case
		vh.LoadReplayCase(f.Replay, &c)
		want := c.Impl
		runImpl(&c)
		v := monitor(&c)
		b, _ := json.Marshal(map[string]interface{}{"case": c, "recorded_impl": want, "monitor": v})
		fmt.Println(string(b))
		if len(v) > 0 {
			os.Exit(1)
		}
		return
	}
	out := vh.NewOut(f.Out, "backoff", "From Coq Require Import Uint63.\nFrom MV Require Import Lib.ListX C18.BackoffModel C18.BackoffRun.", "case", "mismatches", f.Seed,
		"(fn, count, limit, base, max, mult, rnd, k) with r = k/2^53 injected and p = math.Pow observed; counts 0..2000, 2^k±1, around the crossings of max, 2^62, 2^63, 2^64 and MaxFloat64; limits -1..12; base/max 0, 1 ns .. 30 days log-uniform plus MaxInt64 and 2^53..2^62; mult 1..10; rnd 0..1; thorough adds every count 0..2000 for 12 parameter sets; non-trivial = product within 4x of max, or >= 2^62 (incl. +Inf), or count within 1 of a set limit; malformed (negative durations/count, mult<1 or >10, rnd outside [0,1]) counted separately and only compared with the model")
	rng := vh.NewRNG(f.Seed)
	for _, c := range corpus() {
		c := c
		record(out, &c, false)
	}
	n := f.N
	if n == 0 {
		n = 10000
		if f.Tier == "thorough" {
			n = 60000
		}
	}
	for i := 0; i < n; i++ {
		cr, _ := rng.Derive()
		c, mal := genCase(cr)
		record(out, &c, mal)
	}
	if f.Tier == "thorough" {
		type ps struct {
			base, max int64
			mult, rnd float64
		}
		sets := []ps{{200_000_000, 3_000_000_000, 2, 0.5}, {1, days30, 2, 0.5}, {1, 1, 10, 1}, {1_000_000, 1_000_000_000, 1.5, 0.25},
			{1, math.MaxInt64, 2, 0}, {0, 1000, 2, 0.5}, {1000, 60_000_000_000, 10, 1}, {3, 3_600_000_000_000, 3, 0.3},
			{1_000_000_000, 86_400_000_000_000, 1.1, 0.5}, {days30, days30, 2, 1}, {1, 2, 1, 1}, {7, 1 << 62, 7, 0.7}}
		for si, s := range sets {
			for count := int64(0); count <= 2000; count++ {
				cr, _ := rng.Derive()
				c := Case{Fn: "exp", Count: count, Limit: []int64{-1, -1, 12, 2000}[(si+int(count))%4], Base: s.base, Max: s.max, Mult: s.mult, Rnd: s.rnd, K: c18lib.GenK(cr)}
				record(out, &c, false)
			}
		}
	}
	out.Close()
}
