// c15rupump: stress harness for toolkit/buffer.RingUnbounded (mutex + cond + pump goroutine) through
// its public API (NewRingUnbounded / Write / Read / Close). Plain, uninstrumented runs of the real code:
// a case is a SCENARIO (buffer size, 1..3 producers writing tagged sequences, where micro-delays and
// yields are placed, when Close is called, when the consumer starts, writes after Close) together with
// what was OBSERVED (per producer the writes and whether each returned before Close was called, the
// received sequence, whether the channel was closed, whether the Close() signal fired, time-outs).
// The Go monitor judges the property on the observation; the same observation is evaluated in Coq by
// MV.C15.RuPumpRun.rumismatches (observable consequences of the theorems about the machine
// MV.C15.RuPumpModel — the tie is by observable traces only, the machine is not replayed step by step).
//
// Every wait has a time-out (reported as outcome "timeout"); goroutines of a case that are stuck are
// abandoned, the harness itself never blocks on them.
package main

import (
	"encoding/json"
	"fmt"
	"os"
	"runtime"
	"sort"
	"sync"
	"sync/atomic"
	"time"

	"github.com/kercylan98/minotaur/toolkit/buffer"
	"verif/harness/vh"
)

// ---------------------------------------------------------------- scenario and observation

// Delay codes: 0 nothing, 1 runtime.Gosched(), k>=2 yield-spin for (k-1) microseconds.
type Scn struct {
	Buf      int     `json:"buf"`       // bufferSize of NewRingUnbounded (capacity of the output channel)
	Settle   int     `json:"settle"`    // delay code after New (lets the pump reach cond.Wait or not)
	Prods    [][]int `json:"prods"`     // per producer: delay code before each Write; value = (p+1)*1000+seq
	Close    string  `json:"close"`     // before (any write) | after (all producers returned) | inline (by producer 1 itself, right after its last Write) | concurrent
	CloseAt  int     `json:"close_at"`  // concurrent: Close is called once this many Writes have returned
	CloseDly int     `json:"close_dly"` // delay code immediately before Close is called
	Twice    int     `json:"twice"`     // 0 | 1 second Close after the first returned | 2 second Close concurrently
	Cons     string  `json:"cons"`      // consumer starts: early | atclose (when Close is called) | late (+ConsDly) | afterreturn (Close returned; only if everything fits the channel)
	ConsDly  int     `json:"cons_dly"`
	ConsSlow int     `json:"cons_slow"` // delay code after each receive
	Post     int     `json:"post"`      // Writes issued by producer 1 after Close returned
	Echo     bool    `json:"echo"`      // the consumer writes inside its range loop (shape of the repository's own test)
}

type WRec struct {
	V    int64 `json:"v"`
	Sure bool  `json:"sure"` // the Write returned and Close had not yet been called: certainly accepted
	Done bool  `json:"done"` // the Write returned
}

type Obs struct {
	Written     [][]WRec `json:"written"` // issued writes per producer (last row = consumer's echo writes, if any)
	Received    []int64  `json:"received"`
	Closed      bool     `json:"closed"`        // the consumer saw the channel closed
	Signal      bool     `json:"signal"`        // the channel returned by Close() was closed
	RecvAtClose int      `json:"recv_at_close"` // elements received when Close was called (-1: Close never called)
	Timeouts    []string `json:"timeouts,omitempty"`
	Panic       string   `json:"panic,omitempty"`
	Outcome     string   `json:"outcome"` // done | timeout | panic
}

type Case struct {
	Scn Scn `json:"scn"`
	Obs Obs `json:"obs"`
}

const waitT = 2 * time.Second

func delay(code int) {
	switch {
	case code <= 0:
	case code == 1:
		runtime.Gosched()
	default:
		d := time.Duration(code-1) * time.Microsecond
		for t0 := time.Now(); time.Since(t0) < d; {
			runtime.Gosched()
		}
	}
}

type prodState struct {
	recs   []WRec
	issued atomic.Int32
	done   atomic.Int32
}

func (ps *prodState) snapshot() []WRec {
	d := int(ps.done.Load())
	is := int(ps.issued.Load())
	out := make([]WRec, 0, is)
	for i := 0; i < is; i++ {
		if i < d {
			out = append(out, ps.recs[i])
		} else {
			out = append(out, WRec{V: ps.recs[i].V})
		}
	}
	return out
}

type consRes struct {
	got    []int64
	closed bool
	to     string
	pan    string
}

// runCase runs one scenario against the implementation. It never blocks for more than a few waitT.
func runCase(s *Scn) Obs {
	var o Obs
	o.RecvAtClose = -1
	var toMu sync.Mutex
	timeout := func(what string) {
		toMu.Lock()
		o.Timeouts = append(o.Timeouts, what)
		toMu.Unlock()
	}
	var panMu sync.Mutex
	var pan string
	setPanic := func(where string, e interface{}) {
		panMu.Lock()
		if pan == "" {
			pan = fmt.Sprintf("%s: %v", where, e)
		}
		panMu.Unlock()
	}

	var ru *buffer.RingUnbounded[int64]
	func() {
		defer func() {
			if e := recover(); e != nil {
				setPanic("new", e)
			}
		}()
		ru = buffer.NewRingUnbounded[int64](s.Buf)
	}()
	if ru == nil {
		o.Panic, o.Outcome = pan, "panic"
		return o
	}
	delay(s.Settle)

	np := len(s.Prods)
	ps := make([]*prodState, np+1) // +1: echo writes of the consumer
	for p := 0; p < np; p++ {
		ps[p] = &prodState{recs: make([]WRec, len(s.Prods[p])+s.Post)}
	}
	if s.Echo {
		ps[np] = &prodState{recs: make([]WRec, 1000)}
	} else {
		ps[np] = &prodState{}
	}

	var closeCalled atomic.Bool
	closeCalledCh := make(chan struct{})
	closeDone := make(chan struct{}) // the closer goroutine is through with its Close call(s)
	var recvCount, doneCount atomic.Int64
	var recvAtClose atomic.Int64
	recvAtClose.Store(-1)
	startCh := make(chan struct{})
	mainFin := make(chan struct{}, np)
	allMain := make(chan struct{})
	fin := make(chan struct{}, np)
	closeRet := make(chan (<-chan struct{}), 1)
	close2Ret := make(chan struct{}, 1)
	consOut := make(chan consRes, 1)

	write := func(st *prodState, i int, v int64) {
		st.recs[i].V = v
		st.issued.Store(int32(i + 1))
		ru.Write(v)
		sure := !closeCalled.Load()
		st.recs[i].Sure, st.recs[i].Done = sure, true
		st.done.Store(int32(i + 1))
	}

	// ---- consumer
	go func() {
		var r consRes
		defer func() {
			if e := recover(); e != nil {
				r.pan = fmt.Sprint(e)
				setPanic("consumer", e)
			}
			consOut <- r
		}()
		switch s.Cons {
		case "atclose", "late":
			select {
			case <-closeCalledCh:
			case <-time.After(waitT):
				r.to = "consumer-start"
			}
			if s.Cons == "late" {
				delay(s.ConsDly)
			}
		case "afterreturn":
			select {
			case <-closeDone:
			case <-time.After(waitT):
				r.to = "consumer-start"
			}
		}
		rc := ru.Read()
		timer := time.NewTimer(waitT)
		defer timer.Stop()
		k := 0
		for {
			select {
			case v, ok := <-rc:
				if !ok {
					r.closed = true
					return
				}
				r.got = append(r.got, v)
				recvCount.Add(1)
				if s.Echo && k < 999 {
					write(ps[np], k, int64((np+1)*1000+k))
					k++
				}
				delay(s.ConsSlow)
			case <-timer.C:
				r.to = "consumer-receive"
				return
			}
		}
	}()

	var closer func()
	inline := s.Close == "inline" && np > 0

	// ---- producers
	for p := 0; p < np; p++ {
		p := p
		go func() {
			defer func() {
				if e := recover(); e != nil {
					setPanic("producer", e)
				}
				fin <- struct{}{}
			}()
			func() {
				defer func() { mainFin <- struct{}{} }()
				<-startCh
				for i, d := range s.Prods[p] {
					delay(d)
					write(ps[p], i, int64((p+1)*1000+i))
					doneCount.Add(1)
				}
			}()
			if p == 0 && inline {
				closer()
			}
			if p == 0 && s.Post > 0 {
				select {
				case <-closeDone:
				case <-time.After(waitT):
					return
				}
				n := len(s.Prods[p])
				for i := 0; i < s.Post; i++ {
					write(ps[p], n+i, int64((p+1)*1000+n+i))
				}
			}
		}()
	}
	go func() {
		t := time.NewTimer(waitT)
		defer t.Stop()
		for i := 0; i < np; i++ {
			select {
			case <-mainFin:
			case <-t.C:
				return
			}
		}
		close(allMain)
	}()

	// ---- closer(s)
	closer = func() {
		defer close(closeDone)
		defer func() {
			if e := recover(); e != nil {
				setPanic("close", e)
			}
		}()
		switch s.Close {
		case "after", "inline":
			if inline {
				break
			}
			select {
			case <-allMain:
			case <-time.After(waitT):
				timeout("producers-before-close")
			}
		case "concurrent":
			for t0 := time.Now(); doneCount.Load() < int64(s.CloseAt); {
				if time.Since(t0) > waitT {
					timeout("producers-before-close")
					break
				}
				runtime.Gosched()
			}
		}
		delay(s.CloseDly)
		recvAtClose.Store(recvCount.Load())
		closeCalled.Store(true)
		close(closeCalledCh)
		sig := ru.Close()
		if s.Twice == 1 {
			sig = ru.Close()
		}
		closeRet <- sig
	}
	if s.Twice == 2 {
		go func() {
			defer func() {
				if e := recover(); e != nil {
					setPanic("close2", e)
				}
				close2Ret <- struct{}{}
			}()
			<-closeCalledCh
			ru.Close()
		}()
	}
	if s.Close == "before" {
		go closer()
		select {
		case <-closeDone:
		case <-time.After(waitT):
			timeout("close-returned")
		}
		close(startCh)
	} else {
		if !inline {
			go closer()
		}
		close(startCh)
	}

	// ---- join, every wait bounded
	{
		t := time.NewTimer(waitT)
		for i := 0; i < np; i++ {
			select {
			case <-fin:
			case <-t.C:
				timeout("producers-done")
				i = np
			}
		}
		t.Stop()
	}
	var sig <-chan struct{}
	select {
	case sig = <-closeRet:
	case <-time.After(waitT):
		timeout("close-returned")
	}
	if s.Twice == 2 {
		select {
		case <-close2Ret:
		case <-time.After(waitT):
			timeout("close2-returned")
		}
	}
	select {
	case r := <-consOut:
		o.Received, o.Closed = r.got, r.closed
		if r.to != "" {
			timeout(r.to)
		}
	case <-time.After(2*waitT + time.Second):
		timeout("consumer-done")
	}
	if sig != nil {
		w := waitT
		if !o.Closed {
			w = 100 * time.Millisecond
		}
		select {
		case <-sig:
			o.Signal = true
		case <-time.After(w):
			timeout("close-signal")
		}
	}
	o.RecvAtClose = int(recvAtClose.Load())
	o.Written = [][]WRec{}
	for p := 0; p <= np; p++ {
		w := ps[p].snapshot()
		if p == np && len(w) == 0 {
			continue
		}
		o.Written = append(o.Written, w)
	}
	if o.Received == nil {
		o.Received = []int64{}
	}
	panMu.Lock()
	o.Panic = pan
	panMu.Unlock()
	toMu.Lock()
	sort.Strings(o.Timeouts)
	nto := len(o.Timeouts)
	toMu.Unlock()
	switch {
	case o.Panic != "":
		o.Outcome = "panic"
	case nto > 0 || !o.Closed || !o.Signal:
		o.Outcome = "timeout"
	default:
		o.Outcome = "done"
	}
	return o
}

// ---------------------------------------------------------------- monitor (independent of the Coq model)

var sigRU = map[string]string{"container": "RingUnbounded"}

func monitor(c *Case) (viol []vh.Violation) {
	o := &c.Obs
	count := map[string]int{}
	add := func(kind, detail string) {
		count[kind]++
		if count[kind] == 1 {
			viol = append(viol, vh.Violation{Kind: kind, Detail: detail, Sig: sigRU})
		}
	}
	if o.Panic != "" {
		add("rupump:panic", o.Panic)
	}
	type where struct{ p, i int }
	pos := map[int64]where{}
	for p, ws := range o.Written {
		for i, w := range ws {
			pos[w.V] = where{p, i}
		}
	}
	seen := map[int64]bool{}
	last := make([]int, len(o.Written))
	for p := range last {
		last[p] = -1
	}
	for k, v := range o.Received {
		w, ok := pos[v]
		if !ok {
			add("rupump:invented", fmt.Sprintf("received[%d] = %d was never written", k, v))
			continue
		}
		if seen[v] {
			add("rupump:duplicate", fmt.Sprintf("received[%d] = %d had been received before", k, v))
			continue
		}
		seen[v] = true
		if w.i < last[w.p] {
			add("rupump:order", fmt.Sprintf("received[%d] = %d arrived after %d of the same producer, which was written later", k, v, o.Written[w.p][last[w.p]].V))
			continue
		}
		for j := last[w.p] + 1; j < w.i; j++ {
			if o.Written[w.p][j].Sure {
				add("rupump:order", fmt.Sprintf("received[%d] = %d although %d, written and accepted earlier by the same producer, had not been received", k, v, o.Written[w.p][j].V))
			}
		}
		last[w.p] = w.i
	}
	if o.Closed {
		var lost []int64
		for _, ws := range o.Written {
			for _, w := range ws {
				if w.Sure && !seen[w.V] {
					lost = append(lost, w.V)
				}
			}
		}
		if len(lost) > 0 {
			add("rupump:lost-before-close", fmt.Sprintf("output closed after %d elements; never handed out although their Write returned before Close was called: %v", len(o.Received), trunc(lost, 12)))
		}
	}
	if o.Panic == "" && (!o.Closed || !o.Signal || len(o.Timeouts) > 0) {
		add("rupump:never-closed", fmt.Sprintf("channel closed=%v Close() signal=%v timeouts=%v (consumer was draining; limit %v per wait)", o.Closed, o.Signal, o.Timeouts, waitT))
	}
	return
}

func trunc(l []int64, n int) []int64 {
	if len(l) > n {
		return l[:n]
	}
	return l
}

// ---------------------------------------------------------------- non-triviality, Coq term

func sureCount(o *Obs) int {
	n := 0
	for _, ws := range o.Written {
		for _, w := range ws {
			if w.Sure {
				n++
			}
		}
	}
	return n
}

// interleaved: some producer's elements are not contiguous in the received sequence
func interleaved(o *Obs) bool {
	closedRuns := map[int64]bool{}
	var cur int64 = -1
	for _, v := range o.Received {
		p := v / 1000
		if p != cur {
			if closedRuns[p] {
				return true
			}
			if cur >= 0 {
				closedRuns[cur] = true
			}
			cur = p
		}
	}
	return false
}

func nontrivial(o *Obs) bool {
	sc := sureCount(o)
	return (sc >= 1 && o.RecvAtClose >= 0 && o.RecvAtClose < sc) || interleaved(o)
}

func coqCase(id int, c *Case) string {
	o := &c.Obs
	rows := make([]string, len(o.Written))
	for p, ws := range o.Written {
		// regular row (consecutive values, certainly-accepted flags form a prefix): abbreviation rurow
		regular, k := len(ws) > 0, 0
		for i, w := range ws {
			if w.V != ws[0].V+int64(i) || (w.Sure && i != k) {
				regular = false
				break
			}
			if w.Sure {
				k++
			}
		}
		if regular {
			rows[p] = vh.App("rurow", vh.Z(ws[0].V), vh.Nat(len(ws)), vh.Nat(k))
			continue
		}
		it := make([]string, len(ws))
		for i, w := range ws {
			it[i] = vh.Pair(vh.Z(w.V), vh.Bool(w.Sure))
		}
		rows[p] = vh.List(it)
	}
	out := "RuBad"
	if o.Outcome == "done" {
		out = "RuDone"
	}
	return fmt.Sprintf("{| rucid := %s; ruwritten := %s; rureceived := %s; ruclosed := %s; ruout := %s |}",
		vh.Nat(id), vh.List(rows), vh.ListZ(o.Received), vh.Bool(o.Closed), out)
}

// ---------------------------------------------------------------- generator

func genDelays(r *vh.RNG, n int) []int {
	d := make([]int, n)
	style := r.Intn(4) // 0 none, 1 yields, 2 short spins, 3 mixed
	for i := range d {
		switch style {
		case 1:
			if r.Chance(1, 2) {
				d[i] = 1
			}
		case 2:
			if r.Chance(1, 3) {
				d[i] = r.Range(2, 6)
			}
		case 3:
			switch r.Intn(4) {
			case 0:
				d[i] = 1
			case 1:
				d[i] = r.Range(2, 12)
			}
		}
	}
	return d
}

func genScn(r *vh.RNG) Scn {
	var s Scn
	switch r.Intn(10) {
	case 0, 1:
		s.Buf = 0
	case 2, 3:
		s.Buf = 1
	case 4:
		s.Buf = 2
	case 5, 6:
		s.Buf = r.Range(3, 8)
	case 7, 8:
		s.Buf = r.Range(64, 256)
	default:
		s.Buf = 1024
	}
	np := 1
	switch x := r.Intn(20); {
	case x < 7:
		np = 1
	case x < 14:
		np = 2
	default:
		np = 3
	}
	total := 0
	for p := 0; p < np; p++ {
		n := r.Range(1, 8)
		switch x := r.Intn(80); {
		case x < 8:
			n = r.Range(10, 40)
		case x == 8:
			n = 100
		}
		s.Prods = append(s.Prods, genDelays(r, n))
		total += n
	}
	switch x := r.Intn(100); {
	case x < 8:
		s.Close = "before"
	case x < 33:
		s.Close = "after"
	case x < 53:
		s.Close = "inline"
	default:
		s.Close = "concurrent"
		s.CloseAt = r.Range(0, total)
	}
	if r.Chance(1, 4) {
		s.CloseDly = r.Range(1, 10)
	}
	switch x := r.Intn(20); {
	case x < 14:
	case x < 17:
		s.Twice = 1
	default:
		s.Twice = 2
	}
	switch x := r.Intn(100); {
	case x < 35:
		s.Cons = "early"
	case x < 62:
		s.Cons = "atclose"
	case x < 85:
		s.Cons = "late"
		s.ConsDly = r.Range(1, 30)
	default:
		if total <= s.Buf {
			s.Cons = "afterreturn"
			s.Echo = s.Twice != 2 && r.Bool()
		} else {
			s.Cons = "atclose"
		}
	}
	switch x := r.Intn(20); {
	case x < 14:
	case x < 17:
		s.ConsSlow = 1
	default:
		s.ConsSlow = r.Range(2, 6)
	}
	if r.Chance(3, 10) {
		s.Post = r.Range(1, 3)
	}
	switch x := r.Intn(10); {
	case x < 3:
	case x < 5:
		s.Settle = 1
	default:
		s.Settle = r.Range(2, 30)
	}
	return s
}

func seqDelays(n int) []int { return make([]int, n) }

func corpus() []Scn {
	var cs []Scn
	// the witness of the confirmed defect: Write(7); Close(); read all. It is a race (the pump has to be
	// parked in cond.Wait when the Write arrives), so it is repeated with several settle delays.
	for i := 0; i < 20; i++ {
		cs = append(cs, Scn{Buf: []int{16, 0, 1, 1024}[i%4], Settle: []int{20, 50, 5, 100, 0}[i%5], Prods: [][]int{{0}}, Close: "inline", Cons: []string{"atclose", "late"}[i%2], ConsDly: 5})
	}
	// Close on an empty buffer; twice; before any write
	cs = append(cs, Scn{Buf: 4, Settle: 20, Prods: [][]int{}, Close: "after", Cons: "early"})
	cs = append(cs, Scn{Buf: 0, Settle: 0, Prods: [][]int{}, Close: "after", Cons: "atclose", Twice: 1})
	cs = append(cs, Scn{Buf: 4, Settle: 20, Prods: [][]int{seqDelays(3)}, Close: "before", Cons: "early", Twice: 2})
	// Write 1..100; Close; range
	cs = append(cs, Scn{Buf: 1024, Settle: 20, Prods: [][]int{seqDelays(100)}, Close: "after", Cons: "atclose"})
	cs = append(cs, Scn{Buf: 16, Settle: 20, Prods: [][]int{seqDelays(100)}, Close: "after", Cons: "atclose"})
	cs = append(cs, Scn{Buf: 0, Settle: 20, Prods: [][]int{seqDelays(100)}, Close: "after", Cons: "late", ConsDly: 20})
	// the repository's own test: 100 writes, Close, then Write inside the range loop
	cs = append(cs, Scn{Buf: 16384, Settle: 20, Prods: [][]int{seqDelays(100)}, Close: "after", Cons: "afterreturn", Echo: true})
	cs = append(cs, Scn{Buf: 128, Settle: 0, Prods: [][]int{seqDelays(100)}, Close: "after", Cons: "afterreturn", Echo: true, Post: 3})
	// several producers, Close while they are writing, slow consumer
	cs = append(cs, Scn{Buf: 1, Settle: 10, Prods: [][]int{seqDelays(20), seqDelays(20), seqDelays(20)}, Close: "concurrent", CloseAt: 30, Cons: "early", ConsSlow: 2})
	cs = append(cs, Scn{Buf: 0, Settle: 10, Prods: [][]int{seqDelays(8), seqDelays(8)}, Close: "after", Cons: "late", ConsDly: 30, Twice: 2, Post: 2})
	return cs
}

// ---------------------------------------------------------------- main

func family(s *Scn) string {
	f := s.Close + "/" + s.Cons
	if s.Echo {
		f += "/echo"
	}
	return f
}

func record(out *vh.Out, c *Case) []vh.Violation {
	s, o := &c.Scn, &c.Obs
	v := monitor(c)
	total := 0
	for _, p := range s.Prods {
		total += len(p)
	}
	out.Count("producers", fmt.Sprint(len(s.Prods)))
	out.Count("buffer_size", vh.Bucket(s.Buf))
	out.Count("writes_total", vh.Bucket(total))
	out.Count("close_timing", s.Close)
	out.Count("close_calls", []string{"once", "twice-sequential", "twice-concurrent"}[s.Twice])
	out.Count("consumer_timing", s.Cons)
	out.Count("writes_after_close", vh.Bucket(s.Post))
	out.Count("echo_writes_in_range_loop", vh.Bool(s.Echo))
	out.Count("outcome", o.Outcome)
	sc := sureCount(o)
	out.Count("certainly_accepted", vh.Bucket(sc))
	out.Count("received", vh.Bucket(len(o.Received)))
	out.Count("close_with_unreceived_accepted", vh.Bool(sc >= 1 && o.RecvAtClose >= 0 && o.RecvAtClose < sc))
	out.Count("producers_interleaved_in_output", vh.Bool(interleaved(o)))
	out.Add(c, coqCase(out.N(), c), nontrivial(o), v)
	return v
}

func main() {
	f := vh.ParseFlags()
	if f.Replay != "" {
		var c Case
		vh.LoadReplayCase(f.Replay, &c)
		const runs = 50
		kinds := map[string]int{}
		fired := 0
		var first interface{}
		timeouts := 0
		for i := 0; i < runs && timeouts < 3; i++ {
			rc := Case{Scn: c.Scn}
			rc.Obs = runCase(&rc.Scn)
			if rc.Obs.Outcome == "timeout" {
				timeouts++
			}
			v := monitor(&rc)
			if len(v) > 0 {
				fired++
				if first == nil {
					first = map[string]interface{}{"obs": rc.Obs, "monitor": v}
				}
			}
			for _, x := range v {
				kinds[x.Kind]++
			}
		}
		b, _ := json.Marshal(map[string]interface{}{"scn": c.Scn, "recorded_obs": c.Obs, "runs": runs, "runs_in_which_the_monitor_fired": fired,
			"monitor_kinds": kinds, "first_failing_run": first})
		fmt.Println(string(b))
		if fired > 0 {
			os.Exit(1)
		}
		return
	}
	out := vh.NewOut(f.Out, "rupump", "From MV Require Import Lib.ListX C15.RuPumpRun.", "rucase", "rumismatches", f.Seed,
		"scenarios over buffer.RingUnbounded through the public API: bufferSize {0,1,2,3..8,64..256,1024}, 1..3 producers of tagged sequences (1..8, sometimes 10..40 or 100 writes) with yields/microsecond spins, Close before any write / after all producers returned / by producer 1 right after its last write / concurrently after k writes returned, once or twice, consumer started early / when Close is called / later / after Close returned, writes after Close; corpus first (Write;Close witness x20, Close on empty, 100 writes then Close then range, the repository's test shape); non-trivial = at least one certainly-accepted write and Close was called while fewer elements had been received than were certainly accepted, or the output interleaves two producers; distinct by hash of (scenario, observation)")
	// the cost of a shard is dominated by Coq parsing the numerals of the recorded sequences (about 0.15 ms
	// each): small shards, so that all cores evaluate in parallel
	out.PerShard = 100
	if f.Tier == "thorough" {
		out.PerShard = 200
	}
	rng := vh.NewRNG(f.Seed)
	n := f.N
	if n == 0 {
		n = 1200
		if f.Tier == "thorough" {
			n = 24000
		}
	}
	scns := corpus()
	nc := len(scns)
	for i := 0; i < n; i++ {
		cr, _ := rng.Derive()
		scns = append(scns, genScn(cr))
	}
	// run in chunks on a few workers (the extra load perturbs the schedules); results are recorded in
	// generation order. A scenario family that timed out 3 times is not run any further.
	workers := runtime.NumCPU() / 2
	if workers < 2 {
		workers = 2
	}
	if workers > 8 {
		workers = 8
	}
	famTO := map[string]int{}
	var famMu sync.Mutex
	noteTO := func(c *Case) {
		if c.Obs.Outcome == "timeout" {
			famMu.Lock()
			famTO[family(&c.Scn)]++
			famMu.Unlock()
		}
	}
	famBlocked := func(s *Scn) bool {
		famMu.Lock()
		defer famMu.Unlock()
		return famTO[family(s)] >= 3
	}
	const chunk = 64
	for lo := 0; lo < len(scns); lo += chunk {
		hi := lo + chunk
		if hi > len(scns) {
			hi = len(scns)
		}
		cases := make([]*Case, hi-lo)
		var wg sync.WaitGroup
		sem := make(chan struct{}, workers)
		for i := lo; i < hi; i++ {
			if famBlocked(&scns[i]) {
				out.Count("skipped_family_after_3_timeouts", family(&scns[i]))
				continue
			}
			i := i
			// the corpus runs alone (the witness needs a quiet machine to be a near-certain hit)
			if i < nc {
				c := &Case{Scn: scns[i]}
				c.Obs = runCase(&c.Scn)
				noteTO(c)
				cases[i-lo] = c
				continue
			}
			wg.Add(1)
			sem <- struct{}{}
			go func() {
				defer wg.Done()
				defer func() { <-sem }()
				c := &Case{Scn: scns[i]}
				c.Obs = runCase(&c.Scn)
				noteTO(c)
				cases[i-lo] = c
			}()
		}
		wg.Wait()
		for _, c := range cases {
			if c == nil {
				continue
			}
			record(out, c)
		}
	}
	out.Close()
}
