// c04strat: correspondence harness (T1) for the supervision STRATEGY layer of engine/vivid/supervision
// (one_for_one.go, accident_state.go, the canned Restart/Stop/Resume strategies) against MV.C04.StratModel.
//
// It is a test binary (go1.26.8, `go test -c`): every case runs inside a testing/synctest bubble, so the timers
// that oneForOne starts with time.AfterFunc run on virtual time and the instant of every Supervisor.Restart is
// observed exactly.  ONE strategy instance serves all victims of a case (as the guard's OneForOne serves every
// top-level actor); each victim has its own AccidentState; every failure passes a FRESH *prc.ProcessId as
// record.Victim, so each Supervisor call is attributed to the failure it belongs to by pointer identity.
// The oracle value of a failure (what chrono.StandardExponentialBackoff returns for that record) is obtained by
// calling the function with the harness's own count under the same random draw: rand.Float64() of math/rand/v2
// is controlled by replacing the package's global generator (go:linkname, needs -ldflags=-checklinkname=0).
package c04strat

import (
	"encoding/json"
	"fmt"
	"math/rand/v2"
	"os"
	"sort"
	"strings"
	"sync"
	"testing"
	"testing/synctest"
	"time"
	_ "unsafe"

	"github.com/kercylan98/minotaur/engine/prc"
	"github.com/kercylan98/minotaur/engine/vivid/supervision"
	"github.com/kercylan98/minotaur/toolkit/chrono"
	"verif/harness/vh"
)

//go:linkname globalRand math/rand/v2.globalRand
var globalRand *rand.Rand

type fixedSrc struct{ v uint64 }

func (f *fixedSrc) Uint64() uint64 { return f.v } // Float64() = (v mod 2^53) / 2^53

var src = &fixedSrc{}

// Directive values of supervision/directive.go
const (
	dStop     = 1
	dRestart  = 2
	dResume   = 3
	dEscalate = 4
)

type Op struct {
	K string `json:"k"`           // fail | solved | adv
	V int    `json:"v"`           // victim (fail, solved)
	D int64  `json:"d"`           // adv: nanoseconds that pass; fail: oracle = StandardExponentialBackoff for this record (filled by the run)
	R uint64 `json:"r,omitempty"` // fail: rand.Float64() = r / 2^53 for this decision
}

type Call struct {
	K   string `json:"k"`   // restart | stop | resume | escalate | panic | bad
	V   int    `json:"v"`   // victim
	T   int64  `json:"t"`   // virtual nanoseconds since the start of the case
	Tok int    `json:"tok"` // index of the Fail operation whose record.Victim was passed (-1: unknown pointer)
}

type Case struct {
	Strat  string  `json:"strat"` // ofo | restart | stop | resume
	Limit  int     `json:"limit"`
	Base   int64   `json:"base"`
	Max    int64   `json:"max"`
	NV     int     `json:"victims"`
	Table  [][]int `json:"table"` // decider: per victim, Directive by AccidentCount (entry count-1, last repeats; empty = Restart)
	Ops    []Op    `json:"ops"`
	Script string  `json:"script"` // the operation sequence, readable
	// observed
	Obs  [][]Call `json:"obs"` // per operation: Supervisor calls (sorted by the creating failure)
	Cnt  []int64  `json:"cnt"` // per operation: AccidentCount() of its victim afterwards (adv: 0)
	Note string   `json:"note,omitempty"`
}

// ---------------------------------------------------------------- running the implementation

type fakeSup struct {
	mu    sync.Mutex
	start time.Time
	toks  map[*prc.ProcessId][2]int // token -> (fail index, victim)
	log   []Call
	done  bool
	ref   *prc.ProcessId
}

func (s *fakeSup) rec(kind string, refs []*prc.ProcessId) {
	s.mu.Lock()
	defer s.mu.Unlock()
	if s.done {
		return
	}
	t := int64(time.Since(s.start))
	for _, r := range refs {
		c := Call{K: kind, V: -1, T: t, Tok: -1}
		if tv, ok := s.toks[r]; ok {
			c.Tok, c.V = tv[0], tv[1]
		} else if r != nil {
			_, _ = fmt.Sscanf(string(r.GetLogicalAddress()), "/v%d", &c.V)
		}
		s.log = append(s.log, c)
	}
	if len(refs) == 0 {
		s.log = append(s.log, Call{K: "bad", V: -1, T: t, Tok: -1})
	}
}
func (s *fakeSup) Ref() *prc.ProcessId                        { return s.ref }
func (s *fakeSup) Children() []*prc.ProcessId                 { return nil }
func (s *fakeSup) Restart(refs ...*prc.ProcessId)             { s.rec("restart", refs) }
func (s *fakeSup) Stop(refs ...*prc.ProcessId)                { s.rec("stop", refs) }
func (s *fakeSup) Resume(refs ...*prc.ProcessId)              { s.rec("resume", refs) }
func (s *fakeSup) Escalate(record *supervision.AccidentRecord) { s.rec("escalate", []*prc.ProcessId{record.Victim}) }

func (s *fakeSup) take() []Call {
	s.mu.Lock()
	defer s.mu.Unlock()
	l := s.log
	s.log = nil
	sort.SliceStable(l, func(i, j int) bool {
		if l[i].Tok != l[j].Tok {
			return l[i].Tok < l[j].Tok
		}
		return l[i].T < l[j].T
	})
	if l == nil {
		l = []Call{}
	}
	return l
}

func lookup(table [][]int, v, count int) int {
	if v < 0 || v >= len(table) || len(table[v]) == 0 {
		return dRestart
	}
	row := table[v]
	i := count - 1
	if i < 0 {
		i = 0
	}
	if i >= len(row) {
		i = len(row) - 1
	}
	return row[i]
}

// run executes the operations on a fresh strategy instance and fresh accident states. fill: store the oracle delay
// into ops[i].D (the ops slice is the caller's).
func run(t *testing.T, c *Case, ops []Op, fill bool) (obs [][]Call, cnt []int64, note string) {
	obs, cnt = make([][]Call, 0, len(ops)), make([]int64, 0, len(ops))
	synctest.Test(t, func(t *testing.T) {
		sup := &fakeSup{start: time.Now(), toks: map[*prc.ProcessId][2]int{}, ref: prc.NewProcessId("verif", "/sup")}
		var strat supervision.Strategy
		decide := supervision.FunctionalDecide(func(r *supervision.AccidentRecord) supervision.Directive {
			sup.mu.Lock()
			tv, ok := sup.toks[r.Victim]
			sup.mu.Unlock()
			if !ok {
				return supervision.Directive(dRestart)
			}
			return supervision.Directive(lookup(c.Table, tv[1], r.State.AccidentCount()))
		})
		switch c.Strat {
		case "ofo":
			strat = supervision.OneForOne(c.Limit, time.Duration(c.Base), time.Duration(c.Max), decide)
		case "restart":
			strat = supervision.RestartStrategy()
		case "stop":
			strat = supervision.StopStrategy()
		default:
			strat = supervision.ResumeStrategy()
		}
		nv := c.NV
		for _, o := range ops {
			if o.V+1 > nv {
				nv = o.V + 1
			}
		}
		states := make([]*supervision.AccidentState, nv)
		own := make([]int, nv) // the harness's own count of failures since Solved
		for i := range states {
			states[i] = supervision.NewAccidentState()
		}
		for i := range ops {
			o := &ops[i]
			var after int64
			switch o.K {
			case "fail":
				tok := prc.NewProcessId("verif", fmt.Sprintf("/v%d", o.V))
				sup.mu.Lock()
				sup.toks[tok] = [2]int{i, o.V}
				sup.mu.Unlock()
				own[o.V]++
				src.v = o.R
				if fill {
					o.D = 0
					if c.Strat == "ofo" && lookup(c.Table, o.V, own[o.V]) == dRestart {
						o.D = int64(chrono.StandardExponentialBackoff(own[o.V], c.Limit, time.Duration(c.Base), time.Duration(c.Max)))
					}
				}
				func() {
					defer func() {
						if e := recover(); e != nil {
							k := "bad"
							if fmt.Sprint(e) == "not support directive" {
								k = "panic"
							} else {
								note = "panic: " + fmt.Sprint(e)
							}
							sup.mu.Lock()
							sup.log = append(sup.log, Call{K: k, V: o.V, T: int64(time.Since(sup.start)), Tok: i})
							sup.mu.Unlock()
						}
					}()
					states[o.V].Record()
					r := supervision.NewAccidentRecord(nil, tok, nil, "message", "reason", strat, states[o.V], nil)
					r.Supervisor = sup // actor_context.go onAccidentRecordProcess
					r.Strategy.OnPolicyDecision(r)
				}()
				synctest.Wait()
				after = int64(states[o.V].AccidentCount())
			case "solved":
				own[o.V] = 0
				states[o.V].Solved()
				synctest.Wait()
				after = int64(states[o.V].AccidentCount())
			default:
				time.Sleep(time.Duration(o.D))
				synctest.Wait()
			}
			obs = append(obs, sup.take())
			cnt = append(cnt, after)
		}
		sup.mu.Lock()
		sup.done = true
		sup.mu.Unlock()
	})
	return
}

func script(ops []Op) string {
	var sb strings.Builder
	for i, o := range ops {
		if i > 0 {
			sb.WriteByte(' ')
		}
		switch o.K {
		case "fail":
			fmt.Fprintf(&sb, "F%d", o.V)
		case "solved":
			fmt.Fprintf(&sb, "S%d", o.V)
		default:
			fmt.Fprintf(&sb, "+%s", time.Duration(o.D))
		}
	}
	return sb.String()
}

func runImpl(t *testing.T, c *Case) {
	c.Obs, c.Cnt, c.Note = run(t, c, c.Ops, true)
	c.Script = script(c.Ops)
}

// ---------------------------------------------------------------- property monitor
// The statement of C04 for the strategy layer, judged on inputs and observations only (no model): which directive
// is due for every failure follows from the decider's table, the harness's own count and the limit.

func kindName(d int) string {
	switch d {
	case dStop:
		return "stop"
	case dRestart:
		return "restart"
	case dResume:
		return "resume"
	case dEscalate:
		return "escalate"
	}
	return ""
}

func monitor(t *testing.T, c *Case) (viol []vh.Violation) {
	seen := map[string]bool{}
	add := func(class, detail string, sig map[string]string) {
		if seen[class] || len(viol) >= 6 {
			return
		}
		seen[class] = true
		if sig == nil {
			sig = map[string]string{}
		}
		sig["strategy"] = c.Strat
		viol = append(viol, vh.Violation{Kind: "C04:strategy:" + class, Detail: detail + "   [ops: " + c.Script + "]", Case: *c, Sig: sig})
	}
	if c.Note != "" {
		add("bad-result", c.Note, nil)
	}
	if len(c.Obs) != len(c.Ops) || len(c.Cnt) != len(c.Ops) {
		add("bad-result", "observation incomplete", nil)
		return
	}
	// calls by creating failure
	byTok := map[int][]Call{}
	opOf := map[int][]int{} // tok -> index of the operation during which each of its calls was seen
	for i, l := range c.Obs {
		for _, x := range l {
			if x.K == "bad" {
				add("bad-result", fmt.Sprintf("operation %d: unrepresentable Supervisor call", i), nil)
				continue
			}
			if x.Tok < 0 || x.Tok >= len(c.Ops) || c.Ops[x.Tok].K != "fail" {
				add("unknown-victim", fmt.Sprintf("operation %d: Supervisor.%s for a process that is not the victim of any recorded failure", i, x.K), nil)
				continue
			}
			byTok[x.Tok] = append(byTok[x.Tok], x)
			opOf[x.Tok] = append(opOf[x.Tok], i)
		}
	}
	own := make([]int, c.NV)
	now := int64(0)
	end := int64(0)
	for _, o := range c.Ops {
		if o.K == "adv" && o.D > 0 {
			end += o.D
		}
	}
	maxD := c.Max
	if maxD < 0 {
		maxD = 0
	}
	lo := int64(0) // a back-off never ends before min(base, max): base*2^count - base/4 >= 1.75 base for count >= 1
	if c.Base > 0 {
		lo = min(c.Base, maxD)
	}
	for i, o := range c.Ops {
		switch o.K {
		case "adv":
			if o.D > 0 {
				now += o.D
			}
			continue
		case "solved":
			own[o.V] = 0
			if c.Cnt[i] != 0 {
				add("count-wrong", fmt.Sprintf("operation %d: AccidentCount() of victim %d is %d after Solved", i, o.V, c.Cnt[i]), nil)
			}
			continue
		}
		own[o.V]++
		cnt := own[o.V]
		if c.Cnt[i] != int64(cnt) {
			add("count-wrong", fmt.Sprintf("operation %d: failure number %d of victim %d since its last Solved, AccidentCount() = %d", i, cnt, o.V, c.Cnt[i]),
				map[string]string{"limit": fmt.Sprint(c.Limit)})
		}
		want, timer, limited := "", false, false
		switch c.Strat {
		case "restart", "stop", "resume":
			want = c.Strat
		default:
			d := lookup(c.Table, o.V, cnt)
			want = kindName(d)
			if want == "" {
				continue // not a directive: the property says nothing (the code panics)
			}
			if d == dRestart {
				if c.Limit > -1 && cnt > c.Limit {
					want, limited = "stop", true
				} else {
					timer = true
				}
			}
		}
		calls := byTok[i]
		n := 0
		for k, x := range calls {
			if x.V != o.V {
				add("unknown-victim", fmt.Sprintf("operation %d: call for victim %d carries the process of victim %d's failure", opOf[i][k], x.V, o.V), nil)
			}
			if x.K != want {
				switch {
				case limited && x.K == "restart":
					add("restart-after-limit", fmt.Sprintf("victim %d: failure %d in a row with restart limit %d was answered by Restart at %s (operation %d), not Stop",
						o.V, cnt, c.Limit, time.Duration(x.T), opOf[i][k]), map[string]string{"limit": fmt.Sprint(c.Limit)})
				case timer && x.K == "stop":
					add("stopped-within-limit", fmt.Sprintf("victim %d: failure %d in a row with restart limit %d was answered by Stop", o.V, cnt, c.Limit), nil)
				default:
					add("unexpected-call", fmt.Sprintf("victim %d, failure at operation %d: decided %s, Supervisor.%s called", o.V, i, want, x.K), nil)
				}
				continue
			}
			n++
			if timer {
				switch delay := x.T - now; {
				case delay < lo:
					add("restart-early", fmt.Sprintf("victim %d: Restart %s after the decision (operation %d at %s), configured bounds base %s max %s",
						o.V, time.Duration(delay), i, time.Duration(now), time.Duration(c.Base), time.Duration(c.Max)), nil)
				case delay > maxD:
					add("restart-late", fmt.Sprintf("victim %d: Restart %s after the decision (operation %d at %s), configured maximum %s",
						o.V, time.Duration(delay), i, time.Duration(now), time.Duration(c.Max)), nil)
				}
			} else if opOf[i][k] != i || x.T != now {
				add(want+"-late", fmt.Sprintf("victim %d: %s decided at operation %d (%s) but called during operation %d at %s", o.V, want, i, time.Duration(now), opOf[i][k], time.Duration(x.T)), nil)
			}
		}
		switch {
		case n > 1:
			add(want+"-duplicated", fmt.Sprintf("victim %d: the failure at operation %d (%s) was answered by %d %s calls", o.V, i, time.Duration(now), n, want), nil)
		case n == 0 && !timer:
			add(want+"-missing", fmt.Sprintf("victim %d: failure %d in a row at operation %d (limit %d): %s is due at once, not called", o.V, cnt, i, c.Limit, want),
				map[string]string{"limit": fmt.Sprint(c.Limit)})
		case n == 0 && end >= now+maxD:
			add("restart-missing", fmt.Sprintf("victim %d: Restart decided at operation %d (%s, failure %d in a row, limit %d, max delay %s) never happened although the clock reached %s",
				o.V, i, time.Duration(now), cnt, c.Limit, time.Duration(c.Max), time.Duration(end)), nil)
		}
	}
	// a sibling's operations must not show in what happens to a victim: rerun each victim's own operations
	// (and the passing of time) on a fresh strategy instance, same random draws, and compare
	if c.NV >= 2 {
		for v := 0; v < c.NV; v++ {
			var ownOps []Op
			var idx []int
			for i, o := range c.Ops {
				if o.K == "adv" || o.V == v {
					ownOps = append(ownOps, o)
					idx = append(idx, i)
				}
			}
			if len(ownOps) == len(c.Ops) {
				continue
			}
			obs, cnt, _ := run(t, c, ownOps, false)
			for j, i := range idx {
				a, b := project(c.Obs[i], v), project(obs[j], v)
				if a != b || (c.Ops[i].K != "adv" && c.Cnt[i] != cnt[j]) {
					add("sibling-affected", fmt.Sprintf("victim %d, operation %d (%s): with its siblings' failures [%s] count %d, alone [%s] count %d",
						v, i, c.Ops[i].K, a, c.Cnt[i], b, cnt[j]), nil)
					break
				}
			}
		}
	}
	return
}

func project(l []Call, v int) string {
	var it []string
	for _, x := range l {
		if x.V == v {
			it = append(it, fmt.Sprintf("%s@%s", x.K, time.Duration(x.T)))
		}
	}
	sort.Strings(it)
	return strings.Join(it, " ")
}

// ---------------------------------------------------------------- Coq terms

func cz(v int64) string {
	if v < 0 {
		return fmt.Sprintf("(zn %d)", -v)
	}
	return fmt.Sprintf("(zi %d)", v)
}
func cn(v int) string {
	if v < 0 {
		v = 1 << 20
	}
	return fmt.Sprintf("(ni %d)", v)
}

func coqCase(id int, c *Case) string {
	kind := map[string]string{"ofo": "OneForOne", "restart": "CannedRestart", "stop": "CannedStop", "resume": "CannedResume"}[c.Strat]
	rows := make([]string, len(c.Table))
	for i, r := range c.Table {
		it := make([]string, len(r))
		for j, d := range r {
			it[j] = map[int]string{dStop: "DStop", dRestart: "DRestart", dResume: "DResume", dEscalate: "DEscalate"}[d]
			if it[j] == "" {
				it[j] = "DInvalid"
			}
		}
		rows[i] = vh.List(it)
	}
	ops := make([]string, len(c.Ops))
	for i, o := range c.Ops {
		switch o.K {
		case "fail":
			ops[i] = "Fail " + cn(o.V) + " " + cz(o.D)
		case "solved":
			ops[i] = "Solved " + cn(o.V)
		default:
			ops[i] = "Advance " + cz(o.D)
		}
	}
	obs := make([]string, len(c.Obs))
	for i, l := range c.Obs {
		it := make([]string, len(l))
		for j, x := range l {
			k := map[string]string{"restart": "KRestart", "stop": "KStop", "resume": "KResume", "escalate": "KEscalate", "panic": "KPanic"}[x.K]
			if k == "" || x.V < 0 {
				it[j] = "CBad"
			} else {
				it[j] = "Call " + k + " " + cn(x.V) + " " + cz(x.T)
			}
		}
		obs[i] = vh.List(it)
	}
	cnt := make([]string, len(c.Cnt))
	for i, x := range c.Cnt {
		cnt[i] = cz(x)
	}
	return fmt.Sprintf("Build_case %s (Build_cfg %s %s %s %s) %s %s %s %s", cn(id), kind, cz(int64(c.Limit)), cz(c.Base), cz(c.Max),
		vh.List(rows), vh.List(ops), vh.List(obs), vh.List(cnt))
}

// ---------------------------------------------------------------- generators

const ms = int64(time.Millisecond)

var limits = []int{-1, 0, 1, 3, 8, 10, 12}
var bases = []int64{0, 1, ms, ms, 10 * ms, 10 * ms, 200 * ms, 200 * ms}
var maxes = []int64{0, 2 * ms, 2 * ms, 50 * ms, 50 * ms, 50 * ms, 3000 * ms, 3000 * ms, 3000 * ms}

func genTable(rng *vh.RNG, nv int) ([][]int, string) {
	t := make([][]int, nv)
	style := []string{"restart", "restart", "restart", "by-count", "by-count", "stop", "resume", "escalate"}[rng.Intn(8)]
	for v := range t {
		switch style {
		case "restart":
			t[v] = []int{dRestart}
		case "stop":
			t[v] = []int{dStop}
		case "resume":
			t[v] = []int{dResume}
		case "escalate":
			t[v] = []int{dEscalate}
		default:
			n := rng.Range(1, 6)
			for i := 0; i < n; i++ {
				if rng.Chance(3, 5) {
					t[v] = append(t[v], dRestart)
				} else {
					t[v] = append(t[v], []int{dStop, dResume, dEscalate}[rng.Intn(3)])
				}
			}
		}
	}
	if style != "by-count" && nv > 1 && rng.Chance(1, 4) { // one victim with a directive of its own
		t[rng.Intn(nv)] = []int{[]int{dStop, dRestart, dResume, dEscalate}[rng.Intn(4)]}
		style = "per-victim"
	}
	return t, style
}

func genAdvance(rng *vh.RNG, c *Case) int64 {
	b, m := c.Base, c.Max
	switch rng.Intn(10) {
	case 0:
		return 0
	case 1:
		return 1
	case 2:
		return b / 2
	case 3:
		return b
	case 4:
		return 2*b + b/8
	case 5:
		return m / 2
	case 6:
		return m
	case 7:
		return m + 1
	case 8:
		return 3*m + 1
	}
	return int64(rng.Range(0, 400)) * ms / 4
}

func fail(rng *vh.RNG, v int) Op { return Op{K: "fail", V: v, R: rng.U64() >> 11} }

func genCase(rng *vh.RNG) (c Case, style string) {
	c.NV = rng.Range(1, 4)
	c.Strat = "ofo"
	if rng.Chance(1, 8) {
		c.Strat = []string{"restart", "stop", "resume"}[rng.Intn(3)]
	}
	c.Limit = limits[rng.Intn(len(limits))]
	if rng.Chance(1, 20) {
		c.Limit = []int{-2, 2, 5}[rng.Intn(3)]
	}
	c.Base, c.Max = bases[rng.Intn(len(bases))], maxes[rng.Intn(len(maxes))]
	c.Table, style = genTable(rng, c.NV)
	if rng.Chance(1, 40) { // malformed: a value that is not a directive
		v := rng.Intn(c.NV)
		c.Table[v] = append(c.Table[v], []int{0, 5, 200}[rng.Intn(3)])
		style = "invalid"
	}
	switch rng.Intn(5) {
	case 0: // a long run of failures of one victim, siblings in between
		v := rng.Intn(c.NV)
		n := rng.Range(15, 22)
		for i := 0; i < n; i++ {
			c.Ops = append(c.Ops, fail(rng, v))
			if rng.Chance(2, 3) {
				c.Ops = append(c.Ops, Op{K: "adv", D: genAdvance(rng, &c)})
			}
			if c.NV > 1 && rng.Chance(1, 4) {
				w := rng.Intn(c.NV)
				if w != v {
					if rng.Chance(1, 4) {
						c.Ops = append(c.Ops, Op{K: "solved", V: w})
					} else {
						c.Ops = append(c.Ops, fail(rng, w))
					}
				}
			}
		}
	case 1: // failures of several victims inside one another's back-off window, then one step that fires them all
		k := rng.Range(2, 8)
		for i := 0; i < k; i++ {
			c.Ops = append(c.Ops, fail(rng, rng.Intn(c.NV)))
			if rng.Chance(1, 2) {
				c.Ops = append(c.Ops, Op{K: "adv", D: []int64{0, 1, c.Base / 4, c.Base / 2, c.Base}[rng.Intn(5)]})
			}
		}
		c.Ops = append(c.Ops, Op{K: "adv", D: c.Max + 1})
		for i := rng.Intn(4); i > 0; i-- {
			c.Ops = append(c.Ops, fail(rng, rng.Intn(c.NV)))
		}
	default:
		n := rng.Range(3, 40)
		for i := 0; i < n; i++ {
			switch x := rng.Intn(20); {
			case x < 11:
				c.Ops = append(c.Ops, fail(rng, rng.Intn(c.NV)))
			case x < 13:
				c.Ops = append(c.Ops, Op{K: "solved", V: rng.Intn(c.NV)})
			default:
				c.Ops = append(c.Ops, Op{K: "adv", D: genAdvance(rng, &c)})
			}
		}
	}
	if rng.Chance(5, 6) { // let every pending back-off run out
		c.Ops = append(c.Ops, Op{K: "adv", D: c.Max + 1})
	}
	return
}

func corpus() []Case {
	f := func(v int) Op { return Op{K: "fail", V: v, R: 1 << 52} }
	a := func(d int64) Op { return Op{K: "adv", D: d} }
	always := func(nv int) [][]int {
		t := make([][]int, nv)
		for i := range t {
			t[i] = []int{dRestart}
		}
		return t
	}
	rep := func(o Op, n int) (l []Op) {
		for i := 0; i < n; i++ {
			l = append(l, o)
		}
		return
	}
	return []Case{
		// the guard's own configuration; B fails 50 ms after A, inside A's back-off (350..450 ms)
		{Strat: "ofo", Limit: 10, Base: 200 * ms, Max: 3000 * ms, NV: 2, Table: always(2), Ops: []Op{f(0), a(50 * ms), f(1), a(3001 * ms)}},
		// 13 failures in a row under limit 12 / 11 under limit 10 / 9 under limit 8: the last one is answered by Stop
		{Strat: "ofo", Limit: 12, Base: ms, Max: 2 * ms, NV: 1, Table: always(1), Ops: append(rep(f(0), 13), a(3*ms))},
		{Strat: "ofo", Limit: 10, Base: 200 * ms, Max: 3000 * ms, NV: 2, Table: always(2), Ops: append(append(rep(f(0), 6), f(1), a(100*ms)), append(rep(f(0), 5), a(3001*ms))...)},
		{Strat: "ofo", Limit: 8, Base: 0, Max: 0, NV: 1, Table: always(1), Ops: rep(f(0), 10)},
		// the same victim fails again inside its own back-off window: both restarts happen
		{Strat: "ofo", Limit: -1, Base: 10 * ms, Max: 50 * ms, NV: 1, Table: always(1), Ops: []Op{f(0), a(ms), f(0), a(51 * ms)}},
		// Solved resets the count
		{Strat: "ofo", Limit: 1, Base: ms, Max: 2 * ms, NV: 1, Table: always(1), Ops: []Op{f(0), a(3 * ms), {K: "solved"}, f(0), a(3 * ms), f(0)}},
		{Strat: "ofo", Limit: 3, Base: ms, Max: 50 * ms, NV: 3, Table: [][]int{{dRestart, dStop}, {dResume}, {dEscalate, dRestart}}, Ops: []Op{f(0), f(1), f(2), f(0), f(2), a(51 * ms)}},
		{Strat: "restart", NV: 2, Table: always(2), Ops: []Op{f(0), f(1), a(ms)}},
		{Strat: "stop", NV: 1, Table: always(1), Ops: []Op{f(0)}},
		{Strat: "resume", NV: 1, Table: always(1), Ops: []Op{f(0), f(0)}},
	}
}

// ---------------------------------------------------------------- recording

func record(t *testing.T, out *vh.Out, c *Case, style string) {
	runImpl(t, c)
	v := monitor(t, c)
	out.Count("strategy", c.Strat)
	out.CountInt("victims", c.NV)
	out.Count("decider", style)
	if c.Strat == "ofo" {
		out.CountInt("limit", c.Limit)
		out.Count("base", time.Duration(c.Base).String())
		out.Count("max", time.Duration(c.Max).String())
	}
	// shape of the run: failures per victim, longest run of failures without Solved, back-offs that overlap
	fails := make([]int, c.NV)
	streak := make([]int, c.NV)
	longest, overlapSib, overlapSelf, timers, limitStops := 0, 0, 0, 0, 0
	type pend struct {
		v   int
		due int64
	}
	var pending []pend
	now := int64(0)
	maxFired := 0
	for i, o := range c.Ops {
		switch o.K {
		case "adv":
			now += max(o.D, 0)
			keep := pending[:0]
			fired := 0
			for _, p := range pending {
				if p.due <= now {
					fired++
				} else {
					keep = append(keep, p)
				}
			}
			pending = keep
			maxFired = max(maxFired, fired)
		case "solved":
			streak[o.V] = 0
		default:
			fails[o.V]++
			streak[o.V]++
			longest = max(longest, streak[o.V])
			if c.Strat == "ofo" && lookup(c.Table, o.V, streak[o.V]) == dRestart {
				if o.D == -1 {
					limitStops++
				} else {
					timers++
					sib, self := false, false
					for _, p := range pending {
						if p.v == o.V {
							self = true
						} else {
							sib = true
						}
					}
					if sib {
						overlapSib++
					}
					if self {
						overlapSelf++
					}
					if o.D > 0 {
						pending = append(pending, pend{o.V, now + o.D})
					}
				}
			}
		}
		_ = i
	}
	for _, n := range fails {
		out.Count("failures_per_victim", vh.Bucket(n))
	}
	out.Count("max_consecutive_failures", vh.Bucket(longest))
	if longest >= 15 {
		out.Count("max_consecutive_failures", ">=15")
	}
	out.Count("restart_decisions_while_a_sibling_backoff_is_pending", vh.Bucket(overlapSib))
	out.Count("restart_decisions_while_own_backoff_is_pending", vh.Bucket(overlapSelf))
	out.Count("most_timers_fired_by_one_advance", vh.Bucket(maxFired))
	out.Count("limit_stops", vh.Bucket(limitStops))
	out.Count("pending_at_end", vh.Bucket(len(pending)))
	out.Count("ops", vh.Bucket(len(c.Ops)))
	if style == "invalid" {
		out.Malformed()
	}
	nontrivial := len(c.Ops) >= 3 && timers+limitStops >= 1 && sum(fails) >= 2
	out.Add(c, coqCase(out.N(), c), nontrivial, v)
}

func sum(l []int) (s int) {
	for _, x := range l {
		s += x
	}
	return
}

var flags vh.Flags

func TestMain(m *testing.M) {
	flags = vh.ParseFlags()
	os.Exit(m.Run())
}

func TestC04Strat(t *testing.T) {
	globalRand = rand.New(src)
	f := flags
	if f.Replay != "" {
		var c Case
		vh.LoadReplayCase(f.Replay, &c)
		want := c
		runImpl(t, &c)
		v := monitor(t, &c)
		for i := range v {
			v[i].Case = nil
		}
		b, _ := json.Marshal(map[string]interface{}{"case": c, "recorded": map[string]interface{}{"obs": want.Obs, "cnt": want.Cnt}, "monitor": v})
		fmt.Println(string(b))
		if len(v) > 0 {
			os.Exit(1)
		}
		return
	}
	out := vh.NewOut(f.Out, "strat", "From Coq Require Import Uint63.\nFrom MV Require Import Lib.ListX C04.StratModel C04.StratRun.", "StratRun.case", "StratRun.mismatches", f.Seed,
		"operation sequences (Fail v = AccidentState.Record + OnPolicyDecision, Solved v, Advance d on virtual time) over 1..4 victims sharing ONE strategy instance: "+
			"OneForOne with limit in {-1,0,1,3,8,10,12} (rarely -2,2,5), base in {0,1ns,1ms,10ms,200ms}, max in {0,2ms,50ms,3s}, deciders always-Restart / Stop / Resume / Escalate / "+
			"by-count tables / one victim with its own directive, and the canned Restart/Stop/Resume strategies; templates: 15..22 failures of one victim in a row with siblings in between, "+
			"2..8 failures inside one another's back-off window followed by one Advance that fires them all, random mixes of 3..40 operations; usually a final Advance(max+1); "+
			"thorough adds every sequence of length <= 6 over {F0,F1,S0,+1ms,+3ms} for limit 1; non-trivial = at least 2 failures and one OneForOne Restart decision (timer or exhausted limit); "+
			"malformed = decider returning a value that is not a directive")
	rng := vh.NewRNG(f.Seed)
	for _, c := range corpus() {
		c := c
		record(t, out, &c, "corpus")
	}
	n := f.N
	if n == 0 {
		n = 1600
		if f.Tier == "thorough" {
			n = 30000
		}
	}
	for i := 0; i < n; i++ {
		cr, _ := rng.Derive()
		c, style := genCase(cr)
		record(t, out, &c, style)
	}
	if f.Tier == "thorough" {
		alpha := []Op{{K: "fail", V: 0, R: 1 << 52}, {K: "fail", V: 1, R: 1 << 50}, {K: "solved", V: 0}, {K: "adv", D: ms}, {K: "adv", D: 3 * ms}}
		var rec func(prefix []Op, depth int)
		rec = func(prefix []Op, depth int) {
			if len(prefix) > 0 {
				c := Case{Strat: "ofo", Limit: 1, Base: ms, Max: 3 * ms, NV: 2, Table: [][]int{{dRestart}, {dRestart}}, Ops: append([]Op(nil), prefix...)}
				record(t, out, &c, "exhaustive")
			}
			if depth == 0 {
				return
			}
			for _, o := range alpha {
				rec(append(prefix, o), depth-1)
			}
		}
		rec(nil, 6)
	}
	out.Close()
}
