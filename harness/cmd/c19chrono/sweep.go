package main

import (
	"time"

	"github.com/kercylan98/minotaur/toolkit/chrono"
)

// digest: position-weighted sum of every output scalar, weights cycling 1..251, wrapping uint64
// (MV.C19.ChronoRun.dscalar/dfinal compute the same number exactly and reduce it mod 2^64).
type digest struct{ acc, w uint64 }

func newDigest() *digest { return &digest{0, 1} }
func (d *digest) scalar(x int64) {
	d.acc += d.w * uint64(x)
	if d.w == 251 {
		d.w = 1
	} else {
		d.w++
	}
}
func (d *digest) inst(i Inst) { d.scalar(i.S); d.scalar(i.N) }
func (d *digest) res(r Res) {
	switch r.K {
	case "t":
		d.inst(*r.T)
	case "b":
		if r.B {
			d.scalar(1)
		} else {
			d.scalar(0)
		}
	case "z":
		d.scalar(r.Z)
	case "p":
		d.inst(r.P[0])
		d.inst(r.P[1])
	case "d":
		for _, v := range r.D {
			d.scalar(v)
		}
	default:
		d.scalar(999)
	}
}

var sweepTods = [4]int64{0, 1, 43200, 86399}

// sweepParams: the j-th instant (j = 0..4) of local day `day` and the helper arguments used with it
// (identical to MV.C19.ChronoRun.sweep_inst).
func sweepParams(seed, day, j int64) (tod, ns, w, kw, nd, h, mi, s int64) {
	if j < 4 {
		tod = sweepTods[j]
	} else {
		tod = pmod(pmod(day*1103515245+seed, 2147483648), 86400)
		ns = pmod(day*7919+seed, 1000000000)
	}
	w = pmod(day+j, 7)
	kw = pmod(fdiv(day, 7)+j, 7) - 3
	nd = pmod(day+3*j, 11) - 5
	h = pmod(day+j, 24)
	mi = pmod(day*7+j, 60)
	s = pmod(day*13+5*j, 60)
	return
}

// runSweep evaluates Count consecutive local days x 5 instants, checks every output with the monitors and
// (fixed zones) folds every output into the digest that the Coq model recomputes. The caller has set time.Local.
func runSweep(c *Case) {
	loc := c.Zone.Loc()
	m := &mon{c: c}
	dg := newDigest()
	c.sweepN, c.sweepNT = 0, 0
	for day := c.Day0; day < c.Day0+c.Count; day++ {
		for j := int64(0); j < 5; j++ {
			tod, ns, w, kw, nd, h, mi, s := sweepParams(c.Seed, day, j)
			var t time.Time
			if c.Zone.Fixed {
				t = time.Unix(day*86400+tod-c.Zone.Off, ns).In(loc)
			} else {
				t = wallOf(day, int(tod/3600), int(tod%3600/60), int(tod%60), int(ns), loc)
			}
			out := instOutputs(t, time.Weekday(w), int(kw), int(nd), int(h), int(mi), int(s))
			m.checkInst(t, loc, true, w, kw, nd, h, mi, s, out)
			if c.Zone.Fixed {
				for _, r := range out {
					dg.res(r)
				}
			}
			c.sweepN++
			if len(boundaryClasses(t, c.Zone)) > 0 {
				c.sweepNT++
			}
			if c.All49 && (j == 0 || j == 3) { // every weekday x week offset at the two ends of each day
				today := dayOf(t)
				monday := today - pmod(refWeekday(today)+6, 7)
				for ww := int64(0); ww < 7; ww++ {
					for kk := int64(-3); kk <= 3; kk++ {
						wd := time.Weekday(ww)
						var rs [5]Res
						rs[0] = safe(func() Res { return rT(chrono.GetStartOfWeek(t, wd)) })
						rs[1] = safe(func() Res { return rT(chrono.GetEndOfWeek(t, wd)) })
						rs[2] = safe(func() Res { return rT(chrono.GetRelativeStartOfWeek(t, wd, int(kk))) })
						rs[3] = safe(func() Res { return rT(chrono.GetRelativeEndOfWeek(t, wd, int(kk))) })
						rs[4] = safe(func() Res { return rT(chrono.GetRelativeTimeOfWeek(t, wd, int(kk))) })
						bad := false
						for _, r := range rs {
							if r.K == "panic" {
								m.hit("GetStartOfWeek", "crash", "panic: %s", r.Err)
								bad = true
							}
						}
						if !bad {
							m.checkWeek(t, loc, today, monday, ww, kk, rs[0].T.In(loc), rs[1].T.In(loc), rs[2].T.In(loc), rs[3].T.In(loc), rs[4].T.In(loc))
						}
					}
				}
			}
		}
	}
	c.sweepViol = m.viol
	c.skips = m.skipped
	if c.Zone.Fixed {
		c.Impl = []Res{rZ(int64(dg.acc & 0x7fffffffffffffff))}
	} else {
		c.Impl = nil
	}
}
