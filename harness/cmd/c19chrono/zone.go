package main

// Transition tables of the IANA zones (MV.C19.ZoneModel): extracted at run time from package time by walking
// Time.ZoneBounds() from piece to piece, printed once into the header of every generated Coq shard, and used by the
// Coq side to evaluate every helper in the zone (MV.C19.ZoneRun).  The tables cover 1890-01-01 .. 2110-01-01 UTC;
// every generated instant lies in 1901..2099, so no lookup of the model leaves the extracted range (largest reach of
// a helper: 400 days).  Past the last transition of the embedded database package time applies the TZ "extend"
// rule (tzset): its pieces are returned by ZoneBounds like any other and are part of the extracted table.

import (
	"fmt"
	"strings"
	"sync"
	"time"

	"verif/harness/vh"
)

var (
	zLordHowe  = ZoneSpec{"Australia/Lord_Howe", 0, false} // 30-minute DST shift
	zSaoPaulo  = ZoneSpec{"America/Sao_Paulo", 0, false}   // DST (until 2019) started AT local midnight: 00:00 does not exist on those days
	zHavana    = ZoneSpec{"America/Havana", 0, false}      // DST starts at local midnight every year
	zKathmandu = ZoneSpec{"Asia/Kathmandu", 0, false}      // +05:30 until 1986, +05:45 since
	zApia      = ZoneSpec{"Pacific/Apia", 0, false}        // skipped 2011-12-30 altogether (-10 -> +14)
	tableZones = []ZoneSpec{zNY, zBerlin, zLordHowe, zSaoPaulo, zHavana, zKathmandu, zApia}
)

var (
	tabLo = time.Date(1890, 1, 1, 0, 0, 0, 0, time.UTC).Unix()
	tabHi = time.Date(2110, 1, 1, 0, 0, 0, 0, time.UTC).Unix()
	// days from which instants are generated in the table zones
	zoneDayLo = refDay(1901, 1, 1)
	zoneDayHi = refDay(2099, 12, 31)
)

const (
	alphaSec = -1 << 63
	omegaSec = 1<<63 - 1
	okB      = 64800  // zone_okb: every |offset| <= 18 h
	okD      = 129600 // zone_okb: consecutive transitions more than 36 h = 2 * 18 h apart
)

// ZTab: offset before the first extracted transition + (when, offset) of every later piece, as package time reports them.
type ZTab struct {
	Name       string
	First      int64
	Trans      [][2]int64
	Quirks     int   // pieces for which ZoneBounds returned an end that is not after the instant asked (see extractTable)
	MaxAbsOff  int64 // largest |offset|
	MinGap     int64 // smallest distance between consecutive transitions
	NoOpTrans  int   // transitions that do not change the offset (name / isDST change, year boundaries of the extend rule)
	offsets    []int64
	transLocal map[int64]bool
}

var (
	tabMu    sync.Mutex
	tabCache = map[string]*ZTab{}
)

func offsetAt(loc *time.Location, u int64) int64 {
	_, o := time.Unix(u, 0).In(loc).Zone()
	return int64(o)
}

// goLookup: what Location.lookup(u) returns, through the public API (Zone + ZoneBounds); open ends as alpha / omega.
func goLookup(loc *time.Location, u int64) (off, start, end int64) {
	t := time.Unix(u, 0).In(loc)
	s, e := t.ZoneBounds()
	off = offsetAt(loc, u)
	start, end = alphaSec, omegaSec
	if !s.IsZero() {
		start = s.Unix()
	}
	if !e.IsZero() {
		end = e.Unix()
	}
	return
}

// extractTable walks [tabLo, tabHi) from piece to piece.
// Quirk of package time (Go 1.23, tzset): in the region governed by the TZ extend rule the last piece of a year is
// reported with end = (start of the year) + 365 days even in leap years, so on December 31st (UTC) of a leap year
// lookup returns an end that is NOT after the instant.  The walk then advances by one day; the offsets are not
// affected (time.Date re-looks up whenever its first guess falls outside [start, end)).
func extractTable(z ZoneSpec) *ZTab {
	tabMu.Lock()
	defer tabMu.Unlock()
	if t, ok := tabCache[z.Name]; ok {
		return t
	}
	loc := z.Loc()
	tb := &ZTab{Name: z.Name, First: offsetAt(loc, tabLo), MinGap: omegaSec, transLocal: map[int64]bool{}}
	cur := tabLo
	for cur < tabHi {
		off, s, e := goLookup(loc, cur)
		if s > tabLo && (len(tb.Trans) == 0 || s > tb.Trans[len(tb.Trans)-1][0]) {
			tb.Trans = append(tb.Trans, [2]int64{s, off})
		}
		if e == omegaSec {
			break
		}
		if e > cur {
			cur = e
		} else {
			tb.Quirks++
			cur += 86400
		}
	}
	seen := map[int64]bool{}
	prevOff, prevWhen := tb.First, int64(alphaSec)
	note := func(o int64) {
		if !seen[o] {
			seen[o] = true
			tb.offsets = append(tb.offsets, o)
		}
		if a := abs64(o); a > tb.MaxAbsOff {
			tb.MaxAbsOff = a
		}
	}
	note(tb.First)
	for _, tr := range tb.Trans {
		note(tr[1])
		if tr[1] == prevOff {
			tb.NoOpTrans++
		}
		if prevWhen != alphaSec && tr[0]-prevWhen < tb.MinGap {
			tb.MinGap = tr[0] - prevWhen
		}
		prevOff, prevWhen = tr[1], tr[0]
	}
	tabCache[z.Name] = tb
	return tb
}

func abs64(a int64) int64 {
	if a < 0 {
		return -a
	}
	return a
}

func coqZoneName(name string) string {
	return "zt_" + strings.NewReplacer("/", "_", "-", "_", "+", "p").Replace(name)
}

// coqDef: the table as a Coq definition (MV.C19.ZoneLit.zone_of_lits: primitive-integer literals, biased).
func (tb *ZTab) coqDef() string {
	var sb strings.Builder
	fmt.Fprintf(&sb, "Definition %s : zone := Eval vm_compute in zone_of_lits %d%%uint63 [", coqZoneName(tb.Name), tb.First+1<<20)
	for i, tr := range tb.Trans {
		if i > 0 {
			sb.WriteString("; ")
		}
		if i%6 == 0 {
			sb.WriteString("\n  ")
		}
		fmt.Fprintf(&sb, "(%d%%uint63, %d%%uint63)", tr[0]+1<<40, tr[1]+1<<20)
	}
	sb.WriteString("].\n")
	return sb.String()
}

const zoneCoqImports = "From MV Require Import Lib.ListX C19.ChronoModel C19.ChronoLit C19.ChronoRun C19.ZoneModel C19.ZoneLit C19.ZoneRun."

// zoneCoqHeader: imports + the whole extracted table of every zone
func zoneCoqHeader() string {
	var sb strings.Builder
	sb.WriteString(zoneCoqImports + "\nOpen Scope list_scope.\n")
	for _, z := range tableZones {
		sb.WriteString(extractTable(z).coqDef())
	}
	return sb.String()
}

// wallCount: how many instants of the zone show the wall clock w (seconds since the epoch "as if UTC"): an instant with
// wall clock w is w - o for one of the offsets o the zone ever uses, and shows w iff o is in force there (package time).
func wallCount(z ZoneSpec, w int64) int {
	tb, loc := extractTable(z), z.Loc()
	n := 0
	for _, o := range tb.offsets {
		if offsetAt(loc, w-o) == o {
			n++
		}
	}
	return n
}

// midnightRegularGo: local midnight of civil day n exists exactly once in the zone (judged with package time only).
func midnightRegularGo(z ZoneSpec, n int64) bool { return wallCount(z, n*86400) == 1 }

// ---------------------------------------------------------------- Coq terms of the cases of table zones

func (c *Case) coqZQuery() string {
	z := coqZ
	switch c.Kind {
	case "inst":
		return vh.App("ZInst", c.T.Coq(), z(c.W), z(c.Kw), z(c.Nd), z(c.H), z(c.M), z(c.S))
	case "pair":
		return vh.App("ZPair", c.T.Coq(), c.T2.Coq())
	case "date":
		return vh.App("ZDate", z(c.F[0]), z(c.F[1]), z(c.F[2]), z(c.F[3]), z(c.F[4]), z(c.F[5]), z(c.F[6]))
	case "adddate":
		return vh.App("ZAddDate", c.T.Coq(), z(c.F[0]), z(c.F[1]), z(c.F[2]))
	case "zlook":
		if len(c.Impl) == 1 {
			return vh.App("ZOffset", z(c.T.S))
		}
		return vh.App("ZLookup", z(c.T.S))
	case "zok":
		return vh.App("ZOk", z(c.F[0]), z(c.F[1]))
	}
	panic("kind " + c.Kind)
}

// coqTable: the table the model evaluates the case on. Lookup and well-formedness cases, and one helper case in 16
// (sub-harness dsttab), use the whole extracted table of the zone (a definition in the shard header); the other helper
// cases (sub-harness dst) carry the part of that table within 800 days (AddDate with years and months: 2200 days) of
// their instants (offset in force at the start of the window + the transitions inside it): a lookup scans the table
// from the left, ~350 entries for a present-day instant of America/New_York, and one inst case makes ~100 lookups.
// No helper reaches further than 400 days + 3 weeks from its argument, AddDate(+-3 y, +-14 m, +-400 d) 1950 days.
func (c *Case) coqTable(id int) string {
	if c.fullTab {
		return coqZoneName(c.Zone.Name)
	}
	reach := int64(800 * 86400)
	if c.Kind == "adddate" {
		reach = 2200 * 86400
	}
	lo, hi := c.T.S, c.T.S
	switch c.Kind {
	case "pair":
		if c.T2.S < lo {
			lo = c.T2.S
		}
		if c.T2.S > hi {
			hi = c.T2.S
		}
	case "date":
		lo = refDay(c.F[0], 1, 1) * 86400
		hi = lo + 366*86400
	}
	lo, hi = lo-reach, hi+reach
	tb := extractTable(c.Zone)
	first := tb.First
	var sb strings.Builder
	n := 0
	for _, tr := range tb.Trans {
		if tr[0] <= lo {
			first = tr[1]
		} else if tr[0] < hi {
			if n > 0 {
				sb.WriteString("; ")
			}
			fmt.Fprintf(&sb, "(%d%%uint63, %d%%uint63)", tr[0]+1<<40, tr[1]+1<<20)
			n++
		}
	}
	return fmt.Sprintf("(zone_of_lits %d%%uint63 [%s])", first+1<<20, sb.String())
}

// inTableRange: every instant of the case lies in the years from which table-zone cases are generated.
func (c *Case) inTableRange() bool {
	ok := func(i Inst) bool { d := fdiv(i.S, 86400); return d >= zoneDayLo-2 && d <= zoneDayHi+2 }
	switch c.Kind {
	case "inst", "adddate", "zlook":
		return ok(c.T)
	case "pair":
		return ok(c.T) && ok(c.T2)
	case "date":
		return c.F[0] >= 1902 && c.F[0] <= 2098
	case "zok":
		return true
	}
	return false
}

// coqZCase: the case as a term of MV.C19.ZoneRun.zcase ("" if it cannot be evaluated over the table).
func (c *Case) coqZCase(id int) string {
	if c.Zone.Fixed || c.Local != c.Zone || (c.Kind == "pair" && c.Zone2 != c.Zone) || !c.inTableRange() {
		return ""
	}
	switch c.Kind {
	case "inst", "pair", "date", "adddate", "zlook", "zok":
	default:
		return ""
	}
	rs := make([]string, 0, len(c.Impl)+1)
	for _, r := range c.Impl {
		rs = append(rs, r.Coq())
	}
	if c.Kind == "inst" {
		rs = append(rs, vh.App("OB", vh.Bool(c.MidReg)))
	}
	return fmt.Sprintf("{| zid := Z.to_nat %d; ztab := %s; zq := %s; zimpl := %s |}",
		id, c.coqTable(id), c.coqZQuery(), "["+strings.Join(rs, "; ")+"]")
}

// ---------------------------------------------------------------- generators for the table-specific case kinds

// transitionInstants: instants around the transitions of the zone inside the generated range
func transitionsInRange(z ZoneSpec) [][2]int64 {
	var l [][2]int64
	for _, tr := range extractTable(z).Trans {
		if d := fdiv(tr[0], 86400); d > zoneDayLo+2 && d < zoneDayHi-2 {
			l = append(l, tr)
		}
	}
	return l
}

func (g *gen) zlookCase(z ZoneSpec) Case {
	r := g.rng
	var u int64
	trs := transitionsInRange(z)
	if len(trs) > 0 && r.Chance(3, 4) {
		u = trs[r.Intn(len(trs))][0] + g.pick64(-1, 0, 1, -3600, 3600, -86400, 86400, int64(r.Range(-200000, 200000)))
	} else {
		u = zoneDayLo*86400 + int64(r.U64()%uint64((zoneDayHi-zoneDayLo)*86400))
	}
	return Case{Kind: "zlook", Zone: z, Local: z, T: Inst{u, 0}, Class: "lookup"}
}

// zdateCase: time.Date with the wall clock at / inside / around the gap or the repeated interval of a transition,
// plus overflowing fields
func (g *gen) zdateCase(z ZoneSpec) Case {
	r := g.rng
	c := Case{Kind: "date", Zone: z, Local: z, Class: "wall-clock-near-transition"}
	trs := transitionsInRange(z)
	var w int64
	if len(trs) > 0 && r.Chance(4, 5) {
		i := r.Intn(len(trs))
		before := offsetAt(z.Loc(), trs[i][0]-1)
		lo, hi := trs[i][0]+before, trs[i][0]+trs[i][1]
		if hi < lo {
			lo, hi = hi, lo
		}
		switch r.Intn(6) {
		case 0:
			w = lo - 1
		case 1:
			w = lo
		case 2:
			w = hi - 1
		case 3:
			w = hi
		case 4:
			w = lo + (hi-lo)/2
		default:
			w = lo + int64(r.Range(-7200, 7200))
		}
	} else {
		w = zoneDayLo*86400 + int64(r.U64()%uint64((zoneDayHi-zoneDayLo)*86400))
	}
	y, m, d := refCivil(fdiv(w, 86400))
	sd := pmod(w, 86400)
	c.F = [7]int64{y, m, d, sd / 3600, sd % 3600 / 60, sd % 60, g.pick64(0, 0, 1, 999999999, int64(r.Intn(1000000000)))}
	if r.Chance(1, 4) { // the same wall clock written with overflowing fields
		k := int64(r.Range(-3, 3))
		c.F[2] -= k
		c.F[3] += 24 * k
		c.F[5] += 60
		c.F[4] -= 1
		c.Class = "wall-clock-near-transition-overflowing"
	}
	return c
}
