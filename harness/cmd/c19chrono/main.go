package main

import (
	"encoding/json"
	"fmt"
	"os"
	"sync"
	"time"

	"verif/harness/vh"
)

// The 400-year cycle that is swept: local days 1900-01-01 .. 2299-12-31 (146097 days: 1900, 2100, 2200 are not
// leap years, 2000 is).
var (
	cycleDay0 = refDay(1900, 1, 1)
	cycleDays = int64(146097)
)

// ---------------------------------------------------------------- boundaries

// transition days of the two DST zones (local day numbers on which the UTC offset at noon differs from the day before)
var (
	transOnce sync.Once
	transDays = map[string][]int64{}
	transSet  = map[string]map[int64]bool{}
)

func loadTransitions() {
	transOnce.Do(func() {
		for _, z := range tableZones {
			loc := z.Loc()
			set := map[int64]bool{}
			var list []int64
			prev := 0
			for i := int64(-1); i < cycleDays; i++ {
				n := cycleDay0 + i
				_, off := wallOf(n, 12, 0, 0, 0, loc).Zone()
				if i >= 0 && off != prev {
					list = append(list, n)
					set[n] = true
				}
				prev = off
			}
			transDays[z.Name], transSet[z.Name] = list, set
		}
	})
}

// boundaryClasses: which boundaries named by the property the instant sits on (the non-triviality rule).
func boundaryClasses(t time.Time, z ZoneSpec) []string {
	loadTransitions()
	var cl []string
	n := dayOf(t)
	y, m, d := refCivil(n)
	switch refWeekday(n) {
	case 0:
		cl = append(cl, "sunday")
	case 1:
		cl = append(cl, "monday")
	}
	if m == 2 && d == 29 {
		cl = append(cl, "leap-day")
	} else if (m == 2 && d == 28) || (m == 3 && d == 1) {
		cl = append(cl, "around-leap-day")
	}
	if d == refMonthLen(y, m) {
		if m == 12 {
			cl = append(cl, "year-end")
		} else {
			cl = append(cl, "month-end")
		}
	}
	if d == 1 {
		if m == 1 {
			cl = append(cl, "year-start")
		} else {
			cl = append(cl, "month-start")
		}
	}
	names := []string{zNY.Name, zBerlin.Name}
	if !z.Fixed {
		names = []string{z.Name}
	}
	for _, nm := range names {
		s := transSet[nm]
		if s[n] {
			cl = append(cl, "dst-day")
			break
		} else if s[n-1] || s[n+1] {
			cl = append(cl, "next-to-dst-day")
			break
		}
	}
	hh, mm, ss := t.Clock()
	sd := hh*3600 + mm*60 + ss
	if sd <= 1 || sd >= 86398 {
		cl = append(cl, "around-midnight")
	}
	return cl
}

// ---------------------------------------------------------------- generators

type gen struct {
	rng *vh.RNG
}

func (g *gen) pick64(vs ...int64) int64 { return vs[g.rng.Intn(len(vs))] }

// boundaryDay draws a local day of the cycle, mostly on a boundary class; returns the class drawn.
func (g *gen) boundaryDay(z ZoneSpec) (int64, string) {
	if z.Fixed {
		return g.boundaryDayAny(z)
	}
	for { // table zones: only days covered by the extracted transition table (zone.go)
		if n, cls := g.boundaryDayAny(z); n >= zoneDayLo && n <= zoneDayHi {
			return n, cls
		}
	}
}

func (g *gen) boundaryDayAny(z ZoneSpec) (int64, string) {
	loadTransitions()
	r := g.rng
	rnd := func() int64 { return cycleDay0 + int64(r.Intn(int(cycleDays))) }
	year := func() int64 { return 1900 + int64(r.Intn(400)) }
	switch r.Intn(11) {
	case 0:
		n := rnd()
		return n - refWeekday(n), "sunday"
	case 1:
		n := rnd()
		return n - pmod(refWeekday(n)+6, 7), "monday"
	case 2: // leap day (including the century years: 2000 is leap, 1900/2100/2200 are not -> Feb 28 there)
		y := g.pick64(1904, 2000, 2024, 2096, 2296, 1900+4*int64(r.Intn(100)))
		if !refLeap(y) {
			return refDay(y, 2, 28), "feb-28-of-non-leap-century"
		}
		return refDay(y, 2, 29), "leap-day"
	case 3:
		y := g.pick64(1900, 2000, 2100, 2200, 2023, 2024, year())
		if r.Bool() {
			return refDay(y, 2, 28), "feb-28"
		}
		return refDay(y, 3, 1), "mar-1"
	case 4:
		y, m := year(), int64(r.Range(1, 12))
		return refDay(y, m, refMonthLen(y, m)), "month-end"
	case 5:
		return refDay(year(), int64(r.Range(1, 12)), 1), "month-start"
	case 6:
		return refDay(year(), 12, 31), "year-end"
	case 7:
		return refDay(year(), 1, 1), "year-start"
	case 8, 9:
		nm := zNY.Name
		if !z.Fixed {
			nm = z.Name
		} else if r.Bool() {
			nm = zBerlin.Name
		}
		l := transDays[nm]
		return l[r.Intn(len(l))] + int64(r.Range(-1, 1)), "dst-day"
	}
	return rnd(), "random-day"
}

// tod draws a time of day (seconds, nanoseconds) concentrated on the boundaries
func (g *gen) tod() (int64, int64) {
	r := g.rng
	var sd int64
	switch r.Intn(12) {
	case 0, 1:
		sd = 0
	case 2:
		sd = 1
	case 3:
		sd = 43200
	case 4, 5:
		sd = 86399
	case 6:
		sd = g.pick64(3599, 3600, 5400, 7199, 7200, 9000, 10799, 10800, 82800, 84600) // around the DST shifts
	default:
		sd = int64(r.Intn(86400))
	}
	var ns int64
	switch r.Intn(8) {
	case 0:
		ns = 1
	case 1:
		ns = 999999999
	case 2:
		ns = int64(r.Intn(1000000000))
	}
	return sd, ns
}

func mkTime(z ZoneSpec, day, sd, ns int64) time.Time {
	loc := z.Loc()
	if z.Fixed {
		return time.Unix(day*86400+sd-z.Off, ns).In(loc)
	}
	return wallOf(day, int(sd/3600), int(sd%3600/60), int(sd%60), int(ns), loc)
}

func (g *gen) instCase(z, local ZoneSpec) Case {
	r := g.rng
	day, cls := g.boundaryDay(z)
	sd, ns := g.tod()
	t := mkTime(z, day, sd, ns)
	c := Case{Kind: "inst", Zone: z, Local: local, T: instOf(t), Class: cls}
	c.W = int64(r.Intn(7))
	c.Kw = int64(r.Range(-3, 3))
	switch r.Intn(4) {
	case 0:
		c.Nd = int64(r.Range(-2, 2))
	case 1:
		c.Nd = int64(r.Range(-400, 400))
	default:
		c.Nd = int64(r.Range(-40, 40))
	}
	hh, mm, ss := t.Clock()
	switch r.Intn(5) {
	case 0: // the requested moment is exactly now / one second away: the strict-future boundary
		q := int64(hh*3600+mm*60+ss) + int64(r.Range(-1, 1))
		q = pmod(q, 86400)
		c.H, c.M, c.S = q/3600, q%3600/60, q%60
	case 1:
		c.H, c.M, c.S = g.pick64(0, 2, 23), g.pick64(0, 30, 59), g.pick64(0, 59)
	default:
		c.H, c.M, c.S = int64(r.Intn(24)), int64(r.Intn(60)), int64(r.Intn(60))
	}
	return c
}

func (g *gen) pairCase(z ZoneSpec, z2 ZoneSpec) Case {
	r := g.rng
	day, cls := g.boundaryDay(z)
	sd, ns := g.tod()
	t1 := mkTime(z, day, sd, ns)
	var t2 time.Time
	switch r.Intn(11) {
	case 10: // both ends of ONE civil day — on a 25-hour (fall-back) day of the zone, if it has one nearby, they are more
		// than 24 h apart and still the same day
		d := day
		for k := int64(0); k < 400; k++ {
			if mkTime(z, d+k+1, 0, 0).Sub(mkTime(z, d+k, 0, 0)) > 24*time.Hour {
				d, cls = d+k, "long-day"
				break
			}
		}
		t1 = mkTime(z, d, 0, 0).Add(time.Duration(r.Range(0, 3599)) * time.Second)
		t2 = mkTime(z, d+1, 0, 0).Add(-time.Duration(r.Range(1, 3599)) * time.Second)
		if r.Bool() {
			t1, t2 = t2, t1
		}
	case 0:
		t2 = t1
	case 1:
		t2 = t1.Add(time.Duration(g.pick64(-1, 1, -1000000000, 1000000000)))
	case 2: // just before / at / after the next midnight
		t2 = mkTime(z, day+1, 0, 0).Add(time.Duration(g.pick64(-1000000000, -1, 0, 1, 1000000000)))
	case 3: // just before / at the start of this day
		t2 = mkTime(z, day, 0, 0).Add(time.Duration(g.pick64(-1000000000, -1, 0, 1)))
	case 4:
		t2 = mkTime(z, day+g.pick64(-7, -6, -1, 1, 6, 7), sd, ns)
	case 5, 6: // another instant of the same week / month
		sd2, ns2 := g.tod()
		t2 = mkTime(z, day+int64(r.Range(-8, 8)), sd2, ns2)
	case 7:
		sd2, ns2 := g.tod()
		t2 = mkTime(z, day+int64(r.Range(-45, 45)), sd2, ns2)
	default:
		d2, _ := g.boundaryDay(z)
		sd2, ns2 := g.tod()
		t2 = mkTime(z, d2, sd2, ns2)
	}
	return Case{Kind: "pair", Zone: z, Local: z, Zone2: z2, T: instOf(t1), T2: instOf(t2), Class: cls}
}

func (g *gen) dateCase(z ZoneSpec) Case {
	r := g.rng
	c := Case{Kind: "date", Zone: z, Local: z, Class: "overflowing-fields"}
	c.F = [7]int64{1900 + int64(r.Intn(400)), int64(r.Range(-14, 26)), int64(r.Range(-40, 70)), int64(r.Range(-30, 50)),
		int64(r.Range(-100, 200)), int64(r.Range(-100, 200)), int64(r.Range(-2000000000, 3000000000))}
	if r.Chance(1, 3) { // in range except one field
		y, m, d := refCivil(cycleDay0 + int64(r.Intn(int(cycleDays))))
		f := [7]int64{y, m, d, int64(r.Intn(24)), int64(r.Intn(60)), int64(r.Intn(60)), int64(r.Intn(1000000000))}
		i := r.Range(1, 6)
		f[i] = c.F[i]
		c.F = f
	}
	return c
}

func (g *gen) addDateCase(z ZoneSpec) Case {
	r := g.rng
	day, cls := g.boundaryDay(z)
	sd, ns := g.tod()
	c := Case{Kind: "adddate", Zone: z, Local: z, T: instOf(mkTime(z, day, sd, ns)), Class: cls}
	c.F[0], c.F[1], c.F[2] = int64(r.Range(-3, 3)), int64(r.Range(-14, 14)), int64(r.Range(-400, 400))
	if r.Chance(1, 3) {
		c.F[0], c.F[1] = 0, 0
		c.F[2] = g.pick64(-7, -1, 0, 1, 7, 14, -14, 21, -21)
	}
	return c
}

func (g *gen) winCase(z ZoneSpec) Case {
	r := g.rng
	day, cls := g.boundaryDay(z)
	sd, ns := g.tod()
	c := Case{Kind: "win", Zone: z, Local: z, T: instOf(mkTime(z, day, sd, ns)), Class: cls}
	c.Size = g.pick64(1, 7, 1000, 1000000, 1000000000, 60e9, 3600e9, 86400e9, 604800e9, 1+int64(r.Intn(1000000)), 1+int64(r.U64()%(400*86400e9)))
	c.Nd = int64(r.Range(-100, 100))
	if r.Chance(1, 4) { // anchor exactly on a window boundary (multiples are counted from the zero time)
		k := int64(c.T.S+62135596800) * 1
		if c.Size%1000000000 == 0 {
			sz := c.Size / 1000000000
			c.T = Inst{k - pmod(k, sz) - 62135596800, 0}
			if r.Bool() {
				c.T = Inst{c.T.S - 1, 999999999}
			}
		}
	}
	return c
}

// ---------------------------------------------------------------- recording

type sink struct {
	out  *vh.Out
	full *vh.Out // table zones: the cases evaluated over the whole extracted tables (defined in this Out's shard header)
	nTab int
}

func (s *sink) record(c *Case) {
	runImpl(c)
	s.recordRun(c)
}

func (s *sink) recordRun(c *Case) {
	v := monitor(c)
	out := s.out
	if s.full != nil && !c.Zone.Fixed && c.Kind != "sweep" {
		s.nTab++
		if c.Kind == "zlook" || c.Kind == "zok" || s.nTab%16 == 0 {
			c.fullTab = true
			out = s.full
		}
	}
	nt := false
	loc := c.Zone.Loc()
	out.Count("kind", c.Kind)
	out.Count("zone", c.Zone.Name)
	switch c.Kind {
	case "inst", "adddate", "win":
		cl := boundaryClasses(c.T.In(loc), c.Zone)
		nt = len(cl) > 0
		for _, x := range cl {
			out.Count("boundary_class", x)
		}
		if !nt {
			out.Count("boundary_class", "none")
		}
		if c.Kind == "inst" {
			out.Count("weekday_arg", fmt.Sprint(c.W))
			out.Count("week_offset", fmt.Sprint(c.Kw))
			if c.W < 0 || c.W > 6 || c.H < 0 || c.H > 23 || c.M < 0 || c.M > 59 || c.S < 0 || c.S > 59 {
				out.Malformed()
			}
			if c.Zone != c.Local {
				out.Count("foreign_local_zone", c.Local.Name)
			}
		}
		if c.Kind == "win" && c.Size <= 0 {
			out.Malformed()
		}
	case "pair":
		cl := append(boundaryClasses(c.T.In(loc), c.Zone), boundaryClasses(c.T2.In(c.Zone2.Loc()), c.Zone2)...)
		nt = len(cl) > 0
		for _, x := range cl {
			out.Count("boundary_class", x)
		}
		if len(c.Impl) == nPair {
			for _, ix := range []int{pSameDay, pSameWeek, pSameMonth} {
				out.Count(pairName[ix], fmt.Sprint(c.Impl[ix].B))
			}
		}
	case "date":
		nt = true
	case "per":
		seen := map[Inst]bool{}
		for _, p := range c.Per {
			seen[p] = true
		}
		nt = len(seen) < 4 // shared endpoints, touching or empty periods
		if len(c.Impl) == nPer {
			out.Count("overlap", fmt.Sprint(c.Impl[qOverlapPQ].B))
		}
		out.Count("distinct_endpoints", fmt.Sprint(len(seen)))
	case "sweep":
		nt = c.sweepNT > 0
		out.Count("sweep_instants", fmt.Sprint(c.sweepN))
	case "zlook":
		nt = true
		out.Count("lookup_class", c.Class)
	case "zok":
		nt = true
	}
	if !c.Zone.Fixed && c.Kind == "inst" { // how many generated days have a regular local midnight (hypothesis of the C19_dst_* theorems)
		out.Count("midnight_regular:"+c.Zone.Name, fmt.Sprint(c.MidReg))
	}
	if !c.Zone.Fixed && c.Kind == "date" {
		y, mo, d := c.F[0], c.F[1], c.F[2]
		if mo >= 1 && mo <= 12 {
			w := (refDay(y, mo, 1)+d-1)*86400 + c.F[3]*3600 + c.F[4]*60 + c.F[5]
			out.Count("date_wall_clock_occurrences:"+c.Zone.Name, fmt.Sprint(wallCount(c.Zone, w)))
		}
	}
	for _, sk := range c.skips {
		out.Count("monitor_checks_skipped:"+c.Zone.Name, sk)
	}
	term := c.coqCase(out.N())
	if !c.Zone.Fixed && c.Kind != "sweep" {
		if term == "" {
			out.Count("table_zone_cases", "monitors-only")
		} else {
			out.Count("table_zone_cases", "evaluated-over-table")
		}
	}
	out.Add(c, term, nt, v)
}

func replay(path string) {
	var k struct {
		Kind string `json:"kind"`
	}
	vh.LoadReplayCase(path, &k)
	if k.Kind == "stateline" {
		var c LCase
		vh.LoadReplayCase(path, &c)
		want := append([]LRes(nil), c.Impl...)
		runLine(&c)
		v := monitorLine(&c)
		b, _ := json.Marshal(map[string]interface{}{"case": c, "recorded_impl": want, "monitor": v})
		fmt.Println(string(b))
		if len(v) > 0 {
			os.Exit(1)
		}
		return
	}
	var c Case
	vh.LoadReplayCase(path, &c)
	want := append([]Res(nil), c.Impl...)
	runImpl(&c)
	v := monitor(&c)
	b, _ := json.Marshal(map[string]interface{}{"case": c, "recorded_impl": want, "monitor": v})
	fmt.Println(string(b))
	if len(v) > 0 {
		os.Exit(1)
	}
}

const coqHeader = "From MV Require Import Lib.ListX C19.ChronoModel C19.ChronoLit C19.ChronoRun."

func main() {
	f := vh.ParseFlags()
	if f.Replay != "" {
		replay(f.Replay)
		return
	}
	thorough := f.Tier == "thorough"
	scale := 1
	if thorough {
		scale = 10
	}
	if f.N > 0 {
		scale = f.N
	}
	rng := vh.NewRNG(f.Seed)
	loadTransitions()

	// ------------------------------------------------------------ moment: fixed-offset zones, model + monitors
	mo := &sink{out: vh.NewOut(f.Out, "moment", coqHeader, "case", "mismatches", f.Seed,
		"one case = one instant (or pair of instants) in a fixed-offset zone (UTC, +08:00, -05:00, +05:45, -04:56:02; time.Local set to the same zone, "+
			"a tenth with a different one) with every helper of moment.go evaluated on it (weekday x week offset -3..3 x day offset x h:m:s drawn per case), "+
			"time.Date with overflowing fields and AddDate; days drawn from 1900..2299 mostly on boundaries; compared output by output with the Coq model and checked by the Go monitors; "+
			"non-trivial = the instant's local date is a Sunday/Monday, Feb 28/29/Mar 1, a month/year start or end, a DST transition day (+-1) of New_York/Berlin, or within 1 s of midnight")}
	mo.out.PerShard = 150
	for _, c := range corpusMoment() {
		c := c
		mo.record(&c)
	}
	type zq struct {
		z ZoneSpec
		n int
	}
	fixed := []zq{{zUTC, 420}, {zP8, 300}, {zM5, 300}, {zNepal, 90}, {zLMT, 90}}
	for _, q := range fixed {
		for i := 0; i < q.n*scale; i++ {
			cr, _ := rng.Derive()
			g := &gen{cr}
			local := q.z
			if cr.Chance(1, 10) {
				local = []ZoneSpec{zUTC, zP8, zM5}[cr.Intn(3)]
			}
			c := g.instCase(q.z, local)
			if cr.Chance(1, 25) { // malformed stream: weekday outside 0..6, clock fields outside their range
				c.W = g.pick64(-1, 7, 9)
				c.H, c.M = g.pick64(-1, 24, 25, 12), g.pick64(60, -5, 75)
			}
			mo.record(&c)
		}
		for i := 0; i < q.n*scale/4; i++ {
			cr, _ := rng.Derive()
			g := &gen{cr}
			z2 := q.z
			if cr.Chance(1, 10) {
				z2 = []ZoneSpec{zUTC, zP8, zM5}[cr.Intn(3)]
			}
			c := g.pairCase(q.z, z2)
			mo.record(&c)
		}
		for i := 0; i < q.n*scale/6; i++ {
			cr, _ := rng.Derive()
			g := &gen{cr}
			c := g.dateCase(q.z)
			mo.record(&c)
			c2 := g.addDateCase(q.z)
			mo.record(&c2)
		}
	}
	mo.out.Close()

	// ------------------------------------------------------------ period: lattice pairs + windows
	pe := &sink{out: vh.NewOut(f.Out, "period", coqHeader, "case", "mismatches", f.Seed,
		"all 6^4 pairs of periods (NewPeriod(a,b), NewPeriod(c,d)) with endpoints on a 6-point lattice (the second period represented in the same or in another Location: same instants), for several lattices (1 ns, 1 s, 1 h, 1 day steps, one containing the zero time), "+
			"the same raw (Period{a,b} without normalisation) for one lattice, and windows NewPeriodWindow / NewPeriodWith<Unit>; "+
			"non-trivial = the four endpoints are not pairwise distinct (touching, nested on an endpoint, equal or empty periods); window: anchor on a boundary date")}
	pe.out.PerShard = 300
	lattices := [][6]Inst{
		latticeOf(Inst{1710000000, 0}, 3600e9),
		latticeOf(Inst{0, 0}, 1),
		latticeOf(Inst{-62135596800, 0}, 1000000000), // starts at the zero time
	}
	if thorough {
		lattices = append(lattices, latticeOf(Inst{951782400, 0}, 86400e9), latticeOf(Inst{4102444799, 999999998}, 1), latticeOf(Inst{-2208988800, 0}, 7*86400e9))
	}
	for li, lat := range lattices {
		for _, raw := range []bool{false, true} {
			if raw && li != 0 && !thorough {
				continue
			}
			for a := 0; a < 6; a++ {
				for b := 0; b < 6; b++ {
					for cc := 0; cc < 6; cc++ {
						for d := 0; d < 6; d++ {
							c := Case{Kind: "per", Zone: zUTC, Local: zUTC, Raw: raw, Per: [4]Inst{lat[a], lat[b], lat[cc], lat[d]}}
							// representation of the second period: the same Location, or another one (same instants)
							c.Zone2 = []ZoneSpec{zUTC, zP8, zM5}[(a+2*b+3*cc+5*d+li)%3]
							pe.out.Count("second_period_location", map[bool]string{true: "same-as-first", false: "different"}[c.Zone2 == c.Zone])
							pe.record(&c)
						}
					}
				}
			}
		}
	}
	for i := 0; i < 300*scale; i++ {
		cr, _ := rng.Derive()
		g := &gen{cr}
		c := g.winCase([]ZoneSpec{zUTC, zP8, zM5}[i%3])
		if cr.Chance(1, 20) {
			c.Size = g.pick64(0, -1, -3600e9)
		}
		pe.record(&c)
	}
	pe.out.Close()

	// ------------------------------------------------------------ stateline: the ordered container of state_line.go
	runStateLine(f, rng, scale)

	// ------------------------------------------------------------ dst: IANA zones, transition-table model + monitors
	ds := &sink{out: vh.NewOut(f.Out, "dst", zoneCoqImports, "zcase", "zmismatches", f.Seed,
		"IANA zones America/New_York, Europe/Berlin, Australia/Lord_Howe (30-minute shift), America/Sao_Paulo and America/Havana (DST starts at local midnight), "+
			"Asia/Kathmandu, Pacific/Apia (skipped 2011-12-30), time.Local set to the zone; the transition table of each zone is extracted from package time "+
			"(Time.ZoneBounds, 1890..2110, including the pieces of the TZ extend rule) and printed into every Coq shard; instants of 1901..2099 concentrated on the transition days and the other boundaries; "+
			"every output of every helper (inst / pair cases), time.Date with wall clocks at and inside gaps and repeated intervals, AddDate, Location.lookup (offset, start, end) "+
			"and the well-formedness of the table (zone_okb 18h 36h) are compared with the transition-table model evaluated in Coq (MV.C19.ZoneRun), and checked by the Go monitors with package time as wall-clock oracle; "+
			"sweep cases = blocks of consecutive local days x 5 instants (00:00:00, 00:00:01, 12:00:00, 23:59:59, random) with, at 00:00:00 and 23:59:59, "+
			"the five week helpers for every weekday x week offset -3..3 (quick: 2023..2026, thorough: all 146097 days of 1900..2299), monitors only; non-trivial as for 'moment'; "+
			"a helper case carries the part of its zone's table within 800 days of its instants (AddDate: 2200 days); one helper case in 16, every lookup and the well-formedness cases are evaluated over the WHOLE tables (sub-harness dsttab)")}
	ds.full = vh.NewOut(f.Out, "dsttab", zoneCoqHeader(), "zcase", "zmismatches", f.Seed,
		"the cases of sub-harness dst that are evaluated over the whole extracted transition table of their zone (one definition per zone in the shard header): "+
			"Location.lookup (offset, start, end) at and around every kind of transition, zone_okb 18h 36h of each table, and one helper case in 16; non-trivial as for 'dst'")
	ds.out.PerShard = 200
	ds.full.PerShard = 250
	for _, z := range tableZones {
		tb := extractTable(z)
		c := Case{Kind: "zok", Zone: z, Local: z, F: [7]int64{okB, okD}, Class: "table-well-formed"}
		ds.record(&c)
		ds.out.Count("table_transitions", fmt.Sprintf("%s:%d", z.Name, len(tb.Trans)))
		ds.out.Count("table_transitions_without_offset_change", fmt.Sprintf("%s:%d", z.Name, tb.NoOpTrans))
		ds.out.Count("table_max_abs_offset_s", fmt.Sprintf("%s:%d", z.Name, tb.MaxAbsOff))
		ds.out.Count("table_min_gap_s", fmt.Sprintf("%s:%d", z.Name, tb.MinGap))
		ds.out.Count("table_lookup_end_quirks", fmt.Sprintf("%s:%d", z.Name, tb.Quirks))
	}
	for _, c := range corpusDST() {
		c := c
		ds.record(&c)
	}
	for _, z := range tableZones {
		nInstCases, nSmall := 900, 100
		if z != zNY && z != zBerlin {
			nInstCases = 240
		}
		for i := 0; i < nInstCases*scale; i++ {
			cr, _ := rng.Derive()
			g := &gen{cr}
			c := g.instCase(z, z)
			ds.record(&c)
		}
		for i := 0; i < nInstCases*scale/4; i++ {
			cr, _ := rng.Derive()
			g := &gen{cr}
			c := g.pairCase(z, z)
			ds.record(&c)
		}
		for i := 0; i < nSmall*scale; i++ {
			cr, _ := rng.Derive()
			g := &gen{cr}
			c := g.zdateCase(z)
			ds.record(&c)
			c2 := g.zlookCase(z)
			ds.record(&c2)
			c3 := g.addDateCase(z)
			ds.record(&c3)
		}
	}
	// sweep of the DST zones: quick = the years 2023..2026, thorough = the whole cycle with all 49 weekday x offset pairs
	for _, z := range []ZoneSpec{zNY, zBerlin} {
		d0, n := refDay(2023, 1, 1), refDay(2027, 1, 1)-refDay(2023, 1, 1)
		if thorough {
			d0, n = cycleDay0, cycleDays
		}
		runSweeps(ds, z, d0, n, sweepBlock, int64(f.Seed%1000003), true)
	}
	ds.out.Close()
	ds.full.Close()

	// ------------------------------------------------------------ sweep: fixed zones, monitors + digest recomputed by the model
	sw := &sink{out: vh.NewOut(f.Out, "sweep", coqHeader, "case", "mismatches", f.Seed,
		"one case = a block of consecutive local days x 5 instants per day (00:00:00, 00:00:01, 12:00:00, 23:59:59, pseudo-random second+ns) in a fixed-offset zone; "+
			"all one-instant helpers run on every instant, every output checked by the Go monitors and folded into a 63-bit position-weighted digest that the Coq model recomputes from (zone, first day, count, seed); "+
			"the model side uses the closed-form evaluator sweep_fast, proved equal to the fold of the model's own functions (theorem C19_sweep_evaluator_sound); "+
			"quick: every day of 2023..2026 in UTC, +08:00 and -05:00 plus Feb-Mar 1900 and Dec 2099-Mar 2100; thorough: all 146097 days of 1900..2299 in the three zones; "+
			"blocks marked all49 additionally run the five week helpers for every weekday x week offset -3..3 at 00:00:00 and 23:59:59 of each day (monitors only); "+
			"non-trivial = the block contains a boundary instant")}
	sw.out.PerShard = 24
	if thorough {
		for _, z := range []ZoneSpec{zUTC, zP8, zM5} {
			runSweeps(sw, z, cycleDay0, cycleDays, sweepBlock, int64(f.Seed%1000003), z == zUTC)
		}
	} else {
		d0, n := refDay(2023, 1, 1), refDay(2027, 1, 1)-refDay(2023, 1, 1)
		for _, z := range []ZoneSpec{zUTC, zP8, zM5} {
			runSweeps(sw, z, d0, n, 32, int64(f.Seed%1000003), false)
		}
		runSweeps(sw, zUTC, refDay(1900, 2, 1), 64, 32, int64(f.Seed%1000003), true)
		runSweeps(sw, zUTC, refDay(2099, 12, 1), 128, 32, int64(f.Seed%1000003), true)
	}
	sw.out.Close()
}

const sweepBlock = 128

// runSweeps cuts [d0, d0+n) into blocks, runs them on all cores (time.Local is set once, before the workers start)
// and records them in order.
func runSweeps(s *sink, z ZoneSpec, d0, n, block, seed int64, all49 bool) {
	setLocal(z)
	var cases []*Case
	for o := int64(0); o < n; o += block {
		cnt := block
		if o+cnt > n {
			cnt = n - o
		}
		cases = append(cases, &Case{Kind: "sweep", Zone: z, Local: z, Day0: d0 + o, Count: cnt, Seed: seed, All49: all49})
	}
	var wg sync.WaitGroup
	ch := make(chan *Case)
	for w := 0; w < 16; w++ {
		wg.Add(1)
		go func() {
			defer wg.Done()
			for c := range ch {
				runSweep(c)
			}
		}()
	}
	for _, c := range cases {
		ch <- c
	}
	close(ch)
	wg.Wait()
	for _, c := range cases {
		s.recordRun(c)
	}
}

func latticeOf(base Inst, step int64) [6]Inst {
	var l [6]Inst
	for i := range l {
		t := time.Unix(base.S, base.N).Add(time.Duration(int64(i) * step))
		l[i] = instOf(t)
	}
	return l
}

// ---------------------------------------------------------------- corpus (run first)

func at(z ZoneSpec, y, m, d, hh, mm, ss int, ns int) Inst {
	return instOf(time.Date(y, time.Month(m), d, hh, mm, ss, ns, z.Loc()))
}

func corpusMoment() []Case {
	var cs []Case
	// the examples of the doc comment of GetRelativeStartOfWeek (Saturday, -1) and the literals of the repo's tests
	for _, d := range []int{1, 2, 3} {
		cs = append(cs, Case{Kind: "inst", Zone: zUTC, Local: zUTC, T: at(zUTC, 2024, 3, d, 0, 0, 0, 0), W: 6, Kw: -1, Nd: 1, H: 0, M: 0, S: 0, Class: "doc-example"})
	}
	// every weekday x every week offset on a Sunday 23:59:59.999999999, a Monday 00:00:00, a leap day and a year end
	for _, z := range []ZoneSpec{zUTC, zP8, zM5} {
		for _, t := range []Inst{at(z, 2024, 3, 3, 23, 59, 59, 999999999), at(z, 2024, 3, 4, 0, 0, 0, 0), at(z, 2024, 2, 29, 12, 0, 0, 0), at(z, 2099, 12, 31, 23, 59, 59, 0), at(z, 1900, 3, 1, 0, 0, 1, 0)} {
			for w := int64(0); w < 7; w++ {
				for k := int64(-3); k <= 3; k++ {
					if z != zUTC && (w+k)%2 != 0 {
						continue
					}
					hh, mm, ss := t.In(z.Loc()).Clock()
					cs = append(cs, Case{Kind: "inst", Zone: z, Local: z, T: t, W: w, Kw: k, Nd: k, H: int64(hh), M: int64(mm), S: int64(ss), Class: "corpus-weekday-x-offset"})
				}
			}
		}
	}
	// zero time and far years
	cs = append(cs, Case{Kind: "inst", Zone: zUTC, Local: zUTC, T: Inst{-62135596800, 0}, W: 1, Kw: 0, Nd: 0, H: 0, M: 0, S: 0, Class: "zero-time"})
	cs = append(cs, Case{Kind: "inst", Zone: zUTC, Local: zUTC, T: at(zUTC, 9999, 12, 31, 23, 59, 59, 999999999), W: 0, Kw: 1, Nd: -1, H: 23, M: 59, S: 59, Class: "far-year"})
	cs = append(cs, Case{Kind: "inst", Zone: zM5, Local: zM5, T: at(zM5, 1, 1, 1, 0, 0, 0, 0), W: 0, Kw: -1, Nd: 1, H: 0, M: 0, S: 0, Class: "far-year"})
	cs = append(cs, Case{Kind: "pair", Zone: zUTC, Local: zUTC, Zone2: zUTC, T: at(zUTC, 2024, 3, 3, 23, 59, 59, 999999999), T2: at(zUTC, 2024, 3, 4, 0, 0, 0, 0), Class: "sunday-monday"})
	cs = append(cs, Case{Kind: "pair", Zone: zUTC, Local: zUTC, Zone2: zUTC, T: at(zUTC, 2023, 12, 31, 23, 59, 59, 0), T2: at(zUTC, 2024, 1, 1, 0, 0, 0, 0), Class: "year-end"})
	cs = append(cs, Case{Kind: "pair", Zone: zUTC, Local: zUTC, Zone2: zUTC, T: at(zUTC, 1900, 1, 1, 0, 0, 0, 0), T2: at(zUTC, 2299, 12, 31, 0, 0, 0, 0), Class: "sub-saturates"})
	cs = append(cs, Case{Kind: "pair", Zone: zUTC, Local: zUTC, Zone2: zP8, T: at(zUTC, 2024, 3, 3, 20, 0, 0, 0), T2: at(zP8, 2024, 3, 4, 2, 0, 0, 0), Class: "mixed-zones"})
	return cs
}

// corpusDST: minimised witnesses of the DST defects (168 h added as a week; AddDate applied to a moment moved by a gap)
func corpusDST() []Case {
	var cs []Case
	// open finding C19-next-moment-in-a-midnight-gap: on the eve of a DST start at local midnight, a moment inside the skipped hour
	cs = append(cs, Case{Kind: "inst", Zone: zHavana, Local: zHavana, T: at(zHavana, 2099, 3, 7, 23, 56, 40, 0), W: 1, Kw: 0, Nd: 0, H: 0, M: 12, S: 32, Class: "dst-witness"})
	// week window whose week has 169 h: anchor Sunday 23:30 EST after the fall-back
	cs = append(cs, Case{Kind: "inst", Zone: zNY, Local: zNY, T: at(zNY, 2024, 11, 3, 23, 30, 0, 0), W: 1, Kw: 0, Nd: 0, H: 12, M: 0, S: 0, Class: "dst-witness"})
	// relative week start: now - 168 h lands on the previous day across the spring-forward
	cs = append(cs, Case{Kind: "inst", Zone: zNY, Local: zNY, T: at(zNY, 2024, 3, 11, 0, 30, 0, 0), W: 2, Kw: 0, Nd: 0, H: 12, M: 0, S: 0, Class: "dst-witness"})
	// relative week start shifted by +1 week of 168 h across the spring-forward: 01:00 instead of 00:00
	cs = append(cs, Case{Kind: "inst", Zone: zNY, Local: zNY, T: at(zNY, 2024, 3, 4, 12, 0, 0, 0), W: 1, Kw: 1, Nd: 0, H: 12, M: 0, S: 0, Class: "dst-witness"})
	cs = append(cs, Case{Kind: "inst", Zone: zBerlin, Local: zBerlin, T: at(zBerlin, 2024, 10, 23, 12, 0, 0, 0), W: 1, Kw: 1, Nd: 0, H: 12, M: 0, S: 0, Class: "dst-witness"})
	// next moment 02:30 asked at 04:00 on the spring-forward day: today's 02:30 does not exist
	cs = append(cs, Case{Kind: "inst", Zone: zNY, Local: zNY, T: at(zNY, 2024, 3, 10, 4, 0, 0, 0), W: 1, Kw: 0, Nd: 0, H: 2, M: 30, S: 0, Class: "dst-witness"})
	cs = append(cs, Case{Kind: "inst", Zone: zBerlin, Local: zBerlin, T: at(zBerlin, 2024, 3, 31, 4, 0, 0, 0), W: 1, Kw: 0, Nd: 0, H: 2, M: 30, S: 0, Class: "dst-witness"})
	// days without a (unique) local midnight and other irregular days of the table zones
	for _, x := range []struct {
		z          ZoneSpec
		y, m, d, h int
	}{
		{zSaoPaulo, 2017, 10, 15, 12}, {zSaoPaulo, 2017, 10, 14, 23}, {zSaoPaulo, 2018, 2, 17, 23}, {zSaoPaulo, 2018, 2, 18, 1},
		{zHavana, 2024, 3, 10, 12}, {zHavana, 2024, 3, 9, 23}, {zHavana, 2024, 11, 3, 0}, {zHavana, 2024, 11, 3, 12},
		{zKathmandu, 1986, 1, 1, 12}, {zKathmandu, 1985, 12, 31, 23},
		{zApia, 2011, 12, 29, 12}, {zApia, 2011, 12, 31, 12}, {zApia, 2011, 12, 29, 23}, {zApia, 2012, 1, 2, 3},
		{zLordHowe, 2024, 4, 7, 1}, {zLordHowe, 2024, 4, 7, 12}, {zLordHowe, 2024, 10, 6, 2}, {zLordHowe, 2024, 10, 6, 12},
		{zNY, 2024, 3, 10, 1}, {zNY, 2024, 11, 3, 1}, {zBerlin, 2024, 10, 27, 2}, {zBerlin, 1945, 5, 24, 12}, {zBerlin, 1916, 4, 30, 22},
	} {
		for _, w := range []int64{0, 1, 3} {
			t := at(x.z, x.y, x.m, x.d, x.h, 30, 0, 0)
			cs = append(cs, Case{Kind: "inst", Zone: x.z, Local: x.z, T: t, W: w, Kw: w - 1, Nd: w - 1, H: int64(x.h), M: 30, S: 0, Class: "irregular-day"})
			cs = append(cs, Case{Kind: "pair", Zone: x.z, Local: x.z, Zone2: x.z, T: t, T2: Inst{t.S + 86400*(w-1) + 1800, 0}, Class: "irregular-day"})
		}
		cs = append(cs, Case{Kind: "date", Zone: x.z, Local: x.z, F: [7]int64{int64(x.y), int64(x.m), int64(x.d), 0, 0, 0, 0}, Class: "irregular-day"})
		cs = append(cs, Case{Kind: "date", Zone: x.z, Local: x.z, F: [7]int64{int64(x.y), int64(x.m), int64(x.d), int64(x.h), 30, 0, 0}, Class: "irregular-day"})
	}
	return cs
}
