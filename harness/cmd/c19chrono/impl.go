package main

import (
	"fmt"
	"time"

	"github.com/kercylan98/minotaur/toolkit/chrono"
)

// safe runs one implementation call; a panic becomes the output "panic" (Coq: OBad).
func safe(f func() Res) (r Res) {
	defer func() {
		if e := recover(); e != nil {
			r = Res{K: "panic", Err: fmt.Sprint(e)}
		}
	}()
	return f()
}

func rD(t time.Time) Res {
	y, mo, d := t.Date()
	h, mi, s := t.Clock()
	a := [7]int64{int64(y), int64(mo), int64(d), int64(h), int64(mi), int64(s), int64(t.Weekday())}
	return Res{K: "d", D: &a}
}

// index of each output of an "inst" case (same order as MV.C19.ChronoRun.eval_inst)
const (
	iDate = iota
	iStartOfDay
	iEndOfDay
	iRelStartOfDay
	iRelEndOfDay
	iStartOfWeek
	iEndOfWeek
	iRelStartOfWeek
	iRelEndOfWeek
	iRelTimeOfWeek
	iNextMoment
	iMomentPassed
	iMomentFuture
	iMonthDays
	iIsZero
	iWindowWeek
	iWithDayZero
	iWithDay
	nInst
)

// instOutputs: every one-instant helper at t (t already carries its Location; time.Local is set by the caller).
func instOutputs(t time.Time, w time.Weekday, kw, nd, h, m, s int) []Res {
	out := make([]Res, 0, nInst)
	add := func(f func() Res) { out = append(out, safe(f)) }
	add(func() Res { return rD(t) })
	add(func() Res { return rT(chrono.GetStartOfDay(t)) })
	add(func() Res { return rT(chrono.GetEndOfDay(t)) })
	add(func() Res { return rT(chrono.GetRelativeStartOfDay(t, nd)) })
	add(func() Res { return rT(chrono.GetRelativeEndOfDay(t, nd)) })
	add(func() Res { return rT(chrono.GetStartOfWeek(t, w)) })
	add(func() Res { return rT(chrono.GetEndOfWeek(t, w)) })
	add(func() Res { return rT(chrono.GetRelativeStartOfWeek(t, w, kw)) })
	add(func() Res { return rT(chrono.GetRelativeEndOfWeek(t, w, kw)) })
	add(func() Res { return rT(chrono.GetRelativeTimeOfWeek(t, w, kw)) })
	add(func() Res { return rT(chrono.GetNextMoment(t, h, m, s)) })
	add(func() Res { return rB(chrono.IsMomentPassed(t, h, m, s)) })
	add(func() Res { return rB(chrono.IsMomentFuture(t, h, m, s)) })
	add(func() Res { return rZ(int64(chrono.GetMonthDays(t))) })
	add(func() Res { return rB(chrono.IsZero(t)) })
	add(func() Res { p := chrono.NewPeriodWindowWeek(t); return rP(p.Start(), p.End()) })
	add(func() Res { p := chrono.NewPeriodWithDayZero(t, nd); return rP(p.Start(), p.End()) })
	add(func() Res { p := chrono.NewPeriodWithDay(t, nd); return rP(p[0], p[1]) })
	return out
}

const (
	pMax = iota
	pMin
	pSmallerFirst
	pSmallerLast
	pDelta
	pFloorDays
	pFloorHours
	pFloorMinutes
	pSameSecond
	pSameMinute
	pSameHour
	pSameDay
	pSameWeek
	pSameMonth
	pSameYear
	nPair
)

func pairOutputs(t1, t2 time.Time) []Res {
	out := make([]Res, 0, nPair)
	add := func(f func() Res) { out = append(out, safe(f)) }
	add(func() Res { return rT(chrono.Max(t1, t2)) })
	add(func() Res { return rT(chrono.Min(t1, t2)) })
	add(func() Res { a, b := chrono.SmallerFirst(t1, t2); return rP(a, b) })
	add(func() Res { a, b := chrono.SmallerLast(t1, t2); return rP(a, b) })
	add(func() Res { return rZ(int64(chrono.Delta(t1, t2))) })
	add(func() Res {
		// Floor/Ceil/Round all divide the same integral quotient: they must agree with each other
		f, c, r := chrono.FloorDeltaDays(t1, t2), chrono.CeilDeltaDays(t1, t2), chrono.RoundDeltaDays(t1, t2)
		if f != c || f != r {
			return Res{K: "panic", Err: fmt.Sprintf("Floor/Ceil/RoundDeltaDays differ: %d %d %d", f, c, r)}
		}
		return rZ(int64(f))
	})
	add(func() Res {
		f, c, r := chrono.FloorDeltaHours(t1, t2), chrono.CeilDeltaHours(t1, t2), chrono.RoundDeltaHours(t1, t2)
		if f != c || f != r {
			return Res{K: "panic", Err: fmt.Sprintf("Floor/Ceil/RoundDeltaHours differ: %d %d %d", f, c, r)}
		}
		return rZ(int64(f))
	})
	add(func() Res {
		f, c, r := chrono.FloorDeltaMinutes(t1, t2), chrono.CeilDeltaMinutes(t1, t2), chrono.RoundDeltaMinutes(t1, t2)
		if f != c || f != r {
			return Res{K: "panic", Err: fmt.Sprintf("Floor/Ceil/RoundDeltaMinutes differ: %d %d %d", f, c, r)}
		}
		return rZ(int64(f))
	})
	add(func() Res { return rB(chrono.IsSameSecond(t1, t2)) })
	add(func() Res { return rB(chrono.IsSameMinute(t1, t2)) })
	add(func() Res { return rB(chrono.IsSameHour(t1, t2)) })
	add(func() Res { return rB(chrono.IsSameDay(t1, t2)) })
	add(func() Res { return rB(chrono.IsSameWeek(t1, t2)) })
	add(func() Res { return rB(chrono.IsSameMonth(t1, t2)) })
	add(func() Res { return rB(chrono.IsSameYear(t1, t2)) })
	return out
}

const (
	qP = iota
	qQ
	qDuration
	qMilli
	qMicro
	qNano
	qIsZero
	qIsInvalid
	qIsBefore
	qIsAfter
	qIsBetween
	qIsOngoing
	qIsBetweenOrEqual
	qIsBetweenOrEqualPeriod
	qOverlapPQ
	qOverlapQP
	nPer
)

func perOutputs(raw bool, a, b, c, d time.Time) []Res {
	out := make([]Res, 0, nPer)
	add := func(f func() Res) { out = append(out, safe(f)) }
	var p, q chrono.Period
	if raw {
		p, q = chrono.Period{a, b}, chrono.Period{c, d}
	} else {
		p, q = chrono.NewPeriod(a, b), chrono.NewPeriodWithTimeArray([2]time.Time{c, d})
	}
	add(func() Res { return rP(p.Start(), p.End()) })
	add(func() Res { return rP(q.Start(), q.End()) })
	add(func() Res { return rZ(int64(p.Duration())) })
	add(func() Res { return rZ(int64(p.Milliseconds())) })
	add(func() Res { return rZ(int64(p.Microseconds())) })
	add(func() Res { return rZ(int64(p.Nanoseconds())) })
	add(func() Res { return rB(p.IsZero()) })
	add(func() Res { return rB(p.IsInvalid()) })
	add(func() Res { return rB(p.IsBefore(c)) })
	add(func() Res { return rB(p.IsAfter(c)) })
	add(func() Res { return rB(p.IsBetween(c)) })
	add(func() Res { return rB(p.IsOngoing(c)) })
	add(func() Res { return rB(p.IsBetweenOrEqual(c)) })
	add(func() Res { return rB(p.IsBetweenOrEqualPeriod(q)) })
	add(func() Res { return rB(p.IsOverlap(q)) })
	add(func() Res { return rB(q.IsOverlap(p)) })
	return out
}

const (
	wWindow = iota
	wHour
	wMinute
	wSecond
	wMilli
	wMicro
	wNano
	nWin
)

func winOutputs(t time.Time, size time.Duration, n int) []Res {
	out := make([]Res, 0, nWin)
	add := func(f func() chrono.Period) {
		out = append(out, safe(func() Res { p := f(); return rP(p[0], p[1]) }))
	}
	add(func() chrono.Period { return chrono.NewPeriodWindow(t, size) })
	add(func() chrono.Period { return chrono.NewPeriodWithHour(t, n) })
	add(func() chrono.Period { return chrono.NewPeriodWithMinute(t, n) })
	add(func() chrono.Period { return chrono.NewPeriodWithSecond(t, n) })
	add(func() chrono.Period { return chrono.NewPeriodWithMillisecond(t, n) })
	add(func() chrono.Period { return chrono.NewPeriodWithMicrosecond(t, n) })
	add(func() chrono.Period { return chrono.NewPeriodWithNanosecond(t, n) })
	return out
}

// setLocal makes loc the process-local zone (the helpers that take wall-clock hours build times in time.Local).
func setLocal(z ZoneSpec) *time.Location {
	l := z.Loc()
	time.Local = l
	return l
}

// runImpl executes the case on the implementation and fills c.Impl (sweep cases are run by runSweep).
func runImpl(c *Case) {
	setLocal(c.Local)
	loc := c.Zone.Loc()
	switch c.Kind {
	case "inst":
		c.Impl = instOutputs(c.T.In(loc), time.Weekday(c.W), int(c.Kw), int(c.Nd), int(c.H), int(c.M), int(c.S))
		if !c.Zone.Fixed {
			c.MidReg = midnightRegularGo(c.Zone, dayOf(c.T.In(loc)))
		}
	case "zlook": // Location.lookup through the public API, clipped to the range of the extracted table
		off, s, e := goLookup(loc, c.T.S)
		// Package time's (start, end) are not everywhere a partition of the time line (Go 1.23): in the region of the TZ
		// extend rule tzset reports the last piece of a LEAP year with end = start of the year + 365 days (December 31st
		// 00:00 UTC) although the instants of December 31st belong to the same piece, and the last piece of the embedded
		// table (ending at 2^31-1 in the 32-bit data) overlaps the first piece that tzset reports for the same year.
		// Start and end are compared with the model only where package time is consistent with itself: the piece starts
		// at its start, the previous instant belongs to another piece, and the next piece starts at its end.
		// Elsewhere only the offset is compared (query ZOffset).
		consistent := true
		if s != alphaSec {
			_, s1, _ := goLookup(loc, s)
			_, _, e0 := goLookup(loc, s-1)
			consistent = consistent && s1 == s && e0 == s
		}
		if e != omegaSec {
			_, s2, _ := goLookup(loc, e)
			_, s3, e3 := goLookup(loc, e-1)
			consistent = consistent && s2 == e && s3 == s && e3 == e && e > c.T.S
		}
		if !consistent {
			c.Class = "lookup-bounds-not-a-partition"
			c.Impl = []Res{rZ(off)}
			break
		}
		if s <= tabLo {
			s = alphaSec
		}
		if e >= tabHi {
			e = omegaSec
		}
		c.Impl = []Res{rZ(off), rZ(s), rZ(e)}
	case "zok":
		c.Impl = []Res{rB(true)}
	case "date":
		c.Impl = []Res{safe(func() Res {
			return rT(time.Date(int(c.F[0]), time.Month(c.F[1]), int(c.F[2]), int(c.F[3]), int(c.F[4]), int(c.F[5]), int(c.F[6]), loc))
		})}
	case "adddate":
		c.Impl = []Res{safe(func() Res { return rT(c.T.In(loc).AddDate(int(c.F[0]), int(c.F[1]), int(c.F[2]))) })}
	case "pair":
		c.Impl = pairOutputs(c.T.In(loc), c.T2.In(c.Zone2.Loc()))
	case "per":
		// the second period (and the instant the point queries use) may be represented in another Location: the answers
		// are functions of the instants, never of the representation of a time.Time
		loc2 := loc
		if c.Zone2.Name != "" {
			loc2 = c.Zone2.Loc()
		}
		c.Impl = perOutputs(c.Raw, c.Per[0].In(loc), c.Per[1].In(loc), c.Per[2].In(loc2), c.Per[3].In(loc2))
	case "win":
		c.Impl = winOutputs(c.T.In(loc), time.Duration(c.Size), int(c.Nd))
	case "sweep":
		runSweep(c)
	default:
		panic("kind " + c.Kind)
	}
}
