package main

// Sub-harness "stateline": chrono.StateLine[int64] against MV.C19.StateLineModel, with monitors for the ordering
// invariant (points in chronological order, states distinct) and for GetStateByTime (state of the latest point not
// after the given time).

import (
	"fmt"
	"strings"
	"time"

	"github.com/kercylan98/minotaur/toolkit/chrono"
	"verif/harness/vh"
)

type LOp struct {
	K   string  `json:"k"`
	St  int64   `json:"st,omitempty"`
	T   *Inst   `json:"t,omitempty"`
	D   int64   `json:"d,omitempty"` // Move: duration (ns); index ops: the index
	Sts []int64 `json:"sts,omitempty"`
	B   bool    `json:"b,omitempty"`
}
type LRes struct {
	K   string  `json:"k"` // unit t z b o l panic
	T   *Inst   `json:"t,omitempty"`
	Z   int64   `json:"z,omitempty"`
	B   bool    `json:"b,omitempty"`
	Ok  bool    `json:"ok,omitempty"` // o: has a value
	L   []int64 `json:"l,omitempty"`  // l: plain integers
	LT  []Inst  `json:"lt,omitempty"` // dump: the points (states are in L)
	Err string  `json:"err,omitempty"`
}
type LCase struct {
	Kind string `json:"kind"` // "stateline"
	Zero int64  `json:"zero"`
	Ops  []LOp  `json:"ops"`
	Impl []LRes `json:"impl"`
}

func lsafe(f func() LRes) (r LRes) {
	defer func() {
		if e := recover(); e != nil {
			r = LRes{K: "panic", Err: fmt.Sprint(e)}
		}
	}()
	return f()
}

// index functions: Go panics with "index out of range" outside the slice; the model returns None there
func lindex(f func() LRes) (r LRes) {
	defer func() {
		if e := recover(); e != nil {
			if strings.Contains(fmt.Sprint(e), "index out of range") {
				r = LRes{K: "o"}
			} else {
				r = LRes{K: "panic", Err: fmt.Sprint(e)}
			}
		}
	}()
	return f()
}

func lT(t time.Time) LRes { i := instOf(t); return LRes{K: "t", T: &i} }

func runLine(c *LCase) {
	sl := chrono.NewStateLine[int64](c.Zero)
	c.Impl = c.Impl[:0]
	for _, o := range c.Ops {
		o := o
		var r LRes
		switch o.K {
		case "add":
			r = lsafe(func() LRes { sl.AddState(o.St, o.T.In(time.UTC)); return LRes{K: "unit"} })
		case "move":
			r = lsafe(func() LRes { sl.Move(time.Duration(o.D)); return LRes{K: "unit"} })
		case "timeByState":
			r = lsafe(func() LRes { return lT(sl.GetTimeByState(o.St)) })
		case "nextTimeByState":
			r = lsafe(func() LRes { return lT(sl.GetNextTimeByState(o.St)) })
		case "prevTimeByState":
			r = lsafe(func() LRes { return lT(sl.GetPrevTimeByState(o.St)) })
		case "indexByState":
			r = lsafe(func() LRes { return LRes{K: "z", Z: int64(sl.GetIndexByState(o.St))} })
		case "lastState":
			r = lindex(func() LRes { return LRes{K: "o", Ok: true, Z: sl.GetLastState()} })
		case "stateByTime":
			r = lindex(func() LRes { return LRes{K: "o", Ok: true, Z: sl.GetStateByTime(o.T.In(time.UTC))} })
		case "stateIndexByTime":
			r = lsafe(func() LRes { return LRes{K: "z", Z: int64(sl.GetStateIndexByTime(o.T.In(time.UTC)))} })
		case "timeByIndex":
			r = lindex(func() LRes { i := instOf(sl.GetTimeByIndex(int(o.D))); return LRes{K: "o", Ok: true, T: &i} })
		case "stateByIndex":
			r = lindex(func() LRes { return LRes{K: "o", Ok: true, Z: sl.GetStateByIndex(int(o.D))} })
		case "nextTimeByIndex":
			r = lindex(func() LRes { i := instOf(sl.GetNextStateTimeByIndex(int(o.D))); return LRes{K: "o", Ok: true, T: &i} })
		case "prevTimeByIndex":
			r = lindex(func() LRes { i := instOf(sl.GetPrevStateTimeByIndex(int(o.D))); return LRes{K: "o", Ok: true, T: &i} })
		case "count":
			r = lsafe(func() LRes { return LRes{K: "z", Z: int64(sl.GetStateCount())} })
		case "hasState":
			r = lsafe(func() LRes { return LRes{K: "b", B: sl.HasState(o.St)} })
		case "missing":
			r = lsafe(func() LRes { return LRes{K: "l", L: sl.GetMissingStates(o.Sts...)} })
		case "check":
			r = lsafe(func() LRes { return LRes{K: "b", B: sl.Check(o.B, o.Sts...)} })
		case "dump":
			r = lsafe(func() LRes {
				res := LRes{K: "dump"}
				sl.Iterate(func(index int, state int64, t time.Time) bool {
					res.L = append(res.L, state)
					res.LT = append(res.LT, instOf(t))
					return true
				})
				return res
			})
		default:
			panic("op " + o.K)
		}
		c.Impl = append(c.Impl, r)
	}
}

// monitorLine: after every dump the points are in chronological order and the states distinct; every stateByTime answer
// is the state of the latest point not after t in the most recent dump (the generator dumps after every mutation);
// an added state that was absent appears exactly once, after every point that is not later than its time.
func monitorLine(c *LCase) (viol []vh.Violation) {
	hit := func(i int, fn, class, format string, a ...interface{}) {
		if len(viol) < 4 {
			viol = append(viol, vh.Violation{Kind: "stateline:" + fn + ":" + class,
				Detail: fmt.Sprintf("op #%d %s: ", i, c.Ops[i].K) + fmt.Sprintf(format, a...), Sig: map[string]string{"func": fn}})
		}
	}
	var states []int64
	var points []Inst
	have := false
	for i, o := range c.Ops {
		r := c.Impl[i]
		if r.K == "panic" {
			hit(i, o.K, "crash", "%s", r.Err)
			return
		}
		switch o.K {
		case "dump":
			for j := 1; j < len(r.LT); j++ {
				if r.LT[j].Less(r.LT[j-1]) {
					hit(i, "AddState", "points-out-of-order", "points %v", r.LT)
					break
				}
			}
			seen := map[int64]bool{}
			for _, s := range r.L {
				if seen[s] {
					hit(i, "AddState", "duplicate-state", "states %v", r.L)
				}
				seen[s] = true
			}
			// effect of the preceding mutation
			if have && i > 0 && c.Ops[i-1].K == "add" {
				a := c.Ops[i-1]
				old := map[int64]bool{}
				for _, s := range states {
					old[s] = true
				}
				if old[a.St] {
					if len(r.L) != len(states) {
						hit(i, "AddState", "existing-state-changed-the-line", "before %v after %v", states, r.L)
					}
				} else {
					pos := -1
					for j, s := range r.L {
						if s == a.St {
							pos = j
						}
					}
					if pos < 0 || len(r.L) != len(states)+1 || r.LT[pos] != *a.T {
						hit(i, "AddState", "state-not-added", "add (%d,%v): before %v after %v", a.St, *a.T, states, r.L)
					} else {
						for j := 0; j < pos; j++ {
							if a.T.Less(r.LT[j]) {
								hit(i, "AddState", "inserted-after-a-later-point", "points %v", r.LT)
							}
						}
						for j := pos + 1; j < len(r.LT); j++ {
							if !a.T.Less(r.LT[j]) {
								hit(i, "AddState", "inserted-before-a-point-not-later", "points %v", r.LT)
							}
						}
					}
				}
			}
			states, points, have = r.L, r.LT, true
		case "stateByTime":
			if !have {
				break
			}
			want, found := states[len(states)-1], false
			for j := len(points) - 1; j >= 0; j-- {
				if !o.T.Less(points[j]) {
					want, found = states[j], true
					break
				}
			}
			_ = found
			if !r.Ok || r.Z != want {
				hit(i, "GetStateByTime", "not-the-state-of-the-latest-point-not-after-t", "t=%v states %v points %v got %d ok=%v want %d", *o.T, states, points, r.Z, r.Ok, want)
			}
		}
	}
	return
}

func (o LOp) Coq() string {
	z := coqZ
	switch o.K {
	case "add":
		return vh.App("LAdd", z(o.St), o.T.Coq())
	case "move":
		return vh.App("LMove", z(o.D))
	case "timeByState":
		return vh.App("LTimeByState", z(o.St))
	case "nextTimeByState":
		return vh.App("LNextTimeByState", z(o.St))
	case "prevTimeByState":
		return vh.App("LPrevTimeByState", z(o.St))
	case "indexByState":
		return vh.App("LIndexByState", z(o.St))
	case "lastState":
		return "LLastState"
	case "stateByTime":
		return vh.App("LStateByTime", o.T.Coq())
	case "stateIndexByTime":
		return vh.App("LStateIndexByTime", o.T.Coq())
	case "timeByIndex":
		return vh.App("LTimeByIndex", z(o.D))
	case "stateByIndex":
		return vh.App("LStateByIndex", z(o.D))
	case "nextTimeByIndex":
		return vh.App("LNextTimeByIndex", z(o.D))
	case "prevTimeByIndex":
		return vh.App("LPrevTimeByIndex", z(o.D))
	case "count":
		return "LCount"
	case "hasState":
		return vh.App("LHasState", z(o.St))
	case "missing":
		return vh.App("LMissing", zlist(o.Sts))
	case "check":
		return vh.App("LCheck", vh.Bool(o.B), zlist(o.Sts))
	case "dump":
		return "LDump"
	}
	panic(o.K)
}

func zlist(v []int64) string {
	it := make([]string, len(v))
	for i, x := range v {
		it[i] = coqZ(x)
	}
	return "[" + strings.Join(it, "; ") + "]"
}

func (r LRes) Coq() string {
	switch r.K {
	case "unit":
		return "LUnit"
	case "t":
		return vh.App("LT", r.T.Coq())
	case "z":
		return vh.App("LZ", coqZ(r.Z))
	case "b":
		return vh.App("LB", vh.Bool(r.B))
	case "o":
		if !r.Ok {
			return "(LO None)"
		}
		if r.T != nil {
			return vh.App("LO", vh.Some(r.T.Coq()))
		}
		return vh.App("LO", vh.Some(coqZ(r.Z)))
	case "l":
		return vh.App("LL", zlist(r.L))
	case "dump":
		it := make([]string, 0, 2*len(r.L))
		for i := range r.L {
			it = append(it, coqZ(r.L[i]), r.LT[i].Coq())
		}
		return vh.App("LL", "["+strings.Join(it, "; ")+"]")
	}
	return "LBad"
}

func (c *LCase) coqCase(id int) string {
	ops := make([]string, len(c.Ops))
	for i, o := range c.Ops {
		ops[i] = o.Coq()
	}
	rs := make([]string, len(c.Impl))
	for i, r := range c.Impl {
		rs[i] = r.Coq()
	}
	return fmt.Sprintf("{| lid := Z.to_nat %d; lzero := %s; lops := [%s]; limpl := [%s] |}", id, coqZ(c.Zero), strings.Join(ops, "; "), strings.Join(rs, "; "))
}

func genLine(r *vh.RNG) LCase {
	c := LCase{Kind: "stateline", Zero: int64(r.Range(0, 2))}
	// a small lattice of instants (with the zero time, equal points and sub-second distances) and a small state domain
	base := Inst{1710000000, 0}
	lat := []Inst{{-62135596800, 0}, {-62135596801, 0}, base, {base.S, 1}, {base.S, 999999999}, {base.S + 1, 0}, {base.S + 3600, 0},
		{base.S - 86400, 0}, {base.S + 86400, 500}, {0, 0}}
	pickT := func() *Inst { t := lat[r.Intn(len(lat))]; return &t }
	pickS := func() int64 { return int64(r.Range(0, 7)) }
	sts := func() []int64 {
		n := r.Range(0, 6)
		l := make([]int64, n)
		for i := range l {
			l[i] = pickS()
		}
		if r.Chance(1, 3) { // often: exactly the increasing sequence, so that Check has a chance to say true
			l = l[:0]
			for s := int64(0); s <= int64(r.Range(0, 7)); s++ {
				if r.Chance(3, 4) {
					l = append(l, s)
				}
			}
		}
		return l
	}
	n := r.Range(2, 14)
	c.Ops = append(c.Ops, LOp{K: "dump"})
	for i := 0; i < n; i++ {
		switch r.Intn(16) {
		case 0, 1, 2, 3, 4:
			c.Ops = append(c.Ops, LOp{K: "add", St: pickS(), T: pickT()}, LOp{K: "dump"})
		case 5:
			c.Ops = append(c.Ops, LOp{K: "move", D: []int64{1, -1, 1000000000, -3600e9, 86400e9}[r.Intn(5)]}, LOp{K: "dump"})
		case 6:
			c.Ops = append(c.Ops, LOp{K: "stateByTime", T: pickT()}, LOp{K: "stateIndexByTime", T: pickT()})
		case 7:
			c.Ops = append(c.Ops, LOp{K: "stateByTime", T: pickT()})
		case 8:
			s := pickS()
			c.Ops = append(c.Ops, LOp{K: "timeByState", St: s}, LOp{K: "nextTimeByState", St: s}, LOp{K: "prevTimeByState", St: s}, LOp{K: "indexByState", St: s})
		case 9:
			c.Ops = append(c.Ops, LOp{K: "lastState"}, LOp{K: "count"})
		case 10:
			i := int64(r.Range(-1, 6))
			c.Ops = append(c.Ops, LOp{K: "timeByIndex", D: i}, LOp{K: "stateByIndex", D: i})
		case 11:
			i := int64(r.Range(-1, 6))
			c.Ops = append(c.Ops, LOp{K: "nextTimeByIndex", D: i}, LOp{K: "prevTimeByIndex", D: i})
		case 12:
			c.Ops = append(c.Ops, LOp{K: "hasState", St: pickS()})
		case 13:
			c.Ops = append(c.Ops, LOp{K: "missing", Sts: sts()})
		default:
			c.Ops = append(c.Ops, LOp{K: "check", B: r.Bool(), Sts: sts()})
		}
	}
	return c
}

const coqHeaderLine = "From MV Require Import Lib.ListX C19.ChronoModel C19.ChronoLit C19.ChronoRun C19.StateLineModel C19.StateLineRun."

func runStateLine(f vh.Flags, rng *vh.RNG, scale int) {
	out := vh.NewOut(f.Out, "stateline", coqHeaderLine, "lcase", "lmismatches", f.Seed,
		"random histories (2..14 steps) of AddState / Move / queries on a StateLine[int64] over 8 states and a 10-point lattice of instants (zero time, equal points, "+
			"1 ns and 1 s apart), a dump (Iterate) after every mutation; non-trivial = at least one AddState of an existing state, or one insertion before the end of the line")
	out.PerShard = 200
	for i := 0; i < 800*scale; i++ {
		cr, _ := rng.Derive()
		c := genLine(cr)
		runLine(&c)
		v := monitorLine(&c)
		nt := false
		adds := 0
		var prev []int64
		for j, o := range c.Ops {
			out.Count("op_mix", o.K)
			if o.K == "dump" && c.Impl[j].K == "dump" {
				cur := c.Impl[j].L
				if j > 0 && c.Ops[j-1].K == "add" {
					adds++
					if len(cur) == len(prev) {
						nt = true // existing state
					} else if len(cur) > 0 && cur[len(cur)-1] != c.Ops[j-1].St {
						nt = true // inserted before the end
					}
				}
				prev = cur
			}
		}
		out.Count("adds", vh.Bucket(adds))
		out.Add(c, c.coqCase(out.N()), nt, v)
	}
	out.Close()
}
