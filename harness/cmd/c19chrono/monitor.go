package main

// Property monitors: a direct restatement of C19 on the implementation's own outputs, independent of
// the Coq model.  The calendar oracle is (a) a day-count reference calendar written here (refDay /
// refCivil, year tables and loops — not the algorithm of the model nor of package time) for all day
// arithmetic (weekdays, "n days later", Monday of the week), and (b) Go's time package for reading the
// wall clock of an instant in a Location and for "the instant at which the wall clock of civil day D reads
// h:m:s in this zone" (time.Date), which is the only meaningful definition in zones with DST shifts.

import (
	"fmt"
	"time"

	"verif/harness/vh"
)

// ---------------------------------------------------------------- reference calendar

func fdiv(a, b int64) int64 { // floor division, b > 0
	q := a / b
	if a%b < 0 {
		q--
	}
	return q
}
func pmod(a, b int64) int64 { return a - fdiv(a, b)*b }

func refLeap(y int64) bool { return (pmod(y, 4) == 0 && pmod(y, 100) != 0) || pmod(y, 400) == 0 }

var refCum = [13]int64{0, 31, 59, 90, 120, 151, 181, 212, 243, 273, 304, 334, 365}

func refMonthLen(y, m int64) int64 {
	if m == 2 && refLeap(y) {
		return 29
	}
	return refCum[m] - refCum[m-1]
}

// days from 0001-01-01 to y-01-01 (proleptic Gregorian)
func refDaysBeforeYear(y int64) int64 {
	p := y - 1
	return 365*p + fdiv(p, 4) - fdiv(p, 100) + fdiv(p, 400)
}

// refDay: days since 1970-01-01 of a valid civil date
func refDay(y, m, d int64) int64 {
	n := refDaysBeforeYear(y) + refCum[m-1] + d - 1
	if m > 2 && refLeap(y) {
		n++
	}
	return n - 719162
}

// refCivil: civil date of a day number (estimate the year, then walk)
func refCivil(n int64) (y, m, d int64) {
	y = fdiv((n+719162)*400, 146097) + 1
	for refDay(y, 1, 1) > n {
		y--
	}
	for refDay(y+1, 1, 1) <= n {
		y++
	}
	r := n - refDay(y, 1, 1)
	m = 1
	for r >= refMonthLen(y, m) {
		r -= refMonthLen(y, m)
		m++
	}
	return y, m, r + 1
}
func refWeekday(n int64) int64 { return pmod(n+4, 7) }

// local day number of t in its own Location (wall-clock date read through package time)
func dayOf(t time.Time) int64 {
	y, m, d := t.Date()
	return refDay(int64(y), int64(m), int64(d))
}

// midnightOf: the instant at which civil day n starts in loc
func wallOf(n int64, h, mi, s, ns int, loc *time.Location) time.Time {
	y, m, d := refCivil(n)
	return time.Date(int(y), time.Month(m), int(d), h, mi, s, ns, loc)
}
func clockIs(t time.Time, h, mi, s, ns int) bool {
	a, b, c := t.Clock()
	return a == h && b == mi && c == s && t.Nanosecond() == ns
}

// wallExists: does the wall clock h:mi:s occur on civil day n in loc? (It does not inside a DST gap, e.g. 23:00-23:59:59 on
// 1916-04-30 in Europe/Berlin.) A boundary of the property that does not exist in the zone is not checked.
func wallExists(fixed bool, n int64, h, mi, s int, loc *time.Location) bool {
	if fixed {
		return true
	}
	o := wallOf(n, h, mi, s, 0, loc)
	return dayOf(o) == n && clockIs(o, h, mi, s, 0)
}

func zoneRule(z ZoneSpec) string {
	if z.Fixed {
		return "fixed-offset"
	}
	return "dst"
}

type mon struct {
	c    *Case
	viol []vh.Violation
	// skipped: checks not made because a wall clock that the helper has to construct on the way (00:00:00 of the
	// instant's own day, now's clock a week earlier, ...) does not exist in the zone on that day
	skipped []string
}

func (m *mon) skip(what string) { m.skipped = append(m.skipped, what) }

func (m *mon) hit(fn, class, format string, a ...interface{}) {
	if len(m.viol) >= 6 {
		return
	}
	m.viol = append(m.viol, vh.Violation{
		Kind:   "chrono:" + fn + ":" + class,
		Detail: fmt.Sprintf(format, a...),
		Sig:    map[string]string{"func": fn, "zone_rule": zoneRule(m.c.Zone)},
	})
}

func fmtT(t time.Time) string { return t.Format("2006-01-02 15:04:05.999999999 -07:00 Mon") }

// ---------------------------------------------------------------- one-instant helpers

// checkInst states the property for the outputs of instOutputs at instant t (zone loc; time.Local = local).
func (m *mon) checkInst(t time.Time, loc *time.Location, localIsZone bool, w, kw, nd, h, mi, s int64, out []Res) {
	for i, r := range out {
		if r.K == "panic" {
			m.hit(instName[i], "crash", "panic: %s", r.Err)
			return
		}
	}
	get := func(i int) time.Time { return out[i].T.In(loc) }
	today := dayOf(t)
	// independent cross-check of the wall-clock reading itself (fixed zones: pure arithmetic)
	if m.c.Zone.Fixed {
		n := fdiv(t.Unix()+m.c.Zone.Off, 86400)
		y, mo, d := refCivil(n)
		sd := pmod(t.Unix()+m.c.Zone.Off, 86400)
		D := out[iDate].D
		if D[0] != y || D[1] != mo || D[2] != d || D[3] != sd/3600 || D[4] != sd%3600/60 || D[5] != sd%60 || D[6] != refWeekday(n) {
			m.hit("time.Date", "disagrees-with-reference-calendar", "t=%s: package time reads %v, reference %d-%d-%d sod=%d wd=%d", fmtT(t), *D, y, mo, d, sd, refWeekday(n))
		}
	}
	midnight := wallOf(today, 0, 0, 0, 0, loc)
	nextMidnight := wallOf(today+1, 0, 0, 0, 0, loc)
	fx := m.c.Zone.Fixed
	has := func(n int64, h, mi, s int) bool { return wallExists(fx, n, h, mi, s, loc) }

	// start / end of day: boundary of the civil day that contains t
	sod := get(iStartOfDay)
	if !has(today, 0, 0, 0) || !has(today+1, 0, 0, 0) {
		// the day has no 00:00:00 in this zone (or the next one has none): boundary undefined
	} else if dayOf(sod) != today || !clockIs(sod, 0, 0, 0, 0) {
		m.hit("GetStartOfDay", "not-midnight-of-same-day", "t=%s got %s", fmtT(t), fmtT(sod))
	} else if sod.After(t) || !t.Before(nextMidnight) || !sod.Equal(midnight) {
		m.hit("GetStartOfDay", "day-does-not-contain-instant", "t=%s got %s", fmtT(t), fmtT(sod))
	}
	eod := get(iEndOfDay)
	if !has(today, 23, 59, 59) || !has(today+1, 0, 0, 0) {
	} else if dayOf(eod) != today || !clockIs(eod, 23, 59, 59, 0) {
		m.hit("GetEndOfDay", "not-235959-of-same-day", "t=%s got %s", fmtT(t), fmtT(eod))
	} else if eod.Unix() < t.Unix() || !eod.Before(nextMidnight) {
		m.hit("GetEndOfDay", "day-does-not-contain-instant", "t=%s got %s", fmtT(t), fmtT(eod))
	}
	// (t.AddDate keeps t's wall clock: if that wall clock does not exist on the target day — 23:00-23:59:59 on 1916-04-30 in
	// Europe/Berlin — package time moves it to the next day and the helpers follow; the relative-day helpers are not named by
	// the property, so that corner is not checked)
	thh, tmm, tss := t.Clock()
	clockOK := has(today+nd, thh, tmm, tss)
	rsd := get(iRelStartOfDay)
	if clockOK && has(today+nd, 0, 0, 0) && (dayOf(rsd) != today+nd || !clockIs(rsd, 0, 0, 0, 0)) {
		m.hit("GetRelativeStartOfDay", "wrong-day-or-clock", "t=%s offset=%d got %s", fmtT(t), nd, fmtT(rsd))
	}
	red := get(iRelEndOfDay)
	if clockOK && has(today+nd, 23, 59, 59) && (dayOf(red) != today+nd || !clockIs(red, 23, 59, 59, 0)) {
		m.hit("GetRelativeEndOfDay", "wrong-day-or-clock", "t=%s offset=%d got %s", fmtT(t), nd, fmtT(red))
	}

	// week helpers
	monday := today - pmod(refWeekday(today)+6, 7)
	if w >= 0 && w <= 6 {
		m.checkWeek(t, loc, today, monday, w, kw, get(iStartOfWeek), get(iEndOfWeek), get(iRelStartOfWeek), get(iRelEndOfWeek), get(iRelTimeOfWeek))
	}

	// next moment: earliest strictly-future instant whose wall clock (in time.Local) reads h:mi:s
	if localIsZone && h >= 0 && h < 24 && mi >= 0 && mi < 60 && s >= 0 && s < 60 {
		var want time.Time
		found := false
		for k := int64(-1); k <= 2; k++ {
			c := wallOf(today+k, int(h), int(mi), int(s), 0, loc)
			if c.After(t) && (!found || c.Before(want)) {
				want, found = c, true
			}
		}
		nm := get(iNextMoment)
		if tm := wallOf(today+1, int(h), int(mi), int(s), 0, loc); !fx && !tm.After(t) {
			// tomorrow's h:mi:s lies in a gap that package time resolves to an instant which is not after now (zones whose
			// DST starts at local midnight, asked on the eve for a time in the skipped hour: America/Havana 2099-03-07
			// 23:56:40, 00:12:32 -> 2099-03-07 23:12:32): under the monitor's convention "h:mi:s on day D = time.Date(D, ...)"
			// neither today's nor tomorrow's occurrence is in the future; recorded as an observation (docs/C19-NOTES.md)
			if !nm.After(t) {
				// a genuine violation of "the next moment is a FUTURE instant" (open finding C19-next-moment-in-a-midnight-gap)
				if len(m.viol) < 6 {
					m.viol = append(m.viol, vh.Violation{Kind: "chrono:GetNextMoment:not-in-the-future",
						Detail: fmt.Sprintf("now=%s %02d:%02d:%02d got %s: tomorrow's wall clock lies in the hour skipped at local midnight and is resolved to an instant that is not after now",
							fmtT(t), h, mi, s, fmtT(nm)),
						Sig: map[string]string{"func": "GetNextMoment", "zone_rule": zoneRule(m.c.Zone), "gap": "tomorrows-moment-in-a-midnight-gap"}})
				}
			} else {
				m.skip("GetNextMoment:tomorrows-moment-resolved-into-the-past")
			}
		} else if !nm.After(t) {
			m.hit("GetNextMoment", "not-in-the-future", "now=%s %02d:%02d:%02d got %s", fmtT(t), h, mi, s, fmtT(nm))
		} else if !nm.Equal(want) {
			m.hit("GetNextMoment", "not-the-earliest-future-occurrence", "now=%s %02d:%02d:%02d got %s want %s", fmtT(t), h, mi, s, fmtT(nm), fmtT(want))
		}
		passed := t.After(wallOf(today, int(h), int(mi), int(s), 0, loc))
		if out[iMomentPassed].B != passed || out[iMomentFuture].B != !passed {
			m.hit("IsMomentPassed", "wrong", "now=%s %02d:%02d:%02d passed=%v future=%v want passed=%v", fmtT(t), h, mi, s, out[iMomentPassed].B, out[iMomentFuture].B, passed)
		}
	}
	y, mo, _ := refCivil(today)
	if out[iMonthDays].Z != refMonthLen(y, mo) {
		m.hit("GetMonthDays", "wrong", "t=%s got %d want %d", fmtT(t), out[iMonthDays].Z, refMonthLen(y, mo))
	}

	// week window: contains its anchor, starts on the Monday midnight of the anchor's week
	ws, we := out[iWindowWeek].P[0].In(loc), out[iWindowWeek].P[1].In(loc)
	if !has(monday, 0, 0, 0) {
	} else if !has(today, 0, 0, 0) {
		m.skip("NewPeriodWindowWeek:no-midnight-today")
	} else if dayOf(ws) != monday || !clockIs(ws, 0, 0, 0, 0) {
		m.hit("NewPeriodWindowWeek", "start-not-monday-midnight", "t=%s window=[%s, %s)", fmtT(t), fmtT(ws), fmtT(we))
	} else if !has(monday+7, 0, 0, 0) {
		m.skip("NewPeriodWindowWeek:no-midnight-next-monday")
	} else if ws.After(t) || !we.After(t) {
		m.hit("NewPeriodWindowWeek", "window-does-not-contain-anchor", "t=%s window=[%s, %s)", fmtT(t), fmtT(ws), fmtT(we))
	}
	// NewPeriodWithDayZero / NewPeriodWithDay: normalised, one endpoint is the anchor
	for _, ix := range []int{iWithDayZero, iWithDay} {
		a, b := out[ix].P[0], out[ix].P[1]
		ti := instOf(t)
		if b.Less(a) {
			m.hit(instName[ix], "not-normalised", "t=%s n=%d got [%v, %v]", fmtT(t), nd, a, b)
		} else if a != ti && b != ti {
			m.hit(instName[ix], "anchor-not-an-endpoint", "t=%s n=%d got [%v, %v]", fmtT(t), nd, a, b)
		} else {
			o := a // the endpoint that is not the anchor (both equal the anchor when the period is empty)
			if a == ti {
				o = b
			}
			ot := o.In(loc)
			hh, mm, ss := t.Clock()
			if !has(today+nd, hh, mm, ss) || (ix == iWithDayZero && !has(today+nd, 0, 0, 0)) {
				// the requested wall clock does not exist on that day in this zone
			} else if dayOf(ot) != today+nd {
				m.hit(instName[ix], "other-endpoint-wrong-day", "t=%s n=%d got %s", fmtT(t), nd, fmtT(ot))
			} else if ix == iWithDayZero && !clockIs(ot, 0, 0, 0, 0) {
				m.hit(instName[ix], "other-endpoint-not-midnight", "t=%s n=%d got %s", fmtT(t), nd, fmtT(ot))
			}
		}
	}
}

// checkWeek: start/end of week and the relative week helpers for weekday w and week offset kw.
func (m *mon) checkWeek(t time.Time, loc *time.Location, today, monday, w, kw int64, sow, eow, rsw, rew, rtw time.Time) {
	fx := m.c.Zone.Fixed
	has := func(n int64, h, mi, s int) bool { return wallExists(fx, n, h, mi, s, loc) }
	wantDay := monday + pmod(w+6, 7) // the requested weekday inside the Monday-based week that contains t
	// The week helpers go through GetStartOfDay(t): when 00:00:00 does not exist on t's own civil day (DST starting at local
	// midnight: America/Sao_Paulo 2017-10-15, America/Havana 2024-03-10, Asia/Kathmandu 1986-01-01, Pacific/Apia 2010-09-26)
	// package time resolves it to 23:00 of the previous day or 00:15 / 01:00 of the same day and every week helper inherits that
	// clock (and, in zones west of Greenwich, the previous day). The property defines no start of day there; recorded
	// as an observation (docs/C19-NOTES.md), not checked.
	if !has(today, 0, 0, 0) {
		m.skip("week-helpers:no-midnight-today")
		return
	}
	if has(wantDay, 0, 0, 0) && (dayOf(sow) != wantDay || !clockIs(sow, 0, 0, 0, 0) || int64(sow.Weekday()) != w) {
		m.hit("GetStartOfWeek", "wrong-day-or-clock", "t=%s weekday=%d got %s want day %v 00:00:00", fmtT(t), w, fmtT(sow), fmtDay(wantDay))
	}
	if has(wantDay, 0, 0, 0) && has(wantDay, 23, 59, 59) && (dayOf(eow) != wantDay || !clockIs(eow, 23, 59, 59, 0)) {
		m.hit("GetEndOfWeek", "wrong-day-or-clock", "t=%s weekday=%d got %s want day %v 23:59:59", fmtT(t), w, fmtT(eow), fmtDay(wantDay))
	}
	latest := today - pmod(refWeekday(today)-w, 7) // latest day <= today falling on weekday w
	want := latest + 7*kw
	{
		// GetRelativeStartOfWeek steps back with now.AddDate(0,0,-7) when now's weekday (Sunday = 7) is before the requested one:
		// that builds now's wall clock a week earlier and then the 00:00:00 of that day; and it builds 00:00:00 of [latest]
		nw, wd := refWeekday(today), w
		if nw == 0 {
			nw = 7
		}
		if wd == 0 {
			wd = 7
		}
		h0, m0, s0 := t.Clock()
		if (nw < wd && (!has(today-7, h0, m0, s0) || !has(today-7, 0, 0, 0))) || !has(latest, 0, 0, 0) {
			m.skip("relative-week-helpers:intermediate-wall-clock-missing")
			return
		}
	}
	if has(want, 0, 0, 0) && (dayOf(rsw) != want || !clockIs(rsw, 0, 0, 0, 0)) {
		m.hit("GetRelativeStartOfWeek", "wrong-day-or-clock", "now=%s weekday=%d offsetWeeks=%d got %s want %v 00:00:00", fmtT(t), w, kw, fmtT(rsw), fmtDay(want))
	}
	if has(want, 0, 0, 0) && has(want, 23, 59, 59) && (dayOf(rew) != want || !clockIs(rew, 23, 59, 59, 0)) {
		m.hit("GetRelativeEndOfWeek", "wrong-day-or-clock", "now=%s weekday=%d offsetWeeks=%d got %s want %v 23:59:59", fmtT(t), w, kw, fmtT(rew), fmtDay(want))
	}
	hh, mm, ss := t.Clock()
	wantT := wallOf(want, hh, mm, ss, t.Nanosecond(), loc) // the wall clock of now on that day (package time resolves gaps)
	if has(want, 0, 0, 0) && !rtw.Equal(wantT) {
		m.hit("GetRelativeTimeOfWeek", "wrong-day-or-clock", "now=%s weekday=%d offsetWeeks=%d got %s want %s", fmtT(t), w, kw, fmtT(rtw), fmtT(wantT))
	}
}

func fmtDay(n int64) string { y, m, d := refCivil(n); return fmt.Sprintf("%04d-%02d-%02d", y, m, d) }

var instName = [nInst]string{"time.Date", "GetStartOfDay", "GetEndOfDay", "GetRelativeStartOfDay", "GetRelativeEndOfDay",
	"GetStartOfWeek", "GetEndOfWeek", "GetRelativeStartOfWeek", "GetRelativeEndOfWeek", "GetRelativeTimeOfWeek",
	"GetNextMoment", "IsMomentPassed", "IsMomentFuture", "GetMonthDays", "IsZero", "NewPeriodWindowWeek",
	"NewPeriodWithDayZero", "NewPeriodWithDay"}

// ---------------------------------------------------------------- two-instant helpers

var pairName = [nPair]string{"Max", "Min", "SmallerFirst", "SmallerLast", "Delta", "FloorDeltaDays", "FloorDeltaHours",
	"FloorDeltaMinutes", "IsSameSecond", "IsSameMinute", "IsSameHour", "IsSameDay", "IsSameWeek", "IsSameMonth", "IsSameYear"}

// checkPair: the same-day/week/month predicates against the boundaries (both instants in the same zone);
// symmetry and reflexivity are checked by running the swapped and the diagonal pair as well.
func (m *mon) checkPair(t1, t2 time.Time, sameZone bool, out, swapped, diag1 []Res) {
	for i, r := range out {
		if r.K == "panic" {
			m.hit(pairName[i], "crash", "panic: %s", r.Err)
			return
		}
	}
	a, b := instOf(t1), instOf(t2)
	lo, hi := a, b
	if b.Less(a) {
		lo, hi = b, a
	}
	if *out[pMax].T != hi || *out[pMin].T != lo {
		m.hit("Max", "wrong", "t1=%s t2=%s max=%v min=%v", fmtT(t1), fmtT(t2), *out[pMax].T, *out[pMin].T)
	}
	if out[pSmallerFirst].P[0] != lo || out[pSmallerFirst].P[1] != hi || out[pSmallerLast].P[0] != hi || out[pSmallerLast].P[1] != lo {
		m.hit("SmallerFirst", "wrong", "t1=%s t2=%s first=%v last=%v", fmtT(t1), fmtT(t2), *out[pSmallerFirst].P, *out[pSmallerLast].P)
	}
	for _, ix := range []int{pSameSecond, pSameMinute, pSameHour, pSameDay, pSameWeek, pSameMonth, pSameYear} {
		if swapped != nil && out[ix].B != swapped[ix].B {
			m.hit(pairName[ix], "not-symmetric", "t1=%s t2=%s f(t1,t2)=%v f(t2,t1)=%v", fmtT(t1), fmtT(t2), out[ix].B, swapped[ix].B)
		}
		if diag1 != nil && !diag1[ix].B {
			m.hit(pairName[ix], "not-reflexive", "t=%s", fmtT(t1))
		}
	}
	if !sameZone {
		return
	}
	d1, d2 := dayOf(t1), dayOf(t2)
	if out[pSameDay].B != (d1 == d2) {
		m.hit("IsSameDay", "inconsistent-with-day-boundaries", "t1=%s t2=%s got %v", fmtT(t1), fmtT(t2), out[pSameDay].B)
	}
	m1, m2 := d1-pmod(refWeekday(d1)+6, 7), d2-pmod(refWeekday(d2)+6, 7)
	fx := m.c.Zone.Fixed
	if !wallExists(fx, d1, 0, 0, 0, t1.Location()) || !wallExists(fx, d2, 0, 0, 0, t2.Location()) {
		m.skip("IsSameWeek:no-midnight-on-one-of-the-days") // see checkWeek
	} else if out[pSameWeek].B != (m1 == m2) {
		m.hit("IsSameWeek", "inconsistent-with-week-boundaries", "t1=%s t2=%s got %v", fmtT(t1), fmtT(t2), out[pSameWeek].B)
	}
	y1, mo1, _ := refCivil(d1)
	y2, mo2, _ := refCivil(d2)
	if out[pSameMonth].B != (y1 == y2 && mo1 == mo2) {
		m.hit("IsSameMonth", "inconsistent-with-month-boundaries", "t1=%s t2=%s got %v", fmtT(t1), fmtT(t2), out[pSameMonth].B)
	}
	if out[pSameYear].B != (y1 == y2) {
		m.hit("IsSameYear", "inconsistent-with-year-boundaries", "t1=%s t2=%s got %v", fmtT(t1), fmtT(t2), out[pSameYear].B)
	}
	dd := d2 - d1
	if dd < 0 {
		dd = -dd
	}
	if m.c.Zone.Fixed && dd < 100000 && out[pFloorDays].Z != dd {
		m.hit("FloorDeltaDays", "wrong", "t1=%s t2=%s got %d want %d", fmtT(t1), fmtT(t2), out[pFloorDays].Z, dd)
	}
}

// ---------------------------------------------------------------- periods

var perName = [nPer]string{"NewPeriod", "NewPeriod", "Duration", "Milliseconds", "Microseconds", "Nanoseconds", "IsZero", "IsInvalid",
	"IsBefore", "IsAfter", "IsBetween", "IsOngoing", "IsBetweenOrEqual", "IsBetweenOrEqualPeriod", "IsOverlap", "IsOverlap"}

func (m *mon) checkPer(c *Case, out []Res) {
	for i, r := range out {
		if r.K == "panic" {
			m.hit(perName[i], "crash", "panic: %s", r.Err)
			return
		}
	}
	p, q := *out[qP].P, *out[qQ].P
	if !c.Raw {
		chk := func(got [2]Inst, a, b Inst) {
			lo, hi := a, b
			if b.Less(a) {
				lo, hi = b, a
			}
			if got[0] != lo || got[1] != hi {
				m.hit("NewPeriod", "not-normalised", "NewPeriod(%v, %v) = %v", a, b, got)
			}
		}
		chk(p, c.Per[0], c.Per[1])
		chk(q, c.Per[2], c.Per[3])
	}
	if out[qOverlapPQ].B != out[qOverlapQP].B {
		m.hit("IsOverlap", "not-symmetric", "p=%v q=%v p.IsOverlap(q)=%v q.IsOverlap(p)=%v", p, q, out[qOverlapPQ].B, out[qOverlapQP].B)
	}
	if p[0].Less(p[1]) && q[0].Less(q[1]) { // positive-length periods: overlap <=> shared interior
		lo, hi := p[0], p[1]
		if lo.Less(q[0]) {
			lo = q[0]
		}
		if q[1].Less(hi) {
			hi = q[1]
		}
		if out[qOverlapPQ].B != lo.Less(hi) {
			m.hit("IsOverlap", "disagrees-with-shared-interior", "p=%v q=%v IsOverlap=%v shared interior=%v", p, q, out[qOverlapPQ].B, lo.Less(hi))
		}
	}
}

var winName = [nWin]string{"NewPeriodWindow", "NewPeriodWithHour", "NewPeriodWithMinute", "NewPeriodWithSecond",
	"NewPeriodWithMillisecond", "NewPeriodWithMicrosecond", "NewPeriodWithNanosecond"}

func (m *mon) checkWin(c *Case, out []Res) {
	for i, r := range out {
		if r.K == "panic" {
			m.hit(winName[i], "crash", "panic: %s", r.Err)
			return
		}
	}
	t := c.T
	if c.Size > 0 {
		p := *out[wWindow].P
		if t.Less(p[0]) || !t.Less(p[1]) {
			m.hit("NewPeriodWindow", "window-does-not-contain-anchor", "t=%v size=%d window=%v", t, c.Size, p)
		}
		if (p[1].S-p[0].S)*1000000000+(p[1].N-p[0].N) != c.Size {
			m.hit("NewPeriodWindow", "wrong-length", "t=%v size=%d window=%v", t, c.Size, p)
		}
	}
	for ix := wHour; ix < nWin; ix++ {
		p := *out[ix].P
		if p[1].Less(p[0]) {
			m.hit(winName[ix], "not-normalised", "t=%v n=%d got %v", t, c.Nd, p)
		} else if p[0] != t && p[1] != t {
			m.hit(winName[ix], "anchor-not-an-endpoint", "t=%v n=%d got %v", t, c.Nd, p)
		}
	}
}

// monitor dispatches on the case kind; it re-derives whatever it needs from c.Impl only.
func monitor(c *Case) []vh.Violation {
	m := &mon{c: c}
	loc := c.Zone.Loc()
	switch c.Kind {
	case "inst":
		m.checkInst(c.T.In(loc), loc, c.Zone == c.Local, c.W, c.Kw, c.Nd, c.H, c.M, c.S, c.Impl)
	case "pair":
		setLocal(c.Local)
		t1, t2 := c.T.In(loc), c.T2.In(c.Zone2.Loc())
		m.checkPair(t1, t2, c.Zone == c.Zone2, c.Impl, pairOutputs(t2, t1), pairOutputs(t1, t1))
	case "per":
		m.checkPer(c, c.Impl)
	case "win":
		m.checkWin(c, c.Impl)
	case "sweep":
		return c.sweepViol
	}
	c.skips = m.skipped
	return m.viol
}
