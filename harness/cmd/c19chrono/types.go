// c19chrono: correspondence harness (T1) + property monitors for toolkit/chrono (moment.go, period.go)
// against MV.C19.ChronoModel.
package main

import (
	"fmt"
	"math/big"
	"strings"
	"sync"
	"time"
	_ "time/tzdata" // embedded zone database: the DST zones load even without /usr/share/zoneinfo

	"verif/harness/vh"
)

// Inst is an instant: Unix seconds + nanoseconds (0..999999999).
type Inst struct {
	S int64 `json:"s"`
	N int64 `json:"n"`
}

func instOf(t time.Time) Inst { return Inst{t.Unix(), int64(t.Nanosecond())} }
func (i Inst) In(loc *time.Location) time.Time {
	return time.Unix(i.S, i.N).In(loc)
}
func (i Inst) Less(j Inst) bool { return i.S < j.S || (i.S == j.S && i.N < j.N) }

// coqBig prints an integer for the Coq side. Elaborating a binary Z literal costs ~20 us per bit, so large
// values are written as two primitive-integer limbs: W hi lo = (hi - 2^20) * 2^62 + lo (MV.C19.ChronoRun.W).
var (
	two62  = new(big.Int).Lsh(big.NewInt(1), 62)
	small  = big.NewInt(1 << 20)
	limbBi = big.NewInt(1 << 20)
)

func coqBig(v *big.Int) string {
	if v.CmpAbs(small) < 0 {
		if v.Sign() < 0 {
			return "(" + v.String() + ")"
		}
		return v.String()
	}
	hi, lo := new(big.Int), new(big.Int)
	hi.DivMod(v, two62, lo) // Euclidean: 0 <= lo < 2^62
	hi.Add(hi, limbBi)
	if hi.Sign() < 0 || hi.BitLen() > 62 {
		panic("coqBig: value out of range " + v.String())
	}
	return "(W " + hi.String() + "%uint63 " + lo.String() + "%uint63)"
}
func coqZ(v int64) string { return coqBig(big.NewInt(v)) }

// Coq prints the instant as nanoseconds since the Unix epoch (it does not fit an int64 outside 1678..2262).
func (i Inst) Coq() string {
	v := new(big.Int).Mul(big.NewInt(i.S), big.NewInt(1000000000))
	v.Add(v, big.NewInt(i.N))
	return coqBig(v)
}

// ZoneSpec names a Location: a fixed offset (seconds east) or an IANA zone with DST rules.
type ZoneSpec struct {
	Name  string `json:"name"`
	Off   int64  `json:"off"`   // fixed zones only
	Fixed bool   `json:"fixed"` // false: IANA zone, evaluated in Coq over its extracted transition table (zone.go)
}

var (
	zoneMu    sync.Mutex
	zoneCache = map[string]*time.Location{}
)

func (z ZoneSpec) Loc() *time.Location {
	zoneMu.Lock()
	defer zoneMu.Unlock()
	key := fmt.Sprintf("%s/%d/%v", z.Name, z.Off, z.Fixed)
	if l, ok := zoneCache[key]; ok {
		return l
	}
	var l *time.Location
	if z.Fixed {
		if z.Off == 0 && z.Name == "UTC" {
			l = time.UTC
		} else {
			l = time.FixedZone(z.Name, int(z.Off))
		}
	} else {
		var err error
		l, err = time.LoadLocation(z.Name)
		if err != nil {
			panic("cannot load zone " + z.Name + ": " + err.Error())
		}
	}
	zoneCache[key] = l
	return l
}

var (
	zUTC    = ZoneSpec{"UTC", 0, true}
	zP8     = ZoneSpec{"+08:00", 8 * 3600, true}
	zM5     = ZoneSpec{"-05:00", -5 * 3600, true}
	zNepal  = ZoneSpec{"+05:45", 5*3600 + 45*60, true}
	zLMT    = ZoneSpec{"-04:56:02", -(4*3600 + 56*60 + 2), true}
	zNY     = ZoneSpec{"America/New_York", 0, false}
	zBerlin = ZoneSpec{"Europe/Berlin", 0, false}
)

// Res is one observed output of the implementation.
type Res struct {
	K   string    `json:"k"` // t b z p d panic
	T   *Inst     `json:"t,omitempty"`
	B   bool      `json:"b,omitempty"`
	Z   int64     `json:"z,omitempty"`
	P   *[2]Inst  `json:"p,omitempty"`
	D   *[7]int64 `json:"d,omitempty"` // year month day hour min sec weekday
	Err string    `json:"err,omitempty"`
}

func rT(t time.Time) Res    { i := instOf(t); return Res{K: "t", T: &i} }
func rB(b bool) Res         { return Res{K: "b", B: b} }
func rZ(z int64) Res        { return Res{K: "z", Z: z} }
func rP(a, b time.Time) Res { p := [2]Inst{instOf(a), instOf(b)}; return Res{K: "p", P: &p} }
func (r Res) time() (Inst, bool) {
	if r.K == "t" && r.T != nil {
		return *r.T, true
	}
	return Inst{}, false
}

func (r Res) Coq() string {
	switch r.K {
	case "t":
		return vh.App("OT", r.T.Coq())
	case "b":
		return vh.App("OB", vh.Bool(r.B))
	case "z":
		return vh.App("OZ", coqZ(r.Z))
	case "p":
		return vh.App("OP", r.P[0].Coq(), r.P[1].Coq())
	case "d":
		a := make([]string, 7)
		for i, v := range r.D {
			a[i] = coqZ(v)
		}
		return vh.App("OD", a...)
	}
	return "OBad"
}

// Case: one query against the implementation, with the observed outputs.
type Case struct {
	Kind  string   `json:"kind"` // inst date adddate pair per win sweep
	Zone  ZoneSpec `json:"zone"`
	Local ZoneSpec `json:"local"` // what time.Local is set to while the case runs
	T     Inst     `json:"t"`
	T2    Inst     `json:"t2"`
	Zone2 ZoneSpec `json:"zone2"` // pair: Location of t2
	W     int64    `json:"w"`     // weekday argument
	Kw    int64    `json:"kw"`    // week offset
	Nd    int64    `json:"nd"`    // day offset / unit count
	H     int64    `json:"h"`
	M     int64    `json:"m"`
	S     int64    `json:"s"`
	F     [7]int64 `json:"f"`   // date: y mo d h mi s ns; adddate: yy mm dd
	Per   [4]Inst  `json:"per"` // per: a b c d
	Raw   bool     `json:"raw"`
	Size  int64    `json:"size"` // win: window size (ns)
	Day0  int64    `json:"day0"` // sweep
	Count int64    `json:"count"`
	Seed  int64    `json:"seed"`
	All49 bool     `json:"all49"` // sweep: additionally run the week helpers for every weekday x offset -3..3 (monitors only)
	Class string   `json:"class"` // generator's boundary class (reporting only)
	Impl  []Res    `json:"impl"`
	// inst in a table zone: local midnight of the instant's civil day exists exactly once (package time), compared with
	// MV.C19.ZoneModel.midnight_regular on the extracted table
	MidReg bool `json:"mid_reg,omitempty"`

	fullTab   bool           // table zone: evaluated over the whole extracted table (sub-harness dsttab), not over a window of it
	skips     []string       // monitor checks skipped for this case (see mon.skip)
	sweepViol []vh.Violation // sweep: monitor hits collected while the block ran
	sweepN    int            // sweep: instants evaluated
	sweepNT   int            // sweep: of which on a boundary
}

func (c *Case) coqQuery() string {
	z := coqZ
	switch c.Kind {
	case "inst":
		return vh.App("QInst", c.T.Coq(), z(c.W), z(c.Kw), z(c.Nd), z(c.H), z(c.M), z(c.S))
	case "date":
		return vh.App("QDate", z(c.F[0]), z(c.F[1]), z(c.F[2]), z(c.F[3]), z(c.F[4]), z(c.F[5]), z(c.F[6]))
	case "adddate":
		return vh.App("QAddDate", c.T.Coq(), z(c.F[0]), z(c.F[1]), z(c.F[2]))
	case "pair":
		return vh.App("QPair", c.T.Coq(), z(c.Zone2.Off), c.T2.Coq())
	case "per":
		return vh.App("QPer", vh.Bool(c.Raw), c.Per[0].Coq(), c.Per[1].Coq(), c.Per[2].Coq(), c.Per[3].Coq())
	case "win":
		return vh.App("QWin", c.T.Coq(), z(c.Size), z(c.Nd))
	case "sweep":
		return vh.App("QSweep", z(c.Day0), fmt.Sprintf("(Z.to_nat %d)", c.Count), z(c.Seed))
	}
	panic("kind " + c.Kind)
}

// coqCase: the Coq term of the case ("" = not evaluated in Coq).
func (c *Case) coqCase(id int) string {
	if !c.Zone.Fixed {
		return c.coqZCase(id) // IANA zone: evaluated over its transition table (MV.C19.ZoneRun)
	}
	if !c.Zone.Fixed || !c.Local.Fixed || (c.Kind == "pair" && !c.Zone2.Fixed) {
		return ""
	}
	rs := make([]string, len(c.Impl))
	for i, r := range c.Impl {
		rs[i] = r.Coq()
	}
	return fmt.Sprintf("{| cid := Z.to_nat %d; czone := %s; clocal := %s; cq := %s; cimpl := %s |}",
		id, coqZ(c.Zone.Off), coqZ(c.Local.Off), c.coqQuery(), "["+strings.Join(rs, "; ")+"]")
}
