// c08sched: correspondence harness (T1) for toolkit/chrono.Scheduler (+ toolkit/pools.SchedulerPool) against
// MV.C08.SchedModel, under VIRTUAL TIME.
//
// It is a test binary (go1.26.8, `go test -c`): every case runs inside a testing/synctest bubble, so the
// timing wheel's goroutines see a fake clock that advances only when everything is blocked. A case is a
// history of register / re-register / unregister / clear / close / names operations at chosen virtual
// instants; every callback execution is recorded with its virtual instant. Counts and instants (in ms, the
// wheel's resolution) are compared exactly with the model; the Go-side monitor restates the property.
//
// Operation instants are never closer than 1 ms to a bucket boundary of the wheel, so "does the timer run
// before or after the operation" never depends on goroutine scheduling (the property speaks about tasks
// cancelled WELL before they are due).
package c08sched

import (
	"encoding/json"
	"flag"
	"fmt"
	"os"
	"reflect"
	"sort"
	"sync"
	"testing"
	"testing/synctest"
	"time"
	"unsafe"

	"github.com/RussellLuo/timingwheel"
	"github.com/kercylan98/minotaur/toolkit/chrono"
	"github.com/kercylan98/minotaur/toolkit/pools"
	"verif/harness/vh"
)

const ms = int64(time.Millisecond)
const sec = int64(time.Second)
const day = 24 * int64(time.Hour)

// the delay under which the model sees a cron task without any occurrence: far beyond every script
const neverNs = 36500 * day

// ---------------------------------------------------------------- case format

type Spec struct {
	K     string `json:"k"` // after | repeat | cron | croni | day | never (a cron expression without any occurrence)
	A     int64  `json:"a,omitempty"`
	I     int64  `json:"i,omitempty"`
	N     int64  `json:"n,omitempty"`
	C     int64  `json:"c,omitempty"`     // cron: every C seconds (C divides 60)
	Since int64  `json:"since,omitempty"` // day: now+off-lastExecuted
	Off   int64  `json:"off,omitempty"`
	H     int64  `json:"h,omitempty"`
	M     int64  `json:"m,omitempty"`
	S     int64  `json:"s,omitempty"`
}
type React struct {
	Ord int64  `json:"ord"`
	K   string `json:"k"` // unreg | rereg (of the task's own name, from inside its callback)
	Sp  *Spec  `json:"sp,omitempty"`
}
type Op struct {
	At   int64   `json:"at"` // ns after the start of the bubble
	K    string  `json:"k"`  // reg | unreg | clear | close | names | end
	Name int     `json:"name,omitempty"`
	Sp   *Spec   `json:"sp,omitempty"`
	Re   []React `json:"re,omitempty"`
}
type Ev struct {
	Ms    int64 `json:"ms"` // ms after the start of the bubble
	Inst  int   `json:"inst"`
	Ord   int64 `json:"ord"`
	Crash bool  `json:"crash,omitempty"`
}
type Res struct {
	K       string `json:"k"` // res | names
	Crashed bool   `json:"crashed,omitempty"`
	Evs     []Ev   `json:"evs,omitempty"`
	Names   []int  `json:"names,omitempty"`
	Note    string `json:"note,omitempty"`
}
type Reg struct { // where instance id came from
	Op     int   `json:"op"`              // index of the registering op, or of the parent's registering op
	React  bool  `json:"react,omitempty"` // registered by a callback
	At     int64 `json:"at"`              // ns after start
	Name   int   `json:"name"`
	Sp     *Spec `json:"sp"`
	Parent int   `json:"parent,omitempty"` // react: instance id of the parent
}
type Case struct {
	Tick  int64  `json:"tick"`
	Wheel int64  `json:"wheel"`
	Pool  bool   `json:"pool,omitempty"`
	Zone  string `json:"zone,omitempty"` // time.Local during the case (default UTC); such cases are judged by the monitor only
	Ops   []Op   `json:"ops"`
	Start int64  `json:"start"` // observed: UnixNano at the start of the bubble
	Impl  []Res  `json:"impl"`  // per op: what ran since the previous op; then the op's own result (not for "end")
	Regs  []Reg  `json:"regs"`
	Clean string `json:"clean,omitempty"` // non-empty: the bubble could not be left cleanly
}

// ---------------------------------------------------------------- running the implementation

func emergencyStop(s *chrono.Scheduler) (err string) {
	defer func() {
		if e := recover(); e != nil {
			err = fmt.Sprint(e)
		}
	}()
	f := reflect.ValueOf(s).Elem().FieldByName("wheel")
	w := reflect.NewAt(f.Type(), unsafe.Pointer(f.UnsafeAddr())).Elem().Interface().(*timingwheel.TimingWheel)
	w.Stop()
	return ""
}

type rawEv struct {
	ms    int64
	tmp   int
	ord   int64
	crash bool
}
type rawReg struct {
	tmp    int
	op     int
	react  bool
	at     int64 // ns after start (react: ms of the parent's firing * 1e6)
	name   int
	sp     *Spec
	re     []React
	parent int // tmp id
	count  int64
	inReg  bool
}

type runner struct {
	mu     sync.Mutex
	s      *chrono.Scheduler
	pool   *pools.SchedulerPool
	start  time.Time
	regs   []*rawReg
	evs    []rawEv
	closed bool
}

func tname(n int) string { return fmt.Sprintf("t%d", n) }

func cronExpr(k int64) string {
	if k <= 1 {
		return "* * * * * * *"
	}
	return fmt.Sprintf("*/%d * * * * * *", k)
}

func (r *runner) register(name int, sp *Spec, re []React, op int, react bool, at int64, parent int) (crashed bool, note string) {
	r.mu.Lock()
	g := &rawReg{tmp: len(r.regs), op: op, react: react, at: at, name: name, sp: sp, re: re, parent: parent, inReg: true}
	r.regs = append(r.regs, g)
	r.mu.Unlock()
	defer func() {
		r.mu.Lock()
		g.inReg = false
		r.mu.Unlock()
		if e := recover(); e != nil {
			crashed, note = true, fmt.Sprint(e)
		}
	}()
	cb := func() { r.onFire(g) }
	switch sp.K {
	case "after":
		r.s.RegisterAfterTask(tname(name), time.Duration(sp.A), cb)
	case "repeat":
		r.s.RegisterRepeatedTask(tname(name), time.Duration(sp.A), time.Duration(sp.I), int(sp.N), cb)
	case "cron":
		if err := r.s.RegisterCronTask(tname(name), cronExpr(sp.C), cb); err != nil {
			return true, "cron: " + err.Error()
		}
	case "croni":
		if err := r.s.RegisterImmediateCronTask(tname(name), cronExpr(sp.C), cb); err != nil {
			return true, "cron: " + err.Error()
		}
	case "never":
		// a cron expression without any occurrence (30 February): the wheel hands out no timer for it. For everything
		// observable it is a one-shot task that is due far beyond the horizon of the script (how the model sees it)
		if err := r.s.RegisterCronTask(tname(name), "0 0 0 30 2 * *", cb); err != nil {
			return true, "cron: " + err.Error()
		}
	case "day":
		last := time.Now().Add(time.Duration(sp.Off)).Add(-time.Duration(sp.Since))
		r.s.RegisterDayMomentTask(tname(name), last, time.Duration(sp.Off), int(sp.H), int(sp.M), int(sp.S), cb)
	default:
		panic("bad spec " + sp.K)
	}
	return false, ""
}

func (r *runner) onFire(g *rawReg) {
	now := time.Now()
	r.mu.Lock()
	msRel := now.UnixMilli() - r.start.UnixMilli()
	if g.inReg { // called synchronously by the registration (missed day moment, immediate cron)
		r.evs = append(r.evs, rawEv{ms: msRel, tmp: g.tmp, ord: 0})
		r.mu.Unlock()
		return
	}
	g.count++
	ord := g.count
	var rc *React
	for i := range g.re {
		if g.re[i].Ord == ord {
			rc = &g.re[i]
			break
		}
	}
	r.mu.Unlock()
	crash := false
	if rc != nil {
		func() {
			defer func() {
				if e := recover(); e != nil {
					crash = true
				}
			}()
			switch rc.K {
			case "unreg":
				r.s.UnregisterTask(tname(g.name))
			case "rereg":
				c, _ := r.register(g.name, rc.Sp, nil, g.op, true, msRel*ms, g.tmp)
				crash = c
			}
		}()
	}
	r.mu.Lock()
	r.evs = append(r.evs, rawEv{ms: msRel, tmp: g.tmp, ord: ord, crash: crash})
	r.mu.Unlock()
}

func (r *runner) take() []rawEv {
	r.mu.Lock()
	defer r.mu.Unlock()
	e := r.evs
	r.evs = nil
	return e
}

type rawRes struct {
	res Res
	evs []rawEv
}

func (r *runner) exec(i int, o *Op) (res rawRes) {
	res.res.K = "res"
	defer func() {
		if e := recover(); e != nil {
			res.res.Crashed, res.res.Note = true, fmt.Sprint(e)
		}
		res.evs = r.take()
	}()
	switch o.K {
	case "reg":
		res.res.Crashed, res.res.Note = r.register(o.Name, o.Sp, o.Re, i, false, o.At, -1)
	case "unreg":
		r.s.UnregisterTask(tname(o.Name))
	case "clear":
		if r.pool != nil {
			r.pool.Put(r.s) // Clear, then kept (capacity 1, empty)
			r.s = r.pool.Get()
		} else {
			r.s.Clear()
		}
	case "close":
		r.s.Close()
		r.closed = true
	case "names":
		res.res.K = "names"
		res.res.Names = []int{}
		for _, n := range r.s.GetRegisteredTasks() {
			var k int
			if _, err := fmt.Sscanf(n, "t%d", &k); err != nil {
				k = -1
			}
			res.res.Names = append(res.res.Names, k)
		}
		sort.Ints(res.res.Names)
	default:
		panic("bad op " + o.K)
	}
	return
}

func runImpl(t *testing.T, c *Case) {
	c.Impl, c.Regs, c.Clean = nil, nil, ""
	time.Local = time.UTC
	if c.Zone != "" {
		if loc, err := time.LoadLocation(c.Zone); err == nil {
			time.Local = loc
		}
		defer func() { time.Local = time.UTC }()
	}
	var raws []rawRes
	var r *runner
	func() {
		defer func() {
			if e := recover(); e != nil {
				c.Clean = fmt.Sprint("bubble-not-clean: ", e)
			}
		}()
		synctest.Test(t, func(t *testing.T) {
			r = &runner{start: time.Now()}
			c.Start = r.start.UnixNano()
			if c.Pool {
				r.pool = pools.NewSchedulerPool(1, time.Duration(c.Tick), c.Wheel)
				r.s = r.pool.Get()
			} else {
				r.s = chrono.NewScheduler(time.Duration(c.Tick), c.Wheel)
			}
			for i := range c.Ops {
				o := &c.Ops[i]
				if d := r.start.Add(time.Duration(o.At)).Sub(time.Now()); d > 0 {
					time.Sleep(d)
				}
				synctest.Wait()
				raws = append(raws, rawRes{res: Res{K: "res"}, evs: r.take()})
				if o.K == "end" {
					continue
				}
				raws = append(raws, r.exec(i, o))
			}
			// leave the bubble: the wheel's two goroutines must end
			if !r.closed {
				func() {
					defer func() {
						if e := recover(); e != nil {
							if msg := emergencyStop(r.s); msg != "" {
								c.Clean = "cleanup: Close panicked and the wheel could not be stopped: " + msg
							}
						}
					}()
					r.s.Close()
				}()
			}
			synctest.Wait()
		})
	}()
	// final instance ids: registrations in the order the model performs them = by instant, callbacks' registrations
	// of one instant in the order of their parents
	order := make([]*rawReg, len(r.regs))
	copy(order, r.regs)
	sort.SliceStable(order, func(a, b int) bool {
		if order[a].at != order[b].at {
			return order[a].at < order[b].at
		}
		return order[a].op < order[b].op
	})
	final := make(map[int]int, len(order))
	for i, g := range order {
		final[g.tmp] = i
	}
	for _, g := range order {
		reg := Reg{Op: g.op, React: g.react, At: g.at, Name: g.name, Sp: g.sp}
		if g.react {
			reg.Parent = final[g.parent]
		}
		c.Regs = append(c.Regs, reg)
	}
	for _, rr := range raws {
		res := rr.res
		for _, e := range rr.evs {
			res.Evs = append(res.Evs, Ev{Ms: e.ms, Inst: final[e.tmp], Ord: e.ord, Crash: e.crash})
		}
		sort.Slice(res.Evs, func(a, b int) bool {
			x, y := res.Evs[a], res.Evs[b]
			if x.Ms != y.Ms {
				return x.Ms < y.Ms
			}
			if x.Inst != y.Inst {
				return x.Inst < y.Inst
			}
			return x.Ord < y.Ord
		})
		c.Impl = append(c.Impl, res)
	}
}

// ---------------------------------------------------------------- property monitor (independent of the Coq model)

func kindOf(sp *Spec) string {
	if sp == nil {
		return "none"
	}
	switch sp.K {
	case "repeat":
		if sp.N <= 0 {
			return "forever"
		}
		if sp.N == 1 {
			return "repeat1"
		}
		return "repeatN"
	}
	return sp.K
}

// due returns the instant (ns after start) at which firing k (1-based) of the instance is wanted, ok=false if there is no such firing.
func due(c *Case, g *Reg, k int64) (int64, bool) {
	sp := g.Sp
	tick := c.Tick
	cl := func(d int64) int64 {
		if d < tick {
			return tick
		}
		return d
	}
	switch sp.K {
	case "after":
		if k > 1 {
			return 0, false
		}
		return g.At + cl(sp.A), true
	case "repeat":
		if sp.N > 0 && k > sp.N {
			return 0, false
		}
		return g.At + cl(sp.A) + (k-1)*cl(sp.I), true
	case "cron", "croni":
		abs := c.Start + g.At
		per := sp.C * sec
		return (abs/per+k)*per - c.Start, true
	case "day":
		now := time.Unix(0, c.Start+g.At+sp.Off).UTC()
		mom := time.Date(now.Year(), now.Month(), now.Day(), int(sp.H), int(sp.M), int(sp.S), 0, time.UTC)
		if !mom.After(now) {
			mom = mom.Add(24 * time.Hour)
		}
		return g.At + cl(int64(mom.Sub(now))) + (k-1)*day, true
	}
	return 0, false
}

func dayInRange(sp *Spec) bool {
	return sp.H >= 0 && sp.H < 24 && sp.M >= 0 && sp.M < 60 && sp.S >= 0 && sp.S < 60
}

func monitor(c *Case) (viol []vh.Violation) {
	add := func(fn, class, detail string, sig map[string]string) {
		if len(viol) < 4 {
			if sig == nil {
				sig = map[string]string{}
			}
			sig["fn"] = fn
			viol = append(viol, vh.Violation{Kind: "sched:" + fn + ":" + class, Detail: detail, Sig: sig})
		}
	}
	if c.Clean != "" {
		add("cleanup", "bubble-not-clean", c.Clean, nil)
	}
	// 1. nothing crashes
	k := 0
	type evAt struct {
		Ev
		step int
	}
	var all []evAt
	closedAt, end := int64(-1), int64(0)
	for i := range c.Ops {
		o := &c.Ops[i]
		end = o.At
		if k >= len(c.Impl) {
			return
		}
		for _, e := range c.Impl[k].Evs {
			all = append(all, evAt{e, i})
		}
		k++
		if o.K == "end" {
			continue
		}
		if k >= len(c.Impl) {
			return
		}
		res := c.Impl[k]
		k++
		for _, e := range res.Evs {
			all = append(all, evAt{e, i})
		}
		if res.Crashed {
			fn := o.K
			if o.K == "reg" {
				fn = "register"
			}
			add(fn, "crash", fmt.Sprintf("op #%d %s(name %d) at +%.3fms panicked: %s", i, o.K, o.Name, float64(o.At)/1e6, res.Note), nil)
			return
		}
		if o.K == "close" && closedAt < 0 {
			closedAt = o.At
		}
	}
	for _, e := range all {
		if e.Crash {
			g := c.Regs[e.Inst]
			add("callback", "crash", fmt.Sprintf("the callback of instance %d (name %d) panicked at its firing %d (+%dms) while unregistering / re-registering its own name", e.Inst, g.Name, e.Ord, e.Ms), nil)
			return
		}
	}
	// 2. per instance: cancellation instant, then counts and instants
	perInst := make([][]Ev, len(c.Regs))
	for _, e := range all {
		if e.Inst < 0 || e.Inst >= len(c.Regs) {
			add("callback", "unknown-instance", fmt.Sprintf("event of instance %d", e.Inst), nil)
			return
		}
		perInst[e.Inst] = append(perInst[e.Inst], e.Ev)
	}
	for id := range c.Regs {
		g := &c.Regs[id]
		fn := kindOf(g.Sp)
		evs := perInst[id]
		// cancellation: the first later event on the same name / clear / close
		cancel, selfOrd, why := int64(1)<<62, int64(0), ""
		for j := range c.Regs { // a later registration of the name (by an op or by a callback)
			h := &c.Regs[j]
			if j != id && h.Name == g.Name && (h.At > g.At || (h.At == g.At && j > id)) && h.At < cancel {
				cancel, why = h.At, "re-registered"
				if h.React && h.Parent == id {
					selfOrd = -1 // set below from the reaction's ordinal
				} else {
					selfOrd = 0
				}
			}
		}
		for i := range c.Ops {
			o := &c.Ops[i]
			if (!g.React && i <= g.Op) || (g.React && o.At <= g.At) {
				continue
			}
			if (o.K == "unreg" && o.Name == g.Name) || o.K == "clear" || o.K == "close" {
				if o.At < cancel {
					cancel, selfOrd, why = o.At, 0, o.K
				}
			}
		}
		if !g.React { // its own reactions
			for _, rc := range c.Ops[g.Op].Re {
				for _, e := range evs {
					if e.Ord == rc.Ord && e.Ms*ms <= cancel {
						if e.Ms*ms < cancel || selfOrd == -1 {
							cancel, selfOrd, why = e.Ms*ms, rc.Ord, "callback-"+rc.K
						}
					}
				}
			}
		}
		if closedAt >= 0 && g.At >= closedAt {
			cancel, selfOrd, why = g.At, 0, "registered-after-close"
		}
		limit := cancel
		if end < limit {
			limit = end
		}
		var n, imm int64
		for _, e := range evs {
			if e.Ord == 0 {
				imm++
				continue
			}
			n++
			at := e.Ms * ms
			if at >= cancel && !(selfOrd > 0 && e.Ord <= selfOrd) {
				cls := "fired-after-cancel"
				if why == "close" || why == "registered-after-close" {
					cls = "fired-after-close"
				}
				add(fn, cls, fmt.Sprintf("instance %d (name %d, %+v) ran at +%dms (firing %d), but it was cancelled at +%.3fms (%s)", id, g.Name, *g.Sp, e.Ms, e.Ord, float64(cancel)/1e6, why), nil)
				continue
			}
			if e.Ord != n {
				add(fn, "ordinal", fmt.Sprintf("instance %d: firing ordinals not consecutive: %v", id, evs), nil)
			}
			if g.Sp.K == "day" && !dayInRange(g.Sp) {
				continue
			}
			if c.Zone != "" {
				if g.Sp.K == "day" { // a day-moment task must run at its moment of the day, in local time
					if loc, err := time.LoadLocation(c.Zone); err == nil {
						lt := time.Unix(0, c.Start+at).In(loc)
						want := time.Date(lt.Year(), lt.Month(), lt.Day(), int(g.Sp.H), int(g.Sp.M), int(g.Sp.S), 0, loc)
						if diff := lt.Sub(want); diff < -time.Duration(c.Tick+ms) || diff > time.Duration(2*c.Tick) {
							if len(viol) < 4 {
								viol = append(viol, vh.Violation{Kind: "sched:day:moment-drift", Detail: fmt.Sprintf("day-moment task %02d:%02d:%02d in zone %s: firing %d ran at %s (local), %v away from the moment",
									g.Sp.H, g.Sp.M, g.Sp.S, c.Zone, n, lt.Format("2006-01-02 15:04:05 MST"), diff), Sig: map[string]string{"fn": "day", "zone_rule": "dst"}})
							}
							break
						}
					}
				}
				continue
			}
			d, ok := due(c, g, n)
			if !ok {
				add(fn, "too-many", fmt.Sprintf("instance %d (name %d, %+v) ran %d times: firing %d at +%dms", id, g.Name, *g.Sp, n, n, e.Ms), nil)
				continue
			}
			lo := d - c.Tick - ms - (n-1)*ms
			if at < lo {
				add(fn, "early", fmt.Sprintf("instance %d (name %d, %+v registered at +%.3fms): firing %d at +%dms, wanted at +%.3fms (more than one tick early)", id, g.Name, *g.Sp, float64(g.At)/1e6, n, e.Ms, float64(d)/1e6), nil)
			}
			if at > d+2*c.Tick {
				add(fn, "late", fmt.Sprintf("instance %d (name %d, %+v registered at +%.3fms): firing %d at +%dms, wanted at +%.3fms (more than two ticks late)", id, g.Name, *g.Sp, float64(g.At)/1e6, n, e.Ms, float64(d)/1e6), nil)
			}
		}
		wantImm := int64(0)
		if g.Sp.K == "croni" || (g.Sp.K == "day" && g.Sp.Since > day) {
			wantImm = 1
		}
		if imm != wantImm {
			add(fn, "immediate-call", fmt.Sprintf("instance %d (%+v): %d immediate calls, expected %d", id, *g.Sp, imm, wantImm), nil)
		}
		if (g.Sp.K == "day" && !dayInRange(g.Sp)) || c.Zone != "" {
			continue
		}
		// firings that had to happen before the task was cancelled / the run ended
		var must int64
		for kk := int64(1); ; kk++ {
			d, ok := due(c, g, kk)
			if !ok || d+2*c.Tick+ms > limit || kk > 100000 {
				break
			}
			must = kk
		}
		if selfOrd > 0 && must > selfOrd {
			must = selfOrd
		}
		if n < must {
			add(fn, "missing", fmt.Sprintf("instance %d (name %d, %+v registered at +%.3fms) ran %d times before +%.3fms (%s), at least %d firings were due", id, g.Name, *g.Sp, float64(g.At)/1e6, n, float64(limit)/1e6, why, must), nil)
		}
	}
	return
}

// ---------------------------------------------------------------- Coq terms

func zz(v int64) string {
	if v >= 0 {
		return fmt.Sprintf("(zi %d)", v)
	}
	return fmt.Sprintf("(zn %d)", -v)
}
func coqSpec(sp *Spec) string {
	switch sp.K {
	case "after":
		return vh.App("SAfter", zz(sp.A))
	case "repeat":
		return vh.App("SRepeat", zz(sp.A), zz(sp.I), zz(sp.N))
	case "cron":
		return vh.App("SCron", zz(sp.C), "false")
	case "croni":
		return vh.App("SCron", zz(sp.C), "true")
	case "never":
		return vh.App("SAfter", zz(neverNs))
	case "day":
		return vh.App("SDay", zz(sp.Since), zz(sp.Off), zz(sp.H), zz(sp.M), zz(sp.S))
	}
	panic(sp.K)
}
func coqReacts(re []React) string {
	it := make([]string, len(re))
	for i, r := range re {
		x := "RUnreg"
		if r.K == "rereg" {
			x = vh.App("RRereg", coqSpec(r.Sp))
		}
		it[i] = vh.Pair(zz(r.Ord), x)
	}
	return vh.List(it)
}
func coqRes(c *Case, r Res) string {
	if r.K == "names" {
		for _, n := range r.Names {
			if n < 0 {
				return "OBad"
			}
		}
		return vh.App("ONames", vh.ListNat(r.Names))
	}
	it := make([]string, len(r.Evs))
	for i, e := range r.Evs {
		it[i] = vh.App("ev", zz(c.Start/ms+e.Ms), vh.Nat(e.Inst), zz(e.Ord), vh.Bool(e.Crash))
	}
	return vh.App("ORes", vh.Bool(r.Crashed), vh.List(it))
}
func coqCase(id int, c *Case) string {
	var ops, rs []string
	for i := range c.Ops {
		o := &c.Ops[i]
		ops = append(ops, vh.App("Advance", zz(c.Start+o.At)))
		switch o.K {
		case "reg":
			ops = append(ops, vh.App("Register", vh.Nat(o.Name), coqSpec(o.Sp), coqReacts(o.Re)))
		case "unreg":
			ops = append(ops, vh.App("Unregister", vh.Nat(o.Name)))
		case "clear":
			ops = append(ops, "Clear")
		case "close":
			ops = append(ops, "Close")
		case "names":
			ops = append(ops, "Names")
		}
	}
	for _, r := range c.Impl {
		rs = append(rs, coqRes(c, r))
	}
	return fmt.Sprintf("{| cid := %d; ctick := %s; cstart := %s; cops := %s; cimpl := %s |}", id, zz(c.Tick), zz(c.Start), vh.List(ops), vh.List(rs))
}

// ---------------------------------------------------------------- generators

const startMs = int64(946684800000) // the bubble's clock starts at 2000-01-01 00:00:00 UTC

// instant picks an instant (ns after start) inside wheel slot u (counted from the start), at least 1 ms away from both slot boundaries
func instant(rng *vh.RNG, tick int64, u int64) int64 {
	tickMs := tick / ms
	first := (startMs/tickMs + 1) * tickMs // first bucket boundary after the start
	lo, hi := ms, tick-1
	if tickMs >= 3 {
		hi = tick - ms
	}
	r := lo + int64(rng.U64()%uint64(hi-lo+1))
	if rng.Chance(1, 3) {
		r = r / ms * ms // whole milliseconds
		if r < ms {
			r = ms
		}
	}
	return (first+u*tickMs)*ms + r - startMs*ms
}

type scale struct {
	tick, wheel int64
	slots       int64 // length of the history in wheel slots
	unit        int64 // durations are multiples of unit (plus noise)
	maxMul      int64
	cron, daym  bool
}

func genDur(rng *vh.RNG, sc scale) int64 {
	switch rng.Intn(12) {
	case 0:
		return 0
	case 1:
		return -int64(rng.Range(1, 50)) * ms
	case 2:
		return int64(rng.Range(1, int(sc.tick/ms))) * ms / 2 // below the tick
	case 3:
		return sc.tick
	case 4, 5:
		return int64(rng.Range(1, int(sc.maxMul)))*sc.unit + int64(rng.Intn(int(ms))) // sub-millisecond part
	}
	return int64(rng.Range(1, int(sc.maxMul))) * sc.unit
}
func genIvl(rng *vh.RNG, sc scale) int64 { // whole milliseconds (the wheel drops sub-millisecond parts of every step)
	switch rng.Intn(8) {
	case 0:
		return 0
	case 1:
		return sc.tick
	case 2:
		return sc.tick / 2 / ms * ms
	}
	return int64(rng.Range(1, int(sc.maxMul))) * sc.unit / ms * ms
}

func genSpec(rng *vh.RNG, sc scale, inCallback bool) *Spec {
	whole := func(d int64) int64 {
		if inCallback { // the callback's own instant has an unknown sub-millisecond part
			return d / ms * ms
		}
		return d
	}
	if sc.cron && rng.Chance(1, 25) {
		return &Spec{K: "never"}
	}
	switch x := rng.Intn(20); {
	case x < 6:
		return &Spec{K: "after", A: whole(genDur(rng, sc))}
	case x < 14:
		n := []int64{-1, 0, 1, 2, 2, 3, 3, 4, 5, 8}[rng.Intn(10)]
		return &Spec{K: "repeat", A: whole(genDur(rng, sc)), I: genIvl(rng, sc), N: n}
	case x < 17 && sc.cron:
		k := []int64{1, 1, 2, 3, 5}[rng.Intn(5)]
		kind := "cron"
		if rng.Chance(1, 3) {
			kind = "croni"
		}
		return &Spec{K: kind, C: k}
	case x < 20 && sc.daym:
		sp := &Spec{K: "day", H: int64(rng.Intn(24)), M: int64(rng.Intn(60)), S: int64(rng.Intn(60))}
		switch rng.Intn(4) {
		case 0:
			sp.Since = day + int64(rng.Range(1, 1000))*ms // missed: called at once
		case 1:
			sp.Since = int64(rng.Range(1, 23)) * int64(time.Hour)
		case 2:
			sp.Since = day // exactly a day ago: not missed
		case 3:
			sp.Since = -int64(rng.Range(1, 5)) * int64(time.Hour) // "last executed" in the future
		}
		if rng.Chance(1, 3) {
			sp.Off = int64(rng.Range(-12, 12)) * int64(time.Hour)
		}
		if rng.Chance(1, 6) {
			sp.H, sp.M, sp.S = 0, 0, 0
		}
		return sp
	}
	return &Spec{K: "repeat", A: whole(genDur(rng, sc)), I: genIvl(rng, sc), N: int64(rng.Range(2, 4))}
}

func genCase(rng *vh.RNG) Case {
	var sc scale
	switch x := rng.Intn(20); {
	case x < 11: // short: tens of slots, durations of a few ticks
		tw := [][2]int64{{10, 10}, {10, 10}, {10, 10}, {2, 4}, {5, 3}, {7, 5}, {3, 2}, {20, 50}, {4, 64}}[rng.Intn(9)]
		sc = scale{tick: tw[0] * ms, wheel: tw[1], slots: int64(rng.Range(20, 70)), unit: tw[0] * ms / 2, maxMul: 14}
	case x < 17: // long: seconds, cron tasks
		sc = scale{tick: []int64{10, 10, 20, 5, 50}[rng.Intn(5)] * ms, wheel: []int64{10, 10, 3, 60}[rng.Intn(4)], unit: 100 * ms, maxMul: 25, cron: true}
		sc.slots = int64(rng.Range(3, 11)) * sec / sc.tick
	default: // days: day-moment tasks
		sc = scale{tick: 10 * ms, wheel: 10, unit: int64(time.Hour), maxMul: 30, daym: true}
		sc.slots = int64(rng.Range(2, 5)) * day / sc.tick
	}
	c := Case{Tick: sc.tick, Wheel: sc.wheel, Pool: rng.Chance(1, 6)}
	nops := rng.Range(2, 12)
	names := rng.Range(1, 3)
	slots := make([]int64, nops)
	for i := range slots {
		slots[i] = int64(rng.U64() % uint64(sc.slots))
	}
	sort.Slice(slots, func(a, b int) bool { return slots[a] < slots[b] })
	closed, cleared := false, false
	forever := 0
	for i := 0; i < nops; i++ {
		o := Op{At: instant(rng, sc.tick, slots[i])}
		if i > 0 && o.At <= c.Ops[i-1].At {
			o.At = c.Ops[i-1].At + 1
		}
		x := rng.Intn(20)
		if i == 0 {
			x = 0
		}
		switch {
		case x < 11:
			o.K, o.Name, o.Sp = "reg", rng.Intn(names), genSpec(rng, sc, false)
			if o.Sp.K == "repeat" && o.Sp.N <= 0 { // keep the number of executions per case in the hundreds
				step := o.Sp.I
				if step < sc.tick {
					step = sc.tick
				}
				forever++
				if (sc.slots-slots[i])*sc.tick/step > 90 || forever > 2 {
					o.Sp.N = int64(rng.Range(2, 5))
				}
			}
			if o.Sp.K == "repeat" && rng.Chance(1, 4) {
				rc := React{Ord: int64(rng.Range(1, 3)), K: "unreg"}
				if rng.Chance(1, 2) {
					rc.K, rc.Sp = "rereg", genSpec(rng, sc, true)
					if rc.Sp.K != "after" && !(rc.Sp.K == "repeat" && rc.Sp.N > 0) {
						rc.Sp = &Spec{K: "after", A: genDur(rng, sc) / ms * ms}
					}
				}
				o.Re = []React{rc}
			}
		case x < 15:
			o.K, o.Name = "unreg", rng.Intn(names+1)
		case x < 17:
			o.K = "clear"
			if c.Pool && (closed || cleared) { // a pool of capacity 1 keeps a scheduler only once (Get re-slices its buffer)
				o.K = "names"
			}
			cleared = true
		case x < 18:
			o.K = "names"
		default:
			if closed {
				o.K = "names"
			} else {
				o.K, closed = "close", true
			}
		}
		c.Ops = append(c.Ops, o)
	}
	last := c.Ops[len(c.Ops)-1].At
	if !closed && rng.Chance(3, 4) {
		c.Ops = append(c.Ops, Op{At: instant(rng, sc.tick, slots[nops-1]+int64(rng.Range(1, int(sc.slots/4+2)))), K: "close"})
		last = c.Ops[len(c.Ops)-1].At
	}
	// run on for a while: nothing fires after the close / everything due fires
	endSlot := (last+startMs*ms)/sc.tick - (startMs/(sc.tick/ms) + 1) + int64(rng.Range(2, int(sc.slots/3+3)))
	c.Ops = append(c.Ops, Op{At: instant(rng, sc.tick, endSlot), K: "end"})
	return c
}

func corpus() []Case {
	t10 := int64(10 * ms)
	at := func(slot int64, off int64) int64 { return (startMs/10+1+slot)*10*ms + off - startMs*ms }
	rep := func(a, i, n int64) *Spec { return &Spec{K: "repeat", A: a, I: i, N: n} }
	return []Case{
		// DESIGN §6 C08 probe: unregister a pending repeated task
		{Tick: t10, Wheel: 10, Ops: []Op{{At: at(0, 1500000), K: "reg", Name: 0, Sp: rep(30*ms, 30*ms, 3)}, {At: at(1, 5*ms), K: "unreg", Name: 0}, {At: at(12, 5*ms), K: "end"}}},
		// re-register a forever task; close with a forever task pending
		{Tick: t10, Wheel: 10, Ops: []Op{{At: at(0, 2*ms), K: "reg", Name: 0, Sp: rep(0, 0, -1)}, {At: at(3, 5*ms), K: "reg", Name: 0, Sp: &Spec{K: "after", A: 25 * ms}}, {At: at(4, 5*ms), K: "reg", Name: 1, Sp: rep(20*ms, 20*ms, 0)}, {At: at(9, 5*ms), K: "close"}, {At: at(15, 5*ms), K: "end"}}},
		// clear with a cron task and a half-finished repeated task; re-use afterwards (pool)
		{Tick: t10, Wheel: 10, Pool: true, Ops: []Op{{At: at(0, 2*ms), K: "reg", Name: 0, Sp: &Spec{K: "cron", C: 1}}, {At: at(1, 2*ms), K: "reg", Name: 1, Sp: rep(100*ms, 400*ms, 3)}, {At: at(130, 2*ms), K: "clear"}, {At: at(131, 2*ms), K: "reg", Name: 1, Sp: &Spec{K: "after", A: 50 * ms}}, {At: at(260, 2*ms), K: "names"}, {At: at(261, 2*ms), K: "end"}}},
		// one-shot cancelled before it is due; one-shot left alone; repeated 3 left alone
		{Tick: t10, Wheel: 10, Ops: []Op{{At: at(0, 2*ms), K: "reg", Name: 0, Sp: &Spec{K: "after", A: 55 * ms}}, {At: at(0, 3*ms), K: "reg", Name: 1, Sp: &Spec{K: "after", A: 55 * ms}}, {At: at(0, 4*ms), K: "reg", Name: 2, Sp: rep(15*ms, 30*ms, 3)}, {At: at(2, 5*ms), K: "unreg", Name: 0}, {At: at(20, 5*ms), K: "names"}, {At: at(21, 5*ms), K: "close"}, {At: at(30, 5*ms), K: "end"}}},
		// a repeating task stops itself at its 2nd firing; another one turns itself into a one-shot
		{Tick: t10, Wheel: 10, Ops: []Op{{At: at(0, 2*ms), K: "reg", Name: 0, Sp: rep(10*ms, 20*ms, -1), Re: []React{{Ord: 2, K: "unreg"}}}, {At: at(0, 3*ms), K: "reg", Name: 1, Sp: rep(10*ms, 20*ms, 5), Re: []React{{Ord: 1, K: "rereg", Sp: &Spec{K: "after", A: 40 * ms}}}}, {At: at(20, 5*ms), K: "end"}}},
		// a day-moment task whose last execution was missed, over three days
		{Tick: t10, Wheel: 10, Ops: []Op{{At: at(0, 2*ms), K: "reg", Name: 0, Sp: &Spec{K: "day", Since: day + 5*ms, H: 8, M: 30, S: 15}}, {At: at(3*8640000, 2*ms), K: "unreg", Name: 0}, {At: at(4*8640000, 2*ms), K: "end"}}},
	}
}

// ---------------------------------------------------------------- main

func analyse(c *Case) (replaces, cancels int) {
	// a replace / cancel counts when the task it hits has not finished (measured on the implementation's own events)
	fired := map[int]int64{}
	k := 0
	live := map[int]int{} // name -> instance
	regOf := map[int]int{}
	for id, g := range c.Regs {
		if !g.React {
			regOf[g.Op] = id
		}
	}
	unfinished := func(id int) bool {
		g := c.Regs[id]
		switch g.Sp.K {
		case "after":
			return fired[id] < 1
		case "repeat":
			return g.Sp.N <= 0 || fired[id] < g.Sp.N
		}
		return true
	}
	for i := range c.Ops {
		o := &c.Ops[i]
		if k < len(c.Impl) {
			for _, e := range c.Impl[k].Evs {
				if e.Ord > 0 {
					fired[e.Inst]++
				}
			}
		}
		k++
		if o.K == "end" {
			continue
		}
		k++
		switch o.K {
		case "reg":
			if id, ok := live[o.Name]; ok && unfinished(id) {
				replaces++
			}
			live[o.Name] = regOf[i]
		case "unreg":
			if id, ok := live[o.Name]; ok && unfinished(id) {
				cancels++
			}
			delete(live, o.Name)
		case "clear", "close":
			for n, id := range live {
				if unfinished(id) {
					cancels++
				}
				delete(live, n)
			}
		}
	}
	return
}

func record(t *testing.T, out *vh.Out, c *Case) {
	runImpl(t, c)
	v := monitor(c)
	rp, cn := analyse(c)
	out.Count("tick_ms", fmt.Sprint(c.Tick/ms))
	out.Count("ops", vh.Bucket(len(c.Ops)))
	out.Count("replaces_of_unfinished", vh.Bucket(rp))
	out.Count("cancels_of_unfinished", vh.Bucket(cn))
	nev := 0
	for _, r := range c.Impl {
		nev += len(r.Evs)
	}
	out.Count("executions", vh.Bucket(nev))
	for _, g := range c.Regs {
		out.Count("task_kinds", kindOf(g.Sp))
		if g.Sp.K == "repeat" {
			out.Count("repeat_counts", fmt.Sprint(g.Sp.N))
		}
		if g.React {
			out.Count("registered_by", "callback")
		} else {
			out.Count("registered_by", "op")
		}
	}
	for i := range c.Ops {
		out.Count("op_mix", c.Ops[i].K)
	}
	if c.Pool {
		out.Count("scheduler_from", "pool")
	} else {
		out.Count("scheduler_from", "NewScheduler")
	}
	// cancel phase: before the first firing / between firings
	term := coqCase(out.N(), c)
	if c.Zone != "" {
		term = "" // the model has no time zones
	}
	out.Add(c, term, rp+cn > 0, v)
}

var flags vh.Flags
var dstCases bool

func TestMain(m *testing.M) {
	flag.BoolVar(&dstCases, "dst", false, "also run day-moment tasks in a zone with daylight saving time (open finding C08-daymoment-dst-drift)")
	flags = vh.ParseFlags()
	os.Exit(m.Run())
}

func TestC08Sched(t *testing.T) {
	time.Local = time.UTC
	f := flags
	if f.Replay != "" {
		var c Case
		vh.LoadReplayCase(f.Replay, &c)
		want := append([]Res(nil), c.Impl...)
		runImpl(t, &c)
		v := monitor(&c)
		b, _ := json.Marshal(map[string]interface{}{"case": c, "recorded_impl": want, "monitor": v})
		fmt.Println(string(b))
		if len(v) > 0 {
			os.Exit(1)
		}
		return
	}
	out := vh.NewOut(f.Out, "sched", "From Coq Require Import Uint63.\nFrom MV Require Import Lib.ListX C08.SchedModel C08.SchedRun.", "case", "mismatches", f.Seed,
		"histories of 2..12 register/re-register/unregister/clear/close/names operations over 1..3 names on a chrono.Scheduler (1 in 6 obtained from a "+
			"pools.SchedulerPool, clear = Put+Get) in a synctest bubble: after / repeated (counts -1,0,1..8; delays and intervals 0, negative, below the tick, "+
			"with sub-millisecond parts) / cron every 1,2,3,5 s (plain and immediate) / day-moment tasks (missed, not missed, offset); ticks 2..50 ms, wheel sizes 2..64; "+
			"three time scales (tens of ticks, seconds, days); 1 in 4 repeated tasks unregisters or re-registers its own name from its callback; "+
			"operation instants at least 1 ms away from the wheel's bucket boundaries; non-trivial = at least one re-register, unregister, clear or close that "+
			"hits a task which has not finished (measured on the implementation's own executions); distinct by hash of the case")
	rng := vh.NewRNG(f.Seed)
	for _, c := range corpus() {
		c := c
		record(t, out, &c)
	}
	n := f.N
	if n == 0 {
		n = 2500
		if f.Tier == "thorough" {
			n = 40000
		}
	}
	for i := 0; i < n; i++ {
		cr, _ := rng.Derive()
		c := genCase(cr)
		record(t, out, &c)
	}
	if dstCases {
		// 2000-01-01 .. 2000-04-20 in zones that switch to summer time in between (and one that does not)
		for _, z := range []string{"Europe/Berlin", "America/New_York", "Asia/Shanghai"} {
			for _, h := range []int64{8, 2, 23} {
				c := Case{Tick: 10 * ms, Wheel: 10, Zone: z, Ops: []Op{
					{At: 2 * ms, K: "reg", Name: 0, Sp: &Spec{K: "day", Since: int64(time.Hour), H: h, M: 30}},
					{At: 110*day + 5*ms, K: "end"}}}
				record(t, out, &c)
			}
		}
	}
	out.Close()
}
