// c20nav: tie T4 for toolkit/navigate/navmesh: every path returned by NavMesh.FindPath on meshes tiled
// from random convex cells is (a) judged by brute-force monitors here and (b) fed through the Coq
// checker MV.C20.NavModel.path_ok (proved sound in C20_path_checker_sound).
//
// Meshes: a lattice of x/y cuts gives rectangular cells; cells are dropped (holes), merged with a
// neighbour (T-junctions: an edge containing two neighbour edges), split into triangles, or the lattice
// points are jittered (general convex quadrilaterals).  Coordinates are dyadic (quarters), so every
// returned point (start, goal, portal end points = polygon vertices) is exact.
package main

import (
	"encoding/json"
	"fmt"
	"math"
	"math/big"
	"os"
	"strings"

	"github.com/kercylan98/minotaur/toolkit/geometry"
	"github.com/kercylan98/minotaur/toolkit/navigate/navmesh"
	"verif/harness/vh"
)

type R struct {
	N int64 `json:"n"`
	D int64 `json:"d"`
}

func (r R) F() float64    { return float64(r.N) / float64(r.D) }
func (r R) Rat() *big.Rat { return big.NewRat(r.N, r.D) }
func (r R) Coq() string {
	if r.N < 0 {
		return fmt.Sprintf("(q (%d) %d)", r.N, r.D)
	}
	return fmt.Sprintf("(q %d %d)", r.N, r.D)
}
func norm(n, d int64) R {
	for d > 1 && n%2 == 0 {
		n /= 2
		d /= 2
	}
	return R{n, d}
}

// quarters
func Q4(n int) R { return norm(int64(n), 4) }

type Pt struct {
	X R `json:"x"`
	Y R `json:"y"`
}

func (p Pt) G() geometry.Point { return geometry.NewPoint(p.X.F(), p.Y.F()) }
func (p Pt) Coq() string       { return fmt.Sprintf("(P %s %s)", p.X.Coq(), p.Y.Coq()) }
func (p Pt) str() string       { return fmt.Sprintf("(%g,%g)", p.X.F(), p.Y.F()) }

type Res struct {
	K   string       `json:"k"` // path | none | bad
	P   [][2]float64 `json:"p,omitempty"`
	Err string       `json:"err,omitempty"`
}
type Case struct {
	Kind  string `json:"kind"`
	Mesh  [][]Pt `json:"mesh"`
	Start Pt     `json:"start"`
	Goal  Pt     `json:"goal"`
	Impl  Res    `json:"impl"`
}

func runImpl(c *Case) {
	c.Impl = func() (r Res) {
		defer func() {
			if e := recover(); e != nil {
				r = Res{K: "bad", Err: "panic: " + fmt.Sprint(e)}
			}
		}()
		shapes := make([]geometry.Polygon, len(c.Mesh))
		for i, poly := range c.Mesh {
			pts := make([]geometry.Point, len(poly))
			for j, p := range poly {
				pts[j] = p.G()
			}
			shapes[i] = geometry.NewPolygon(pts...)
		}
		nm := navmesh.NewNavMesh(shapes, 0)
		path := nm.FindPath(c.Start.G(), c.Goal.G())
		if len(path) == 0 {
			return Res{K: "none"}
		}
		out := make([][2]float64, len(path))
		for i, p := range path {
			if len(p) != 2 || math.IsNaN(p[0]) || math.IsNaN(p[1]) || math.IsInf(p[0], 0) || math.IsInf(p[1], 0) {
				return Res{K: "bad", Err: fmt.Sprint("malformed point ", []float64(p))}
			}
			out[i] = [2]float64{p[0], p[1]}
		}
		return Res{K: "path", P: out}
	}()
}

// ---- exact helpers

type V struct{ X, Y *big.Rat }

func (p Pt) V() V                { return V{p.X.Rat(), p.Y.Rat()} }
func fv(x, y float64) V          { return V{new(big.Rat).SetFloat64(x), new(big.Rat).SetFloat64(y)} }
func sub(a, b *big.Rat) *big.Rat { return new(big.Rat).Sub(a, b) }
func add(a, b *big.Rat) *big.Rat { return new(big.Rat).Add(a, b) }
func mul(a, b *big.Rat) *big.Rat { return new(big.Rat).Mul(a, b) }
func vsub(a, b V) V              { return V{sub(a.X, b.X), sub(a.Y, b.Y)} }
func vcross(a, b V) *big.Rat     { return sub(mul(a.X, b.Y), mul(a.Y, b.X)) }
func vdot(a, b V) *big.Rat       { return add(mul(a.X, b.X), mul(a.Y, b.Y)) }
func veq(a, b V) bool            { return a.X.Cmp(b.X) == 0 && a.Y.Cmp(b.Y) == 0 }
func orient(a, b, c V) int       { return vcross(vsub(b, a), vsub(c, a)).Sign() }
func lexLess(a, b V) bool {
	if c := a.X.Cmp(b.X); c != 0 {
		return c < 0
	}
	return a.Y.Cmp(b.Y) < 0
}

// p in the closed convex polygon (either orientation); strict = in its interior
func inPoly(poly []Pt, p V, strict bool) bool {
	pos, neg, zero := 0, 0, 0
	n := len(poly)
	for i := 0; i < n; i++ {
		switch orient(poly[i].V(), poly[(i+1)%n].V(), p) {
		case 1:
			pos++
		case -1:
			neg++
		default:
			zero++
		}
	}
	if strict {
		return zero == 0 && (pos == 0 || neg == 0)
	}
	return pos == 0 || neg == 0
}

func convex(poly []Pt) bool {
	n := len(poly)
	if n < 3 {
		return false
	}
	s := 0
	for i := 0; i < n; i++ {
		o := orient(poly[i].V(), poly[(i+1)%n].V(), poly[(i+2)%n].V())
		if o == 0 || (s != 0 && o != s) {
			return false
		}
		s = o
	}
	for i := 0; i < n; i++ {
		for k := 0; k < n; k++ {
			if o := orient(poly[i].V(), poly[(i+1)%n].V(), poly[k].V()); o != 0 && o != s {
				return false
			}
		}
	}
	return true
}

// two polygons share a boundary piece of positive length (two collinear edges overlapping in more than a point)
func adjacent(a, b []Pt) bool {
	for i := range a {
		a1, b1 := a[i].V(), a[(i+1)%len(a)].V()
		for j := range b {
			a2, b2 := b[j].V(), b[(j+1)%len(b)].V()
			if orient(a1, b1, a2) != 0 || orient(a1, b1, b2) != 0 {
				continue
			}
			lo1, hi1, lo2, hi2 := a1, b1, a2, b2
			if lexLess(hi1, lo1) {
				lo1, hi1 = hi1, lo1
			}
			if lexLess(hi2, lo2) {
				lo2, hi2 = hi2, lo2
			}
			lo, hi := lo1, hi1
			if lexLess(lo, lo2) {
				lo = lo2
			}
			if lexLess(hi2, hi) {
				hi = hi2
			}
			if lexLess(lo, hi) {
				return true
			}
		}
	}
	return false
}

func connected(mesh [][]Pt, s, g int) bool {
	seen := map[int]bool{s: true}
	q := []int{s}
	for len(q) > 0 {
		u := q[0]
		q = q[1:]
		if u == g {
			return true
		}
		for v := range mesh {
			if !seen[v] && adjacent(mesh[u], mesh[v]) {
				seen[v] = true
				q = append(q, v)
			}
		}
	}
	return false
}

func strictCell(mesh [][]Pt, p V) int {
	for i, poly := range mesh {
		if inPoly(poly, p, true) {
			return i
		}
	}
	return -1
}

func monitor(c *Case) (viol []vh.Violation) {
	add1 := func(class, detail string) {
		viol = append(viol, vh.Violation{Kind: "nav:FindPath:" + class, Detail: detail,
			Sig: map[string]string{"function": "navmesh.FindPath", "class": class}})
	}
	sc, gc := strictCell(c.Mesh, c.Start.V()), strictCell(c.Mesh, c.Goal.V())
	if sc < 0 || gc < 0 {
		return // the property speaks about points inside the mesh
	}
	switch c.Impl.K {
	case "bad":
		add1("crash", c.Impl.Err)
	case "none":
		if connected(c.Mesh, sc, gc) {
			add1("none-but-connected", fmt.Sprintf("%s (cell %d) and %s (cell %d) are inside cells joined by shared edges, but no path is returned", c.Start.str(), sc, c.Goal.str(), gc))
		}
	case "path":
		p := c.Impl.P
		if p[0][0] != c.Start.X.F() || p[0][1] != c.Start.Y.F() || p[len(p)-1][0] != c.Goal.X.F() || p[len(p)-1][1] != c.Goal.Y.F() {
			add1("wrong-endpoints", fmt.Sprintf("path %v does not run from %s to %s", p, c.Start.str(), c.Goal.str()))
			return
		}
		// every segment, sampled densely (257 points, exact arithmetic), stays inside some cell
		for i := 0; i+1 < len(p); i++ {
			a, b := fv(p[i][0], p[i][1]), fv(p[i+1][0], p[i+1][1])
			for k := int64(0); k <= 256; k++ {
				t := big.NewRat(k, 256)
				x := V{add(a.X, mul(t, sub(b.X, a.X))), add(a.Y, mul(t, sub(b.Y, a.Y)))}
				in := false
				for _, poly := range c.Mesh {
					if inPoly(poly, x, false) {
						in = true
						break
					}
				}
				if !in {
					xf, _ := x.X.Float64()
					yf, _ := x.Y.Float64()
					add1("leaves-mesh", fmt.Sprintf("path %v: the point (%g,%g) of its segment %d lies in no walkable polygon", p, xf, yf, i))
					return
				}
			}
		}
	}
	return
}

// ---- Coq term

func fq(f float64) string {
	r := new(big.Rat).SetFloat64(f)
	num := r.Num().String()
	if r.Sign() < 0 {
		num = "(" + num + ")"
	}
	return fmt.Sprintf("(q %s %s)", num, r.Denom().String())
}

func coqCase(id int, c *Case) string {
	var sb strings.Builder
	fmt.Fprintf(&sb, "(mk %d ", id)
	for _, poly := range c.Mesh {
		sb.WriteString("(mcns ")
		for _, p := range poly {
			sb.WriteString("(pcns " + p.Coq() + " ")
		}
		sb.WriteString("pnil" + strings.Repeat(")", len(poly)) + " ")
	}
	sb.WriteString("mnil" + strings.Repeat(")", len(c.Mesh)))
	sb.WriteString(" " + c.Start.Coq() + " " + c.Goal.Coq() + " ")
	switch c.Impl.K {
	case "none":
		sb.WriteString("NNone")
	case "path":
		sb.WriteString("(NPath ")
		for _, p := range c.Impl.P {
			fmt.Fprintf(&sb, "(pcns (P %s %s) ", fq(p[0]), fq(p[1]))
		}
		sb.WriteString("pnil" + strings.Repeat(")", len(c.Impl.P)) + ")")
	default:
		sb.WriteString("NBad")
	}
	sb.WriteString(")")
	return sb.String()
}

// ---- generator

type cell struct {
	poly []Pt
	in   Pt // a point strictly inside
}

func mid(a, b R) R { // (a+b)/2
	d := a.D
	if b.D > d {
		d = b.D
	}
	return norm(a.N*(d/a.D)+b.N*(d/b.D), 2*d)
}
func avg(ps ...Pt) Pt { // centroid of 2^k points by repeated halving; for 3 points a/4+b/4+c/2
	switch len(ps) {
	case 1:
		return ps[0]
	case 2:
		return Pt{mid(ps[0].X, ps[1].X), mid(ps[0].Y, ps[1].Y)}
	case 3:
		return avg(avg(ps[0], ps[1]), ps[2])
	case 4:
		return avg(avg(ps[0], ps[1]), avg(ps[2], ps[3]))
	}
	panic("avg")
}

func genMesh(r *vh.RNG) ([]cell, string) {
	nx, ny := r.Range(1, 4), r.Range(1, 4)
	if nx*ny == 1 {
		nx = 2
	}
	xs := []int{4 * r.Range(-3, 0)}
	for i := 0; i < nx; i++ {
		xs = append(xs, xs[i]+4*r.Range(1, 3)+[]int{0, 0, 2}[r.Intn(3)])
	}
	ys := []int{4 * r.Range(-3, 0)}
	for i := 0; i < ny; i++ {
		ys = append(ys, ys[i]+4*r.Range(1, 3)+[]int{0, 0, 2}[r.Intn(3)])
	}
	kind := []string{"rect", "rect", "holes", "merged", "triangles", "jitter", "mixed"}[r.Intn(7)]
	// lattice points in quarters, optionally jittered
	lat := make([][]Pt, nx+1)
	for i := range lat {
		lat[i] = make([]Pt, ny+1)
		for j := range lat[i] {
			x, y := xs[i], ys[j]
			if kind == "jitter" && r.Bool() {
				x += r.Range(-1, 1)
				y += r.Range(-1, 1)
			}
			lat[i][j] = Pt{Q4(x), Q4(y)}
		}
	}
	keep := make([][]bool, nx)
	for i := range keep {
		keep[i] = make([]bool, ny)
		for j := range keep[i] {
			keep[i][j] = !((kind == "holes" || kind == "mixed") && r.Chance(1, 4))
		}
	}
	var cells []cell
	merged := make([][]bool, nx)
	for i := range merged {
		merged[i] = make([]bool, ny)
	}
	for j := 0; j < ny; j++ {
		for i := 0; i < nx; i++ {
			if !keep[i][j] || merged[i][j] {
				continue
			}
			a, b, c, d := lat[i][j], lat[i+1][j], lat[i+1][j+1], lat[i][j+1]
			if (kind == "merged" || kind == "mixed") && i+1 < nx && keep[i+1][j] && r.Chance(1, 2) {
				// one wide cell over two lattice columns: its long edges contain the neighbours' edges
				merged[i+1][j] = true
				b, c = lat[i+2][j], lat[i+2][j+1]
			}
			if (kind == "triangles" || kind == "mixed") && r.Chance(1, 2) {
				if r.Bool() {
					cells = append(cells, cell{[]Pt{a, b, c}, avg(a, b, c)}, cell{[]Pt{a, c, d}, avg(a, c, d)})
				} else {
					cells = append(cells, cell{[]Pt{a, b, d}, avg(a, b, d)}, cell{[]Pt{b, c, d}, avg(b, c, d)})
				}
				continue
			}
			cells = append(cells, cell{[]Pt{a, b, c, d}, avg(a, b, c, d)})
		}
	}
	return cells, kind
}

func genCases(r *vh.RNG, clockwise bool) []Case {
	var cells []cell
	var kind string
	for {
		cells, kind = genMesh(r)
		ok := len(cells) >= 2
		for _, c := range cells {
			if !convex(c.poly) || !inPoly(c.poly, c.in.V(), true) {
				ok = false
			}
		}
		if ok {
			break
		}
	}
	// shuffle the cell order (FindPath depends on it only through tie-breaking)
	for i := len(cells) - 1; i > 0; i-- {
		j := r.Intn(i + 1)
		cells[i], cells[j] = cells[j], cells[i]
	}
	mesh := make([][]Pt, len(cells))
	for i, c := range cells {
		p := append([]Pt{}, c.poly...)
		k := r.Intn(len(p))
		p = append(p[k:], p[:k]...)
		if clockwise {
			for a, b := 0, len(p)-1; a < b; a, b = a+1, b-1 {
				p[a], p[b] = p[b], p[a]
			}
		}
		mesh[i] = p
	}
	if clockwise {
		kind += "-cw"
	}
	// a query point strictly inside a cell: its centre, or the centre pulled towards one of its vertices (halving the
	// distance 1..6 times: up to 63/64 of the way into a corner — the thin ends of wedge-shaped cells, where a bounding
	// disc or a centre-based shortcut is most likely to be wrong)
	inside := func(c cell) Pt {
		p := c.in
		if r.Chance(1, 3) {
			return p
		}
		v := c.poly[r.Intn(len(c.poly))]
		for k := r.Range(1, 6); k > 0; k-- {
			p = avg(p, v)
		}
		return p
	}
	var out []Case
	nq := r.Range(2, 4)
	for k := 0; k < nq; k++ {
		s, g := r.Intn(len(cells)), r.Intn(len(cells))
		out = append(out, Case{Kind: kind, Mesh: mesh, Start: inside(cells[s]), Goal: inside(cells[g])})
	}
	return out
}

// corridors: three squares in a row and a fourth one beside the last (two portals straight on, then a turn), in all eight
// orientations and walked in both directions — every compass direction of leaving a cell followed by a turn to either side
func corridors() []Case {
	P := func(x, y int) Pt { return Pt{Q4(4 * x), Q4(4 * y)} }
	var out []Case
	for sym := 0; sym < 8; sym++ {
		tr := func(x, y int) Pt {
			if sym&1 != 0 {
				x = -x
			}
			if sym&2 != 0 {
				y = -y
			}
			if sym&4 != 0 {
				x, y = y, x
			}
			return P(x, y)
		}
		sq := func(x, y int) []Pt { return []Pt{tr(x, y), tr(x+10, y), tr(x+10, y+10), tr(x, y+10)} }
		mesh := [][]Pt{sq(20, 0), sq(10, 0), sq(0, 0), sq(0, 10)}
		a, d := tr(29, 1), tr(1, 19)
		out = append(out, Case{Kind: "corpus", Mesh: mesh, Start: a, Goal: d}, Case{Kind: "corpus", Mesh: mesh, Start: d, Goal: a})
	}
	return out
}

func corpus() []Case {
	P := func(x, y int) Pt { return Pt{Q4(4 * x), Q4(4 * y)} }
	H := func(x, y int) Pt { return Pt{Q4(2 * x), Q4(2 * y)} } // halves
	return append(corridors(), []Case{
		// the package's own example: three 10x10 squares in an L
		{Kind: "corpus", Mesh: [][]Pt{{P(5, 5), P(15, 5), P(15, 15), P(5, 15)}, {P(15, 5), P(25, 5), P(25, 15), P(15, 15)}, {P(15, 15), P(25, 15), P(25, 25), P(15, 25)}},
			Start: P(6, 6), Goal: P(24, 24)},
		// two tall cells separated by a gap: no path may cross the gap
		{Kind: "corpus", Mesh: [][]Pt{{P(0, 0), P(1, 0), P(1, 3), P(0, 3)}, {P(2, 0), P(3, 0), P(3, 3), P(2, 3)}}, Start: H(1, 3), Goal: H(5, 3)},
		// T-junction: the top cell's edge is contained in the bottom cell's edge
		{Kind: "corpus", Mesh: [][]Pt{{P(0, 0), P(4, 0), P(4, 2), P(0, 2)}, {P(1, 2), P(3, 2), P(3, 4), P(1, 4)}}, Start: H(1, 2), Goal: P(2, 3)},
		// wedge-shaped cells (area centroid far from the vertex average) queried in their thin ends
		{Kind: "corpus", Mesh: [][]Pt{{P(0, 0), P(16, 0), P(16, 1), P(0, 6)}, {P(0, 6), P(16, 1), P(16, 8), P(0, 8)}}, Start: H(31, 1), Goal: H(1, 15)},
		{Kind: "corpus", Mesh: [][]Pt{{P(0, 0), P(1, 0), P(12, 5), P(12, 6), P(0, 6)}, {P(12, 5), P(14, 5), P(14, 6), P(12, 6)}}, Start: H(23, 11), Goal: H(27, 11)},
		// around a corner
		{Kind: "corpus", Mesh: [][]Pt{{P(0, 0), P(2, 0), P(2, 2), P(0, 2)}, {P(2, 0), P(4, 0), P(4, 2), P(2, 2)}, {P(2, 2), P(4, 2), P(4, 4), P(2, 4)}, {P(2, 4), P(4, 4), P(4, 6), P(2, 6)}, {P(0, 4), P(2, 4), P(2, 6), P(0, 6)}},
			Start: H(1, 1), Goal: H(1, 11)},
	}...)
}

func record(out *vh.Out, c *Case) {
	runImpl(c)
	v := monitor(c)
	out.Count("kind", c.Kind)
	out.Count("cells", vh.Bucket(len(c.Mesh)))
	out.Count("result", c.Impl.K)
	nt := false
	if c.Impl.K == "path" {
		out.Count("path_points", vh.Bucket(len(c.Impl.P)))
		nt = len(c.Impl.P) >= 3
	}
	sc, gc := strictCell(c.Mesh, c.Start.V()), strictCell(c.Mesh, c.Goal.V())
	if sc >= 0 && gc >= 0 {
		if connected(c.Mesh, sc, gc) {
			out.Count("reachable", "yes")
		} else {
			out.Count("reachable", "no")
		}
	}
	out.Add(c, coqCase(out.N(), c), nt, v)
}

func main() {
	f := vh.ParseFlags()
	if f.Replay != "" {
		var c Case
		vh.LoadReplayCase(f.Replay, &c)
		want := c.Impl
		runImpl(&c)
		v := monitor(&c)
		b, _ := json.Marshal(map[string]interface{}{"case": c, "recorded_impl": want, "monitor": v})
		fmt.Println(string(b))
		if len(v) > 0 {
			os.Exit(1)
		}
		return
	}
	out := vh.NewOut(f.Out, "nav", "From MV Require Import Lib.ListX C20.GeomModel C20.GeomRun C20.NavModel C20.NavRun.", "case", "mismatches", f.Seed,
		"nav meshes tiled from a random lattice (1..4 x 1..4 cells, quarter coordinates): rectangles, holes, merged cells (T-junctions), cells split into triangles, jittered lattice points (general convex quadrilaterals); vertex order counter-clockwise, for one mesh in three clockwise; 2-4 start/goal pairs strictly inside random cells (the centre, or the centre pulled up to 63/64 of the way into a corner); every returned path goes through the Coq checker path_ok; non-trivial = the returned path has >= 3 points (at least one turn at a portal end point); distinct by hash of the whole case")
	out.PerShard = 100
	rng := vh.NewRNG(f.Seed)
	for _, c := range corpus() {
		c := c
		record(out, &c)
	}
	n := 350
	if f.Tier == "thorough" {
		n = 8000
	}
	if f.N > 0 {
		n = f.N
	}
	for i := 0; i < n; i++ {
		cr, _ := rng.Derive()
		for _, c := range genCases(cr, cr.Chance(1, 3)) {
			c := c
			record(out, &c)
		}
	}
	out.Close()
}
