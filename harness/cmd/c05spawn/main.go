// c05spawn: search oracle (and always-on monitor) of property C05 for a spawn that OVERLAPS the termination / restart of its
// parent — the interleaving machine MV.C05.SpawnModel on the REAL ActorSystem, with the interleavings FORCED.
//
// ActorOf does not run on the parent's message loop when it is called through ActorSystem.ActorOf (caller's goroutine, parent =
// the guard) or from a goroutine an actor started. User code runs inside ActorOf at four points — the descriptor configurators
// (top of the function), ActorProvider.Provide (newActorContext), the dispatcher provider and the mailbox provider (before
// Register) — and the harness opens the window THERE: the hook issues the request to the parent (Shutdown(false/true) for the
// guard; Terminate(false/true) or a failure answered by an immediate restart for an ordinary actor) and waits until the parent
// has taken it up and every mailbox is idle again — the parent terminating / restarting and waiting for other children that are
// held inside their OnTerminate handler, or (no other children) completely finished — and only then lets ActorOf go on to
// Register, the entry into the parent's children table, OnLaunch and the late check. "before" issues the request before ActorOf
// is called at all. Quiescence is exact, not timed: every actor runs under one tracking dispatcher (the default one is replaced
// through the hook VerifSetDefaultDispatcher), idle = no mailbox runner active except the held ones. The parent is therefore never
// inside a map operation when the spawner writes the children table (DESIGN §7.4: that overlap is a data race of the code under
// test — "concurrent map read and map write" — and not the subject here).
//
// Monitors (independent of the Coq model; they restate the property on what was observed):
//
//	C05:late-spawn:shutdown-hangs          Shutdown (parent = guard) / the parent's own termination / the final Shutdown does not
//	                                       complete within the bound after the held children were released
//	C05:late-spawn:restart-hangs           the parent's restart does not complete within the bound
//	C05:late-spawn:child-outlives-parent   the late child (or its own child) has not handled its OnTerminated within the bound after
//	                                       its parent finished / Shutdown returned, finished AFTER a parent that was waiting with it
//	                                       in its table, is still registered (registry enumerated through VerifResourceController +
//	                                       reflection) or still answers a ping
//	C05:late-spawn:registered-after-shutdown   any other actor still registered after Shutdown returned
//
// Every case runs in a child process of its own (`-child <json>`): a runtime abort ("fatal error: concurrent map ..") cannot take
// the check down; such an abort is counted under distribution/aborts as the known observation of DESIGN §7.4, not as a hit.
// A second, optional family ("stress") lets spawns race with Shutdown in real time without forcing (one spawner goroutine creating
// top-level actors while another goroutine shuts the system down): every actor whose ActorOf returned must handle its OnTerminated.
// On the UNCHANGED tree this family mostly dies of the §7.4 abort, and now and then the same data race corrupts the guard's children
// map silently (observed: len(children) == 1 with no key left -> tryTerminated never passes; a sweep that reached 1 of 13 entries) and
// Shutdown hangs. Its hits therefore carry the kind prefix "observation:unforced-spawn-vs-shutdown:" — counted in the evidence, with
// the guard's table dumped in the detail, never a C05 violation.
package main

import (
	"bytes"
	"context"
	"encoding/json"
	"flag"
	"fmt"
	"io"
	"log/slog"
	"os"
	"os/exec"
	"reflect"
	"runtime"
	"sort"
	"strings"
	"sync"
	"sync/atomic"
	"time"
	"unsafe"

	"github.com/kercylan98/minotaur/engine/prc"
	"github.com/kercylan98/minotaur/engine/vivid"
	"github.com/kercylan98/minotaur/engine/vivid/dispatcher"
	"github.com/kercylan98/minotaur/engine/vivid/mailbox"
	"github.com/kercylan98/minotaur/engine/vivid/supervision"
	"github.com/kercylan98/minotaur/toolkit/log"
	"verif/harness/vh"
)

type Case struct {
	Family     string `json:"family"`               // forced | stress
	Parent     string `json:"parent,omitempty"`     // guard | actor
	Request    string `json:"request,omitempty"`    // terminate | graceful | restart
	Others     int    `json:"others"`               // other children of the parent, held inside OnTerminate: they keep the parent waiting
	Bystanders int    `json:"bystanders"`           // further children of the parent that stop at once
	Window     string `json:"window,omitempty"`     // before | configurator | provide | dispatcher | mailbox
	Mailbox    string `json:"mailbox,omitempty"`    // mailbox of the late child: LockFree | GlobalOrderedLockFree
	Grandchild bool   `json:"grandchild,omitempty"` // the late child spawns a child of its own in OnLaunch
	Rounds     int    `json:"rounds,omitempty"`     // stress
	Spawns     int    `json:"spawns,omitempty"`     // stress: actors per round
	Salt       uint64 `json:"salt,omitempty"`
	BoundMs    int    `json:"bound_ms"`
}

type Result struct {
	WindowHit        bool     `json:"window_hit"`           // the request was taken up, and everything idle, before ActorOf went on
	ParentAtContinue string   `json:"parent_at_continue"`   // waiting | finished | restarted | alive
	SettleMs         float64  `json:"settle_ms"`
	ChildTerminated  bool     `json:"child_terminated"`
	ChildAnswered    bool     `json:"child_answered"`
	ParentFinished   bool     `json:"parent_finished"`
	ShutdownReturned bool     `json:"shutdown_returned"`
	Order            string   `json:"order,omitempty"` // sequence of the decisive events
	RegisteredAfter  []string `json:"registered_after,omitempty"`
	Spawned          int      `json:"spawned,omitempty"`
	LateSpawns       int      `json:"late_spawns,omitempty"` // stress: ActorOf calls that returned after Shutdown had been called
	Note             string   `json:"note,omitempty"`
}

type childOut struct {
	Case       Case           `json:"case"`
	Result     Result         `json:"result"`
	Violations []vh.Violation `json:"violations"`
}

var silent = log.FunctionalLoggerProvider(func() *log.Logger {
	return slog.New(slog.NewTextHandler(io.Discard, &slog.HandlerOptions{Level: slog.Level(100)}))
})

// ---------------------------------------------------------------- tracking dispatcher: exact idleness

type trackDisp struct {
	active     atomic.Int64 // mailbox runners dispatched and not yet returned
	dispatched atomic.Int64
}

func (d *trackDisp) Dispatch(f func()) {
	d.active.Add(1)
	d.dispatched.Add(1)
	go func() {
		defer d.active.Add(-1)
		f()
	}()
}

// ---------------------------------------------------------------- the world of one case

type world struct {
	c        *Case
	sys      *vivid.ActorSystem
	disp     *trackDisp
	bound    time.Duration
	seq      atomic.Int64
	parked   atomic.Int64 // held children currently inside their OnTerminate handler
	release  chan struct{}
	events   sync.Map // name -> seq
	launches atomic.Int64
	parRef   vivid.ActorRef
	parCtx   atomic.Value // vivid.ActorContext of the parent actor (family actor)
}

func (w *world) mark(name string) {
	w.events.LoadOrStore(name, w.seq.Add(1))
}
func (w *world) at(name string) int64 {
	if v, ok := w.events.Load(name); ok {
		return v.(int64)
	}
	return 0
}

func (w *world) waitFor(cond func() bool, d time.Duration) bool {
	deadline := time.Now().Add(d)
	for i := 0; ; i++ {
		if cond() {
			return true
		}
		if time.Now().After(deadline) {
			return false
		}
		if i < 200 {
			runtime.Gosched()
		} else {
			time.Sleep(50 * time.Microsecond)
		}
	}
}

// idle: no mailbox runner is active except those held inside OnTerminate
func (w *world) idle() bool { return w.disp.active.Load() == w.parked.Load() }

// heldActor: a child that keeps its parent waiting: it does not leave its OnTerminate handler until released
func (w *world) heldActor() vivid.Actor {
	return vivid.FunctionalActor(func(ctx vivid.ActorContext) {
		switch ctx.Message().(type) {
		case *vivid.OnTerminate:
			w.parked.Add(1)
			<-w.release
			w.parked.Add(-1)
		}
	})
}

func (w *world) plainActor(name string) vivid.Actor {
	return vivid.FunctionalActor(func(ctx vivid.ActorContext) {
		switch m := ctx.Message().(type) {
		case *vivid.OnTerminated:
			if m.TerminatedActor.Equal(ctx.Ref()) {
				w.mark(name + ":terminated")
			}
		}
	})
}

// lateActor: the child whose creation overlaps the request
func (w *world) lateActor() vivid.Actor {
	return vivid.FunctionalActor(func(ctx vivid.ActorContext) {
		switch m := ctx.Message().(type) {
		case *vivid.OnLaunch:
			w.mark("late:launched")
			if w.c.Grandchild {
				ctx.ActorOfF(func() vivid.Actor { return w.plainActor("grandchild") }, func(d *vivid.ActorDescriptor) { d.WithName("grandchild") })
			}
		case *vivid.OnTerminated:
			if m.TerminatedActor.Equal(ctx.Ref()) {
				w.mark("late:terminated")
			}
		case string:
			if m == "ping" {
				ctx.Reply("pong")
			}
		}
	})
}

type spawnReq struct {
	make  func(ctx vivid.ActorContext) vivid.ActorRef
	done  chan vivid.ActorRef
	own   bool          // run on the actor's own loop (set-up) instead of a goroutine
	start chan struct{} // the helper goroutine waits for this before it calls ActorOf
}

// parentActor: an ordinary actor as the parent; its helper goroutine calls ctx.ActorOf
func (w *world) parentActor() vivid.Actor {
	return vivid.FunctionalActor(func(ctx vivid.ActorContext) {
		switch m := ctx.Message().(type) {
		case *vivid.OnLaunch:
			w.parCtx.Store(ctx)
			if w.launches.Add(1) >= 2 {
				w.mark("parent:relaunched")
			}
		case *vivid.OnTerminated:
			if m.TerminatedActor.Equal(ctx.Ref()) && w.c.Request != "restart" {
				w.mark("parent:terminated")
			}
		case *spawnReq:
			if m.own {
				m.done <- m.make(ctx)
			} else {
				go func() { <-m.start; m.done <- m.make(ctx) }()
			}
		case string:
			if m == "boom" {
				panic("boom")
			}
		}
	})
}

// ---- the registry (as harness/cmd/c05addr: hook + reflection over the unexported process table)

func unexported(v reflect.Value, name string) reflect.Value {
	f := v.FieldByName(name)
	return reflect.NewAt(f.Type(), unsafe.Pointer(f.UnsafeAddr())).Elem()
}

func (w *world) registeredActors() (actors []string, ok bool) {
	rc := w.sys.VerifResourceController()
	defer func() {
		if recover() != nil {
			ok = false
		}
	}()
	tbl := unexported(reflect.ValueOf(rc).Elem(), "processes")
	rng := tbl.MethodByName("Range")
	if !rng.IsValid() {
		return nil, false
	}
	fn := reflect.MakeFunc(rng.Type().In(0), func(args []reflect.Value) []reflect.Value {
		tn := ""
		if !args[1].IsNil() {
			tn = args[1].Elem().Type().String()
		}
		if strings.HasSuffix(tn, ".actorProcess") {
			actors = append(actors, args[0].String())
		}
		return []reflect.Value{reflect.ValueOf(true)}
	})
	rng.Call([]reflect.Value{fn})
	sort.Strings(actors)
	return actors, true
}

func (w *world) isRegistered(ref vivid.ActorRef) bool {
	if as, ok := w.registeredActors(); ok {
		for _, a := range as {
			if a == ref.GetLogicalAddress() {
				return true
			}
		}
		return false
	}
	rc := w.sys.VerifResourceController()
	return rc.GetProcess(ref) != rc.GetProcess(w.sys.Abyss())
}

// guardTable: diagnostics for a hang — the guard's status and the keys of its children table (unexported: reflection),
// each with whether an actor is still registered under it
func (w *world) guardTable() string {
	defer func() { _ = recover() }()
	g := unexported(reflect.ValueOf(w.sys).Elem(), "guard").Elem()
	st := unexported(g, "status").Addr().Interface().(*atomic.Uint32).Load()
	ch := unexported(g, "children")
	reg := map[string]bool{}
	if as, ok := w.registeredActors(); ok {
		for _, a := range as {
			reg[a] = true
		}
	}
	var keys []string
	for _, k := range ch.MapKeys() {
		keys = append(keys, fmt.Sprintf("%s(registered=%v)", k.String(), reg[k.String()]))
	}
	sort.Strings(keys)
	return fmt.Sprintf("guard status=%d (0 alive, 1 restarting, 2 terminating, 3 terminated), len(children)=%d, children=%v", st, ch.Len(), keys)
}

// ---------------------------------------------------------------- forced family

func runForced(c *Case) (res Result, viol []vh.Violation) {
	sig := map[string]string{"parent": c.Parent, "request": c.Request}
	add := func(kind, detail string) {
		for _, v := range viol {
			if v.Kind == kind {
				return
			}
		}
		viol = append(viol, vh.Violation{Kind: kind, Sig: sig, Detail: fmt.Sprintf(
			"parent=%s request=%s window=%s other children held=%d bystanders=%d grandchild=%v mailbox=%s: %s",
			c.Parent, c.Request, c.Window, c.Others, c.Bystanders, c.Grandchild, c.Mailbox, detail)})
	}
	if runtime.GOMAXPROCS(0) < 4 {
		runtime.GOMAXPROCS(4)
	}
	w := &world{c: c, disp: &trackDisp{}, bound: time.Duration(c.BoundMs) * time.Millisecond, release: make(chan struct{})}
	vivid.VerifSetDefaultDispatcher(w.disp)
	w.sys = vivid.NewActorSystem(vivid.FunctionalActorSystemConfigurator(func(cfg *vivid.ActorSystemConfiguration) {
		cfg.WithLoggerProvider(silent)
	}))
	sys := w.sys
	if !w.waitFor(w.idle, w.bound) {
		res.Note = "the system did not become idle after start"
		return
	}

	// the parent and how to spawn under it: set-up spawns run where they are safe (the system is idle / on the actor's own loop)
	var spawnSetup func(p vivid.ActorProvider, conf ...vivid.ActorDescriptorConfigurator) vivid.ActorRef
	var spawnLate func(p vivid.ActorProvider, conf ...vivid.ActorDescriptorConfigurator) vivid.ActorRef
	name := func(n string) vivid.ActorDescriptorConfigurator {
		return vivid.FunctionalActorDescriptorConfigurator(func(d *vivid.ActorDescriptor) { d.WithName(n) })
	}
	if c.Parent == "guard" {
		spawnSetup = sys.ActorOf
		spawnLate = sys.ActorOf // on this goroutine: not the guard's
	} else {
		w.parRef = sys.ActorOf(vivid.FunctionalActorProvider(w.parentActor), name("par"),
			vivid.FunctionalActorDescriptorConfigurator(func(d *vivid.ActorDescriptor) {
				d.WithSupervisionStrategyProvider(supervision.FunctionalStrategyProvider(func() supervision.Strategy { return supervision.RestartStrategy() }))
			}))
		spawnSetup = func(p vivid.ActorProvider, conf ...vivid.ActorDescriptorConfigurator) vivid.ActorRef {
			req := &spawnReq{own: true, done: make(chan vivid.ActorRef, 1), make: func(ctx vivid.ActorContext) vivid.ActorRef { return ctx.ActorOf(p, conf...) }}
			sys.Tell(w.parRef, req)
			return <-req.done
		}
		// late: from a goroutine the actor starts while it is alive; the goroutine calls ctx.ActorOf when told to
		var lp vivid.ActorProvider
		var lc []vivid.ActorDescriptorConfigurator
		helper := &spawnReq{done: make(chan vivid.ActorRef, 1), start: make(chan struct{}), make: func(ctx vivid.ActorContext) vivid.ActorRef { return ctx.ActorOf(lp, lc...) }}
		sys.Tell(w.parRef, helper)
		spawnLate = func(p vivid.ActorProvider, conf ...vivid.ActorDescriptorConfigurator) vivid.ActorRef {
			lp, lc = p, conf
			close(helper.start)
			return <-helper.done
		}
	}
	for i := 0; i < c.Others; i++ {
		spawnSetup(vivid.FunctionalActorProvider(w.heldActor), name(fmt.Sprintf("held%d", i)))
	}
	for i := 0; i < c.Bystanders; i++ {
		n := fmt.Sprintf("by%d", i)
		spawnSetup(vivid.FunctionalActorProvider(func() vivid.Actor { return w.plainActor(n) }), name(n))
	}
	if !w.waitFor(w.idle, w.bound) {
		res.Note = "the system did not become idle after the set-up"
		return
	}

	// ---- the window
	shutdownReturned := make(chan struct{})
	var once sync.Once
	open := func() {
		once.Do(func() {
			t0 := time.Now()
			d0 := w.disp.dispatched.Load()
			switch {
			case c.Parent == "guard":
				go func() {
					sys.Shutdown(c.Request == "graceful")
					w.mark("shutdown:returned")
					close(shutdownReturned)
				}()
			case c.Request == "restart":
				sys.Tell(w.parRef, "boom")
			default:
				sys.Terminate(w.parRef, c.Request == "graceful")
			}
			finished := func() bool {
				switch {
				case c.Parent == "guard":
					return sys.VerifClosed()
				case c.Request == "restart":
					return w.at("parent:relaunched") != 0
				default:
					return w.at("parent:terminated") != 0
				}
			}
			settled := func() bool {
				if w.disp.dispatched.Load() == d0 || !w.idle() {
					return false
				}
				if c.Others > 0 {
					return w.parked.Load() == int64(c.Others)
				}
				return finished()
			}
			// twice in a row: a runner that has just sent its last message has already been replaced by the receiver's
			res.WindowHit = w.waitFor(func() bool { return settled() && settled() }, w.bound)
			res.SettleMs = float64(time.Since(t0).Microseconds()) / 1000
			switch {
			case !res.WindowHit:
				res.ParentAtContinue = "unsettled"
			case c.Others > 0:
				res.ParentAtContinue = "waiting"
			case c.Request == "restart":
				res.ParentAtContinue = "restarted"
			default:
				res.ParentAtContinue = "finished"
			}
			w.mark("window:closed")
		})
	}
	var confs []vivid.ActorDescriptorConfigurator
	confs = append(confs, vivid.FunctionalActorDescriptorConfigurator(func(d *vivid.ActorDescriptor) {
		if c.Window == "configurator" {
			open()
		}
		d.WithName("late")
		if c.Window == "dispatcher" {
			d.WithDispatcherProvider(vivid.FunctionalDispatcherProvider(func() dispatcher.Dispatcher { open(); return w.disp }))
		}
		if c.Window == "mailbox" || c.Mailbox == "GlobalOrderedLockFree" {
			d.WithMailboxProvider(vivid.FunctionalMailboxProvider(func(disp dispatcher.Dispatcher, r mailbox.Recipient) mailbox.Mailbox {
				if c.Window == "mailbox" {
					open()
				}
				if c.Mailbox == "GlobalOrderedLockFree" {
					return mailbox.NewGlobalOrderedLockFree(disp, r)
				}
				return mailbox.NewLockFree(disp, r)
			}))
		}
	}))
	provider := vivid.FunctionalActorProvider(func() vivid.Actor {
		if c.Window == "provide" {
			open()
		}
		return w.lateActor()
	})
	if c.Window == "before" {
		open()
	}
	late := spawnLate(provider, confs...)
	w.mark("actorof:returned")
	if !res.WindowHit {
		res.Note = "the window was not reached (the parent did not settle within the bound)"
	}
	close(w.release) // the held children may go on

	// ---- what must happen now
	childDone := func() bool {
		return w.at("late:terminated") != 0 && (!c.Grandchild || w.at("late:launched") == 0 || w.at("grandchild:terminated") != 0)
	}
	switch {
	case c.Parent == "guard":
		select {
		case <-shutdownReturned:
			res.ShutdownReturned, res.ParentFinished = true, true
		case <-time.After(w.bound):
			add("C05:late-spawn:shutdown-hangs", fmt.Sprintf("Shutdown(%v) has not returned %v after the held children were released "+
				"(late child terminated: %v; still registered: %v): the root waits for a child nobody told to stop", c.Request == "graceful", w.bound, w.at("late:terminated") != 0, w.isRegistered(late)))
		}
	case c.Request == "restart":
		if w.waitFor(func() bool { return w.at("parent:relaunched") != 0 }, w.bound) {
			res.ParentFinished = true
		} else {
			add("C05:late-spawn:restart-hangs", fmt.Sprintf("the parent's restart has not completed %v after the held children were released "+
				"(late child terminated: %v; still registered: %v): the parent stays suspended, waiting for a child nobody told to stop", w.bound, w.at("late:terminated") != 0, w.isRegistered(late)))
		}
	default:
		if w.waitFor(func() bool { return w.at("parent:terminated") != 0 && !w.isRegistered(w.parRef) }, w.bound) {
			res.ParentFinished = true
		} else {
			add("C05:late-spawn:shutdown-hangs", fmt.Sprintf("the parent's own termination has not completed %v after the held children were released "+
				"(late child terminated: %v; still registered: %v): it waits for a child nobody told to stop", w.bound, w.at("late:terminated") != 0, w.isRegistered(late)))
		}
	}
	hung := len(viol) > 0
	// the late child of a parent that terminates must terminate: before the parent when it was in the table of a waiting parent
	expectChildGone := c.Request != "restart" || res.ParentAtContinue == "waiting"
	if expectChildGone && res.ParentFinished {
		if !w.waitFor(childDone, w.bound) {
			add("C05:late-spawn:child-outlives-parent", fmt.Sprintf("%v after its parent finished the child whose creation overlapped the request "+
				"(ActorOf returned; parent was %s when ActorOf went on) has not handled its OnTerminated (launched: %v, grandchild terminated: %v, still registered: %v)",
				w.bound, res.ParentAtContinue, w.at("late:launched") != 0, w.at("grandchild:terminated") != 0, w.isRegistered(late)))
		} else if res.ParentAtContinue == "waiting" {
			fin := w.at("shutdown:returned")
			if c.Parent != "guard" {
				fin = w.at("parent:relaunched")
				if c.Request != "restart" {
					fin = w.at("parent:terminated")
				}
			}
			if fin != 0 && fin < w.at("late:terminated") {
				add("C05:late-spawn:child-outlives-parent", "the parent finished (own OnTerminated / Shutdown returned / restart complete) BEFORE the late child, "+
					"which was in its table while it was waiting, had handled its OnTerminated")
			}
		}
	}
	res.ChildTerminated = w.at("late:terminated") != 0
	if c.Grandchild && w.at("grandchild:terminated") != 0 && w.at("late:terminated") != 0 && w.at("grandchild:terminated") > w.at("late:terminated") {
		add("C05:late-spawn:child-outlives-parent", "the late child handled its own OnTerminated before its own child had")
	}

	// ---- the end: Shutdown (ordinary parent), then nothing may be registered
	if c.Parent != "guard" && !hung {
		go func() {
			sys.Shutdown(false)
			w.mark("shutdown:returned")
			close(shutdownReturned)
		}()
		select {
		case <-shutdownReturned:
			res.ShutdownReturned = true
		case <-time.After(w.bound):
			add("C05:late-spawn:shutdown-hangs", fmt.Sprintf("the final Shutdown(false) has not returned after %v", w.bound))
		}
	}
	if res.ShutdownReturned {
		w.waitFor(func() bool { as, ok := w.registeredActors(); return ok && len(as) == 0 }, w.bound/2)
		as, ok := w.registeredActors()
		if !ok {
			as = nil
			if w.isRegistered(late) {
				as = []string{late.GetLogicalAddress()}
			}
		}
		res.RegisteredAfter = as
		for _, a := range as {
			if strings.HasPrefix(a, late.GetLogicalAddress()) {
				add("C05:late-spawn:child-outlives-parent", fmt.Sprintf("%v after Shutdown returned %s is still registered (all registered actors: %v)", w.bound/2, a, as))
			} else {
				add("C05:late-spawn:registered-after-shutdown", fmt.Sprintf("%v after Shutdown returned %s is still registered (all registered actors: %v)", w.bound/2, a, as))
			}
		}
		if reply, err := sys.FutureAsk(late, "ping", 150*time.Millisecond).Result(); err == nil {
			res.ChildAnswered = true
			add("C05:late-spawn:child-outlives-parent", fmt.Sprintf("after Shutdown returned the late child is alive: it answered %v", reply))
		}
	}
	var evs []string
	w.events.Range(func(k, v any) bool { evs = append(evs, fmt.Sprintf("%04d %s", v.(int64), k.(string))); return true })
	sort.Strings(evs)
	for i := range evs {
		evs[i] = evs[i][5:]
	}
	res.Order = strings.Join(evs, " < ")
	return
}

// accidentRec: wraps the guard's mailbox recipient and records what its handlers panicked with (diagnostics only)
type accidentRec struct {
	mailbox.Recipient
	mu      sync.Mutex
	reasons []string
}

func (a *accidentRec) ProcessAccident(reason prc.Message) {
	a.mu.Lock()
	a.reasons = append(a.reasons, fmt.Sprint(reason))
	a.mu.Unlock()
	a.Recipient.ProcessAccident(reason)
}

// ---------------------------------------------------------------- stress family (no forcing)

// obsKind: the unforced family cannot tell a late-spawn defect from the unsynchronised children map of DESIGN §7.4 (on the unchanged
// tree it dies of "concurrent map .." in most processes, and now and then the same race corrupts the guard's table silently —
// len(children) == 1 with no key left, or a sweep that skips entries — and Shutdown hangs): its hits are OBSERVATIONS, recorded in the
// evidence under another kind prefix, never reported as C05 violations; the forced family is the oracle
const obsKind = "observation:unforced-spawn-vs-shutdown:"

func runStress(c *Case) (res Result, viol []vh.Violation) {
	sig := map[string]string{"parent": "guard", "request": "stress"}
	add := func(kind, detail string) {
		for _, v := range viol {
			if v.Kind == kind {
				return
			}
		}
		viol = append(viol, vh.Violation{Kind: kind, Sig: sig, Detail: fmt.Sprintf("stress (spawns of top-level actors racing with Shutdown, no forcing; %d rounds x %d spawns): %s", c.Rounds, c.Spawns, detail)})
	}
	if runtime.GOMAXPROCS(0) < 4 {
		runtime.GOMAXPROCS(4)
	}
	rng := vh.NewRNG(c.Salt)
	bound := time.Duration(c.BoundMs) * time.Millisecond
	for r := 0; r < c.Rounds && len(viol) == 0; r++ {
		disp := &trackDisp{}
		vivid.VerifSetDefaultDispatcher(disp)
		sys := vivid.NewActorSystem(vivid.FunctionalActorSystemConfigurator(func(cfg *vivid.ActorSystemConfiguration) { cfg.WithLoggerProvider(silent) }))
		w := &world{c: c, sys: sys, disp: disp}
		w.waitFor(w.idle, bound)
		acc := &accidentRec{}
		sys.VerifWrapRecipient(sys.VerifGuardRef(), func(r mailbox.Recipient) mailbox.Recipient { acc.Recipient = r; return acc })
		terminated := make([]atomic.Bool, c.Spawns)
		refs := make([]vivid.ActorRef, c.Spawns)
		var called atomic.Bool
		var lateSpawns int
		spin := rng.Intn(4000)
		graceful := rng.Bool()
		done := make(chan struct{})
		go func() {
			defer close(done)
			for i := 0; i < c.Spawns; i++ {
				i := i
				refs[i] = sys.ActorOfF(func() vivid.Actor {
					return vivid.FunctionalActor(func(ctx vivid.ActorContext) {
						if m, ok := ctx.Message().(*vivid.OnTerminated); ok && m.TerminatedActor.Equal(ctx.Ref()) {
							terminated[i].Store(true)
						}
					})
				}, func(d *vivid.ActorDescriptor) { d.WithName(fmt.Sprintf("s%d", i)) })
				if called.Load() {
					lateSpawns++
				}
			}
		}()
		for k := 0; k < spin; k++ {
			runtime.Gosched()
		}
		shut := make(chan struct{})
		go func() { called.Store(true); sys.Shutdown(graceful); close(shut) }()
		<-done
		res.Spawned += c.Spawns
		res.LateSpawns += lateSpawns
		select {
		case <-shut:
			res.ShutdownReturned = true
		case <-time.After(bound):
			n := 0
			for i := range terminated {
				if !terminated[i].Load() {
					n++
				}
			}
			acc.mu.Lock()
			panics := fmt.Sprint(acc.reasons)
			acc.mu.Unlock()
			add(obsKind+"shutdown-hangs", fmt.Sprintf("round %d: Shutdown(%v) has not returned after %v; %d of %d spawned actors have not terminated; %s; panics inside the guard's handlers: %s", r, graceful, bound, n, c.Spawns, w.guardTable(), panics))
			continue
		}
		all := func() bool {
			for i := range terminated {
				if !terminated[i].Load() {
					return false
				}
			}
			return true
		}
		if !w.waitFor(all, bound) {
			var left []string
			for i := range terminated {
				if !terminated[i].Load() {
					left = append(left, refs[i].GetLogicalAddress())
				}
			}
			as, _ := w.registeredActors()
			add(obsKind+"actor-not-terminated", fmt.Sprintf("round %d: %v after Shutdown(%v) returned %d actor(s) whose ActorOf returned have not handled their OnTerminated: %v (registered actors: %v); %s", r, bound, graceful, len(left), left, as, w.guardTable()))
		}
	}
	return
}

func runCase(c *Case) (Result, []vh.Violation) {
	if c.Family == "stress" {
		return runStress(c)
	}
	return runForced(c)
}

// ---------------------------------------------------------------- driver

type outcome struct {
	out   childOut
	abort string // "", "concurrent-map", "timeout", "other"
	tail  string
	wall  time.Duration
}

func runInChild(c Case) outcome {
	b, _ := json.Marshal(c)
	limit := time.Duration(c.BoundMs)*time.Millisecond*6 + 20*time.Second
	ctx, cancel := context.WithTimeout(context.Background(), limit)
	defer cancel()
	cmd := exec.CommandContext(ctx, os.Args[0], "-child", string(b), "-out", "none")
	var so, se bytes.Buffer
	cmd.Stdout, cmd.Stderr = &so, &se
	t0 := time.Now()
	err := cmd.Run()
	o := outcome{wall: time.Since(t0)}
	lines := strings.Split(strings.TrimSpace(so.String()), "\n")
	if json.Unmarshal([]byte(lines[len(lines)-1]), &o.out) == nil && o.out.Case.Family != "" {
		return o
	}
	o.out.Case = c
	txt := se.String()
	if len(txt) > 1500 {
		txt = txt[:1500]
	}
	o.tail = txt
	switch {
	case strings.Contains(se.String(), "concurrent map"):
		o.abort = "concurrent-map"
	case ctx.Err() != nil:
		o.abort = "timeout"
	default:
		o.abort = "other"
		if err != nil {
			o.tail = err.Error() + ": " + o.tail
		}
	}
	return o
}

func forcedCases(rng *vh.RNG, tier string, bound int) []Case {
	var cs []Case
	reps := 1
	if tier == "thorough" {
		reps = 4
	}
	for rep := 0; rep < reps; rep++ {
		for _, parent := range []string{"guard", "actor"} {
			reqs := []string{"terminate", "graceful"}
			if parent == "actor" {
				reqs = append(reqs, "restart")
			}
			for _, req := range reqs {
				for others := 0; others <= 2; others++ {
					for _, win := range []string{"before", "configurator", "provide", "dispatcher", "mailbox"} {
						c := Case{Family: "forced", Parent: parent, Request: req, Others: others, Window: win, BoundMs: bound,
							Bystanders: rng.Intn(3), Grandchild: rng.Chance(1, 3), Mailbox: []string{"LockFree", "GlobalOrderedLockFree"}[rng.Intn(2)]}
						cs = append(cs, c)
					}
				}
			}
		}
	}
	return cs
}

func main() {
	child := flag.String("child", "", "run one case (JSON) in this process and print the outcome")
	stress := flag.Int("stress", -1, "number of stress processes (default: tier)")
	f := vh.ParseFlags()
	if *child != "" {
		var c Case
		if err := json.Unmarshal([]byte(*child), &c); err != nil {
			fmt.Fprintln(os.Stderr, err)
			os.Exit(2)
		}
		res, viol := runCase(&c)
		b, _ := json.Marshal(childOut{Case: c, Result: res, Violations: viol})
		fmt.Println(string(b))
		os.Exit(0) // never wait for what may hang
	}
	if f.Replay != "" {
		var c Case
		vh.LoadReplayCase(f.Replay, &c)
		if c.BoundMs == 0 {
			c.BoundMs = 4000
		}
		var o outcome
		for attempt := 0; attempt < 3; attempt++ {
			o = runInChild(c)
			if len(o.out.Violations) > 0 || o.abort == "" && c.Family == "forced" {
				break
			}
		}
		b, _ := json.Marshal(map[string]interface{}{"case": o.out.Case, "result": o.out.Result, "monitor": o.out.Violations, "abort": o.abort, "stderr": o.tail})
		fmt.Println(string(b))
		if len(o.out.Violations) > 0 {
			os.Exit(1)
		}
		return
	}
	out := vh.NewOut(f.Out, "spawn", "", "", "", f.Seed,
		"a spawn overlapping the termination / restart of its parent, interleaving FORCED on the real ActorSystem: parent = guard (ActorSystem.ActorOf "+
			"racing with Shutdown, graceful or not) or an ordinary actor whose helper goroutine calls ctx.ActorOf (terminated gracefully or not, or restarted "+
			"after a failure); 0-2 other children held inside OnTerminate keep the parent waiting; the window opened before ActorOf / in a descriptor "+
			"configurator / in ActorProvider.Provide / in the dispatcher provider / in the mailbox provider, closed only when the parent has taken the request "+
			"up and every mailbox is idle; every combination once per run (thorough: 4x) with random bystanders, grandchild, mailbox; plus a real-time "+
			"stress family (spawns racing with Shutdown, no forcing); each case in a child process; non-trivial = the window was reached (the parent was not "+
			"alive, or had been restarted, when ActorOf went on to Register)")
	rng := vh.NewRNG(f.Seed)
	bound := 4000
	nstress, rounds := 3, 40
	if f.Tier == "thorough" {
		bound, nstress, rounds = 10000, 12, 150
	}
	if *stress >= 0 {
		nstress = *stress
	}
	cases := forcedCases(rng, f.Tier, bound)
	if f.N > 0 && f.N < len(cases) {
		cases = cases[:f.N]
	}
	for i := 0; i < nstress; i++ {
		cases = append(cases, Case{Family: "stress", Rounds: rounds, Spawns: 24, Salt: rng.U64(), BoundMs: bound})
	}
	par := runtime.NumCPU() // the cases mostly wait
	if par < 4 {
		par = 4
	}
	if par > 16 {
		par = 16
	}
	outs := make([]outcome, len(cases))
	sem := make(chan struct{}, par)
	var wg sync.WaitGroup
	for i := range cases {
		wg.Add(1)
		sem <- struct{}{}
		go func(i int) {
			defer wg.Done()
			defer func() { <-sem }()
			outs[i] = runInChild(cases[i])
		}(i)
	}
	wg.Wait()
	for i, o := range outs {
		c := cases[i]
		viol := o.out.Violations
		switch o.abort {
		case "":
			out.Count("aborts", "none")
		case "concurrent-map":
			// the known observation of DESIGN §7.4 (ActorSystem.ActorOf writes the guard's children map on the caller's goroutine): not C05
			out.Count("aborts", "runtime-abort-concurrent-map-access (DESIGN 7.4, not a C05 hit)")
		case "timeout":
			out.Count("aborts", "case-process-timeout")
			viol = append(viol, vh.Violation{Kind: "C05:late-spawn:shutdown-hangs", Sig: map[string]string{"parent": c.Parent, "request": c.Request},
				Detail: "the process of the case did not finish at all: " + o.tail})
		default:
			out.Count("aborts", "other-abort")
			viol = append(viol, vh.Violation{Kind: "C05:late-spawn:abort", Sig: map[string]string{"parent": c.Parent, "request": c.Request},
				Detail: "the process of the case died: " + o.tail})
		}
		out.Count("family", c.Family)
		if c.Family == "forced" {
			out.Count("parent/request", c.Parent+"/"+c.Request)
			out.Count("window", c.Window)
			out.Count("other_children_held", fmt.Sprint(c.Others))
			out.Count("parent_when_actorof_went_on", o.out.Result.ParentAtContinue)
			out.Count("late_child_terminated", fmt.Sprint(o.out.Result.ChildTerminated))
			if c.Grandchild {
				out.Count("grandchild", "yes")
			}
		} else {
			out.Count("stress_spawns", vh.Bucket(o.out.Result.Spawned))
			out.Count("stress_actorof_returned_after_shutdown_was_called", vh.Bucket(o.out.Result.LateSpawns))
			switch {
			case o.abort == "concurrent-map":
				out.Count("stress_outcome", "runtime abort: concurrent map access (DESIGN 7.4)")
			case len(viol) > 0:
				out.Count("stress_outcome", "hang or actor left (observation: not told apart from the DESIGN 7.4 map race)")
			default:
				out.Count("stress_outcome", "every round completed")
			}
		}
		nontrivial := o.out.Result.WindowHit || (c.Family == "stress" && o.out.Result.LateSpawns > 0)
		out.Add(c, "", nontrivial, viol)
	}
	out.Close()
}
