// c16prio: correspondence harness (T1) for listings.PrioritySlice / SyncPrioritySlice against
// MV.C16.PrioModel (step by step from the observed state, because sort.Slice is not stable),
// plus a brute-force monitor: ordered by priority, and the multiset of items is what the operation implies.
package main

import (
	"encoding/json"
	"fmt"
	"math"
	"os"
	"sort"

	"github.com/kercylan98/minotaur/toolkit/collection/listings"
	"verif/harness/vh"
)

type Op struct {
	K  string `json:"k"` // app apps appopt get getv getp set setv setp len clear slice range actdrop actrev actnil
	I  int64  `json:"i,omitempty"`
	V  int64  `json:"v,omitempty"`
	P  int64  `json:"p,omitempty"`
	NP bool   `json:"np,omitempty"` // appopt: no priority argument
	// set: called with the priority the element has at that moment (Set(i, v, GetPriority(i))); P is filled in when the
	// case runs
	Same bool    `json:"same,omitempty"`
	Vs   []int64 `json:"vs,omitempty"`
}
type Res struct {
	K   string     `json:"k"` // unit pair val len list panic
	V   int64      `json:"v,omitempty"`
	P   int64      `json:"p,omitempty"`
	L   []int64    `json:"l,omitempty"`
	St  [][2]int64 `json:"st"` // state after the operation: (value, priority) in slice order
	Msg string     `json:"msg,omitempty"`
}
type Case struct {
	Impl string `json:"impl"` // plain sync
	Cap  int    `json:"cap"`  // -1: constructor without arguments; else NewPrioritySlice(0, cap)
	Ops  []Op   `json:"ops"`
	Out  []Res  `json:"out"`
}

// the common surface of the two types, through small adapters (the item type is unexported)
type api struct {
	app     func(v int64, p int)
	apps    func(p int, vs ...int64)
	appopt  func(v int64, p ...int)
	get     func(i int) (int64, int)
	getv    func(i int) int64
	getp    func(i int) int
	set     func(i int, v int64, p int)
	setv    func(i int, v int64)
	setp    func(i int, p int)
	length  func() int
	clear   func()
	slice   func() []int64
	rangev  func(func(int, int64) bool)
	dump    func() [][2]int64
	actdrop func()
	actrev  func()
	actnil  func()
}

// generic so that the unexported item type is inferred at the call site
func dropFirst[T any](items []T) []T { return items[1:] }
func reversed[T any](items []T) []T {
	r := make([]T, len(items))
	for i := range items {
		r[len(items)-1-i] = items[i]
	}
	return r
}
func retNil[T any](items []T) []T { return nil }

func newAPI(c *Case) api {
	if c.Impl == "sync" {
		var s *listings.SyncPrioritySlice[int64]
		if c.Cap < 0 {
			s = listings.NewSyncPrioritySlice[int64]()
		} else {
			s = listings.NewSyncPrioritySlice[int64](0, c.Cap)
		}
		return api{s.Append, s.Appends, s.AppendByOptionalPriority, s.Get, s.GetValue, s.GetPriority, s.Set, s.SetValue, s.SetPriority, s.Len, s.Clear, s.Slice,
			s.RangeValue,
			func() [][2]int64 {
				var vals []int64
				var out [][2]int64
				s.RangeValue(func(_ int, v int64) bool { vals = append(vals, v); return true })
				i := 0
				s.RangePriority(func(_ int, p int) bool { out = append(out, [2]int64{vals[i], int64(p)}); i++; return true })
				return out
			},
			func() { s.Action(dropFirst) }, func() { s.Action(reversed) }, func() { s.Action(retNil) }}
	}
	var s *listings.PrioritySlice[int64]
	if c.Cap < 0 {
		s = listings.NewPrioritySlice[int64]()
	} else {
		s = listings.NewPrioritySlice[int64](0, c.Cap)
	}
	return api{s.Append, s.Appends, s.AppendByOptionalPriority, s.Get, s.GetValue, s.GetPriority, s.Set, s.SetValue, s.SetPriority, s.Len, s.Clear, s.Slice,
		s.RangeValue,
		func() [][2]int64 {
			var vals []int64
			var out [][2]int64
			s.RangeValue(func(_ int, v int64) bool { vals = append(vals, v); return true })
			i := 0
			s.RangePriority(func(_ int, p int) bool { out = append(out, [2]int64{vals[i], int64(p)}); i++; return true })
			return out
		},
		func() { s.Action(dropFirst) }, func() { s.Action(reversed) }, func() { s.Action(retNil) }}
}

func apply(a api, o Op) (res Res) {
	defer func() {
		if e := recover(); e != nil {
			res = Res{K: "panic", Msg: fmt.Sprint(e)}
		}
	}()
	switch o.K {
	case "app":
		a.app(o.V, int(o.P))
	case "apps":
		a.apps(int(o.P), o.Vs...)
	case "appopt":
		if o.NP {
			a.appopt(o.V)
		} else {
			a.appopt(o.V, int(o.P))
		}
	case "get":
		v, p := a.get(int(o.I))
		return Res{K: "pair", V: v, P: int64(p)}
	case "getv":
		return Res{K: "val", V: a.getv(int(o.I))}
	case "getp":
		return Res{K: "val", V: int64(a.getp(int(o.I)))}
	case "set":
		a.set(int(o.I), o.V, int(o.P))
	case "setv":
		a.setv(int(o.I), o.V)
	case "setp":
		a.setp(int(o.I), int(o.P))
	case "len":
		return Res{K: "len", V: int64(a.length())}
	case "clear":
		a.clear()
	case "slice":
		return Res{K: "list", L: a.slice()}
	case "range":
		var l []int64
		n := 0
		a.rangev(func(_ int, v int64) bool { l = append(l, v); n++; return !(o.I > 0 && int64(n) == o.I) })
		return Res{K: "list", L: l}
	case "actdrop":
		a.actdrop()
	case "actrev":
		a.actrev()
	case "actnil":
		a.actnil()
	default:
		panic("bad op " + o.K)
	}
	return Res{K: "unit"}
}

func runImpl(c *Case) {
	a := newAPI(c)
	c.Out = c.Out[:0]
	for i, o := range c.Ops {
		if o.K == "set" && o.Same {
			func() {
				defer func() { recover() }()
				c.Ops[i].P = int64(a.getp(int(o.I)))
			}()
			o = c.Ops[i]
		}
		r := apply(a, o)
		r.St = a.dump()
		c.Out = append(c.Out, r)
	}
}

var fnName = map[string]string{"app": "Append", "apps": "Appends", "appopt": "AppendByOptionalPriority", "get": "Get", "getv": "GetValue", "getp": "GetPriority",
	"set": "Set", "setv": "SetValue", "setp": "SetPriority", "len": "Len", "clear": "Clear", "slice": "Slice", "range": "RangeValue", "actdrop": "Action", "actrev": "Action", "actnil": "Action"}

func multiset(st [][2]int64) [][2]int64 {
	m := append([][2]int64(nil), st...)
	sort.Slice(m, func(i, j int) bool {
		if m[i][1] != m[j][1] {
			return m[i][1] < m[j][1]
		}
		return m[i][0] < m[j][0]
	})
	return m
}

// monitor: after every operation the slice is ordered by priority and holds exactly the items implied by
// the previous (observed) contents and the operation; reads return what is at that index.
func monitor(c *Case) (viol []vh.Violation) {
	typ := "PrioritySlice"
	if c.Impl == "sync" {
		typ = "SyncPrioritySlice"
	}
	add := func(i int, class, detail string) {
		if len(viol) < 3 {
			o := c.Ops[i]
			viol = append(viol, vh.Violation{Kind: "prio:" + typ + "." + fnName[o.K] + ":" + class,
				Detail: fmt.Sprintf("op #%d %s(i=%d,v=%d,p=%d,vs=%v): %s", i, o.K, o.I, o.V, o.P, o.Vs, detail),
				Sig:    map[string]string{"fn": fnName[o.K], "class": class, "type": typ}})
		}
	}
	var prev [][2]int64
	for i, o := range c.Ops {
		got := c.Out[i]
		inr := o.I >= 0 && o.I < int64(len(prev))
		needsIndex := map[string]bool{"get": true, "getv": true, "getp": true, "set": true, "setv": true, "setp": true}[o.K]
		if got.K == "panic" {
			if !(needsIndex && !inr) {
				add(i, "crash", got.Msg)
				return
			}
		}
		want := append([][2]int64(nil), prev...)
		switch o.K {
		case "app":
			want = append(want, [2]int64{o.V, o.P})
		case "apps":
			for _, v := range o.Vs {
				want = append(want, [2]int64{v, o.P})
			}
		case "appopt":
			p := o.P
			if o.NP {
				p = 0
			}
			want = append(want, [2]int64{o.V, p})
		case "set":
			if inr {
				want[o.I] = [2]int64{o.V, o.P}
			}
		case "setv":
			if inr {
				want[o.I] = [2]int64{o.V, want[o.I][1]}
			}
		case "setp":
			if inr {
				want[o.I] = [2]int64{want[o.I][0], o.P}
			}
		case "clear":
			want = nil
		case "actdrop":
			if len(want) > 0 {
				want = want[1:]
			}
		case "get":
			if inr && (got.V != prev[o.I][0] || got.P != prev[o.I][1]) {
				add(i, "wrong-element", fmt.Sprintf("slice %v, got (%d,%d)", prev, got.V, got.P))
			}
		case "getv":
			if inr && got.V != prev[o.I][0] {
				add(i, "wrong-element", fmt.Sprintf("slice %v, got %d", prev, got.V))
			}
		case "getp":
			if inr && got.V != prev[o.I][1] {
				add(i, "wrong-element", fmt.Sprintf("slice %v, got %d", prev, got.V))
			}
		case "len":
			if got.V != int64(len(prev)) {
				add(i, "wrong-length", fmt.Sprintf("slice %v, Len=%d", prev, got.V))
			}
		case "slice", "range":
			n := len(prev)
			if o.K == "range" && o.I > 0 && int(o.I) < n {
				n = int(o.I)
			}
			ok := len(got.L) == n
			for j := 0; ok && j < n; j++ {
				ok = got.L[j] == prev[j][0]
			}
			if !ok {
				add(i, "wrong-elements", fmt.Sprintf("slice %v, got %v", prev, got.L))
			}
		}
		for j := 1; j < len(got.St); j++ {
			if got.St[j-1][1] > got.St[j][1] {
				add(i, "not-ordered-by-priority", fmt.Sprintf("state %v", got.St))
				break
			}
		}
		a, b := multiset(want), multiset(got.St)
		same := len(a) == len(b)
		for j := 0; same && j < len(a); j++ {
			same = a[j] == b[j]
		}
		if !same {
			add(i, "lost-or-invented-element", fmt.Sprintf("expected items %v, state %v", a, got.St))
		}
		prev = got.St
	}
	return
}

func coqItems(st [][2]int64) string {
	it := make([]string, len(st))
	for i, x := range st {
		it[i] = vh.Pair(vh.Z(x[0]), vh.Z(x[1]))
	}
	return vh.List(it)
}

func coqOp(o Op) string {
	switch o.K {
	case "app":
		return vh.App("Append", vh.Z(o.V), vh.Z(o.P))
	case "apps":
		return vh.App("Appends", vh.Z(o.P), vh.ListZ(o.Vs))
	case "appopt":
		if o.NP {
			return vh.App("AppendOpt", vh.Z(o.V), "None")
		}
		return vh.App("AppendOpt", vh.Z(o.V), vh.Some(vh.Z(o.P)))
	case "get":
		return vh.App("Get", vh.Z(o.I))
	case "getv":
		return vh.App("GetValue", vh.Z(o.I))
	case "getp":
		return vh.App("GetPriority", vh.Z(o.I))
	case "set":
		return vh.App("Set_", vh.Z(o.I), vh.Z(o.V), vh.Z(o.P))
	case "setv":
		return vh.App("SetValue", vh.Z(o.I), vh.Z(o.V))
	case "setp":
		return vh.App("SetPriority", vh.Z(o.I), vh.Z(o.P))
	case "len":
		return "Len"
	case "clear":
		return "Clear"
	case "slice":
		return "Slice"
	case "range":
		return vh.App("RangeStop", vh.Nat(int(o.I)))
	case "actdrop":
		return "ActDropFirst"
	case "actrev":
		return "ActReverse"
	case "actnil":
		return "ActNil"
	}
	panic(o.K)
}

func coqRes(r Res) string {
	switch r.K {
	case "unit":
		return "OUnit"
	case "pair":
		return vh.App("OPair", vh.Z(r.V), vh.Z(r.P))
	case "val":
		return vh.App("OVal", vh.Z(r.V))
	case "len":
		return vh.App("OLen", vh.Nat(int(r.V)))
	case "list":
		return vh.App("OList", vh.ListZ(r.L))
	case "panic":
		return "OPanic"
	}
	return "OBad"
}

func coqCase(id int, c *Case) string {
	st := make([]string, len(c.Ops))
	for i, o := range c.Ops {
		st[i] = fmt.Sprintf("(%s, %s, %s)", coqOp(o), coqRes(c.Out[i]), coqItems(c.Out[i].St))
	}
	return fmt.Sprintf("{| cid := %d; csteps := %s |}", id, vh.List(st))
}

func genCase(rng *vh.RNG, next *int64) Case {
	c := Case{Impl: "plain", Cap: -1}
	if rng.Bool() {
		c.Impl = "sync"
	}
	if rng.Chance(1, 4) {
		c.Cap = rng.Intn(5)
	}
	pdom := []int{1, 2, 2, 3, 3, 1000}[rng.Intn(6)]
	extreme := rng.Chance(1, 8) // priorities at the ends of the int range (sentinels such as "always last"): differences overflow
	prio := func() int64 {
		if extreme && rng.Chance(1, 2) {
			return []int64{math.MaxInt64, math.MaxInt64 - 1, math.MinInt64, math.MinInt64 + 1, math.MaxInt64 / 2, math.MinInt64 / 2}[rng.Intn(6)]
		}
		p := int64(rng.Intn(pdom))
		if rng.Chance(1, 6) {
			p = -p
		}
		return p
	}
	size := 0
	malformed := rng.Chance(1, 6)
	idx := func() int64 {
		if malformed && rng.Chance(1, 3) {
			return []int64{-1, int64(size), int64(size + 1)}[rng.Intn(3)]
		}
		if size == 0 {
			return -100
		}
		return int64(rng.Intn(size))
	}
	val := func() int64 { *next++; return *next }
	n := rng.Range(1, 30)
	for i := 0; i < n; i++ {
		x := rng.Intn(100)
		switch {
		case x < 28:
			c.Ops = append(c.Ops, Op{K: "app", V: val(), P: prio()})
			size++
		case x < 34:
			k := rng.Range(0, 3)
			var vs []int64
			for j := 0; j < k; j++ {
				vs = append(vs, val())
			}
			c.Ops = append(c.Ops, Op{K: "apps", P: prio(), Vs: vs})
			size += k
		case x < 38:
			np := rng.Bool()
			c.Ops = append(c.Ops, Op{K: "appopt", V: val(), P: prio(), NP: np})
			size++
		case x < 70:
			j := idx()
			if j == -100 {
				continue
			}
			k := []string{"get", "getv", "getp", "set", "set", "setv", "setp", "setp"}[rng.Intn(8)]
			o := Op{K: k, I: j, V: val(), P: prio()}
			if k == "set" && rng.Chance(1, 3) {
				// replace the element under its present priority, then (mostly) re-prioritise that very element: the
				// second call meets an item that no sort has seen yet
				o.Same = true
				c.Ops = append(c.Ops, o)
				if rng.Chance(2, 3) {
					c.Ops = append(c.Ops, Op{K: "setp", I: j, P: prio()})
					i++
				}
				continue
			}
			c.Ops = append(c.Ops, o)
		case x < 74:
			c.Ops = append(c.Ops, Op{K: "len"})
		case x < 77:
			c.Ops = append(c.Ops, Op{K: "clear"})
			size = 0
		case x < 84:
			c.Ops = append(c.Ops, Op{K: "slice"})
		case x < 88:
			c.Ops = append(c.Ops, Op{K: "range", I: int64(rng.Range(0, 3))})
		case x < 93:
			c.Ops = append(c.Ops, Op{K: "actdrop"})
			if size > 0 {
				size--
			}
		case x < 97:
			c.Ops = append(c.Ops, Op{K: "actrev"})
		default:
			c.Ops = append(c.Ops, Op{K: "actnil"})
		}
	}
	return c
}

func record(out *vh.Out, c *Case) {
	runImpl(c)
	v := monitor(c)
	ties, resorts, oob := 0, 0, 0
	var prev [][2]int64
	for i, o := range c.Ops {
		st := c.Out[i].St
		seen := map[int64]int{}
		for _, it := range st {
			seen[it[1]]++
		}
		for _, k := range seen {
			if k > 1 {
				ties++
				break
			}
		}
		if (o.K == "setp" || o.K == "set") && o.I >= 0 && int(o.I) < len(prev) && prev[o.I][1] != o.P {
			resorts++
		}
		if c.Out[i].K == "panic" {
			oob++
		}
		prev = st
	}
	if oob > 0 {
		out.Malformed()
	}
	nt := ties > 0 && resorts > 0
	out.Count("ops_len", vh.Bucket(len(c.Ops)))
	out.Count("impl", c.Impl)
	out.Count("cap", fmt.Sprint(c.Cap))
	out.Count("steps_with_equal_priorities", vh.Bucket(ties))
	out.Count("priority_changes", vh.Bucket(resorts))
	out.Count("index_panics", vh.Bucket(oob))
	for _, o := range c.Ops {
		out.Count("op_mix", o.K)
	}
	out.Add(c, coqCase(out.N(), c), nt, v)
}

func corpus() []Case {
	var cs []Case
	for _, impl := range []string{"plain", "sync"} {
		cs = append(cs,
			Case{Impl: impl, Cap: -1, Ops: []Op{{K: "app", V: 1, P: 2}, {K: "app", V: 2, P: 1}, {K: "app", V: 3, P: 2}, {K: "apps", P: 1, Vs: []int64{4, 5}}, {K: "slice"},
				{K: "setp", I: 0, P: 9}, {K: "set", I: 1, V: 7, P: 2}, {K: "set", I: 0, V: 8, P: 1}, {K: "setv", I: 2, V: 6}, {K: "get", I: 4}, {K: "getp", I: 0}, {K: "range", I: 2},
				{K: "actdrop"}, {K: "actrev"}, {K: "actnil"}, {K: "len"}, {K: "clear"}, {K: "slice"}, {K: "actdrop"}, {K: "appopt", V: 9, NP: true}, {K: "appopt", V: 10, P: -1}, {K: "slice"}}},
			Case{Impl: impl, Cap: 2, Ops: []Op{{K: "get", I: 0}, {K: "setp", I: -1, P: 1}, {K: "apps", P: 3}, {K: "app", V: 1, P: 0}, {K: "set", I: 1, V: 2, P: 2}, {K: "getv", I: 0}}},
		)
	}
	return cs
}

func main() {
	f := vh.ParseFlags()
	if f.Replay != "" {
		var c Case
		vh.LoadReplayCase(f.Replay, &c)
		want := append([]Res(nil), c.Out...)
		runImpl(&c)
		v := monitor(&c)
		b, _ := json.Marshal(map[string]interface{}{"case": c, "recorded_impl": want, "monitor": v})
		fmt.Println(string(b))
		if len(v) > 0 {
			os.Exit(1)
		}
		return
	}
	out := vh.NewOut(f.Out, "prio", "From MV Require Import Lib.ListX C16.PrioModel C16.PrioRun.", "case", "mismatches", f.Seed,
		"random histories (1..30 ops) on PrioritySlice or SyncPrioritySlice (no constructor argument, or (0, cap 0..4)): Append/Appends/AppendByOptionalPriority/Get/GetValue/GetPriority/Set/SetValue/SetPriority/Len/Clear/Slice/RangeValue (stopped after 0..3)/Action (drop first, reversed copy, nil) over priority domains {1,2,3,1000, some negative}; the full (value,priority) state is recorded after every operation; a malformed stream (1 case in 6) uses indices -1, len, len+1; non-trivial = a priority change (Set/SetPriority) in a history where some state holds equal priorities")
	out.PerShard = 100
	rng := vh.NewRNG(f.Seed)
	var next int64 = 100
	for _, c := range corpus() {
		c := c
		record(out, &c)
	}
	n := f.N
	if n == 0 {
		n = 700
		if f.Tier == "thorough" {
			n = 12000
		}
	}
	for i := 0; i < n; i++ {
		cr, _ := rng.Derive()
		c := genCase(cr, &next)
		record(out, &c)
	}
	out.Close()
}
