// c15ring: correspondence harness (T1) for toolkit/buffer.Ring against MV.C15.RingModel.
package main

import (
	"encoding/json"
	"errors"
	"fmt"
	"os"
	"strings"

	"github.com/kercylan98/minotaur/toolkit/buffer"
	"verif/harness/vh"
)

type Op struct {
	K string `json:"k"` // W R RM RA P E C L X(reset)
	V int64  `json:"v,omitempty"`
}
type Res struct {
	K   string  `json:"k"`             // unit val multi list bool nat
	Ok  bool    `json:"ok,omitempty"`  // val: has value; multi: err==nil
	V   int64   `json:"v,omitempty"`   // val / nat
	L   []int64 `json:"l,omitempty"`   // multi / list
	B   bool    `json:"b,omitempty"`   // bool
	Err string  `json:"err,omitempty"` // unexpected error text / panic
}
type Case struct {
	Init int64 `json:"init"` // -100 = NewRing() without argument
	Ops  []Op  `json:"ops"`
	Impl []Res `json:"impl"`
}

const noArg = -100

func runImpl(c *Case) {
	var r *buffer.Ring[int64]
	if c.Init == noArg {
		r = buffer.NewRing[int64]()
	} else {
		r = buffer.NewRing[int64](int(c.Init))
	}
	c.Impl = c.Impl[:0]
	for _, o := range c.Ops {
		c.Impl = append(c.Impl, apply(r, o))
	}
}

func apply(r *buffer.Ring[int64], o Op) (res Res) {
	defer func() {
		if e := recover(); e != nil {
			res = Res{K: "panic", Err: fmt.Sprint(e)}
		}
	}()
	switch o.K {
	case "W":
		r.Write(o.V)
		return Res{K: "unit"}
	case "R":
		v, err := r.Read()
		if err != nil {
			if !errors.Is(err, buffer.ErrBufferIsEmpty) {
				return Res{K: "val", Err: err.Error()}
			}
			return Res{K: "val"}
		}
		return Res{K: "val", Ok: true, V: v}
	case "RM":
		l, err := r.ReadMulti(int(o.V))
		if err != nil {
			if !errors.Is(err, buffer.ErrBufferIsEmpty) {
				return Res{K: "multi", Err: err.Error()}
			}
			return Res{K: "multi", Ok: false, L: l}
		}
		return Res{K: "multi", Ok: true, L: l}
	case "RA":
		return Res{K: "list", L: r.ReadAll()}
	case "P":
		v, err := r.Peek()
		if err != nil {
			return Res{K: "val"}
		}
		return Res{K: "val", Ok: true, V: v}
	case "E":
		return Res{K: "bool", B: r.IsEmpty()}
	case "C":
		return Res{K: "nat", V: int64(r.Cap())}
	case "L":
		return Res{K: "nat", V: int64(r.Len())}
	case "X":
		r.Reset()
		return Res{K: "unit"}
	}
	panic("bad op " + o.K)
}

// ---- property monitor: a plain FIFO slice (search oracle, independent of the Coq model)
func monitor(c *Case) (viol []vh.Violation) {
	var q []int64
	add := func(i int, class, detail string) {
		if len(viol) < 3 {
			viol = append(viol, vh.Violation{Kind: "ring:" + c.Ops[i].K + ":" + class,
				Detail: fmt.Sprintf("op #%d %s(%d): %s", i, c.Ops[i].K, c.Ops[i].V, detail)})
		}
	}
	eq := func(a, b []int64) bool {
		if len(a) != len(b) {
			return false
		}
		for i := range a {
			if a[i] != b[i] {
				return false
			}
		}
		return true
	}
	for i, o := range c.Ops {
		got := c.Impl[i]
		if got.K == "panic" || got.Err != "" {
			add(i, "crash", got.Err)
			return
		}
		switch o.K {
		case "W":
			q = append(q, o.V)
		case "R":
			if len(q) == 0 {
				if got.Ok {
					add(i, "invented", fmt.Sprintf("empty but returned %d", got.V))
				}
			} else {
				if !got.Ok {
					add(i, "lost", fmt.Sprintf("reported empty, contents %v", q))
				} else if got.V != q[0] {
					add(i, "wrong-element", fmt.Sprintf("expected %d got %d", q[0], got.V))
				}
				q = q[1:]
			}
		case "RM":
			if o.V <= 0 {
				if len(got.L) != 0 || !got.Ok {
					add(i, "nonpositive-count", fmt.Sprintf("got %v ok=%v", got.L, got.Ok))
				}
			} else if len(q) == 0 {
				if got.Ok || len(got.L) != 0 {
					add(i, "invented", fmt.Sprintf("empty but returned %v", got.L))
				}
			} else {
				n := int(o.V)
				if n > len(q) {
					n = len(q)
				}
				if !got.Ok || !eq(got.L, q[:n]) {
					add(i, "wrong-elements", fmt.Sprintf("expected %v got %v ok=%v", q[:n], got.L, got.Ok))
				}
				q = q[n:]
			}
		case "RA":
			if !eq(got.L, q) {
				add(i, "wrong-elements", fmt.Sprintf("expected %v got %v", q, got.L))
			}
			q = nil
		case "P":
			if len(q) == 0 {
				if got.Ok {
					add(i, "invented", "peek on empty returned a value")
				}
			} else if !got.Ok || got.V != q[0] {
				add(i, "wrong-element", fmt.Sprintf("expected %d got %d ok=%v", q[0], got.V, got.Ok))
			}
		case "E":
			if got.B != (len(q) == 0) {
				add(i, "wrong-emptiness", fmt.Sprintf("contents %v, IsEmpty=%v", q, got.B))
			}
		case "L":
			if int(got.V) != len(q) {
				add(i, "wrong-length", fmt.Sprintf("contents %v, Len=%d", q, got.V))
			}
		case "C":
			if int(got.V) <= len(q) {
				add(i, "cap-not-above-len", fmt.Sprintf("Cap=%d len=%d", got.V, len(q)))
			}
		case "X":
			q = nil
		}
	}
	return
}

// shadow cursors (intended arithmetic) to decide non-triviality and report the distribution
type shape struct{ wraps, grows, bulkWrapped, partialBulk, bigGrows, bigGrowsWrapped int }

func analyse(c *Case) shape {
	init := int(c.Init)
	if init < 2 {
		init = 2
	}
	size, r, w := init, 0, 0
	var s shape
	length := func() int { return (w - r + size) % size }
	for _, o := range c.Ops {
		switch o.K {
		case "W":
			w++
			if w == size {
				w = 0
				s.wraps++
			}
			if w == r {
				n := size
				if size < 1024 {
					size *= 2
				} else {
					size += size / 4
					s.bigGrows++
					if r > 0 {
						s.bigGrowsWrapped++
					}
				}
				r, w = 0, n
				s.grows++
			}
		case "R":
			if r != w {
				r = (r + 1) % size
			}
		case "RM":
			if o.V > 0 && r != w {
				n := int(o.V)
				l := length()
				if w < r {
					s.bulkWrapped++
					if n < l {
						s.partialBulk++
					}
				}
				if n > l {
					n = l
				}
				r = (r + n) % size
			}
		case "RA":
			r, w = 0, 0
		case "X":
			r, w, size = 0, 0, init
		}
	}
	return s
}

func coqOp(o Op) string {
	switch o.K {
	case "W":
		return vh.App("Write", vh.Z(o.V))
	case "R":
		return "Read"
	case "RM":
		return vh.App("ReadMulti", vh.Z(o.V))
	case "RA":
		return "ReadAll"
	case "P":
		return "Peek"
	case "E":
		return "IsEmpty"
	case "C":
		return "Cap"
	case "L":
		return "Len"
	case "X":
		return "Reset"
	}
	panic(o.K)
}
func coqRes(r Res) string {
	switch r.K {
	case "unit":
		return "OUnit"
	case "val":
		if r.Ok {
			return vh.App("OVal", vh.Some(vh.Z(r.V)))
		}
		return "(OVal None)"
	case "multi":
		return vh.App("OMulti", vh.Bool(!r.Ok), vh.ListZ(r.L))
	case "list":
		return vh.App("OList", vh.ListZ(r.L))
	case "bool":
		return vh.App("OBool", vh.Bool(r.B))
	case "nat":
		if r.V < 0 {
			return "OBad"
		}
		return vh.App("ONat", vh.Nat(int(r.V)))
	}
	return "OBad" // panic/err: never equal to a model output
}
func coqCase(id int, c *Case) string {
	// runs of >= 8 writes of consecutive values that all returned normally are emitted as (writes start n) / (units n)
	// (RingRun.v): the scripts of the large-capacity family hold thousands of writes
	var ops, rs []string
	var po, pr []string
	flush := func() {
		if len(po) > 0 {
			ops, rs = append(ops, vh.List(po)), append(rs, vh.List(pr))
			po, pr = nil, nil
		}
	}
	for i := 0; i < len(c.Ops); {
		j := i
		for j < len(c.Ops) && c.Ops[j].K == "W" && c.Impl[j].K == "unit" && c.Ops[j].V == c.Ops[i].V+int64(j-i) {
			j++
		}
		if j-i >= 8 {
			flush()
			ops = append(ops, fmt.Sprintf("(writes %s %d)", vh.Z(c.Ops[i].V), j-i))
			rs = append(rs, fmt.Sprintf("(units %d)", j-i))
			i = j
			continue
		}
		po, pr = append(po, coqOp(c.Ops[i])), append(pr, coqRes(c.Impl[i]))
		i++
	}
	flush()
	if len(ops) == 0 {
		ops, rs = []string{"[]"}, []string{"[]"}
	}
	init := c.Init
	if init == noArg {
		init = 0
	}
	return fmt.Sprintf("{| cid := %d; cinit := %s; cops := %s; cimpl := %s |}", id, vh.Z(init),
		"("+strings.Join(ops, " ++ ")+")", "("+strings.Join(rs, " ++ ")+")")
}

// genLarge: the +25% growth regime (capacity >= 1024): phases of bulk writes and bulk reads that move the read cursor far into
// the array, wrap the contents around its end and fill it
func genLarge(rng *vh.RNG, next *int64) Case {
	var c Case
	switch rng.Intn(4) {
	case 0:
		c.Init = 1024
	case 1:
		c.Init = int64(rng.Range(500, 1100))
	case 2:
		c.Init = int64(rng.Range(1024, 1400))
	default:
		c.Init = int64(rng.Range(256, 600)) // grows by doubling first
	}
	size := int(c.Init)
	held := 0
	wn := func(n int) {
		for k := 0; k < n; k++ {
			*next++
			c.Ops = append(c.Ops, Op{K: "W", V: *next})
		}
		held += n
		for held >= size {
			if size < 1024 {
				size *= 2
			} else {
				size += size / 4
			}
		}
	}
	rm := func(n int) {
		c.Ops = append(c.Ops, Op{K: "RM", V: int64(n)})
		if n > held {
			n = held
		}
		held -= n
	}
	phases := rng.Range(4, 9)
	for p := 0; p < phases && len(c.Ops) < 4200; p++ {
		switch rng.Intn(10) {
		case 0, 1, 2, 3: // fill up to (or just beyond) the capacity
			room := size - held
			wn(rng.Range(room-3, room+2))
		case 4, 5:
			wn(rng.Range(1, size/2))
		case 6, 7, 8: // move the read cursor
			if held > 0 {
				rm(rng.Range(1, held))
			} else {
				wn(rng.Range(size/3, size-1))
			}
		case 9:
			c.Ops = append(c.Ops, Op{K: "R"}, Op{K: "L"}, Op{K: "C"})
			if held > 0 {
				held--
			}
			if rng.Bool() {
				// Reset after the ring has (possibly) grown: back to the initial size, then it fills and grows again with the
				// read cursor somewhere in the middle
				c.Ops = append(c.Ops, Op{K: "X"})
				size, held = int(c.Init), 0
				wn(rng.Range(size/3, size-1))
				rm(rng.Range(size/4, size/3+1))
				wn(size - held + rng.Range(0, 3))
			}
		}
	}
	c.Ops = append(c.Ops, Op{K: "L"}, Op{K: "RM", V: int64(rng.Range(1, 900))}, Op{K: "RA"}, Op{K: "L"})
	return c
}

func genCase(rng *vh.RNG, next *int64) Case {
	var c Case
	switch rng.Intn(12) {
	case 0:
		c.Init = noArg
	case 1:
		c.Init = int64(rng.Range(-2, 1))
	case 2:
		c.Init = int64(rng.Range(10, 40))
	default:
		c.Init = int64(rng.Range(2, 9))
	}
	n := rng.Range(1, 40)
	writeBias := rng.Range(2, 7) // out of 10; changes by phase
	for i := 0; i < n; i++ {
		if rng.Chance(1, 8) {
			writeBias = rng.Range(1, 9)
		}
		if rng.Intn(10) < writeBias {
			*next++
			c.Ops = append(c.Ops, Op{K: "W", V: *next})
			continue
		}
		switch rng.Intn(16) {
		case 0, 1, 2, 3:
			c.Ops = append(c.Ops, Op{K: "R"})
		case 4, 5, 6, 7, 8:
			c.Ops = append(c.Ops, Op{K: "RM", V: int64(rng.Range(-1, 6))})
		case 9:
			c.Ops = append(c.Ops, Op{K: "RA"})
		case 10:
			c.Ops = append(c.Ops, Op{K: "P"})
		case 11:
			c.Ops = append(c.Ops, Op{K: "E"})
		case 12:
			c.Ops = append(c.Ops, Op{K: "C"})
		case 13, 14:
			c.Ops = append(c.Ops, Op{K: "L"})
		case 15:
			c.Ops = append(c.Ops, Op{K: "X"})
		}
	}
	return c
}

func record(out *vh.Out, c *Case) {
	runImpl(c)
	v := monitor(c)
	s := analyse(c)
	nt := s.partialBulk > 0 || s.grows > 0
	out.Count("grows_in_the_25_percent_regime", vh.Bucket(s.bigGrows))
	out.Count("grows_in_the_25_percent_regime_with_wrapped_contents", vh.Bucket(s.bigGrowsWrapped))
	out.Count("ops_len", vh.Bucket(len(c.Ops)))
	out.Count("init", fmt.Sprint(c.Init))
	out.Count("wraps", vh.Bucket(s.wraps))
	out.Count("grows", vh.Bucket(s.grows))
	out.Count("bulk_reads_wrapped", vh.Bucket(s.bulkWrapped))
	out.Count("partial_bulk_wrapped", vh.Bucket(s.partialBulk))
	for _, o := range c.Ops {
		out.Count("op_mix", o.K)
	}
	out.Add(c, coqCase(out.N(), c), nt, v)
}

func main() {
	f := vh.ParseFlags()
	if f.Replay != "" {
		var c Case
		vh.LoadReplayCase(f.Replay, &c)
		want := append([]Res(nil), c.Impl...)
		runImpl(&c)
		v := monitor(&c)
		b, _ := json.Marshal(map[string]interface{}{"case": c, "recorded_impl": want, "monitor": v})
		fmt.Println(string(b))
		if len(v) > 0 {
			os.Exit(1)
		}
		return
	}
	out := vh.NewOut(f.Out, "ring", "From MV Require Import Lib.ListX C15.RingModel C15.RingRun.", "case", "mismatches", f.Seed,
		"random op sequences (len 1..40) over initial capacities {none,-2..1,2..9,10..40}; n/60 scripts of the large-capacity family (initial capacity 256..1400, phases of bulk writes / bulk reads that wrap and fill the array: growth by +25%); thorough adds every sequence of length<=5 over {W,R,RM1,RM2,RM3,RA,P,L,X} for capacities 2..4; non-trivial = at least one grow, or a bulk read smaller than the contents issued while the ring is wrapped; distinct by hash of (init, ops)")
	rng := vh.NewRNG(f.Seed)
	var next int64
	// corpus: minimised historical failures run first
	for _, c := range corpus() {
		c := c
		record(out, &c)
	}
	n := f.N
	if n == 0 {
		n = 3000
		if f.Tier == "thorough" {
			n = 40000
		}
	}
	for i := 0; i < n; i++ {
		cr, _ := rng.Derive()
		c := genCase(cr, &next)
		record(out, &c)
	}
	// large capacities: the +25% growth regime (a few cases: each holds thousands of operations)
	nl := n / 60
	for i := 0; i < nl; i++ {
		cr, _ := rng.Derive()
		c := genLarge(cr, &next)
		record(out, &c)
	}
	if f.Tier == "thorough" {
		alpha := []Op{{K: "W"}, {K: "R"}, {K: "RM", V: 1}, {K: "RM", V: 2}, {K: "RM", V: 3}, {K: "RA"}, {K: "P"}, {K: "L"}, {K: "X"}}
		for init := 2; init <= 4; init++ {
			var rec func(prefix []Op, depth int)
			rec = func(prefix []Op, depth int) {
				if len(prefix) > 0 {
					c := Case{Init: int64(init)}
					var k int64
					for _, o := range prefix {
						if o.K == "W" {
							k++
							o.V = k
						}
						c.Ops = append(c.Ops, o)
					}
					record(out, &c)
				}
				if depth == 0 {
					return
				}
				for _, o := range alpha {
					rec(append(prefix, o), depth-1)
				}
			}
			rec(nil, 5)
		}
	}
	out.Close()
}

func corpus() []Case {
	w := func(v int64) Op { return Op{K: "W", V: v} }
	return []Case{
		// DESIGN §6 C15 probe: wrapped ReadMulti re-delivers
		{Init: 4, Ops: []Op{w(1), w(2), w(3), {K: "RM", V: 3}, w(4), w(5), {K: "RM", V: 2}, {K: "RA"}}},
		{Init: 4, Ops: []Op{w(1), w(2), w(3), {K: "R"}, {K: "R"}, {K: "R"}, w(4), w(5), {K: "RM", V: 1}, {K: "RM", V: 5}, {K: "L"}}},
		{Init: 2, Ops: []Op{w(1), w(2), w(3), w(4), {K: "C"}, {K: "RA"}, {K: "X"}, {K: "C"}, w(9), {K: "P"}}},
	}
}
