// c08actor: harness for property C08 at the actor level: a real vivid.ActorSystem runs inside a testing/synctest
// bubble (virtual time; go1.26.8 test binary). One "owner" actor registers / replaces / stops timers from its
// handlers and from its timer callbacks, is restarted by its supervisor, is terminated (from outside, by its idle
// deadline, by its expiry) and the system is shut down, all at chosen virtual instants. Handlers may block
// (time.Sleep in virtual time), so that timers become due while a handler is still running.
//
// The default dispatcher is replaced through the verif hook by a plain goroutine dispatcher BEFORE the system is
// created: a pooled worker goroutine of ants would outlive the bubble.
//
// Monitors (Go side, independent of the Coq model): callback turns never overlap a handler (plain counter), every
// firing is wanted (counts, not early, not late, not after a cancellation that came before it was due), nothing
// runs after the owner's OnTerminated, restart and termination complete, the parent is notified, Shutdown returns
// (virtual watchdog), idle deadline / expiry terminate only when due. The recorded executions are also compared
// with MV.C08.ActorModel.
package c08actor

import (
	"encoding/json"
	"flag"
	"fmt"
	"io"
	"log/slog"
	"os"
	"reflect"
	"sort"
	"sync"
	"testing"
	"testing/synctest"
	"time"
	"unsafe"

	"github.com/RussellLuo/timingwheel"
	"github.com/kercylan98/minotaur/engine/vivid"
	"github.com/kercylan98/minotaur/engine/vivid/dispatcher"
	"github.com/kercylan98/minotaur/engine/vivid/supervision"
	"github.com/kercylan98/minotaur/toolkit/chrono"
	"github.com/kercylan98/minotaur/toolkit/log"
	"verif/harness/vh"
)

const ms = int64(time.Millisecond)
const sec = int64(time.Second)
const tick = 10 * ms // chrono.DefaultSchedulerTick: the scheduler of an actor context

// ---------------------------------------------------------------- case format

type Spec struct {
	K string `json:"k"` // after | repeat | cron
	A int64  `json:"a,omitempty"`
	I int64  `json:"i,omitempty"`
	N int64  `json:"n,omitempty"`
	C int64  `json:"c,omitempty"`
}
type React struct {
	Ord int64  `json:"ord"`
	K   string `json:"k"` // unreg | rereg (the task's own name, from inside its callback)
	Sp  *Spec  `json:"sp,omitempty"`
	Tag int    `json:"tag,omitempty"` // rereg: tag of the new registration
}
type Act struct {
	K    string  `json:"k"` // reg | stop
	Name int     `json:"name"`
	Tag  int     `json:"tag,omitempty"` // reg: identifies the registration in the observations
	Sp   *Spec   `json:"sp,omitempty"`
	Re   []React `json:"re,omitempty"`
}
type Step struct {
	At       int64 `json:"at"`             // ns after the start of the bubble
	K        string `json:"k"`             // msg | fail | stop | end
	Acts     []Act `json:"acts,omitempty"` // msg: what the handler does first
	Busy     int64 `json:"busy,omitempty"` // msg: then it sleeps; fail: OnRestarting sleeps; stop/end: OnTerminate sleeps
	Post     []Act `json:"post,omitempty"` // msg: then it does this
	Busy2    int64 `json:"busy2,omitempty"` // fail/stop/end: the OnTerminated handler sleeps
	Graceful bool  `json:"graceful,omitempty"`
}
type Obs struct {
	Seq  int    `json:"seq"`
	Ms   int64  `json:"ms"` // ms after the start of the bubble
	K    string `json:"k"`  // cb | launch | restarting | restarted | terminate | terminated | childterm | msg | crash | overlap | shutdown | hang
	Tag  int    `json:"tag,omitempty"`
	Ord  int64  `json:"ord,omitempty"`
	Inc  int    `json:"inc,omitempty"`
	Step int    `json:"step,omitempty"`
	Note string `json:"note,omitempty"`
}
type Case struct {
	Idle   int64  `json:"idle,omitempty"`   // WithIdleDeadline
	Expire int64  `json:"expire,omitempty"` // WithExpireDuration
	Spawn  int64  `json:"spawn"`            // instant at which the owner is created
	Steps  []Step `json:"steps"`
	Start  int64  `json:"start"`
	Obs    []Obs  `json:"obs"`
	Clean  string `json:"clean,omitempty"`
}

// ---------------------------------------------------------------- the system under test

var silent = log.FunctionalLoggerProvider(func() *log.Logger {
	return slog.New(slog.NewTextHandler(io.Discard, &slog.HandlerOptions{Level: slog.Level(100)}))
})

type reg struct {
	tag   int
	name  int
	sp    *Spec
	re    []React
	count int64
	inReg bool
}

type H struct {
	mu    sync.Mutex
	c     *Case
	start time.Time
	obs   []Obs
	depth int // plain counter: handler / callback turns of the owner in progress
	cur   int // index of the step being performed
	offerRace int // senders released from DelayQueue.wakeupC at the end of the run
	running int // wheels that were still running when the run was over (stopped by the harness)
	arm1  int64 // the next OnRestarting (fail) / OnTerminate (stop, end) handler sleeps this long, once
	arm2  int64 // the next OnTerminated handler sleeps this long, once
	inc   int
	ctxs  []vivid.ActorContext
	owner vivid.ActorRef
}

func (h *H) rel() int64 { return time.Now().UnixMilli() - h.start.UnixMilli() }

func (h *H) note(o Obs) {
	h.mu.Lock()
	o.Seq, o.Ms = len(h.obs), h.rel()
	h.obs = append(h.obs, o)
	h.mu.Unlock()
}

func (h *H) enter(what string) {
	h.depth++
	if h.depth != 1 {
		h.note(Obs{K: "overlap", Note: fmt.Sprintf("%s entered while %d other turn(s) of the owner in progress", what, h.depth-1)})
	}
}
func (h *H) exit() { h.depth-- }

type stepMsg struct{ i int }
type failMsg struct{}
type spawnMsg struct{}

func tname(n int) string { return fmt.Sprintf("t%d", n) }
func cronExpr(k int64) string {
	if k <= 1 {
		return "* * * * * * *"
	}
	return fmt.Sprintf("*/%d * * * * * *", k)
}

func (h *H) doReg(ctx vivid.ActorContext, name, tag int, sp *Spec, re []React) {
	g := &reg{tag: tag, name: name, sp: sp, re: re, inReg: true}
	defer func() {
		g.inReg = false
		if e := recover(); e != nil {
			h.note(Obs{K: "crash", Tag: tag, Note: fmt.Sprintf("registering %s(name %d) panicked: %v", sp.K, name, e)})
		}
	}()
	cb := func(ctx vivid.ActorContext) { h.onFire(g, ctx) }
	switch sp.K {
	case "after":
		ctx.AfterTask(tname(name), time.Duration(sp.A), cb)
	case "repeat":
		ctx.RepeatedTask(tname(name), time.Duration(sp.A), time.Duration(sp.I), int(sp.N), cb)
	case "cron":
		if err := ctx.CronTask(tname(name), cronExpr(sp.C), cb); err != nil {
			panic(err)
		}
	default:
		panic("bad spec " + sp.K)
	}
}

func (h *H) doStop(ctx vivid.ActorContext, name int, tag int) {
	defer func() {
		if e := recover(); e != nil {
			h.note(Obs{K: "crash", Tag: tag, Note: fmt.Sprintf("StopTask(name %d) panicked: %v", name, e)})
		}
	}()
	ctx.StopTask(tname(name))
}

func (h *H) acts(ctx vivid.ActorContext, as []Act) {
	for _, a := range as {
		switch a.K {
		case "reg":
			h.doReg(ctx, a.Name, a.Tag, a.Sp, a.Re)
		case "stop":
			h.doStop(ctx, a.Name, -1)
		}
	}
}

// onFire is the body of every timer callback: it runs as a turn of the owner.
func (h *H) onFire(g *reg, ctx vivid.ActorContext) {
	h.enter("callback")
	defer h.exit()
	g.count++
	ord := g.count
	h.note(Obs{K: "cb", Tag: g.tag, Ord: ord, Inc: h.inc})
	for i := range g.re {
		if g.re[i].Ord == ord {
			switch g.re[i].K {
			case "unreg":
				h.doStop(ctx, g.name, g.tag)
			case "rereg":
				h.doReg(ctx, g.name, g.re[i].Tag, g.re[i].Sp, nil)
			}
		}
	}
}

type owner struct {
	h   *H
	inc int
}

func (o *owner) OnReceive(ctx vivid.ActorContext) {
	h := o.h
	h.enter("handler")
	defer h.exit()
	nap := func(d *int64) {
		if v := *d; v > 0 {
			*d = 0
			time.Sleep(time.Duration(v))
		}
	}
	switch m := ctx.Message().(type) {
	case *vivid.OnLaunch:
		h.mu.Lock()
		h.ctxs = append(h.ctxs, ctx)
		h.mu.Unlock()
		h.inc = o.inc
		h.note(Obs{K: "launch", Inc: o.inc})
	case *vivid.OnRestarting:
		h.note(Obs{K: "restarting", Inc: o.inc, Step: h.cur})
		nap(&h.arm1)
	case *vivid.OnRestarted:
		h.note(Obs{K: "restarted", Inc: o.inc, Step: h.cur})
	case *vivid.OnTerminate:
		h.note(Obs{K: "terminate", Inc: o.inc, Step: h.cur})
		nap(&h.arm1)
	case *vivid.OnTerminated:
		if m.TerminatedActor.Equal(ctx.Ref()) {
			h.note(Obs{K: "terminated", Inc: o.inc, Step: h.cur})
			nap(&h.arm2)
		}
	case *stepMsg:
		s := &h.c.Steps[m.i]
		h.note(Obs{K: "msg", Step: m.i, Inc: o.inc})
		h.acts(ctx, s.Acts)
		if s.Busy > 0 {
			time.Sleep(time.Duration(s.Busy))
		}
		h.acts(ctx, s.Post)
	case *failMsg:
		h.note(Obs{K: "msg", Step: h.cur, Inc: o.inc, Note: "fails"})
		panic("c08: scripted failure of the owner")
	}
}

var restartNow = supervision.FunctionalStrategyProvider(func() supervision.Strategy {
	return supervision.FunctionalStrategy(func(record *supervision.AccidentRecord) {
		record.Supervisor.Restart(record.Victim)
	})
})

type parent struct{ h *H }

func (p *parent) OnReceive(ctx vivid.ActorContext) {
	h := p.h
	switch m := ctx.Message().(type) {
	case *spawnMsg:
		incs := 0
		h.owner = ctx.ActorOfF(func() vivid.Actor {
			incs++
			return &owner{h: h, inc: incs}
		}, func(d *vivid.ActorDescriptor) {
			d.WithName("owner")
			if h.c.Idle > 0 {
				d.WithIdleDeadline(time.Duration(h.c.Idle))
			}
			if h.c.Expire > 0 {
				d.WithExpireDuration(time.Duration(h.c.Expire))
			}
			d.WithSupervisionStrategyProvider(restartNow)
		})
	case *vivid.OnTerminated:
		if h.owner != nil && m.TerminatedActor.Equal(h.owner) {
			h.note(Obs{K: "childterm"})
		}
	}
}

// emergency: stop the timing wheel of every scheduler an owner context created, and release a hung Shutdown
func unexported(v reflect.Value, name string) reflect.Value {
	f := v.FieldByName(name)
	return reflect.NewAt(f.Type(), unsafe.Pointer(f.UnsafeAddr())).Elem()
}
func emergency(h *H, sys *vivid.ActorSystem, hung bool) (msg string) {
	defer func() {
		if e := recover(); e != nil {
			msg = fmt.Sprint(e)
		}
	}()
	for _, ctx := range h.ctxs {
		sp, _ := unexported(reflect.ValueOf(ctx).Elem(), "scheduler").Interface().(*chrono.Scheduler)
		if sp == nil {
			continue
		}
		tw := unexported(reflect.ValueOf(sp).Elem(), "wheel").Interface().(*timingwheel.TimingWheel)
		func() {
			defer func() { _ = recover() }() // already stopped: close of a closed channel
			tw.Stop()
			h.running++ // Stop returned: the wheel was still running
		}()
		// timingwheel's DelayQueue.Offer can be left blocked on wakeupC when Poll exits at the same moment (a race inside
		// the dependency between Stop and a timer that is being re-added): release such a sender so that the bubble can end
		func() {
			defer func() { _ = recover() }()
			dq := unexported(reflect.ValueOf(tw).Elem(), "queue")
			ch := unexported(dq.Elem(), "wakeupC").Interface().(chan struct{})
			for k := 0; k < 16; k++ {
				select {
				case <-ch:
					h.offerRace++
				default:
				}
			}
		}()
	}
	if hung {
		ch := unexported(reflect.ValueOf(sys).Elem(), "closed").Interface().(chan struct{})
		close(ch)
	}
	return ""
}

const watchdog = 5 * time.Second // virtual

func runImpl(t *testing.T, c *Case) {
	c.Obs, c.Clean = nil, ""
	h := &H{c: c}
	func() {
		defer func() {
			if e := recover(); e != nil {
				c.Clean = fmt.Sprint("bubble-not-clean: ", e)
			}
		}()
		synctest.Test(t, func(t *testing.T) {
			h.start = time.Now()
			c.Start = h.start.UnixNano()
			sys := vivid.NewActorSystem(vivid.FunctionalActorSystemConfigurator(func(cfg *vivid.ActorSystemConfiguration) {
				cfg.WithLoggerProvider(silent)
			}))
			par := sys.ActorOfF(func() vivid.Actor { return &parent{h: h} }, func(d *vivid.ActorDescriptor) { d.WithName("c08parent") })
			sleepTo := func(at int64) {
				if d := h.start.Add(time.Duration(at)).Sub(time.Now()); d > 0 {
					time.Sleep(d)
				}
				synctest.Wait()
			}
			sleepTo(c.Spawn)
			sys.Tell(par, &spawnMsg{})
			synctest.Wait()
			for i := range c.Steps {
				st := &c.Steps[i]
				sleepTo(st.At)
				h.cur = i
				h.arm1, h.arm2 = 0, 0
				if st.K != "msg" {
					h.arm1, h.arm2 = st.Busy, st.Busy2
				}
				switch st.K {
				case "msg":
					sys.Tell(h.owner, &stepMsg{i: i})
				case "fail":
					sys.Tell(h.owner, &failMsg{})
				case "stop":
					sys.Terminate(h.owner, st.Graceful)
				case "end":
					done := make(chan struct{})
					go func() {
						defer func() { _ = recover(); close(done) }()
						sys.Shutdown(st.Graceful)
					}()
					select {
					case <-done:
						h.note(Obs{K: "shutdown"})
					case <-time.After(watchdog):
						h.note(Obs{K: "hang", Note: fmt.Sprintf("Shutdown(%v) did not return within %v of virtual time", st.Graceful, watchdog)})
						if msg := emergency(h, sys, true); msg != "" {
							c.Clean = "emergency stop failed: " + msg
						}
						<-done
					}
				}
			}
			synctest.Wait()
			before := h.running
			emergency(h, sys, false) // a scheduler that was not closed keeps its wheel's goroutines in the bubble
			if h.offerRace > 0 {
				h.note(Obs{K: "offer-race", Note: fmt.Sprintf("%d goroutine(s) of the timing wheel were blocked in DelayQueue.Offer after Stop", h.offerRace)})
				synctest.Wait()
			}
			if h.running > before {
				h.note(Obs{K: "wheel", Note: fmt.Sprintf("%d timing wheel(s) of the owner still running after the system was shut down", h.running-before)})
			}
			synctest.Wait()
		})
	}()
	c.Obs = h.obs
}

// ---------------------------------------------------------------- monitor

type regInfo struct {
	seq    int // position of the registering turn in the observations
	tag    int
	name   int
	sp     *Spec
	at     int64 // ns after start: the instant of the registration (callback registrations: ms resolution)
	inc    int
	cancel int64 // the first later instant at which the name was stopped / re-registered or the owner restarted / terminated
	why    string
	self   int64 // cancelled by its own callback at this firing
}

func dueOf(c *Case, g *regInfo, k int64) (int64, bool) {
	cl := func(d int64) int64 {
		if d < tick {
			return tick
		}
		return d
	}
	switch g.sp.K {
	case "after":
		if k > 1 {
			return 0, false
		}
		return g.at + cl(g.sp.A), true
	case "repeat":
		if g.sp.N > 0 && k > g.sp.N {
			return 0, false
		}
		return g.at + cl(g.sp.A) + (k-1)*cl(g.sp.I), true
	case "cron":
		abs := c.Start + g.at
		per := g.sp.C * sec
		return (abs/per+k)*per - c.Start, true
	}
	return 0, false
}

func kindOf(sp *Spec) string {
	if sp.K == "repeat" {
		if sp.N <= 0 {
			return "forever"
		}
		if sp.N == 1 {
			return "repeat1"
		}
		return "repeatN"
	}
	return sp.K
}

type window struct{ from, to int64 } // the owner is inside a handler that sleeps

func monitor(c *Case) (viol []vh.Violation) {
	add := func(fn, class, detail string) {
		if len(viol) < 5 {
			viol = append(viol, vh.Violation{Kind: "actor:" + fn + ":" + class, Detail: detail, Sig: map[string]string{"fn": fn}})
		}
	}
	if c.Clean != "" {
		add("cleanup", "bubble-not-clean", c.Clean)
	}
	endStep, stopStep := -1, -1
	fails := 0
	for i := range c.Steps {
		switch c.Steps[i].K {
		case "end":
			endStep = i
		case "stop":
			if stopStep < 0 {
				stopStep = i
			}
		case "fail":
			fails++
		}
	}
	// --- what happened
	var termSeq, termMs = -1, int64(-1) // final OnTerminated of the owner
	launches, restartings, hung, shutdown, childterm := 0, 0, false, false, false
	wheel := ""
	lastInc := 0
	for _, o := range c.Obs {
		switch o.K {
		case "overlap":
			add("turns", "overlap", fmt.Sprintf("at +%dms: %s", o.Ms, o.Note))
		case "crash":
			add("api", "crash", fmt.Sprintf("at +%dms: %s", o.Ms, o.Note))
		case "launch":
			launches++
			lastInc = o.Inc
		case "restarting":
			restartings++
		case "wheel":
			wheel = o.Note
		case "hang":
			hung = true
		case "shutdown":
			shutdown = true
		case "childterm":
			childterm = true
		}
	}
	for _, o := range c.Obs {
		if o.K == "terminated" && o.Inc == lastInc && termSeq < 0 {
			// OnTerminated{self} is also delivered to the instance that is being replaced by a restart: that one is
			// followed by a launch of the next incarnation; the final one is not
			final := true
			for _, p := range c.Obs[o.Seq+1:] {
				if p.K == "launch" {
					final = false
				}
			}
			if final {
				termSeq, termMs = o.Seq, o.Ms
			}
		}
	}
	if len(viol) > 0 {
		return // a crash / overlap explains everything that follows
	}
	// --- lifecycle
	if hung {
		add("shutdown", "hangs", fmt.Sprintf("Shutdown did not return within %v of virtual time", watchdog))
	}
	if endStep >= 0 && !shutdown && !hung {
		add("shutdown", "no-result", "the shutdown step produced neither a return nor a watchdog hit")
	}
	if launches == 0 {
		add("lifecycle", "not-launched", "the owner never received OnLaunch")
		return
	}
	if restartings > fails {
		add("lifecycle", "unexpected-restart", fmt.Sprintf("%d restarts observed, %d failures scripted", restartings, fails))
	}
	// every scripted failure that reached a living owner must lead to a new incarnation
	wantInc := 1
	for i := range c.Steps {
		if c.Steps[i].K != "fail" {
			continue
		}
		got := false
		for _, o := range c.Obs {
			if o.K == "msg" && o.Step == i && o.Note == "fails" {
				got = true
			}
		}
		if got { // the failing message was handled: the owner was alive
			wantInc++
		}
	}
	if lastInc < wantInc {
		add("restart", "not-restarted", fmt.Sprintf("%d incarnation(s) launched, %d expected after the scripted failures", lastInc, wantInc))
		return // the owner is stuck in the middle of its restart: nothing that follows means anything
	}
	if (stopStep >= 0 || endStep >= 0) && termSeq < 0 {
		add("terminate", "not-terminated", "the owner never received its own OnTerminated although it was stopped / the system was shut down")
	}
	if wheel != "" && !hung {
		add("terminate", "scheduler-not-closed", wheel)
	}
	if termSeq >= 0 && !childterm {
		add("terminate", "parent-not-notified", fmt.Sprintf("the owner terminated at +%dms but its parent never received OnTerminated", termMs))
	}
	if termSeq >= 0 {
		for _, o := range c.Obs[termSeq+1:] {
			if o.K == "cb" || o.K == "msg" {
				add("terminated", "turn-after-terminated", fmt.Sprintf("%s (tag %d, firing %d) ran at +%dms, after the owner's OnTerminated at +%dms", o.K, o.Tag, o.Ord, o.Ms, termMs))
			}
		}
	}
	if len(viol) > 0 {
		return // a broken lifecycle explains whatever else looks wrong
	}
	// --- registrations, cancellations: replay the name table in the order things happened
	regs := map[int]*regInfo{}
	var order []*regInfo
	var wins []window
	holder := map[int]*regInfo{}
	var restartCuts []int
	cancel := func(g *regInfo, at int64, why string, by int, ord int64) {
		if g.cancel < int64(1)<<62 {
			return
		}
		g.cancel, g.why, g.self = at, why, 0
		if by == g.tag {
			g.self = ord
		}
	}
	doReg := func(seq, tag, name int, sp *Spec, at int64, inc int, by int, ord int64) {
		if old := holder[name]; old != nil {
			cancel(old, at, "re-registered", by, ord)
		}
		g := &regInfo{seq: seq, tag: tag, name: name, sp: sp, at: at, inc: inc, cancel: int64(1) << 62}
		regs[tag] = g
		order = append(order, g)
		holder[name] = g
	}
	doStop := func(name int, at int64, by int, ord int64) {
		if old := holder[name]; old != nil {
			cancel(old, at, "stopped", by, ord)
			delete(holder, name)
		}
	}
	tagsOf := map[int]*Act{}
	for i := range c.Steps {
		for _, as := range [][]Act{c.Steps[i].Acts, c.Steps[i].Post} {
			for j := range as {
				if as[j].K == "reg" {
					tagsOf[as[j].Tag] = &as[j]
				}
			}
		}
	}
	for _, o := range c.Obs {
		switch o.K {
		case "msg":
			if o.Note == "fails" {
				continue
			}
			st := &c.Steps[o.Step]
			t0 := st.At
			if o.Ms*ms > t0 { // the message waited behind an earlier turn
				t0 = o.Ms * ms
			}
			if st.Busy > 0 {
				wins = append(wins, window{t0, t0 + st.Busy})
			}
			for ph, as := range [][]Act{st.Acts, st.Post} {
				at := t0
				if ph == 1 {
					at = t0 + st.Busy
				}
				for _, a := range as {
					switch a.K {
					case "reg":
						doReg(o.Seq, a.Tag, a.Name, a.Sp, at, o.Inc, -1, 0)
					case "stop":
						doStop(a.Name, at, -1, 0)
					}
				}
			}
		case "cb":
			a := tagsOf[o.Tag]
			if a == nil {
				continue
			}
			for _, rc := range a.Re {
				if rc.Ord == o.Ord {
					switch rc.K {
					case "unreg":
						doStop(a.Name, o.Ms*ms, o.Tag, o.Ord)
					case "rereg":
						doReg(o.Seq, rc.Tag, a.Name, rc.Sp, o.Ms*ms, o.Inc, o.Tag, o.Ord)
					}
				}
			}
		case "terminated":
			if o.Seq == termSeq {
				break
			}
			// a restart: the scheduler is cleared at the end of the restart turn, right after this handler returns. What
			// became due while OnRestarting / OnTerminate / OnTerminated of the old instance were running is already in the
			// mailbox and still runs afterwards (counted as stale callbacks below)
			at := o.Ms * ms
			if st := &c.Steps[o.Step]; st.K == "fail" {
				at += st.Busy2
			}
			restartCuts = append(restartCuts, o.Seq)
			for n, g := range holder {
				cancel(g, at, "owner restarted", -1, 0)
				delete(holder, n)
			}
		case "terminate":
			if termSeq >= 0 && o.Seq < termSeq && o.Inc == lastInc {
				for n, g := range holder {
					cancel(g, o.Ms*ms, "owner terminating", -1, 0)
					delete(holder, n)
				}
			}
		}
	}
	for i := range c.Steps {
		st := &c.Steps[i]
		if st.K != "msg" && (st.Busy > 0 || st.Busy2 > 0) {
			wins = append(wins, window{st.At, st.At + st.Busy + st.Busy2})
		}
	}
	end := int64(0)
	if n := len(c.Steps); n > 0 {
		end = c.Steps[n-1].At
	}
	busyEnd := func(lo, hi int64) int64 { // latest end of a sleeping handler that overlaps [lo,hi]
		e := int64(-1)
		for _, w := range wins {
			if w.from <= hi && w.to >= lo && w.to > e {
				e = w.to
			}
		}
		return e
	}
	perTag := map[int][]Obs{}
	for _, o := range c.Obs {
		if o.K == "cb" {
			perTag[o.Tag] = append(perTag[o.Tag], o)
		}
	}
	for _, g := range order {
		fn := kindOf(g.sp)
		evs := perTag[g.tag]
		limit := g.cancel
		if end < limit {
			limit = end
		}
		if termMs >= 0 && termMs*ms < limit {
			limit = termMs * ms
		}
		for i, e := range evs {
			n := int64(i + 1)
			if e.Ord != n {
				add(fn, "ordinal", fmt.Sprintf("tag %d: firing ordinals not consecutive", g.tag))
				break
			}
			d, ok := dueOf(c, g, n)
			if !ok {
				add(fn, "too-many", fmt.Sprintf("tag %d (name %d, %+v) ran %d times: firing %d at +%dms", g.tag, g.name, *g.sp, n, n, e.Ms))
				continue
			}
			lo := d - tick - ms - (n-1)*ms
			if lo >= g.cancel && !(g.self > 0 && n <= g.self) {
				add(fn, "fired-after-cancel", fmt.Sprintf("tag %d (name %d, %+v registered at +%.3fms) ran at +%dms (firing %d, wanted at +%.3fms) but was cancelled at +%.3fms (%s), before it was due",
					g.tag, g.name, *g.sp, float64(g.at)/1e6, e.Ms, n, float64(d)/1e6, float64(g.cancel)/1e6, g.why))
				continue
			}
			at := e.Ms * ms
			if at < lo {
				add(fn, "early", fmt.Sprintf("tag %d (name %d, %+v registered at +%.3fms): firing %d at +%dms, wanted at +%.3fms (more than one tick early)", g.tag, g.name, *g.sp, float64(g.at)/1e6, n, e.Ms, float64(d)/1e6))
			}
			hi := d + 2*tick
			if be := busyEnd(lo, hi); be >= 0 && be+ms > hi {
				hi = be + ms
			}
			if at > hi {
				add(fn, "late", fmt.Sprintf("tag %d (name %d, %+v registered at +%.3fms): firing %d at +%dms, wanted at +%.3fms (more than two ticks late)", g.tag, g.name, *g.sp, float64(g.at)/1e6, n, e.Ms, float64(d)/1e6))
			}
		}
		var must int64
		for k := int64(1); k < 100000; k++ {
			d, ok := dueOf(c, g, k)
			if !ok {
				break
			}
			hi := d + 2*tick + ms
			if be := busyEnd(d-tick-ms, hi); be >= 0 && be+2*ms > hi {
				hi = be + 2*ms
			}
			if hi > limit {
				break
			}
			must = k
		}
		if g.self > 0 && must > g.self {
			must = g.self
		}
		if int64(len(evs)) < must {
			add(fn, "missing", fmt.Sprintf("tag %d (name %d, %+v registered at +%.3fms) ran %d times before +%.3fms, at least %d firings were due", g.tag, g.name, *g.sp, float64(g.at)/1e6, len(evs), float64(limit)/1e6, must))
		}
	}
	// --- callbacks of tasks of the previous incarnation that run after the restart has cleared the scheduler
	for _, g := range order {
		for _, cut := range restartCuts {
			if g.seq >= cut {
				continue
			}
			for _, e := range perTag[g.tag] {
				if e.Seq > cut {
					StaleSeen++
					if StaleCB {
						add("restart", "stale-callback", fmt.Sprintf("tag %d (name %d, %+v) was registered before the restart, became due while the owner was restarting and ran at +%dms (firing %d), after the old instance's OnTerminated and after the scheduler was cleared",
							g.tag, g.name, *g.sp, e.Ms, e.Ord))
					}
					break
				}
			}
		}
	}
	// --- idle deadline / expiry: only when due, and then indeed
	if termSeq >= 0 {
		scripted := int64(-1)
		if stopStep >= 0 {
			scripted = c.Steps[stopStep].At
		}
		if endStep >= 0 && (scripted < 0 || c.Steps[endStep].At < scripted) {
			scripted = c.Steps[endStep].At
		}
		var termReq int64 = -1 // the instant of the OnTerminate that led to the final termination
		for _, o := range c.Obs[:termSeq] {
			if o.K == "terminate" {
				termReq = o.Ms * ms
			}
		}
		if scripted < 0 || termReq < scripted/ms*ms {
			// terminated on its own: must be the idle deadline or the expiry
			lastTurn := int64(-1)
			for _, o := range c.Obs[:termSeq] {
				if o.K == "terminate" && o.Ms*ms >= termReq {
					break
				}
				// a turn in the very millisecond of the request may have run after the deadline's timer had fired
				if (o.K == "msg" || o.K == "cb" || o.K == "launch" || o.K == "restarted") && o.Ms*ms < termReq {
					lastTurn = o.Ms * ms
					if o.K == "msg" && o.Note != "fails" {
						lastTurn += c.Steps[o.Step].Busy
					}
				}
			}
			okIdle := c.Idle > 0 && lastTurn >= 0 && termReq >= lastTurn+maxd(c.Idle, tick)-tick-ms
			okExp := c.Expire > 0 && termReq >= c.Spawn+maxd(c.Expire, tick)-tick-ms
			if !okIdle && !okExp {
				add("idle-expire", "terminated-early", fmt.Sprintf("the owner began to terminate at +%.3fms without being asked to: idle deadline %v after its last turn at +%.3fms, expiry %v after its creation at +%.3fms",
					float64(termReq)/1e6, time.Duration(c.Idle), float64(lastTurn)/1e6, time.Duration(c.Expire), float64(c.Spawn)/1e6))
			}
		}
	}
	if c.Idle > 0 && launches > 0 {
		// the owner must go away once nothing has happened to it for the idle deadline
		last := int64(-1)
		stopAt := termSeq // the OnTerminate that belongs to the final termination
		if termSeq > 0 && c.Obs[termSeq-1].K == "terminate" {
			stopAt = termSeq - 1
		}
		for _, o := range c.Obs {
			if termSeq >= 0 && o.Seq >= stopAt {
				break
			}
			switch o.K {
			case "msg":
				last = o.Ms * ms
				if o.Note != "fails" {
					last += c.Steps[o.Step].Busy
				}
			case "cb", "launch", "restarted":
				last = o.Ms * ms
			case "restarting", "terminate", "terminated":
				last = o.Ms*ms + c.Steps[o.Step].Busy + c.Steps[o.Step].Busy2
			}
		}
		limit := end
		if termSeq >= 0 && stopAt >= 0 {
			limit = c.Obs[stopAt].Ms * ms
		}
		if last >= 0 && limit-last > maxd(c.Idle, tick)+3*tick+2*ms {
			add("idle-expire", "idle-missed", fmt.Sprintf("idle deadline %v: the owner's last turn ended at +%.3fms, it was still there at +%.3fms", time.Duration(c.Idle), float64(last)/1e6, float64(limit)/1e6))
		}
	}
	if c.Expire > 0 && stopStep < 0 {
		dueAt := c.Spawn + maxd(c.Expire, tick) + 2*tick + ms
		if be := busyEnd(dueAt-3*tick-2*ms, dueAt); be >= 0 {
			dueAt = be + 2*ms
		}
		if dueAt < end-ms && (termMs < 0 || termMs*ms > dueAt+tick) {
			add("idle-expire", "expiry-missed", fmt.Sprintf("expiry %v after creation at +%.3fms: the owner was not terminated by +%.3fms (terminated at %dms)", time.Duration(c.Expire), float64(c.Spawn)/1e6, float64(dueAt)/1e6, termMs))
		}
	}
	return
}

// StaleCB: report callbacks that outlive a restart as monitor hits (enabled by checks/c08.py when the finding is listed as open)
var StaleCB bool
var StaleSeen int

func maxd(a, b int64) int64 {
	if a > b {
		return a
	}
	return b
}

// ---------------------------------------------------------------- Coq terms

func zz(v int64) string {
	if v >= 0 {
		return fmt.Sprintf("(zi %d)", v)
	}
	return fmt.Sprintf("(zn %d)", -v)
}
func coqSpec(sp *Spec) string {
	switch sp.K {
	case "after":
		return vh.App("SAfter", zz(sp.A))
	case "repeat":
		return vh.App("SRepeat", zz(sp.A), zz(sp.I), zz(sp.N))
	case "cron":
		return vh.App("SCron", zz(sp.C), "false")
	}
	panic(sp.K)
}
func coqActs(as []Act) string {
	it := make([]string, len(as))
	for i, a := range as {
		if a.K == "stop" {
			it[i] = vh.App("AStop", vh.Nat(a.Name))
			continue
		}
		re := make([]string, len(a.Re))
		for j, r := range a.Re {
			x := "ARUnreg"
			if r.K == "rereg" {
				x = vh.App("ARRereg", vh.Nat(r.Tag), coqSpec(r.Sp))
			}
			re[j] = vh.Pair(zz(r.Ord), x)
		}
		it[i] = vh.App("AReg", vh.Nat(a.Name), vh.Nat(a.Tag), coqSpec(a.Sp), vh.List(re))
	}
	return vh.List(it)
}
func coqCase(id int, c *Case) string {
	ops := []string{vh.App("AAdvance", zz(c.Start+c.Spawn)), vh.App("ASpawn", zz(c.Idle), zz(c.Expire))}
	for i := range c.Steps {
		st := &c.Steps[i]
		ops = append(ops, vh.App("AAdvance", zz(c.Start+st.At)))
		switch st.K {
		case "msg":
			ops = append(ops, vh.App("AMsg", coqActs(st.Acts), zz(st.Busy), coqActs(st.Post)))
		case "fail":
			ops = append(ops, vh.App("AFail", zz(st.Busy), zz(st.Busy2)))
		case "stop", "end":
			ops = append(ops, vh.App("AStopOp", vh.Bool(st.Graceful), zz(st.Busy), zz(st.Busy2)))
		}
	}
	var evs []string
	term := "None"
	lastInc := 0
	for _, o := range c.Obs {
		if o.K == "launch" {
			lastInc = o.Inc
		}
	}
	for i, o := range c.Obs {
		switch o.K {
		case "cb":
			evs = append(evs, vh.App("aev", zz(c.Start/ms+o.Ms), vh.Nat(o.Tag), zz(o.Ord)))
		case "terminated":
			final := o.Inc >= lastInc
			for _, p := range c.Obs[i+1:] {
				if p.K == "launch" || p.K == "restarted" {
					final = false
				}
			}
			if final {
				term = vh.Some(zz(c.Start/ms + o.Ms))
			}
		}
	}
	return fmt.Sprintf("{| acid := %d; acstart := %s; acops := %s; acevs := %s; acterm := %s |}", id, zz(c.Start), vh.List(ops), vh.List(evs), term)
}

// ---------------------------------------------------------------- generator

const startMs = int64(946684800000)

func instant(rng *vh.RNG, slot int64) int64 {
	r := ms + int64(rng.U64()%uint64(tick-ms))
	if rng.Chance(1, 3) {
		r = r / ms * ms
	}
	return (startMs/10+1+slot)*tick + r - startMs*ms
}

func genSpec(rng *vh.RNG, unit, maxMul int64, cron bool, whole bool) *Spec {
	dur := func() int64 {
		var d int64
		switch rng.Intn(10) {
		case 0:
			d = 0
		case 1:
			d = tick / 2
		case 2:
			d = tick
		case 3, 4:
			d = int64(rng.Range(1, int(maxMul)))*unit + int64(rng.Intn(int(ms)))
		default:
			d = int64(rng.Range(1, int(maxMul))) * unit
		}
		if whole {
			d = d / ms * ms
		}
		return d
	}
	ivl := func() int64 {
		switch rng.Intn(6) {
		case 0:
			return 0
		case 1:
			return tick
		}
		return int64(rng.Range(1, int(maxMul))) * unit / ms * ms
	}
	switch x := rng.Intn(10); {
	case x < 3:
		return &Spec{K: "after", A: dur()}
	case x < 9 || !cron:
		return &Spec{K: "repeat", A: dur(), I: ivl(), N: []int64{-1, 0, 1, 2, 2, 3, 3, 4, 5}[rng.Intn(9)]}
	}
	return &Spec{K: "cron", C: []int64{1, 1, 2}[rng.Intn(3)]}
}

func genCase(rng *vh.RNG) Case {
	long := rng.Chance(1, 4)
	unit, maxMul, slots := tick/2, int64(12), int64(rng.Range(25, 70))
	if long {
		unit, maxMul, slots = 100*ms, 20, int64(rng.Range(300, 900))
	}
	var c Case
	c.Spawn = instant(rng, 0)
	if rng.Chance(2, 5) {
		c.Idle = int64(rng.Range(2, int(maxMul))) * unit / ms * ms
		if rng.Chance(1, 2) { // longer than every delay and interval: the deadline rarely shares a bucket with a task
			c.Idle = (maxMul*unit + int64(rng.Range(1, 9))*tick + 3*ms) / ms * ms
		}
	}
	if rng.Chance(1, 4) {
		c.Expire = int64(rng.Range(int(maxMul), int(4*maxMul))) * unit / ms * ms
	}
	n := rng.Range(2, 8)
	sl := make([]int64, n)
	for i := range sl {
		sl[i] = 1 + int64(rng.U64()%uint64(slots))
	}
	sort.Slice(sl, func(a, b int) bool { return sl[a] < sl[b] })
	for i := 1; i < n; i++ { // one step per slot
		if sl[i] <= sl[i-1] {
			sl[i] = sl[i-1] + 1
		}
	}
	tag := 0
	forever := 0
	uniq := 0
	acts := func(k int, slot int64) []Act {
		var as []Act
		for j := 0; j < k; j++ {
			if rng.Chance(1, 4) {
				as = append(as, Act{K: "stop", Name: rng.Intn(3)})
				continue
			}
			tag++
			a := Act{K: "reg", Name: rng.Intn(3), Tag: tag, Sp: genSpec(rng, unit, maxMul, long, false)}
			if a.Sp.K == "repeat" && a.Sp.N <= 0 {
				step := a.Sp.I
				if step < tick {
					step = tick
				}
				forever++
				if (slots+slots/3+3-slot)*tick/step > 80 || forever > 2 {
					a.Sp.N = int64(rng.Range(2, 5))
				}
			}
			if a.Sp.K == "repeat" && rng.Chance(1, 5) {
				rc := React{Ord: int64(rng.Range(1, 3)), K: "unreg"}
				if rng.Chance(1, 2) {
					tag++
					rc.K, rc.Tag = "rereg", tag
					rc.Sp = &Spec{K: "after", A: int64(rng.Range(0, int(maxMul))) * unit / ms * ms}
					if rng.Chance(1, 2) {
						rc.Sp = &Spec{K: "repeat", A: int64(rng.Range(0, int(maxMul))) * unit / ms * ms, I: int64(rng.Range(0, int(maxMul))) * unit / ms * ms, N: int64(rng.Range(1, 3))}
					}
				}
				a.Re = []React{rc}
				uniq++
				a.Name = 2 + uniq // a task whose callback touches its own name keeps the name to itself
			}
			as = append(as, a)
		}
		return as
	}
	stopped := false
	for i := 0; i < n; i++ {
		st := Step{At: instant(rng, sl[i])}
		gap := int64(8)
		if i+1 < n {
			gap = (sl[i+1] - sl[i] - 1) // whole slots before the next step
		}
		busy := func() int64 {
			if gap < 2 || !rng.Chance(1, 3) {
				return 0
			}
			m := int64(rng.Range(1, 6))
			if m > gap-1 {
				m = gap - 1
			}
			return m * tick
		}
		x := rng.Intn(20)
		if i == 0 {
			x = 0
		}
		switch {
		case x < 14:
			st.K = "msg"
			st.Acts = acts(rng.Range(0, 3), sl[i])
			st.Busy = busy()
			if st.Busy > 0 && rng.Chance(1, 2) {
				st.Post = acts(1, sl[i])
			}
		case x < 17:
			st.K = "fail"
			st.Busy = busy()
			if st.Busy == 0 && gap >= 3 && rng.Chance(1, 3) {
				st.Busy2 = tick
			}
		default:
			st.K, st.Graceful, stopped = "stop", rng.Bool(), true
			st.Busy = busy()
			if st.Busy == 0 && gap >= 3 && rng.Chance(1, 3) {
				st.Busy2 = tick
			}
		}
		c.Steps = append(c.Steps, st)
		if stopped {
			n = i + 1
			break
		}
	}
	lastSt := c.Steps[len(c.Steps)-1]
	end := Step{At: instant(rng, sl[n-1]+(lastSt.Busy+lastSt.Busy2)/tick+int64(rng.Range(2, int(slots/3+3)))), K: "end", Graceful: rng.Bool()}
	if rng.Chance(1, 4) {
		end.Busy = int64(rng.Range(1, 4)) * tick
	}
	if rng.Chance(1, 6) {
		end.Busy2 = tick
	}
	c.Steps = append(c.Steps, end)
	return c
}

func corpus() []Case {
	at := func(slot, off int64) int64 { return (startMs/10+1+slot)*tick + off - startMs*ms }
	rep := func(a, i, n int64) *Spec { return &Spec{K: "repeat", A: a, I: i, N: n} }
	return []Case{
		// DESIGN §6 C08 probe: an actor that owns a forever-repeating task; shutdown must return
		{Spawn: at(0, 2*ms), Steps: []Step{{At: at(1, 2*ms), K: "msg", Acts: []Act{{K: "reg", Name: 0, Tag: 1, Sp: rep(20*ms, 20*ms, -1)}}}, {At: at(12, 2*ms), K: "end"}}},
		// StopTask on a pending repeated task, re-register of a repeating task, from handlers
		{Spawn: at(0, 2*ms), Steps: []Step{{At: at(1, 2*ms), K: "msg", Acts: []Act{{K: "reg", Name: 0, Tag: 1, Sp: rep(30*ms, 30*ms, 3)}, {K: "reg", Name: 1, Tag: 2, Sp: rep(0, 0, 0)}}},
			{At: at(3, 5*ms), K: "msg", Acts: []Act{{K: "stop", Name: 0}, {K: "reg", Name: 1, Tag: 3, Sp: &Spec{K: "after", A: 45 * ms}}}}, {At: at(12, 2*ms), K: "end", Graceful: true}}},
		// idle deadline: the second message must not hurt; then the actor goes away on its own
		{Idle: 50 * ms, Spawn: at(0, 2*ms), Steps: []Step{{At: at(2, 2*ms), K: "msg"}, {At: at(4, 2*ms), K: "msg", Acts: []Act{{K: "reg", Name: 0, Tag: 1, Sp: rep(10*ms, 20*ms, 2)}}}, {At: at(30, 2*ms), K: "end"}}},
		// expiry, with a repeating task alive
		{Expire: 120 * ms, Spawn: at(0, 2*ms), Steps: []Step{{At: at(2, 2*ms), K: "msg", Acts: []Act{{K: "reg", Name: 0, Tag: 1, Sp: rep(10*ms, 30*ms, -1)}}}, {At: at(30, 2*ms), K: "end"}}},
		// restart with a repeating task and a one-shot pending: both are cleared; the new incarnation registers again
		{Spawn: at(0, 2*ms), Steps: []Step{{At: at(1, 2*ms), K: "msg", Acts: []Act{{K: "reg", Name: 0, Tag: 1, Sp: rep(20*ms, 20*ms, 0)}, {K: "reg", Name: 1, Tag: 2, Sp: &Spec{K: "after", A: 80 * ms}}}},
			{At: at(5, 5*ms), K: "fail"}, {At: at(7, 5*ms), K: "msg", Acts: []Act{{K: "reg", Name: 0, Tag: 3, Sp: rep(20*ms, 20*ms, 2)}}}, {At: at(20, 2*ms), K: "end"}}},
		// timers become due while a handler sleeps: the callbacks wait for the handler; stop with timers becoming due inside OnTerminate / OnTerminated
		{Spawn: at(0, 2*ms), Steps: []Step{{At: at(1, 2*ms), K: "msg", Acts: []Act{{K: "reg", Name: 0, Tag: 1, Sp: rep(10*ms, 10*ms, -1)}}, Busy: 40 * ms, Post: []Act{{K: "reg", Name: 1, Tag: 2, Sp: &Spec{K: "after", A: 20 * ms}}}},
			{At: at(10, 2*ms), K: "stop", Busy: 30 * ms, Busy2: 20 * ms}, {At: at(25, 2*ms), K: "end"}}},
		// a repeating task that stops itself from its callback
		{Spawn: at(0, 2*ms), Steps: []Step{{At: at(1, 2*ms), K: "msg", Acts: []Act{{K: "reg", Name: 0, Tag: 1, Sp: rep(10*ms, 20*ms, -1), Re: []React{{Ord: 2, K: "unreg"}}}}}, {At: at(15, 2*ms), K: "end", Graceful: true}}},
	}
}

// ---------------------------------------------------------------- main

func record(t *testing.T, out *vh.Out, c *Case) {
	StaleSeen = 0
	runImpl(t, c)
	v := monitor(c)
	regs, cbs, busy := 0, 0, 0
	nontrivial := false
	for i := range c.Steps {
		st := &c.Steps[i]
		out.Count("steps", st.K)
		if st.Busy > 0 || st.Busy2 > 0 {
			busy++
		}
		for _, as := range [][]Act{st.Acts, st.Post} {
			for _, a := range as {
				if a.K == "reg" {
					regs++
					out.Count("task_kinds", kindOf(a.Sp))
					if len(a.Re) > 0 {
						out.Count("callback_reaction", a.Re[0].K)
					}
				} else {
					out.Count("task_kinds", "StopTask")
				}
			}
		}
	}
	// non-trivial: some task was cancelled (stop / replace / restart / termination) while it still had firings to come
	counts := map[int]int64{}
	for _, o := range c.Obs {
		if o.K == "cb" {
			cbs++
			counts[o.Tag]++
		}
	}
	for i := range c.Steps {
		for _, as := range [][]Act{c.Steps[i].Acts, c.Steps[i].Post} {
			for _, a := range as {
				if a.K == "reg" && (a.Sp.K == "cron" || (a.Sp.K == "repeat" && (a.Sp.N <= 0 || counts[a.Tag] < a.Sp.N)) || (a.Sp.K == "after" && counts[a.Tag] < 1)) {
					nontrivial = true
				}
			}
		}
	}
	out.Count("registrations", vh.Bucket(regs))
	out.Count("callback_turns", vh.Bucket(cbs))
	out.Count("sleeping_handlers", vh.Bucket(busy))
	if c.Idle > 0 {
		out.Count("descriptor", "idle-deadline")
	}
	if c.Expire > 0 {
		out.Count("descriptor", "expire-duration")
	}
	for _, o := range c.Obs {
		if o.K == "offer-race" {
			out.Count("timingwheel_offer_vs_stop_race", "seen")
		}
	}
	if StaleSeen > 0 {
		out.Count("stale_callbacks_after_restart", vh.Bucket(StaleSeen))
	}
	out.Add(c, coqCase(out.N(), c), nontrivial, v)
}

var flags vh.Flags

func TestMain(m *testing.M) {
	flag.BoolVar(&StaleCB, "stalecb", false, "report callbacks of the previous incarnation that run after a restart (open finding C08-stale-callback-after-restart)")
	flags = vh.ParseFlags()
	vivid.VerifSetDefaultDispatcher(dispatcher.NewGoroutine())
	os.Exit(m.Run())
}

func TestC08Actor(t *testing.T) {
	time.Local = time.UTC
	f := flags
	if f.Replay != "" {
		var c Case
		vh.LoadReplayCase(f.Replay, &c)
		want := append([]Obs(nil), c.Obs...)
		runImpl(t, &c)
		v := monitor(&c)
		b, _ := json.Marshal(map[string]interface{}{"case": c, "recorded_obs": want, "monitor": v})
		fmt.Println(string(b))
		if len(v) > 0 {
			os.Exit(1)
		}
		return
	}
	out := vh.NewOut(f.Out, "actor", "From Coq Require Import Uint63.\nFrom MV Require Import Lib.ListX C08.SchedModel C08.SchedRun C08.ActorModel C08.ActorRun.", "acase", "amismatches", f.Seed,
		"one owner actor on a real ActorSystem inside a synctest bubble: 2..8 steps (message whose handler registers / replaces / stops after, repeated and cron tasks "+
			"over 3 names, possibly sleeping in between; scripted failure -> supervised restart; stop, graceful or not; shutdown) at virtual instants, optional idle "+
			"deadline and expire duration, handlers of OnRestarting / OnTerminate / OnTerminated that sleep while timers become due, callbacks that stop or "+
			"re-register their own task; non-trivial = some task still had firings to come when it was stopped, replaced, cleared by a restart or closed by the "+
			"termination (measured on the implementation's own executions)")
	rng := vh.NewRNG(f.Seed)
	for _, c := range corpus() {
		c := c
		record(t, out, &c)
	}
	n := f.N
	if n == 0 {
		n = 1500
		if f.Tier == "thorough" {
			n = 20000
		}
	}
	for i := 0; i < n; i++ {
		cr, _ := rng.Derive()
		c := genCase(cr)
		record(t, out, &c)
	}
	out.Close()
}
