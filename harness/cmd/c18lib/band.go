// Package c18lib: code shared by the two C18 harnesses (c18backoff, c18retry): the brute-force restatement
// of the back-off bounds with big floats (the monitors' oracle, independent of the Coq model) and the
// printers for Coq literals.
package c18lib

import (
	"fmt"
	"math"
	"math/big"
)

const prec = 256

func bf(x float64) *big.Float { return new(big.Float).SetPrec(prec).SetFloat64(x) }
func bi(x int64) *big.Float   { return new(big.Float).SetPrec(prec).SetInt64(x) }

func mulSat(a, b *big.Float) (r *big.Float) {
	defer func() {
		if e := recover(); e != nil {
			r = new(big.Float).SetInf(false)
		}
	}()
	if a.IsInf() || b.IsInf() {
		return new(big.Float).SetInf(false)
	}
	r = new(big.Float).SetPrec(prec).Mul(a, b)
	if r.MantExp(nil) > 1<<20 { // anything beyond 2^(2^20) counts as infinite here
		r = new(big.Float).SetInf(false)
	}
	return r
}

// Product = base * mult^count (mult >= 1, base >= 0, count >= 0), +Inf when astronomically large.
func Product(base int64, mult float64, count int64) *big.Float {
	if base == 0 {
		return bi(0)
	}
	res := bi(1)
	b := bf(mult)
	n := uint64(count)
	for n > 0 {
		if n&1 == 1 {
			res = mulSat(res, b)
		}
		n >>= 1
		if n > 0 {
			b = mulSat(b, b)
		}
	}
	return mulSat(res, bi(base))
}

// InRange: the documented input ranges the property quantifies over.
func InRange(count, base, max int64, mult, rnd float64) bool {
	return base >= 0 && max >= 0 && count >= 0 && mult >= 1 && mult <= 10 && rnd >= 0 && rnd <= 1
}

// Delay checks a delay (not the stop signal) against the statement of C18: never negative, never above max,
// inside the jitter band [P - rnd/2*base, P + rnd/2*base] (P = base*mult^count) up to a relative tolerance of
// 1e-12 + count*2^-51 plus 1 ns while that band lies below max, exactly max once the band lies above max.
// Returns "" when fine, else (class, detail).
func Delay(count, base, max int64, mult, rnd float64, got int64) (string, string) {
	if got < 0 {
		return "negative-delay", fmt.Sprintf("count=%d base=%d max=%d mult=%v: delay %d ns", count, base, max, mult, got)
	}
	if got > max {
		return "above-max", fmt.Sprintf("count=%d base=%d mult=%v: delay %d ns > max %d ns", count, base, mult, got, max)
	}
	P := Product(base, mult, count)
	if P.IsInf() {
		if got != max {
			return "not-saturated", fmt.Sprintf("count=%d base=%d mult=%v: base*mult^count is astronomically above max=%d but delay is %d", count, base, mult, max, got)
		}
		return "", ""
	}
	g, m := bi(got), bi(max)
	half := new(big.Float).SetPrec(prec).Mul(bf(rnd/2), bi(base))
	lo := new(big.Float).SetPrec(prec).Sub(P, half)
	hi := new(big.Float).SetPrec(prec).Add(P, half)
	// relative tolerance: float rounding of the formula (1e-12) plus what math.Pow itself may lose: it squares
	// repeatedly, so its relative error grows like count * 2^-53 (observed 1.2e-7 for mult = 1+2^-52, count = 2^56)
	tol := new(big.Float).SetPrec(prec).Mul(hi, bf(1e-12+float64(count)*0x1p-51))
	tol.Add(tol, bi(1))
	loT := new(big.Float).SetPrec(prec).Sub(lo, tol)
	hiT := new(big.Float).SetPrec(prec).Add(hi, tol)
	switch {
	case loT.Cmp(m) >= 0: // clearly above the maximum
		if got != max {
			return "not-saturated", fmt.Sprintf("count=%d base=%d mult=%v: base*mult^count - jitter = %s >= max=%d but delay is %d", count, base, mult, lo.Text('g', 20), max, got)
		}
	case hiT.Cmp(m) < 0: // clearly below the maximum
		if g.Cmp(loT) < 0 || g.Cmp(hiT) > 0 {
			return "outside-jitter-band", fmt.Sprintf("count=%d base=%d mult=%v rnd=%v: band [%s, %s] ns, delay %d", count, base, mult, rnd, lo.Text('g', 20), hi.Text('g', 20), got)
		}
	default: // the band straddles the maximum: at least its lower edge (and at most max, checked above)
		if g.Cmp(loT) < 0 {
			return "outside-jitter-band", fmt.Sprintf("count=%d base=%d mult=%v rnd=%v: band lower edge %s ns, max %d, delay %d", count, base, mult, rnd, lo.Text('g', 20), max, got)
		}
	}
	return "", ""
}

// Region names where base*mult^count lies (distribution printed in the evidence) and whether that is a
// non-trivial place by DESIGN §6a (within 4x of max, or >= 2^62).
func Region(count, base, max int64, mult float64) (string, bool) {
	if base == 0 {
		if mult > 1 && math.IsInf(math.Pow(mult, float64(count)), 1) {
			return "base=0,pow=Inf", true
		}
		return "base=0", false
	}
	P := Product(base, mult, count)
	if P.IsInf() {
		return ">1e308(+Inf)", true
	}
	f, _ := P.Float64()
	switch {
	case math.IsInf(f, 1):
		return ">1e308(+Inf)", true
	case f >= 0x1p64:
		return "[2^64,1e308]", true
	case f >= 0x1p63:
		return "[2^63,2^64)", true
	case f >= 0x1p62:
		return "[2^62,2^63)", true
	}
	m := float64(max)
	switch {
	case f > 4*m:
		return "above 4*max", false
	case f >= m/4:
		return "within 4x of max", true
	}
	return "below max/4", false
}

// ---- Coq literals: integers as primitive-integer literals (see coq/C18/BackoffRun.v)
func Z(v int64) string {
	switch {
	case v >= 0:
		return fmt.Sprintf("(zi %d)", v)
	case v == math.MinInt64:
		return "min_int64"
	}
	return fmt.Sprintf("(zn %d)", -v)
}
func Bits(b uint64) string { return fmt.Sprintf("(zb %d %d)", b>>32, b&0xffffffff) }
func Nat(v int) string     { return fmt.Sprintf("(ni %d)", v) }

// ---- generators shared by both harnesses
const Days30 = 2_592_000_000_000_000

var Special = []int64{0, 1, 2, 999, 1000, 1_000_000, 200_000_000, 1_000_000_000, 3_000_000_000, 60_000_000_000,
	3_600_000_000_000, 86_400_000_000_000, Days30}

type RNG interface {
	Intn(n int) int
	Range(lo, hi int) int
	Float() float64
	U64() uint64
	Chance(num, den int) bool
}

func GenDur(rng RNG) int64 {
	switch rng.Intn(10) {
	case 0, 1:
		return Special[rng.Intn(len(Special))]
	case 2:
		return int64(rng.Range(0, 2000))
	default: // log-uniform 1 ns .. 30 days
		return int64(math.Exp(rng.Float() * math.Log(Days30)))
	}
}

func GenMult(rng RNG) float64 {
	switch rng.Intn(10) {
	case 0, 1, 2, 3:
		return 2
	case 4, 5, 6:
		return float64(rng.Range(1, 10))
	case 7:
		return []float64{1, 1.5, 1.1, 10, 3, 1.0000000000000002}[rng.Intn(6)]
	default:
		return 1 + 9*rng.Float()
	}
}

func GenRnd(rng RNG) float64 {
	switch rng.Intn(6) {
	case 0:
		return 0
	case 1, 2:
		return 0.5
	case 3:
		return 1
	default:
		return rng.Float()
	}
}

// GenK: the 53-bit integer behind rand.Float64() = k / 2^53
func GenK(rng RNG) uint64 {
	switch rng.Intn(8) {
	case 0:
		return 0
	case 1:
		return 1<<53 - 1
	case 2:
		return 1 << 52
	default:
		return rng.U64() >> 11
	}
}

// Crossing: count at which base*mult^count crosses target (clamped to [0, 3000])
func Crossing(base int64, mult float64, target float64) int64 {
	if base <= 0 || mult <= 1 {
		return 0
	}
	x := math.Ceil(math.Log(target/float64(base)) / math.Log(mult))
	if x < 0 {
		return 0
	}
	if x > 3000 {
		return 3000
	}
	return int64(x)
}
