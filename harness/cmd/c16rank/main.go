// c16rank: correspondence harness (T1) for toolkit/ranking.BinarySearch against MV.C16.RankModel,
// plus a brute-force monitor of the leaderboard clauses of property C16.
package main

import (
	"encoding/json"
	"errors"
	"fmt"
	"os"
	"time"

	"github.com/kercylan98/minotaur/toolkit/ranking"
	"verif/harness/vh"
)

type Op struct {
	K string `json:"k"` // C R Z GR GRD GC RG GS GSD GA X CMP SNAP
	A int64  `json:"a,omitempty"`
	B int64  `json:"b,omitempty"`
}
type Row struct {
	ID, Score, Rank int64
	ScoreOK, RankOK bool
	At              int64 // GetCompetitor(index) result, -1 on error
}
type Res struct {
	K    string     `json:"k"` // unit ev int err list snap panic hang
	V    int64      `json:"v,omitempty"`
	E    string     `json:"e,omitempty"` // notexist index norank other
	L    []int64    `json:"l,omitempty"`
	Ev   [][5]int64 `json:"ev,omitempty"`
	Rows []Row      `json:"rows,omitempty"`
	Msg  string     `json:"msg,omitempty"`
}
type Case struct {
	Cnt    int64 `json:"cnt"` // noCnt = NewBinarySearch() without WithBinarySearchCount
	Asc    bool  `json:"asc"`
	Ops    []Op  `json:"ops"`
	Impl   []Res `json:"impl"`
	KeyDom int   `json:"keydom"`
}

const noCnt = -1000

type LB = ranking.BinarySearch[int64, int64]

func errName(err error) string {
	switch {
	case errors.Is(err, ranking.ErrNotExistCompetitor):
		return "notexist"
	case errors.Is(err, ranking.ErrIndexErr):
		return "index"
	case errors.Is(err, ranking.ErrNonexistentRanking):
		return "norank"
	}
	return "other"
}

func newBoard(c *Case, evs *[][5]int64) *LB {
	var opts []ranking.BinarySearchOption[int64, int64]
	if c.Cnt != noCnt {
		opts = append(opts, ranking.WithBinarySearchCount[int64, int64](int(c.Cnt)))
	}
	if c.Asc {
		opts = append(opts, ranking.WithBinarySearchASC[int64, int64]())
	}
	b := ranking.NewBinarySearch[int64, int64](opts...)
	b.RegRankChangeEvent(func(_ *LB, id int64, oldRank, newRank int, oldScore, newScore int64) {
		*evs = append(*evs, [5]int64{id, int64(oldRank), int64(newRank), oldScore, newScore})
	})
	return b
}

func apply(b *LB, o Op, evs *[][5]int64) (res Res) {
	defer func() {
		if e := recover(); e != nil {
			res = Res{K: "panic", Msg: fmt.Sprint(e)}
		}
	}()
	*evs = nil
	switch o.K {
	case "C":
		b.Competitor(o.A, o.B)
		return Res{K: "ev", Ev: *evs}
	case "R":
		b.RemoveCompetitor(o.A)
		return Res{K: "ev", Ev: *evs}
	case "Z":
		return Res{K: "int", V: int64(b.Size())}
	case "GR":
		r, err := b.GetRank(o.A)
		if err != nil {
			return Res{K: "err", E: errName(err)}
		}
		return Res{K: "int", V: int64(r)}
	case "GRD":
		return Res{K: "int", V: int64(b.GetRankDefault(o.A, int(o.B)))}
	case "GC":
		id, err := b.GetCompetitor(int(o.A))
		if err != nil {
			return Res{K: "err", E: errName(err)}
		}
		return Res{K: "int", V: id}
	case "RG":
		l, err := b.GetCompetitorWithRange(int(o.A), int(o.B))
		if err != nil {
			return Res{K: "err", E: errName(err)}
		}
		return Res{K: "list", L: l}
	case "GS":
		s, err := b.GetScore(o.A)
		if err != nil {
			return Res{K: "err", E: errName(err)}
		}
		return Res{K: "int", V: s}
	case "GSD":
		return Res{K: "int", V: b.GetScoreDefault(o.A, o.B)}
	case "GA":
		return Res{K: "list", L: b.GetAllCompetitor()}
	case "X":
		b.Clear()
		return Res{K: "unit"}
	case "CMP":
		return Res{K: "int", V: int64(b.Cmp(o.A, o.B))}
	case "SNAP":
		r := Res{K: "snap", V: int64(b.Size())}
		for i, id := range b.GetAllCompetitor() {
			row := Row{ID: id, At: -1}
			if s, err := b.GetScore(id); err == nil {
				row.Score, row.ScoreOK = s, true
			}
			if rk, err := b.GetRank(id); err == nil {
				row.Rank, row.RankOK = int64(rk), true
			}
			if at, err := b.GetCompetitor(i); err == nil {
				row.At = at
			}
			r.Rows = append(r.Rows, row)
		}
		return r
	}
	panic("bad op " + o.K)
}

// runImpl executes the case; a loop of the implementation that does not come back within the
// deadline is recorded as "hang" for the current and all later operations.
func runImpl(c *Case) {
	done := make(chan []Res, 1)
	progress := make(chan Res, len(c.Ops)+1)
	go func() {
		var evs [][5]int64
		b := newBoard(c, &evs)
		out := make([]Res, 0, len(c.Ops))
		for _, o := range c.Ops {
			r := apply(b, o, &evs)
			out = append(out, r)
			progress <- r
		}
		done <- out
	}()
	select {
	case out := <-done:
		c.Impl = out
	case <-time.After(20 * time.Second):
		var out []Res
		for len(progress) > 0 {
			out = append(out, <-progress)
		}
		for len(out) < len(c.Ops) {
			out = append(out, Res{K: "hang"})
		}
		c.Impl = out
	}
}

func goCmp(asc bool, a, b int64) int {
	r := 0
	if a > b {
		r = 1
	} else if a < b {
		r = -1
	}
	if asc {
		return -r
	}
	return r
}

// ---- monitor: the leaderboard clauses of the property, restated on the observations alone.
// Tracks only "what was last submitted" per id; everything else is read off the snapshots.
func monitor(c *Case) (viol []vh.Violation) {
	add := func(i int, fn, class, detail string) {
		if len(viol) < 3 {
			viol = append(viol, vh.Violation{Kind: "rank:" + fn + ":" + class,
				Detail: fmt.Sprintf("op #%d %s(%d,%d): %s", i, c.Ops[i].K, c.Ops[i].A, c.Ops[i].B, detail),
				Sig:    map[string]string{"fn": fn, "class": class}})
		}
	}
	limit := c.Cnt
	if c.Cnt == noCnt {
		limit = 100
	} else if c.Cnt <= 0 {
		limit = 1
	}
	last := map[int64]int64{}
	for i, o := range c.Ops {
		got := c.Impl[i]
		fn := map[string]string{"C": "Competitor", "R": "RemoveCompetitor", "Z": "Size", "GR": "GetRank", "GRD": "GetRankDefault",
			"GC": "GetCompetitor", "RG": "GetCompetitorWithRange", "GS": "GetScore", "GSD": "GetScoreDefault", "GA": "GetAllCompetitor",
			"X": "Clear", "CMP": "Cmp", "SNAP": "snapshot"}[o.K]
		if got.K == "panic" {
			add(i, fn, "crash", got.Msg)
			return
		}
		if got.K == "hang" {
			add(i, fn, "hang", "the call did not return within 20 s")
			return
		}
		if got.E == "other" {
			add(i, fn, "unknown-error", "")
		}
		switch o.K {
		case "C":
			last[o.A] = o.B
		case "R":
			delete(last, o.A)
		case "X":
			last = map[int64]int64{}
		case "GS":
			if got.K == "int" {
				if s, ok := last[o.A]; !ok || s != got.V {
					add(i, fn, "not-last-submitted", fmt.Sprintf("GetScore=%d, last submitted %v (present %v)", got.V, s, ok))
				}
			}
		case "SNAP":
			seen := map[int64]bool{}
			if int64(len(got.Rows)) > limit {
				add(i, fn, "over-cap", fmt.Sprintf("%d entries, limit %d", len(got.Rows), limit))
			}
			if got.V != int64(len(got.Rows)) {
				add(i, fn, "size-disagrees", fmt.Sprintf("Size=%d, %d listed", got.V, len(got.Rows)))
			}
			for j, r := range got.Rows {
				if seen[r.ID] {
					add(i, fn, "duplicate-competitor", fmt.Sprintf("id %d listed twice", r.ID))
				}
				seen[r.ID] = true
				if !r.ScoreOK {
					add(i, fn, "listed-without-score", fmt.Sprintf("id %d", r.ID))
					continue
				}
				if s, ok := last[r.ID]; !ok || s != r.Score {
					add(i, fn, "not-last-submitted", fmt.Sprintf("id %d has score %d, last submitted %v (present %v)", r.ID, r.Score, s, ok))
				}
				if j > 0 && got.Rows[j-1].ScoreOK && goCmp(c.Asc, got.Rows[j-1].Score, r.Score) < 0 {
					add(i, fn, "not-sorted", fmt.Sprintf("rank %d score %d before rank %d score %d (asc=%v)", j-1, got.Rows[j-1].Score, j, r.Score, c.Asc))
				}
				if !r.RankOK || r.Rank != int64(j) {
					add(i, fn, "rank-not-inverse", fmt.Sprintf("id %d listed at %d, GetRank=%d ok=%v", r.ID, j, r.Rank, r.RankOK))
				}
				if r.At != r.ID {
					add(i, fn, "rank-not-inverse", fmt.Sprintf("GetCompetitor(%d)=%d, listed %d", j, r.At, r.ID))
				}
			}
		}
	}
	return
}

func coqOp(o Op) string {
	switch o.K {
	case "C":
		return vh.App("Competitor", vh.Z(o.A), vh.Z(o.B))
	case "R":
		return vh.App("Remove", vh.Z(o.A))
	case "Z":
		return "Size"
	case "GR":
		return vh.App("GetRank", vh.Z(o.A))
	case "GRD":
		return vh.App("GetRankDefault", vh.Z(o.A), vh.Z(o.B))
	case "GC":
		return vh.App("GetCompetitor", vh.Z(o.A))
	case "RG":
		return vh.App("GetRange", vh.Z(o.A), vh.Z(o.B))
	case "GS":
		return vh.App("GetScore", vh.Z(o.A))
	case "GSD":
		return vh.App("GetScoreDefault", vh.Z(o.A), vh.Z(o.B))
	case "GA":
		return "GetAll"
	case "X":
		return "Clear"
	case "CMP":
		return vh.App("Cmp", vh.Z(o.A), vh.Z(o.B))
	case "SNAP":
		return "Snapshot"
	}
	panic(o.K)
}

func coqRes(r Res) string {
	switch r.K {
	case "unit":
		return "OUnit"
	case "ev":
		it := make([]string, len(r.Ev))
		for i, e := range r.Ev {
			it[i] = fmt.Sprintf("(%s, %s, %s, %s, %s)", vh.Z(e[0]), vh.Z(e[1]), vh.Z(e[2]), vh.Z(e[3]), vh.Z(e[4]))
		}
		return vh.App("OEv", vh.List(it))
	case "int":
		return vh.App("OInt", vh.Z(r.V))
	case "err":
		switch r.E {
		case "notexist":
			return "(OErr ENotExist)"
		case "index":
			return "(OErr EIndex)"
		case "norank":
			return "(OErr ENoRank)"
		}
		return "OBad"
	case "list":
		return vh.App("OList", vh.ListZ(r.L))
	case "snap":
		it := make([]string, len(r.Rows))
		for i, row := range r.Rows {
			if !row.ScoreOK || !row.RankOK {
				return "OBad"
			}
			it[i] = fmt.Sprintf("(%s, %s, %s)", vh.Z(row.ID), vh.Z(row.Score), vh.Z(row.Rank))
		}
		return vh.App("OSnap", vh.Z(r.V), vh.List(it))
	}
	return "OBad"
}

func coqCase(id int, c *Case) string {
	ops := make([]string, len(c.Ops))
	for i, o := range c.Ops {
		ops[i] = coqOp(o)
	}
	rs := make([]string, len(c.Impl))
	for i, r := range c.Impl {
		rs[i] = coqRes(r)
	}
	cnt := "None"
	if c.Cnt != noCnt {
		cnt = vh.Some(vh.Z(c.Cnt))
	}
	return fmt.Sprintf("{| cid := %d; ccnt := %s; casc := %s; cops := %s; cimpl := %s |}", id, cnt, vh.Bool(c.Asc), vh.List(ops), vh.List(rs))
}

// shape of a recorded case, read off the snapshots (for the non-triviality rule and the distribution)
type shape struct{ tiesAtCap, ties, absent, evictions, updates int }

func analyse(c *Case) shape {
	limit := c.Cnt
	if c.Cnt == noCnt {
		limit = 100
	} else if c.Cnt <= 0 {
		limit = 1
	}
	var s shape
	var cur []Row
	has := func(id int64) bool {
		for _, r := range cur {
			if r.ID == id {
				return true
			}
		}
		return false
	}
	for i, o := range c.Ops {
		switch o.K {
		case "SNAP":
			cur = c.Impl[i].Rows
		case "X":
			cur = nil
		case "C":
			tie := false
			for _, r := range cur {
				if r.ID != o.A && r.Score == o.B {
					tie = true
				}
			}
			if tie {
				s.ties++
				if int64(len(cur)) >= limit && !has(o.A) {
					s.tiesAtCap++
				}
			}
			if has(o.A) {
				s.updates++
			}
			if len(c.Impl[i].Ev) == 2 {
				s.evictions++
			}
		case "R", "GR", "GS", "GRD", "GSD":
			if !has(o.A) {
				s.absent++
			}
		case "GC":
			if o.A < 0 || o.A >= int64(len(cur)) {
				s.absent++
			}
		}
	}
	return s
}

func genCase(rng *vh.RNG) Case {
	var c Case
	switch rng.Intn(10) {
	case 0:
		c.Cnt = noCnt
	case 1:
		c.Cnt = int64(rng.Range(-1, 0))
	case 2, 3:
		c.Cnt = 1
	case 4:
		c.Cnt = 1 << 20
	default:
		c.Cnt = int64(rng.Range(2, 6))
	}
	c.Asc = rng.Bool()
	c.KeyDom = 3
	switch rng.Intn(4) {
	case 0:
		c.KeyDom = 1 << 20
	case 1:
		c.KeyDom = 8
	}
	scoreDom := []int{2, 3, 5, 1 << 20}[rng.Intn(4)]
	negScores := rng.Chance(1, 4)
	var known []int64
	key := func() int64 {
		if c.KeyDom > 100 && len(known) > 0 && rng.Chance(2, 3) {
			return known[rng.Intn(len(known))]
		}
		k := int64(rng.Intn(c.KeyDom))
		if c.KeyDom > 100 {
			known = append(known, k)
		}
		return k
	}
	score := func() int64 {
		s := int64(rng.Intn(scoreDom))
		if negScores {
			s -= int64(scoreDom / 2)
		}
		return s
	}
	n := rng.Range(1, 45)
	long := false
	if c.Cnt == noCnt && rng.Chance(1, 3) {
		n = rng.Range(100, 140) // reach the default limit of 100
		c.KeyDom = 1 << 20
		long = true
	}
	for i := 0; i < n; i++ {
		x := rng.Intn(100)
		if long && i < 96 {
			c.Ops = append(c.Ops, Op{K: "C", A: int64(1000 + i), B: score()})
			continue
		}
		switch {
		case x < 52:
			c.Ops = append(c.Ops, Op{K: "C", A: key(), B: score()}, Op{K: "SNAP"})
		case x < 62:
			c.Ops = append(c.Ops, Op{K: "R", A: key()}, Op{K: "SNAP"})
		case x < 68:
			c.Ops = append(c.Ops, Op{K: "GR", A: key()})
		case x < 71:
			c.Ops = append(c.Ops, Op{K: "GRD", A: key(), B: int64(rng.Range(-3, 3))})
		case x < 77:
			c.Ops = append(c.Ops, Op{K: "GC", A: int64(rng.Range(-2, 7))})
		case x < 82:
			c.Ops = append(c.Ops, Op{K: "RG", A: int64(rng.Range(-1, 5)), B: int64(rng.Range(-1, 8))})
		case x < 88:
			c.Ops = append(c.Ops, Op{K: "GS", A: key()})
		case x < 90:
			c.Ops = append(c.Ops, Op{K: "GSD", A: key(), B: int64(rng.Range(-3, 3))})
		case x < 93:
			c.Ops = append(c.Ops, Op{K: "GA"})
		case x < 95:
			c.Ops = append(c.Ops, Op{K: "Z"})
		case x < 97:
			c.Ops = append(c.Ops, Op{K: "CMP", A: score(), B: score()})
		default:
			c.Ops = append(c.Ops, Op{K: "X"}, Op{K: "SNAP"})
		}
	}
	return c
}

func record(out *vh.Out, c *Case, coq bool) {
	runImpl(c)
	v := monitor(c)
	s := analyse(c)
	nt := s.tiesAtCap > 0 || (s.absent > 0 && s.ties > 0) || (s.evictions > 0 && s.updates > 0)
	out.Count("ops_len", vh.Bucket(len(c.Ops)))
	out.Count("cap", fmt.Sprint(c.Cnt))
	out.Count("asc", fmt.Sprint(c.Asc))
	out.Count("key_domain", fmt.Sprint(c.KeyDom))
	out.Count("ties", vh.Bucket(s.ties))
	out.Count("ties_at_cap", vh.Bucket(s.tiesAtCap))
	out.Count("absent_key_ops", vh.Bucket(s.absent))
	out.Count("evictions", vh.Bucket(s.evictions))
	out.Count("score_updates", vh.Bucket(s.updates))
	for _, o := range c.Ops {
		out.Count("op_mix", o.K)
	}
	for _, r := range c.Impl {
		if r.K == "hang" {
			out.OutOfFuel()
			break
		}
	}
	term := ""
	if coq {
		term = coqCase(out.N(), c)
	}
	out.Add(c, term, nt, v)
}

func corpus() []Case {
	C := func(id, s int64) Op { return Op{K: "C", A: id, B: s} }
	S := Op{K: "SNAP"}
	return []Case{
		// ties at the cap: equal score to the last entry is rejected, higher evicts the last
		{Cnt: 2, KeyDom: 3, Ops: []Op{C(1, 5), C(2, 5), S, C(3, 5), S, C(3, 6), S, {K: "GR", A: 2}, {K: "GR", A: 3}, {K: "GS", A: 2}}},
		// update among ties, both directions; rank lookup inside a run of equal scores
		{Cnt: 6, KeyDom: 8, Ops: []Op{C(1, 5), C(2, 5), C(3, 5), C(4, 5), C(5, 5), S, {K: "GR", A: 1}, {K: "GR", A: 5}, C(3, 7), S, C(1, 2), S, C(5, 5), S, C(4, 2), S}},
		{Cnt: 6, Asc: true, KeyDom: 8, Ops: []Op{C(1, 5), C(2, 5), C(3, 5), C(4, 1), C(5, 9), S, C(3, 7), S, C(1, 2), S, {K: "RG", A: 1, B: 9}, {K: "RG", A: 0, B: 2}, {K: "RG", A: 6, B: 7}}},
		// absent keys everywhere
		{Cnt: noCnt, KeyDom: 3, Ops: []Op{{K: "R", A: 1}, {K: "GR", A: 1}, {K: "GS", A: 1}, {K: "GC", A: 0}, {K: "GC", A: -1}, {K: "GA"}, {K: "Z"}, {K: "X"}, S, C(1, 1), {K: "R", A: 2}, S, {K: "R", A: 1}, {K: "R", A: 1}, S}},
		// limit 0 and -1 become 1
		{Cnt: 0, KeyDom: 3, Ops: []Op{C(1, 1), C(2, 1), S, C(2, 2), S, C(2, 1), S, C(1, 0), S}},
		{Cnt: -1, Asc: true, KeyDom: 3, Ops: []Op{C(1, 1), C(2, 1), S, C(2, 0), S, C(2, 3), S}},
		// update of the last entry to a lower score while full
		{Cnt: 3, KeyDom: 8, Ops: []Op{C(1, 9), C(2, 8), C(3, 7), S, C(3, 1), S, C(4, 5), S, C(1, 0), S, C(5, 0), S}},
	}
}

func main() {
	f := vh.ParseFlags()
	if f.Replay != "" {
		var c Case
		vh.LoadReplayCase(f.Replay, &c)
		want := append([]Res(nil), c.Impl...)
		runImpl(&c)
		v := monitor(&c)
		b, _ := json.Marshal(map[string]interface{}{"case": c, "recorded_impl": want, "monitor": v})
		fmt.Println(string(b))
		if len(v) > 0 {
			os.Exit(1)
		}
		return
	}
	out := vh.NewOut(f.Out, "rank", "From MV Require Import Lib.ListX C16.MapX C16.RankModel C16.RankRun.", "case", "mismatches", f.Seed,
		"random histories (1..45 ops, 100..140 for the default limit) over key domains {3,8,2^20}, score domains {2,3,5,2^20} (optionally negative), limits {default 100,-1,0,1,2..6,2^20}, asc/desc; a snapshot (Size, GetAllCompetitor, GetScore/GetRank/GetCompetitor per entry) after every mutation; thorough adds every history of <=4 mutations over (limit+1) ids x 2 scores + removes for limits 1,2, asc and desc; non-trivial = a new competitor whose score ties an entry while the board is full, or an absent-key operation in a history with ties, or an eviction in a history with score updates; distinct by hash of the case")
	out.PerShard = 100
	rng := vh.NewRNG(f.Seed)
	for _, c := range corpus() {
		c := c
		record(out, &c, true)
	}
	n := f.N
	if n == 0 {
		n = 600
		if f.Tier == "thorough" {
			n = 8000
		}
	}
	for i := 0; i < n; i++ {
		cr, _ := rng.Derive()
		c := genCase(cr)
		record(out, &c, true)
	}
	if f.Tier == "thorough" {
		mkAlpha := func(ids int64) []Op {
			var alpha []Op
			for id := int64(1); id <= ids; id++ {
				for s := int64(1); s <= 2; s++ {
					alpha = append(alpha, Op{K: "C", A: id, B: s})
				}
				alpha = append(alpha, Op{K: "R", A: id})
			}
			return alpha
		}
		for _, cnt := range []int64{1, 2} {
			alpha := mkAlpha(cnt + 1) // limit 1: 2 ids, limit 2: 3 ids
			for _, asc := range []bool{false, true} {
				var rec func(prefix []Op, depth int)
				rec = func(prefix []Op, depth int) {
					if len(prefix) > 0 {
						c := Case{Cnt: cnt, Asc: asc, KeyDom: 3}
						for _, o := range prefix {
							c.Ops = append(c.Ops, o, Op{K: "SNAP"})
						}
						record(out, &c, true)
					}
					if depth == 0 {
						return
					}
					for _, o := range alpha {
						rec(append(prefix[:len(prefix):len(prefix)], o), depth-1)
					}
				}
				rec(nil, 4)
			}
		}
	}
	out.Close()
}
