package main

import (
	"fmt"
	"strings"
	"sync"
	"sync/atomic"
	"time"

	"github.com/kercylan98/minotaur/engine/prc"
	"google.golang.org/grpc/encoding"
	_ "google.golang.org/grpc/encoding/proto"
)

// ---------------------------------------------------------------- wire observer
//
// Every gRPC message of the process is marshalled by the codec registered under the name "proto".
// The harness re-registers that name with a wrapper that looks at outgoing *prc.SharedMessage values
// (public API of grpc: encoding.RegisterCodec) — this is how the sizes of the batches that the stream
// sender actually put on the wire are observed without touching the repository.
type wireObserver struct {
	inner   encoding.Codec
	mu      sync.Mutex
	batches map[int]int // batch size -> count (single DeliveryMessage = 1)
	maxB    int
	empty   int
}

var wire *wireObserver

func installWireObserver() {
	inner := encoding.GetCodec("proto")
	wire = &wireObserver{inner: inner, batches: map[int]int{}}
	encoding.RegisterCodec(wire)
}

func (w *wireObserver) Name() string { return "proto" }
func (w *wireObserver) Marshal(v any) ([]byte, error) {
	if sm, ok := v.(*prc.SharedMessage); ok {
		switch m := sm.MessageType.(type) {
		case *prc.SharedMessage_DeliveryMessage:
			w.note(1)
		case *prc.SharedMessage_BatchDeliveryMessage:
			w.note(len(m.BatchDeliveryMessage.GetMessages()))
		}
	}
	return w.inner.Marshal(v)
}
func (w *wireObserver) Unmarshal(data []byte, v any) error { return w.inner.Unmarshal(data, v) }
func (w *wireObserver) note(n int) {
	w.mu.Lock()
	w.batches[n]++
	if n > w.maxB {
		w.maxB = n
	}
	if n == 0 {
		w.empty++
	}
	w.mu.Unlock()
}
func (w *wireObserver) reset() {
	w.mu.Lock()
	w.batches, w.maxB, w.empty = map[int]int{}, 0, 0
	w.mu.Unlock()
}
func (w *wireObserver) snapshot() (hist map[int]int, maxB, empty int) {
	w.mu.Lock()
	defer w.mu.Unlock()
	hist = map[int]int{}
	for n, c := range w.batches {
		hist[n] = c
	}
	return hist, w.maxB, w.empty
}

// ---------------------------------------------------------------- flows

// A flow is "messages from one sender to one receiver" of one class (user / system): the unit over which
// the property promises exactly-once, in-order delivery. Sequence numbers are 0,1,2,… in sending order.
type flow struct {
	ID           string
	Src, Dst     int    // node indices
	Sender       string // logical address of the sender identity on Src ("" = nil sender)
	Recv         string // logical address of the receiver on Dst
	System       bool
	Wrap         bool // sent as *prc.MessageWrapper (the form vivid uses) or raw
	PK           int
	Lean         bool   // contents of 0..8 runes instead of the ordinary mix
	Mode         string // tell | ask | future (vivid scenarios); prc scenarios: tell
	senderPid    *prc.ProcessId
	recvPid      *prc.ProcessId // value used for comparisons
	ref          *prc.ProcessId // THE reference object the sender holds for the receiver (obtained once)
	sharedRef    bool           // the reference object is used by other senders too
	senderPrefix bool           // futures: the sender is a child "<asker>/<n>" of the asking actor

	sent int      // next sequence number (owned by the sending goroutine)
	must [][2]int // [lo,hi) ranges sent while the link was verified up: have to arrive, all of them

	mu        sync.Mutex
	delivered []int
	replies   []int // ask/future flows: sequence numbers of the replies that reached the asker
	bad       map[string]string
	arrivals  atomic.Int64
}

func (f *flow) note(class, detail string) {
	f.mu.Lock()
	if f.bad == nil {
		f.bad = map[string]string{}
	}
	if _, ok := f.bad[class]; !ok {
		f.bad[class] = detail
	}
	f.mu.Unlock()
}

func (f *flow) deliveredCount() int {
	f.mu.Lock()
	defer f.mu.Unlock()
	return len(f.delivered)
}

func (f *flow) replyCount() int {
	f.mu.Lock()
	defer f.mu.Unlock()
	return len(f.replies)
}

func (f *flow) hasDeliveredAtLeast(seq int) bool {
	f.mu.Lock()
	defer f.mu.Unlock()
	for i := len(f.delivered) - 1; i >= 0; i-- {
		if f.delivered[i] >= seq {
			return true
		}
	}
	return false
}

type world struct {
	flows   map[string]*flow
	order   []*flow
	addr    []string // physical address per node
	mu      sync.Mutex
	strange []string // deliveries that belong to no flow
	panics  []string
	hasSize atomic.Bool
	sizes   map[string]int // key(flow, seq) -> content bytes of the messages that carry a LARGE payload (set before they are sent)
}

func newWorld() *world { return &world{flows: map[string]*flow{}, sizes: map[string]int{}} }

// setSize plans a large payload: message seq of flow f will carry about `bytes` encoded payload bytes.
func (w *world) setSize(f *flow, seq, bytes int) {
	w.mu.Lock()
	w.sizes[key(f.ID, seq)] = contentLen(f.PK, bytes)
	w.mu.Unlock()
	w.hasSize.Store(true)
}

// contentOf is the content message seq of flow f has to carry: the sender builds it, the receiver re-builds it.
func (w *world) contentOf(flowID string, seq int) string {
	if f := w.flows[flowID]; f != nil && f.Lean { // (the flow table is complete before the first message is sent)
		return leanContent(flowID, seq)
	}
	if !w.hasSize.Load() {
		return content(flowID, seq)
	}
	w.mu.Lock()
	n := w.sizes[key(flowID, seq)]
	w.mu.Unlock()
	if n > 0 {
		return bigContent(flowID, seq, n)
	}
	return content(flowID, seq)
}

func (w *world) addFlow(f *flow) {
	w.flows[f.ID] = f
	w.order = append(w.order, f)
}

func (w *world) notePanic(where string, r any) {
	w.mu.Lock()
	if len(w.panics) < 5 {
		w.panics = append(w.panics, fmt.Sprintf("%s: %v", where, r))
	}
	w.mu.Unlock()
}

func samePid(a, b *prc.ProcessId) bool {
	if a == nil || b == nil {
		return a == nil && b == nil
	}
	return a.GetPhysicalAddress() == b.GetPhysicalAddress() && a.GetLogicalAddress() == b.GetLogicalAddress()
}

// arrived is called by the receiving process/actor for every message it is handed.
// node = index of the node the receiver lives on; recv = its logical address; system = delivered through
// DeliverySystemMessage; sender/receiver = identities handed over with the message; inner = the decoded payload.
func (w *world) arrived(node int, recv string, system bool, sender, receiver *prc.ProcessId, inner any) *flow {
	pk, k, c, intact := parsePayload(inner)
	fid, seq, ok := splitKey(k)
	var f *flow
	if ok {
		f = w.flows[fid]
	}
	if pk < 0 || f == nil {
		w.mu.Lock()
		if len(w.strange) < 5 {
			w.strange = append(w.strange, fmt.Sprintf("node %d %s got %T", node, recv, inner))
		}
		w.mu.Unlock()
		return nil
	}
	if pk != f.PK {
		f.note("type", fmt.Sprintf("seq %d: sent payload kind %d, received %T", seq, f.PK, inner))
	}
	if want := w.contentOf(f.ID, seq); c != want || !intact {
		f.note("content", fmt.Sprintf("seq %d: sent %s received %s (carrier intact=%v)", seq, short(want), short(c), intact))
	}
	if node != f.Dst || recv != f.Recv {
		f.note("misrouted", fmt.Sprintf("seq %d addressed to node %d %s arrived at node %d %s", seq, f.Dst, f.Recv, node, recv))
	}
	if system != f.System {
		f.note("class", fmt.Sprintf("seq %d: sent system=%v delivered system=%v", seq, f.System, system))
	}
	if f.senderPrefix {
		if sender == nil || sender.GetPhysicalAddress() != f.senderPid.GetPhysicalAddress() ||
			!strings.HasPrefix(sender.GetLogicalAddress(), strings.TrimSuffix(f.Sender, "/")+"/") {
			f.note("sender-identity", fmt.Sprintf("seq %d: asked through a future of %s, delivered with sender %s", seq, pidStr(f.senderPid), pidStr(sender)))
		}
	} else if !samePid(sender, f.senderPid) {
		f.note("sender-identity", fmt.Sprintf("seq %d: sent by %s, delivered with sender %s", seq, pidStr(f.senderPid), pidStr(sender)))
	}
	if receiver != nil && !samePid(receiver, f.recvPid) {
		f.note("receiver-identity", fmt.Sprintf("seq %d: addressed to %s, delivered with receiver %s", seq, pidStr(f.recvPid), pidStr(receiver)))
	}
	f.mu.Lock()
	f.delivered = append(f.delivered, seq)
	f.mu.Unlock()
	f.arrivals.Add(1)
	return f
}

// lossSeen counts expired delivery watchdogs of this run: after two of them the later scenarios wait 2 s
// instead of 20 s, so that a tree that delivers nothing is still judged in reasonable time.
var lossSeen atomic.Int64

func mustWait(d time.Duration) time.Duration {
	if lossSeen.Load() >= 2 && d > 2*time.Second {
		return 2 * time.Second
	}
	return d
}

// waitFor polls cond until it holds or the watchdog expires (never blocks for ever).
func waitFor(timeout time.Duration, cond func() bool) bool {
	deadline := time.Now().Add(timeout)
	for {
		if cond() {
			return true
		}
		if time.Now().After(deadline) {
			return false
		}
		time.Sleep(2 * time.Millisecond)
	}
}

// waitDelivery is waitFor for "everything that has to arrive has arrived".
func waitDelivery(timeout time.Duration, cond func() bool) bool {
	ok := waitFor(mustWait(timeout), cond)
	if !ok {
		lossSeen.Add(1)
	}
	return ok
}

// withWatchdog runs f; false if it did not return in time (the goroutine is abandoned).
func withWatchdog(timeout time.Duration, f func()) (finished bool, panicked any) {
	done := make(chan any, 1)
	go func() {
		defer func() { done <- recover() }()
		f()
	}()
	select {
	case p := <-done:
		return true, p
	case <-time.After(timeout):
		return false, nil
	}
}

// intervals compresses a sequence of ints into maximal runs [lo,hi) of consecutive values, in order of
// appearance (a strictly increasing sequence gives strictly increasing disjoint intervals).
func intervals(xs []int) [][2]int {
	var out [][2]int
	for _, x := range xs {
		if n := len(out); n > 0 && out[n-1][1] == x {
			out[n-1][1] = x + 1
		} else {
			out = append(out, [2]int{x, x + 1})
		}
	}
	return out
}
