package main

import (
	"fmt"
	"strings"
	"sync"
	"time"

	"github.com/kercylan98/minotaur/engine/future"
	"github.com/kercylan98/minotaur/engine/prc"
	"github.com/kercylan98/minotaur/engine/vivid"
	"github.com/kercylan98/minotaur/toolkit/log"
	"verif/harness/vh"
)

// ---------------------------------------------------------------- vivid-level scenario
//
// Two real vivid.ActorSystem with sharing enabled on 127.0.0.1:0. Receivers are recording actors that
// answer asks with ctx.Reply; senders are actors (ctx.Tell / ctx.Ask / ctx.FutureAsk, serial inside the
// actor) or the system itself (sys.Tell from a goroutine; sys.FutureAsk from ONE goroutine per system,
// after the link is warm — concurrent ActorSystem.FutureAsk is the separate defect of C07 and the
// share-opened hook of vivid itself calls it). vivid.FutureAsk (the typed helper) is not used.

type vnode struct {
	idx  int
	sys  *vivid.ActorSystem
	addr string
}

type cmdBurst struct {
	f    *flow
	n    int
	done chan []pendingFuture
}

type pendingFuture struct {
	seq int
	fu  future.Future[vivid.Message]
}

const replyPrefix = "re:"

func replyFor(f *flow, seq int) *prc.ProcessId {
	return &prc.ProcessId{LogicalAddress: replyPrefix + key(f.ID, seq), PhysicalAddress: content(replyPrefix+f.ID, seq)}
}

// checkReply judges a reply that reached the asker of flow f.
func (w *world) gotReply(m any, from *prc.ProcessId, viaFuture bool) {
	p, ok := m.(*prc.ProcessId)
	if !ok || p == nil || !strings.HasPrefix(p.LogicalAddress, replyPrefix) {
		w.mu.Lock()
		if len(w.strange) < 5 {
			w.strange = append(w.strange, fmt.Sprintf("an asker got %T instead of a reply", m))
		}
		w.mu.Unlock()
		return
	}
	fid, seq, ok := splitKey(p.LogicalAddress[len(replyPrefix):])
	f := w.flows[fid]
	if !ok || f == nil {
		return
	}
	if want := content(replyPrefix+f.ID, seq); p.PhysicalAddress != want {
		f.note("reply-content", fmt.Sprintf("reply %d: sent %s received %s", seq, short(want), short(p.PhysicalAddress)))
	}
	if !viaFuture && !samePid(from, f.recvPid) {
		f.note("reply-sender-identity", fmt.Sprintf("reply %d: replied by %s, delivered with sender %s", seq, pidStr(f.recvPid), pidStr(from)))
	}
	f.mu.Lock()
	f.replies = append(f.replies, seq)
	f.mu.Unlock()
}

func newVNode(w *world, idx int) (n *vnode, err error) {
	defer func() {
		if r := recover(); r != nil {
			err = fmt.Errorf("%v", r)
		}
	}()
	n = &vnode{idx: idx}
	n.sys = vivid.NewActorSystem(vivid.FunctionalActorSystemConfigurator(func(c *vivid.ActorSystemConfiguration) {
		c.WithShared("127.0.0.1:0")
		c.WithLoggerProvider(log.FunctionalLoggerProvider(func() *log.Logger { return silent }))
		c.WithName(fmt.Sprintf("n%d", idx))
	}))
	n.addr = n.sys.PhysicalAddress()
	return n, nil
}

func (n *vnode) spawnReceiver(w *world, k int) string {
	name := fmt.Sprintf("r%d", k)
	var la string
	ref := n.sys.ActorOfF(func() vivid.Actor {
		return vivid.FunctionalActor(func(ctx vivid.ActorContext) {
			switch m := ctx.Message().(type) {
			case *prc.ProcessId, *prc.DeliveryMessage:
				_, kk, _, _ := parsePayload(m)
				fid, seq, ok := splitKey(kk)
				if !ok {
					return
				}
				f := w.arrived(n.idx, la, false, ctx.Sender(), nil, m)
				if f != nil && f.ID == fid && (f.Mode == "ask" || f.Mode == "future" || f.Mode == "sysfuture") {
					ctx.Reply(replyFor(f, seq))
				}
			}
		})
	}, func(d *vivid.ActorDescriptor) { d.WithName(name) })
	la = ref.GetLogicalAddress()
	return la
}

func (n *vnode) spawnSender(w *world, j int) vivid.ActorRef {
	return n.sys.ActorOfF(func() vivid.Actor {
		return vivid.FunctionalActor(func(ctx vivid.ActorContext) {
			switch m := ctx.Message().(type) {
			case *cmdBurst:
				var fs []pendingFuture
				f := m.f
				for i := 0; i < m.n; i++ {
					seq := f.sent
					f.sent++
					msg := payload(f.PK, key(f.ID, seq), content(f.ID, seq))
					func() {
						defer func() {
							if r := recover(); r != nil {
								w.notePanic("send on flow "+f.ID, r)
							}
						}()
						switch f.Mode {
						case "tell":
							ctx.Tell(f.ref, msg)
						case "ask":
							ctx.Ask(f.ref, msg)
						case "future":
							fs = append(fs, pendingFuture{seq, ctx.FutureAsk(f.ref, msg, 15*time.Second)})
						}
					}()
				}
				m.done <- fs
			case *prc.ProcessId:
				w.gotReply(m, ctx.Sender(), false)
			}
		})
	}, func(d *vivid.ActorDescriptor) { d.WithName(fmt.Sprintf("s%d", j)) })
}

func collectFutures(w *world, f *flow, fs []pendingFuture) {
	for _, p := range fs {
		failed := false
		fin, _ := withWatchdog(20*time.Second, func() {
			m, err := p.fu.Result()
			if err != nil {
				f.note("future-error", fmt.Sprintf("ask %d: future ended with %v", p.seq, err))
				failed = true
				return
			}
			w.gotReply(m, nil, true)
		})
		if !fin {
			f.note("future-hang", fmt.Sprintf("ask %d: the future neither completed nor timed out within 20 s", p.seq))
			return
		}
		if failed {
			return // the later futures of the burst were asked at the same time: do not wait for each of them
		}
	}
}

func runVivid(sc *Scenario) *Result {
	res := &Result{Scenario: *sc}
	w := newWorld()
	wire.reset()
	var nodes []*vnode
	for i := 0; i < 2; i++ {
		n, err := newVNode(w, i)
		if err != nil {
			res.Infra = "cannot start an actor system on loopback: " + err.Error()
			return res
		}
		nodes = append(nodes, n)
		w.addr = append(w.addr, n.addr)
	}
	defer func() {
		for _, n := range nodes {
			n := n
			withWatchdog(2*time.Second, func() { n.sys.Shutdown(true) })
		}
	}()
	recvLA := make([][]string, 2)
	for i, n := range nodes {
		for k := 0; k < sc.NRecv; k++ {
			recvLA[i] = append(recvLA[i], n.spawnReceiver(w, k))
		}
	}
	senderRef := make([]vivid.ActorRef, len(sc.Senders))
	isSys := make([]bool, len(sc.Senders))
	for si, sp := range sc.Senders {
		if len(sp.Flows) > 0 && strings.HasPrefix(sc.Flows[sp.Flows[0]].Mode, "sys") {
			isSys[si] = true
			continue
		}
		senderRef[si] = nodes[sp.Node].spawnSender(w, si)
	}
	ownerOf := map[int]int{}
	for si, sp := range sc.Senders {
		for _, fi := range sp.Flows {
			ownerOf[fi] = si
		}
	}
	for i, fs := range sc.Flows {
		dst := 1 - fs.Src
		si := ownerOf[i]
		f := &flow{ID: fmt.Sprintf("v%d", i), Src: fs.Src, Dst: dst, Recv: recvLA[dst][fs.Recv], PK: fs.PK, Mode: fs.Mode}
		f.recvPid = prc.NewProcessId(w.addr[dst], f.Recv)
		// a reference to a remote actor is built from its address (NewActorRef), never the local object
		f.ref = vivid.NewActorRef(w.addr[dst], f.Recv)
		switch fs.Mode {
		case "ask":
			f.Sender = senderRef[si].GetLogicalAddress()
			f.senderPid = prc.NewProcessId(w.addr[fs.Src], f.Sender)
		case "future":
			f.Sender = senderRef[si].GetLogicalAddress()
			f.senderPrefix = true
			f.senderPid = prc.NewProcessId(w.addr[fs.Src], f.Sender)
		case "sysfuture":
			f.Sender = nodes[fs.Src].sys.Context().Ref().GetLogicalAddress()
			f.senderPrefix = true
			f.senderPid = prc.NewProcessId(w.addr[fs.Src], f.Sender)
		}
		w.addFlow(f)
	}
	// warm link: one Tell each way, delivered, before anything else
	for src := 0; src < 2; src++ {
		f := &flow{ID: fmt.Sprintf("warm%d", src), Src: src, Dst: 1 - src, Recv: recvLA[1-src][0], PK: pkPid, Mode: "systell"}
		f.recvPid = prc.NewProcessId(w.addr[1-src], f.Recv)
		f.ref = vivid.NewActorRef(w.addr[1-src], f.Recv)
		w.addFlow(f)
		nodes[src].sys.Tell(f.ref, payload(f.PK, key(f.ID, 0), content(f.ID, 0)))
		f.sent = 1
		f.must = [][2]int{{0, 1}}
		if !waitDelivery(10*time.Second, func() bool { return f.deliveredCount() >= 1 }) {
			res.finishFlows(w)
			return res
		}
		time.Sleep(60 * time.Millisecond)
	}

	for e := range sc.Epochs {
		var wg sync.WaitGroup
		for si := range sc.Senders {
			wg.Add(1)
			go func(si int) {
				defer wg.Done()
				n := nodes[sc.Senders[si].Node]
				for _, b := range sc.Epochs[e][si] {
					f := w.order[b.Flow]
					lo := f.sent
					if isSys[si] {
						for i := 0; i < b.N; i++ {
							seq := f.sent
							f.sent++
							msg := payload(f.PK, key(f.ID, seq), content(f.ID, seq))
							func() {
								defer func() {
									if r := recover(); r != nil {
										w.notePanic("send on flow "+f.ID, r)
									}
								}()
								if f.Mode == "systell" {
									n.sys.Tell(f.ref, msg)
								} else {
									collectFutures(w, f, []pendingFuture{{seq, n.sys.FutureAsk(f.ref, msg, 15*time.Second)}})
								}
							}()
						}
					} else {
						done := make(chan []pendingFuture, 1)
						n.sys.Tell(senderRef[si], &cmdBurst{f: f, n: b.N, done: done})
						select {
						case fs := <-done:
							collectFutures(w, f, fs)
						case <-time.After(30 * time.Second):
							f.note("sender-stuck", "the sending actor did not finish its burst within 30 s")
							return
						}
					}
					if b.N > 0 {
						f.must = append(f.must, [2]int{lo, lo + b.N})
					}
				}
			}(si)
		}
		wg.Wait()
		ok := waitDelivery(20*time.Second, func() bool {
			for _, f := range w.order {
				want := 0
				for _, m := range f.must {
					want += m[1] - m[0]
				}
				if f.deliveredCount() < want {
					return false
				}
				if (f.Mode == "ask" || f.Mode == "future" || f.Mode == "sysfuture") && f.replyCount() < want {
					return false
				}
			}
			return true
		})
		if !ok {
			break
		}
	}
	time.Sleep(30 * time.Millisecond)
	res.finishFlows(w)
	return res
}

func genVivid(rng *vh.RNG, seed uint64, budget int) *Scenario {
	sc := &Scenario{Kind: "vivid", Seed: seed, Warm: true, NRecv: rng.Range(1, 2)}
	sizes := []int{1, 2, 5, 50, 300, 1023, 1024, 1025, 2049}
	sysFuture := [2]bool{}
	nS := rng.Range(2, 5)
	for s := 0; s < nS; s++ {
		node := s % 2
		sp := SenderSpec{Node: node}
		system := rng.Chance(1, 4)
		nf := rng.Range(1, 2)
		used := map[int]bool{}
		for k := 0; k < nf; k++ {
			fs := FlowSpec{Src: node, Sender: s, Recv: rng.Intn(sc.NRecv), PK: rng.Intn(2), OwnRef: true}
			if used[fs.Recv] {
				continue
			}
			used[fs.Recv] = true
			if system {
				fs.Mode = "systell"
				fs.Sender = -1
				if !sysFuture[node] && rng.Bool() {
					fs.Mode = "sysfuture"
					sysFuture[node] = true
				}
			} else {
				fs.Mode = []string{"tell", "ask", "future"}[rng.Intn(3)]
				if fs.Mode == "tell" {
					fs.Sender = -1
				}
			}
			sp.Flows = append(sp.Flows, len(sc.Flows))
			sc.Flows = append(sc.Flows, fs)
		}
		sc.Senders = append(sc.Senders, sp)
	}
	ep := make([][]Burst, len(sc.Senders))
	for si, sp := range sc.Senders {
		nb := rng.Range(1, 2)
		for b := 0; b < nb && len(sp.Flows) > 0; b++ {
			fi := sp.Flows[rng.Intn(len(sp.Flows))]
			n := sizes[rng.Intn(len(sizes))]
			if sc.Flows[fi].Mode == "sysfuture" && n > 50 {
				n = 1 + rng.Intn(50) // serial round trips
			}
			if n > budget {
				n = 1 + rng.Intn(8)
			}
			budget -= n
			ep[si] = append(ep[si], Burst{Flow: fi, N: n})
		}
	}
	sc.Epochs = [][][]Burst{ep}
	return sc
}

func vividCorpus() []*Scenario {
	mk := func(mode string, n int) *Scenario {
		s := -1
		if mode == "ask" || mode == "future" {
			s = 0
		}
		return &Scenario{Kind: "vivid", Warm: true, NRecv: 1,
			Flows:   []FlowSpec{{Src: 0, Sender: s, Recv: 0, PK: pkPid, OwnRef: true, Mode: mode}, {Src: 1, Sender: s, Recv: 0, PK: pkDelivery, OwnRef: true, Mode: mode}},
			Senders: []SenderSpec{{Node: 0, Flows: []int{0}}, {Node: 1, Flows: []int{1}}},
			Epochs:  [][][]Burst{{{{Flow: 0, N: n}}, {{Flow: 1, N: n}}}}}
	}
	return []*Scenario{mk("tell", 1025), mk("ask", 1025), mk("future", 1025), mk("systell", 2049), mk("sysfuture", 20)}
}
