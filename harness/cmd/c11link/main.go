// c11link: tie T1 of property C11 on the REAL code. Two real nodes on 127.0.0.1 with ephemeral ports
// (prc.ResourceController + prc.Shared, or two vivid.ActorSystem with sharing enabled) exchange
// sequence-numbered protobuf payloads over real loopback gRPC: concurrent senders in both directions,
// counts below/at/above the batch limit, asks and futures across nodes, Close()/Share() cycles.
// Go-side monitors restate the property on what the receivers observed; every case is also handed to
// Coq, where the link model MV.C11.LinkModel predicts the delivery of break-free flows and the verified
// checker accepts exactly the order-preserving duplicate-free sub-sequences for flows that saw an outage.
package main

import (
	"encoding/json"
	"fmt"
	"os"
	"sort"
	"strings"
	"time"

	tlog "github.com/kercylan98/minotaur/toolkit/log"
	"verif/harness/vh"
)

type FlowSpec struct {
	Src    int    `json:"src"`              // sending node (0/1); the receiver lives on the other node
	Sender int    `json:"sender"`           // sender identity index, -1 = nil sender
	Recv   int    `json:"recv"`             // receiver index on the destination node
	System bool   `json:"system,omitempty"` // DeliverySystemMessage instead of DeliveryUserMessage
	Wrap   bool   `json:"wrap,omitempty"`   // handed over as *prc.MessageWrapper (the form vivid uses)
	PK     int    `json:"pk"`               // payload carrier
	OwnRef bool   `json:"own_ref"`          // the flow holds its own reference object / shares one per (node, receiver)
	Mode   string `json:"mode,omitempty"`   // vivid: tell | ask | future | systell | sysfuture
}
type SenderSpec struct {
	Node  int   `json:"node"`
	Flows []int `json:"flows"`
}
type Burst struct {
	Flow int `json:"flow"`
	N    int `json:"n"`
}
type Outage struct {
	Node     int  `json:"node"`     // whose Shared is closed and re-shared
	Inflight bool `json:"inflight"` // traffic keeps flowing while the link goes down
	DownMs   int  `json:"down_ms"`
}
type Scenario struct {
	Kind      string       `json:"kind"` // prc | vivid
	Seed      uint64       `json:"seed"`
	Warm      bool         `json:"warm"` // link established (one message each way) before the traffic starts
	NRecv     int          `json:"nrecv"`
	Flows     []FlowSpec   `json:"flows"`
	Senders   []SenderSpec `json:"senders"` // one goroutine (prc) / one actor (vivid) each
	Epochs    [][][]Burst  `json:"epochs"`  // [epoch][sender] -> bursts, executed in order
	Outages   []Outage     `json:"outages"` // outage i happens between epoch i and i+1 (prc only)
	RecoverMs int          `json:"recover_ms"`
}

func (sc *Scenario) racing() bool {
	if !sc.Warm {
		return true
	}
	for _, o := range sc.Outages {
		if o.Inflight {
			return true
		}
	}
	return false
}

type FlowResult struct {
	ID        string            `json:"id"`
	Sent      int               `json:"sent"`
	Delivered [][2]int          `json:"delivered"` // arrival order, compressed into runs [lo,hi)
	Must      [][2]int          `json:"must"`      // sent while the link was verified up
	Replies   [][2]int          `json:"replies,omitempty"`
	HasReply  bool              `json:"has_reply,omitempty"`
	Bad       map[string]string `json:"bad,omitempty"`
}

type Result struct {
	Scenario
	FlowsOut    []FlowResult   `json:"flows_out"`
	Breaks      int            `json:"breaks"`
	MaxBatch    int            `json:"max_batch"`
	Batches     map[string]int `json:"batches"`
	DeadLetters int            `json:"dead_letters"`
	Opened      int            `json:"opened"`
	Closed      int            `json:"closed"`
	Infra       string         `json:"infra,omitempty"` // the sandbox failed us (no loopback …): not a verdict
	Panics      []string       `json:"panics,omitempty"`
	Strange     []string       `json:"strange,omitempty"`
	WallMs      int            `json:"wall_ms"`
	viol        []vh.Violation
}

func (r *Result) addViol(kind, detail string, sig map[string]string) {
	for _, v := range r.viol {
		if v.Kind == kind {
			return
		}
	}
	r.viol = append(r.viol, vh.Violation{Kind: kind, Detail: detail, Sig: sig})
}

func batchBucket(n int) string {
	switch {
	case n == 1:
		return "1"
	case n < 512:
		return "2-511"
	case n < 1023:
		return "512-1022"
	case n == 1023:
		return "1023"
	case n == 1024:
		return "1024(limit)"
	}
	return ">1024"
}

// finishFlows runs the flow monitors: a brute-force restatement of the property on the observations.
func (r *Result) finishFlows(w *world) {
	hist, maxB, _ := wire.snapshot()
	r.MaxBatch = maxB
	r.Batches = map[string]int{}
	for n, c := range hist {
		r.Batches[batchBucket(n)] += c
	}
	linkSig := "up"
	if r.Breaks > 0 {
		linkSig = "reopened"
	}
	dials := "settled"
	if r.Scenario.racing() {
		dials = "racing"
	}
	for _, f := range w.order {
		f.mu.Lock()
		d := append([]int(nil), f.delivered...)
		rep := append([]int(nil), f.replies...)
		bad := map[string]string{}
		for k, v := range f.bad {
			bad[k] = v
		}
		f.mu.Unlock()
		fr := FlowResult{ID: f.ID, Sent: f.sent, Delivered: intervals(d), Must: f.must, Bad: bad}
		if f.Mode == "ask" || f.Mode == "future" || f.Mode == "sysfuture" {
			fr.HasReply = true
			fr.Replies = intervals(rep)
		}
		if len(bad) == 0 {
			fr.Bad = nil
		}
		r.FlowsOut = append(r.FlowsOut, fr)
		where := fmt.Sprintf("flow %s (node %d %s -> node %d %s, system=%v, mode=%s, sent %d)", f.ID, f.Src, orNil(f.Sender), f.Dst, f.Recv, f.System, f.Mode, f.sent)
		sig := map[string]string{"link": linkSig, "dials": dials, "ref": "own"}
		if f.sharedRef {
			sig["ref"] = "shared"
		}
		r.judgeSeq("flow", where, d, f.sent, f.must, sig)
		if fr.HasReply {
			// the replies to the asks of one asker come from one responder: same promise in the other direction
			r.judgeSeq("reply", where, rep, f.sent, f.must, sig)
		}
		classes := make([]string, 0, len(bad))
		for k := range bad {
			classes = append(classes, k)
		}
		sort.Strings(classes)
		for _, k := range classes {
			r.addViol("link:flow:"+k, where+": "+bad[k], sig)
		}
	}
	w.mu.Lock()
	r.Panics, r.Strange = w.panics, w.strange
	w.mu.Unlock()
	if len(r.Strange) > 0 {
		r.addViol("link:flow:invented", "a receiver was handed something nobody sent: "+strings.Join(r.Strange, "; "), nil)
	}
	if len(r.Panics) > 0 {
		r.addViol("link:send:panic", "sending panicked: "+strings.Join(r.Panics, "; "), map[string]string{"link": linkSig})
	}
}

func orNil(s string) string {
	if s == "" {
		return "<nil sender>"
	}
	return s
}

// judgeSeq: the arrival sequence d of one flow (sent 0..sent-1 in order) must be strictly increasing
// (no duplicate, no reordering), contain nothing that was not sent, and contain every number of the
// must ranges (sent while the link was up).
func (r *Result) judgeSeq(what, where string, d []int, sent int, must [][2]int, sig map[string]string) {
	seen := map[int]bool{}
	hi := -1
	for i, s := range d {
		if s < 0 || s >= sent {
			r.addViol("link:"+what+":invented", fmt.Sprintf("%s: sequence number %d arrived but only 0..%d were sent", where, s, sent-1), sig)
			continue
		}
		if seen[s] {
			r.addViol("link:"+what+":duplicate", fmt.Sprintf("%s: sequence number %d arrived twice (arrival #%d)", where, s, i), sig)
		} else if s < hi {
			r.addViol("link:"+what+":reorder", fmt.Sprintf("%s: %d arrived after %d (arrival #%d)", where, s, hi, i), sig)
		}
		seen[s] = true
		if s > hi {
			hi = s
		}
	}
	missing, first := 0, -1
	for _, m := range must {
		for s := m[0]; s < m[1]; s++ {
			if !seen[s] {
				missing++
				if first < 0 {
					first = s
				}
			}
		}
	}
	if missing > 0 {
		r.addViol("link:"+what+":lost", fmt.Sprintf("%s: %d message(s) sent while the link was up never arrived (first missing: %d; arrived %d)", where, missing, first, len(d)), sig)
	}
}

// ---------------------------------------------------------------- Coq terms

func coqIvs(iv [][2]int) string {
	it := make([]string, len(iv))
	for i, x := range iv {
		it[i] = fmt.Sprintf("(%d%%N, %d%%N)", x[0], x[1])
	}
	return vh.List(it)
}

func coqCase(id int, r *Result) string {
	var fl []string
	for _, f := range r.FlowsOut {
		fl = append(fl, fmt.Sprintf("{| fsent := %d%%N; fdeliv := %s; fmust := %s; fbreaks := %d%%nat |}", f.Sent, coqIvs(f.Delivered), coqIvs(f.Must), r.Breaks))
		if f.HasReply {
			fl = append(fl, fmt.Sprintf("{| fsent := %d%%N; fdeliv := %s; fmust := %s; fbreaks := %d%%nat |}", f.Sent, coqIvs(f.Replies), coqIvs(f.Must), r.Breaks))
		}
	}
	return fmt.Sprintf("{| cid := %d%%nat; cflows := %s |}", id, vh.List(fl))
}

// ---------------------------------------------------------------- generators

var burstSizes = []int{1, 2, 3, 7, 100, 500, 1023, 1024, 1025, 1500, 2047, 2048, 2049, 3000}

func genPrc(rng *vh.RNG, seed uint64, budget int) *Scenario {
	sc := &Scenario{Kind: "prc", Seed: seed, Warm: rng.Chance(3, 4), NRecv: rng.Range(1, 3), RecoverMs: 5000}
	nS := rng.Range(1, 5)
	for s := 0; s < nS; s++ {
		node := rng.Intn(2)
		if s < 2 && nS >= 2 {
			node = s // both directions
		}
		sp := SenderSpec{Node: node}
		nf := rng.Range(1, 3)
		for k := 0; k < nf; k++ {
			fs := FlowSpec{Src: node, Sender: s, Recv: rng.Intn(sc.NRecv), System: rng.Chance(1, 4), Wrap: rng.Bool(), PK: rng.Intn(2), OwnRef: rng.Chance(2, 3)}
			if rng.Chance(1, 8) {
				fs.Sender = -1
			}
			if !fs.Wrap && rng.Chance(1, 6) {
				fs.PK = pkError
			}
			// two flows of one sender to the same receiver and class would be ONE flow of the property
			dup := false
			for _, fi := range sp.Flows {
				o := sc.Flows[fi]
				if o.Recv == fs.Recv && o.System == fs.System {
					dup = true
				}
			}
			if dup {
				continue
			}
			sp.Flows = append(sp.Flows, len(sc.Flows))
			sc.Flows = append(sc.Flows, fs)
		}
		sc.Senders = append(sc.Senders, sp)
	}
	nE := 1
	if rng.Chance(2, 5) {
		nE = rng.Range(2, 3)
	}
	for e := 0; e < nE; e++ {
		ep := make([][]Burst, len(sc.Senders))
		for si, sp := range sc.Senders {
			if len(sp.Flows) == 0 {
				continue
			}
			nb := rng.Range(1, 3)
			for b := 0; b < nb; b++ {
				n := burstSizes[rng.Intn(len(burstSizes))]
				if n > budget {
					n = 1 + rng.Intn(8)
				}
				budget -= n
				ep[si] = append(ep[si], Burst{Flow: sp.Flows[rng.Intn(len(sp.Flows))], N: n})
			}
		}
		sc.Epochs = append(sc.Epochs, ep)
		if e > 0 {
			sc.Outages = append(sc.Outages, Outage{Node: rng.Intn(2), Inflight: rng.Bool(), DownMs: rng.Range(0, 30)})
		}
	}
	return sc
}

// corpus: minimised interesting cases first (known defect witness, boundaries)
func corpus() []*Scenario {
	one := func(n int) [][]Burst { return [][]Burst{{{Flow: 0, N: n}}} }
	both := func(n int) [][]Burst { return [][]Burst{{{Flow: 0, N: n}}, {{Flow: 1, N: n}}} }
	f01 := []FlowSpec{{Src: 0, Sender: 0, Recv: 0, PK: pkPid, OwnRef: true}}
	f2 := []FlowSpec{{Src: 0, Sender: 0, Recv: 0, PK: pkPid, OwnRef: true, Wrap: true}, {Src: 1, Sender: 1, Recv: 0, PK: pkDelivery, OwnRef: true}}
	s1 := []SenderSpec{{Node: 0, Flows: []int{0}}}
	s2 := []SenderSpec{{Node: 0, Flows: []int{0}}, {Node: 1, Flows: []int{1}}}
	var out []*Scenario
	// witness of the suspect: a reference obtained before the outage never delivers again
	out = append(out, &Scenario{Kind: "prc", Warm: true, NRecv: 1, Flows: f01, Senders: s1, Epochs: [][][]Burst{one(1), one(1)},
		Outages: []Outage{{Node: 1}}, RecoverMs: 5000})
	out = append(out, &Scenario{Kind: "prc", Warm: true, NRecv: 1, Flows: f01, Senders: s1, Epochs: [][][]Burst{one(3), one(3)},
		Outages: []Outage{{Node: 0}}, RecoverMs: 5000})
	for _, n := range []int{1023, 1024, 1025, 2048, 2049, 3000} {
		out = append(out, &Scenario{Kind: "prc", Warm: true, NRecv: 1, Flows: f01, Senders: s1, Epochs: [][][]Burst{one(n)}})
	}
	for _, n := range []int{1, 1024, 2049} {
		out = append(out, &Scenario{Kind: "prc", Warm: false, NRecv: 1, Flows: f2, Senders: s2, Epochs: [][][]Burst{both(n)}})
	}
	out = append(out, &Scenario{Kind: "prc", Warm: true, NRecv: 1, Flows: f2, Senders: s2, Epochs: [][][]Burst{both(1500), both(1500), both(10)},
		Outages: []Outage{{Node: 0, Inflight: true, DownMs: 5}, {Node: 1, Inflight: true, DownMs: 0}}, RecoverMs: 5000})
	return out
}

// ---------------------------------------------------------------- main

func run(sc *Scenario) *Result {
	t0 := time.Now()
	var res *Result
	switch sc.Kind {
	case "prc":
		res = runPrc(sc)
	case "vivid":
		res = runVivid(sc)
	default:
		panic("unknown scenario kind " + sc.Kind)
	}
	res.WallMs = int(time.Since(t0).Milliseconds())
	return res
}

func nontrivial(r *Result) bool {
	// §6a: a batch boundary crossed (a full batch of the limit went over the wire) or >= 1 Break
	return r.Batches["1024(limit)"] > 0 || r.Breaks > 0
}

func main() {
	f := vh.ParseFlags()
	tlog.SetDefault(silent)
	installWireObserver()
	if f.Replay != "" {
		var sc Scenario
		vh.LoadReplayCase(f.Replay, &sc)
		res := run(&sc)
		b, _ := json.MarshalIndent(map[string]any{"scenario": sc, "flows": res.FlowsOut, "breaks": res.Breaks, "infra": res.Infra,
			"monitor_hits": res.viol}, "", " ")
		fmt.Println(string(b))
		if len(res.viol) > 0 {
			os.Exit(1)
		}
		return
	}
	out := vh.NewOut(f.Out, "link", "From MV Require Import Lib.ListX C11.LinkModel C11.LinkRun.", "case", "mismatches", f.Seed,
		"scenarios on two real nodes over loopback gRPC (prc.ResourceController+Shared, and vivid.ActorSystem with sharing): 1-5 concurrent "+
			"senders in both directions, 1-3 flows each (user/system, wrapped/raw, nil sender, three payload carriers with random UTF-8/binary content), "+
			"bursts of 1..3000 messages (1023/1024/1025/2047/2048/2049 included), cold or warm link, 0-2 Close()/Share() cycles of either node with or "+
			"without traffic in flight; vivid: Tell/Ask/FutureAsk from actors and from the system, replies; non-trivial = a full batch of the limit "+
			"(1024) was observed on the wire or >= 1 outage; distinct by hash of scenario+observations")
	out.PerShard = 8
	rng := vh.NewRNG(f.Seed)
	nPrc, nViv, budget := 40, 10, 12000
	if f.Tier == "thorough" {
		nPrc, nViv, budget = 400, 80, 30000
	}
	if f.N > 0 {
		nPrc, nViv = f.N, f.N/4
	}
	var scs []*Scenario
	scs = append(scs, corpus()...)
	scs = append(scs, vividCorpus()...)
	for i := 0; i < nPrc; i++ {
		cr, s := rng.Derive()
		scs = append(scs, genPrc(cr, s, budget))
	}
	for i := 0; i < nViv; i++ {
		cr, s := rng.Derive()
		scs = append(scs, genVivid(cr, s, budget/2))
	}
	infra := 0
	for _, sc := range scs {
		res := run(sc)
		if res.Infra != "" {
			infra++
			out.Count("infrastructure_failures", res.Infra)
			continue
		}
		out.Count("kind", sc.Kind)
		out.Count("breaks", fmt.Sprint(res.Breaks))
		out.Count("warm_link", fmt.Sprint(sc.Warm))
		out.Count("senders", fmt.Sprint(len(sc.Senders)))
		dirs := map[int]bool{}
		total := 0
		for i, fs := range sc.Flows {
			dirs[fs.Src] = true
			total += res.FlowsOut[i].Sent
			m := fs.Mode
			if m == "" {
				m = "tell"
			}
			out.Count("flow_mode", m)
		}
		out.Count("directions", fmt.Sprint(len(dirs)))
		out.Count("messages_per_case", vh.Bucket(total/100)+" x100")
		for k, c := range res.Batches {
			for i := 0; i < c; i++ {
				out.Count("batch_sizes_on_the_wire", k)
			}
		}
		out.Add(res, coqCase(out.N(), res), nontrivial(res), res.viol)
	}
	if infra == len(scs) {
		fmt.Fprintln(os.Stderr, "no scenario could run: loopback networking unavailable")
		os.Exit(3)
	}
	out.Close()
}
