// c11link: tie T1 of property C11 on the REAL code. Two real nodes on 127.0.0.1 with ephemeral ports
// (prc.ResourceController + prc.Shared, or two vivid.ActorSystem with sharing enabled) exchange
// sequence-numbered protobuf payloads over real loopback gRPC: concurrent senders in both directions,
// counts below/at/above the batch limit, asks and futures across nodes, Close()/Share() cycles.
// Go-side monitors restate the property on what the receivers observed; every case is also handed to
// Coq, where the link model MV.C11.LinkModel predicts the delivery of break-free flows and the verified
// checker accepts exactly the order-preserving duplicate-free sub-sequences for flows that saw an outage.
package main

import (
	"encoding/json"
	"fmt"
	"os"
	"sort"
	"strings"
	"time"

	tlog "github.com/kercylan98/minotaur/toolkit/log"
	"verif/harness/vh"
)

type FlowSpec struct {
	Src    int    `json:"src"`              // sending node (0/1); the receiver lives on the other node
	Sender int    `json:"sender"`           // sender identity index, -1 = nil sender
	Recv   int    `json:"recv"`             // receiver index on the destination node
	System bool   `json:"system,omitempty"` // DeliverySystemMessage instead of DeliveryUserMessage
	Wrap   bool   `json:"wrap,omitempty"`   // handed over as *prc.MessageWrapper (the form vivid uses)
	PK     int    `json:"pk"`               // payload carrier
	OwnRef bool   `json:"own_ref"`          // the flow holds its own reference object / shares one per (node, receiver)
	Mode   string `json:"mode,omitempty"`   // vivid: tell | ask | future | systell | sysfuture
	Lean   bool   `json:"lean,omitempty"`   // prc: tiny contents (0..8 runes) — the long-queue scenarios
}
type SenderSpec struct {
	Node  int   `json:"node"`
	Flows []int `json:"flows"`
}
type BigMsg struct {
	At    int `json:"at"`    // position inside the burst (0-based)
	Bytes int `json:"bytes"` // encoded payload size of that message (approximately)
}
type Burst struct {
	Flow int      `json:"flow"`
	N    int      `json:"n"`
	Big  []BigMsg `json:"big,omitempty"` // messages of the burst that carry a LARGE payload (100 KiB .. 3 MiB)
}
type Outage struct {
	Node     int  `json:"node"`     // whose Shared is closed and re-shared
	Inflight bool `json:"inflight"` // traffic keeps flowing while the link goes down
	DownMs   int  `json:"down_ms"`
	// close with a long queue: Queue messages of flow QFlow are handed over in one go (prepared beforehand, so that
	// the per-peer queue grows to many batches) and Close() follows at once. What the close drops is lost
	// legitimately; what arrives has to arrive in order, once.
	Queue int `json:"queue,omitempty"`
	QFlow int `json:"qflow,omitempty"`
}
type Scenario struct {
	Kind      string       `json:"kind"` // prc | vivid
	Seed      uint64       `json:"seed"`
	Warm      bool         `json:"warm"` // link established (one message each way) before the traffic starts
	NRecv     int          `json:"nrecv"`
	Flows     []FlowSpec   `json:"flows"`
	Senders   []SenderSpec `json:"senders"` // one goroutine (prc) / one actor (vivid) each
	Epochs    [][][]Burst  `json:"epochs"`  // [epoch][sender] -> bursts, executed in order
	Outages   []Outage     `json:"outages"` // outage i happens between epoch i and i+1 (prc only)
	RecoverMs int          `json:"recover_ms"`
}

func (sc *Scenario) racing() bool {
	if !sc.Warm {
		return true
	}
	for _, o := range sc.Outages {
		if o.Inflight {
			return true
		}
	}
	return false
}

type FlowResult struct {
	ID        string            `json:"id"`
	Sent      int               `json:"sent"`
	Delivered [][2]int          `json:"delivered"` // arrival order, compressed into runs [lo,hi)
	Must      [][2]int          `json:"must"`      // sent while the link was verified up
	Replies   [][2]int          `json:"replies,omitempty"`
	HasReply  bool              `json:"has_reply,omitempty"`
	Bad       map[string]string `json:"bad,omitempty"`
}

type Result struct {
	Scenario
	FlowsOut    []FlowResult   `json:"flows_out"`
	Breaks      int            `json:"breaks"`
	MaxBatch    int            `json:"max_batch"`
	Batches     map[string]int `json:"batches"`
	DeadLetters int            `json:"dead_letters"`
	Opened      int            `json:"opened"`
	Closed      int            `json:"closed"`
	Infra       string         `json:"infra,omitempty"` // the sandbox failed us (no loopback …): not a verdict
	Panics      []string       `json:"panics,omitempty"`
	Strange     []string       `json:"strange,omitempty"`
	WallMs      int            `json:"wall_ms"`
	// close with a long queue: messages handed over but not yet arrived at the moment Close() was called, per round
	QueuedAtClose []int `json:"queued_at_close,omitempty"`
	viol          []vh.Violation
}

func (r *Result) addViol(kind, detail string, sig map[string]string) {
	for _, v := range r.viol {
		if v.Kind == kind {
			return
		}
	}
	r.viol = append(r.viol, vh.Violation{Kind: kind, Detail: detail, Sig: sig})
}

func batchBucket(n int) string {
	switch {
	case n == 1:
		return "1"
	case n < 512:
		return "2-511"
	case n < 1023:
		return "512-1022"
	case n == 1023:
		return "1023"
	case n == 1024:
		return "1024(limit)"
	}
	return ">1024"
}

// finishFlows runs the flow monitors: a brute-force restatement of the property on the observations.
func (r *Result) finishFlows(w *world) {
	hist, maxB, _ := wire.snapshot()
	r.MaxBatch = maxB
	r.Batches = map[string]int{}
	for n, c := range hist {
		r.Batches[batchBucket(n)] += c
	}
	linkSig := "up"
	if r.Breaks > 0 {
		linkSig = "reopened"
	}
	dials := "settled"
	if r.Scenario.racing() {
		dials = "racing"
	}
	for _, f := range w.order {
		f.mu.Lock()
		d := append([]int(nil), f.delivered...)
		rep := append([]int(nil), f.replies...)
		bad := map[string]string{}
		for k, v := range f.bad {
			bad[k] = v
		}
		f.mu.Unlock()
		fr := FlowResult{ID: f.ID, Sent: f.sent, Delivered: intervals(d), Must: f.must, Bad: bad}
		if f.Mode == "ask" || f.Mode == "future" || f.Mode == "sysfuture" {
			fr.HasReply = true
			fr.Replies = intervals(rep)
		}
		if len(bad) == 0 {
			fr.Bad = nil
		}
		r.FlowsOut = append(r.FlowsOut, fr)
		where := fmt.Sprintf("flow %s (node %d %s -> node %d %s, system=%v, mode=%s, sent %d)", f.ID, f.Src, orNil(f.Sender), f.Dst, f.Recv, f.System, f.Mode, f.sent)
		sig := map[string]string{"link": linkSig, "dials": dials, "ref": "own"}
		if f.sharedRef {
			sig["ref"] = "shared"
		}
		r.judgeSeq("flow", where, d, f.sent, f.must, sig)
		if fr.HasReply {
			// the replies to the asks of one asker come from one responder: same promise in the other direction
			r.judgeSeq("reply", where, rep, f.sent, f.must, sig)
		}
		classes := make([]string, 0, len(bad))
		for k := range bad {
			classes = append(classes, k)
		}
		sort.Strings(classes)
		for _, k := range classes {
			r.addViol("link:flow:"+k, where+": "+bad[k], sig)
		}
	}
	w.mu.Lock()
	r.Panics, r.Strange = w.panics, w.strange
	w.mu.Unlock()
	if len(r.Strange) > 0 {
		r.addViol("link:flow:invented", "a receiver was handed something nobody sent: "+strings.Join(r.Strange, "; "), nil)
	}
	if len(r.Panics) > 0 {
		r.addViol("link:send:panic", "sending panicked: "+strings.Join(r.Panics, "; "), map[string]string{"link": linkSig})
	}
}

func orNil(s string) string {
	if s == "" {
		return "<nil sender>"
	}
	return s
}

// judgeSeq: the arrival sequence d of one flow (sent 0..sent-1 in order) must be strictly increasing
// (no duplicate, no reordering), contain nothing that was not sent, and contain every number of the
// must ranges (sent while the link was up).
func (r *Result) judgeSeq(what, where string, d []int, sent int, must [][2]int, sig map[string]string) {
	seen := map[int]bool{}
	hi := -1
	for i, s := range d {
		if s < 0 || s >= sent {
			r.addViol("link:"+what+":invented", fmt.Sprintf("%s: sequence number %d arrived but only 0..%d were sent", where, s, sent-1), sig)
			continue
		}
		if seen[s] {
			r.addViol("link:"+what+":duplicate", fmt.Sprintf("%s: sequence number %d arrived twice (arrival #%d)", where, s, i), sig)
		} else if s < hi {
			r.addViol("link:"+what+":reorder", fmt.Sprintf("%s: %d arrived after %d (arrival #%d)", where, s, hi, i), sig)
		}
		seen[s] = true
		if s > hi {
			hi = s
		}
	}
	missing, first := 0, -1
	for _, m := range must {
		for s := m[0]; s < m[1]; s++ {
			if !seen[s] {
				missing++
				if first < 0 {
					first = s
				}
			}
		}
	}
	if missing > 0 {
		r.addViol("link:"+what+":lost", fmt.Sprintf("%s: %d message(s) sent while the link was up never arrived (first missing: %d; arrived %d)", where, missing, first, len(d)), sig)
	}
}

// ---------------------------------------------------------------- Coq terms

func coqIvs(iv [][2]int) string {
	it := make([]string, len(iv))
	for i, x := range iv {
		it[i] = fmt.Sprintf("(%d%%N, %d%%N)", x[0], x[1])
	}
	return vh.List(it)
}

func coqCase(id int, r *Result) string {
	var fl []string
	for _, f := range r.FlowsOut {
		fl = append(fl, fmt.Sprintf("{| fsent := %d%%N; fdeliv := %s; fmust := %s; fbreaks := %d%%nat |}", f.Sent, coqIvs(f.Delivered), coqIvs(f.Must), r.Breaks))
		if f.HasReply {
			fl = append(fl, fmt.Sprintf("{| fsent := %d%%N; fdeliv := %s; fmust := %s; fbreaks := %d%%nat |}", f.Sent, coqIvs(f.Replies), coqIvs(f.Must), r.Breaks))
		}
	}
	return fmt.Sprintf("{| cid := %d%%nat; cflows := %s |}", id, vh.List(fl))
}

// ---------------------------------------------------------------- generators

var burstSizes = []int{1, 2, 3, 7, 100, 500, 1023, 1024, 1025, 1500, 2047, 2048, 2049, 3000}

func genPrc(rng *vh.RNG, seed uint64, budget int) *Scenario {
	sc := &Scenario{Kind: "prc", Seed: seed, Warm: rng.Chance(3, 4), NRecv: rng.Range(1, 3), RecoverMs: 5000}
	nS := rng.Range(1, 5)
	for s := 0; s < nS; s++ {
		node := rng.Intn(2)
		if s < 2 && nS >= 2 {
			node = s // both directions
		}
		sp := SenderSpec{Node: node}
		nf := rng.Range(1, 3)
		for k := 0; k < nf; k++ {
			fs := FlowSpec{Src: node, Sender: s, Recv: rng.Intn(sc.NRecv), System: rng.Chance(1, 4), Wrap: rng.Bool(), PK: rng.Intn(2), OwnRef: rng.Chance(2, 3)}
			if rng.Chance(1, 8) {
				fs.Sender = -1
			}
			if !fs.Wrap && rng.Chance(1, 6) {
				fs.PK = pkError
			}
			// two flows of one sender to the same receiver and class would be ONE flow of the property
			dup := false
			for _, fi := range sp.Flows {
				o := sc.Flows[fi]
				if o.Recv == fs.Recv && o.System == fs.System {
					dup = true
				}
			}
			if dup {
				continue
			}
			sp.Flows = append(sp.Flows, len(sc.Flows))
			sc.Flows = append(sc.Flows, fs)
		}
		sc.Senders = append(sc.Senders, sp)
	}
	nE := 1
	if rng.Chance(2, 5) {
		nE = rng.Range(2, 3)
	}
	for e := 0; e < nE; e++ {
		ep := make([][]Burst, len(sc.Senders))
		for si, sp := range sc.Senders {
			if len(sp.Flows) == 0 {
				continue
			}
			nb := rng.Range(1, 3)
			for b := 0; b < nb; b++ {
				n := burstSizes[rng.Intn(len(burstSizes))]
				if n > budget {
					n = 1 + rng.Intn(8)
				}
				budget -= n
				ep[si] = append(ep[si], Burst{Flow: sp.Flows[rng.Intn(len(sp.Flows))], N: n})
			}
		}
		sc.Epochs = append(sc.Epochs, ep)
		if e > 0 {
			sc.Outages = append(sc.Outages, Outage{Node: rng.Intn(2), Inflight: rng.Bool(), DownMs: rng.Range(0, 30)})
		}
	}
	return sc
}

// ---- family "payload sizes": a few messages in the middle of a burst carry a LARGE payload
//
// gRPC's default receive limit is 4 MiB per frame and the stream sender puts up to 1024 queued messages into one
// frame, whatever their size: what one node sends during one epoch may end up in ONE frame. The scenarios of this
// family therefore keep the payload bytes of one node and epoch below frameBudget (fitFrame enforces it, for the
// corpus too) — a single message is always far below the limit, so every message has to arrive.
const (
	kib         = 1 << 10
	mib         = 1 << 20
	frameBudget = 3*mib + 512*kib
)

// frameLoad: payload bytes (plus envelope allowance) node `node` sends in epoch e, if sequence numbers count up
// per flow over the epochs (true for scenarios without outages: no probes).
func frameLoad(sc *Scenario, e, node int) int {
	next := make([]int, len(sc.Flows))
	total := 0
	for ee := 0; ee <= e; ee++ {
		for si, sp := range sc.Senders {
			for _, b := range sc.Epochs[ee][si] {
				lo := next[b.Flow]
				next[b.Flow] += b.N
				if ee != e || sp.Node != node {
					continue
				}
				fs := sc.Flows[b.Flow]
				big := map[int]int{}
				for _, g := range b.Big {
					big[g.At] = g.Bytes
				}
				for i := 0; i < b.N; i++ {
					if by, ok := big[i]; ok {
						total += by + 160
					} else {
						total += encodedLen(fs.PK, len(content(fmt.Sprintf("f%d", b.Flow), lo+i))) + 160
					}
				}
			}
		}
	}
	return total
}

// fitFrame drops large payloads (the last planned first) until every (epoch, node) fits the frame budget.
func fitFrame(sc *Scenario) *Scenario {
	for e := range sc.Epochs {
		for node := 0; node < 2; node++ {
			for frameLoad(sc, e, node) > frameBudget {
				dropped := false
				for si := len(sc.Senders) - 1; si >= 0 && !dropped; si-- {
					if sc.Senders[si].Node != node {
						continue
					}
					bs := sc.Epochs[e][si]
					for bi := len(bs) - 1; bi >= 0 && !dropped; bi-- {
						if n := len(bs[bi].Big); n > 0 {
							bs[bi].Big = bs[bi].Big[:n-1]
							dropped = true
						}
					}
				}
				if !dropped {
					break // small payloads only: the ordinary scenarios send as much
				}
			}
		}
	}
	return sc
}

func (sc *Scenario) bigCount() (medium, huge int) {
	for _, ep := range sc.Epochs {
		for _, bs := range ep {
			for _, b := range bs {
				for _, g := range b.Big {
					if g.Bytes > mib {
						huge++
					} else {
						medium++
					}
				}
			}
		}
	}
	return
}

func (sc *Scenario) queueRounds() int {
	n := 0
	for _, o := range sc.Outages {
		if o.Queue > 0 {
			n++
		}
	}
	return n
}

func genFlows(rng *vh.RNG, sc *Scenario, nS int) {
	for s := 0; s < nS; s++ {
		node := rng.Intn(2)
		if s < 2 && nS >= 2 {
			node = s
		}
		sp := SenderSpec{Node: node}
		nf := rng.Range(1, 2)
		for k := 0; k < nf; k++ {
			fs := FlowSpec{Src: node, Sender: s, Recv: rng.Intn(sc.NRecv), System: rng.Chance(1, 4), Wrap: rng.Bool(), PK: rng.Intn(2), OwnRef: rng.Chance(2, 3)}
			if rng.Chance(1, 8) {
				fs.Sender = -1
			}
			if !fs.Wrap && rng.Chance(1, 6) {
				fs.PK = pkError
			}
			dup := false
			for _, fi := range sp.Flows {
				o := sc.Flows[fi]
				if o.Recv == fs.Recv && o.System == fs.System {
					dup = true
				}
			}
			if dup {
				continue
			}
			sp.Flows = append(sp.Flows, len(sc.Flows))
			sc.Flows = append(sc.Flows, fs)
		}
		sc.Senders = append(sc.Senders, sp)
	}
}

func genPrcSizes(rng *vh.RNG, seed uint64) *Scenario {
	sc := &Scenario{Kind: "prc", Seed: seed, Warm: true, NRecv: rng.Range(1, 2), RecoverMs: 5000}
	genFlows(rng, sc, rng.Range(1, 3))
	nE := rng.Range(1, 3)
	for e := 0; e < nE; e++ {
		ep := make([][]Burst, len(sc.Senders))
		left := [2]int{frameBudget - 400*kib, frameBudget - 400*kib}
		hugeDone := [2]bool{}
		for si, sp := range sc.Senders {
			if len(sp.Flows) == 0 {
				continue
			}
			nb := rng.Range(1, 2)
			for b := 0; b < nb; b++ {
				bu := Burst{Flow: sp.Flows[rng.Intn(len(sp.Flows))], N: rng.Range(8, 240)}
				used := map[int]bool{}
				plan := func(bytes int) {
					at := bu.N/4 + rng.Intn(bu.N/2+1) // in the middle of the burst
					if bytes > left[sp.Node] || used[at] {
						return
					}
					used[at] = true
					left[sp.Node] -= bytes
					bu.Big = append(bu.Big, BigMsg{At: at, Bytes: bytes})
				}
				if !hugeDone[sp.Node] && rng.Chance(3, 4) {
					hugeDone[sp.Node] = true
					plan(rng.Range(1200*kib, 2900*kib))
				}
				for k := rng.Intn(3); k > 0; k-- {
					plan(rng.Range(100*kib, 900*kib))
				}
				sort.Slice(bu.Big, func(i, j int) bool { return bu.Big[i].At < bu.Big[j].At })
				ep[si] = append(ep[si], bu)
			}
		}
		sc.Epochs = append(sc.Epochs, ep)
	}
	return fitFrame(sc)
}

// ---- family "close with a long queue": 20 000 .. 60 000 sequence numbers of one flow are handed over in one go
// and the SENDING node closes its sharing at once, for 1-3 rounds; small verified bursts in between. Mostly lean flows
// (tiny contents): the stream is then busy with batches rather than bytes.
func genPrcQueue(rng *vh.RNG, seed uint64) *Scenario {
	sc := &Scenario{Kind: "prc", Seed: seed, Warm: true, NRecv: rng.Range(1, 2), RecoverMs: 5000}
	genFlows(rng, sc, rng.Range(1, 2))
	if rng.Chance(5, 6) {
		for i := range sc.Flows {
			sc.Flows[i].Lean = true
		}
	}
	rounds := rng.Range(1, 3)
	for e := 0; e <= rounds; e++ {
		ep := make([][]Burst, len(sc.Senders))
		for si, sp := range sc.Senders {
			if len(sp.Flows) > 0 {
				ep[si] = append(ep[si], Burst{Flow: sp.Flows[rng.Intn(len(sp.Flows))], N: rng.Range(1, 40)})
			}
		}
		sc.Epochs = append(sc.Epochs, ep)
		if e > 0 {
			qf := rng.Intn(len(sc.Flows))
			sc.Outages = append(sc.Outages, Outage{Node: sc.Flows[qf].Src, DownMs: rng.Range(0, 20), Queue: rng.Range(20000, 60000), QFlow: qf})
		}
	}
	return sc
}

// corpus: minimised interesting cases first (known defect witness, boundaries)
func corpus() []*Scenario {
	one := func(n int) [][]Burst { return [][]Burst{{{Flow: 0, N: n}}} }
	both := func(n int) [][]Burst { return [][]Burst{{{Flow: 0, N: n}}, {{Flow: 1, N: n}}} }
	f01 := []FlowSpec{{Src: 0, Sender: 0, Recv: 0, PK: pkPid, OwnRef: true}}
	f2 := []FlowSpec{{Src: 0, Sender: 0, Recv: 0, PK: pkPid, OwnRef: true, Wrap: true}, {Src: 1, Sender: 1, Recv: 0, PK: pkDelivery, OwnRef: true}}
	s1 := []SenderSpec{{Node: 0, Flows: []int{0}}}
	s2 := []SenderSpec{{Node: 0, Flows: []int{0}}, {Node: 1, Flows: []int{1}}}
	var out []*Scenario
	// witness of the suspect: a reference obtained before the outage never delivers again
	out = append(out, &Scenario{Kind: "prc", Warm: true, NRecv: 1, Flows: f01, Senders: s1, Epochs: [][][]Burst{one(1), one(1)},
		Outages: []Outage{{Node: 1}}, RecoverMs: 5000})
	out = append(out, &Scenario{Kind: "prc", Warm: true, NRecv: 1, Flows: f01, Senders: s1, Epochs: [][][]Burst{one(3), one(3)},
		Outages: []Outage{{Node: 0}}, RecoverMs: 5000})
	for _, n := range []int{1023, 1024, 1025, 2048, 2049, 3000} {
		out = append(out, &Scenario{Kind: "prc", Warm: true, NRecv: 1, Flows: f01, Senders: s1, Epochs: [][][]Burst{one(n)}})
	}
	for _, n := range []int{1, 1024, 2049} {
		out = append(out, &Scenario{Kind: "prc", Warm: false, NRecv: 1, Flows: f2, Senders: s2, Epochs: [][][]Burst{both(n)}})
	}
	out = append(out, &Scenario{Kind: "prc", Warm: true, NRecv: 1, Flows: f2, Senders: s2, Epochs: [][][]Burst{both(1500), both(1500), both(10)},
		Outages: []Outage{{Node: 0, Inflight: true, DownMs: 5}, {Node: 1, Inflight: true, DownMs: 0}}, RecoverMs: 5000})
	// payload sizes: one message above 1 MiB in the middle of a burst; several sizes over both directions and carriers
	big := func(n int, g ...BigMsg) []Burst { return []Burst{{Flow: 0, N: n, Big: g}} }
	out = append(out, fitFrame(&Scenario{Kind: "prc", Warm: true, NRecv: 1, Flows: f01, Senders: s1,
		Epochs: [][][]Burst{{big(600, BigMsg{At: 300, Bytes: 1536 * kib})}}}))
	out = append(out, fitFrame(&Scenario{Kind: "prc", Warm: true, NRecv: 1, Flows: f2, Senders: s2, Epochs: [][][]Burst{
		{big(400, BigMsg{At: 200, Bytes: 2900 * kib}), {{Flow: 1, N: 300, Big: []BigMsg{{At: 150, Bytes: 1229 * kib}}}}},
		{big(500, BigMsg{At: 100, Bytes: 300 * kib}, BigMsg{At: 250, Bytes: 900 * kib}, BigMsg{At: 400, Bytes: 1300 * kib}),
			{{Flow: 1, N: 200, Big: []BigMsg{{At: 100, Bytes: 2200 * kib}}}}},
		{big(40, BigMsg{At: 20, Bytes: 1100 * kib}), {{Flow: 1, N: 40, Big: []BigMsg{{At: 0, Bytes: 100 * kib}, {At: 39, Bytes: 2048 * kib}}}}}}}))
	fsys := []FlowSpec{{Src: 1, Sender: -1, Recv: 0, System: true, PK: pkError, OwnRef: false}}
	out = append(out, fitFrame(&Scenario{Kind: "prc", Warm: true, NRecv: 1, Flows: fsys, Senders: []SenderSpec{{Node: 1, Flows: []int{0}}},
		Epochs: [][][]Burst{{big(1200, BigMsg{At: 700, Bytes: 2048 * kib})}, {big(3, BigMsg{At: 1, Bytes: 3000 * kib})}}}))
	// close with a long queue: the sending node closes while tens of batches are still queued, 2-3 rounds each
	// (lean flows: tiny contents, the stream is busy with batches rather than bytes)
	l01 := []FlowSpec{{Src: 0, Sender: 0, Recv: 0, PK: pkPid, OwnRef: true, Lean: true}}
	l2 := []FlowSpec{{Src: 0, Sender: 0, Recv: 0, PK: pkPid, OwnRef: true, Wrap: true, Lean: true}, {Src: 1, Sender: 1, Recv: 0, PK: pkDelivery, OwnRef: true, Lean: true}}
	out = append(out, &Scenario{Kind: "prc", Warm: true, NRecv: 1, Flows: l01, Senders: s1, Epochs: [][][]Burst{one(5), one(5), one(5), one(5)},
		Outages: []Outage{{Node: 0, Queue: 20000}, {Node: 0, Queue: 40000, DownMs: 3}, {Node: 0, Queue: 60000}}, RecoverMs: 5000})
	out = append(out, &Scenario{Kind: "prc", Warm: true, NRecv: 1, Flows: l2, Senders: s2, Epochs: [][][]Burst{both(3), both(3), both(3), both(3)},
		Outages: []Outage{{Node: 1, Queue: 30000, QFlow: 1}, {Node: 0, Queue: 60000, QFlow: 0, DownMs: 10}, {Node: 1, Queue: 45000, QFlow: 1}}, RecoverMs: 5000})
	out = append(out, &Scenario{Kind: "prc", Warm: true, NRecv: 1, Flows: f01, Senders: s1, Epochs: [][][]Burst{one(5), one(5), one(5)},
		Outages: []Outage{{Node: 0, Queue: 60000}, {Node: 0, Queue: 50000, DownMs: 1}}, RecoverMs: 5000})
	return out
}

// ---------------------------------------------------------------- main

func run(sc *Scenario) *Result {
	t0 := time.Now()
	var res *Result
	switch sc.Kind {
	case "prc":
		res = runPrc(sc)
	case "vivid":
		res = runVivid(sc)
	default:
		panic("unknown scenario kind " + sc.Kind)
	}
	res.WallMs = int(time.Since(t0).Milliseconds())
	return res
}

func nontrivial(r *Result) bool {
	// §6a: a batch boundary crossed (a full batch of the limit went over the wire), >= 1 Break, or a payload above 1 MiB
	_, huge := r.Scenario.bigCount()
	return r.Batches["1024(limit)"] > 0 || r.Breaks > 0 || huge > 0
}

func main() {
	f := vh.ParseFlags()
	tlog.SetDefault(silent)
	installWireObserver()
	if f.Replay != "" {
		var sc Scenario
		vh.LoadReplayCase(f.Replay, &sc)
		res := run(&sc)
		b, _ := json.MarshalIndent(map[string]any{"scenario": sc, "flows": res.FlowsOut, "breaks": res.Breaks, "infra": res.Infra,
			"monitor_hits": res.viol}, "", " ")
		fmt.Println(string(b))
		if len(res.viol) > 0 {
			os.Exit(1)
		}
		return
	}
	out := vh.NewOut(f.Out, "link", "From MV Require Import Lib.ListX C11.LinkModel C11.LinkRun.", "case", "mismatches", f.Seed,
		"scenarios on two real nodes over loopback gRPC (prc.ResourceController+Shared, and vivid.ActorSystem with sharing): 1-5 concurrent "+
			"senders in both directions, 1-3 flows each (user/system, wrapped/raw, nil sender, three payload carriers with random UTF-8/binary content), "+
			"bursts of 1..3000 messages (1023/1024/1025/2047/2048/2049 included), cold or warm link, 0-2 Close()/Share() cycles of either node with or "+
			"without traffic in flight; family 'payload sizes': a few messages in the middle of a burst carry 100-900 KiB or 1.1-3 MiB (all carriers, "+
			"both directions, at most 3.5 MiB per node and epoch: one frame stays below gRPC's 4 MiB); family 'close with a long queue': 20000-60000 "+
			"prepared messages of one flow handed over in one go, Close() of the sending node at once, 1-3 rounds, mostly tiny contents (arrivals must stay in order, once); "+
			"vivid: Tell/Ask/FutureAsk from actors and from the system, replies; non-trivial = a full batch of the limit "+
			"(1024) was observed on the wire, >= 1 outage, or a payload above 1 MiB; distinct by hash of scenario+observations")
	out.PerShard = 8
	rng := vh.NewRNG(f.Seed)
	nPrc, nViv, budget := 40, 10, 12000
	nSize, nQueue := 6, 5
	if f.Tier == "thorough" {
		nPrc, nViv, budget = 400, 80, 30000
		nSize, nQueue = 60, 30
	}
	if f.N > 0 {
		nPrc, nViv = f.N, f.N/4
		nSize, nQueue = f.N/6, f.N/12
	}
	var scs []*Scenario
	scs = append(scs, corpus()...)
	scs = append(scs, vividCorpus()...)
	for i := 0; i < nPrc; i++ {
		cr, s := rng.Derive()
		scs = append(scs, genPrc(cr, s, budget))
	}
	for i := 0; i < nViv; i++ {
		cr, s := rng.Derive()
		scs = append(scs, genVivid(cr, s, budget/2))
	}
	for i := 0; i < nSize; i++ {
		cr, s := rng.Derive()
		scs = append(scs, genPrcSizes(cr, s))
	}
	for i := 0; i < nQueue; i++ {
		cr, s := rng.Derive()
		scs = append(scs, genPrcQueue(cr, s))
	}
	infra := 0
	for _, sc := range scs {
		medium, huge := sc.bigCount()
		if medium+huge > 0 && stuckSeen.Load() >= 2 {
			// a tree whose stream sender got stuck behind a large message twice is judged; every further scenario of
			// this family would leave more sender goroutines spinning behind and only slow the remaining ones down
			out.Count("skipped", "large payloads after two stuck senders")
			continue
		}
		res := run(sc)
		if res.Infra != "" {
			infra++
			out.Count("infrastructure_failures", res.Infra)
			continue
		}
		out.Count("kind", sc.Kind)
		out.Count("breaks", fmt.Sprint(res.Breaks))
		out.Count("warm_link", fmt.Sprint(sc.Warm))
		out.Count("senders", fmt.Sprint(len(sc.Senders)))
		dirs := map[int]bool{}
		total := 0
		for i, fs := range sc.Flows {
			dirs[fs.Src] = true
			total += res.FlowsOut[i].Sent
			m := fs.Mode
			if m == "" {
				m = "tell"
			}
			out.Count("flow_mode", m)
		}
		out.Count("directions", fmt.Sprint(len(dirs)))
		out.Count("messages_per_case", vh.Bucket(total/100)+" x100")
		fam := "bursts/outages"
		switch {
		case medium+huge > 0:
			fam = "payload sizes"
		case sc.queueRounds() > 0:
			fam = "close with a long queue"
		}
		out.Count("family", fam)
		for i := 0; i < medium; i++ {
			out.Count("large_payloads", "100-900 KiB")
		}
		for i := 0; i < huge; i++ {
			out.Count("large_payloads", "1.1-3 MiB")
		}
		for _, q := range res.QueuedAtClose {
			out.Count("batches_not_yet_arrived_at_close", vh.Bucket(q/1024))
		}
		for k, c := range res.Batches {
			for i := 0; i < c; i++ {
				out.Count("batch_sizes_on_the_wire", k)
			}
		}
		out.Add(res, coqCase(out.N(), res), nontrivial(res), res.viol)
	}
	if infra == len(scs) {
		fmt.Fprintln(os.Stderr, "no scenario could run: loopback networking unavailable")
		os.Exit(3)
	}
	out.Close()
}
