package main

import (
	"errors"
	"fmt"
	"strconv"
	"strings"

	"github.com/kercylan98/minotaur/engine/prc"
	"verif/harness/vh"
)

// Payloads are existing generated protobuf messages of the repository reused as carriers (the default
// codec only transports proto messages): every payload carries a key "<flow id>#<seq>" and a content
// string that is a deterministic function of (flow id, seq), so the receiver recomputes what it must
// have received without any side channel.
//
//	kind 0: *prc.ProcessId       {LogicalAddress: key, PhysicalAddress: content}
//	kind 1: *prc.DeliveryMessage {MessageType: key, MessageData: content bytes, System: odd length,
//	                              Sender: &ProcessId{LogicalAddress: content}}   (nested message, bytes field)
//	kind 2: error(key|content)   (packMessage turns an error into *prc.SharedErrorMessage, the receiving
//	                              side turns it back into an error) — only for unwrapped sends
const (
	pkPid = iota
	pkDelivery
	pkError
)

func fnv(s string) uint64 {
	h := uint64(1469598103934665603)
	for i := 0; i < len(s); i++ {
		h ^= uint64(s[i])
		h *= 1099511628211
	}
	return h
}

var alphabet = []rune("abcXYZ019 _-/\\\"'\n\t\x00éß中文🙂{}[]:;,.#|")

// content is the deterministic content of message seq of a flow (valid UTF-8: proto3 strings must be).
func content(flowID string, seq int) string {
	r := vh.NewRNG(fnv(flowID)*0x9e3779b97f4a7c15 + uint64(seq)*0xbf58476d1ce4e5b9 + 17)
	var n int
	switch d := r.Intn(1000); {
	case d < 100:
		n = 0
	case d < 800:
		n = r.Range(1, 40)
	case d < 998:
		n = r.Range(200, 1500)
	default:
		n = 20000
	}
	var sb strings.Builder
	for i := 0; i < n; i++ {
		sb.WriteRune(alphabet[r.Intn(len(alphabet))])
	}
	return sb.String()
}

// bigContent is the deterministic content of a LARGE message: exactly n bytes (valid UTF-8). The head is the
// ordinary random content of (flow id, seq) cut to 512 runes, the rest is ASCII filler in 1 KiB blocks, each block
// starting with its own index and rotated by a seq-dependent offset (a lost, repeated or swapped block changes
// the string). Cheap to build and to re-build on the receiving side (no per-byte random draw).
func bigContent(flowID string, seq int, n int) string {
	head := []rune(content(flowID, seq))
	if len(head) > 512 {
		head = head[:512]
	}
	b := make([]byte, 0, n+16)
	b = append(b, string(head)...)
	if len(b) > n { // n is far above the head in every use; keep the contract anyway (cut at a rune boundary)
		b = b[:0]
	}
	const filler = "0123456789abcdefghijklmnopqrstuvwxyzABCDEFGHIJKLMNOPQRSTUVWXYZ_-"
	rot := int((fnv(flowID) + uint64(seq)*7) % uint64(len(filler)))
	for blk := 0; len(b) < n; blk++ {
		b = append(b, fmt.Sprintf("<%07x>", blk)...)
		for k := 0; k < 1015 && len(b) < n; k++ {
			b = append(b, filler[(rot+blk+k)%len(filler)])
		}
	}
	return string(b[:n])
}

// contentLen: payload carrier pk carries the content c times over (the nested-message carrier holds it twice);
// a message that shall have an encoded payload of about `bytes` bytes gets a content of bytes/c bytes.
func contentLen(pk, bytes int) int {
	if pk == pkDelivery {
		return bytes / 2
	}
	return bytes
}

// encodedLen: approximate encoded payload size of a message of carrier pk with a content of n bytes.
func encodedLen(pk, n int) int {
	if pk == pkDelivery {
		return 2*n + 24
	}
	return n + 24
}

// leanContent: the content of message seq of a "lean" flow — 0..8 runes, so that tens of thousands of messages
// make batches of a few dozen KiB (the long-queue scenarios: the link is limited by batches, not by bytes).
func leanContent(flowID string, seq int) string {
	r := vh.NewRNG(fnv(flowID)*0x9e3779b97f4a7c15 + uint64(seq)*0xbf58476d1ce4e5b9 + 29)
	var sb strings.Builder
	for i := r.Intn(9); i > 0; i-- {
		sb.WriteRune(alphabet[r.Intn(len(alphabet))])
	}
	return sb.String()
}

func key(flowID string, seq int) string { return flowID + "#" + strconv.Itoa(seq) }

func payload(pk int, k, c string) any {
	switch pk {
	case pkPid:
		return &prc.ProcessId{LogicalAddress: k, PhysicalAddress: c}
	case pkDelivery:
		return &prc.DeliveryMessage{MessageType: k, MessageData: []byte(c), System: len(c)%2 == 1,
			Sender: &prc.ProcessId{LogicalAddress: c}}
	case pkError:
		return errors.New(k + "|" + c)
	}
	panic("bad payload kind")
}

// parsePayload recognises a carrier and returns its kind, key and content ("" kind -1 if it is none).
func parsePayload(m any) (pk int, k, c string, intact bool) {
	switch v := m.(type) {
	case *prc.ProcessId:
		if v == nil {
			return -1, "", "", false
		}
		return pkPid, v.LogicalAddress, v.PhysicalAddress, true
	case *prc.DeliveryMessage:
		if v == nil {
			return -1, "", "", false
		}
		c = string(v.MessageData)
		intact = v.System == (len(c)%2 == 1) && v.Sender != nil && v.Sender.LogicalAddress == c &&
			v.Sender.PhysicalAddress == "" && v.Receiver == nil
		return pkDelivery, v.MessageType, c, intact
	case error:
		s := v.Error()
		i := strings.IndexByte(s, '|')
		if i < 0 {
			return -1, "", "", false
		}
		return pkError, s[:i], s[i+1:], true
	}
	return -1, "", "", false
}

func splitKey(k string) (flowID string, seq int, ok bool) {
	i := strings.LastIndexByte(k, '#')
	if i < 0 {
		return "", 0, false
	}
	n, err := strconv.Atoi(k[i+1:])
	if err != nil || n < 0 {
		return "", 0, false
	}
	return k[:i], n, true
}

func pidStr(p *prc.ProcessId) string {
	if p == nil {
		return "<nil>"
	}
	return p.GetPhysicalAddress() + p.GetLogicalAddress()
}

func short(s string) string {
	if len(s) > 60 {
		return fmt.Sprintf("%q…(%d bytes)", s[:60], len(s))
	}
	return fmt.Sprintf("%q", s)
}
