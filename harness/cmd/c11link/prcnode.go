package main

import (
	"fmt"
	"runtime"
	"strings"
	"sync"
	"sync/atomic"
	"time"

	"github.com/kercylan98/minotaur/engine/prc"
	"github.com/kercylan98/minotaur/toolkit/log"
)

var silent = log.NewSilentLogger()

var staleSeen, closeHangSeen atomic.Bool

// stuckSeen counts scenarios with large payloads in which a verified burst never arrived completely.
var stuckSeen atomic.Int64

// ---------------------------------------------------------------- receivers (prc level)

// recProc is a recording prc.Process registered in a node's ResourceController.
type recProc struct {
	w     *world
	node  int
	laddr string
}

func (p *recProc) Initialize(rc *prc.ResourceController, id *prc.ProcessId) {}
func (p *recProc) IsTerminated() bool                                       { return false }
func (p *recProc) Terminate(source *prc.ProcessId)                          {}
func (p *recProc) DeliveryUserMessage(receiver, sender, forward *prc.ProcessId, message prc.Message) {
	p.got(false, receiver, sender, message)
}
func (p *recProc) DeliverySystemMessage(receiver, sender, forward *prc.ProcessId, message prc.Message) {
	p.got(true, receiver, sender, message)
}
func (p *recProc) got(system bool, receiver, sender *prc.ProcessId, message prc.Message) {
	inner := message
	if wr, ok := message.(*prc.MessageWrapper); ok {
		// the receiving side always hands over WrapMessage(sender, receiver, decoded)
		inner = wr.Message
		if !samePid(wr.Sender, sender) || !samePid(wr.Receiver, receiver) {
			if f := p.w.arrivedPeek(inner); f != nil {
				f.note("sender-identity", fmt.Sprintf("wrapper carries %s -> %s but the call carries %s -> %s",
					pidStr(wr.Sender), pidStr(wr.Receiver), pidStr(sender), pidStr(receiver)))
			}
		}
	}
	p.w.arrived(p.node, p.laddr, system, sender, receiver, inner)
}

func (w *world) arrivedPeek(inner any) *flow {
	_, k, _, _ := parsePayload(inner)
	fid, _, ok := splitKey(k)
	if !ok {
		return nil
	}
	return w.flows[fid]
}

// deadProc is the not-found substitute (the role vivid's abyss plays): counts what falls through.
type deadProc struct{ n atomic.Int64 }

func (p *deadProc) Initialize(rc *prc.ResourceController, id *prc.ProcessId) {}
func (p *deadProc) IsTerminated() bool                                       { return false }
func (p *deadProc) Terminate(source *prc.ProcessId)                          {}
func (p *deadProc) DeliveryUserMessage(receiver, sender, forward *prc.ProcessId, message prc.Message) {
	p.n.Add(1)
}
func (p *deadProc) DeliverySystemMessage(receiver, sender, forward *prc.ProcessId, message prc.Message) {
	p.n.Add(1)
}

// ---------------------------------------------------------------- nodes (prc level)

type pnode struct {
	idx            int
	rc             *prc.ResourceController
	sh             *prc.Shared
	addr           string
	dead           *deadProc
	opened, closed atomic.Int64
}

func newPNode(w *world, idx, nrecv int) (*pnode, error) {
	n := &pnode{idx: idx, dead: &deadProc{}}
	n.rc = prc.NewResourceController(prc.FunctionalResourceControllerConfigurator(func(c *prc.ResourceControllerConfiguration) {
		c.WithPhysicalAddress("127.0.0.1:0") // ephemeral port; Share() replaces it by the bound address
		c.WithLoggerProvider(log.FunctionalLoggerProvider(func() *log.Logger { return silent }))
		c.WithNotFoundSubstitute(n.dead)
	}))
	n.sh = prc.NewShared(n.rc, prc.FunctionalSharedConfigurator(func(c *prc.SharedConfiguration) {
		c.WithRuntimeErrorHandler(prc.FunctionalErrorPolicyDecisionHandler(func(err error) prc.SharedPolicyDecision {
			return prc.SharedPolicyDecisionStop
		}))
		c.WithShareOpenedHooks(prc.FunctionalShareOpenedHook(func(prc.PhysicalAddress) { n.opened.Add(1) }))
		c.WithShareClosedHooks(prc.FunctionalSharedClosedHook(func(prc.PhysicalAddress) { n.closed.Add(1) }))
	}))
	if err := n.sh.Share(); err != nil {
		return nil, err
	}
	n.addr = n.rc.GetPhysicalAddress()
	for k := 0; k < nrecv; k++ {
		la := fmt.Sprintf("/r%d", k)
		n.rc.Register(prc.NewProcessId(n.addr, la), &recProc{w: w, node: idx, laddr: la})
	}
	return n, nil
}

// build makes message seq of flow f in the form the flow hands it over (raw payload or *prc.MessageWrapper).
func (n *pnode) build(w *world, f *flow, seq int) prc.Message {
	var msg prc.Message = payload(f.PK, key(f.ID, seq), w.contentOf(f.ID, seq))
	if f.Wrap {
		msg = prc.WrapMessage(f.senderPid, f.recvPid.Clone(), msg)
	}
	return msg
}

// deliver hands a built message of flow f to the node's resource controller exactly as a user of the package does.
func (n *pnode) deliver(w *world, f *flow, msg prc.Message) {
	defer func() {
		if r := recover(); r != nil {
			w.notePanic("send on flow "+f.ID, r)
		}
	}()
	proc := n.rc.GetProcess(f.ref)
	if f.System {
		proc.DeliverySystemMessage(f.ref, f.senderPid, nil, msg)
	} else {
		proc.DeliveryUserMessage(f.ref, f.senderPid, nil, msg)
	}
}

// send = build + deliver of message seq of flow f.
func (n *pnode) send(w *world, f *flow, seq int) {
	defer func() {
		if r := recover(); r != nil {
			w.notePanic("send on flow "+f.ID, r)
		}
	}()
	n.deliver(w, f, n.build(w, f, seq))
}

// stackOf returns the (shortened) stack of the first goroutine whose stack mentions fn.
func stackOf(fn string) string {
	buf := make([]byte, 1<<20)
	buf = buf[:runtime.Stack(buf, true)]
	for _, g := range strings.Split(string(buf), "\n\n") {
		if strings.Contains(g, fn) {
			var fns []string
			for _, l := range strings.Split(g, "\n") {
				if !strings.HasPrefix(l, "\t") && !strings.HasPrefix(l, "goroutine ") && l != "" {
					if i := strings.LastIndexByte(l, '('); i > 0 {
						l = l[:i]
					}
					if j := strings.LastIndexByte(l, '/'); j >= 0 {
						l = l[j+1:]
					}
					fns = append(fns, l)
				}
				if len(fns) >= 12 {
					break
				}
			}
			return strings.Join(fns, " <- ")
		}
	}
	return "?"
}

// ---------------------------------------------------------------- the prc-level scenario

type prcRun struct {
	sc    *Scenario
	w     *world
	nodes []*pnode
	res   *Result
}

// racing: dials to one peer may race (cold link with concurrent first use, or traffic in flight while the
// link goes down); otherwise exactly one stream exists between the two nodes at any time.
func (r *prcRun) racing() bool { return r.sc.racing() }

func (r *prcRun) viol(kind, detail string, sig map[string]string) {
	r.res.addViol(kind, detail, sig)
}

// burst sends n messages of flow f; must = they are sent while the link is verified up.
func (r *prcRun) burst(f *flow, n int, must bool) {
	lo := f.sent
	for i := 0; i < n; i++ {
		r.nodes[f.Src].send(r.w, f, f.sent)
		f.sent++
	}
	if must && n > 0 {
		f.must = append(f.must, [2]int{lo, f.sent})
	}
}

// burstSpec is burst for a burst of the scenario: the large payloads of the burst are planned first.
func (r *prcRun) burstSpec(f *flow, b Burst, must bool) {
	for _, g := range b.Big {
		if g.At >= 0 && g.At < b.N && g.Bytes > 0 {
			r.w.setSize(f, f.sent+g.At, g.Bytes)
		}
	}
	r.burst(f, b.N, must)
}

// burstPrepared hands over n messages of flow f back to back: they are built beforehand, so that the handing over
// is much faster than the stream drains and the per-peer queue grows to many batches. Never "must": the caller
// closes the link right behind them.
func (r *prcRun) burstPrepared(f *flow, n int) {
	nd := r.nodes[f.Src]
	msgs := make([]prc.Message, n)
	for i := range msgs {
		msgs[i] = nd.build(r.w, f, f.sent+i)
	}
	for _, m := range msgs {
		nd.deliver(r.w, f, m)
		f.sent++
	}
}

func (r *prcRun) allMustDelivered() bool {
	for _, f := range r.w.order {
		want := 0
		for _, m := range f.must {
			want += m[1] - m[0]
		}
		if want == 0 {
			continue
		}
		f.mu.Lock()
		got := 0
		for _, s := range f.delivered {
			for _, m := range f.must {
				if s >= m[0] && s < m[1] {
					got++
					break
				}
			}
		}
		f.mu.Unlock()
		if got < want {
			return false
		}
	}
	return true
}

func runPrc(sc *Scenario) *Result {
	res := &Result{Scenario: *sc}
	w := newWorld()
	r := &prcRun{sc: sc, w: w, res: res}
	wire.reset()
	for i := 0; i < 2; i++ {
		n, err := newPNode(w, i, sc.NRecv)
		if err != nil {
			res.Infra = "cannot listen on loopback: " + err.Error()
			return res
		}
		r.nodes = append(r.nodes, n)
		w.addr = append(w.addr, n.addr)
	}
	defer func() {
		for _, n := range r.nodes {
			n := n
			withWatchdog(300*time.Millisecond, func() { n.sh.Dead() })
		}
	}()

	// flows and the references their senders hold (obtained once, before any outage)
	sharedRef := map[string]*prc.ProcessId{}
	for i, fs := range sc.Flows {
		dst := 1 - fs.Src
		f := &flow{ID: fmt.Sprintf("f%d", i), Src: fs.Src, Dst: dst, Recv: fmt.Sprintf("/r%d", fs.Recv), System: fs.System,
			Wrap: fs.Wrap, PK: fs.PK, Lean: fs.Lean, Mode: "tell"}
		if fs.Sender >= 0 {
			f.Sender = fmt.Sprintf("/s%d", fs.Sender)
			f.senderPid = prc.NewProcessId(w.addr[fs.Src], f.Sender)
		}
		f.recvPid = prc.NewProcessId(w.addr[dst], f.Recv)
		if fs.OwnRef {
			f.ref = prc.NewProcessId(w.addr[dst], f.Recv)
		} else {
			k := fmt.Sprintf("%d>%s", fs.Src, f.Recv)
			if sharedRef[k] == nil {
				sharedRef[k] = prc.NewProcessId(w.addr[dst], f.Recv)
			}
			f.ref = sharedRef[k]
		}
		w.addFlow(f)
	}

	// a reference object counts as shared when goroutines of several senders use it
	users := map[*prc.ProcessId]map[int]bool{}
	for si, sp := range sc.Senders {
		for _, fi := range sp.Flows {
			f := w.order[fi]
			if users[f.ref] == nil {
				users[f.ref] = map[int]bool{}
			}
			users[f.ref][si] = true
		}
	}
	for _, f := range w.order {
		f.sharedRef = len(users[f.ref]) > 1
	}

	if sc.Warm {
		// establish the link before the traffic starts: one message each way, delivered
		for src := 0; src < 2; src++ {
			f := &flow{ID: fmt.Sprintf("warm%d", src), Src: src, Dst: 1 - src, Recv: "/r0", PK: pkPid, Mode: "tell"}
			f.recvPid = prc.NewProcessId(w.addr[1-src], "/r0")
			f.ref = prc.NewProcessId(w.addr[1-src], "/r0")
			w.addFlow(f)
			r.burst(f, 1, true)
			if !waitDelivery(10*time.Second, func() bool { return f.deliveredCount() >= 1 }) {
				break
			}
			// the dialling side attaches its stream asynchronously: wait until both sides have it
			waitFor(2*time.Second, func() bool { return r.nodes[0].opened.Load() >= 1 && r.nodes[1].opened.Load() >= 1 })
		}
	}

	owner := func(si int) []*flow {
		var fl []*flow
		for _, fi := range sc.Senders[si].Flows {
			fl = append(fl, w.order[fi])
		}
		return fl
	}

	for e := 0; e < len(sc.Epochs); e++ {
		if e > 0 && e-1 < len(sc.Outages) { // (the payload-size scenarios have several epochs and no outage)
			if !r.outage(sc.Outages[e-1], owner) {
				break
			}
		}
		var wg sync.WaitGroup
		for si := range sc.Senders {
			wg.Add(1)
			go func(si int) {
				defer wg.Done()
				for _, b := range sc.Epochs[e][si] {
					r.burstSpec(w.order[b.Flow], b, true)
				}
			}(si)
		}
		wg.Wait()
		if !waitDelivery(20*time.Second, r.allMustDelivered) {
			if m, h := sc.bigCount(); m+h > 0 {
				stuckSeen.Add(1)
			}
			break // the flow monitor reports what is missing
		}
	}
	// let stragglers (possible duplicates) arrive before judging
	time.Sleep(30 * time.Millisecond)
	res.finishFlows(w)
	for _, n := range r.nodes {
		res.DeadLetters += int(n.dead.n.Load())
		res.Opened += int(n.opened.Load())
		res.Closed += int(n.closed.Load())
	}
	return res
}

// quiet waits until flow f has seen no arrival for `still` (false: arrivals kept coming for `max`).
func (r *prcRun) quiet(f *flow, still, max time.Duration) bool {
	deadline := time.Now().Add(max)
	last, since := f.arrivals.Load(), time.Now()
	for time.Now().Before(deadline) {
		time.Sleep(4 * time.Millisecond)
		if n := f.arrivals.Load(); n != last {
			last, since = n, time.Now()
		} else if time.Since(since) >= still {
			return true
		}
	}
	return false
}

// outage closes the sharing of one node (optionally while traffic is in flight), re-opens it, and checks
// that the references obtained before the outage deliver again. false = scenario cannot continue.
func (r *prcRun) outage(o Outage, owner func(int) []*flow) bool {
	x := r.nodes[o.Node]
	stop := make(chan struct{})
	var wg sync.WaitGroup
	if o.Inflight {
		for si := range r.sc.Senders {
			fl := owner(si)
			if len(fl) == 0 {
				continue
			}
			wg.Add(1)
			go func() {
				defer wg.Done()
				for k := 0; k < 4000; k++ {
					select {
					case <-stop:
						return
					default:
					}
					r.burst(fl[k%len(fl)], 1, false)
					if k%64 == 63 {
						time.Sleep(time.Millisecond)
					}
				}
			}()
		}
		time.Sleep(time.Duration(3+o.DownMs%7) * time.Millisecond)
	}
	// generous watchdogs (a loaded machine must not look like a defect); once a defect of this kind has been
	// witnessed in this run the later scenarios use short ones so that a broken tree is still judged quickly
	closeWD := 8 * time.Second
	if closeHangSeen.Load() {
		closeWD = 1500 * time.Millisecond
	}
	peer := r.nodes[1-o.Node]
	peerClosed := peer.closed.Load()
	var qf *flow
	if o.Queue > 0 {
		// close with a long queue: the whole burst is handed over, Close() follows at once
		qf = r.w.order[o.QFlow]
		before := qf.deliveredCount()
		r.burstPrepared(qf, o.Queue)
		r.res.QueuedAtClose = append(r.res.QueuedAtClose, o.Queue-(qf.deliveredCount()-before))
	}
	fin, p := withWatchdog(closeWD, func() { x.sh.Close() })
	r.res.Breaks++
	if o.Inflight {
		time.Sleep(2 * time.Millisecond)
	}
	close(stop)
	wg.Wait()
	if !fin {
		st := stackOf("prc.(*Shared).Close")
		closeHangSeen.Store(true)
		blocked := "other"
		switch {
		case strings.Contains(st, "GracefulStop"):
			blocked = "graceful-stop" // waits for a server-side stream handler that nobody will ever end
		case strings.Contains(st, "detachStream"):
			blocked = "farewell-send" // stream.Send(Farewell) on a stream the peer no longer reads
		}
		r.viol("link:close:hang", fmt.Sprintf("Shared.Close() of node %d did not return within %v — the link cannot be re-established; blocked at: %s", o.Node, closeWD, st),
			map[string]string{"blocked": blocked, "inflight": fmt.Sprint(o.Inflight), "dials": map[bool]string{true: "racing", false: "settled"}[r.racing()]})
		return false
	}
	if p != nil {
		r.viol("link:close:panic", fmt.Sprintf("Shared.Close() of node %d panicked: %v", o.Node, p), nil)
		return false
	}
	if qf != nil {
		// The receiver is still being handed the tail of the closed stream. Probing through a new stream now would
		// be the situation of the open finding "re-dial overlaps the old stream"; this family is about the order on
		// ONE stream, so the old stream has to be over (the peer's stream loop has ended, nothing arrives any more)
		// before the link is used again. If that cannot be established the scenario ends here (order is judged).
		if !waitFor(10*time.Second, func() bool { return peer.closed.Load() > peerClosed }) || !r.quiet(qf, 40*time.Millisecond, 5*time.Second) {
			return false
		}
	}
	time.Sleep(time.Duration(o.DownMs) * time.Millisecond)
	var err error
	if !waitFor(5*time.Second, func() bool { err = x.sh.Share(); return err == nil }) {
		r.res.Infra = fmt.Sprintf("re-Share of node %d failed: %v", o.Node, err)
		return false
	}
	if x.rc.GetPhysicalAddress() != x.addr {
		r.res.Infra = "node address changed across re-Share"
		return false
	}
	// the link is available again: every reference obtained before the outage has to deliver again.
	// Probes are sent through the old references until one arrives per flow (messages sent before the
	// sender noticed the outage count as in flight and may be lost) — or the watchdog expires.
	recoverMs := r.sc.RecoverMs
	if staleSeen.Load() && recoverMs > 600 {
		recoverMs = 600
	}
	deadline := time.Now().Add(time.Duration(recoverMs) * time.Millisecond)
	var stale []*flow
	firstProbe := map[*flow]int{}
	if r.racing() {
		// all flows probe together (dials may race, as they do for concurrent users)
		pend := append([]*flow(nil), r.w.order...)
		for _, f := range pend {
			firstProbe[f] = f.sent
		}
		for len(pend) > 0 && time.Now().Before(deadline) {
			for _, f := range pend {
				r.burst(f, 1, false)
			}
			time.Sleep(15 * time.Millisecond)
			var rest []*flow
			for _, f := range pend {
				if !f.hasDeliveredAtLeast(firstProbe[f]) {
					rest = append(rest, f)
				}
			}
			pend = rest
		}
		stale = pend
	} else {
		// one flow after the other, so that exactly one stream is dialled and every later flow finds it
		o0, o1 := r.nodes[0].opened.Load(), r.nodes[1].opened.Load()
		for i, f := range r.w.order {
			firstProbe[f] = f.sent
			ok := false
			for !ok && time.Now().Before(deadline) {
				r.burst(f, 1, false)
				first := firstProbe[f]
				ok = waitFor(15*time.Millisecond, func() bool { return f.hasDeliveredAtLeast(first) })
			}
			if !ok {
				stale = append(stale, f)
			}
			if i == 0 && ok {
				waitFor(time.Second, func() bool { return r.nodes[0].opened.Load() > o0 && r.nodes[1].opened.Load() > o1 })
			}
		}
	}
	if len(stale) > 0 {
		staleSeen.Store(true)
		f := stale[0]
		r.viol("link:reopen:stale-reference",
			fmt.Sprintf("after Close()+Share() of node %d, %d of %d flows never deliver again through the reference obtained before the outage "+
				"(e.g. flow %s node %d -> node %d %s: %d probe(s) sent over %d ms after the re-open, none arrived)",
				o.Node, len(stale), len(r.w.order), f.ID, f.Src, f.Dst, f.Recv, f.sent-firstProbe[f], recoverMs),
			map[string]string{"phase": "after-reopen"})
		return false
	}
	// quiet period: the probes still in the pipes arrive before the next verified epoch starts
	time.Sleep(20 * time.Millisecond)
	return true
}
