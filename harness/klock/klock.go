// Package klock is the lockstep harness (tie T1) for the actor kernel model MV.Kernel:
// it runs scripted scenarios on the REAL vivid.ActorSystem under a gating scheduler that lets
// exactly one message be processed at a time, and records, per step, the label and the observations
// (handled messages, dead letters, supervision decisions). The same label sequence is replayed by
// the Coq kernel (kstep) and the observations must be equal.
//
// How the real system is gated: every actor's mailbox recipient is wrapped (test actors through the
// public WithMailboxProvider, the system actors /user and /user/sub through the verif hook) by a gate
// that parks the real mailbox runner right before each ProcessUserMessage / ProcessSystemMessage until
// the scheduler grants that actor a step; all runners are started by a tracking dispatcher, so the
// scheduler can wait for quiescence (every runner parked or finished) after each step.
package klock

import (
	"fmt"
	"io"
	"log/slog"
	"os"
	"sort"
	"strings"
	"sync"
	"time"

	"github.com/kercylan98/minotaur/engine/prc"
	"github.com/kercylan98/minotaur/engine/vivid"
	"github.com/kercylan98/minotaur/engine/vivid/dispatcher"
	"github.com/kercylan98/minotaur/engine/vivid/mailbox"
	"github.com/kercylan98/minotaur/engine/vivid/supervision"
	"github.com/kercylan98/minotaur/toolkit/log"
)

var quietLogger = log.New(slog.NewTextHandler(io.Discard, &slog.HandlerOptions{Level: slog.Level(100)}))

// ---------------------------------------------------------------- scenario data (shared with Coq)

const (
	RefNone  = -1 // no sender
	RefGuard = -2 // /user
	RefOther = -3 // a future / unknown address
	RefSub   = -4 // /user/sub
)

type Action struct {
	K string `json:"k"` // tell ask reply spawn term watch unwatch panic report bcast
	T int    `json:"t"` // target token (spawn: token of the child)
	N int    `json:"n"` // probe number
	G bool   `json:"g"` // graceful
	R int    `json:"r"` // role index (spawn)
}
type Rule struct {
	On   string   `json:"on"` // L RD RG T TS TO P
	N    int      `json:"n"`  // probe number for P; -1 = any
	Inst int      `json:"inst"`
	Do   []Action `json:"do"`
}
type Role struct {
	Victim string   `json:"victim"` // "", restart, stop, resume, escalate : the actor's own supervision strategy
	Sup    []string `json:"sup"`    // if non-empty the actor itself implements supervision.Strategy: directive by accident count
	Rules  []Rule   `json:"rules"`
}
type Label struct {
	K string `json:"k"` // run tell ask term spawn shutdown
	T int    `json:"t"`
	N int    `json:"n"`
	G bool   `json:"g"`
	R int    `json:"r"`
}
type Obs struct {
	K      string `json:"k"` // H D DEC X END
	A      int    `json:"a"`
	Inst   int    `json:"inst"`
	Trig   string `json:"trig"`
	N      int    `json:"n"`
	Who    int    `json:"who"` // TO: which actor terminated
	Serial int    `json:"serial"`
	Snd    int    `json:"snd"`
	Dir    string `json:"dir,omitempty"`
	Closed bool   `json:"closed,omitempty"`
	Regs   []int  `json:"regs,omitempty"`
	Note   string `json:"note,omitempty"`
}
type Step struct {
	L Label `json:"l"`
	O []Obs `json:"o"`
	// Closed: the system's closed signal (what Shutdown waits for) was set when this step had settled; not compared
	// with the model (the model's closed flag is compared at the end), used by the C05 monitors
	Closed bool `json:"closed,omitempty"`
}
type Scenario struct {
	Mailbox string  `json:"mailbox"` // LockFree | GlobalOrderedLockFree
	Roles   []Role  `json:"roles"`
	Exts    []Label `json:"exts"` // external actions, performed in this order, interleaved with run steps
	Final   bool    `json:"final_graceful"`
	// Sentinel: token of a top-level actor that only watches SentinelWatches at launch and is never terminated before
	// the final shutdown (-1 = none); used by the C06 exactly-once monitor
	Sentinel        int `json:"sentinel"`
	SentinelWatches int `json:"sentinel_watches"`
}

type probe struct {
	N      int
	Serial int
}

// ---------------------------------------------------------------- scheduler

type parkT struct{ ch chan struct{} }

type Sched struct {
	mu       sync.Mutex
	cond     *sync.Cond
	active   int
	parked   map[int]*parkT // by actor uid (creation index of the mailbox)
	stepping bool           // a step is in progress: runners dispatched now start only when it has ended
	deferred []func()
}

func newSched() *Sched {
	s := &Sched{parked: map[int]*parkT{}}
	s.cond = sync.NewCond(&s.mu)
	return s
}
func (s *Sched) inc() { s.mu.Lock(); s.active++; s.mu.Unlock() }
func (s *Sched) dec() {
	s.mu.Lock()
	s.active--
	s.cond.Broadcast()
	s.mu.Unlock()
}

// waitQuiet waits until every tracked runner is parked or finished; false on timeout.
func (s *Sched) waitQuiet(d time.Duration) bool {
	deadline := time.Now().Add(d)
	s.mu.Lock()
	defer s.mu.Unlock()
	for s.active != 0 {
		if time.Now().After(deadline) {
			return false
		}
		// cond.Wait has no timeout: poll with a helper goroutine
		t := time.AfterFunc(5*time.Millisecond, func() { s.mu.Lock(); s.cond.Broadcast(); s.mu.Unlock() })
		s.cond.Wait()
		t.Stop()
	}
	return true
}
func (s *Sched) park(addr int) {
	p := &parkT{ch: make(chan struct{})}
	s.mu.Lock()
	s.parked[addr] = p
	s.active--
	s.cond.Broadcast()
	s.mu.Unlock()
	<-p.ch
}
func (s *Sched) grant(addr int) bool {
	s.mu.Lock()
	p := s.parked[addr]
	if p == nil {
		s.mu.Unlock()
		return false
	}
	delete(s.parked, addr)
	s.active++
	s.mu.Unlock()
	close(p.ch)
	return true
}
func (s *Sched) parkedAddrs() []int {
	s.mu.Lock()
	defer s.mu.Unlock()
	var out []int
	for a := range s.parked {
		out = append(out, a)
	}
	sort.Ints(out)
	return out
}

// settle ends a step: wait until the stepping goroutine is parked or finished, then start the runners that
// were dispatched during the step (each pops its own mailbox and parks), until nothing is left to start.
// Deferring those starts makes the lockstep deterministic: a mailbox that received several messages during one
// step is popped only after the step, as in the model (system queue first).
func (s *Sched) settle(d time.Duration) bool {
	for {
		if !s.waitQuiet(d) {
			return false
		}
		s.mu.Lock()
		fs := s.deferred
		s.deferred = nil
		if len(fs) == 0 {
			s.stepping = false
			s.mu.Unlock()
			return true
		}
		s.active += len(fs)
		s.mu.Unlock()
		for _, f := range fs {
			f := f
			go func() {
				defer s.dec()
				f()
			}()
		}
	}
}
func (s *Sched) begin() { s.mu.Lock(); s.stepping = true; s.mu.Unlock() }

type trackDisp struct{ s *Sched }

func (d trackDisp) Dispatch(f func()) {
	d.s.mu.Lock()
	if d.s.stepping {
		d.s.deferred = append(d.s.deferred, f)
		d.s.mu.Unlock()
		return
	}
	d.s.active++
	d.s.mu.Unlock()
	go func() {
		defer d.s.dec()
		f()
	}()
}

var _ dispatcher.Dispatcher = trackDisp{}

type gate struct {
	s     *Sched
	addr  int // uid
	inner mailbox.Recipient
}

func (g *gate) ProcessUserMessage(m prc.Message)   { g.s.park(g.addr); g.inner.ProcessUserMessage(m) }
func (g *gate) ProcessSystemMessage(m prc.Message) { g.s.park(g.addr); g.inner.ProcessSystemMessage(m) }
func (g *gate) ProcessAccident(r prc.Message)      { g.inner.ProcessAccident(r) }

// ---------------------------------------------------------------- recording abyss

type recAbyss struct {
	vivid.AbyssProcess
	h *Harness
}

func (a *recAbyss) DeliveryUserMessage(receiver, sender, forward *prc.ProcessId, message prc.Message) {
	_, _, inner := prc.UnwrapMessage(message)
	if inner == nil {
		inner = message
	}
	if p, ok := inner.(*probe); ok {
		a.h.emit(Obs{K: "D", A: a.h.tokenOf(receiver), N: p.N, Serial: p.Serial, Snd: a.h.tokenOf(sender)})
	}
	a.AbyssProcess.DeliveryUserMessage(receiver, sender, forward, message)
}

// ---------------------------------------------------------------- harness

type Harness struct {
	Scn     *Scenario
	sys     *vivid.ActorSystem
	s       *Sched
	mu      sync.Mutex
	cur     []Obs
	Steps   []Step
	addrOf  map[int]string
	refOf   map[int]vivid.ActorRef
	tokAt   map[string]int
	insts   map[int]int
	uids    int         // next mailbox uid (guard 0, sub 1, then every mailbox the harness creates, in creation order)
	uidTok  map[int]int // uid -> token
	serial  int
	Stuck   string
	timeout time.Duration
}

func (h *Harness) emit(o Obs) {
	h.mu.Lock()
	h.cur = append(h.cur, o)
	h.mu.Unlock()
}

func (h *Harness) tokenOf(ref *prc.ProcessId) int {
	if ref == nil {
		return RefNone
	}
	h.mu.Lock()
	defer h.mu.Unlock()
	if t, ok := h.tokAt[ref.GetLogicalAddress()]; ok {
		return t
	}
	return RefOther
}

func (h *Harness) nextSerial() int {
	h.mu.Lock()
	defer h.mu.Unlock()
	h.serial++
	return h.serial
}

// refFor resolves a token to a reference; tokens that were never spawned get an address nobody owns.
// names of the scripted actors: every other one starts with "sub" — /user/sub is the subscription actor's address, and an
// address that merely begins like it (/user/sub3, /user/subghost9) is an ordinary actor's (or nobody's) address
// Names of the same parity are prefixes of one another (n0, n02, n024 / sub1, sub13, sub135): siblings — and top-level
// actors — whose addresses extend each other as STRINGS without being related in the tree.
func tokName(t int) string {
	s := "n"
	if t%2 == 1 {
		s = "sub"
	}
	for k := t % 2; k <= t; k += 2 {
		s += fmt.Sprint(k)
	}
	return s
}
func ghostName(t int) string {
	if t%2 == 1 {
		return fmt.Sprintf("subghost%d", t)
	}
	return fmt.Sprintf("ghost%d", t)
}

func (h *Harness) refFor(t int) vivid.ActorRef {
	h.mu.Lock()
	defer h.mu.Unlock()
	if r, ok := h.refOf[t]; ok {
		return r
	}
	switch t {
	case RefGuard:
		return h.sys.VerifGuardRef()
	case RefSub:
		return h.sys.VerifSubscriptionRef()
	}
	// a token that the scenario spawns later (by exactly one spawner) already has its address: parent address + name
	if addr, ok := h.futureAddr(t, 0); ok {
		h.tokAt[addr] = t
		return prc.NewProcessId(h.sys.PhysicalAddress(), addr)
	}
	g := h.sys.VerifGuardRef().Derivation(ghostName(t))
	h.tokAt[g.GetLogicalAddress()] = t
	return g
}

// spawnersOf lists the tokens whose script (or RefGuard for the external actions) spawns token t.
func (h *Harness) spawnersOf(t int) []int {
	seen := map[int]bool{}
	var out []int
	add := func(p int) {
		if !seen[p] {
			seen[p] = true
			out = append(out, p)
		}
	}
	for _, e := range h.Scn.Exts {
		if e.K == "spawn" && e.T == t {
			add(RefGuard)
		}
	}
	// a role is played by the token that was spawned with it
	roleTok := map[int][]int{}
	for _, e := range h.Scn.Exts {
		if e.K == "spawn" {
			roleTok[e.R] = append(roleTok[e.R], e.T)
		}
	}
	for _, r := range h.Scn.Roles {
		for _, ru := range r.Rules {
			for _, a := range ru.Do {
				if a.K == "spawn" {
					roleTok[a.R] = append(roleTok[a.R], a.T)
				}
			}
		}
	}
	for ri, r := range h.Scn.Roles {
		for _, ru := range r.Rules {
			for _, a := range ru.Do {
				if a.K == "spawn" && a.T == t {
					for _, p := range roleTok[ri] {
						add(p)
					}
				}
			}
		}
	}
	return out
}

// futureAddr: the address token t will get when it is spawned, if that is determined by the scenario. h.mu is held.
func (h *Harness) futureAddr(t, depth int) (string, bool) {
	if a, ok := h.addrOf[t]; ok {
		return a, true
	}
	if depth > 8 {
		return "", false
	}
	sp := h.spawnersOf(t)
	if len(sp) != 1 {
		return "", false
	}
	pa, ok := h.futureAddr(sp[0], depth+1)
	if !ok {
		return "", false
	}
	return pa + "/" + tokName(t), true
}

type scriptActor struct {
	h     *Harness
	tok   int
	role  *Role
	inst  int
	ctxOf vivid.ActorContext
}

type supActor struct{ *scriptActor }

func dirOf(s string) supervision.Directive {
	switch s {
	case "restart":
		return supervision.DirectiveRestart
	case "stop":
		return supervision.DirectiveStop
	case "resume":
		return supervision.DirectiveResume
	case "escalate":
		return supervision.DirectiveEscalate
	}
	panic("bad directive " + s)
}

// decider: instance number of the supervisor object that took the decision by its own implemented Strategy (-1: the victim's
// own strategy decided)
func (h *Harness) apply(dir string, record *supervision.AccidentRecord, decider int) {
	sup := RefOther
	if record.Supervisor != nil {
		sup = h.tokenOf(record.Supervisor.Ref())
	}
	h.emit(Obs{K: "DEC", A: sup, Who: h.tokenOf(record.Victim), Dir: dir, Inst: record.State.AccidentCount(), N: decider})
	switch dir {
	case "restart":
		record.Supervisor.Restart(record.Victim)
	case "stop":
		record.Supervisor.Stop(record.Victim)
	case "resume":
		record.Supervisor.Resume(record.Victim)
	case "escalate":
		record.Supervisor.Escalate(record)
	case "restartall": // all-for-one: the supervisor restarts every child, healthy ones included
		record.Supervisor.Restart(record.Supervisor.Children()...)
	}
}

func (a supActor) OnPolicyDecision(record *supervision.AccidentRecord) {
	k := record.State.AccidentCount() - 1
	if k < 0 {
		k = 0
	}
	if k >= len(a.role.Sup) {
		k = len(a.role.Sup) - 1
	}
	a.h.apply(a.role.Sup[k], record, a.inst)
}

// scriptedPanic is the value the scripted "panic" action panics with: any other panic coming out of an action is the
// framework failing underneath the script (e.g. a send that crashes the sender) and is reported as an X observation
const scriptedPanic = "scripted panic"

func (a *scriptActor) performGuarded(ctx vivid.ActorContext, act Action) {
	defer func() {
		if r := recover(); r != nil {
			s, isStr := r.(string)
			modelled := (isStr && s == scriptedPanic) || (act.K == "spawn" && strings.Contains(fmt.Sprint(r), "exist")) // ActorOf on a taken address panics: modelled
			if !modelled {
				a.h.emit(Obs{K: "X", A: a.tok, Note: fmt.Sprintf("action %s of actor %d panicked inside the framework: %v", act.K, a.tok, r)})
			}
			panic(r)
		}
	}()
	a.h.perform(ctx, a, act)
}

func (a *scriptActor) OnReceive(ctx vivid.ActorContext) {
	h := a.h
	trig, n, who, serial := "", -1, RefNone, 0
	switch m := ctx.Message().(type) {
	case *vivid.OnLaunch:
		trig = "L"
	case *vivid.OnRestarted:
		trig = "RD"
	case *vivid.OnRestarting:
		trig = "RG"
	case *vivid.OnTerminate:
		trig = "T"
	case *vivid.OnTerminated:
		who = h.tokenOf(m.TerminatedActor)
		if who == a.tok {
			trig = "TS"
		} else {
			trig = "TO"
		}
	case *probe:
		trig, n, serial = "P", m.N, m.Serial
	default:
		if os.Getenv("KLOCK_DEBUG") != "" {
			fmt.Fprintf(os.Stderr, "unclassified message %T at %d\n", m, a.tok)
		}
		return // snapshots, abyss events, ... are not part of the scripted scenarios
	}
	snd := RefNone
	if trig == "P" {
		snd = h.tokenOf(ctx.Sender())
	}
	h.emit(Obs{K: "H", A: a.tok, Inst: a.inst, Trig: trig, N: n, Who: who, Serial: serial, Snd: snd})
	sel := n // what a rule's N selects: the probe number, or for OnTerminated(w) the terminated actor w
	if trig == "TO" {
		sel = who
	}
	for _, r := range a.role.Rules {
		if r.On != trig || (r.N != -1 && r.N != sel) || (r.Inst != -1 && r.Inst != a.inst) {
			continue
		}
		for _, act := range r.Do {
			a.performGuarded(ctx, act)
		}
		break
	}
}

func (h *Harness) perform(ctx vivid.ActorContext, a *scriptActor, act Action) {
	switch act.K {
	case "tell":
		sn := h.nextSerial()
		h.emit(Obs{K: "S", A: act.T, N: act.N, Serial: sn, Snd: a.tok})
		ctx.Tell(h.refFor(act.T), &probe{N: act.N, Serial: sn})
	case "ask":
		sn := h.nextSerial()
		h.emit(Obs{K: "S", A: act.T, N: act.N, Serial: sn, Snd: a.tok})
		ctx.Ask(h.refFor(act.T), &probe{N: act.N, Serial: sn})
	case "reply":
		// without a sender (the message was sent by Tell) the reply goes to a nil receiver: it must become a dead
		// letter, not crash the replier
		sn := h.nextSerial()
		h.emit(Obs{K: "S", A: h.tokenOf(ctx.Sender()), N: act.N, Serial: sn, Snd: a.tok})
		ctx.Reply(&probe{N: act.N, Serial: sn})
	case "bcast":
		sn := h.nextSerial()
		var ch []int
		for _, c := range ctx.Children() {
			ch = append(ch, h.tokenOf(c))
		}
		sort.Ints(ch)
		for _, c := range ch {
			h.emit(Obs{K: "S", A: c, N: act.N, Serial: sn, Snd: a.tok})
		}
		h.mu.Lock()
		mark := len(h.cur)
		h.mu.Unlock()
		ctx.Broadcast(&probe{N: act.N, Serial: sn})
		// Broadcast ranges over the children map: the order in which several copies become dead letters is Go's map
		// iteration order, not a behaviour of the framework — canonical order: by receiver (the model's)
		h.mu.Lock()
		tail := h.cur[mark:]
		onlyDead := true
		for _, o := range tail {
			onlyDead = onlyDead && o.K == "D" && o.Serial == sn
		}
		if onlyDead {
			sort.SliceStable(tail, func(i, j int) bool { return tail[i].A < tail[j].A })
		}
		h.mu.Unlock()
	case "spawn":
		h.emit(Obs{K: "SP", A: a.tok, Who: act.T})
		h.spawn(ctx, act.T, act.R)
	case "term":
		h.emit(Obs{K: "TR", A: a.tok, Who: act.T, Closed: act.G})
		ctx.Terminate(h.refFor(act.T), act.G)
	case "watch":
		h.emit(Obs{K: "W", A: a.tok, Who: act.T})
		ctx.Watch(h.refFor(act.T))
	case "unwatch":
		h.emit(Obs{K: "UW", A: a.tok, Who: act.T})
		ctx.UnWatch(h.refFor(act.T))
	case "report":
		h.emit(Obs{K: "F", A: a.tok, Inst: a.inst, Note: "report"})
		ctx.ReportAbnormal("scripted abnormality")
	case "panic":
		h.emit(Obs{K: "F", A: a.tok, Inst: a.inst, Note: "panic"})
		panic(scriptedPanic)
	}
}

type spawner interface {
	ActorOf(provider vivid.ActorProvider, configurator ...vivid.ActorDescriptorConfigurator) vivid.ActorRef
	Ref() vivid.ActorRef
}

func (h *Harness) spawn(ctx spawner, tok, roleIdx int) {
	role := &h.Scn.Roles[roleIdx]
	parentAddr := ctx.Ref().GetLogicalAddress()
	name := tokName(tok)
	addr := parentAddr + "/" + name
	h.mu.Lock()
	h.addrOf[tok] = addr
	h.tokAt[addr] = tok
	h.mu.Unlock()
	provider := vivid.FunctionalActorProvider(func() vivid.Actor {
		h.mu.Lock()
		inst := h.insts[tok]
		h.insts[tok]++
		h.mu.Unlock()
		sa := &scriptActor{h: h, tok: tok, role: role, inst: inst}
		if len(role.Sup) > 0 {
			return supActor{sa}
		}
		return sa
	})
	conf := vivid.FunctionalActorDescriptorConfigurator(func(d *vivid.ActorDescriptor) {
		d.WithName(name)
		d.WithDispatcherProvider(vivid.FunctionalDispatcherProvider(func() dispatcher.Dispatcher { return trackDisp{h.s} }))
		d.WithMailboxProvider(vivid.FunctionalMailboxProvider(func(disp dispatcher.Dispatcher, rec mailbox.Recipient) mailbox.Mailbox {
			h.mu.Lock()
			uid := h.uids
			h.uids++
			h.uidTok[uid] = tok
			h.mu.Unlock()
			g := &gate{s: h.s, addr: uid, inner: rec}
			if h.Scn.Mailbox == "GlobalOrderedLockFree" {
				return mailbox.NewGlobalOrderedLockFree(disp, g)
			}
			return mailbox.NewLockFree(disp, g)
		}))
		if role.Victim != "" {
			dir := role.Victim
			d.WithSupervisionStrategyProvider(supervision.FunctionalStrategyProvider(func() supervision.Strategy {
				return supervision.FunctionalStrategy(func(record *supervision.AccidentRecord) { h.apply(dir, record, -1) })
			}))
		}
	})
	ref := ctx.ActorOf(provider, conf) // panics with "already exists" when the address is taken (after Provide() ran)
	h.mu.Lock()
	h.refOf[tok] = ref
	h.mu.Unlock()
}

type sysSpawner struct{ h *Harness }

func (s sysSpawner) ActorOf(p vivid.ActorProvider, c ...vivid.ActorDescriptorConfigurator) vivid.ActorRef {
	return s.h.sys.ActorOf(p, c...)
}
func (s sysSpawner) Ref() vivid.ActorRef { return s.h.sys.VerifGuardRef() }

// New starts a real actor system under the gating scheduler.
func New(scn *Scenario) *Harness {
	h := &Harness{Scn: scn, s: newSched(), addrOf: map[int]string{}, refOf: map[int]vivid.ActorRef{}, tokAt: map[string]int{},
		insts: map[int]int{}, uidTok: map[int]int{0: RefGuard, 1: RefSub}, uids: 2, timeout: 3 * time.Second}
	vivid.VerifSetDefaultDispatcher(trackDisp{h.s})
	h.sys = vivid.NewActorSystem(vivid.FunctionalActorSystemConfigurator(func(c *vivid.ActorSystemConfiguration) {
		c.WithAbyss(&recAbyss{AbyssProcess: vivid.VerifNewAbyss(), h: h})
		c.WithLoggerProvider(log.FunctionalLoggerProvider(func() *log.Logger { return quietLogger }))
	}))
	if !h.s.waitQuiet(h.timeout) {
		h.Stuck = "system start did not become quiet"
		return h
	}
	g, sub := h.sys.VerifGuardRef(), h.sys.VerifSubscriptionRef()
	h.tokAt[g.GetLogicalAddress()] = RefGuard
	h.tokAt[sub.GetLogicalAddress()] = RefSub
	h.addrOf[RefGuard], h.addrOf[RefSub] = g.GetLogicalAddress(), sub.GetLogicalAddress()
	for i, r := range []vivid.ActorRef{g, sub} {
		uid := i
		h.sys.VerifWrapRecipient(r, func(rec mailbox.Recipient) mailbox.Recipient { return &gate{s: h.s, addr: uid, inner: rec} })
	}
	return h
}

// Enabled returns the uids of the mailboxes whose runner is parked at a message (sorted).
func (h *Harness) Enabled() []int { return h.s.parkedAddrs() }

func (h *Harness) finishStep(l Label) {
	if !h.s.settle(h.timeout) {
		h.Stuck = fmt.Sprintf("no quiescence after %+v", l)
		h.emit(Obs{K: "X", Note: "stuck"})
	}
	h.mu.Lock()
	o := h.cur
	h.cur = nil
	h.mu.Unlock()
	if o == nil {
		o = []Obs{}
	}
	h.Steps = append(h.Steps, Step{L: l, O: o, Closed: h.sys != nil && h.sys.VerifClosed()})
}

// Do performs one label on the real system and records what was observed.
func (h *Harness) Do(l Label) {
	defer func() {
		if r := recover(); r != nil {
			h.emit(Obs{K: "X", Note: fmt.Sprint("panic in external action: ", r)})
			h.finishStep(l)
		}
	}()
	h.s.begin()
	switch l.K {
	case "run":
		if !h.s.grant(l.T) {
			h.emit(Obs{K: "X", Note: "not parked"})
		}
	case "tell":
		sn := h.nextSerial()
		h.emit(Obs{K: "S", A: l.T, N: l.N, Serial: sn, Snd: RefGuard})
		h.sys.Tell(h.refFor(l.T), &probe{N: l.N, Serial: sn})
	case "ask":
		sn := h.nextSerial()
		h.emit(Obs{K: "S", A: l.T, N: l.N, Serial: sn, Snd: RefGuard})
		h.sys.Ask(h.refFor(l.T), &probe{N: l.N, Serial: sn})
	case "term":
		h.emit(Obs{K: "TR", A: RefGuard, Who: l.T, Closed: l.G})
		h.sys.Terminate(h.refFor(l.T), l.G)
	case "spawn":
		h.emit(Obs{K: "SP", A: RefGuard, Who: l.T})
		func() {
			defer func() {
				if r := recover(); r != nil {
					h.emit(Obs{K: "XS", A: RefGuard, Who: l.T}) // ActorOf refused: the address is taken (documented panic to the caller)
				}
			}()
			h.spawn(sysSpawner{h}, l.T, l.R)
		}()
	case "shutdown":
		h.sys.Terminate(h.sys.VerifGuardRef(), l.G)
	}
	h.finishStep(l)
}

// End records the final observation: is the system closed, which tokens are still registered.
func (h *Harness) End() {
	rc := h.sys.VerifResourceController()
	ab := rc.GetProcess(h.sys.Abyss())
	var regs []int
	h.mu.Lock()
	toks := make([]int, 0, len(h.addrOf))
	for t := range h.addrOf {
		if t >= 0 {
			toks = append(toks, t)
		}
	}
	h.mu.Unlock()
	sort.Ints(toks)
	for _, t := range toks {
		ref := prc.NewProcessId(h.sys.PhysicalAddress(), h.addrOf[t])
		if rc.GetProcess(ref) != ab {
			regs = append(regs, t)
		}
	}
	if regs == nil {
		regs = []int{}
	}
	h.Steps = append(h.Steps, Step{L: Label{K: "end"}, O: []Obs{{K: "END", Closed: h.sys.VerifClosed(), Regs: regs}}})
}
