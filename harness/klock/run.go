package klock

import (
	"fmt"

	"verif/harness/vh"
)

// Case = scenario + the choices made by the scheduler + everything observed.
type Case struct {
	Scn     Scenario `json:"scn"`
	Choices []int    `json:"choices"`
	Steps   []Step   `json:"steps"`
	Stuck   string   `json:"stuck,omitempty"`
	// Truncated: the step budget ran out (e.g. an endless restart loop scripted by the scenario)
	Truncated bool `json:"truncated,omitempty"`
}

type Result struct {
	Case Case           `json:"case"`
	Viol []vh.Violation `json:"monitor"`
}

// Execute runs a scenario: pick(n) chooses among n options (enabled run steps first, then "next external").
func Execute(scn *Scenario, pick func(n int) int, maxSteps int) *Case {
	h := New(scn)
	c := &Case{Scn: *scn}
	exts := append([]Label(nil), scn.Exts...)
	shutdown := false
	for len(h.Steps) < maxSteps && h.Stuck == "" {
		en := h.Enabled()
		n := len(en)
		if len(exts) > 0 {
			n++
		}
		if n == 0 {
			if shutdown {
				break
			}
			shutdown = true
			h.Do(Label{K: "shutdown", G: scn.Final})
			continue
		}
		i := pick(n)
		c.Choices = append(c.Choices, i)
		if i < len(en) {
			h.Do(Label{K: "run", T: en[i]})
		} else {
			h.Do(exts[0])
			exts = exts[1:]
		}
	}
	c.Truncated = len(h.Steps) >= maxSteps
	h.End()
	c.Steps, c.Stuck = h.Steps, h.Stuck
	return c
}

func Replay(c *Case) *Result {
	k := 0
	got := Execute(&c.Scn, func(n int) int {
		i := 0
		if k < len(c.Choices) {
			i = c.Choices[k]
		}
		k++
		if i >= n {
			i = n - 1
		}
		return i
	}, 600)
	return &Result{Case: *got, Viol: Monitors(got)}
}

func Main(f vh.Flags) {
	rng := vh.NewRNG(f.Seed)
	n := f.N
	if n == 0 {
		n = 800
		if f.Tier == "thorough" {
			n = 3000
		}
	}
	out := vh.NewOut(f.Out, "klock", "From MV Require Import Lib.ListX Kernel.Model Kernel.Run.", "kcase", "kmismatches", f.Seed,
		"scripted scenarios on the real vivid.ActorSystem under the gating scheduler: random actor trees (<=6 actors), per-role scripts "+
			"(tell/ask/reply/broadcast/spawn/terminate/watch/unwatch/panic/report), supervision by the victim's own strategy or by a "+
			"supervising parent (restart/stop/resume/escalate by accident count), external tells/asks/terminations/spawns interleaved at "+
			"random with message-processing steps; then shutdown. Non-trivial = a termination or restart overlapping in-flight messages "+
			"to that subtree, or a failure with a user message queued behind it")
	out.PerShard = 25
	for _, c := range Corpus() {
		c := c
		record(out, Replay(&c))
	}
	for i := 0; i < n; i++ {
		cr, _ := rng.Derive()
		scn := Generate(cr)
		c := Execute(scn, func(k int) int { return cr.Intn(k) }, 600)
		record(out, &Result{Case: *c, Viol: Monitors(c)})
	}
	// systematic part: for a few small scenarios, EVERY schedule that deviates from the default one ("lowest enabled
	// mailbox first, externals last") in at most `devs` places — the analogue of a pre-emption bound
	devs, per := 1, 40
	if f.Tier == "thorough" {
		devs, per = 2, 800
	}
	explored := 0
	// every template on every run (each with its own random choices), not a sample of them
	for k := 0; k < NTemplates; k++ {
		cr, _ := rng.Derive()
		scn := TemplateAt(cr, k)
		explored += Explore(scn, devs, per, func(c *Case) { record(out, &Result{Case: *c, Viol: Monitors(c)}) })
	}
	out.Count("systematic_schedules", vh.Bucket(explored))
	out.Close()
}

// Explore runs scn under every schedule with at most devs non-default choices (depth-first over the positions of the
// deviations), at most limit runs; returns the number of runs.
func Explore(scn *Scenario, devs, limit int, emit func(*Case)) int {
	type dev struct{ pos, val int }
	count := 0
	var rec func(fixed []dev, from int)
	rec = func(fixed []dev, from int) {
		if count >= limit {
			return
		}
		var widths []int
		k := 0
		c := Execute(scn, func(n int) int {
			i := 0
			for _, d := range fixed {
				if d.pos == k {
					i = d.val
				}
			}
			if i >= n {
				i = n - 1
			}
			widths = append(widths, n)
			k++
			return i
		}, 600)
		emit(c)
		count++
		if len(fixed) >= devs {
			return
		}
		for pos := from; pos < len(widths) && count < limit; pos++ {
			for val := 1; val < widths[pos] && count < limit; val++ {
				rec(append(append([]dev(nil), fixed...), dev{pos, val}), pos+1)
			}
		}
	}
	rec(nil, 0)
	return count
}

func record(out *vh.Out, r *Result) {
	c := &r.Case
	st := Stats(c)
	out.Count("actors", vh.Bucket(st.Actors))
	out.Count("steps", vh.Bucket(len(c.Steps)))
	out.Count("failures", vh.Bucket(st.Failures))
	out.Count("restarts", vh.Bucket(st.Restarts))
	out.Count("terminations_requested", vh.Bucket(st.Terms))
	out.Count("graceful", vh.Bucket(st.Graceful))
	out.Count("dead_letters", vh.Bucket(st.Dead))
	out.Count("watches", vh.Bucket(st.Watches))
	out.Count("mailbox", c.Scn.Mailbox)
	if c.Stuck != "" {
		out.Count("stuck", "yes")
	}
	out.Add(c, fmt.Sprintf("{| kid := %d; %s |}", out.N(), CoqCase(c)), st.NonTrivial, r.Viol)
}
