package klock

import (
	"fmt"
	"strings"

	"verif/harness/vh"
)

func z(i int) string { return vh.Z(int64(i)) }

func coqDir(d string) string {
	switch d {
	case "restart":
		return "DRestart"
	case "stop":
		return "DStop"
	case "resume":
		return "DResume"
	case "escalate":
		return "DEscalate"
	case "restartall":
		return "DRestartAll"
	}
	return "DStop"
}

func coqTrigK(t string) string { return "K" + t }

func coqAction(a Action) string {
	switch a.K {
	case "tell":
		return fmt.Sprintf("(ATell %s %s)", z(a.T), z(a.N))
	case "ask":
		return fmt.Sprintf("(AAsk %s %s)", z(a.T), z(a.N))
	case "reply":
		return fmt.Sprintf("(AReply %s)", z(a.N))
	case "bcast":
		return fmt.Sprintf("(ABcast %s)", z(a.N))
	case "spawn":
		return fmt.Sprintf("(ASpawn %s %d%%nat)", z(a.T), a.R)
	case "term":
		return fmt.Sprintf("(ATerm %s %v)", z(a.T), a.G)
	case "watch":
		return fmt.Sprintf("(AWatch %s)", z(a.T))
	case "unwatch":
		return fmt.Sprintf("(AUnwatch %s)", z(a.T))
	case "report":
		return "AReport"
	case "panic":
		return "APanic"
	}
	panic(a.K)
}

func coqRole(r Role) string {
	var rules []string
	for _, ru := range r.Rules {
		var acts []string
		for _, a := range ru.Do {
			acts = append(acts, coqAction(a))
		}
		rules = append(rules, fmt.Sprintf("{| r_on := %s; r_n := %s; r_inst := %s; r_do := %s |}", coqTrigK(ru.On), z(ru.N), z(ru.Inst), vh.List(acts)))
	}
	victim := "None"
	if r.Victim != "" {
		victim = "(Some " + coqDir(r.Victim) + ")"
	}
	var sup []string
	for _, d := range r.Sup {
		sup = append(sup, coqDir(d))
	}
	return fmt.Sprintf("{| victim := %s; sup := %s; rules := %s |}", victim, vh.List(sup), vh.List(rules))
}

func coqLabel(l Label) string {
	switch l.K {
	case "run":
		return fmt.Sprintf("(LRun %s)", z(l.T))
	case "tell":
		return fmt.Sprintf("(LTell %s %s)", z(l.T), z(l.N))
	case "ask":
		return fmt.Sprintf("(LAsk %s %s)", z(l.T), z(l.N))
	case "term":
		return fmt.Sprintf("(LTerm %s %v)", z(l.T), l.G)
	case "spawn":
		return fmt.Sprintf("(LSpawn %s %d%%nat)", z(l.T), l.R)
	case "shutdown":
		return fmt.Sprintf("(LShutdown %v)", l.G)
	case "end":
		return "LEnd"
	}
	panic(l.K)
}

func coqTrig(o Obs) string {
	switch o.Trig {
	case "L":
		return "TL"
	case "RD":
		return "TRD"
	case "RG":
		return "TRG"
	case "T":
		return "TT"
	case "TS":
		return "TTS"
	case "TO":
		return fmt.Sprintf("(TTO %s)", z(o.Who))
	case "P":
		return fmt.Sprintf("(TP %s)", z(o.N))
	}
	panic(o.Trig)
}

func coqObs(o Obs) string {
	switch o.K {
	case "H":
		return fmt.Sprintf("(OH %s %d%%nat %s %d%%nat %s)", z(o.A), o.Inst, coqTrig(o), o.Serial, z(o.Snd))
	case "D":
		return fmt.Sprintf("(OD %s %s %d%%nat)", z(o.Snd), z(o.A), o.Serial)
	case "S":
		return fmt.Sprintf("(OS %s %s %d%%nat)", z(o.Snd), z(o.A), o.Serial)
	case "SP":
		return fmt.Sprintf("(OSp %s %s)", z(o.A), z(o.Who))
	case "TR":
		return fmt.Sprintf("(OTr %s %s %v)", z(o.A), z(o.Who), o.Closed)
	case "W":
		return fmt.Sprintf("(OW %s %s)", z(o.A), z(o.Who))
	case "UW":
		return fmt.Sprintf("(OUw %s %s)", z(o.A), z(o.Who))
	case "F":
		return fmt.Sprintf("(OF %s %d%%nat)", z(o.A), o.Inst)
	case "XS":
		return fmt.Sprintf("(OXs %s %s)", z(o.A), z(o.Who))
	case "DEC":
		return fmt.Sprintf("(ODec %s %s %s %d%%nat)", z(o.A), z(o.Who), coqDir(o.Dir), o.Inst)
	case "END":
		var rs []string
		for _, r := range o.Regs {
			rs = append(rs, z(r))
		}
		return fmt.Sprintf("(OEnd %v %s)", o.Closed, vh.List(rs))
	}
	return "OBad"
}

// CoqCase renders the fields of a kcase record (without the id).
func CoqCase(c *Case) string {
	var roles, steps []string
	for _, r := range c.Scn.Roles {
		roles = append(roles, coqRole(r))
	}
	for _, s := range c.Steps {
		var os []string
		for _, o := range s.O {
			os = append(os, coqObs(o))
		}
		steps = append(steps, fmt.Sprintf("(%s, %s)", coqLabel(s.L), vh.List(os)))
	}
	return fmt.Sprintf("kroles := %s; ksteps := [%s]", vh.List(roles), strings.Join(steps, ";\n    "))
}
