package klock

import (
	"embed"
	"encoding/json"

	"verif/harness/vh"
)

var dirs3 = []string{"restart", "stop", "resume"}

// Generate draws a random scenario: an actor tree of 2..6 tokens (token 0 = root, spawned externally),
// one role per token, and a list of external actions.
// template scenarios aimed at situations that uniform generation reaches rarely
const NTemplates = 15

func template(r *vh.RNG) *Scenario { return TemplateAt(r, r.Intn(NTemplates)) }

// TemplateAt builds template k (0 <= k < NTemplates; the last one is the default branch)
func TemplateAt(r *vh.RNG, k int) *Scenario {
	scn := &Scenario{Mailbox: "LockFree", Final: r.Bool(), Sentinel: -1}
	if r.Bool() {
		scn.Mailbox = "GlobalOrderedLockFree"
	}
	tell := func(t, n int) Label { return Label{K: "tell", T: t, N: n} }
	switch k {
	case 0:
		// all-for-one: the root restarts ALL its children when A (token 1) fails; B (token 2) is healthy, has a child
		// (token 3) and traffic in flight while it waits for that child during its restart
		scn.Roles = []Role{
			{Victim: "resume", Sup: []string{"restartall"}, Rules: []Rule{{On: "L", N: -1, Inst: -1, Do: []Action{{K: "spawn", T: 1, R: 1}, {K: "spawn", T: 2, R: 2}}}}},
			{Rules: []Rule{{On: "P", N: 0, Inst: 0, Do: []Action{{K: "panic"}}}}},
			{Rules: []Rule{{On: "L", N: -1, Inst: -1, Do: []Action{{K: "spawn", T: 3, R: 3}}}, {On: "P", N: 1, Inst: -1, Do: []Action{{K: "tell", T: 3, N: 2}}}}},
			{Victim: "resume"},
		}
		scn.Exts = []Label{{K: "spawn", T: 0, R: 0}, tell(2, 1), tell(2, 2), tell(1, 0), tell(2, 1), tell(2, 3), tell(3, 1), tell(2, 2), tell(1, 1)}
	case 1:
		// a terminate request racing with the restart of an actor that waits for its child
		scn.Roles = []Role{
			{Victim: "resume", Sup: []string{"restart"}, Rules: []Rule{{On: "L", N: -1, Inst: -1, Do: []Action{{K: "spawn", T: 1, R: 1}}}}},
			{Rules: []Rule{{On: "L", N: -1, Inst: -1, Do: []Action{{K: "spawn", T: 2, R: 2}}}, {On: "P", N: 0, Inst: 0, Do: []Action{{K: "panic"}}}}},
			{Victim: "resume"},
		}
		scn.Exts = []Label{{K: "spawn", T: 0, R: 0}, tell(1, 1), tell(1, 0), tell(1, 2), {K: "term", T: 1, G: r.Bool()}, tell(1, 3), tell(2, 1)}
	case 3:
		// a watch request for the address of a child that is spawned afterwards: the immediate answer ("no such actor")
		// must not make the parent forget the child
		scn.Roles = []Role{
			{Victim: "resume", Sup: []string{"stop"}, Rules: []Rule{{On: "L", N: -1, Inst: -1, Do: []Action{{K: "watch", T: 1}, {K: "spawn", T: 1, R: 1}}},
				{On: "P", N: 0, Inst: -1, Do: []Action{{K: "watch", T: 2}}}, {On: "P", N: 1, Inst: -1, Do: []Action{{K: "spawn", T: 2, R: 2}}}}},
			{Victim: "resume", Rules: []Rule{{On: "P", N: 0, Inst: -1, Do: []Action{{K: "reply", N: 1}}}}},
			{Victim: "resume"},
		}
		scn.Exts = []Label{{K: "spawn", T: 0, R: 0}, tell(0, 0), tell(1, 0), tell(0, 1), tell(2, 1), {K: "term", T: 0, G: r.Bool()}, tell(1, 2)}
	case 4:
		// children spawned from inside the termination handlers (OnTerminate: they are stopped with the others;
		// OnTerminated: finding C05-spawn-in-own-onterminated-leaks-child)
		on := "T"
		if r.Bool() {
			on = "TS"
		}
		scn.Roles = []Role{
			{Victim: "resume", Sup: []string{"stop"}, Rules: []Rule{{On: "L", N: -1, Inst: -1, Do: []Action{{K: "spawn", T: 1, R: 1}}}}},
			{Victim: "resume", Rules: []Rule{{On: on, N: -1, Inst: -1, Do: []Action{{K: "spawn", T: 2, R: 2}}}}},
			{Victim: "resume"},
		}
		scn.Exts = []Label{{K: "spawn", T: 0, R: 0}, tell(1, 0), {K: "term", T: 1, G: r.Bool()}, tell(1, 1), tell(2, 0)}
	case 5:
		// a child spawned from the OnTerminated(child) handler of a parent that is terminating (its children were already
		// told to stop) or restarting: the new child must not make the parent wait for ever
		scn.Roles = []Role{
			{Victim: dirs3[r.Intn(3)], Sup: []string{dirs3[r.Intn(3)]}, Rules: []Rule{{On: "L", N: -1, Inst: -1, Do: []Action{{K: "spawn", T: 1, R: 1}}},
				{On: "TO", N: 1, Inst: -1, Do: []Action{{K: "spawn", T: 2, R: 2}, {K: "tell", T: 2, N: 1}}}, {On: "P", N: 0, Inst: 0, Do: []Action{{K: "panic"}}}}},
			{Victim: "resume"},
			{Victim: "resume", Rules: []Rule{{On: "P", N: 1, Inst: -1, Do: []Action{{K: "reply", N: 2}}}}},
		}
		scn.Exts = []Label{{K: "spawn", T: 0, R: 0}, tell(1, 0), {K: "term", T: 0, G: r.Bool()}, tell(0, 1), tell(2, 0)}
		if r.Bool() {
			scn.Exts[2] = Label{K: "term", T: 1, G: false} // the child goes first, the parent is still alive
		}
	case 6:
		// the fresh instance of a restarted actor reports a failure (without panicking) from its own start handlers while
		// user messages are queued: it must stay suspended until the supervisor's second decision
		on := "L"
		if r.Bool() {
			on = "RD"
		}
		scn.Roles = []Role{
			{Victim: "resume", Sup: []string{"restart", dirs3[r.Intn(3)]}, Rules: []Rule{{On: "L", N: -1, Inst: -1, Do: []Action{{K: "spawn", T: 1, R: 1}}}}},
			{Rules: []Rule{{On: "P", N: 0, Inst: 0, Do: []Action{{K: "panic"}}}, {On: on, N: -1, Inst: 1, Do: []Action{{K: []string{"report", "panic"}[r.Intn(2)]}}},
				{On: "P", N: 1, Inst: -1, Do: []Action{{K: "tell", T: 0, N: 2}}}}},
		}
		scn.Exts = []Label{{K: "spawn", T: 0, R: 0}, tell(1, 1), tell(1, 0), tell(1, 1), tell(1, 2), tell(1, 1), tell(0, 1)}
	case 7:
		// the OLD instance of a restarting actor spawns a child from its last handlers (OnTerminate / own OnTerminated run
		// inside tryRestarted): the child is stopped at once but still has to be waited for when the restarted actor is
		// terminated or the system shut down right afterwards
		on := "T"
		if r.Bool() {
			on = "TS"
		}
		scn.Roles = []Role{
			{Victim: "resume", Sup: []string{"restart", "restart"}, Rules: []Rule{{On: "L", N: -1, Inst: -1, Do: []Action{{K: "spawn", T: 1, R: 1}}}}},
			{Rules: []Rule{{On: "P", N: 0, Inst: 0, Do: []Action{{K: "panic"}}}, {On: on, N: -1, Inst: 0, Do: []Action{{K: "spawn", T: 2, R: 2}}},
				{On: "P", N: 1, Inst: -1, Do: []Action{{K: "tell", T: 2, N: 1}}}}},
			{Victim: "resume", Rules: []Rule{{On: "L", N: -1, Inst: -1, Do: []Action{{K: "spawn", T: 3, R: 3}}}, {On: "T", N: -1, Inst: -1, Do: []Action{{K: "tell", T: 3, N: 0}}}}},
			{Victim: "resume"},
		}
		scn.Exts = []Label{{K: "spawn", T: 0, R: 0}, tell(1, 0), tell(1, 1), {K: "term", T: 1, G: r.Bool()}, tell(2, 0), tell(1, 1)}
		if r.Bool() {
			scn.Exts = scn.Exts[:3] // straight to Shutdown
		}
	case 8:
		// watch requests handled while the target is RESTARTING (it waits for its child): a restarting actor is not
		// terminating — the watcher is registered, gets nothing now and exactly one notice at the real termination
		scn.Roles = []Role{
			{Victim: "resume", Sup: []string{"restart", "restart"}, Rules: []Rule{{On: "L", N: -1, Inst: -1, Do: []Action{{K: "spawn", T: 1, R: 1}, {K: "spawn", T: 3, R: 3}}}}},
			{Rules: []Rule{{On: "L", N: -1, Inst: -1, Do: []Action{{K: "spawn", T: 2, R: 2}}}, {On: "P", N: 0, Inst: 0, Do: []Action{{K: "panic"}}}}},
			{Victim: "resume", Rules: []Rule{{On: "T", N: -1, Inst: -1, Do: []Action{{K: "tell", T: 3, N: 1}}}}},
			{Victim: "resume", Rules: []Rule{{On: "P", N: 0, Inst: -1, Do: []Action{{K: "watch", T: 1}}}, {On: "P", N: 1, Inst: -1, Do: []Action{{K: "watch", T: 1}}},
				{On: "TO", N: 1, Inst: -1, Do: []Action{{K: "tell", T: 0, N: 1}}}}},
		}
		scn.Exts = []Label{{K: "spawn", T: 0, R: 0}, tell(3, 0), tell(1, 0), tell(3, 1), tell(3, 0), tell(1, 1), {K: "term", T: 1, G: r.Bool()}, tell(3, 1)}
	case 9:
		// "respawn my worker": the parent re-creates a terminated child under the SAME name from inside that child's
		// termination notice; the new child must stay in the children table (and be stopped and waited for later)
		scn.Roles = []Role{
			{Victim: "resume", Sup: []string{dirs3[r.Intn(3)]}, Rules: []Rule{{On: "L", N: -1, Inst: -1, Do: []Action{{K: "spawn", T: 1, R: 1}}},
				{On: "TO", N: 1, Inst: -1, Do: []Action{{K: "spawn", T: 1, R: 1}, {K: "tell", T: 1, N: 1}}}}},
			{Victim: "resume", Rules: []Rule{{On: "L", N: -1, Inst: -1, Do: []Action{{K: "spawn", T: 2, R: 2}}}, {On: "P", N: 1, Inst: -1, Do: []Action{{K: "reply", N: 2}}}}},
			{Victim: "resume", Rules: []Rule{{On: "T", N: -1, Inst: -1, Do: []Action{{K: "tell", T: 0, N: 2}}}}},
		}
		scn.Exts = []Label{{K: "spawn", T: 0, R: 0}, tell(1, 0), {K: "term", T: 1, G: r.Bool()}, tell(1, 1), tell(0, 0), {K: "term", T: 0, G: r.Bool()}, tell(1, 1)}
		if r.Bool() {
			scn.Exts = scn.Exts[:5] // straight to Shutdown with the re-created child alive
		}
	case 10:
		// a start handler REPORTS a failure and returns normally (so the accident bookkeeping of a completed launch runs right
		// after it), and the decision is Resume — by the actor's own strategy, or by the parent's: the Resume must still take
		// effect, the user messages queued meanwhile are handled by the same instance
		child := Role{Victim: "resume", Rules: []Rule{{On: "L", N: -1, Inst: -1, Do: []Action{{K: "report"}}},
			{On: "P", N: 1, Inst: -1, Do: []Action{{K: "tell", T: 0, N: 2}}}}}
		parent := Role{Victim: "resume", Sup: []string{"stop"}, Rules: []Rule{{On: "L", N: -1, Inst: -1, Do: []Action{{K: "spawn", T: 1, R: 1}}}}}
		if r.Bool() {
			child.Victim, parent.Sup = "", []string{"resume", "resume"}
		}
		scn.Roles = []Role{parent, child}
		scn.Exts = []Label{{K: "spawn", T: 0, R: 0}, tell(1, 0), tell(1, 1), tell(1, 2), tell(0, 1), tell(1, 1)}
	case 11:
		// a supervisor that decides by its OWN implemented strategy is itself restarted (its children are stopped and re-created
		// by the new instance); a child of the new instance then fails: the decision is the new instance's
		scn.Roles = []Role{
			{Victim: "restart", Sup: []string{"resume", dirs3[r.Intn(3)]}, Rules: []Rule{{On: "L", N: -1, Inst: -1, Do: []Action{{K: "spawn", T: 1, R: 1}}},
				{On: "P", N: 0, Inst: 0, Do: []Action{{K: "panic"}}}}},
			{Rules: []Rule{{On: "P", N: 0, Inst: -1, Do: []Action{{K: []string{"panic", "report"}[r.Intn(2)]}}}, {On: "P", N: 1, Inst: -1, Do: []Action{{K: "tell", T: 0, N: 2}}}}},
		}
		scn.Exts = []Label{{K: "spawn", T: 0, R: 0}, tell(0, 0), tell(1, 1), tell(1, 0), tell(1, 1), tell(0, 1), tell(1, 0)}
	case 12:
		// a lifecycle handler that PANICS during a real termination (not a restart): OnTerminate, the actor's own OnTerminated
		// (which runs after the status has become Terminated) or the notice of its child while it is terminating. The step must go
		// on: the actor is unregistered, its watcher and its parent are notified, Shutdown returns
		on := []string{"T", "TS", "TO"}[r.Intn(3)]
		scn.Roles = []Role{
			{Victim: "resume", Sup: []string{dirs3[r.Intn(3)]}, Rules: []Rule{{On: "L", N: -1, Inst: -1, Do: []Action{{K: "spawn", T: 1, R: 1}, {K: "spawn", T: 3, R: 3}}},
				{On: "TO", N: 1, Inst: -1, Do: []Action{{K: "tell", T: 3, N: 2}}}}},
			{Victim: "resume", Rules: []Rule{{On: "L", N: -1, Inst: -1, Do: []Action{{K: "spawn", T: 2, R: 2}}}, {On: on, N: -1, Inst: -1, Do: []Action{{K: "tell", T: 3, N: 3}, {K: "panic"}}}}},
			{Victim: "resume"},
			{Victim: "resume", Rules: []Rule{{On: "P", N: 0, Inst: -1, Do: []Action{{K: "watch", T: 1}}}, {On: "TO", N: 1, Inst: -1, Do: []Action{{K: "tell", T: 0, N: 1}}}}},
		}
		scn.Exts = []Label{{K: "spawn", T: 0, R: 0}, tell(3, 0), tell(1, 1), {K: "term", T: 1, G: r.Bool()}, tell(3, 1), tell(1, 1)}
		if r.Bool() {
			scn.Exts = scn.Exts[:3] // straight to Shutdown
		}
	case 13:
		// a LIVING parent whose handler for the termination notice of its child panics (first instance only): the child must be
		// off the children table all the same - otherwise the restart (or stop) the failure brings about waits for ever for a
		// child that is long gone, and so does Shutdown
		scn.Roles = []Role{
			{Victim: "resume", Sup: []string{[]string{"restart", "stop"}[r.Intn(2)], "resume"}, Rules: []Rule{{On: "L", N: -1, Inst: -1, Do: []Action{{K: "spawn", T: 1, R: 1}}}}},
			{Rules: []Rule{{On: "L", N: -1, Inst: -1, Do: []Action{{K: "spawn", T: 2, R: 2}, {K: "spawn", T: 3, R: 3}}},
				{On: "TO", N: 2, Inst: 0, Do: []Action{{K: "tell", T: 3, N: 1}, {K: "panic"}}}, {On: "P", N: 1, Inst: -1, Do: []Action{{K: "tell", T: 0, N: 2}}}}},
			{Victim: "resume"},
			{Victim: "resume"},
		}
		scn.Exts = []Label{{K: "spawn", T: 0, R: 0}, tell(1, 1), {K: "term", T: 2, G: r.Bool()}, tell(1, 1), tell(3, 0), tell(1, 1)}
		if r.Bool() {
			scn.Exts = append(scn.Exts, Label{K: "term", T: 1, G: false}, tell(0, 1))
		}
	default:
		// watch requests racing with a termination: two observers, one of them the parent
		scn.Roles = []Role{
			{Victim: "resume", Sup: []string{"stop"}, Rules: []Rule{{On: "L", N: -1, Inst: -1, Do: []Action{{K: "spawn", T: 1, R: 1}, {K: "spawn", T: 2, R: 2}}},
				{On: "P", N: 0, Inst: -1, Do: []Action{{K: "term", T: 1, G: false}, {K: "watch", T: 1}}}, {On: "P", N: 1, Inst: -1, Do: []Action{{K: "watch", T: 1}}}}},
			{Victim: "resume", Rules: []Rule{{On: "L", N: -1, Inst: -1, Do: []Action{{K: "spawn", T: 3, R: 3}}}}},
			{Victim: "resume", Rules: []Rule{{On: "P", N: 0, Inst: -1, Do: []Action{{K: "watch", T: 1}}}, {On: "P", N: 1, Inst: -1, Do: []Action{{K: "unwatch", T: 1}, {K: "watch", T: 1}}}}},
			{Victim: "resume"},
		}
		scn.Exts = []Label{{K: "spawn", T: 0, R: 0}, tell(2, 0), tell(0, 1), tell(0, 0), tell(2, 1), tell(2, 0), tell(1, 1)}
	}
	// shuffle the externals after the first (spawn of the root) a little: swap neighbours at random
	for i := 2; i+1 < len(scn.Exts); i++ {
		if r.Chance(1, 3) {
			scn.Exts[i], scn.Exts[i+1] = scn.Exts[i+1], scn.Exts[i]
		}
	}
	return scn
}

func Generate(r *vh.RNG) *Scenario {
	if r.Chance(1, 6) {
		return template(r)
	}
	n := r.Range(2, 6)
	parent := make([]int, n)
	for t := 1; t < n; t++ {
		parent[t] = r.Intn(t)
	}
	scn := &Scenario{Mailbox: "LockFree", Final: r.Bool(), Sentinel: -1}
	if r.Chance(1, 3) {
		scn.Mailbox = "GlobalOrderedLockFree"
	}
	anyTok := func() int {
		if r.Chance(1, 12) {
			return n + r.Intn(2) // an address that never exists
		}
		return r.Intn(n)
	}
	lifePanic := r.Chance(1, 8) // only some scenarios script a failing lifecycle handler
	calm := r.Chance(1, 4)      // no failures, every termination graceful: exercises "graceful terminate drains the queue"
	if calm {
		lifePanic = false
	}
	hasSup := make([]bool, n)
	scn.Roles = make([]Role, n)
	for t := 0; t < n; t++ {
		role := &scn.Roles[t]
		if t == 0 {
			role.Victim = dirs3[r.Intn(3)]
		} else if r.Chance(2, 3) {
			role.Victim = dirs3[r.Intn(3)]
		}
		if t == 0 || r.Chance(1, 2) {
			hasSup[t] = true
			k := r.Range(1, 3)
			for i := 0; i < k; i++ {
				if t != 0 && hasSup[parent[t]] && r.Chance(1, 5) {
					role.Sup = append(role.Sup, "escalate")
				} else if r.Chance(1, 6) {
					role.Sup = append(role.Sup, "restartall")
				} else {
					role.Sup = append(role.Sup, dirs3[r.Intn(3)])
				}
			}
		}
		// children: spawned at launch, or on probe 0
		var atLaunch, onProbe []Action
		for c := t + 1; c < n; c++ {
			if parent[c] == t {
				if r.Chance(4, 5) {
					atLaunch = append(atLaunch, Action{K: "spawn", T: c, R: c})
				} else {
					onProbe = append(onProbe, Action{K: "spawn", T: c, R: c})
				}
			}
		}
		otherTok := func() int { // watching oneself is excluded: what it should mean is not specified
			for {
				if x := anyTok(); x != t {
					return x
				}
			}
		}
		if r.Chance(1, 4) {
			atLaunch = append(atLaunch, Action{K: "watch", T: otherTok()})
		}
		if r.Chance(1, 4) {
			atLaunch = append(atLaunch, Action{K: "tell", T: anyTok(), N: r.Intn(4)})
		}
		if r.Chance(1, 25) {
			role.Rules = append(role.Rules, Rule{On: "L", N: -1, Inst: r.Intn(2), Do: append(append([]Action(nil), atLaunch...), Action{K: "panic"})})
		}
		if len(atLaunch) > 0 {
			role.Rules = append(role.Rules, Rule{On: "L", N: -1, Inst: -1, Do: atLaunch})
		}
		for p := 0; p < 4; p++ {
			var do []Action
			if p == 0 {
				do = append(do, onProbe...)
			}
			k := r.Intn(3)
			for i := 0; i < k; i++ {
				switch r.Intn(14) {
				case 0, 1, 2:
					do = append(do, Action{K: "tell", T: anyTok(), N: r.Intn(4)})
				case 3, 4:
					do = append(do, Action{K: "ask", T: anyTok(), N: r.Intn(4)})
				case 5, 6:
					do = append(do, Action{K: "reply", N: r.Intn(4)})
				case 7:
					do = append(do, Action{K: "term", T: anyTok(), G: r.Bool()})
				case 8:
					do = append(do, Action{K: "watch", T: otherTok()})
				case 9:
					do = append(do, Action{K: "unwatch", T: anyTok()})
				case 10:
					do = append(do, Action{K: "bcast", N: r.Intn(4)})
				case 11:
					do = append(do, Action{K: "report"})
				case 12:
					do = append(do, Action{K: "panic"})
				case 13:
					c := r.Intn(n)
					if c != 0 && parent[c] == t {
						do = append(do, Action{K: "spawn", T: c, R: c}) // (re-)spawn one of its own children: may hit an existing address
					}
				}
			}
			if len(do) == 0 {
				continue
			}
			inst := -1
			for _, a := range do {
				if a.K == "panic" || a.K == "report" {
					inst = r.Intn(2) // failures tied to one incarnation: no endless restart loops
				}
			}
			role.Rules = append(role.Rules, Rule{On: "P", N: p, Inst: inst, Do: do})
		}
		for _, on := range []string{"TO", "TS", "T", "RG", "RD"} {
			if r.Chance(1, 8) {
				do := []Action{{K: "tell", T: anyTok(), N: r.Intn(4)}}
				inst := -1
				if lifePanic && r.Chance(1, 3) {
					// a failing lifecycle handler (standing finding: swallowed when the actor is not alive)
					do = append(do, Action{K: "panic"})
					inst = r.Intn(2)
				}
				role.Rules = append(role.Rules, Rule{On: on, N: -1, Inst: inst, Do: do})
			}
		}
	}
	if calm {
		scn.Final = true
		for i := range scn.Roles {
			for j := range scn.Roles[i].Rules {
				var keep []Action
				for _, a := range scn.Roles[i].Rules[j].Do {
					if a.K == "panic" || a.K == "report" {
						continue
					}
					if a.K == "term" {
						a.G = true
					}
					keep = append(keep, a)
				}
				scn.Roles[i].Rules[j].Do = keep
			}
		}
	}
	scn.Exts = append(scn.Exts, Label{K: "spawn", T: 0, R: 0})
	if r.Chance(1, 2) {
		// sentinel: token n+2, role index n (appended), spawned right after the root, watches a random token
		scn.Sentinel, scn.SentinelWatches = n+2, r.Intn(n+1)
		scn.Roles = append(scn.Roles, Role{Victim: "resume", Rules: []Rule{{On: "L", N: -1, Inst: -1, Do: []Action{{K: "watch", T: scn.SentinelWatches}}}}})
		pos := 1 + r.Intn(3)
		_ = pos
		scn.Exts = append(scn.Exts, Label{K: "spawn", T: n + 2, R: n})
	}
	k := r.Range(4, 14)
	for i := 0; i < k; i++ {
		switch r.Intn(10) {
		case 0, 1, 2, 3, 4:
			scn.Exts = append(scn.Exts, Label{K: "tell", T: anyTok(), N: r.Intn(4)})
		case 5, 6:
			scn.Exts = append(scn.Exts, Label{K: "ask", T: anyTok(), N: r.Intn(4)})
		case 7, 8:
			scn.Exts = append(scn.Exts, Label{K: "term", T: anyTok(), G: calm || r.Bool()})
		case 9:
			if calm {
				scn.Final = true
				for i := range scn.Roles {
					for j := range scn.Roles[i].Rules {
						var keep []Action
						for _, a := range scn.Roles[i].Rules[j].Do {
							if a.K == "panic" || a.K == "report" {
								continue
							}
							if a.K == "term" {
								a.G = true
							}
							keep = append(keep, a)
						}
						scn.Roles[i].Rules[j].Do = keep
					}
				}
			}
			scn.Exts = append(scn.Exts, Label{K: "spawn", T: 0, R: 0})
		}
	}
	return scn
}

//go:embed corpus/*.json
var corpusFS embed.FS

// Corpus: hand-made or minimised cases that run first (schedules that the random generator reaches too rarely).
func Corpus() []Case {
	var out []Case
	ents, _ := corpusFS.ReadDir("corpus")
	for _, e := range ents {
		b, err := corpusFS.ReadFile("corpus/" + e.Name())
		if err != nil {
			continue
		}
		var f struct {
			Case Case `json:"case"`
		}
		if json.Unmarshal(b, &f) == nil {
			out = append(out, f.Case)
		}
	}
	return out
}
