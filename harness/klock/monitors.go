package klock

import (
	"fmt"

	"verif/harness/vh"
)

type StatsT struct {
	Actors, Failures, Restarts, Terms, Graceful, Dead, Watches int
	NonTrivial                                                 bool
}

type flat struct {
	Obs
	Step int
}

func flatten(c *Case) []flat {
	var out []flat
	for i, s := range c.Steps {
		for _, o := range s.O {
			out = append(out, flat{o, i})
		}
	}
	return out
}

func Stats(c *Case) StatsT {
	var st StatsT
	seen := map[int]bool{}
	queuedBehind := false
	for _, o := range flatten(c) {
		switch o.K {
		case "H":
			seen[o.A] = true
			if o.Trig == "RG" {
				st.Restarts++
			}
		case "F":
			st.Failures++
		case "TR":
			st.Terms++
			if o.Closed {
				st.Graceful++
			}
		case "D":
			st.Dead++
		case "W":
			st.Watches++
		}
	}
	st.Actors = len(seen)
	// non-trivial: a failure, restart or termination while some probe was sent earlier and handled/dead-lettered later
	fl := flatten(c)
	for i, o := range fl {
		if o.K == "F" || (o.K == "H" && (o.Trig == "RG" || o.Trig == "T")) {
			sent := map[int]bool{}
			for _, p := range fl[:i] {
				if p.K == "S" {
					sent[p.Serial] = true
				}
			}
			for _, p := range fl[i+1:] {
				if (p.K == "H" && p.Trig == "P" || p.K == "D") && sent[p.Serial] {
					queuedBehind = true
				}
			}
		}
	}
	st.NonTrivial = queuedBehind
	return st
}

// Monitors restate clauses of C02..C06 on the trace of the REAL system (search oracle; sound, not complete).
func Monitors(c *Case) []vh.Violation {
	var v []vh.Violation
	add := func(kind, detail string, sig map[string]string) {
		for _, x := range v {
			if x.Kind == kind {
				return
			}
		}
		v = append(v, vh.Violation{Kind: kind, Detail: detail, Sig: sig})
	}
	fl := flatten(c)
	closed, stuck := false, c.Stuck != "" || c.Truncated
	var regs []int
	for _, o := range fl {
		if o.K == "END" {
			closed, regs = o.Closed, o.Regs
		}
		if o.K == "X" {
			add("kernel:crash", "harness observed: "+o.Note, nil)
		}
	}
	// ---------------- C02: exactly once, handled xor dead letter, per-sender order
	type key struct{ serial, rcv int }
	sent := map[key]flat{}
	handled := map[key]int{}
	dead := map[key]int{}
	for _, o := range fl {
		switch {
		case o.K == "S":
			sent[key{o.Serial, o.A}] = o
		case o.K == "H" && o.Trig == "P":
			handled[key{o.Serial, o.A}]++
		case o.K == "D":
			dead[key{o.Serial, o.A}]++
		}
	}
	for k, n := range handled {
		if n > 1 {
			add("C02:duplicate-handled", fmt.Sprintf("message serial %d handled %d times by actor %d", k.serial, n, k.rcv), nil)
		}
		if dead[k] > 0 {
			add("C02:handled-and-dead-letter", fmt.Sprintf("message serial %d to actor %d both handled and dead-lettered", k.serial, k.rcv), nil)
		}
		if _, ok := sent[k]; !ok {
			add("C02:invented", fmt.Sprintf("actor %d handled serial %d that was never sent to it", k.rcv, k.serial), nil)
		}
	}
	for k, n := range dead {
		if n > 1 {
			add("C02:duplicate-dead-letter", fmt.Sprintf("message serial %d to %d dead-lettered %d times", k.serial, k.rcv, n), nil)
		}
	}
	if closed && !stuck {
		for k := range sent {
			if k.rcv == RefGuard || k.rcv == RefSub {
				continue // the system actors are not instrumented
			}
			if handled[k]+dead[k] == 0 {
				add("C02:lost", fmt.Sprintf("system shut down, message serial %d to actor %d neither handled nor dead-lettered", k.serial, k.rcv), nil)
			}
		}
	}
	type pair struct{ snd, rcv int }
	last := map[pair]int{}
	for _, o := range fl {
		if o.K == "H" && o.Trig == "P" {
			s, ok := sent[key{o.Serial, o.A}]
			if !ok {
				continue
			}
			p := pair{s.Snd, o.A}
			if o.Serial < last[p] {
				add("C02:order", fmt.Sprintf("actor %d handled serial %d after serial %d, both sent by %d", o.A, o.Serial, last[p], s.Snd), nil)
			}
			last[p] = o.Serial
		}
	}
	lifecyclePanic := false
	for _, st := range c.Steps {
		trig := ""
		for _, o := range st.O {
			if o.K == "H" {
				trig = o.Trig
			}
			if o.K == "F" && o.Note == "panic" && (trig == "T" || trig == "TS" || trig == "TO" || trig == "RG") {
				lifecyclePanic = true
			}
		}
	}
	lcause := "other"
	if lifecyclePanic {
		lcause = "lifecycle-handler-panic"
	}
	// ---------------- C03: lifecycle grammar per (actor, incarnation)
	type ai struct{ a, inst int }
	seq := map[ai][]flat{}
	var order []ai
	for _, o := range fl {
		if o.K == "H" {
			k := ai{o.A, o.Inst}
			if _, ok := seq[k]; !ok {
				order = append(order, k)
			}
			seq[k] = append(seq[k], o)
		}
	}
	for _, k := range order {
		s := seq[k]
		first := s[0].Trig
		if !(first == "L" || (first == "RD" && len(s) > 1 && s[1].Trig == "L") || (first == "RD" && len(s) == 1)) {
			add("C03:first-not-launch", fmt.Sprintf("actor %d incarnation %d first handled %s (then %v)", k.a, k.inst, first, trigs(s)),
				map[string]string{"first": first, "cause": lcause})
		}
		tsAt, tAt := -1, -1
		for i, o := range s {
			if o.Trig == "T" && tAt < 0 {
				tAt = i
			}
			if o.Trig == "TS" && tsAt < 0 {
				tsAt = i
			}
		}
		if tsAt >= 0 {
			if tAt < 0 || tAt > tsAt {
				add("C03:terminated-before-terminate", fmt.Sprintf("actor %d incarnation %d: %v", k.a, k.inst, trigs(s)), nil)
			}
			if tsAt != len(s)-1 {
				add("C03:handled-after-own-terminated", fmt.Sprintf("actor %d incarnation %d handled %s after its own OnTerminated: %v",
					k.a, k.inst, s[tsAt+1].Trig, trigs(s)), map[string]string{"after": s[tsAt+1].Trig, "cause": lcause})
			}
		}
		// supervised restart: RG, T, TS on the old instance with no user message in between
		for i, o := range s {
			if o.Trig == "RG" {
				for _, p := range s[i+1:] {
					if p.Trig == "P" {
						add("C03:user-message-during-restart", fmt.Sprintf("actor %d incarnation %d handled a user message between OnRestarting and the end of the instance: %v",
							k.a, k.inst, trigs(s)), nil)
						break
					}
				}
			}
		}
	}
	// ---------------- C04: no user message between a failure and the supervisor's decision
	pending := map[int]int{} // victim -> step of failure
	for _, o := range fl {
		switch {
		case o.K == "F":
			if _, ok := pending[o.A]; !ok {
				pending[o.A] = o.Step
			}
		case o.K == "DEC":
			delete(pending, o.Who)
		case o.K == "H" && o.Trig == "P":
			if st, ok := pending[o.A]; ok && o.Step > st {
				add("C04:user-message-before-decision", fmt.Sprintf("actor %d failed at step %d and handled user message serial %d at step %d before any supervisor decision",
					o.A, st, o.Serial, o.Step), nil)
			}
		case o.K == "H" && o.Trig == "L":
			delete(pending, o.A) // a fresh generation
		}
	}
	// C04: a decided restart takes effect. The final shutdown is requested only when nothing is enabled any more, so a
	// restart that began (OnRestarting handled) before it, in a run where nobody was asked to terminate and no supervisor
	// decided Stop/Escalate before it, must have produced the next instance (OnLaunch with a higher instance number)
	shutAt := len(c.Steps)
	for i, st := range c.Steps {
		if st.L.K == "shutdown" {
			shutAt = i
			break
		}
	}
	calmBefore := true
	for _, o := range fl {
		if o.Step >= shutAt {
			break
		}
		if o.K == "TR" || (o.K == "DEC" && (o.Dir == "stop" || o.Dir == "escalate")) || o.K == "X" {
			calmBefore = false
		}
	}
	if calmBefore && !stuck {
		for _, o := range fl {
			if o.K == "H" && o.Trig == "RG" && o.Step < shutAt {
				done := false
				for _, p := range fl {
					if p.K == "H" && p.A == o.A && p.Trig == "L" && p.Inst > o.Inst && p.Step < shutAt {
						done = true
					}
				}
				if !done {
					cause := "other"
					for _, p := range fl {
						if p.K == "F" && p.A == o.A && p.Inst == o.Inst && p.Step >= o.Step {
							cause = "lifecycle-handler-panic"
						}
					}
					add("C04:restart-never-completed", fmt.Sprintf("actor %d incarnation %d handled OnRestarting at step %d but no new instance was launched before the system went quiet (step %d)",
						o.A, o.Inst, o.Step, shutAt), map[string]string{"cause": cause})
				}
			}
		}
	}
	// C04: the decision is taken by the supervisor's CURRENT instance. A supervisor that implements the strategy itself and has been
	// restarted decides with its new instance (the old one has handled its own OnTerminated): the instance that decided must be the
	// last instance of that actor that was launched before the decision.
	{
		current := map[int]int{}
		for _, o := range fl {
			switch {
			case o.K == "H" && (o.Trig == "L" || o.Trig == "RD"):
				if o.Inst > current[o.A] {
					current[o.A] = o.Inst
				}
			case o.K == "DEC" && o.N >= 0 && o.A >= 0:
				if o.N != current[o.A] {
					add("C04:decision-by-replaced-instance", fmt.Sprintf("the decision about actor %d at step %d was taken by instance %d of supervisor %d, whose current instance is %d",
						o.Who, o.Step, o.N, o.A, current[o.A]), nil)
				}
			}
		}
	}
	// C04: a decided Resume takes effect. The final shutdown is requested only when nothing is enabled any more: a user message
	// sent to an actor before that moment which is then still neither handled nor a dead letter is stuck in a suspended mailbox.
	// If the last supervisor decision about that actor was Resume (and it did not fail again afterwards), the Resume had no effect.
	if calmBefore && !stuck {
		lastDec := map[int]flat{}
		failedAfter := map[int]bool{}
		for _, o := range fl {
			if o.Step >= shutAt {
				break
			}
			switch {
			case o.K == "DEC":
				lastDec[o.Who] = o
				failedAfter[o.Who] = false
			case o.K == "F":
				failedAfter[o.A] = true
			}
		}
		doneBefore := map[key]bool{}
		for _, o := range fl {
			if o.Step < shutAt && ((o.K == "H" && o.Trig == "P") || o.K == "D") {
				doneBefore[key{o.Serial, o.A}] = true
			}
		}
		reported := map[int]bool{}
		for _, o := range fl {
			if o.K != "S" || o.Step >= shutAt || o.A == RefGuard || o.A == RefSub || doneBefore[key{o.Serial, o.A}] || reported[o.A] {
				continue
			}
			if d, ok := lastDec[o.A]; ok && d.Dir == "resume" && !failedAfter[o.A] {
				reported[o.A] = true
				add("C04:resume-without-effect", fmt.Sprintf("actor %d: the supervisor decided Resume at step %d, yet message serial %d sent to it at step %d was still neither handled nor a dead letter when the system went quiet (step %d)",
					o.A, d.Step, o.Serial, o.Step, shutAt), nil)
			}
		}
	}
	// ---------------- C05: hierarchy
	parent := map[int]int{}
	for _, o := range fl {
		if o.K == "SP" {
			parent[o.Who] = o.A
		}
	}
	// orphans: actors spawned by an actor inside (or after) its own final OnTerminated handler, and their descendants
	// (finding C05-spawn-in-own-onterminated-leaks-child)
	gone := map[int]bool{}
	orphanRoot := map[int]bool{}
	maxInst := map[int]int{}
	for _, o := range fl {
		if o.K == "H" && o.Inst > maxInst[o.A] {
			maxInst[o.A] = o.Inst
		}
	}
	for _, o := range fl {
		switch {
		case o.K == "H" && o.Trig == "TS" && o.Inst == maxInst[o.A]:
			gone[o.A] = true
		case o.K == "H" && o.Trig == "L":
			gone[o.A] = false
		case o.K == "SP":
			orphanRoot[o.Who] = gone[o.A]
		}
	}
	isOrphan := func(t int) bool {
		ok := orphanRoot[t]
		for x, has := parent[t]; has && !ok; x, has = parent[x] {
			ok = orphanRoot[x]
		}
		return ok
	}
	isDesc := func(d, a int) bool {
		for x, ok := parent[d]; ok; x, ok = parent[x] {
			if x == a {
				return true
			}
		}
		return false
	}
	spawnCount := map[int]int{}
	for _, o := range fl {
		if o.K == "SP" {
			spawnCount[o.Who]++
		}
	}
	aliveSince := map[int]int{} // token -> step of current generation's launch, -1 if gone
	for _, o := range fl {
		if o.K != "H" {
			continue
		}
		switch o.Trig {
		case "L":
			aliveSince[o.A] = o.Step
		case "TS":
			for d, since := range aliveSince {
				if since >= 0 && d != o.A && isDesc(d, o.A) {
					resp := "false"
					if spawnCount[d] > 1 {
						resp = "true" // the descendant's address was spawned more than once (see finding C05-respawn-before-parent-notified)
					}
					add("C05:terminated-before-descendant", fmt.Sprintf("actor %d handled its own OnTerminated at step %d while descendant %d (launched at step %d) had not handled its own",
						o.A, o.Step, d, since), map[string]string{"respawned": resp, "orphan": fmt.Sprint(isOrphan(d))})
				}
			}
			aliveSince[o.A] = -1
		}
	}
	spawns := map[int]int{}
	for _, o := range fl {
		if o.K == "SP" {
			spawns[o.Who]++
		}
	}
	// graceful drain: in a scenario whose terminations are ALL graceful (requests and final shutdown) and without
	// failures, a user message that was enqueued at an actor before the graceful request reached that actor
	// (the request reaches the target with the request itself, a descendant when its parent handles OnTerminate)
	// must be handled, not dead-lettered
	allGraceful := c.Scn.Final
	for _, o := range fl {
		if (o.K == "TR" && !o.Closed) || o.K == "F" || o.K == "DEC" {
			allGraceful = false
		}
	}
	if allGraceful {
		reqAt := map[int]int{} // token -> first step at which a graceful terminate was enqueued at it
		note := func(t, step int) {
			if _, ok := reqAt[t]; !ok {
				reqAt[t] = step
			}
		}
		for _, o := range fl {
			switch {
			case o.K == "TR":
				note(o.Who, o.Step)
			case o.K == "H" && o.Trig == "T":
				for ch, par := range parent {
					if par == o.A {
						note(ch, o.Step)
					}
				}
			}
		}
		for i, st := range c.Steps {
			if st.L.K == "shutdown" {
				note(RefGuard, i)
				for ch, par := range parent {
					if par == RefGuard {
						// the guard (not instrumented) relays when it handles its own OnTerminate, a later step; be
						// conservative: for top-level actors only messages sent before the shutdown request are claimed
						note(ch, i)
					}
				}
			}
		}
		ownT := map[int]int{}
		for _, o := range fl {
			if o.K == "H" && o.Trig == "T" {
				if _, ok := ownT[o.A]; !ok {
					ownT[o.A] = o.Step
				}
			}
		}
		launched := map[int]int{}
		for _, o := range fl {
			if o.K == "H" && o.Trig == "L" {
				if _, ok := launched[o.A]; !ok {
					launched[o.A] = o.Step
				}
			}
		}
		for _, o := range fl {
			if o.K != "D" {
				continue
			}
			s0, ok := sent[key{o.Serial, o.A}]
			if !ok {
				continue
			}
			r, requested := reqAt[o.A]
			l, wasLaunched := launched[o.A]
			tStep, hadT := ownT[o.A]
			if spawns[o.A] <= 1 && wasLaunched && l < s0.Step && requested && s0.Step < r && (!hadT || s0.Step < tStep) {
				add("C05:graceful-not-drained", fmt.Sprintf("message serial %d was enqueued at actor %d (step %d) before any graceful terminate request reached it (%v) but became a dead letter",
					o.Serial, o.A, s0.Step, reqAt[o.A]), nil)
			}
		}
	}
	// cause classification for the two standing findings (see known_findings.json): a panic inside a lifecycle
	// handler of an actor that is not alive, and a re-spawn of an address before the parent has processed the
	// previous holder's termination notice
	if !stuck && !closed {
		cause := "other"
		if lifecyclePanic {
			cause = "lifecycle-handler-panic"
		}
		{
			// a registered actor that failed and has handled nothing since (still suspended: no directive released it),
			// while graceful termination requests — user messages, which a suspended mailbox does not take — are around
			graceful := c.Scn.Final
			for _, o := range fl {
				if o.K == "TR" && o.Closed {
					graceful = true
				}
			}
			for _, t := range regs {
				// a failure: scripted (F) or a panic raised by the framework inside the handler (e.g. a spawn under a
				// taken name), visible as a supervisor decision (DEC) naming the actor as the victim
				lastF, lastH := -1, -1
				for i, o := range fl {
					switch {
					case o.K == "F" && o.A == t, o.K == "DEC" && o.Who == t:
						lastF = i
					case o.K == "H" && o.A == t:
						lastH = i
					}
				}
				if graceful && lastF >= 0 && lastH < lastF {
					cause = "failed-actor-suspended-under-graceful-stop"
				}
			}
		}
		add("C05:shutdown-incomplete", "no step is enabled any more but the system has not closed (Shutdown would hang); cause: "+cause,
			map[string]string{"cause": cause})
	}
	if closed && len(regs) > 0 {
		resp := "false"
		for _, t := range regs {
			if spawns[t] > 1 {
				resp = "true"
			}
		}
		orphan := "true"
		for _, t := range regs {
			if !isOrphan(t) {
				orphan = "false"
			}
		}
		add("C05:registered-after-shutdown", fmt.Sprintf("actors still registered after shutdown: %v", regs), map[string]string{"respawned": resp, "orphan": orphan})
	}
	// Shutdown returns when the closed signal is set: nothing may be handled after that
	closedAt := -1
	for i, st := range c.Steps {
		if st.Closed {
			closedAt = i
			break
		}
	}
	if closedAt >= 0 {
		for _, o := range fl {
			if o.K == "H" && o.Step > closedAt {
				add("C05:handled-after-shutdown-returned", fmt.Sprintf("actor %d handled %s at step %d, after the system had signalled closed at step %d (Shutdown had returned)",
					o.A, o.Trig, o.Step, closedAt), map[string]string{"orphan": fmt.Sprint(isOrphan(o.A))})
				break
			}
		}
	}
	// ---------------- C06: no notice before the target has begun to terminate
	// A notice naming w is sent when w completes its termination (after its own OnTerminated), by the dead-letter process
	// when nobody holds w's address, or at once to a late watcher when w is already terminating (it has handled
	// OnTerminate). A launched actor that has handled neither OnTerminate nor its own OnTerminated so far — it is alive,
	// or restarting and waiting for its children — must not be named by a notice anybody handles.
	{
		launchedAt, beganAt := map[int]int{}, map[int]int{}
		for i, o := range fl {
			if o.K != "H" {
				continue
			}
			switch o.Trig {
			case "L":
				if _, ok := launchedAt[o.A]; !ok {
					launchedAt[o.A] = i
				}
			case "T", "TS":
				if _, ok := beganAt[o.A]; !ok {
					beganAt[o.A] = i
				}
			case "TO":
				l, wasLaunched := launchedAt[o.Who]
				_, began := beganAt[o.Who]
				// a watch request issued before the target was spawned is answered at once by the dead-letter process: that
				// notice may be handled after the launch
				early := false
				for j, w := range fl[:i] {
					if w.K == "W" && w.A == o.A && w.Who == o.Who {
						sp := -1
						for k2, x := range fl {
							if x.K == "SP" && x.Who == o.Who {
								sp = k2
								break
							}
						}
						if sp < 0 || j < sp {
							early = true
						}
					}
				}
				if wasLaunched && l < i && !began && spawns[o.Who] <= 1 && !early {
					add("C06:notified-before-termination", fmt.Sprintf("actor %d handled OnTerminated(%d) at step %d although %d (launched, never re-created) had handled neither OnTerminate nor its own OnTerminated yet",
						o.A, o.Who, o.Step, o.Who), nil)
				}
			}
		}
	}
	// ---------------- C06: exactly once
	// For a target address that was spawned at most once (no address reuse), an observer may handle OnTerminated(target)
	// at most: one for being its parent or having watched it while it was registered and not yet terminating, plus one
	// for every watch request issued when the target did not exist (yet / any more) or was already terminating (each of
	// those is answered at once). Anything above is a duplicate; a notification without any reason is spurious.
	// first step at which the address was spawned / began a real termination (OnTerminate not part of a restart) /
	// handled the OnTerminated that ends it (again not the one a restart delivers to the old instance)
	spAt, tAt2, tsAt2 := map[int]int{}, map[int]int{}, map[int]int{}
	restarting := map[ai]bool{}
	// a restart that was overtaken by a termination (no later instance exists) ends in a real termination: its
	// OnTerminate / OnTerminated count as the termination's
	lastInst := map[int]int{}
	for _, o := range fl {
		if o.K == "H" && o.Inst > lastInst[o.A] {
			lastInst[o.A] = o.Inst
		}
	}
	for _, o := range fl {
		switch {
		case o.K == "SP":
			if _, ok := spAt[o.Who]; !ok {
				spAt[o.Who] = o.Step
			}
		case o.K == "H" && o.Trig == "RG":
			if o.Inst < lastInst[o.A] {
				restarting[ai{o.A, o.Inst}] = true
			}
		case o.K == "H" && o.Trig == "T" && !restarting[ai{o.A, o.Inst}]:
			if _, ok := tAt2[o.A]; !ok {
				tAt2[o.A] = o.Step
			}
		case o.K == "H" && o.Trig == "TS" && !restarting[ai{o.A, o.Inst}]:
			if _, ok := tsAt2[o.A]; !ok {
				tsAt2[o.A] = o.Step
			}
		}
	}
	type wrec struct{ inside, outside int } // requests issued while the target address was registered / was not
	watches := map[pair]*wrec{}
	got := map[pair]int{}
	for _, o := range fl {
		switch {
		case o.K == "W":
			p := pair{o.A, o.Who}
			if watches[p] == nil {
				watches[p] = &wrec{}
			}
			sp, spawned := spAt[o.Who]
			tt, gone := tsAt2[o.Who]
			if spawned && sp < o.Step && (!gone || o.Step <= tt) {
				watches[p].inside++
			} else {
				watches[p].outside++
			}
		case o.K == "H" && o.Trig == "TO":
			got[pair{o.A, o.Who}]++
		}
	}
	for p, n := range got {
		w := watches[p]
		if w == nil {
			w = &wrec{}
		}
		par, hasPar := parent[p.rcv]
		isParent := hasPar && par == p.snd
		if !isParent && w.inside+w.outside == 0 {
			add("C06:spurious-notification", fmt.Sprintf("actor %d handled OnTerminated(%d) %d time(s) but neither watched it nor is its parent", p.snd, p.rcv, n), nil)
			continue
		}
		if spawnCount[p.rcv] > 1 {
			continue // address reuse: several generations may each notify
		}
		// every watch request is answered at most once; the parent gets exactly one notice of its own and its watch
		// requests on a registered child add nothing
		bound := w.inside + w.outside
		if isParent {
			bound = 1 + w.outside
		}
		if n > bound {
			add("C06:duplicate-notification", fmt.Sprintf("actor %d handled OnTerminated(%d) %d times; parent=%v, watch requests while registered=%d, other watch requests=%d",
				p.snd, p.rcv, n, isParent, w.inside, w.outside), map[string]string{"parent": fmt.Sprint(isParent)})
		}
	}
	// the sentinel (a top-level actor that only watches, see gen.go) lives until the final shutdown, so a notice that was
	// queued for it before the shutdown request must have been handled: exactly one
	if c.Scn.Sentinel >= 0 && !stuck {
		sen, tgt := c.Scn.Sentinel, c.Scn.SentinelWatches
		shut := len(c.Steps)
		for i, st := range c.Steps {
			if st.L.K == "shutdown" {
				shut = i
				break
			}
		}
		wAt := -1
		for _, o := range fl {
			if o.K == "W" && o.A == sen && o.Who == tgt && wAt < 0 {
				wAt = o.Step
			}
		}
		if wAt >= 0 && spawnCount[tgt] <= 1 {
			sp, spawned := spAt[tgt]
			ts, terminated := tsAt2[tgt]
			due := false
			switch {
			case !spawned || sp > wAt: // did not exist when watched: answered by the dead-letter process at once
				due = wAt+3 < shut
			case terminated && ts+3 < shut: // registered watcher (or late watch), target terminated well before shutdown
				due = true
			}
			if due && got[pair{sen, tgt}] == 0 {
				add("C06:missing-notification", fmt.Sprintf("sentinel %d watched %d at step %d (target spawned=%v terminated=%v at %d) and never handled OnTerminated(%d) although it lived until the shutdown at step %d",
					sen, tgt, wAt, spawned, terminated, ts, tgt, shut), map[string]string{"cause": lcause})
			}
		}
	}
	return v
}

func trigs(s []flat) []string {
	var out []string
	for _, o := range s {
		out = append(out, o.Trig)
	}
	return out
}
