package klock

import (
	"fmt"

	"verif/harness/vh"
)

type StatsT struct {
	Actors, Failures, Restarts, Terms, Graceful, Dead, Watches int
	NonTrivial                                                 bool
}

type flat struct {
	Obs
	Step int
}

func flatten(c *Case) []flat {
	var out []flat
	for i, s := range c.Steps {
		for _, o := range s.O {
			out = append(out, flat{o, i})
		}
	}
	return out
}

func Stats(c *Case) StatsT {
	var st StatsT
	seen := map[int]bool{}
	queuedBehind := false
	for _, o := range flatten(c) {
		switch o.K {
		case "H":
			seen[o.A] = true
			if o.Trig == "RG" {
				st.Restarts++
			}
		case "F":
			st.Failures++
		case "TR":
			st.Terms++
			if o.Closed {
				st.Graceful++
			}
		case "D":
			st.Dead++
		case "W":
			st.Watches++
		}
	}
	st.Actors = len(seen)
	// non-trivial: a failure, restart or termination while some probe was sent earlier and handled/dead-lettered later
	fl := flatten(c)
	for i, o := range fl {
		if o.K == "F" || (o.K == "H" && (o.Trig == "RG" || o.Trig == "T")) {
			sent := map[int]bool{}
			for _, p := range fl[:i] {
				if p.K == "S" {
					sent[p.Serial] = true
				}
			}
			for _, p := range fl[i+1:] {
				if (p.K == "H" && p.Trig == "P" || p.K == "D") && sent[p.Serial] {
					queuedBehind = true
				}
			}
		}
	}
	st.NonTrivial = queuedBehind
	return st
}

// Monitors restate clauses of C02..C06 on the trace of the REAL system (search oracle; sound, not complete).
func Monitors(c *Case) []vh.Violation {
	var v []vh.Violation
	add := func(kind, detail string, sig map[string]string) {
		for _, x := range v {
			if x.Kind == kind {
				return
			}
		}
		v = append(v, vh.Violation{Kind: kind, Detail: detail, Sig: sig})
	}
	fl := flatten(c)
	closed, stuck := false, c.Stuck != "" || c.Truncated
	var regs []int
	for _, o := range fl {
		if o.K == "END" {
			closed, regs = o.Closed, o.Regs
		}
		if o.K == "X" {
			add("kernel:crash", "harness observed: "+o.Note, nil)
		}
	}
	// ---------------- C02: exactly once, handled xor dead letter, per-sender order
	type key struct{ serial, rcv int }
	sent := map[key]flat{}
	handled := map[key]int{}
	dead := map[key]int{}
	for _, o := range fl {
		switch {
		case o.K == "S":
			sent[key{o.Serial, o.A}] = o
		case o.K == "H" && o.Trig == "P":
			handled[key{o.Serial, o.A}]++
		case o.K == "D":
			dead[key{o.Serial, o.A}]++
		}
	}
	for k, n := range handled {
		if n > 1 {
			add("C02:duplicate-handled", fmt.Sprintf("message serial %d handled %d times by actor %d", k.serial, n, k.rcv), nil)
		}
		if dead[k] > 0 {
			add("C02:handled-and-dead-letter", fmt.Sprintf("message serial %d to actor %d both handled and dead-lettered", k.serial, k.rcv), nil)
		}
		if _, ok := sent[k]; !ok {
			add("C02:invented", fmt.Sprintf("actor %d handled serial %d that was never sent to it", k.rcv, k.serial), nil)
		}
	}
	for k, n := range dead {
		if n > 1 {
			add("C02:duplicate-dead-letter", fmt.Sprintf("message serial %d to %d dead-lettered %d times", k.serial, k.rcv, n), nil)
		}
	}
	if closed && !stuck {
		for k := range sent {
			if k.rcv == RefGuard || k.rcv == RefSub {
				continue // the system actors are not instrumented
			}
			if handled[k]+dead[k] == 0 {
				add("C02:lost", fmt.Sprintf("system shut down, message serial %d to actor %d neither handled nor dead-lettered", k.serial, k.rcv), nil)
			}
		}
	}
	type pair struct{ snd, rcv int }
	last := map[pair]int{}
	for _, o := range fl {
		if o.K == "H" && o.Trig == "P" {
			s, ok := sent[key{o.Serial, o.A}]
			if !ok {
				continue
			}
			p := pair{s.Snd, o.A}
			if o.Serial < last[p] {
				add("C02:order", fmt.Sprintf("actor %d handled serial %d after serial %d, both sent by %d", o.A, o.Serial, last[p], s.Snd), nil)
			}
			last[p] = o.Serial
		}
	}
	// ---------------- C03: lifecycle grammar per (actor, incarnation)
	type ai struct{ a, inst int }
	seq := map[ai][]flat{}
	var order []ai
	for _, o := range fl {
		if o.K == "H" {
			k := ai{o.A, o.Inst}
			if _, ok := seq[k]; !ok {
				order = append(order, k)
			}
			seq[k] = append(seq[k], o)
		}
	}
	for _, k := range order {
		s := seq[k]
		first := s[0].Trig
		if !(first == "L" || (first == "RD" && len(s) > 1 && s[1].Trig == "L") || (first == "RD" && len(s) == 1)) {
			add("C03:first-not-launch", fmt.Sprintf("actor %d incarnation %d first handled %s (then %v)", k.a, k.inst, first, trigs(s)),
				map[string]string{"first": first})
		}
		tsAt, tAt := -1, -1
		for i, o := range s {
			if o.Trig == "T" && tAt < 0 {
				tAt = i
			}
			if o.Trig == "TS" && tsAt < 0 {
				tsAt = i
			}
		}
		if tsAt >= 0 {
			if tAt < 0 || tAt > tsAt {
				add("C03:terminated-before-terminate", fmt.Sprintf("actor %d incarnation %d: %v", k.a, k.inst, trigs(s)), nil)
			}
			if tsAt != len(s)-1 {
				add("C03:handled-after-own-terminated", fmt.Sprintf("actor %d incarnation %d handled %s after its own OnTerminated: %v",
					k.a, k.inst, s[tsAt+1].Trig, trigs(s)), map[string]string{"after": s[tsAt+1].Trig})
			}
		}
		// supervised restart: RG, T, TS on the old instance with no user message in between
		for i, o := range s {
			if o.Trig == "RG" {
				for _, p := range s[i+1:] {
					if p.Trig == "P" {
						add("C03:user-message-during-restart", fmt.Sprintf("actor %d incarnation %d handled a user message between OnRestarting and the end of the instance: %v",
							k.a, k.inst, trigs(s)), nil)
						break
					}
				}
			}
		}
	}
	// ---------------- C04: no user message between a failure and the supervisor's decision
	pending := map[int]int{} // victim -> step of failure
	for _, o := range fl {
		switch {
		case o.K == "F":
			if _, ok := pending[o.A]; !ok {
				pending[o.A] = o.Step
			}
		case o.K == "DEC":
			delete(pending, o.Who)
		case o.K == "H" && o.Trig == "P":
			if st, ok := pending[o.A]; ok && o.Step > st {
				add("C04:user-message-before-decision", fmt.Sprintf("actor %d failed at step %d and handled user message serial %d at step %d before any supervisor decision",
					o.A, st, o.Serial, o.Step), nil)
			}
		case o.K == "H" && o.Trig == "L":
			delete(pending, o.A) // a fresh generation
		}
	}
	// ---------------- C05: hierarchy
	parent := map[int]int{}
	for _, o := range fl {
		if o.K == "SP" {
			parent[o.Who] = o.A
		}
	}
	isDesc := func(d, a int) bool {
		for x, ok := parent[d]; ok; x, ok = parent[x] {
			if x == a {
				return true
			}
		}
		return false
	}
	aliveSince := map[int]int{} // token -> step of current generation's launch, -1 if gone
	for _, o := range fl {
		if o.K != "H" {
			continue
		}
		switch o.Trig {
		case "L":
			aliveSince[o.A] = o.Step
		case "TS":
			for d, since := range aliveSince {
				if since >= 0 && d != o.A && isDesc(d, o.A) {
					add("C05:terminated-before-descendant", fmt.Sprintf("actor %d handled its own OnTerminated at step %d while descendant %d (launched at step %d) had not handled its own",
						o.A, o.Step, d, since), nil)
				}
			}
			aliveSince[o.A] = -1
		}
	}
	// cause classification for the two standing findings (see known_findings.json): a panic inside a lifecycle
	// handler of an actor that is not alive, and a re-spawn of an address before the parent has processed the
	// previous holder's termination notice
	lifecyclePanic := false
	for _, st := range c.Steps {
		trig := ""
		for _, o := range st.O {
			if o.K == "H" {
				trig = o.Trig
			}
			if o.K == "F" && o.Note == "panic" && (trig == "T" || trig == "TS" || trig == "TO" || trig == "RG") {
				lifecyclePanic = true
			}
		}
	}
	spawns := map[int]int{}
	for _, o := range fl {
		if o.K == "SP" {
			spawns[o.Who]++
		}
	}
	if !stuck && !closed {
		cause := "other"
		if lifecyclePanic {
			cause = "lifecycle-handler-panic"
		}
		add("C05:shutdown-incomplete", "no step is enabled any more but the system has not closed (Shutdown would hang); cause: "+cause,
			map[string]string{"cause": cause})
	}
	if closed && len(regs) > 0 {
		resp := "false"
		for _, t := range regs {
			if spawns[t] > 1 {
				resp = "true"
			}
		}
		add("C05:registered-after-shutdown", fmt.Sprintf("actors still registered after shutdown: %v", regs), map[string]string{"respawned": resp})
	}
	// ---------------- C06: no spurious notification; at most one per watch / parenthood
	watched := map[pair]int{}
	gens := map[int]int{} // launches of a token (each generation can notify its parent once)
	got := map[pair]int{}
	for _, o := range fl {
		switch {
		case o.K == "W":
			watched[pair{o.A, o.Who}]++
		case o.K == "H" && o.Trig == "L" && o.Inst >= 0:
			gens[o.A]++
		case o.K == "H" && o.Trig == "TO":
			got[pair{o.A, o.Who}]++
		}
	}
	for p, n := range got {
		bound := watched[p]
		if par, ok := parent[p.rcv]; ok && par == p.snd {
			bound += gens[p.rcv]
		}
		if bound == 0 {
			add("C06:spurious-notification", fmt.Sprintf("actor %d handled OnTerminated(%d) %d time(s) but neither watched it nor is its parent", p.snd, p.rcv, n), nil)
		} else if n > bound {
			add("C06:duplicate-notification", fmt.Sprintf("actor %d handled OnTerminated(%d) %d times; it watched %d time(s), parent generations %d",
				p.snd, p.rcv, n, watched[p], bound-watched[p]), map[string]string{"parent_watches": fmt.Sprint(watched[p] > 0 && bound > watched[p])})
		}
	}
	return v
}

func trigs(s []flat) []string {
	var out []string
	for _, o := range s {
		out = append(out, o.Trig)
	}
	return out
}
