module verif/harness

go 1.23.0

require (
	github.com/RussellLuo/timingwheel v0.0.0-20220218152713-54845bda3108
	github.com/anishathalye/porcupine v1.3.0
	github.com/kercylan98/minotaur v0.0.0
	github.com/panjf2000/ants/v2 v2.9.1
)

require (
	github.com/alphadose/haxmap v1.4.0 // indirect
	github.com/armon/go-metrics v0.4.1 // indirect
	github.com/fatih/color v1.17.0 // indirect
	github.com/google/btree v1.1.2 // indirect
	github.com/gorhill/cronexpr v0.0.0-20180427100037-88b0669f7d75 // indirect
	github.com/hashicorp/errwrap v1.1.0 // indirect
	github.com/hashicorp/go-immutable-radix v1.3.1 // indirect
	github.com/hashicorp/go-msgpack/v2 v2.1.2 // indirect
	github.com/hashicorp/go-multierror v1.1.1 // indirect
	github.com/hashicorp/go-sockaddr v1.0.6 // indirect
	github.com/hashicorp/golang-lru v1.0.2 // indirect
	github.com/hashicorp/memberlist v0.5.1 // indirect
	github.com/json-iterator/go v1.1.12 // indirect
	github.com/mattn/go-colorable v0.1.13 // indirect
	github.com/mattn/go-isatty v0.0.20 // indirect
	github.com/miekg/dns v1.1.61 // indirect
	github.com/modern-go/concurrent v0.0.0-20180306012644-bacd9c7ef1dd // indirect
	github.com/modern-go/reflect2 v1.0.2 // indirect
	github.com/pkg/errors v0.9.1 // indirect
	github.com/puzpuzpuz/xsync/v3 v3.4.0 // indirect
	github.com/sean-/seed v0.0.0-20170313163322-e2103e2c3529 // indirect
	github.com/twmb/murmur3 v1.1.8 // indirect
	golang.org/x/exp v0.0.0-20240719175910-8a7402abbf56 // indirect
	golang.org/x/net v0.27.0 // indirect
	golang.org/x/sys v0.22.0 // indirect
	golang.org/x/text v0.16.0 // indirect
	google.golang.org/genproto/googleapis/rpc v0.0.0-20240617180043-68d350f18fd4 // indirect
	google.golang.org/grpc v1.64.1 // indirect
	google.golang.org/protobuf v1.34.2 // indirect
)

replace github.com/kercylan98/minotaur => /repo
