module verif/harness

go 1.23.0

require github.com/kercylan98/minotaur v0.0.0

replace github.com/kercylan98/minotaur => /repo
