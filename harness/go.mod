module verif/harness

go 1.23.0

require github.com/kercylan98/minotaur v0.0.0

require (
	github.com/alphadose/haxmap v1.4.0 // indirect
	github.com/fatih/color v1.17.0 // indirect
	github.com/json-iterator/go v1.1.12 // indirect
	github.com/mattn/go-colorable v0.1.13 // indirect
	github.com/mattn/go-isatty v0.0.20 // indirect
	github.com/modern-go/concurrent v0.0.0-20180306012644-bacd9c7ef1dd // indirect
	github.com/modern-go/reflect2 v1.0.2 // indirect
	golang.org/x/exp v0.0.0-20240719175910-8a7402abbf56 // indirect
	golang.org/x/sys v0.22.0 // indirect
)

replace github.com/kercylan98/minotaur => /repo
