module verif/translate/c16locks

go 1.23.0
