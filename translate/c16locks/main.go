// c16locks: tie T3 for property C16.  Reads the CURRENT Go sources of the synchronized containers of
// toolkit/collection (SyncMap, OrderSync, SyncSlice, SyncPrioritySlice, MutexBucket, MutexBucketItem) and
// emits a Coq file with, per method and per control-flow path, the lock skeleton: Lock/RLock/Unlock/RUnlock,
// deferred unlocks, accesses to guarded fields (read/write) and calls of locking methods of the same
// object, followed by
//
//	Lemma extracted_well_locked : forallb well_locked methods = true.
//	Proof. vm_compute. reflexivity. Qed.
//
// Standard library only (go/ast, go/parser, go/token).  Purely syntactic:
//   - a lock operation is a call X.Lock()/RLock()/Unlock()/RUnlock(); its owner is the root identifier of X
//     ("self" for the receiver, otherwise the variable name, e.g. the bucket item in MutexBucket);
//   - the guarded fields are the fields of the target structs that own a mutex and that some method writes
//     (never-written fields such as SyncMap.atom are configuration, not state);
//   - an access is a selector Y.f with f guarded; it is a write when it is (the root of) an assignment target,
//     an inc/dec operand, the first argument of delete/clear/copy/sort.Slice/..., or has its address taken;
//   - calls of own methods that never lock (helpers such as sort()) are inlined; calls of own locking
//     methods become CallSelf; function literals are walked in place;
//   - if/else, switch and loops fork paths; a loop runs zero or one time, and zero, one or TWO times when its
//     body contains a lock operation or a call of a locking method (so that "one critical section per
//     iteration" shows up as several sections of one call); `break` leaves the loop, `continue` starts the
//     next iteration; `if !recv.f` on a never-written bool field is evaluated (it is constantly false).
//
// Besides the Coq file a JSON side file lists, per method and path, the critical sections in order
// (owner, mode, fields read / written inside), the guarded accesses outside any section and the calls of
// locking methods: the facts behind the obligation "one atomic step of the model = one critical section"
// (AtomicModel.step_ok, generated Lemma extracted_atomic_steps).
package main

import (
	"encoding/json"
	"flag"
	"fmt"
	"go/ast"
	"go/parser"
	"go/token"
	"os"
	"path/filepath"
	"sort"
	"strings"
)

var targets = map[string]string{ // type -> file (relative to the repository root)
	"SyncMap":           "toolkit/collection/mappings/sync_map.go",
	"OrderSync":         "toolkit/collection/mappings/order_sync.go",
	"MutexBucket":       "toolkit/collection/mappings/mutex_bucket.go",
	"MutexBucketItem":   "toolkit/collection/mappings/mutex_bucket.go",
	"SyncSlice":         "toolkit/collection/listings/sync_slice.go",
	"SyncPrioritySlice": "toolkit/collection/listings/sync_priority_slice.go",
}

type Ev struct {
	K, O, F string
	W       bool
}

func (e Ev) coq() string {
	switch e.K {
	case "Acc":
		w := "false"
		if e.W {
			w = "true"
		}
		return fmt.Sprintf("Acc %q %q %s", e.O, e.F, w)
	case "CallSelf":
		return fmt.Sprintf("CallSelf %q %q", e.O, e.F)
	}
	return fmt.Sprintf("%s %q", e.K, e.O)
}

type path struct {
	evs  []Ev
	term int // 0 running, 1 returned, 2 continue (next iteration), 3 break (leaves the loop / switch)
}

type method struct {
	typ, name, recv string
	decl            *ast.FuncDecl
	locks           bool // contains a lock operation, directly or through own methods
}

type structInfo struct {
	fields     map[string]string // field -> printed type
	mutexField string            // "" with embedded=true: embedded mutex
	embedded   bool
	hasMutex   bool
}

var (
	structs  = map[string]*structInfo{}
	methods  = map[string]map[string]*method{} // type -> name -> method
	guarded  = map[string]bool{}               // field names
	written  = map[string]bool{}               // field names written anywhere
	constNeg = map[string]bool{}               // never-written bool fields: always false
	imports  = map[string]bool{}               // package names in scope (never lock owners / objects)
	lockName = map[string]string{"Lock": "Lock", "RLock": "RLock", "Unlock": "Unlock", "RUnlock": "RUnlock"}
)

func typeString(e ast.Expr) string {
	switch t := e.(type) {
	case *ast.Ident:
		return t.Name
	case *ast.SelectorExpr:
		return typeString(t.X) + "." + t.Sel.Name
	case *ast.StarExpr:
		return "*" + typeString(t.X)
	case *ast.ArrayType:
		return "[]" + typeString(t.Elt)
	case *ast.MapType:
		return "map[" + typeString(t.Key) + "]" + typeString(t.Value)
	case *ast.IndexExpr:
		return typeString(t.X)
	case *ast.IndexListExpr:
		return typeString(t.X)
	case *ast.FuncType:
		return "func"
	}
	return "?"
}

func recvType(fd *ast.FuncDecl) (typ, name string) {
	if fd.Recv == nil || len(fd.Recv.List) == 0 {
		return "", ""
	}
	f := fd.Recv.List[0]
	t := f.Type
	if s, ok := t.(*ast.StarExpr); ok {
		t = s.X
	}
	typ = typeString(t)
	if len(f.Names) > 0 {
		name = f.Names[0].Name
	}
	return
}

func rootIdent(e ast.Expr) string {
	for {
		switch t := e.(type) {
		case *ast.Ident:
			return t.Name
		case *ast.SelectorExpr:
			e = t.X
		case *ast.IndexExpr:
			e = t.X
		case *ast.ParenExpr:
			e = t.X
		case *ast.StarExpr:
			e = t.X
		case *ast.CallExpr:
			e = t.Fun
		default:
			return "?"
		}
	}
}

// ---------------------------------------------------------------- walker

type walker struct {
	m     *method
	depth int
}

func (w *walker) owner(e ast.Expr) string {
	r := rootIdent(e)
	if r == w.m.recv {
		return "self"
	}
	return r
}

func clonePaths(ps []path) []path {
	out := make([]path, len(ps))
	for i, p := range ps {
		out[i] = path{append([]Ev(nil), p.evs...), p.term}
	}
	return out
}

func key(p path) string {
	var sb strings.Builder
	fmt.Fprintf(&sb, "%d|", p.term)
	for _, e := range p.evs {
		sb.WriteString(e.coq())
		sb.WriteByte(';')
	}
	return sb.String()
}

func dedup(ps []path) []path {
	seen := map[string]bool{}
	var out []path
	for _, p := range ps {
		k := key(p)
		if !seen[k] {
			seen[k] = true
			out = append(out, p)
		}
	}
	if len(out) > 512 {
		fmt.Fprintln(os.Stderr, "c16locks: path explosion")
		os.Exit(3)
	}
	return out
}

func emit(ps []path, e Ev) []path {
	for i := range ps {
		if ps[i].term == 0 {
			ps[i].evs = append(ps[i].evs, e)
		}
	}
	return ps
}

// appendPaths: sequential composition with a helper's paths (cross product on the running paths)
func appendPaths(ps []path, sub []path) []path {
	var out []path
	for _, p := range ps {
		if p.term != 0 {
			out = append(out, p)
			continue
		}
		for _, s := range sub {
			out = append(out, path{append(append([]Ev(nil), p.evs...), s.evs...), 0})
		}
	}
	return dedup(out)
}

var mutators = map[string]bool{"delete": true, "clear": true, "copy": true, "sort.Slice": true, "sort.SliceStable": true, "sort.Sort": true, "sort.Stable": true}

func (w *walker) expr(ps []path, e ast.Expr, write bool) []path {
	if e == nil {
		return ps
	}
	switch t := e.(type) {
	case *ast.Ident, *ast.BasicLit:
		return ps
	case *ast.ParenExpr:
		return w.expr(ps, t.X, write)
	case *ast.StarExpr:
		return w.expr(ps, t.X, write)
	case *ast.SelectorExpr:
		if guarded[t.Sel.Name] {
			ps = w.expr(ps, t.X, false)
			return emit(ps, Ev{K: "Acc", O: w.owner(t.X), F: t.Sel.Name, W: write})
		}
		return w.expr(ps, t.X, write)
	case *ast.IndexExpr:
		ps = w.expr(ps, t.Index, false)
		return w.expr(ps, t.X, write)
	case *ast.SliceExpr:
		ps = w.expr(ps, t.Low, false)
		ps = w.expr(ps, t.High, false)
		ps = w.expr(ps, t.Max, false)
		return w.expr(ps, t.X, write)
	case *ast.UnaryExpr:
		if t.Op == token.AND {
			return w.expr(ps, t.X, true)
		}
		return w.expr(ps, t.X, false)
	case *ast.BinaryExpr:
		ps = w.expr(ps, t.X, false)
		return w.expr(ps, t.Y, false)
	case *ast.KeyValueExpr:
		ps = w.expr(ps, t.Key, false)
		return w.expr(ps, t.Value, false)
	case *ast.CompositeLit:
		for _, el := range t.Elts {
			ps = w.expr(ps, el, false)
		}
		return ps
	case *ast.TypeAssertExpr:
		return w.expr(ps, t.X, false)
	case *ast.FuncLit:
		sub := w.block([]path{{}}, t.Body.List)
		for i := range sub {
			sub[i].term = 0 // a return inside the literal returns from the literal only
		}
		return appendPaths(ps, sub)
	case *ast.CallExpr:
		return w.call(ps, t)
	}
	return ps
}

func (w *walker) call(ps []path, c *ast.CallExpr) []path {
	fun := typeString(c.Fun)
	// lock operations
	if sel, ok := c.Fun.(*ast.SelectorExpr); ok {
		if k, isLock := lockName[sel.Sel.Name]; isLock && len(c.Args) == 0 {
			return emit(ps, Ev{K: k, O: w.owner(sel.X)})
		}
	}
	// arguments first
	for i, a := range c.Args {
		ps = w.expr(ps, a, i == 0 && mutators[fun])
	}
	if sel, ok := c.Fun.(*ast.SelectorExpr); ok {
		root := rootIdent(sel.X)
		if id, isIdent := sel.X.(*ast.Ident); isIdent && id.Name == w.m.recv {
			if callee := methods[w.m.typ][sel.Sel.Name]; callee != nil {
				if callee.locks {
					return emit(ps, Ev{K: "CallSelf", O: "self", F: callee.name})
				}
				if w.depth > 6 {
					return ps
				}
				cw := &walker{m: callee, depth: w.depth + 1}
				sub := cw.block([]path{{}}, callee.decl.Body.List)
				for i := range sub {
					sub[i].term = 0
				}
				// the callee's receiver is the caller's receiver: owners are already "self"
				return appendPaths(ps, sub)
			}
		} else if root != w.m.recv && !imports[root] {
			// a locking method of another object of a target type (by name): must not be called under a lock
			for typ, ms := range methods {
				if m := ms[sel.Sel.Name]; m != nil && m.locks && structs[typ] != nil && structs[typ].hasMutex {
					if _, isIdent := sel.X.(*ast.Ident); isIdent {
						return emit(ps, Ev{K: "CallSelf", O: root, F: typ + "." + m.name})
					}
				}
			}
		}
		ps = w.expr(ps, sel.X, false)
	}
	return ps
}

func (w *walker) constCond(e ast.Expr) (val, ok bool) {
	neg := false
	if u, isU := e.(*ast.UnaryExpr); isU && u.Op == token.NOT {
		neg = true
		e = u.X
	}
	if s, isS := e.(*ast.SelectorExpr); isS {
		if id, isI := s.X.(*ast.Ident); isI && id.Name == w.m.recv && constNeg[s.Sel.Name] {
			return neg, true
		}
	}
	return false, false
}

func (w *walker) stmt(ps []path, s ast.Stmt) []path {
	switch t := s.(type) {
	case nil:
		return ps
	case *ast.ExprStmt:
		return w.expr(ps, t.X, false)
	case *ast.AssignStmt:
		for _, r := range t.Rhs {
			ps = w.expr(ps, r, false)
		}
		for _, l := range t.Lhs {
			ps = w.expr(ps, l, true)
		}
		return ps
	case *ast.IncDecStmt:
		return w.expr(ps, t.X, true)
	case *ast.DeclStmt:
		if gd, ok := t.Decl.(*ast.GenDecl); ok {
			for _, sp := range gd.Specs {
				if vs, ok := sp.(*ast.ValueSpec); ok {
					for _, v := range vs.Values {
						ps = w.expr(ps, v, false)
					}
				}
			}
		}
		return ps
	case *ast.DeferStmt:
		if sel, ok := t.Call.Fun.(*ast.SelectorExpr); ok && len(t.Call.Args) == 0 {
			switch sel.Sel.Name {
			case "Unlock":
				return emit(ps, Ev{K: "DeferUnlock", O: w.owner(sel.X)})
			case "RUnlock":
				return emit(ps, Ev{K: "DeferRUnlock", O: w.owner(sel.X)})
			}
		}
		return w.call(ps, t.Call) // approximated as executed here
	case *ast.GoStmt:
		return w.call(ps, t.Call)
	case *ast.ReturnStmt:
		for _, r := range t.Results {
			ps = w.expr(ps, r, false)
		}
		for i := range ps {
			if ps[i].term == 0 {
				ps[i].term = 1
			}
		}
		return ps
	case *ast.BranchStmt:
		code := 2 // continue (goto / fallthrough are not used by the target files; treated as continue)
		if t.Tok == token.BREAK {
			code = 3
		}
		for i := range ps {
			if ps[i].term == 0 {
				ps[i].term = code
			}
		}
		return ps
	case *ast.BlockStmt:
		return w.block(ps, t.List)
	case *ast.LabeledStmt:
		return w.stmt(ps, t.Stmt)
	case *ast.IfStmt:
		ps = w.stmt(ps, t.Init)
		if val, ok := w.constCond(t.Cond); ok {
			if val {
				return w.block(ps, t.Body.List)
			}
			return w.stmt(ps, t.Else)
		}
		ps = w.expr(ps, t.Cond, false)
		a := w.block(clonePaths(ps), t.Body.List)
		b := w.stmt(clonePaths(ps), t.Else)
		return dedup(append(a, b...))
	case *ast.ForStmt:
		ps = w.stmt(ps, t.Init)
		ps = w.expr(ps, t.Cond, false)
		return w.loop(ps, t.Body, func(b []path) []path {
			b = w.stmt(b, t.Post)
			return w.expr(b, t.Cond, false)
		})
	case *ast.RangeStmt:
		ps = w.expr(ps, t.X, false)
		return w.loop(ps, t.Body, nil)
	case *ast.SwitchStmt:
		ps = w.stmt(ps, t.Init)
		ps = w.expr(ps, t.Tag, false)
		return w.cases(ps, t.Body)
	case *ast.TypeSwitchStmt:
		ps = w.stmt(ps, t.Init)
		ps = w.stmt(ps, t.Assign)
		return w.cases(ps, t.Body)
	case *ast.SelectStmt:
		return w.cases(ps, t.Body)
	case *ast.SendStmt:
		ps = w.expr(ps, t.Value, false)
		return w.expr(ps, t.Chan, false)
	}
	return ps
}

// loop: zero or one iteration; zero, one or two when the body locks (a critical section per iteration is
// several critical sections of the call).  after(b) = post statement and condition between iterations.
func (w *walker) loop(ps []path, body *ast.BlockStmt, after func([]path) []path) []path {
	iters := 1
	if locksInside(body) {
		iters = 2
	}
	out := clonePaths(ps) // zero iterations
	cur := clonePaths(ps)
	for k := 0; k < iters; k++ {
		b := w.block(cur, body.List)
		var next []path
		for i := range b {
			switch b[i].term {
			case 3: // break: leaves the loop
				b[i].term = 0
				out = append(out, b[i])
			case 2: // continue: next iteration
				b[i].term = 0
				next = append(next, b[i])
			case 1: // returned
				out = append(out, b[i])
			default:
				next = append(next, b[i])
			}
		}
		if after != nil {
			next = after(next)
		}
		out = append(out, clonePaths(next)...) // the loop ends after this iteration
		cur = next
	}
	return dedup(out)
}

// locksInside: the statement contains a lock operation or a call of a method (of any target type, by name)
// that locks
func locksInside(n ast.Node) bool {
	if hasLockOp(n) {
		return true
	}
	found := false
	ast.Inspect(n, func(x ast.Node) bool {
		if c, ok := x.(*ast.CallExpr); ok {
			if s, ok := c.Fun.(*ast.SelectorExpr); ok {
				for _, ms := range methods {
					if m := ms[s.Sel.Name]; m != nil && m.locks {
						found = true
					}
				}
			}
		}
		return !found
	})
	return found
}

func (w *walker) cases(ps []path, body *ast.BlockStmt) []path {
	var out []path
	hasDefault := false
	for _, c := range body.List {
		var list []ast.Stmt
		switch cc := c.(type) {
		case *ast.CaseClause:
			if cc.List == nil {
				hasDefault = true
			}
			list = cc.Body
		case *ast.CommClause:
			if cc.Comm == nil {
				hasDefault = true
			}
			list = append([]ast.Stmt{cc.Comm}, cc.Body...)
		}
		br := w.block(clonePaths(ps), list)
		for i := range br {
			if br[i].term == 3 { // break leaves the switch / select; continue belongs to the enclosing loop
				br[i].term = 0
			}
		}
		out = append(out, br...)
	}
	if !hasDefault {
		out = append(out, ps...)
	}
	return dedup(out)
}

func (w *walker) block(ps []path, list []ast.Stmt) []path {
	for _, s := range list {
		ps = w.stmt(ps, s)
	}
	return ps
}

// ---------------------------------------------------------------- analysis of the package files

func hasLockOp(n ast.Node) bool {
	found := false
	ast.Inspect(n, func(x ast.Node) bool {
		if c, ok := x.(*ast.CallExpr); ok {
			if s, ok := c.Fun.(*ast.SelectorExpr); ok && len(c.Args) == 0 {
				if _, isLock := lockName[s.Sel.Name]; isLock {
					found = true
				}
			}
		}
		return !found
	})
	return found
}

// collectWrites records the field names that are written in a function body
func collectWrites(body *ast.BlockStmt) {
	var mark func(e ast.Expr)
	mark = func(e ast.Expr) {
		switch t := e.(type) {
		case *ast.SelectorExpr:
			written[t.Sel.Name] = true
			mark(t.X)
		case *ast.IndexExpr:
			mark(t.X)
		case *ast.ParenExpr:
			mark(t.X)
		case *ast.StarExpr:
			mark(t.X)
		case *ast.SliceExpr:
			mark(t.X)
		}
	}
	ast.Inspect(body, func(x ast.Node) bool {
		switch t := x.(type) {
		case *ast.AssignStmt:
			for _, l := range t.Lhs {
				mark(l)
			}
		case *ast.IncDecStmt:
			mark(t.X)
		case *ast.UnaryExpr:
			if t.Op == token.AND {
				mark(t.X)
			}
		case *ast.CallExpr:
			if mutators[typeString(t.Fun)] && len(t.Args) > 0 {
				mark(t.Args[0])
			}
		case *ast.CompositeLit:
			for _, el := range t.Elts {
				if kv, ok := el.(*ast.KeyValueExpr); ok {
					if id, ok := kv.Key.(*ast.Ident); ok {
						_ = id // fields set by a constructor literal are initialisation, not writes
					}
				}
			}
		}
		return true
	})
}

// ---------------------------------------------------------------- critical sections of a path (JSON side file)

type section struct {
	Kind   string   `json:"kind"` // "section" | "call" | "outside"
	Owner  string   `json:"owner,omitempty"`
	Mode   string   `json:"mode,omitempty"` // "W" (Lock) | "R" (RLock)
	Reads  []string `json:"reads,omitempty"`
	Writes []string `json:"writes,omitempty"`
	Callee string   `json:"callee,omitempty"`
}

func addUniq(l []string, x string) []string {
	for _, y := range l {
		if y == x {
			return l
		}
	}
	return append(l, x)
}

// sectionsOf mirrors LockModel.sections: the deferred unlocks run LIFO at the end; an access outside a
// section, a nested lock or a section left open are reported as "outside" items.
func sectionsOf(evs []Ev) []section {
	var flat, ds []Ev
	for _, e := range evs {
		switch e.K {
		case "DeferUnlock":
			ds = append([]Ev{{K: "Unlock", O: e.O}}, ds...)
		case "DeferRUnlock":
			ds = append([]Ev{{K: "RUnlock", O: e.O}}, ds...)
		default:
			flat = append(flat, e)
		}
	}
	flat = append(flat, ds...)
	out := []section{}
	var cur *section
	stray := func(e Ev) {
		it := section{Kind: "outside", Owner: e.O, Callee: e.K}
		if e.K == "Acc" {
			it.Callee = ""
			if e.W {
				it.Writes = []string{e.F}
			} else {
				it.Reads = []string{e.F}
			}
		}
		out = append(out, it)
	}
	for _, e := range flat {
		switch {
		case cur == nil && (e.K == "Lock" || e.K == "RLock"):
			cur = &section{Kind: "section", Owner: e.O, Mode: map[string]string{"Lock": "W", "RLock": "R"}[e.K]}
		case cur == nil && e.K == "CallSelf":
			out = append(out, section{Kind: "call", Owner: e.O, Callee: e.F})
		case cur != nil && e.K == "Acc" && e.O == cur.Owner:
			if e.W {
				cur.Writes = addUniq(cur.Writes, e.F)
			} else {
				cur.Reads = addUniq(cur.Reads, e.F)
			}
		case cur != nil && e.O == cur.Owner && ((e.K == "Unlock" && cur.Mode == "W") || (e.K == "RUnlock" && cur.Mode == "R")):
			out = append(out, *cur)
			cur = nil
		default:
			stray(e)
		}
	}
	if cur != nil {
		cur.Kind = "outside"
		cur.Callee = "section-left-open"
		out = append(out, *cur)
	}
	return out
}

func main() {
	repo := os.Getenv("VERIF_REPO")
	if repo == "" {
		repo = "/repo"
	}
	flag.StringVar(&repo, "repo", repo, "repository root")
	out := flag.String("o", "", "output .v file")
	flag.Parse()
	if *out == "" {
		fmt.Fprintln(os.Stderr, "usage: c16locks -o Extracted.v [-repo /repo]")
		os.Exit(2)
	}
	fset := token.NewFileSet()
	files := map[string]*ast.File{}
	for _, rel := range targets {
		if files[rel] != nil {
			continue
		}
		f, err := parser.ParseFile(fset, filepath.Join(repo, rel), nil, 0)
		if err != nil {
			fmt.Fprintln(os.Stderr, "c16locks:", err)
			os.Exit(1)
		}
		files[rel] = f
	}
	// structs and methods
	for _, f := range files {
		for _, im := range f.Imports {
			name := strings.Trim(im.Path.Value, "\"")
			if i := strings.LastIndex(name, "/"); i >= 0 {
				name = name[i+1:]
			}
			if im.Name != nil {
				name = im.Name.Name
			}
			imports[name] = true
		}
		for _, d := range f.Decls {
			switch t := d.(type) {
			case *ast.GenDecl:
				for _, sp := range t.Specs {
					ts, ok := sp.(*ast.TypeSpec)
					if !ok {
						continue
					}
					st, ok := ts.Type.(*ast.StructType)
					if !ok {
						continue
					}
					si := &structInfo{fields: map[string]string{}}
					for _, fl := range st.Fields.List {
						ty := typeString(fl.Type)
						isMutex := ty == "sync.RWMutex" || ty == "sync.Mutex" || ty == "*sync.RWMutex" || ty == "*sync.Mutex"
						if len(fl.Names) == 0 {
							if isMutex {
								si.hasMutex, si.embedded = true, true
							}
							continue
						}
						for _, n := range fl.Names {
							if isMutex {
								si.hasMutex, si.mutexField = true, n.Name
							} else {
								si.fields[n.Name] = ty
							}
						}
					}
					structs[ts.Name.Name] = si
				}
			case *ast.FuncDecl:
				if t.Body == nil {
					continue
				}
				collectWrites(t.Body)
				typ, recv := recvType(t)
				if typ == "" {
					continue
				}
				if methods[typ] == nil {
					methods[typ] = map[string]*method{}
				}
				methods[typ][t.Name.Name] = &method{typ: typ, name: t.Name.Name, recv: recv, decl: t, locks: hasLockOp(t.Body)}
			}
		}
	}
	// guarded fields: fields of target structs owning a mutex that are written somewhere;
	// never-written bool fields are constants (false)
	for typ := range targets {
		si := structs[typ]
		if si == nil {
			fmt.Fprintf(os.Stderr, "c16locks: type %s not found\n", typ)
			os.Exit(1)
		}
		if !si.hasMutex {
			continue
		}
		for f, ty := range si.fields {
			if written[f] {
				guarded[f] = true
			} else if ty == "bool" {
				constNeg[f] = true
			}
		}
	}
	// locking methods: fixpoint through calls of own methods
	for changed := true; changed; {
		changed = false
		for typ, ms := range methods {
			for _, m := range ms {
				if m.locks {
					continue
				}
				ast.Inspect(m.decl.Body, func(x ast.Node) bool {
					if c, ok := x.(*ast.CallExpr); ok {
						if s, ok := c.Fun.(*ast.SelectorExpr); ok {
							if id, ok := s.X.(*ast.Ident); ok && id.Name == m.recv {
								if callee := methods[typ][s.Sel.Name]; callee != nil && callee.locks {
									m.locks = true
									changed = true
								}
							}
						}
					}
					return true
				})
			}
		}
	}
	// skeletons
	var typeNames []string
	for typ := range targets {
		typeNames = append(typeNames, typ)
	}
	sort.Strings(typeNames)
	var sb strings.Builder
	fmt.Fprintf(&sb, "(* GENERATED by translate/c16locks from %s — do not edit.\n", repo)
	var gl []string
	for f := range guarded {
		gl = append(gl, f)
	}
	sort.Strings(gl)
	fmt.Fprintf(&sb, "   guarded fields: %s\n", strings.Join(gl, ", "))
	var helpers, assumed []string
	type item struct {
		typ, name, coq string
		secs           [][]section
	}
	var items []item
	for _, typ := range typeNames {
		var names []string
		for n := range methods[typ] {
			names = append(names, n)
		}
		sort.Strings(names)
		for _, n := range names {
			m := methods[typ][n]
			if strings.HasPrefix(n, "NoneLock") {
				assumed = append(assumed, typ+"."+n)
				continue
			}
			if !m.locks && !ast.IsExported(n) {
				helpers = append(helpers, typ+"."+n)
				continue
			}
			w := &walker{m: m}
			ps := dedup(w.block([]path{{}}, m.decl.Body.List))
			var pstr []string
			var secs [][]section
			for _, p := range ps {
				secs = append(secs, sectionsOf(p.evs))
				var es []string
				for _, e := range p.evs {
					es = append(es, e.coq())
				}
				pstr = append(pstr, "["+strings.Join(es, "; ")+"]")
			}
			items = append(items, item{typ, n, fmt.Sprintf("  {| mtype := %q; mname := %q; mpaths := [\n      %s] |}", typ, n, strings.Join(pstr, ";\n      ")), secs})
		}
	}
	fmt.Fprintf(&sb, "   inlined helpers (unexported, never lock; checked at their call sites): %s\n", strings.Join(helpers, ", "))
	fmt.Fprintf(&sb, "   not checked (the name states that the caller holds the lock): %s *)\n", strings.Join(assumed, ", "))
	sb.WriteString("From MV Require Import Lib.ListX Lib.Sched C16.LockModel C16.LockProofs C16.AtomicModel C16.AtomicProofs.\nFrom Coq Require Import String.\nOpen Scope string_scope.\n\n")
	sb.WriteString("Definition methods : list method := [\n")
	for i, it := range items {
		if i > 0 {
			sb.WriteString(";\n")
		}
		sb.WriteString(it.coq)
	}
	sb.WriteString("\n].\n\n")
	sb.WriteString("Definition offenders := Eval vm_compute in map (fun m => (mtype m, mname m)) (filter (fun m => negb (well_locked m)) methods).\nPrint offenders.\n\n")
	sb.WriteString("(* methods with a path that is not ONE critical section (or one call of a locking method) and that does not\n   fit a multi-step shape declared for that method in AtomicModel.multi_step *)\n")
	sb.WriteString("Definition nonatomic := Eval vm_compute in map (fun m => (mtype m, mname m)) (filter (fun m => negb (step_ok m)) methods).\nPrint nonatomic.\n")
	sb.WriteString("(* methods that rely on their declared multi-step shape *)\n")
	sb.WriteString("Definition multistep := Eval vm_compute in map (fun m => (mtype m, mname m)) (filter (fun m => negb (forallb atomic_path (mpaths m))) methods).\nPrint multistep.\n\n")
	sb.WriteString("Lemma extracted_well_locked : forallb well_locked methods = true.\nProof. vm_compute. reflexivity. Qed.\n\n")
	sb.WriteString(`(* the generic theorem instantiated with the extracted methods: any number of threads, each calling any
   sequence of these methods along any of their paths *)
Theorem extracted_threads_safe : forall (threads : list (list (list ev))) (st : state LM),
  (forall paths, In paths threads -> forall p, In p paths -> In p (all_paths methods)) ->
  reach (init_state threads) st ->
  (forall i j li lj o m, i <> j -> nth_error (snd st) i = Some (Some li) -> nth_error (snd st) j = Some (Some lj) ->
     fst li = Some (o, MW) -> fst lj = Some (o, m) -> False) /\
  (forall j h o f w t, nth_error (snd st) j = Some (Some (h, Acc o f w :: t)) ->
     (exists m, h = Some (o, m) /\ (w = true -> m = MW)) /\
     (forall i li m, i <> j -> nth_error (snd st) i = Some (Some li) -> fst li = Some (o, m) -> m = MR /\ w = false)) /\
  ((exists i l, nth_error (snd st) i = Some (Some l)) -> exists i st' e, gstep st i tt = Some (st', e)).
Proof. intros threads st. apply (well_locked_threads_safe methods). exact extracted_well_locked. Qed.
Print Assumptions extracted_threads_safe.
`)
	sb.WriteString("Lemma extracted_atomic_steps : forallb step_ok methods = true.\nProof. vm_compute. reflexivity. Qed.\n\n")
	sb.WriteString(`(* every method the models treat as ONE atomic step executes, along each of its paths, nothing at all, one call
   of a locking method of its own object, or exactly one critical section that contains all its accesses to
   guarded fields (reads only, when the section is a read section) *)
Theorem extracted_one_section : forall m p, In m methods -> In p (mpaths m) ->
  multi_step (mtype m) (mname m) = None -> one_section (flatc [] p).
Proof. exact (step_ok_one_section methods extracted_atomic_steps). Qed.
Print Assumptions extracted_one_section.

`)
	fmt.Fprintf(&sb, "\n(* %d methods *)\n", len(items))
	if err := os.WriteFile(*out, []byte(sb.String()), 0o644); err != nil {
		fmt.Fprintln(os.Stderr, err)
		os.Exit(1)
	}
	// a JSON side file for the check: the skeleton of every method, for the replay of a failing lemma
	var js strings.Builder
	js.WriteString("[")
	for i, it := range items {
		if i > 0 {
			js.WriteString(",")
		}
		sj, _ := json.Marshal(it.secs)
		fmt.Fprintf(&js, "{\"type\":%q,\"method\":%q,\"skeleton\":%q,\"paths\":%s}", it.typ, it.name, it.coq, sj)
	}
	js.WriteString("]")
	_ = os.WriteFile(strings.TrimSuffix(*out, ".v")+".json", []byte(js.String()), 0o644)
}
