package chrono_test

import (
	"testing"
	"time"

	"github.com/kercylan98/minotaur/toolkit/chrono"
)

// a cron expression that has no future occurrence (30 February): the wheel returns no timer
func TestFindingC08CronWithoutOccurrence(t *testing.T) {
	s := chrono.NewScheduler(chrono.DefaultSchedulerTick, chrono.DefaultSchedulerWheelSize)
	s.RegisterCronTask("never", "0 0 30 2 *", func() {})
	time.Sleep(20 * time.Millisecond)
	func() {
		defer func() {
			if r := recover(); r != nil {
				t.Errorf("UnregisterTask panicked: %v", r)
			}
		}()
		s.UnregisterTask("never")
	}()
	s.RegisterCronTask("never2", "0 0 30 2 *", func() {})
	func() {
		defer func() {
			if r := recover(); r != nil {
				t.Errorf("Close panicked: %v", r)
			}
		}()
		s.Close()
	}()
}
