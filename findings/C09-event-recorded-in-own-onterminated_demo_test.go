package vivid_test

// Demonstration for fix "the journal is written after the actor has handled its own OnTerminated" (C09): an actor that
// records an event while handling its own OnTerminated lost that event when it was stopped (tryTerminated persisted BEFORE
// the handler ran), while the same event recorded during a restart was kept (tryRestarted persists after the handlers).
// Copy into engine/vivid/ and run: go test -run TestDemoC09EventRecordedInOwnOnTerminated ./engine/vivid/
// Fails on the tree before the fix (second generation launches with closes = 0), passes after it.

import (
	"sync/atomic"
	"testing"
	"time"

	"github.com/kercylan98/minotaur/engine/vivid"
)

type demoC09Closed struct{}
type demoC09Query struct{}

func TestDemoC09EventRecordedInOwnOnTerminated(t *testing.T) {
	system := vivid.NewActorSystem()
	defer system.Shutdown(false)
	var launched atomic.Int64
	spawn := func() vivid.ActorRef {
		return system.ActorOfF(func() vivid.Actor {
			closes, sum := 0, 0
			return vivid.FunctionalActor(func(ctx vivid.ActorContext) {
				switch m := ctx.Message().(type) {
				case *vivid.OnLaunch:
					launched.Add(1)
				case int:
					sum += m
					ctx.StateChanged(m)
				case *vivid.OnTerminated:
					if m.TerminatedActor.Equal(ctx.Ref()) {
						closes++
						ctx.StateChanged(demoC09Closed{}) // the last thing the instance does
					}
				case demoC09Closed: // replayed
					closes++
				case demoC09Query:
					ctx.Reply([2]int{sum, closes})
				}
			})
		}, func(d *vivid.ActorDescriptor) {
			d.WithPersistenceName("demo-c09-own-onterminated")
			d.WithPersistenceEventThreshold(1000)
		})
	}
	state := func(ref vivid.ActorRef) [2]int {
		r, err := system.FutureAsk(ref, demoC09Query{}, 5*time.Second).Result()
		if err != nil {
			t.Fatalf("query: %v", err)
		}
		return r.([2]int)
	}
	g1 := spawn()
	system.Tell(g1, 5)
	if s := state(g1); s != [2]int{5, 0} {
		t.Fatalf("first generation: %v", s)
	}
	system.Terminate(g1, true)
	time.Sleep(300 * time.Millisecond)
	g2 := spawn()
	if s := state(g2); s != [2]int{5, 1} {
		t.Fatalf("second generation launched with %v, the first one ended with [5 1] (the event recorded in its own OnTerminated is lost)", s)
	}
}
