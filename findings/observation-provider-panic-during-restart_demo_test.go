package vivid_test

import (
	"fmt"
	"sync"
	"testing"
	"time"

	"github.com/kercylan98/minotaur/engine/vivid"
	"github.com/kercylan98/minotaur/engine/vivid/supervision"
	"github.com/kercylan98/minotaur/toolkit/log"
)

// Observation (outside the kernel model, whose provider never fails): the actor PROVIDER panics while a restart is being
// completed. tryRestarted has already delivered OnTerminate and OnTerminated to the old instance; the panic escapes, ReportAbnormal
// ignores an actor that is not alive, the status stays "restarting" with the OLD instance installed. A terminate request then
// makes that instance handle OnTerminate and OnTerminated a second time — after its own OnTerminated.
type ppRec struct {
	mu  sync.Mutex
	log map[int][]string
}

func (r *ppRec) add(inst int, s string) {
	r.mu.Lock()
	r.log[inst] = append(r.log[inst], s)
	r.mu.Unlock()
}

func TestObservationProviderPanicDuringRestart(t *testing.T) {
	sys := vivid.NewActorSystem(vivid.FunctionalActorSystemConfigurator(func(c *vivid.ActorSystemConfiguration) {
		c.WithLoggerProvider(log.FunctionalLoggerProvider(func() *log.Logger { return log.NewSilentLogger() }))
	}))
	rec := &ppRec{log: map[int][]string{}}
	n := 0
	provider := vivid.FunctionalActorProvider(func() vivid.Actor {
		n++
		inst := n
		if inst == 2 {
			panic("provider fails for the second instance")
		}
		return vivid.FunctionalActor(func(ctx vivid.ActorContext) {
			switch m := ctx.Message().(type) {
			case string:
				rec.add(inst, "user:"+m)
				if m == "fail" {
					panic("scripted failure")
				}
			default:
				rec.add(inst, fmt.Sprintf("%T", m))
			}
		})
	})
	restart := supervision.FunctionalStrategyProvider(func() supervision.Strategy {
		return supervision.FunctionalStrategy(func(record *supervision.AccidentRecord) { record.Supervisor.Restart(record.Victim) })
	})
	ref := sys.ActorOf(provider, vivid.FunctionalActorDescriptorConfigurator(func(d *vivid.ActorDescriptor) {
		d.WithName("v").WithSupervisionStrategyProvider(restart)
	}))
	sys.Tell(ref, "fail")
	time.Sleep(300 * time.Millisecond)
	sys.Terminate(ref, false)
	time.Sleep(300 * time.Millisecond)
	rec.mu.Lock()
	trace := append([]string{}, rec.log[1]...)
	rec.mu.Unlock()
	t.Logf("instance 1 handled %v", trace)
	own := 0
	for i, s := range trace {
		if s == "*vivid.OnTerminated" {
			own++
			if i != len(trace)-1 {
				t.Errorf("instance 1 handled %v after its own OnTerminated (full trace %v)", trace[i+1:], trace)
				break
			}
		}
	}
	done := make(chan struct{})
	go func() { sys.Shutdown(false); close(done) }()
	select {
	case <-done:
	case <-time.After(5 * time.Second):
		t.Log("Shutdown did not return within 5 s")
	}
}
