package vivid_test

// OBSERVATION outside the 20 properties (DESIGN.md §7.4): ActorSystem.ActorOf runs on the CALLER's goroutine but writes the
// guard context's children table; when a top-level actor terminates at the same time the guard's own goroutine reads and
// deletes from that table (onTerminated) — "fatal error: concurrent map read and map write", the process dies.
// Copy into engine/vivid/ and run with -run TestObservationSystemActorOfRacesWithGuard (expect a fatal runtime error within
// a few thousand rounds on a multi-core machine).

import (
	"fmt"
	"testing"

	"github.com/kercylan98/minotaur/engine/vivid"
	"github.com/kercylan98/minotaur/toolkit/log"
)

type obsIdle struct{}

func (obsIdle) OnReceive(ctx vivid.ActorContext) {}

func TestObservationSystemActorOfRacesWithGuard(t *testing.T) {
	sys := vivid.NewActorSystem(vivid.FunctionalActorSystemConfigurator(func(c *vivid.ActorSystemConfiguration) {
		c.WithLoggerProvider(log.FunctionalLoggerProvider(func() *log.Logger { return log.NewSilentLogger() }))
	}))
	defer sys.Shutdown(false)
	for i := 0; i < 20000; i++ {
		ref := sys.ActorOfF(func() vivid.Actor { return obsIdle{} }, func(d *vivid.ActorDescriptor) { d.WithName(fmt.Sprintf("o%d", i)) })
		sys.Terminate(ref, false) // the guard handles the notice on its own goroutine while the next ActorOf writes the table
	}
}
