package vivid_test

import (
	"fmt"
	"runtime"
	"sync"
	"sync/atomic"
	"testing"

	"github.com/kercylan98/minotaur/engine/vivid"
	"github.com/kercylan98/minotaur/toolkit/log"
)

// Finding C03-message-before-onlaunch: a message sent to the (predictable) address of a child while its parent is still
// inside ActorOf — the address is registered before OnLaunch is queued — is handled before the child's OnLaunch.
type lfChild struct{ first *atomic.Value }

func (c *lfChild) OnReceive(ctx vivid.ActorContext) {
	c.first.CompareAndSwap(nil, fmt.Sprintf("%T", ctx.Message()))
	if m, ok := ctx.Message().(string); ok && m == "sync" {
		ctx.Reply("ok")
	}
}

type lfSpawn struct {
	name  string
	first *atomic.Value
	done  chan vivid.ActorRef
}

type lfParent struct{}

func (p *lfParent) OnReceive(ctx vivid.ActorContext) {
	if m, ok := ctx.Message().(*lfSpawn); ok {
		m.done <- ctx.ActorOfF(func() vivid.Actor { return &lfChild{first: m.first} }, func(d *vivid.ActorDescriptor) { d.WithName(m.name) })
	}
}

func TestFindingC03MessageBeforeOnLaunch(t *testing.T) {
	sys := vivid.NewActorSystem(vivid.FunctionalActorSystemConfigurator(func(c *vivid.ActorSystemConfiguration) {
		c.WithLoggerProvider(log.FunctionalLoggerProvider(func() *log.Logger { return log.NewSilentLogger() }))
	}))
	defer sys.Shutdown(false)
	parent := sys.ActorOfF(func() vivid.Actor { return &lfParent{} }, func(d *vivid.ActorDescriptor) { d.WithName("p") })
	bad := 0
	const rounds = 3000
	for i := 0; i < rounds; i++ {
		name := fmt.Sprintf("c%d", i)
		first := &atomic.Value{}
		target := vivid.NewActorRef(sys.PhysicalAddress(), "/user/p/"+name)
		var wg sync.WaitGroup
		stop := make(chan struct{})
		wg.Add(1)
		go func() {
			defer wg.Done()
			for {
				select {
				case <-stop:
					return
				default:
					sys.Tell(target, "early")
					runtime.Gosched()
				}
			}
		}()
		req := &lfSpawn{name: name, first: first, done: make(chan vivid.ActorRef, 1)}
		sys.Tell(parent, req)
		ref := <-req.done
		close(stop)
		wg.Wait()
		sys.FutureAsk(ref, "sync").Wait()
		if k, _ := first.Load().(string); k != "*vivid.OnLaunch" {
			bad++
			if bad <= 3 {
				t.Logf("round %d: first message handled by the new actor was %s", i, k)
			}
		}
	}
	if bad > 0 {
		t.Fatalf("%d of %d new actors handled a user message before their OnLaunch", bad, rounds)
	}
}
