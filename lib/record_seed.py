#!/usr/bin/env python3
"""record_seed.py --id ID --prop Cxx --patch P --demo FILE_OR_DIR [--demo ...] --pkg ./engine/vivid/ --run TestPattern --needs TEXT [--checks C01,C02]
Confirms a seeded change in a scratch worktree of /repo HEAD (demo passes without / fails with the change, build and the
stable tests still pass, which checks report it) and stores it as /verif/seeded/<ID>/."""
import argparse, json, os, shutil, subprocess, sys, re, time
ap = argparse.ArgumentParser()
ap.add_argument("--id", required=True); ap.add_argument("--prop", required=True); ap.add_argument("--patch", required=True)
ap.add_argument("--demo", action="append", default=[]); ap.add_argument("--pkg", default="")
ap.add_argument("--run", default="Test"); ap.add_argument("--needs", default=""); ap.add_argument("--checks", default="")
ap.add_argument("--tests", default="vivid"); ap.add_argument("--demo-timeout", default="600"); ap.add_argument("--tags", default=""); ap.add_argument("--race", action="store_true")
a = ap.parse_args()
ENV = dict(os.environ, GOFLAGS="-mod=mod", GOPROXY="off", GOSUMDB="off", GOTOOLCHAIN="local")
W = "/tmp/seedval-%d" % os.getpid()
def sh(cmd, cwd=None, timeout=3000):
    p = subprocess.run(cmd, shell=True, cwd=cwd, env=ENV, capture_output=True, text=True, timeout=timeout)
    return p.returncode, (p.stdout + p.stderr)
sh("git -C /repo worktree add --detach %s HEAD -q" % W)
meta = {"id": a.id, "property": a.prop, "needs_to_manifest": a.needs, "repo_head": sh("git -C /repo log --format=%h -1")[1].strip(), "ran": []}
try:
    def demo(tag):
        out = []
        rc_all = 0
        for d in a.demo:
            if os.path.isdir(d):
                tmp = W + "-demo"; shutil.rmtree(tmp, ignore_errors=True); shutil.copytree(d, tmp)
                gm = open(tmp + "/go.mod").read(); gm = re.sub(r"=> /tmp/seed-\w+", "=> " + W, gm); open(tmp + "/go.mod", "w").write(gm)
                if os.path.exists(W + "/go.sum"): shutil.copy(W + "/go.sum", tmp + "/go.sum")
                rc, o = sh("timeout %s go test -count=1 -vet=off -run '%s' ." % (a.demo_timeout, a.run), cwd=tmp)
                shutil.rmtree(tmp, ignore_errors=True)
            else:
                dst = os.path.join(W, a.pkg, "zz_seed_" + os.path.basename(d))
                shutil.copy(d, dst)
                rc, o = sh("timeout %s go test -count=1 -vet=off %s %s -run '%s' %s" % (a.demo_timeout, "-race" if a.race else "", ("-tags " + a.tags) if a.tags else "", a.run, a.pkg), cwd=W)
                os.remove(dst)
            rc_all |= (1 if rc else 0)
            out.append(o[-1500:])
        meta["ran"].append({"what": "demonstration %s the change" % tag, "rc": rc_all, "tail": [re.sub(r"\x1b\[[0-9;]*m", "", x)[-600:] for x in out]})
        return rc_all
    rc0 = demo("WITHOUT")
    rc, o = sh("git apply %s" % a.patch, cwd=W)
    if rc: print("PATCH DOES NOT APPLY", o); sys.exit(2)
    rcb, ob = sh("go build ./engine/... ./toolkit/...", cwd=W)
    meta["ran"].append({"what": "go build ./engine/... ./toolkit/... with the change", "rc": rcb, "tail": ob[-300:]})
    tests = {"vivid": "go test -count=1 -vet=off -run 'TestActorContext_|TestActorDescriptor_WithPersistence|TestActorDescriptor_WithSlowProcessingDuration' ./engine/vivid/ && go test -count=1 -vet=off ./engine/vivid/typed/test/"}.get(a.tests, a.tests)
    rct, ot = sh("timeout 900 " + tests if not tests.startswith("go test -count=1 -vet=off -run 'TestActorContext_") else tests, cwd=W)
    meta["ran"].append({"what": "existing tests with the change: " + tests, "rc": rct, "tail": ot[-400:]})
    rc1 = demo("WITH")
    checks = (a.checks.split(",") if a.checks else [a.prop])
    det = {}
    for c in checks:
        t0 = time.time()
        rc, o = sh("VERIF_REPO=%s timeout 2400 bin/check %s" % (W, c), cwd="/verif")
        lines = [l for l in o.splitlines() if l.startswith("VIOLATION") or l.startswith(c + " tier")]
        det[c] = {"exit": rc, "lines": [l[:260] for l in lines], "wall_s": round(time.time() - t0, 1)}
    meta["checks"] = det
    meta["confirmed"] = bool(rc0 == 0 and rc1 != 0 and rcb == 0 and rct == 0)
    meta["detected_by"] = [c for c in det if det[c]["exit"] == 1]
    D = "/verif/seeded/" + a.id
    os.makedirs(D, exist_ok=True)
    shutil.copy(a.patch, D + "/patch.diff")
    for d in a.demo:
        if os.path.isdir(d): shutil.copytree(d, D + "/demo_" + os.path.basename(d.rstrip("/")), dirs_exist_ok=True)
        else: shutil.copy(d, D + "/" + os.path.basename(d))
    json.dump(meta, open(D + "/meta.json", "w"), indent=1)
    print(a.id, "confirmed" if meta["confirmed"] else "NOT CONFIRMED (demo without rc=%s with rc=%s build=%s tests=%s)" % (rc0, rc1, rcb, rct), "detected_by", meta["detected_by"])
    for c in det: print("  ", c, det[c]["exit"], det[c]["lines"][:2])
finally:
    sh("git -C /repo worktree remove --force %s" % W)
