# Data for MANIFEST.json (edit here, then run lib/mkmanifest.py).
HOOK_COMMITS = ["50b8633", "a5b2280", "2f4e342", "1984692"]
# properties whose check is registered (their MANIFEST dict is taken from checks/cXX.py unless given in CHECKS below)
READY = ["C01", "C02", "C03", "C04", "C05", "C06", "C07", "C09", "C10", "C11", "C12", "C13", "C14", "C15", "C16", "C17", "C18", "C19", "C20"]
NOTES = ("Deciding technique for every claimed property: machine-checked proof in Coq 8.16.1 about an executable model, "
         "tied to /repo's working tree on every run by a checked correspondence (see DESIGN.md §2-§3). "
         "known_findings.json lists open findings and fix: commits.")
PENDING = "check not built yet in this round (work in progress, see DESIGN.md §9 order of work); the technique applies and the property will be claimed"
NOT_APPLICABLE = {("C%02d" % i): PENDING for i in range(1, 21)}

CHECKS = {
 "C15": {
  "text": "Theorem C15_ring_refines_fifo (Coq, by induction over the operation list with a representation invariant): for every initial "
          "capacity and every operation sequence the ring buffer model — which transcribes ring.go's cursor arithmetic, growth and "
          "wrap-around — returns exactly the outputs of a FIFO list. The model is tied to the current ring.go by differential runs "
          "(3 000 random op sequences quick; +177 k exhaustive short sequences thorough) evaluated inside Coq with vm_compute. "
          "Other containers of C15 (queues, unbounded buffers/channels) are being added.",
  "note": "Trusted: Coq kernel + vm_compute; the hand-written model's correspondence is sampled, not proved; Go harness, generators, "
          "FIFO monitor and driver. No axioms (Print Assumptions: closed under the global context).",
  "technique": "Coq proof (refinement to FIFO list by invariant induction) + differential correspondence check model vs implementation",
 },
}
