# Data for MANIFEST.json (edit here, then run lib/mkmanifest.py).
HOOK_COMMITS = ["50b8633", "a5b2280", "2f4e342", "1984692"]
# properties whose check is registered (their MANIFEST dict is taken from checks/cXX.py unless given in CHECKS below)
READY = ["C01", "C02", "C03", "C04", "C05", "C06", "C07", "C08", "C09", "C10", "C11", "C12", "C13", "C14", "C15", "C16", "C17", "C18", "C19", "C20"]
NOTES = ("Deciding technique for every claimed property: machine-checked proof in Coq 8.16.1 about an executable model, "
         "tied to /repo's working tree on every run by a checked correspondence (see DESIGN.md §2-§3). "
         "known_findings.json lists open findings and fix: commits. Wherever a check's text says 'needs fixes/<name>.patch': every patch under "
         "fixes/ is applied in /repo as a fix: commit (fixes/README.md); the phrase describes what the check reports on a tree without it.")
PENDING = "check under construction at the time of this commit (model coq/C08, harness cmd/c08actor exist, not yet registered); the technique applies and the property will be claimed"
NOT_APPLICABLE = {("C%02d" % i): PENDING for i in range(1, 21)}

CHECKS = {}   # every MANIFEST dict lives in checks/cXX.py
