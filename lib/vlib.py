# vlib — shared driver code for /verif/bin/check (python3, standard library only).
#
# A check = (1) proof step: build the Coq development and re-check the property's Properties file,
# counting theorems and reading Print Assumptions; (2) correspondence step: build the Go harness
# against /repo's *current working tree*, run it, evaluate the recorded runs against the Coq model
# (vm_compute inside coqc, sharded over the cores), run the Go-side monitors; (3) decision and evidence.
import concurrent.futures as cf
import fcntl
import glob
import hashlib
import json
import os
import re
import shutil
import subprocess
import sys
import time

VERIF = os.path.dirname(os.path.dirname(os.path.abspath(__file__)))
REPO = os.environ.get("VERIF_REPO", "/repo")
COQ = os.path.join(VERIF, "coq")
NCPU = os.cpu_count() or 4

GOENV = dict(os.environ, GOFLAGS="-mod=mod", GOPROXY="off", GOSUMDB="off", GOTOOLCHAIN="local",
             CGO_ENABLED="0", GOCACHE=os.environ.get("GOCACHE", "/var/tmp/verif-gocache"))

ALLOWED_AXIOM_PREFIXES = (
    # axioms declared by the Coq standard library itself; each one that shows up is named in the evidence
    "Coq.", "FloatAxioms.", "PrimFloat.", "Uint63.", "ClassicalDedekindReals.", "FunctionalExtensionality.",
    "Classical_Prop.", "functional_extensionality_dep", "sig_forall_dec", "sig_not_dec", "classic",
    "Eqdep.", "JMeq", "proof_irrelevance", "Rdefinitions", "Raxioms", "ClassicalEpsilon", "constructive_indefinite_description",
    "mul_spec", "add_spec", "sub_spec", "div_spec", "opp_spec", "abs_spec", "ltb_spec", "leb_spec", "eqb_spec", "compare_spec",
    "of_uint63_spec", "Prim2SF", "SF2Prim", "sqrt_spec", "normfr_mantissa_spec", "frshiftexp_spec", "ldshiftexp_spec",
    "next_up_spec", "next_down_spec", "classify_spec", "Prim2SF_valid", "SF2Prim_Prim2SF", "Prim2SF_SF2Prim", "opp_spec",
    "of_int63_spec", "to_Z", "PrimInt63", "Uint63Axioms", "Sint63",
)


class CheckError(Exception):
    pass


def sh(cmd, cwd=None, env=None, timeout=None, check=False):
    t0 = time.time()
    try:
        p = subprocess.run(cmd, cwd=cwd, env=env, timeout=timeout, capture_output=True, text=True,
                           shell=isinstance(cmd, str))
        rc, out, err = p.returncode, p.stdout, p.stderr
    except subprocess.TimeoutExpired as e:
        rc, out, err = 124, (e.stdout or b"").decode(errors="replace") if isinstance(e.stdout, bytes) else (e.stdout or ""), "TIMEOUT after %ss" % timeout
    if check and rc != 0:
        raise CheckError("command failed (%s): %s\n%s\n%s" % (rc, cmd, out[-2000:], err[-4000:]))
    return rc, out, err, time.time() - t0


class Ctx:
    """State of one run of one property's check."""

    def __init__(self, prop, tier, seed):
        self.prop = prop
        self.tier = tier
        self.seed = seed
        self.t0 = time.time()
        self.scratch = "/var/tmp/verif-%s-%d" % (prop, os.getpid())
        shutil.rmtree(self.scratch, ignore_errors=True)
        os.makedirs(self.scratch)
        os.makedirs(GOENV["GOCACHE"], exist_ok=True)
        self.obligations = 0
        self.discharged = 0
        self.theorems = []          # names
        self.axioms = {}            # theorem -> [axioms]
        self.refuted = []           # names of *_refuted theorems (statement false of the faithful model: findings)
        self.partial = []
        self.proof_errors = []      # broken obligations (text)
        self.trusted = []
        self.assumptions = []
        self.subs = []              # summaries of sub-harnesses
        self.mismatch = []          # (sub, case_id) where model and implementation disagree
        self.viol = []              # monitor hits (dicts)
        self.known_hits = {}        # finding id -> count
        self.notes = []
        self.extra = {}
        self.coq_cases = 0
        self.level = "proof"
        self.harnesses = []
        self.other_hits = {}

    def cleanup(self):
        shutil.rmtree(self.scratch, ignore_errors=True)


# ------------------------------------------------------------------------------------------ Coq

def coq_files(dirs=None):
    out = []
    roots = [COQ] if not dirs else [os.path.join(COQ, d) for d in dirs]
    for root, _, files in [x for r in roots for x in os.walk(r)]:
        for f in files:
            if f.endswith(".v") and not f.startswith("."):
                out.append(os.path.join(root, f))
    return sorted(out)


FORBIDDEN = re.compile(r"\b(Admitted|admit|Axiom|Axioms|Parameter|Parameters|Conjecture|Conjectures|Admit Obligations|"
                       r"Unset Guard Checking|Unset Positivity Checking|Unset Universe Checking|bypass_check|"
                       r"type-in-type|impredicative-set)\b")


def strip_comments(src):
    out, depth, i = [], 0, 0
    while i < len(src):
        if src.startswith("(*", i):
            depth += 1
            i += 2
        elif src.startswith("*)", i) and depth:
            depth -= 1
            i += 2
        else:
            if not depth:
                out.append(src[i])
            elif src[i] == "\n":
                out.append("\n")
            i += 1
    return "".join(out)


def forbidden_scan(dirs=None):
    """No Admitted/admit/Axiom/Parameter/..., and no Variable/Hypothesis outside a Section
    (in the listed directories of the development, all of it when dirs is None)."""
    bad = []
    for f in coq_files(dirs):
        src = strip_comments(open(f).read())
        stack = []
        for ln, line in enumerate(src.split("\n"), 1):
            m = FORBIDDEN.search(line)
            if m:
                bad.append("%s:%d: %s" % (os.path.relpath(f, VERIF), ln, m.group(0)))
            s = line.strip()
            if re.match(r"Section\s+\w+\s*\.", s):
                stack.append("S")
            elif re.match(r"Module\s+(Type\s+)?\w+[^=]*\.\s*$", s) and ":=" not in s:
                stack.append("M")
            elif re.match(r"End\s+\w+\s*\.", s) and stack:
                stack.pop()
            elif "S" not in stack and re.match(r"(Variable|Variables|Hypothesis|Hypotheses|Context)\b", s):
                bad.append("%s:%d: %s outside a section" % (os.path.relpath(f, VERIF), ln, s.split()[0]))
    return bad


def gen_coqproject():
    """coq/_CoqProject is assembled from coq/<Dir>/FILES (one .v path per line, dependency order irrelevant)."""
    lines = ["-Q . MV", "-arg -w -arg -notation-overridden,-deprecated-hint-without-locality,-deprecated-instance-without-locality,-ambiguous-paths"]
    for d in sorted(os.listdir(COQ)):
        fl = os.path.join(COQ, d, "FILES")
        if os.path.isfile(fl):
            for l in open(fl):
                l = l.strip()
                if l and not l.startswith("#"):
                    rel = d + "/" + l if "/" not in l else l
                    if os.path.exists(os.path.join(COQ, rel)):
                        lines.append(rel)
    txt = "\n".join(lines) + "\n"
    p = os.path.join(COQ, "_CoqProject")
    if not os.path.exists(p) or open(p).read() != txt:
        open(p, "w").write(txt)
        return True
    return False


def dir_files(d):
    fl = os.path.join(COQ, d, "FILES")
    out = []
    for l in open(fl):
        l = l.strip()
        if l and not l.startswith("#"):
            out.append(d + "/" + l if "/" not in l else l)
    return out


def coq_make(ctx, dirs=None, timeout=3000):
    """Full .vo build (never -vos) of the listed directories of the development and what they depend on
    (all of it when dirs is None); incremental after setup. Serialised by a lock."""
    lock = open(os.path.join(COQ, ".lock"), "w")
    fcntl.flock(lock, fcntl.LOCK_EX)
    try:
        changed = gen_coqproject()
        if changed or not os.path.exists(os.path.join(COQ, "Makefile")):
            sh("coq_makefile -f _CoqProject -o Makefile", cwd=COQ, check=True)
        targets = []
        if dirs:
            for d in dirs:
                targets += [f[:-2] + ".vo" for f in dir_files(d)]
        rc, out, err, dt = sh(["make", "-j%d" % NCPU] + targets, cwd=COQ, timeout=timeout)
        if rc != 0:
            ctx.proof_errors.append("make failed:\n" + (out + err)[-3000:])
        return rc == 0
    finally:
        fcntl.flock(lock, fcntl.LOCK_UN)
        lock.close()


def coq_properties(ctx, relfile):
    """Re-check coq/<relfile> (contains only Theorem ... Proof. exact lemma. Qed. + Print Assumptions)."""
    path = os.path.join(COQ, relfile)
    src = strip_comments(open(path).read())
    names = re.findall(r"^\s*(?:Theorem|Lemma|Corollary)\s+(\w+)", src, re.M)
    asked = re.findall(r"Print Assumptions\s+(\w+)\s*\.", src)
    chk = os.path.join(ctx.scratch, "chk_" + os.path.dirname(relfile).replace("/", "_"))
    os.makedirs(chk, exist_ok=True)
    shutil.copy(path, chk)
    rc, out, err, dt = sh(["coqc", "-Q", COQ, "MV", os.path.join(chk, os.path.basename(relfile))], cwd=chk, timeout=1800)
    if rc != 0:
        ctx.proof_errors.append("coqc %s failed:\n%s" % (relfile, (out + err)[-3000:]))
        ctx.obligations += len(names)
        return
    # split output into answers of the successive Print Assumptions commands
    blocks = re.split(r"(?=Closed under the global context|Axioms:)", out)
    answers = [b for b in blocks if b.startswith("Closed under") or b.startswith("Axioms:")]
    ctx.obligations += len(names)
    if len(answers) != len(asked) or set(asked) != set(names):
        ctx.proof_errors.append("%s: %d theorems, %d Print Assumptions, %d answers — every theorem needs one" %
                                (relfile, len(names), len(asked), len(answers)))
        return
    for name, ans in zip(asked, answers):
        ctx.theorems.append(name)
        if name.endswith("_refuted") or "_refuted_" in name:
            ctx.refuted.append(name)
        if name.endswith("_partial") or "_partial_" in name:
            ctx.partial.append(name)
        if ans.startswith("Closed under"):
            ctx.discharged += 1
            ctx.axioms[name] = []
        else:
            ax = re.findall(r"^([\w.']+)\s*:", ans[len("Axioms:"):], re.M)
            ctx.axioms[name] = ax
            foreign = [a for a in ax if not a.startswith(ALLOWED_AXIOM_PREFIXES) and not any(p in a for p in ALLOWED_AXIOM_PREFIXES)]
            if foreign:
                ctx.proof_errors.append("%s depends on axioms not declared by the standard library: %s" % (name, foreign))
            else:
                ctx.discharged += 1


def coqchk(ctx, modules, timeout=3000):
    """Independent re-check of compiled files (thorough tier)."""
    lock = open(os.path.join(COQ, ".lock"), "w")
    fcntl.flock(lock, fcntl.LOCK_EX)
    try:
        rc, out, err, dt = sh(["coqchk", "-silent", "-o", "-Q", COQ, "MV"] + modules, cwd=COQ, timeout=timeout)
    finally:
        fcntl.flock(lock, fcntl.LOCK_UN)
        lock.close()
    ctx.extra["coqchk"] = {"modules": modules, "rc": rc, "wall_s": round(dt, 1), "tail": (out + err)[-1500:]}
    if rc != 0:
        ctx.proof_errors.append("coqchk failed on %s:\n%s" % (modules, (out + err)[-2000:]))


class machine_slot:
    """Machine-wide limit on concurrently running model evaluations (several checks may run at once):
    one of NSLOTS lock files under /var/tmp is held while a shard is evaluated."""
    NSLOTS = max(4, NCPU + NCPU // 2)

    def __enter__(self):
        import random
        d = "/var/tmp/verif-slots"
        os.makedirs(d, exist_ok=True)
        order = list(range(self.NSLOTS))
        random.shuffle(order)
        while True:
            for k in order:
                f = open(os.path.join(d, "slot%d" % k), "w")
                try:
                    fcntl.flock(f, fcntl.LOCK_EX | fcntl.LOCK_NB)
                    self.f = f
                    return self
                except OSError:
                    f.close()
            time.sleep(0.05 + random.random() * 0.1)

    def __exit__(self, *a):
        fcntl.flock(self.f, fcntl.LOCK_UN)
        self.f.close()


def run_shards(ctx, outdir, shards, timeout=900):
    """coqc every cases shard in parallel; return list of mismatching case ids per shard file."""
    res = {}

    def one(s):
        with machine_slot():
            rc, out, err, dt = sh(["coqc", "-Q", COQ, "MV", os.path.join(outdir, s)], cwd=outdir, timeout=timeout)
        if rc != 0:
            return s, None, (out + err)[-1500:]
        m = re.search(r"Mids\s*=(.*?):\s*list", out, re.S)
        if not m:
            return s, None, "cannot parse: " + out[-500:]
        return s, [int(x) for x in re.findall(r"(\d+)%nat", m.group(1))], ""

    with cf.ThreadPoolExecutor(max_workers=NCPU) as ex:
        for s, ids, msg in ex.map(one, shards):
            res[s] = (ids, msg)
    return res


# ------------------------------------------------------------------------------------------ Go

def harness_modfile(ctx):
    """go.mod of the harness with the replace directive pointing at the tree under test."""
    src = open(os.path.join(VERIF, "harness", "go.mod")).read()
    src = src.replace("=> /repo", "=> " + REPO)
    hdir = os.path.join(ctx.scratch, "hmod")
    os.makedirs(hdir, exist_ok=True)
    mf = os.path.join(hdir, "go.mod")
    open(mf, "w").write(src)
    shutil.copy(os.path.join(REPO, "go.sum"), os.path.join(hdir, "go.sum"))
    return mf


def go_build(ctx, pkg, name=None, tags="verif", go="go", race=False, test=False, extra=None):
    """Build ./cmd/<pkg> of the harness module against REPO's working tree. Returns binary path."""
    name = name or pkg.replace("/", "_")
    out = os.path.join(ctx.scratch, name)
    mf = harness_modfile(ctx)
    cmd = [go, "test", "-c"] if test else [go, "build"]
    cmd += ["-modfile=" + mf, "-tags", tags, "-o", out]
    if race:
        cmd.append("-race")
    cmd += extra or []
    cmd.append("./cmd/" + pkg if not pkg.startswith("./") else pkg)
    env = dict(GOENV)
    if race:
        env["CGO_ENABLED"] = "1"
    rc, o, e, dt = sh(cmd, cwd=os.path.join(VERIF, "harness"), env=env, timeout=1200)
    if rc != 0:
        raise CheckError("harness build failed (%s):\n%s" % (pkg, (o + e)[-4000:]))
    return out


def t2_build(ctx, name, pkg, sources, template_dir, rewrites=None, go="go"):
    """Tie T2: copy the CURRENT text of the listed source files of REPO into a scratch package, redirecting the
    imports of sync/atomic, sync and toolkit/queues to the shims (harness/shim), add the property's driver
    (harness/t2/<template_dir>/driver.go.txt, main.go.txt) and build it. Returns the binary path."""
    rw = {'"sync/atomic"': 'atomic "verif/harness/shim/atomic"',
          '"github.com/kercylan98/minotaur/toolkit/queues"': 'queues "verif/harness/shim/queues"'}
    rw.update(rewrites or {})
    root = os.path.join(ctx.scratch, "t2_" + name)
    pdir = os.path.join(root, pkg)
    os.makedirs(pdir, exist_ok=True)
    for rel in sources:
        src = open(os.path.join(REPO, rel)).read()
        for a, b in rw.items():
            src = src.replace(a, b)
        open(os.path.join(pdir, os.path.basename(rel)), "w").write(src)
    tdir = os.path.join(VERIF, "harness", "t2", template_dir)
    shutil.copy(os.path.join(tdir, "driver.go.txt"), os.path.join(pdir, "zz_verif_driver.go"))
    shutil.copy(os.path.join(tdir, "main.go.txt"), os.path.join(root, "main.go"))
    gomod = open(os.path.join(REPO, "go.mod")).read()
    req = gomod[gomod.index("require"):]
    open(os.path.join(root, "go.mod"), "w").write(
        "module t2scratch\n\ngo 1.23.0\n\nrequire github.com/kercylan98/minotaur v0.0.0\nrequire verif/harness v0.0.0\n"
        "replace github.com/kercylan98/minotaur => %s\nreplace verif/harness => %s\n%s" % (REPO, os.path.join(VERIF, "harness"), req))
    shutil.copy(os.path.join(REPO, "go.sum"), os.path.join(root, "go.sum"))
    out = os.path.join(ctx.scratch, "t2bin_" + name)
    rc, o, e, dt = sh([go, "build", "-o", out, "."], cwd=root, env=GOENV, timeout=1200)
    if rc != 0:
        raise CheckError("T2 build of instrumented %s failed (does the current source still fit the shims?):\n%s" % (name, (o + e)[-4000:]))
    return out


def run_harness(ctx, binary, sub, args=None, timeout=1800, coq=True, env=None, kinds=None):
    """Run one sub-harness, then evaluate its shards in Coq. Fills ctx.subs / ctx.viol / ctx.mismatch."""
    outdir = os.path.join(ctx.scratch, "out_" + sub)
    os.makedirs(outdir, exist_ok=True)
    cmd = [binary, "-out", outdir, "-seed", str(ctx.seed), "-tier", ctx.tier] + (args or [])
    ctx.harnesses.append((binary, sub, list(args or []), env, kinds))
    rc, o, e, dt = sh(cmd, timeout=timeout, env=env)
    if rc != 0:
        raise CheckError("harness %s failed rc=%s:\n%s" % (sub, rc, (o + e)[-4000:]))
    sums = sorted(glob.glob(os.path.join(outdir, "*_summary.json")))
    if not sums:
        raise CheckError("harness %s wrote no summary" % sub)
    for sp in sums:
        s = json.load(open(sp))
        s["_outdir"] = outdir
        s["wall_s"] = round(dt, 2)
        ctx.subs.append(s)
        for v in s.get("violations") or []:
            # kinds: only monitor hits of these kinds concern this property (a harness may serve several)
            if kinds is None or any(v.get("kind", "").startswith(k) for k in kinds):
                ctx.viol.append(v)
            else:
                ctx.other_hits[v.get("kind")] = ctx.other_hits.get(v.get("kind"), 0) + 1
        if coq and s.get("shards"):
            t1 = time.time()
            res = run_shards(ctx, outdir, s["shards"])
            s["coq_wall_s"] = round(time.time() - t1, 2)
            for shard, (ids, msg) in res.items():
                if ids is None:
                    ctx.proof_errors.append("model evaluation of %s failed: %s" % (shard, msg))
                else:
                    for i in ids:
                        ctx.mismatch.append((s["sub"], i))
            ctx.coq_cases += s["evaluations"]
    return outdir


def load_case(outdir, sub, case_id):
    p = os.path.join(outdir, sub + "_cases.jsonl")
    with open(p) as f:
        for line in f:
            if line.startswith('{"id":%d,' % case_id):
                return json.loads(line)["case"]
    return None


# ------------------------------------------------------------------------------------------ findings

def known_findings(prop):
    p = os.path.join(VERIF, "known_findings.json")
    if not os.path.exists(p):
        return []
    d = json.load(open(p))
    return [f for f in d.get("open", []) if f["property"] == prop]


def match_known(prop, v):
    """A monitor hit is explained by an open finding iff kind matches exactly and every 'where'
    key of the finding equals the same key of the violation's signature."""
    for f in known_findings(prop):
        if f["kind"] != v.get("kind"):
            continue
        sig = v.get("sig") or {}
        if all(sig.get(k) == val for k, val in (f.get("where") or {}).items()):
            return f
    return None


def default_search(ctx, budget_s=None):
    """Failing-input search used when a proof obligation or the correspondence broke but no monitor fired on
    the regular run: re-run every sub-harness of the property at thorough volume under fresh seeds, monitors
    only (no model evaluation), until the time budget is spent. Returns an unexplained monitor hit or None."""
    budget = budget_s or (90 if ctx.tier == "quick" else 600)
    t0 = time.time()
    k = 0
    tried = 0
    while time.time() - t0 < budget and ctx.harnesses:
        k += 1
        for (binary, sub, args, env, kinds) in ctx.harnesses:
            left = budget - (time.time() - t0)
            if left <= 0:
                break
            outdir = os.path.join(ctx.scratch, "search_%s_%d" % (sub, k))
            os.makedirs(outdir, exist_ok=True)
            rc, o, e, dt = sh([binary, "-out", outdir, "-seed", str(ctx.seed + 7919 * k), "-tier", "thorough", "-nocoq"] + args,
                              timeout=max(10, left), env=env)
            for sp in glob.glob(os.path.join(outdir, "*_summary.json")):
                s = json.load(open(sp))
                tried += s.get("evaluations", 0)
                for v in s.get("violations") or []:
                    if kinds is not None and not any(v.get("kind", "").startswith(k) for k in kinds):
                        continue
                    if not match_known(ctx.prop, v):
                        v["search"] = {"seed": ctx.seed + 7919 * k, "tier": "thorough", "inputs_tried": tried}
                        return v
            shutil.rmtree(outdir, ignore_errors=True)
    ctx.extra["search"] = {"inputs_tried": tried, "wall_s": round(time.time() - t0, 1), "found": False}
    return None


def standard_check(ctx, coq_dirs, properties, harnesses, trusted, design_ref, checker_extra="", chk_modules=None, pre=None):
    """The common shape of a check: forbidden-construct scan, build + re-check the theorems, build and run each
    sub-harness against REPO, evaluate the recorded runs in Coq, decide, write evidence.
    harnesses: list of dicts {pkg, sub, args?, go?, race?, coq?, timeout?}"""
    ctx.trusted += trusted
    bad = forbidden_scan(sorted(set(["Lib"] + coq_dirs)))
    if bad:
        ctx.proof_errors.append("forbidden constructs: %s" % bad[:5])
    if coq_make(ctx, ["Lib"] + coq_dirs):
        for pf in ([properties] if isinstance(properties, str) else properties):
            coq_properties(ctx, pf)
    if pre:
        pre(ctx)
    built = {}
    for h in harnesses:
        key = (h["pkg"], h.get("go", "go"), h.get("race", False))
        if key not in built:
            built[key] = go_build(ctx, h["pkg"], go=h.get("go", "go"), race=h.get("race", False), tags=h.get("tags", "verif"))
        run_harness(ctx, built[key], h["sub"], args=h.get("args"), coq=h.get("coq", True), timeout=h.get("timeout", 1800), env=h.get("env"),
                    kinds=h.get("kinds"))
    if ctx.tier == "thorough" and chk_modules:
        coqchk(ctx, chk_modules)
    cmd = "make -C coq (full .vo build) && coqc %s (Print Assumptions per theorem); go build harness/cmd/{%s} against /repo working tree; " \
          "coqc <generated cases shards> (vm_compute) %s" % (properties, ",".join(sorted({h["pkg"] for h in harnesses})), checker_extra)
    return finish(ctx, cmd, design_ref, search=default_search)


def standard_replay(ctx, pkg_for_sub, path):
    d = json.load(open(path))
    sub = d.get("sub")
    pkg = pkg_for_sub.get(sub) or next(iter(pkg_for_sub.values()))
    b = go_build(ctx, pkg)
    rc, out, err, _ = sh([b, "-replay", path], timeout=600)
    print(out.strip())
    if err.strip():
        print(err.strip())
    return rc


# ------------------------------------------------------------------------------------------ decision + evidence

def write_replay(ctx, name, payload):
    d = os.path.join(VERIF, "replays")
    os.makedirs(d, exist_ok=True)
    p = os.path.join(d, "%s-%s-%s.json" % (ctx.prop, ctx.seed, name))
    json.dump(payload, open(p, "w"), indent=1, default=str)
    return p


def finish(ctx, checker_cmd, design_ref="", search=None):
    """Decide, print VIOLATION / KNOWN-FINDING lines, write evidence, return exit code.
    search: optional callable(ctx) -> violation dict or None, run when a proof obligation or the
    correspondence is broken without any monitor hit (the failing-input search)."""
    lines = []
    unexplained = []
    known_seen = {}
    for v in ctx.viol:
        f = match_known(ctx.prop, v)
        if f:
            known_seen.setdefault(f["id"], (f, 0))
            known_seen[f["id"]] = (f, known_seen[f["id"]][1] + 1)
        else:
            unexplained.append(v)
    # every *open* finding is reported on every run (it is a standing, documented defect)
    for f in known_findings(ctx.prop):
        n = known_seen.get(f["id"], (f, 0))[1]
        lines.append("KNOWN-FINDING: property=%s %s [%s; reproduced %d time(s) this run]" % (ctx.prop, f["what"], f["id"], n))
    rc = 0
    nviol = 0
    reported_kinds = set()
    for v in unexplained:
        k = v.get("kind")
        if k in reported_kinds:
            continue
        reported_kinds.add(k)
        p = write_replay(ctx, re.sub(r"[^\w.-]+", "_", k)[:60], {
            "property": ctx.prop, "kind": k, "detail": v.get("detail"), "sub": v.get("sub"), "case": v.get("case"),
            "seed": ctx.seed, "how_to_replay": "bin/check %s --replay <this file>" % ctx.prop})
        lines.append("VIOLATION property=%s replay=%s" % (ctx.prop, p))
        nviol += 1
        rc = 1
    # model/implementation disagreements that no monitor explains, or broken proof obligations
    unexplained_mismatch = []
    viol_cases = {(v.get("sub"), v.get("case_id")) for v in ctx.viol}
    for (sub, cid) in ctx.mismatch:
        if (sub, cid) not in viol_cases:
            unexplained_mismatch.append((sub, cid))
    broken = list(ctx.proof_errors)
    if (unexplained_mismatch or broken) and rc == 0:
        found = search(ctx) if search else None
        if found:
            p = write_replay(ctx, "search", dict(found, property=ctx.prop, seed=ctx.seed))
            lines.append("VIOLATION property=%s replay=%s" % (ctx.prop, p))
        else:
            cases = []
            for (sub, cid) in unexplained_mismatch[:5]:
                for s in ctx.subs:
                    if s["sub"] == sub:
                        cases.append({"sub": sub, "case_id": cid, "case": load_case(s["_outdir"], sub, cid)})
            p = write_replay(ctx, "unproved", {
                "property": ctx.prop, "broken_obligations": broken[:5],
                "correspondence_broken": {"model_vs_implementation_disagreements": len(unexplained_mismatch), "first": cases},
                "note": "the property is no longer shown to hold: the named theorem/correspondence does not check; "
                        "the search found no input on which the property itself fails"})
            lines.append("VIOLATION property=%s replay=%s no-failing-input-found" % (ctx.prop, p))
        nviol += 1
        rc = 1
    elif unexplained_mismatch or broken:
        ctx.notes.append("also: %d unexplained model/impl disagreements, %d broken obligations" % (len(unexplained_mismatch), len(broken)))

    # ---- evidence
    evals = sum(s["evaluations"] for s in ctx.subs)
    dnt = sum(s["distinct_nontrivial"] for s in ctx.subs)
    samples = []
    for s in ctx.subs:
        for x in (s.get("samples") or [])[:2]:
            samples.append({"sub": s["sub"], "case": x})
    all_ax = sorted({a for l in ctx.axioms.values() for a in l})
    tb = ["Coq 8.16.1 kernel + vm_compute (no native_compute)",
          "axioms reported by Print Assumptions: " + (", ".join(all_ax) if all_ax else "none (all theorems closed under the global context)")]
    tb += ctx.trusted
    ev = {
        "property_id": ctx.prop, "tier": ctx.tier, "seed": ctx.seed, "level": ctx.level,
        "coverage": {
            "obligations": ctx.obligations, "discharged": ctx.discharged,
            "checker_cmd": checker_cmd, "trusted_base": tb,
            "theorems": ctx.theorems, "refuted_theorems_ie_findings": ctx.refuted, "partial_theorems": ctx.partial,
            "evaluations": evals, "distinct_nontrivial": dnt,
            "traces_validated_against_impl": ctx.coq_cases,
            "model_impl_disagreements": len(ctx.mismatch),
            "monitor_hits": len(ctx.viol), "monitor_hits_of_other_properties": ctx.other_hits, "known_finding_hits": {k: n for k, (f, n) in known_seen.items()},
            "rule": " || ".join("%s: %s" % (s["sub"], s["rule"]) for s in ctx.subs),
            "samples": samples or [{"note": "proof-only run"}],
            "distribution": {s["sub"]: s.get("distribution") for s in ctx.subs},
            "sub_harnesses": [{k: s.get(k) for k in ("sub", "evaluations", "distinct", "distinct_nontrivial", "malformed", "out_of_fuel", "wall_s", "coq_wall_s")} for s in ctx.subs],
            "exhaustive": False, "notes": ctx.notes, "extra": ctx.extra, "design_ref": design_ref,
        },
        "assumptions": ctx.assumptions,
        "wall_s": round(time.time() - ctx.t0, 2),
        "violations": nviol,
    }
    # the committed evidence describes runs against /repo itself; a run against a scratch copy (VERIF_REPO, used to
    # confirm seeded changes) leaves it alone
    evdir = os.path.join(VERIF, "evidence") if os.path.realpath(REPO) == "/repo" else "/var/tmp/verif-scratch-evidence"
    os.makedirs(evdir, exist_ok=True)
    json.dump(ev, open(os.path.join(evdir, ctx.prop + ".json"), "w"), indent=1, default=str)
    for l in lines:
        print(l)
    print("%s tier=%s seed=%s obligations=%d discharged=%d evaluations=%d nontrivial=%d model-checked=%d disagreements=%d monitor-hits=%d wall=%.1fs => %s" % (
        ctx.prop, ctx.tier, ctx.seed, ctx.obligations, ctx.discharged, evals, dnt, ctx.coq_cases, len(ctx.mismatch), len(ctx.viol),
        time.time() - ctx.t0, "FAIL" if rc else "ok"))
    for e in broken[:3]:
        print("  broken: " + e[:1500])
    return rc
