#!/bin/bash
# validate_seed.sh <PROP> <patch file> [extra props...] : apply a seeded change in a scratch worktree,
# check that it builds and the stable tests of engine/vivid still pass, then run the checks against it.
set -u
PROP=$1; PATCH=$2; shift 2
W=/tmp/val-$$
export GOFLAGS=-mod=mod GOPROXY=off GOSUMDB=off GOTOOLCHAIN=local
git -C /repo worktree add --detach $W HEAD -q || exit 2
if ! git -C $W apply $PATCH; then echo "PATCH DOES NOT APPLY"; git -C /repo worktree remove --force $W; exit 2; fi
(cd $W && go build ./engine/... ./toolkit/... 2>&1 | tail -3)
echo "--- files changed:"; git -C $W diff --stat | tail -5
for P in $PROP "$@"; do
  echo "--- bin/check $P against the seeded tree"
  (cd /verif && VERIF_REPO=$W timeout 1800 bin/check $P 2>&1 | grep -v "^KNOWN" | tail -4 | cut -c1-300)
done
git -C /repo worktree remove --force $W
