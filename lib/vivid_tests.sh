#!/bin/sh
# run the baseline-stable tests of engine/vivid (+typed, prc) in the tree given as $1 (default /repo)
R=${1:-/repo}
export GOFLAGS=-mod=mod GOPROXY=off GOSUMDB=off GOTOOLCHAIN=local
cd $R/engine/vivid && timeout 300 go test -count=1 -vet=off -run 'TestActorContext_|TestActorDescriptor_WithPersistence|TestActorDescriptor_WithSlowProcessingDuration' . 2>&1 | tail -5
cd $R/engine/vivid/typed/test && timeout 120 go test -count=1 -vet=off . 2>&1 | tail -2

