#!/usr/bin/env python3
"""show_goal.py <file.v> <line>: compile the file truncated before <line> with `Show.` appended; prints goals."""
import subprocess, sys, os, tempfile
f, n = sys.argv[1], int(sys.argv[2])
L = open(f).read().split("\n")
d = tempfile.mkdtemp(prefix="showgoal", dir="/var/tmp")
t = os.path.join(d, "T.v")
open(t, "w").write("\n".join(L[:n - 1]) + "\nShow.\nAbort.\n")
p = subprocess.run(["timeout", "600", "coqc", "-Q", "/verif/coq", "MV", t], capture_output=True, text=True, cwd=d)
print((p.stdout + p.stderr)[-6000:])
subprocess.run(["rm", "-rf", d])
