#!/usr/bin/env python3
"""Regenerates the machine-derived tables of DESIGN.md (between <!-- BEGIN:name --> / <!-- END:name --> markers):
theorem inventory (from coq/C*/Properties.v), fix commits and open findings (known_findings.json), seeded changes
(seeded/*/meta.json). Hand-written text is left alone."""
import json, glob, os, re, subprocess
V = os.path.dirname(os.path.dirname(os.path.abspath(__file__)))


def theorems():
    out = []
    for pid in ["C%02d" % i for i in range(1, 21)]:
        f = os.path.join(V, "coq", pid, "Properties.v")
        if not os.path.exists(f):
            continue
        src = open(f).read()
        names = re.findall(r"^\s*(?:Theorem|Corollary)\s+([A-Za-z0-9_']+)", src, re.M)
        ex = re.findall(r"^\s*Example\s+([A-Za-z0-9_']+)", src, re.M)
        full = [n for n in names if not n.endswith("_partial") and not n.endswith("_refuted") and "_refuted" not in n]
        part = [n for n in names if n.endswith("_partial")]
        ref = [n for n in names if "_refuted" in n]
        ax = "—"
        ev = os.path.join(V, "evidence", pid + ".json")
        if os.path.exists(ev):
            try:
                tb = json.load(open(ev))["coverage"].get("trusted_base", [])
                a = [x for x in tb if x.startswith("axioms reported")]
                if a:
                    ax = a[0].replace("axioms reported by Print Assumptions: ", "")
            except Exception:
                pass
        out.append("* **%s** — %d theorems (%d full, %d `_partial`, %d `_refuted`), %d examples. Axioms: %s" % (pid, len(names), len(full), len(part), len(ref), len(ex), ax[:400]))
        out.append("  " + ", ".join("`%s`" % n for n in names))
    return "\n".join(out)


def fixes():
    d = json.load(open(os.path.join(V, "known_findings.json")))
    rows = []
    for x in d["fixed"]:
        m = re.match(r"fixed: property=(\S+) (\S+) (.*)", x, re.S)
        rows.append("| %s | `%s` | %s |" % (m.group(1), m.group(2), m.group(3).replace("|", "/").replace("\n", " ")[:330]))
    return "| property | commit | what failed |\n|---|---|---|\n" + "\n".join(rows)


def opens():
    d = json.load(open(os.path.join(V, "known_findings.json")))
    rows = []
    for x in d["open"]:
        rows.append("| %s | `%s` | `%s` %s | %s |" % (x["property"], x["id"], x["kind"], json.dumps(x.get("where", {})), x["what"].replace("|", "/")[:420]))
    return "| property | id | matched by (kind, where) | what fails |\n|---|---|---|---|\n" + "\n".join(rows)


def seeds():
    rows = []
    for m in sorted(glob.glob(os.path.join(V, "seeded", "*", "meta.json"))):
        j = json.load(open(m))
        det = ", ".join(j.get("detected_by") or []) or "**none**"
        note = j.get("detection_note", "")
        rows.append("| `%s` | %s | %s | %s%s |" % (j["id"], j["property"], "yes" if j.get("confirmed") else "no (see meta.json)", det, (" — " + note) if note else ""))
    return "| seeded change | property | confirmed (demo fails with / passes without, builds, existing tests pass) | checks that report it |\n|---|---|---|---|\n" + "\n".join(rows)


GEN = {"theorems": theorems, "fixes": fixes, "open": opens, "seeds": seeds}
p = os.path.join(V, "DESIGN.md")
s = open(p).read()
for k, f in GEN.items():
    b, e = "<!-- BEGIN:%s -->" % k, "<!-- END:%s -->" % k
    if b in s and e in s:
        s = s[:s.index(b) + len(b)] + "\n" + f() + "\n" + s[s.index(e):]
open(p, "w").write(s)
print("DESIGN.md tables regenerated")
