#!/usr/bin/env python3
"""Regenerates MANIFEST.json from lib/manifest_data.py (keeps the file valid and in one place)."""
import json, os, sys
HERE = os.path.dirname(os.path.abspath(__file__))
sys.path.insert(0, HERE)
from manifest_data import CHECKS, NOT_APPLICABLE, HOOK_COMMITS, NOTES, READY
import importlib
sys.path.insert(0, os.path.join(HERE, "..", "checks"))
for pid in READY:
    if pid not in CHECKS:
        CHECKS[pid] = importlib.import_module(pid.lower()).MANIFEST

props = [json.loads(l)["id"] for l in open(os.path.join(HERE, "..", "properties.jsonl"))]
checks = []
for pid in props:
    if pid not in CHECKS:
        continue
    c = CHECKS[pid]
    checks.append({
        "property_id": pid,
        "quick_cmd": "bin/check %s --tier quick" % pid,
        "thorough_cmd": "bin/check %s --tier thorough" % pid,
        "evidence_file": "/verif/evidence/%s.json" % pid,
        "replay_cmd_template": "bin/check %s --replay {path}" % pid,
        "engine": "coq-proof+correspondence",
        "level_claimed": {"category": c.get("category", "proof"), "text": c["text"], "design_ref": c.get("design_ref", "DESIGN.md §6 " + pid)},
        "level_note": c["note"],
        "technique": c["technique"],
    })
na = [{"property_id": p, "reason": NOT_APPLICABLE[p]} for p in props if p not in CHECKS]
m = {
    "version": 1,
    "setup_cmd": "bin/setup",
    "hooks": {
        "guard": "verif",
        "enable": "go build/test -tags verif (harness module /verif/harness, replace => /repo)",
        "baseline_off_cmd": "for m in . ./ax; do (cd /repo/$m && go test -mod=mod -json -vet=off -count=1 -timeout 25m ./...); done",
        "source_commits": HOOK_COMMITS,
        "add_only": True,
    },
    "engines": [{"name": "coq-proof+correspondence", "path": "/verif/bin/check",
                 "serves_properties": [c["property_id"] for c in checks],
                 "kind_free_text": "Coq 8.16.1 theorems about executable Gallina models (coq/), tied to /repo on every run by differential "
                                   "execution of the model (vm_compute in coqc) against the Go implementation (harness/), instrumented-source "
                                   "schedule replay and source-derived facts; Go-side monitors are the failing-input search oracle"}],
    "checks": checks,
    "not_applicable": na,
    "notes": NOTES,
}
json.dump(m, open(os.path.join(HERE, "..", "MANIFEST.json"), "w"), indent=1)
print("MANIFEST.json: %d checks, %d not_applicable" % (len(checks), len(na)))
