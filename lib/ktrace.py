#!/usr/bin/env python3
"""ktrace.py <cases.jsonl> <id> : pretty-print a lockstep case"""
import json,sys
for line in open(sys.argv[1]):
    d=json.loads(line)
    if d['id']!=int(sys.argv[2]): continue
    c=d['case']
    for i,r in enumerate(c['scn']['roles']):
        print('role',i,'victim=',r['victim'],'sup=',r['sup'])
        for ru in r['rules'] or []:
            print('   on',ru['on'],ru['n'],'inst',ru['inst'],'->',[(a['k'],a.get('t'),a.get('n'),a.get('g')) for a in ru['do']])
    print('exts',[(e['k'],e['t'],e['n'],e['g']) for e in c['scn']['exts']],'final graceful',c['scn']['final_graceful'])
    for i,s in enumerate(c['steps']):
        l=s['l']; 
        obs=[]
        for o in s['o']:
            k=o['k']
            if k=='H': obs.append('H a%d#%d %s%s%s'%(o['a'],o['inst'],o['trig'],('(%d)'%o['who'] if o['trig']=='TO' else ''),(' n%d s%d from %d'%(o['n'],o['serial'],o['snd']) if o['trig']=='P' else '')))
            elif k=='S': obs.append('S s%d %d->%d'%(o['serial'],o['snd'],o['a']))
            elif k=='D': obs.append('DEAD s%d ->%d'%(o['serial'],o['a']))
            elif k=='DEC': obs.append('DEC sup%d victim%d %s cnt%d'%(o['a'],o['who'],o['dir'],o['inst']))
            elif k=='END': obs.append('END closed=%s regs=%s'%(o.get('closed',False),o.get('regs')))
            else: obs.append('%s a%d who%d %s'%(k,o['a'],o['who'],o.get('note','')))
        print('%3d %-8s t=%-3d n=%d g=%s | %s'%(i,l['k'],l['t'],l['n'],l['g'],' ; '.join(obs)))
    print('stuck:',c.get('stuck'))
