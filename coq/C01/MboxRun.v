(* MV.C01.MboxRun — tie T2: replay of schedules recorded from the instrumented source
   (current text of mailbox/lock_free.go and global_ordered_lock_free.go under the controlled
   scheduler). Each log entry = (thread id, choice, event observed in the Go code); the machine must
   be able to take that step and must predict exactly that event. *)
From MV Require Import Lib.ListX Lib.Sched C01.MboxModel.
Open Scope Z_scope.

Definition kind_eqb (a b : kind) : bool := match a, b with KU, KU | KS, KS => true | _, _ => false end.

Definition choice_eqb (a b : choice) : bool :=
  match a, b with
  | CNone, CNone | CSuspend, CSuspend | CResume, CResume | CPanic, CPanic => true
  | CSend k m, CSend k' m' => kind_eqb k k' && Nat.eqb m m'
  | _, _ => false
  end.

Definition event_eqb (a b : event) : bool :=
  match a, b with
  | EvSpawn c, EvSpawn c' => choice_eqb c c'
  | EvPush k m, EvPush k' m' => kind_eqb k k' && Nat.eqb m m'
  | EvAdd k v, EvAdd k' v' => kind_eqb k k' && Z.eqb v v'
  | EvCas o, EvCas o' => Bool.eqb o o'
  | EvStoreSusp b, EvStoreSusp b' => Bool.eqb b b'
  | EvPop k r, EvPop k' r' => kind_eqb k k' && opt_eqb Nat.eqb r r'
  | EvDec k v, EvDec k' v' => kind_eqb k k' && Z.eqb v v'
  | EvEnter k m, EvEnter k' m' => kind_eqb k k' && Nat.eqb m m'
  | EvLeave k m p, EvLeave k' m' p' => kind_eqb k k' && Nat.eqb m m' && Bool.eqb p p'
  | EvAcc, EvAcc => true
  | EvLoadSusp b, EvLoadSusp b' => Bool.eqb b b'
  | EvStoreIdle, EvStoreIdle => true
  | EvExit, EvExit => true
  | EvLoadNum k v, EvLoadNum k' v' => kind_eqb k k' && Z.eqb v v'
  | _, _ => false
  end.

(* None = the whole log is a run of the machine with equal events; Some k = first diverging step *)
Fixpoint replay (st : state Mbox) (log : list (nat * choice * event)) (k : nat) : option nat :=
  match log with
  | [] => None
  | (i, c, EvExit) :: t =>
      (* the Go thread returned: the machine's thread must have ended too *)
      match nth_error (snd st) i with
      | Some None => replay st t (S k)
      | _ => Some k
      end
  | (i, c, e) :: t =>
      match gstep st i c with
      | Some (st', e') => if event_eqb e e' then replay st' t (S k) else Some k
      | None => Some k
      end
  end.

(* final-state observation recorded by the harness at quiescence: queue lengths and flags *)
Record case := { cid : nat; clog : list (nat * choice * event);
                 cend : option (nat * nat * bool) (* |sysq|, |userq|, suspended at the end, if run to quiescence *) }.

Fixpoint final (st : state Mbox) (log : list (nat * choice * event)) : option (state Mbox) :=
  match log with
  | [] => Some st
  | (i, c, EvExit) :: t => final st t
  | (i, c, _) :: t => match gstep st i c with Some (st', _) => final st' t | None => None end
  end.

Definition case_ok (c : case) : bool :=
  match replay init (clog c) 0 with
  | Some _ => false
  | None =>
      match cend c, final init (clog c) with
      | None, _ => true
      | Some (ns, nu, su), Some st =>
          Nat.eqb (length (sysq (fst st))) ns && Nat.eqb (length (userq (fst st))) nu && Bool.eqb (susp (fst st)) su
      | Some _, None => false
      end
  end.

Definition mismatches (cs : list case) : list nat := fail_ids case_ok cid cs.
Definition divergence (c : case) : option nat := replay init (clog c) 0.
