(* MV.C01.TurnsRun — evaluation of the traces recorded by harness/cmd/c01turns (tie T4: the checker
   MV.C01.TurnsModel.turns_ok, proved sound in MV.C01.TurnsProofs, runs under vm_compute on every
   recorded trace).

   Wire format. Elaborating a Z literal costs ~20 us per bit, a trace event has three of them; the
   harness therefore prints one primitive 63-bit integer per event and [tdec] unpacks it:
     bit 0        0 = Begin, 1 = End
     bits 1-2     kind: 0 user message, 1 lifecycle / system message, 2 timer callback, 3 local function
     bits 3-10    actor (index of the actor object in the script, < 256)
     bits 11-34   invocation id (sequence number of the Begin event, < 2^24)
     bits 35-58   value read (Begin) / written (End) of the actor's plain variable (< 2^24)
   [tdec] is part of the printer side of the tie (trusted like the Go printer); [tdec_examples] pins it,
   and every run evaluates a small corpus printed by the same Go packer with known verdicts. *)
From Coq Require Import Uint63.
From MV Require Import Lib.ListX C01.TurnsModel.
Local Open Scope Z_scope.

Definition tkind_of (x : int) : tkind :=
  if Uint63.eqb x 0%uint63 then TUser
  else if Uint63.eqb x 1%uint63 then TSys
  else if Uint63.eqb x 2%uint63 then TTimer else TLocal.

Definition tdec (x : int) : tev :=
  let k := tkind_of (Uint63.land (Uint63.lsr x 1%uint63) 3%uint63) in
  let a := Uint63.to_Z (Uint63.land (Uint63.lsr x 3%uint63) 255%uint63) in
  let i := Uint63.to_Z (Uint63.land (Uint63.lsr x 11%uint63) 16777215%uint63) in
  let v := Uint63.to_Z (Uint63.land (Uint63.lsr x 35%uint63) 16777215%uint63) in
  if Uint63.eqb (Uint63.land x 1%uint63) 0%uint63 then TBegin a k i v else TEnd a k i v.

Lemma tdec_examples :
  tdec 0%uint63 = TBegin 0 TUser 0 0 /\
  (* End, kind 3, actor 5, id 1000, value 77:  1 + 3*2 + 5*8 + 1000*2^11 + 77*2^35 *)
  tdec 2645701902383%uint63 = TEnd 5 TLocal 1000 77 /\
  (* Begin, kind 2, actor 255, id 2^24-1, value 2^24-1 *)
  tdec 576460752303423484%uint63 = TBegin 255 TTimer 16777215 16777215.
Proof. repeat split; vm_compute; reflexivity. Qed.

(* one recorded script: the packed trace in recorder order; tcomplete = the script ran to the end and the
   actor system was shut down (then no invocation may be left open); texpect = the verdict the case must
   get (true for every recorded script; the corpus of synthetic traces has false entries) *)
Record tcase := { tcid : nat; tpacked : list int; tcomplete : bool; texpect : bool }.

Definition ttrace (c : tcase) : list tev := map tdec (tpacked c).

Definition tverdict (c : tcase) : bool :=
  if tcomplete c then turns_ok_closed (ttrace c) else turns_ok (ttrace c).

Definition tcase_ok (c : tcase) : bool := Bool.eqb (tverdict c) (texpect c).

Definition tmismatches (cs : list tcase) : list nat := fail_ids tcase_ok tcid cs.

(* diagnostics (bin/check C01 --replay): position and event at which the checker stops *)
Definition tdiagnose (c : tcase) : option (Z * tev) :=
  match tfirst_bad [] (ttrace c) 0 with
  | Some p => match nth_error (ttrace c) (Z.to_nat p) with Some e => Some (p, e) | None => None end
  | None => None
  end.
