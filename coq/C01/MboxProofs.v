(* MV.C01.MboxProofs — invariants of the mailbox machine over every reachable state
   (every schedule, any number of sender / suspender / resumer / runner threads). *)
From MV Require Import Lib.ListX Lib.Sched C01.MboxModel.
From Coq Require Import ZifyBool.
Open Scope Z_scope.
Arguments Z.add : simpl never.
Arguments Z.sub : simpl never.
Arguments Z.of_nat : simpl never.
Arguments Z.ltb : simpl never.

Definition b2z (b : bool) : Z := if b then 1 else 0.
Definition len (l : list msg) : Z := Z.of_nat (length l).

(* the "running token": held from a successful CAS until the pending store of Idle *)
Definition tok (l : pc) : Z :=
  match l with
  | RPopS | RDec _ _ | REnter _ _ | RIn _ _ | RAcc | RLdSusp | RPopU | RIdle => 1
  | _ => 0
  end.
Definition same (a b : kind) : bool := match a, b with KU, KU | KS, KS => true | _, _ => false end.
(* pushed, counter not yet incremented / popped, counter not yet decremented *)
Definition pa (k : kind) (l : pc) : Z := match l with SAdd k' => if same k k' then 1 else 0 | _ => 0 end.
Definition pd (k : kind) (l : pc) : Z := match l with RDec k' _ => if same k k' then 1 else 0 | _ => 0 end.
(* threads that are certain to attempt the Idle->Running CAS (given pending system work / user work) *)
Definition poisedS (l : pc) : Z := match l with SAdd _ | SDisp | Resm | RChkS | RCas => 1 | _ => 0 end.
Definition poisedU (l : pc) : Z :=
  match l with SAdd _ | SDisp | Resm | RChkS | RChkSusp | RChkU | RCas => 1 | _ => 0 end.

Definition T (f : pc -> Z) (p : pool Mbox) : Z := @total Mbox f p.

Definition Inv (st : state Mbox) : Prop :=
  let s := fst st in let p := snd st in
  T tok p = b2z (running s) /\
  sysNum s = len (sysq s) + T (pd KS) p - T (pa KS) p /\
  userNum s = len (userq s) + T (pd KU) p - T (pa KU) p /\
  (running s = false -> 0 < sysNum s -> 1 <= T poisedS p) /\
  (running s = false -> susp s = false -> 0 < userNum s -> 1 <= T poisedU p) /\
  pushedS s = poppedS s ++ sysq s /\ pushedU s = poppedU s ++ userq s.

Lemma inh_le_tok l : inh l <= tok l.
Proof. destruct l; simpl; lia. Qed.

Lemma inv_init : Inv init.
Proof. unfold Inv, init, T, len; simpl. repeat split; intros; try lia; reflexivity. Qed.

Ltac tot H :=
  unfold T in *; repeat rewrite total_app; repeat rewrite (total_upd _ _ _ _ _ _ H);
  cbn [total fo map tok pa pd poisedS poisedU same inh].

Lemma len_app l m : len (l ++ [m]) = len l + 1.
Proof. unfold len. rewrite app_length. simpl. lia. Qed.
Lemma len_cons m l : len (m :: l) = len l + 1.
Proof. unfold len. simpl length. lia. Qed.

Lemma nn_tok l : 0 <= tok l. Proof. destruct l; simpl; lia. Qed.
Lemma nn_pS l : 0 <= poisedS l. Proof. destruct l; simpl; lia. Qed.
Lemma nn_pU l : 0 <= poisedU l. Proof. destruct l; simpl; lia. Qed.
Lemma nn_pd k l : 0 <= pd k l. Proof. destruct l; simpl; try lia. destruct (same k k0); lia. Qed.
Lemma nn_pa k l : 0 <= pa k l. Proof. destruct l; simpl; try lia. destruct (same k k0); lia. Qed.

Lemma inv_step st i c st' e : Inv st -> gstep st i c = Some (st', e) -> Inv st'.
Proof.
  destruct st as [s p]. unfold Inv, gstep. cbn [fst snd].
  intros (Ht & Hs & Hu & HA & HB & HfS & HfU).
  destruct (nth_error p i) as [[l|]|] eqn:Hn; try discriminate.
  pose proof (total_ge_nth Mbox tok p i l nn_tok Hn) as Gtok.
  pose proof (total_ge_nth Mbox poisedS p i l nn_pS Hn) as GpS.
  pose proof (total_ge_nth Mbox poisedU p i l nn_pU Hn) as GpU.
  pose proof (total_nonneg Mbox poisedS p nn_pS) as NpS.
  pose proof (total_nonneg Mbox poisedU p nn_pU) as NpU.
  unfold T in *.
  cbn [tstep Mbox]. destruct l; cbn [mstep]; cbn [tok poisedS poisedU] in Gtok, GpS, GpU;
  repeat match goal with
  | |- context [match ?c with CNone => _ | _ => _ end] => destruct c
  | |- context [pop ?k ?s] => unfold pop
  | |- context [match sysq ?s with _ => _ end] => let Hq := fresh "Hq" in destruct (sysq s) eqn:Hq
  | |- context [match userq ?s with _ => _ end] => let Hq := fresh "Hq" in destruct (userq s) eqn:Hq
  | |- context [if running ?s then _ else _] => let Hr := fresh "Hr" in destruct (running s) eqn:Hr
  | |- context [if susp ?s then _ else _] => let Hr := fresh "Hsu" in destruct (susp s) eqn:Hr
  | |- context [if 0 <? ?n then _ else _] => destruct (Z.ltb_spec 0 n)
  end;
  try discriminate;
  (intros Hstep; inversion Hstep; subst; clear Hstep; cbn [fst snd];
   repeat rewrite total_app; repeat rewrite (total_upd _ _ _ _ _ _ Hn);
   try match goal with k : kind |- _ => destruct k end;
   cbn [total fo map tok pa pd poisedS poisedU same inh push add_num set_running set_susp add_handled
        running sysNum userNum susp sysq userq pushedS pushedU poppedS poppedU] in *;
   rewrite ?len_app, ?len_cons in *;
   unfold b2z in *;
   repeat match goal with Hx : running ?s = _ |- _ => rewrite Hx in * end;
   try match goal with Hx : sysq ?s = _ |- _ => rewrite ?Hx in * end;
   try match goal with Hx : userq ?s = _ |- _ => rewrite ?Hx in * end;
   repeat split; intros;
   try (specialize (HA ltac:(first [assumption|reflexivity|congruence]) ltac:(lia)));
   try (specialize (HB ltac:(first [assumption|reflexivity|congruence]) ltac:(first [assumption|reflexivity|congruence]) ltac:(lia)));
   first [ lia | assumption | discriminate | congruence
         | (rewrite HfS, <- ?app_assoc; reflexivity) | (rewrite HfU, <- ?app_assoc; reflexivity)
         | (rewrite HfS, app_assoc; reflexivity) | (rewrite HfU, app_assoc; reflexivity) ]).
Qed.

Theorem inv_reachable st : reach init st -> Inv st.
Proof. apply inv_reach; [exact inv_init | exact inv_step]. Qed.

(* C01: at most one thread is ever inside a handler invocation of this mailbox *)
Theorem mutual_exclusion st : reach init st -> in_handlers st <= 1.
Proof.
  intros Hr. destruct (inv_reachable st Hr) as (Ht & _). unfold in_handlers.
  pose proof (total_le Mbox inh tok (snd st) inh_le_tok). unfold T in Ht.
  unfold b2z in Ht. destruct (running (fst st)); lia.
Qed.

Lemma total_all_env (f : pc -> Z) (p : pool Mbox) :
  @all_live Mbox is_env p -> f Env = 0 -> T f p = 0.
Proof.
  unfold T, all_live, is_env. intros Hq Hf. induction p as [|[l|] t IH]; simpl; auto.
  - rewrite (Hq 0%nat l eq_refl), Hf. rewrite IH; [reflexivity|].
    intros i l' Hn. apply (Hq (S i)). exact Hn.
  - apply IH. intros i l' Hn. apply (Hq (S i)). exact Hn.
Qed.

(* C02 (mailbox level): when no sender/resumer/suspender/runner is executing any more, nothing is
   stranded: the system queue is empty, and the user queue is empty unless the mailbox is suspended *)
Theorem no_stranded st : reach init st -> quiescent st ->
  sysq (fst st) = [] /\ (susp (fst st) = false -> userq (fst st) = []).
Proof.
  intros Hr Hq. destruct (inv_reachable st Hr) as (Ht & Hs & Hu & HA & HB & _).
  assert (Hz : forall f, f Env = 0 -> T f (snd st) = 0) by (intros f Hf; apply total_all_env; assumption).
  rewrite (Hz tok eq_refl) in Ht. rewrite (Hz (pd KS) eq_refl), (Hz (pa KS) eq_refl) in Hs.
  rewrite (Hz (pd KU) eq_refl), (Hz (pa KU) eq_refl) in Hu.
  rewrite (Hz poisedS eq_refl) in HA. rewrite (Hz poisedU eq_refl) in HB.
  assert (Hrun : running (fst st) = false) by (unfold b2z in Ht; destruct (running (fst st)); [lia|reflexivity]).
  unfold len in *. split.
  - destruct (sysq (fst st)) as [|m t]; [reflexivity|]. simpl length in Hs. specialize (HA Hrun). lia.
  - intros Hsu. destruct (userq (fst st)) as [|m t]; [reflexivity|]. simpl length in Hu.
    specialize (HB Hrun Hsu). lia.
Qed.

(* C02 (mailbox level): FIFO conservation — what was pushed is, in order, what was popped followed by
   what is still queued: no loss, no duplication, no reordering, nothing invented *)
Theorem conservation st : reach init st ->
  pushedS (fst st) = poppedS (fst st) ++ sysq (fst st) /\
  pushedU (fst st) = poppedU (fst st) ++ userq (fst st).
Proof. intros Hr. destruct (inv_reachable st Hr) as (_ & _ & _ & _ & _ & H1 & H2). auto. Qed.
