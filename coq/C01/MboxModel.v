(* MV.C01.MboxModel — layer-A machine transcribing engine/vivid/mailbox/lock_free.go
   (global_ordered_lock_free.go is textually the same algorithm; both are replayed against
   this machine). One [tstep] per statement that touches shared memory:

     DeliveryUserMessage:  queue.Push ; AddInt32(userNum,1) ; dispatch()
     DeliverySystemMessage: systemQueue.Push ; AddInt32(sysNum,1) ; dispatch()
     Suspend: StoreUint32(suspended,1)        Resume: StoreUint32(suspended,0) ; dispatch()
     dispatch: CAS(status, Idle, Running) -> dispatcher.Dispatch(process)   (spawns a runner thread:
               both shipped dispatchers run the function once, later, on some goroutine)
     process / processHandle: see the [Runner] pcs below.

   The two LFQueues are atomic FIFO lists here (justified by the C15 queue theorems).
   No proofs in this file. *)
From MV Require Import Lib.ListX Lib.Sched.
Open Scope Z_scope.

Definition msg := nat.
Inductive kind := KU | KS.                       (* user / system message *)

Inductive pc :=
| Env                                             (* spawns senders / suspenders / resumers at will *)
| SPush (k : kind) (m : msg)                      (* about to Push *)
| SAdd (k : kind)                                 (* pushed, about to AddInt32(+1) *)
| SDisp                                           (* in dispatch(): about to CAS *)
| Susp                                            (* Suspend(): about to store 1 *)
| Resm                                            (* Resume(): about to store 0 *)
| RPopS                                           (* processHandle loop head: systemQueue.Pop() *)
| RDec (k : kind) (m : msg)                       (* popped m, about to AddInt32(-1) *)
| REnter (k : kind) (m : msg)                     (* about to call recipient.Process{System,User}Message *)
| RIn (k : kind) (m : msg)                        (* inside the handler *)
| RAcc                                            (* handler panicked: inside recipient.ProcessAccident *)
| RLdSusp                                         (* LoadUint32(suspended) in processHandle *)
| RPopU                                           (* queue.Pop() *)
| RIdle                                           (* process(): about to StoreUint32(status, Idle) *)
| RChkS                                           (* about to LoadInt32(sysNum) *)
| RChkSusp                                        (* about to LoadUint32(suspended) (re-check) *)
| RChkU                                           (* about to LoadInt32(userNum) *)
| RCas.                                           (* about to CAS(status, Idle, Running) in process() *)

Inductive choice :=
| CNone | CSend (k : kind) (m : msg) | CSuspend | CResume | CPanic.

Inductive event :=
| EvSpawn (c : choice)
| EvPush (k : kind) (m : msg)
| EvAdd (k : kind) (v : Z)                        (* new counter value *)
| EvCas (ok : bool)
| EvStoreSusp (b : bool)
| EvPop (k : kind) (r : option msg)
| EvDec (k : kind) (v : Z)
| EvEnter (k : kind) (m : msg)
| EvLeave (k : kind) (m : msg) (panicked : bool)
| EvAcc
| EvLoadSusp (b : bool)
| EvStoreIdle
| EvLoadNum (k : kind) (v : Z)
| EvExit                                           (* pseudo-event of the replay log: the thread's code has ended *)
| EvOther (n : nat).                              (* an operation of the code the machine does not have; never produced by [mstep] *)

Record sh := {
  running : bool; sysNum : Z; userNum : Z; susp : bool; sysq : list msg; userq : list msg;
  (* ghost history, never read by the algorithm *)
  pushedS : list msg; pushedU : list msg; poppedS : list msg; poppedU : list msg;
  handled : list (kind * msg)
}.

Definition init_sh : sh :=
  {| running := false; sysNum := 0; userNum := 0; susp := false; sysq := []; userq := [];
     pushedS := []; pushedU := []; poppedS := []; poppedU := []; handled := [] |}.

Definition set_running b s := {| running := b; sysNum := sysNum s; userNum := userNum s; susp := susp s;
  sysq := sysq s; userq := userq s; pushedS := pushedS s; pushedU := pushedU s; poppedS := poppedS s;
  poppedU := poppedU s; handled := handled s |}.
Definition set_susp b s := {| running := running s; sysNum := sysNum s; userNum := userNum s; susp := b;
  sysq := sysq s; userq := userq s; pushedS := pushedS s; pushedU := pushedU s; poppedS := poppedS s;
  poppedU := poppedU s; handled := handled s |}.
Definition add_num k d s :=
  match k with
  | KS => {| running := running s; sysNum := sysNum s + d; userNum := userNum s; susp := susp s;
       sysq := sysq s; userq := userq s; pushedS := pushedS s; pushedU := pushedU s; poppedS := poppedS s;
       poppedU := poppedU s; handled := handled s |}
  | KU => {| running := running s; sysNum := sysNum s; userNum := userNum s + d; susp := susp s;
       sysq := sysq s; userq := userq s; pushedS := pushedS s; pushedU := pushedU s; poppedS := poppedS s;
       poppedU := poppedU s; handled := handled s |}
  end.
Definition num k s := match k with KS => sysNum s | KU => userNum s end.
Definition push k m s :=
  match k with
  | KS => {| running := running s; sysNum := sysNum s; userNum := userNum s; susp := susp s;
       sysq := sysq s ++ [m]; userq := userq s; pushedS := pushedS s ++ [m]; pushedU := pushedU s;
       poppedS := poppedS s; poppedU := poppedU s; handled := handled s |}
  | KU => {| running := running s; sysNum := sysNum s; userNum := userNum s; susp := susp s;
       sysq := sysq s; userq := userq s ++ [m]; pushedS := pushedS s; pushedU := pushedU s ++ [m];
       poppedS := poppedS s; poppedU := poppedU s; handled := handled s |}
  end.
Definition pop k s : option (msg * sh) :=
  match k with
  | KS => match sysq s with
          | [] => None
          | m :: t => Some (m, {| running := running s; sysNum := sysNum s; userNum := userNum s; susp := susp s;
               sysq := t; userq := userq s; pushedS := pushedS s; pushedU := pushedU s;
               poppedS := poppedS s ++ [m]; poppedU := poppedU s; handled := handled s |})
          end
  | KU => match userq s with
          | [] => None
          | m :: t => Some (m, {| running := running s; sysNum := sysNum s; userNum := userNum s; susp := susp s;
               sysq := sysq s; userq := t; pushedS := pushedS s; pushedU := pushedU s;
               poppedS := poppedS s; poppedU := poppedU s ++ [m]; handled := handled s |})
          end
  end.
Definition add_handled k m s := {| running := running s; sysNum := sysNum s; userNum := userNum s; susp := susp s;
  sysq := sysq s; userq := userq s; pushedS := pushedS s; pushedU := pushedU s; poppedS := poppedS s;
  poppedU := poppedU s; handled := handled s ++ [(k, m)] |}.

Definition R := (sh * option pc * list pc * event)%type.

Definition mstep (s : sh) (l : pc) (c : choice) : option R :=
  match l with
  | Env =>
      match c with
      | CSend k m => Some (s, Some Env, [SPush k m], EvSpawn c)
      | CSuspend => Some (s, Some Env, [Susp], EvSpawn c)
      | CResume => Some (s, Some Env, [Resm], EvSpawn c)
      | _ => None
      end
  | SPush k m => Some (push k m s, Some (SAdd k), [], EvPush k m)
  | SAdd k => Some (add_num k 1 s, Some SDisp, [], EvAdd k (num k s + 1))
  | SDisp =>
      if running s then Some (s, None, [], EvCas false)
      else Some (set_running true s, None, [RPopS], EvCas true)
  | Susp => Some (set_susp true s, None, [], EvStoreSusp true)
  | Resm => Some (set_susp false s, Some SDisp, [], EvStoreSusp false)
  | RPopS =>
      match pop KS s with
      | Some (m, s') => Some (s', Some (RDec KS m), [], EvPop KS (Some m))
      | None => Some (s, Some RLdSusp, [], EvPop KS None)
      end
  | RDec k m => Some (add_num k (-1) s, Some (REnter k m), [], EvDec k (num k s - 1))
  | REnter k m => Some (add_handled k m s, Some (RIn k m), [], EvEnter k m)
  | RIn k m =>
      match c with
      | CPanic => Some (s, Some RAcc, [], EvLeave k m true)
      | _ => Some (s, Some RPopS, [], EvLeave k m false)
      end
  | RAcc => Some (s, Some RIdle, [], EvAcc)
  | RLdSusp => if susp s then Some (s, Some RIdle, [], EvLoadSusp true)
               else Some (s, Some RPopU, [], EvLoadSusp false)
  | RPopU =>
      match pop KU s with
      | Some (m, s') => Some (s', Some (RDec KU m), [], EvPop KU (Some m))
      | None => Some (s, Some RIdle, [], EvPop KU None)
      end
  | RIdle => Some (set_running false s, Some RChkS, [], EvStoreIdle)
  | RChkS => if 0 <? sysNum s then Some (s, Some RCas, [], EvLoadNum KS (sysNum s))
             else Some (s, Some RChkSusp, [], EvLoadNum KS (sysNum s))
  | RChkSusp => if susp s then Some (s, None, [], EvLoadSusp true)
                else Some (s, Some RChkU, [], EvLoadSusp false)
  | RChkU => if 0 <? userNum s then Some (s, Some RCas, [], EvLoadNum KU (userNum s))
             else Some (s, None, [], EvLoadNum KU (userNum s))
  | RCas =>
      if running s then Some (s, None, [], EvCas false)
      else Some (set_running true s, Some RPopS, [], EvCas true)
  end.

Definition Mbox : machine :=
  {| shared := sh; local := pc; Sched.choice := choice; ev := event; tstep := mstep |}.

Definition init : state Mbox := (init_sh, [Some Env]).

(* ---- observables used by the statements ---- *)
(* threads currently inside a handler invocation (ProcessUserMessage / ProcessSystemMessage /
   ProcessAccident): the quantity that must never exceed one *)
Definition inh (l : pc) : Z := match l with RIn _ _ | RAcc => 1 | _ => 0 end.
Definition in_handlers (st : state Mbox) : Z := @total Mbox inh (snd st).

(* no sender, resumer, suspender or runner thread is still executing *)
Definition is_env (l : pc) : Prop := l = Env.
Definition quiescent (st : state Mbox) : Prop := @all_live Mbox is_env (snd st).

Definition handled_of (k : kind) (h : list (kind * msg)) : list msg :=
  map snd (filter (fun x => match fst x, k with KU, KU | KS, KS => true | _, _ => false end) h).
