(* MV.C01.TurnsModel — the actor-level reading of property C01: "every piece of user code of an actor
   runs as a turn of its mailbox".

   What is observed (harness/cmd/c01turns, on the real vivid.ActorSystem with real goroutines): every
   entry into user code of an actor — the receive handler for a user message, the receive handler for a
   lifecycle / system message (OnLaunch, OnRestarting, OnRestarted, OnTerminate, OnTerminated, a
   supervision decision), a timer callback, a locally executed function (ExecLocalFunc) — reports
   [TBegin actor kind id v] when it starts and [TEnd actor kind id w] when it returns (or panics). The
   events are listed in the one global order in which a sequentially consistent recorder (one atomic
   fetch-and-add per event) saw them. [id] identifies the invocation (the harness uses the sequence
   number of its Begin). [v] is the value of a PLAIN per-actor variable read right after the Begin was
   recorded, [w] the value stored into it right before the End is recorded: the visibility clause of
   C01 ("everything one invocation wrote is visible to the next") is that every invocation reads what
   the previous invocation of that actor wrote (0 before the first one).

   [turns_ok] is the checker (tie T4: a Coq function with soundness theorems, MV.C01.TurnsProofs, run by
   vm_compute on every recorded trace). It keeps one cell per actor. *)
From MV Require Import Lib.ListX.
Local Open Scope Z_scope.

Inductive tkind := TUser | TSys | TTimer | TLocal.

Inductive tev :=
| TBegin (a : Z) (k : tkind) (i : Z) (v : Z)   (* actor, kind, invocation id, value read *)
| TEnd (a : Z) (k : tkind) (i : Z) (w : Z).    (* actor, kind, invocation id, value written *)

Definition tkind_eqb (a b : tkind) : bool :=
  match a, b with
  | TUser, TUser | TSys, TSys | TTimer, TTimer | TLocal, TLocal => true
  | _, _ => false
  end.

Definition tactor (e : tev) : Z := match e with TBegin a _ _ _ | TEnd a _ _ _ => a end.

(* per actor: the kind of the invocation in progress (if any), the id of the most recent invocation
   begun (ids of one actor must grow strictly: an id names one invocation), the value last written *)
Record tcell := { topen : option tkind; tid : Z; tlast : Z }.

Definition tcell0 : tcell := {| topen := None; tid := -1; tlast := 0 |}.

Definition tmap := list (Z * tcell).

Fixpoint tget (m : tmap) (a : Z) : tcell :=
  match m with
  | [] => tcell0
  | (b, c) :: m' => if Z.eqb a b then c else tget m' a
  end.

Fixpoint tset (m : tmap) (a : Z) (c : tcell) : tmap :=
  match m with
  | [] => [(a, c)]
  | (b, c') :: m' => if Z.eqb a b then (a, c) :: m' else (b, c') :: tset m' a c
  end.

Definition turn_step (m : tmap) (e : tev) : option tmap :=
  match e with
  | TBegin a k i v =>
      let c := tget m a in
      match topen c with
      | Some _ => None                                   (* a Begin inside an open invocation: overlap *)
      | None =>
          if (tid c <? i) && (v =? tlast c)              (* fresh id; reads what the predecessor wrote *)
          then Some (tset m a {| topen := Some k; tid := i; tlast := tlast c |})
          else None
      end
  | TEnd a k i w =>
      let c := tget m a in
      match topen c with
      | Some k' =>
          if tkind_eqb k k' && (i =? tid c)              (* the End of the invocation in progress *)
          then Some (tset m a {| topen := None; tid := tid c; tlast := w |})
          else None
      | None => None                                     (* an End without an open invocation *)
      end
  end.

Fixpoint turn_run (m : tmap) (tr : list tev) : option tmap :=
  match tr with
  | [] => Some m
  | e :: tr' => match turn_step m e with Some m' => turn_run m' tr' | None => None end
  end.

(* the checker: well-bracketed per actor, Ends match, ids fresh, every Begin reads the last write *)
Definition turns_ok (tr : list tev) : bool :=
  match turn_run [] tr with Some _ => true | None => false end.

(* for traces of scripts that ran to the end (system shut down): no invocation is left open *)
Definition tclosed (m : tmap) : bool :=
  forallb (fun p => match topen (snd p) with None => true | Some _ => false end) m.

Definition turns_ok_closed (tr : list tev) : bool :=
  match turn_run [] tr with Some m => tclosed m | None => false end.

(* position of the first offending event (diagnostics only) *)
Fixpoint tfirst_bad (m : tmap) (tr : list tev) (p : Z) : option Z :=
  match tr with
  | [] => None
  | e :: tr' => match turn_step m e with Some m' => tfirst_bad m' tr' (p + 1) | None => Some p end
  end.

(* ---- the declarative reading used by the completeness theorem: the events of ONE actor, in trace
   order, are a sequence of complete invocations (Begin directly followed by its End, ids growing, each
   Begin reading the value written by the End before it), possibly followed by one Begin still open *)
Definition tproj (a : Z) (tr : list tev) : list tev := filter (fun e => Z.eqb (tactor e) a) tr.

Inductive seq_hist (a : Z) : Z -> Z -> list tev -> Prop :=
| sh_nil : forall j v, seq_hist a j v []
| sh_open : forall j v k i, j < i -> seq_hist a j v [TBegin a k i v]
| sh_turn : forall j v k i w l, j < i -> seq_hist a i w l ->
            seq_hist a j v (TBegin a k i v :: TEnd a k i w :: l).
