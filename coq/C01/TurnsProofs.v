(* MV.C01.TurnsProofs — soundness and completeness of the trace checker MV.C01.TurnsModel.turns_ok.

   Soundness, for EVERY trace (no assumption on how it was produced):
     turns_no_overlap        two invocations of one actor, given by the positions of their Begin and End
                             events, are disjoint in the recorder's order: e1 < b2 or e2 < b1;
     turns_end_unique        an invocation has one End; turns_begin_unique: an End closes one Begin;
     turns_between           between the Begin and the End of an invocation there is no other event of
                             that actor at all;
     turns_first_reads_init  an invocation with no earlier End of its actor read the initial value 0;
     turns_reads_last_write  an invocation read exactly what the latest earlier End of its actor wrote;
     turns_closed_all_ended  (turns_ok_closed) every Begin has its End.
   Completeness: turns_complete — a trace whose per-actor projections are sequential histories
   (seq_hist: complete invocations one after the other, ids growing, values chained, possibly one
   invocation still open) is accepted, however the actors are interleaved; turns_exact is the
   equivalence. *)
From MV Require Import Lib.ListX C01.TurnsModel.
Local Open Scope Z_scope.

(* ------------------------------------------------------------------ the per-actor map *)

Lemma tget_tset_same m a c : tget (tset m a c) a = c.
Proof.
  induction m as [|[b c'] m IH]; simpl.
  - rewrite Z.eqb_refl. reflexivity.
  - destruct (Z.eqb a b) eqn:E; simpl.
    + rewrite Z.eqb_refl. reflexivity.
    + rewrite E. exact IH.
Qed.

Lemma tget_tset_other m a b c : a <> b -> tget (tset m a c) b = tget m b.
Proof.
  intros H. induction m as [|[x c'] m IH]; simpl.
  - destruct (Z.eqb b a) eqn:E; auto. apply Z.eqb_eq in E. congruence.
  - destruct (Z.eqb a x) eqn:E; simpl.
    + apply Z.eqb_eq in E. subst x. destruct (Z.eqb b a) eqn:E2; auto.
      apply Z.eqb_eq in E2. congruence.
    + destruct (Z.eqb b x); auto.
Qed.

Lemma tkind_eqb_eq a b : tkind_eqb a b = true -> a = b.
Proof. destruct a, b; simpl; intros H; try discriminate; reflexivity. Qed.

Lemma tkind_eqb_refl a : tkind_eqb a a = true.
Proof. destruct a; reflexivity. Qed.

(* ------------------------------------------------------------------ what a successful step says *)

Lemma turn_step_begin m a k i v m' :
  turn_step m (TBegin a k i v) = Some m' ->
  topen (tget m a) = None /\ tid (tget m a) < i /\ v = tlast (tget m a) /\
  m' = tset m a {| topen := Some k; tid := i; tlast := tlast (tget m a) |}.
Proof.
  unfold turn_step. destruct (topen (tget m a)) eqn:O; try discriminate.
  destruct (tid (tget m a) <? i) eqn:L; simpl; try discriminate.
  destruct (v =? tlast (tget m a)) eqn:V; try discriminate.
  intros H. inversion H. apply Z.ltb_lt in L. apply Z.eqb_eq in V. auto.
Qed.

Lemma turn_step_end m a k i w m' :
  turn_step m (TEnd a k i w) = Some m' ->
  topen (tget m a) = Some k /\ i = tid (tget m a) /\
  m' = tset m a {| topen := None; tid := tid (tget m a); tlast := w |}.
Proof.
  unfold turn_step. destruct (topen (tget m a)) as [k'|] eqn:O; try discriminate.
  destruct (tkind_eqb k k') eqn:K; simpl; try discriminate.
  destruct (i =? tid (tget m a)) eqn:I; try discriminate.
  intros H. inversion H. apply tkind_eqb_eq in K. apply Z.eqb_eq in I. subst. auto.
Qed.

Lemma turn_step_other m e m' a : turn_step m e = Some m' -> tactor e <> a -> tget m' a = tget m a.
Proof.
  intros H Hn. destruct e as [b k i v|b k i w]; simpl in Hn.
  - apply turn_step_begin in H as (_ & _ & _ & ->). apply tget_tset_other. exact Hn.
  - apply turn_step_end in H as (_ & _ & ->). apply tget_tset_other. exact Hn.
Qed.

Lemma turn_run_cons m e tr m' :
  turn_run m (e :: tr) = Some m' -> exists m1, turn_step m e = Some m1 /\ turn_run m1 tr = Some m'.
Proof. simpl. destruct (turn_step m e) as [m1|]; try discriminate. eauto. Qed.

(* an event at a position of the trace belongs to its actor *)
Lemma nth0_actor (e e' : tev) tr : nth_error (e :: tr) 0 = Some e' -> e = e'.
Proof. simpl. congruence. Qed.

(* ------------------------------------------------------------------ ids that cannot come back *)

(* id i of actor a is spent in cell c: an End carrying it can no longer be accepted *)
Definition tdead (c : tcell) (i : Z) : Prop :=
  match topen c with None => i <= tid c | Some _ => i < tid c end.

Lemma dead_no_end : forall tr m m' a i,
  turn_run m tr = Some m' -> tdead (tget m a) i ->
  forall e k w, nth_error tr e <> Some (TEnd a k i w).
Proof.
  induction tr as [|ev tr IH]; intros m m' a i Hr Hd e k w Hn.
  - destruct e; discriminate.
  - apply turn_run_cons in Hr as (m1 & Hs & Hr).
    assert (Hd1 : tdead (tget m1 a) i /\ ev <> TEnd a k i w).
    { destruct (Z.eq_dec (tactor ev) a) as [Ea|Ea].
      - destruct ev as [b k0 i0 v0|b k0 i0 w0]; simpl in Ea; subst b.
        + apply turn_step_begin in Hs as (Ho & Hl & _ & ->). rewrite tget_tset_same.
          unfold tdead in *. rewrite Ho in Hd. simpl. split; [lia | discriminate].
        + apply turn_step_end in Hs as (Ho & Hi & ->). rewrite tget_tset_same.
          unfold tdead in *. rewrite Ho in Hd. simpl. split; [lia|].
          intros Heq. inversion Heq. lia.
      - rewrite (turn_step_other _ _ _ _ Hs Ea). split; [exact Hd|].
        intros ->. simpl in Ea. congruence. }
    destruct Hd1 as [Hd1 Hne]. destruct e as [|e].
    + simpl in Hn. congruence.
    + simpl in Hn. exact (IH _ _ _ _ Hr Hd1 _ _ _ Hn).
Qed.

(* actor a is inside an invocation: its End (the one with the current id) comes before every later
   Begin of a, and it is the only End with that id *)
Lemma open_end_before_begin : forall tr m m' a k0 e k1 w b2 k2 i2 v2,
  turn_run m tr = Some m' -> topen (tget m a) = Some k0 ->
  nth_error tr e = Some (TEnd a k1 (tid (tget m a)) w) ->
  nth_error tr b2 = Some (TBegin a k2 i2 v2) -> (e < b2)%nat.
Proof.
  induction tr as [|ev tr IH]; intros m m' a k0 e k1 w b2 k2 i2 v2 Hr Ho He Hb.
  - destruct e; discriminate.
  - apply turn_run_cons in Hr as (m1 & Hs & Hr).
    destruct (Z.eq_dec (tactor ev) a) as [Ea|Ea].
    + destruct ev as [b k i v|b k i w0]; simpl in Ea; subst b.
      * apply turn_step_begin in Hs as (Ho' & _). congruence.
      * apply turn_step_end in Hs as (_ & Hi & ->).
        destruct b2 as [|b2]; [simpl in Hb; discriminate|].
        destruct e as [|e]; [lia|]. exfalso. simpl in He.
        refine (dead_no_end _ _ _ a (tid (tget m a)) Hr _ _ _ _ He).
        rewrite tget_tset_same. unfold tdead. simpl. lia.
    + destruct e as [|e]; [simpl in He; inversion He; subst ev; simpl in Ea; congruence|].
      destruct b2 as [|b2]; [simpl in Hb; inversion Hb; subst ev; simpl in Ea; congruence|].
      simpl in He, Hb. rewrite <- (turn_step_other _ _ _ _ Hs Ea) in He, Ho.
      specialize (IH _ _ _ _ _ _ _ _ _ _ _ Hr Ho He Hb). lia.
Qed.

Lemma open_end_unique : forall tr m m' a k0 e1 k1 w1 e2 k2 w2,
  turn_run m tr = Some m' -> topen (tget m a) = Some k0 ->
  nth_error tr e1 = Some (TEnd a k1 (tid (tget m a)) w1) ->
  nth_error tr e2 = Some (TEnd a k2 (tid (tget m a)) w2) -> e1 = e2.
Proof.
  induction tr as [|ev tr IH]; intros m m' a k0 e1 k1 w1 e2 k2 w2 Hr Ho H1 H2.
  - destruct e1; discriminate.
  - apply turn_run_cons in Hr as (m1 & Hs & Hr).
    destruct (Z.eq_dec (tactor ev) a) as [Ea|Ea].
    + destruct ev as [b k i v|b k i w0]; simpl in Ea; subst b.
      * apply turn_step_begin in Hs as (Ho' & _). congruence.
      * apply turn_step_end in Hs as (_ & Hi & ->).
        assert (Hd : tdead (tget (tset m a {| topen := None; tid := tid (tget m a); tlast := w0 |}) a)
                           (tid (tget m a))).
        { rewrite tget_tset_same. unfold tdead. simpl. lia. }
        destruct e1 as [|e1]; destruct e2 as [|e2]; auto; exfalso.
        -- simpl in H2. exact (dead_no_end _ _ _ _ _ Hr Hd _ _ _ H2).
        -- simpl in H1. exact (dead_no_end _ _ _ _ _ Hr Hd _ _ _ H1).
        -- simpl in H1. exact (dead_no_end _ _ _ _ _ Hr Hd _ _ _ H1).
    + destruct e1 as [|e1]; [simpl in H1; inversion H1; subst ev; simpl in Ea; congruence|].
      destruct e2 as [|e2]; [simpl in H2; inversion H2; subst ev; simpl in Ea; congruence|].
      simpl in H1, H2. rewrite <- (turn_step_other _ _ _ _ Hs Ea) in H1, H2, Ho.
      f_equal. exact (IH _ _ _ _ _ _ _ _ _ _ Hr Ho H1 H2).
Qed.

(* while a is inside an invocation, the first event of a (if any) is the End of that invocation *)
Lemma open_nothing_before_end : forall tr m m' a k0 e k1 w p,
  turn_run m tr = Some m' -> topen (tget m a) = Some k0 ->
  nth_error tr e = Some (TEnd a k1 (tid (tget m a)) w) ->
  (p < e)%nat -> forall x, nth_error tr p = Some x -> tactor x <> a.
Proof.
  induction tr as [|ev tr IH]; intros m m' a k0 e k1 w p Hr Ho He Hp x Hx.
  - destruct e; discriminate.
  - apply turn_run_cons in Hr as (m1 & Hs & Hr).
    destruct e as [|e]; [lia|]. simpl in He.
    destruct (Z.eq_dec (tactor ev) a) as [Ea|Ea].
    + exfalso. destruct ev as [b k i v|b k i w0]; simpl in Ea; subst b.
      * apply turn_step_begin in Hs as (Ho' & _). congruence.
      * apply turn_step_end in Hs as (_ & Hi & ->).
        refine (dead_no_end _ _ _ a (tid (tget m a)) Hr _ _ _ _ He).
        rewrite tget_tset_same. unfold tdead. simpl. lia.
    + destruct p as [|p].
      * simpl in Hx. inversion Hx. subst x. exact Ea.
      * simpl in Hx. rewrite <- (turn_step_other _ _ _ _ Hs Ea) in He, Ho.
        eapply IH; [exact Hr | exact Ho | exact He | | exact Hx]. lia.
Qed.

(* ------------------------------------------------------------------ invocations by positions *)

(* an invocation of actor a in trace tr: its Begin is the event at position b, its End the event at
   position e (same actor, kind and id), b before e *)
Definition tinvocation (tr : list tev) (a : Z) (b e : nat) : Prop :=
  (b < e)%nat /\ exists k i v w,
    nth_error tr b = Some (TBegin a k i v) /\ nth_error tr e = Some (TEnd a k i w).

Lemma no_overlap_lt : forall tr m m' a b1 e1 k1 i1 v1 w1 b2 k2 i2 v2,
  turn_run m tr = Some m' ->
  nth_error tr b1 = Some (TBegin a k1 i1 v1) -> nth_error tr e1 = Some (TEnd a k1 i1 w1) ->
  (b1 < e1)%nat -> nth_error tr b2 = Some (TBegin a k2 i2 v2) -> (b1 < b2)%nat -> (e1 < b2)%nat.
Proof.
  induction tr as [|ev tr IH]; intros m m' a b1 e1 k1 i1 v1 w1 b2 k2 i2 v2 Hr Hb1 He1 Hlt Hb2 Hlt2.
  - destruct b1; discriminate.
  - apply turn_run_cons in Hr as (m1 & Hs & Hr).
    destruct e1 as [|e1]; [lia|]. destruct b2 as [|b2]; [lia|]. simpl in He1, Hb2.
    destruct b1 as [|b1].
    + simpl in Hb1. inversion Hb1. subst ev.
      apply turn_step_begin in Hs as (_ & _ & _ & ->).
      assert (Hg : tget (tset m a {| topen := Some k1; tid := i1; tlast := tlast (tget m a) |}) a =
                   {| topen := Some k1; tid := i1; tlast := tlast (tget m a) |}) by apply tget_tset_same.
      assert (e1 < b2)%nat; [|lia].
      eapply open_end_before_begin; [exact Hr | rewrite Hg; reflexivity | rewrite Hg; simpl; exact He1 | exact Hb2].
    + simpl in Hb1.
      assert (e1 < b2)%nat; [|lia]. eapply IH; [exact Hr | exact Hb1 | exact He1 | lia | exact Hb2 | lia].
Qed.

Lemma turns_ok_run tr : turns_ok tr = true -> exists m', turn_run [] tr = Some m'.
Proof. unfold turns_ok. destruct (turn_run [] tr); [eauto | discriminate]. Qed.

(* C01, first clause: two invocations of one actor never overlap *)
Theorem turns_no_overlap : forall tr, turns_ok tr = true ->
  forall a b1 e1 b2 e2, tinvocation tr a b1 e1 -> tinvocation tr a b2 e2 -> b1 <> b2 ->
  (e1 < b2)%nat \/ (e2 < b1)%nat.
Proof.
  intros tr Hok a b1 e1 b2 e2 (L1 & k1 & i1 & v1 & w1 & B1 & E1) (L2 & k2 & i2 & v2 & w2 & B2 & E2) Hne.
  destruct (turns_ok_run _ Hok) as [m' Hr].
  destruct (Nat.lt_ge_cases b1 b2) as [H|H].
  - left. exact (no_overlap_lt _ _ _ _ _ _ _ _ _ _ _ _ _ _ Hr B1 E1 L1 B2 H).
  - right. exact (no_overlap_lt _ _ _ _ _ _ _ _ _ _ _ _ _ _ Hr B2 E2 L2 B1 ltac:(lia)).
Qed.

Lemma end_unique_run : forall tr m m' a b k i v e1 w1 e2 w2,
  turn_run m tr = Some m' -> nth_error tr b = Some (TBegin a k i v) ->
  nth_error tr e1 = Some (TEnd a k i w1) -> nth_error tr e2 = Some (TEnd a k i w2) ->
  (b < e1)%nat -> (b < e2)%nat -> e1 = e2.
Proof.
  induction tr as [|ev tr IH]; intros m m' a b k i v e1 w1 e2 w2 Hr Hb H1 H2 L1 L2.
  - destruct b; discriminate.
  - apply turn_run_cons in Hr as (m1 & Hs & Hr).
    destruct e1 as [|e1]; [lia|]. destruct e2 as [|e2]; [lia|]. simpl in H1, H2. f_equal.
    destruct b as [|b].
    + simpl in Hb. inversion Hb. subst ev.
      apply turn_step_begin in Hs as (_ & _ & _ & ->).
      assert (Hg : tget (tset m a {| topen := Some k; tid := i; tlast := tlast (tget m a) |}) a =
                   {| topen := Some k; tid := i; tlast := tlast (tget m a) |}) by apply tget_tset_same.
      eapply open_end_unique; [exact Hr | rewrite Hg; reflexivity | rewrite Hg; simpl; exact H1 | rewrite Hg; simpl; exact H2].
    + simpl in Hb. eapply IH; [exact Hr | exact Hb | exact H1 | exact H2 | lia | lia].
Qed.

Theorem turns_end_unique : forall tr, turns_ok tr = true ->
  forall a b e1 e2, tinvocation tr a b e1 -> tinvocation tr a b e2 -> e1 = e2.
Proof.
  intros tr Hok a b e1 e2 (L1 & k1 & i1 & v1 & w1 & B1 & E1) (L2 & k2 & i2 & v2 & w2 & B2 & E2).
  destruct (turns_ok_run _ Hok) as [m' Hr].
  rewrite B1 in B2. inversion B2. subst k2 i2 v2.
  exact (end_unique_run _ _ _ _ _ _ _ _ _ _ _ _ Hr B1 E1 E2 L1 L2).
Qed.

Theorem turns_begin_unique : forall tr, turns_ok tr = true ->
  forall a b1 b2 e, tinvocation tr a b1 e -> tinvocation tr a b2 e -> b1 = b2.
Proof.
  intros tr Hok a b1 b2 e H1 H2. destruct (Nat.eq_dec b1 b2) as [|Hne]; auto.
  destruct (turns_no_overlap _ Hok _ _ _ _ _ H1 H2 Hne); destruct H1, H2; lia.
Qed.

Lemma between_run : forall tr m m' a b e k i v w p x,
  turn_run m tr = Some m' -> nth_error tr b = Some (TBegin a k i v) -> nth_error tr e = Some (TEnd a k i w) ->
  (b < p)%nat -> (p < e)%nat -> nth_error tr p = Some x -> tactor x <> a.
Proof.
  induction tr as [|ev tr IH]; intros m m' a b e k i v w p x Hr Hb He L1 L2 Hx.
  - destruct b; discriminate.
  - apply turn_run_cons in Hr as (m1 & Hs & Hr).
    destruct e as [|e]; [lia|]. destruct p as [|p]; [lia|]. simpl in He, Hx.
    destruct b as [|b].
    + simpl in Hb. inversion Hb. subst ev.
      apply turn_step_begin in Hs as (_ & _ & _ & ->).
      assert (Hg : tget (tset m a {| topen := Some k; tid := i; tlast := tlast (tget m a) |}) a =
                   {| topen := Some k; tid := i; tlast := tlast (tget m a) |}) by apply tget_tset_same.
      eapply open_nothing_before_end; [exact Hr | rewrite Hg; reflexivity | rewrite Hg; simpl; exact He | | exact Hx]. lia.
    + simpl in Hb. eapply IH; [exact Hr | exact Hb | exact He | | | exact Hx]; lia.
Qed.

(* between the Begin and the End of an invocation the actor does nothing else *)
Theorem turns_between : forall tr, turns_ok tr = true ->
  forall a b e, tinvocation tr a b e ->
  forall p x, (b < p)%nat -> (p < e)%nat -> nth_error tr p = Some x -> tactor x <> a.
Proof.
  intros tr Hok a b e (L & k & i & v & w & B & E) p x L1 L2 Hx.
  destruct (turns_ok_run _ Hok) as [m' Hr].
  exact (between_run _ _ _ _ _ _ _ _ _ _ _ _ Hr B E L1 L2 Hx).
Qed.

(* ------------------------------------------------------------------ visibility *)

Definition no_end_of (tr : list tev) (a : Z) (lo hi : nat) : Prop :=
  forall p k i w, (lo <= p)%nat -> (p < hi)%nat -> nth_error tr p <> Some (TEnd a k i w).

Lemma reads_cell : forall tr m m' a b k i v,
  turn_run m tr = Some m' -> nth_error tr b = Some (TBegin a k i v) -> no_end_of tr a 0 b ->
  v = tlast (tget m a).
Proof.
  induction tr as [|ev tr IH]; intros m m' a b k i v Hr Hb Hn.
  - destruct b; discriminate.
  - apply turn_run_cons in Hr as (m1 & Hs & Hr). destruct b as [|b].
    + simpl in Hb. inversion Hb. subst ev. apply turn_step_begin in Hs as (_ & _ & Hv & _). exact Hv.
    + simpl in Hb.
      assert (Hl : tlast (tget m1 a) = tlast (tget m a)).
      { destruct (Z.eq_dec (tactor ev) a) as [Ea|Ea].
        - destruct ev as [c k0 i0 v0|c k0 i0 w0]; simpl in Ea; subst c.
          + apply turn_step_begin in Hs as (_ & _ & _ & ->). rewrite tget_tset_same. reflexivity.
          + exfalso. exact (Hn 0%nat k0 i0 w0 ltac:(lia) ltac:(lia) eq_refl).
        - rewrite (turn_step_other _ _ _ _ Hs Ea). reflexivity. }
      rewrite <- Hl. apply (IH _ _ _ _ _ _ _ Hr Hb).
      intros p k' i' w' L1 L2. exact (Hn (S p) k' i' w' ltac:(lia) ltac:(lia)).
Qed.

(* the first invocation of an actor reads the initial value *)
Theorem turns_first_reads_init : forall tr, turns_ok tr = true ->
  forall a b k i v, nth_error tr b = Some (TBegin a k i v) -> no_end_of tr a 0 b -> v = 0.
Proof.
  intros tr Hok a b k i v Hb Hn. destruct (turns_ok_run _ Hok) as [m' Hr].
  exact (reads_cell _ _ _ _ _ _ _ _ Hr Hb Hn).
Qed.

Lemma reads_last_write_run : forall tr m m' a e k' i' w b k i v,
  turn_run m tr = Some m' -> nth_error tr e = Some (TEnd a k' i' w) ->
  nth_error tr b = Some (TBegin a k i v) -> (e < b)%nat -> no_end_of tr a (S e) b -> v = w.
Proof.
  induction tr as [|ev tr IH]; intros m m' a e k' i' w b k i v Hr He Hb L Hn.
  - destruct e; discriminate.
  - apply turn_run_cons in Hr as (m1 & Hs & Hr).
    destruct b as [|b]; [lia|]. simpl in Hb. destruct e as [|e].
    + simpl in He. inversion He. subst ev. apply turn_step_end in Hs as (_ & _ & ->).
      rewrite (reads_cell _ _ _ _ _ _ _ _ Hr Hb).
      * rewrite tget_tset_same. reflexivity.
      * intros p k0 i0 w0 L1 L2. exact (Hn (S p) k0 i0 w0 ltac:(lia) ltac:(lia)).
    + simpl in He. eapply IH; [exact Hr | exact He | exact Hb | lia |].
      intros p k0 i0 w0 L1 L2. exact (Hn (S p) k0 i0 w0 ltac:(lia) ltac:(lia)).
Qed.

(* C01, second clause: an invocation observed exactly what its predecessor — the latest earlier End of
   the same actor — wrote *)
Theorem turns_reads_last_write : forall tr, turns_ok tr = true ->
  forall a e k' i' w b k i v,
  nth_error tr e = Some (TEnd a k' i' w) -> nth_error tr b = Some (TBegin a k i v) ->
  (e < b)%nat -> no_end_of tr a (S e) b -> v = w.
Proof.
  intros tr Hok a e k' i' w b k i v He Hb L Hn. destruct (turns_ok_run _ Hok) as [m' Hr].
  exact (reads_last_write_run _ _ _ _ _ _ _ _ _ _ _ _ Hr He Hb L Hn).
Qed.

(* ------------------------------------------------------------------ closed traces *)

Lemma tclosed_get : forall m a, tclosed m = true -> topen (tget m a) = None.
Proof.
  induction m as [|[b c] m IH]; intros a H; simpl in *; auto.
  apply andb_true_iff in H as [H1 H2]. destruct (Z.eqb a b).
  - destruct (topen c); [discriminate | reflexivity].
  - apply IH. exact H2.
Qed.

Lemma open_gets_closed : forall tr m m' a k0,
  turn_run m tr = Some m' -> topen (tget m a) = Some k0 -> topen (tget m' a) = None ->
  exists e w, nth_error tr e = Some (TEnd a k0 (tid (tget m a)) w).
Proof.
  induction tr as [|ev tr IH]; intros m m' a k0 Hr Ho Hc.
  - simpl in Hr. inversion Hr. subst. congruence.
  - apply turn_run_cons in Hr as (m1 & Hs & Hr).
    destruct (Z.eq_dec (tactor ev) a) as [Ea|Ea].
    + destruct ev as [b k i v|b k i w0]; simpl in Ea; subst b.
      * apply turn_step_begin in Hs as (Ho' & _). congruence.
      * apply turn_step_end in Hs as (Hk & Hi & _). exists 0%nat, w0. simpl. congruence.
    + rewrite <- (turn_step_other _ _ _ _ Hs Ea) in Ho |- *.
      destruct (IH _ _ _ _ Hr Ho Hc) as (e & w & He). exists (S e), w. exact He.
Qed.

Lemma closed_all_ended_run : forall tr m m' a b k i v,
  turn_run m tr = Some m' -> topen (tget m' a) = None -> nth_error tr b = Some (TBegin a k i v) ->
  exists e w, (b < e)%nat /\ nth_error tr e = Some (TEnd a k i w).
Proof.
  induction tr as [|ev tr IH]; intros m m' a b k i v Hr Hc Hb.
  - destruct b; discriminate.
  - apply turn_run_cons in Hr as (m1 & Hs & Hr). destruct b as [|b].
    + simpl in Hb. inversion Hb. subst ev. apply turn_step_begin in Hs as (_ & _ & _ & ->).
      assert (Hg : tget (tset m a {| topen := Some k; tid := i; tlast := tlast (tget m a) |}) a =
                   {| topen := Some k; tid := i; tlast := tlast (tget m a) |}) by apply tget_tset_same.
      destruct (open_gets_closed _ _ _ a k Hr ltac:(rewrite Hg; reflexivity) Hc) as (e & w & He).
      rewrite Hg in He. simpl in He. exists (S e), w. split; [lia | exact He].
    + simpl in Hb. destruct (IH _ _ _ _ _ _ _ Hr Hc Hb) as (e & w & L & He).
      exists (S e), w. split; [lia | exact He].
Qed.

Theorem turns_closed_all_ended : forall tr, turns_ok_closed tr = true ->
  turns_ok tr = true /\
  forall a b k i v, nth_error tr b = Some (TBegin a k i v) -> exists e, tinvocation tr a b e.
Proof.
  intros tr H. unfold turns_ok_closed in H. unfold turns_ok.
  destruct (turn_run [] tr) as [m'|] eqn:Hr; try discriminate. split; auto.
  intros a b k i v Hb.
  destruct (closed_all_ended_run _ _ _ a _ _ _ _ Hr (tclosed_get _ _ H) Hb) as (e & w & L & He).
  exists e. split; [exact L|]. exists k, i, v, w. auto.
Qed.

(* ------------------------------------------------------------------ completeness *)

(* the checker restricted to one actor, as a relation on that actor's events *)
Inductive hist (a : Z) : tcell -> list tev -> Prop :=
| h_nil : forall c, hist a c []
| h_begin : forall c k i v l, topen c = None -> tid c < i -> v = tlast c ->
    hist a {| topen := Some k; tid := i; tlast := tlast c |} l -> hist a c (TBegin a k i v :: l)
| h_end : forall c k i w l, topen c = Some k -> i = tid c ->
    hist a {| topen := None; tid := tid c; tlast := w |} l -> hist a c (TEnd a k i w :: l).

Lemma tproj_cons_same e tr : tproj (tactor e) (e :: tr) = e :: tproj (tactor e) tr.
Proof. unfold tproj. simpl. rewrite Z.eqb_refl. reflexivity. Qed.

Lemma tproj_cons_other e tr a : tactor e <> a -> tproj a (e :: tr) = tproj a tr.
Proof.
  intros H. unfold tproj. simpl. destruct (Z.eqb (tactor e) a) eqn:E; auto.
  apply Z.eqb_eq in E. congruence.
Qed.

Lemma turn_run_complete : forall tr m,
  (forall a, hist a (tget m a) (tproj a tr)) -> exists m', turn_run m tr = Some m'.
Proof.
  induction tr as [|ev tr IH]; intros m H.
  - simpl. eauto.
  - pose proof (H (tactor ev)) as H0. rewrite tproj_cons_same in H0.
    assert (Hs : exists c1, turn_step m ev = Some (tset m (tactor ev) c1) /\ hist (tactor ev) c1 (tproj (tactor ev) tr)).
    { destruct ev as [b k i v|b k i w]; simpl in *; inversion H0; subst.
      - eexists. split; [|eassumption].
        match goal with Ho : topen _ = None |- _ => rewrite Ho end.
        replace (tid (tget m b) <? i) with true by (symmetry; apply Z.ltb_lt; assumption).
        rewrite Z.eqb_refl. reflexivity.
      - eexists. split; [|eassumption].
        match goal with Ho : topen _ = Some _ |- _ => rewrite Ho end.
        rewrite tkind_eqb_refl, Z.eqb_refl. reflexivity. }
    destruct Hs as (c1 & Hs & Hh). simpl. rewrite Hs. apply IH. intros a.
    destruct (Z.eq_dec (tactor ev) a) as [<-|Ea].
    + rewrite tget_tset_same. exact Hh.
    + rewrite tget_tset_other by exact Ea. specialize (H a).
      rewrite tproj_cons_other in H by exact Ea. exact H.
Qed.

Lemma seq_hist_hist a j v l : seq_hist a j v l -> hist a {| topen := None; tid := j; tlast := v |} l.
Proof.
  induction 1.
  - constructor.
  - apply h_begin; simpl; auto. constructor.
  - apply h_begin; simpl; auto. apply h_end; simpl; auto.
Qed.

(* completeness: sequential per-actor histories, interleaved in any way, are accepted *)
Theorem turns_complete : forall tr,
  (forall a, seq_hist a (-1) 0 (tproj a tr)) -> turns_ok tr = true.
Proof.
  intros tr H. unfold turns_ok.
  destruct (turn_run_complete tr []) as [m' ->]; auto.
  intros a. simpl. apply (seq_hist_hist a (-1) 0). apply H.
Qed.

(* and conversely: what is accepted is, actor by actor, a sequential history *)
Lemma turn_run_hist : forall tr m m', turn_run m tr = Some m' -> forall a, hist a (tget m a) (tproj a tr).
Proof.
  induction tr as [|ev tr IH]; intros m m' Hr a.
  - constructor.
  - apply turn_run_cons in Hr as (m1 & Hs & Hr). specialize (IH _ _ Hr a).
    destruct (Z.eq_dec (tactor ev) a) as [<-|Ea].
    + rewrite tproj_cons_same. destruct ev as [b k i v|b k i w]; simpl in *.
      * apply turn_step_begin in Hs as (Ho & Hl & Hv & ->). rewrite tget_tset_same in IH.
        apply h_begin; auto.
      * apply turn_step_end in Hs as (Ho & Hi & ->). rewrite tget_tset_same in IH.
        apply h_end; auto.
    + rewrite tproj_cons_other by exact Ea. rewrite <- (turn_step_other _ _ _ _ Hs Ea). exact IH.
Qed.

Lemma hist_seq_hist a c l : hist a c l ->
  match topen c with
  | None => seq_hist a (tid c) (tlast c) l
  | Some k => l = [] \/ exists w l', l = TEnd a k (tid c) w :: l' /\ seq_hist a (tid c) w l'
  end.
Proof.
  induction 1 as [c|c k i v l Ho Hl Hv Hh IH|c k i w l Ho Hi Hh IH].
  - destruct (topen c); [left; reflexivity | constructor].
  - rewrite Ho. simpl in IH. subst v. destruct IH as [->|(w & l' & -> & Hs)].
    + apply sh_open. exact Hl.
    + apply sh_turn; assumption.
  - rewrite Ho. simpl in IH. right. exists w, l. subst i. auto.
Qed.

Theorem turns_exact : forall tr,
  turns_ok tr = true <-> (forall a, seq_hist a (-1) 0 (tproj a tr)).
Proof.
  intros tr. split; [|apply turns_complete].
  intros Hok a. destruct (turns_ok_run _ Hok) as [m' Hr].
  exact (hist_seq_hist a _ _ (turn_run_hist _ _ _ Hr a)).
Qed.

(* ------------------------------------------------------------------ refutation examples *)

(* the behaviour of the change "ExecLocalFunc on the actor's own reference runs the function on the
   spot": actor 1 is inside the handler of a user message (Begin at 0) when a local function of actor 1
   begins (position 1) on another goroutine — rejected, and rejected at that very event *)
Definition tr_inline_local : list tev :=
  [TBegin 1 TUser 0 0; TBegin 1 TLocal 1 0; TEnd 1 TLocal 1 1; TEnd 1 TUser 0 1].

Lemma inline_local_rejected : turns_ok tr_inline_local = false /\ tfirst_bad [] tr_inline_local 0 = Some 1.
Proof. split; vm_compute; reflexivity. Qed.

(* a timer callback fired from the timer goroutine while the handler of actor 2 is busy; another actor
   interleaves correctly *)
Definition tr_inline_timer : list tev :=
  [TBegin 2 TSys 0 0; TEnd 2 TSys 0 1; TBegin 3 TUser 2 0; TBegin 2 TUser 3 1; TEnd 3 TUser 2 1;
   TBegin 2 TTimer 5 1; TEnd 2 TUser 3 2; TEnd 2 TTimer 5 2].

Lemma inline_timer_rejected : turns_ok tr_inline_timer = false /\ tfirst_bad [] tr_inline_timer 0 = Some 5.
Proof. split; vm_compute; reflexivity. Qed.

(* no overlap in the recorder's order, but the second invocation did not see the write of the first *)
Definition tr_stale : list tev :=
  [TBegin 1 TUser 0 0; TEnd 1 TUser 0 1; TBegin 1 TTimer 2 0; TEnd 1 TTimer 2 1].

Lemma stale_rejected : turns_ok tr_stale = false /\ tfirst_bad [] tr_stale 0 = Some 2.
Proof. split; vm_compute; reflexivity. Qed.

(* non-vacuity: a sequential trace of two interleaved actors, all four kinds, is accepted *)
Definition tr_good : list tev :=
  [TBegin 1 TSys 0 0; TBegin 2 TSys 1 0; TEnd 1 TSys 0 1; TBegin 1 TUser 3 1; TEnd 2 TSys 1 1;
   TEnd 1 TUser 3 2; TBegin 2 TTimer 6 1; TBegin 1 TLocal 7 2; TEnd 1 TLocal 7 3; TEnd 2 TTimer 6 2].

Lemma good_accepted : turns_ok_closed tr_good = true.
Proof. vm_compute. reflexivity. Qed.
