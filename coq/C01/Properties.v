(* MV.C01.Properties — statements of property C01 ("an actor handles at most one message at a time")
   on the mailbox machine MV.C01.MboxModel, which transcribes mailbox/lock_free.go statement by
   statement (global_ordered_lock_free.go is the same algorithm; both files are replayed against this
   machine on every run). Quantification: every schedule, any number of concurrent senders of user and
   system messages, suspenders, resumers and dispatcher-started runners (spawned by the environment
   thread at will), handler panics included. *)
From MV Require Import Lib.ListX Lib.Sched C01.MboxModel C01.MboxProofs.
Open Scope Z_scope.

(* At most one thread is inside a handler invocation (ProcessUserMessage, ProcessSystemMessage or
   ProcessAccident) of one mailbox, in every reachable state. *)
Theorem C01_mutual_exclusion : forall st, reach init st -> in_handlers st <= 1.
Proof. exact mutual_exclusion. Qed.
Print Assumptions C01_mutual_exclusion.

(* The same statement over runs: after any schedule that the machine can execute. *)
Theorem C01_mutual_exclusion_runs : forall sched st es,
  run init sched = Some (st, es) -> in_handlers st <= 1.
Proof. intros sched st es H. apply mutual_exclusion. eapply run_reach; [constructor | exact H]. Qed.
Print Assumptions C01_mutual_exclusion_runs.

(* non-vacuity: a concrete schedule in which a runner is inside a handler while another sender
   pushes, adds and fails its CAS *)
Example C01_example :
  exists st es, run init [(0%nat, CSend KU 1%nat); (1%nat, CNone); (1%nat, CNone); (1%nat, CNone);
                          (2%nat, CNone); (2%nat, CNone); (2%nat, CNone); (2%nat, CNone); (2%nat, CNone);
                          (0%nat, CSend KU 2%nat); (3%nat, CNone); (3%nat, CNone); (3%nat, CNone)] = Some (st, es)
               /\ in_handlers st = 1.
Proof. eexists. eexists. split; [vm_compute; reflexivity | vm_compute; reflexivity]. Qed.

(* ------------------------------------------------------------------------------------------------
   Actor level ("turns"): every piece of user code of an actor — receive handler for user messages,
   for lifecycle / system messages, timer callbacks, locally executed functions — runs as a turn of its
   mailbox. MV.C01.TurnsModel.turns_ok is a checker for traces of Begin/End events recorded (by a
   sequentially consistent recorder) on the real vivid.ActorSystem by harness/cmd/c01turns; it is run
   under vm_compute on every recorded trace. The theorems below are its soundness — for EVERY trace,
   no assumption on how it was produced —, its completeness, and rejected witnesses. *)
From MV Require Import C01.TurnsModel C01.TurnsProofs.

(* An accepted trace has no two overlapping invocations of one actor: for invocations with Begin / End
   at positions b1 < e1 and b2 < e2 of the recorder's order, e1 < b2 or e2 < b1. *)
Theorem C01_turns_no_overlap : forall tr, turns_ok tr = true ->
  forall a b1 e1 b2 e2, tinvocation tr a b1 e1 -> tinvocation tr a b2 e2 -> b1 <> b2 ->
  (e1 < b2)%nat \/ (e2 < b1)%nat.
Proof. exact turns_no_overlap. Qed.
Print Assumptions C01_turns_no_overlap.

(* Begin and End events pair up one to one, and between the two events of an invocation the trace has
   no event of that actor at all. *)
Theorem C01_turns_bracketed : forall tr, turns_ok tr = true ->
  forall a b e, tinvocation tr a b e ->
  (forall e', tinvocation tr a b e' -> e' = e) /\ (forall b', tinvocation tr a b' e -> b' = b) /\
  (forall p x, (b < p)%nat -> (p < e)%nat -> nth_error tr p = Some x -> tactor x <> a).
Proof.
  intros tr H a b e Hi. split; [|split].
  - intros e' Hi'. exact (turns_end_unique tr H a b e' e Hi' Hi).
  - intros b' Hi'. exact (turns_begin_unique tr H a b' b e Hi' Hi).
  - exact (turns_between tr H a b e Hi).
Qed.
Print Assumptions C01_turns_bracketed.

(* Visibility: an invocation read from the actor's plain variable exactly what the latest earlier End
   of the same actor wrote; the first invocation read the initial value. *)
Theorem C01_turns_reads_last_write : forall tr, turns_ok tr = true ->
  forall a e k' i' w b k i v,
  nth_error tr e = Some (TEnd a k' i' w) -> nth_error tr b = Some (TBegin a k i v) ->
  (e < b)%nat -> no_end_of tr a (S e) b -> v = w.
Proof. exact turns_reads_last_write. Qed.
Print Assumptions C01_turns_reads_last_write.

Theorem C01_turns_first_reads_init : forall tr, turns_ok tr = true ->
  forall a b k i v, nth_error tr b = Some (TBegin a k i v) -> no_end_of tr a 0 b -> v = 0.
Proof. exact turns_first_reads_init. Qed.
Print Assumptions C01_turns_first_reads_init.

(* For the trace of a script that ran to the end (system shut down): every invocation that began ended. *)
Theorem C01_turns_closed_all_ended : forall tr, turns_ok_closed tr = true ->
  turns_ok tr = true /\
  forall a b k i v, nth_error tr b = Some (TBegin a k i v) -> exists e, tinvocation tr a b e.
Proof. exact turns_closed_all_ended. Qed.
Print Assumptions C01_turns_closed_all_ended.

(* Completeness (the checker does not reject correct behaviour): if the events of every actor, in trace
   order, are a sequential history — complete invocations one after the other with growing ids, each
   reading what the previous one wrote, possibly one still open — the trace is accepted, however the
   actors interleave; and only such traces are accepted. *)
Theorem C01_turns_complete : forall tr,
  (forall a, seq_hist a (-1) 0 (tproj a tr)) -> turns_ok tr = true.
Proof. exact turns_complete. Qed.
Print Assumptions C01_turns_complete.

Theorem C01_turns_exact : forall tr,
  turns_ok tr = true <-> (forall a, seq_hist a (-1) 0 (tproj a tr)).
Proof. exact turns_exact. Qed.
Print Assumptions C01_turns_exact.

(* Rejected: a local function that begins inside an open user-message invocation of the same actor
   (what "ExecLocalFunc on the actor's own reference runs the function on the spot" produces), a timer
   callback run from the timer goroutine inside a handler, and a stale read without overlap. *)
Theorem C01_turns_rejects_seeded_behaviours :
  turns_ok [TBegin 1 TUser 0 0; TBegin 1 TLocal 1 0; TEnd 1 TLocal 1 1; TEnd 1 TUser 0 1] = false /\
  turns_ok tr_inline_timer = false /\ turns_ok tr_stale = false /\ turns_ok_closed tr_good = true.
Proof.
  split; [exact (proj1 inline_local_rejected)|].
  split; [exact (proj1 inline_timer_rejected)|]. split; [exact (proj1 stale_rejected) | exact good_accepted].
Qed.
Print Assumptions C01_turns_rejects_seeded_behaviours.
