(* MV.C01.Properties — statements of property C01 ("an actor handles at most one message at a time")
   on the mailbox machine MV.C01.MboxModel, which transcribes mailbox/lock_free.go statement by
   statement (global_ordered_lock_free.go is the same algorithm; both files are replayed against this
   machine on every run). Quantification: every schedule, any number of concurrent senders of user and
   system messages, suspenders, resumers and dispatcher-started runners (spawned by the environment
   thread at will), handler panics included. *)
From MV Require Import Lib.ListX Lib.Sched C01.MboxModel C01.MboxProofs.
Open Scope Z_scope.

(* At most one thread is inside a handler invocation (ProcessUserMessage, ProcessSystemMessage or
   ProcessAccident) of one mailbox, in every reachable state. *)
Theorem C01_mutual_exclusion : forall st, reach init st -> in_handlers st <= 1.
Proof. exact mutual_exclusion. Qed.
Print Assumptions C01_mutual_exclusion.

(* The same statement over runs: after any schedule that the machine can execute. *)
Theorem C01_mutual_exclusion_runs : forall sched st es,
  run init sched = Some (st, es) -> in_handlers st <= 1.
Proof. intros sched st es H. apply mutual_exclusion. eapply run_reach; [constructor | exact H]. Qed.
Print Assumptions C01_mutual_exclusion_runs.

(* non-vacuity: a concrete schedule in which a runner is inside a handler while another sender
   pushes, adds and fails its CAS *)
Example C01_example :
  exists st es, run init [(0%nat, CSend KU 1%nat); (1%nat, CNone); (1%nat, CNone); (1%nat, CNone);
                          (2%nat, CNone); (2%nat, CNone); (2%nat, CNone); (2%nat, CNone); (2%nat, CNone);
                          (0%nat, CSend KU 2%nat); (3%nat, CNone); (3%nat, CNone); (3%nat, CNone)] = Some (st, es)
               /\ in_handlers st = 1.
Proof. eexists. eexists. split; [vm_compute; reflexivity | vm_compute; reflexivity]. Qed.
