(* MV.C20.CentroidProofs — vertex averages and the area centroid (shoelace) of centrally symmetric polygons
   with any number of vertices are the centre of symmetry. *)
From Coq Require Import QArith Qabs Qminmax Lqa Lia List Bool.
From MV Require Import C20.GeomModel C20.GeomProofs C20.PolyProofs.
Import ListNotations.
Open Scope Q_scope.

(* ------------------------------------------------------------------ area centroid of centrally symmetric polygons *)
(* sums over an edge list *)
Fixpoint esum (f : seg -> Q) (l : list seg) : Q := match l with [] => 0 | e :: t => f e + esum f t end.

Lemma esum_app f l1 l2 : esum f (l1 ++ l2) == esum f l1 + esum f l2.
Proof. induction l1 as [|e t IH]; cbn [app esum]; [ring|rewrite IH; ring]. Qed.

Lemma esum_ext f g l : (forall e, f e == g e) -> esum f l == esum g l.
Proof. intros H. induction l as [|e t IH]; cbn [esum]; [reflexivity|rewrite IH, H; reflexivity]. Qed.

Lemma esum_map f (h : seg -> seg) l : esum f (map h l) == esum (fun e => f (h e)) l.
Proof. induction l as [|e t IH]; cbn [map esum]; [reflexivity|rewrite IH; reflexivity]. Qed.

Lemma esum_plus f g l : esum (fun e => f e + g e) l == esum f l + esum g l.
Proof. induction l as [|e t IH]; cbn [esum]; [ring|rewrite IH; ring]. Qed.

Lemma esum_scale k f l : esum (fun e => k * f e) l == k * esum f l.
Proof. induction l as [|e t IH]; cbn [esum]; [ring|rewrite IH; ring]. Qed.

Lemma esum_zero f l : (forall e, f e == 0) -> esum f l == 0.
Proof. intros H. induction l as [|e t IH]; cbn [esum]; [reflexivity|rewrite IH, H; ring]. Qed.

Lemma fold_area l : forall acc, fold_left (fun a e => a + shoelace_term e) l acc == acc + esum shoelace_term l.
Proof. induction l as [|e t IH]; intros acc; cbn [fold_left esum]; [ring|rewrite IH; ring]. Qed.

Definition cxterm (e : seg) : Q := (px (fst e) + px (snd e)) * shoelace_term e.
Definition cyterm (e : seg) : Q := (py (fst e) + py (snd e)) * shoelace_term e.

Lemma fold_centroid l : forall acc,
  pt_eq (fold_left (fun a e => vadd a (vmul (vadd (fst e) (snd e)) (shoelace_term e))) l acc)
        (px acc + esum cxterm l, py acc + esum cyterm l).
Proof.
  induction l as [|e t IH]; intros acc; cbn [fold_left esum].
  - unfold pt_eq; qsimp. split; ring.
  - destruct (IH (vadd acc (vmul (vadd (fst e) (snd e)) (shoelace_term e)))) as [H1 H2].
    unfold pt_eq, vadd, vmul, cxterm, cyterm in *; qsimp. split; [rewrite H1|rewrite H2]; ring.
Qed.

Lemma polygon_centroid_sums P : ~ esum shoelace_term (edges P) == 0 ->
  pt_eq (polygon_centroid P) (esum cxterm (edges P) / (3 * esum shoelace_term (edges P)),
                              esum cyterm (edges P) / (3 * esum shoelace_term (edges P))).
Proof.
  intros Ha. unfold polygon_centroid, area2.
  destruct (fold_centroid (edges P) (0, 0)) as [H1 H2].
  pose proof (fold_area (edges P) 0) as H3.
  unfold pt_eq, vdiv in *; qsimp. rewrite H1, H2, H3. split; field; lra.
Qed.

(* telescoping over a closed edge list *)
Lemma esum_steps_tele (g : pt -> Q) : forall l a, esum (fun e => g (snd e) - g (fst e)) (steps (a :: l)) == g (last l a) - g a.
Proof.
  induction l as [|b t IH]; intros a; [cbn; ring|].
  change (steps (a :: b :: t)) with ((a, b) :: steps (b :: t)). cbn [esum fst snd]. rewrite IH.
  assert (El : last (b :: t) a = last t b) by (destruct t; [reflexivity|change (last (b :: p :: t) a) with (last (p :: t) a); apply last_indep; discriminate]).
  rewrite El. ring.
Qed.

Lemma esum_edges_tele (g : pt -> Q) P : esum (fun e => g (snd e) - g (fst e)) (edges P) == 0.
Proof.
  destruct P as [|p0 t]; [reflexivity|]. unfold edges. rewrite edges_from_steps by discriminate.
  rewrite esum_app. rewrite esum_steps_tele. cbn [esum fst snd].
  assert (E : last t p0 = last (p0 :: t) p0) by (destruct t; [reflexivity|change (last (p0 :: p :: t) p0) with (last (p :: t) p0); reflexivity]).
  rewrite E. ring.
Qed.

Definition emap (f : pt -> pt) (e : seg) : seg := (f (fst e), f (snd e)).

Lemma steps_map f : forall l, steps (map f l) = map (emap f) (steps l).
Proof.
  induction l as [|a t IH]; [reflexivity|]. destruct t as [|b t']; [reflexivity|].
  change (map f (a :: b :: t')) with (f a :: map f (b :: t')).
  change (map f (b :: t')) with (f b :: map f t') at 1.
  change (steps (f a :: f b :: map f t')) with ((f a, f b) :: steps (f b :: map f t')).
  change (steps (a :: b :: t')) with ((a, b) :: steps (b :: t')). cbn [map]. f_equal. exact IH.
Qed.

Lemma last_map {A B} (f : A -> B) : forall l d, last (map f l) (f d) = f (last l d).
Proof. induction l as [|a t IH]; intros d; [reflexivity|]. destruct t; [reflexivity|]. apply (IH d). Qed.

Lemma edges_map f P : edges (map f P) = map (emap f) (edges P).
Proof.
  destruct P as [|p0 t]; [reflexivity|]. unfold edges. change (map f (p0 :: t)) with (f p0 :: map f t).
  rewrite !edges_from_steps by discriminate.
  change (f p0 :: map f t) with (map f (p0 :: t)). rewrite steps_map, map_app, (last_map f (p0 :: t) p0). reflexivity.
Qed.

(* translation *)
Lemma shift_area c P : esum shoelace_term (edges (map (vadd c) P)) == esum shoelace_term (edges P).
Proof.
  rewrite edges_map, esum_map.
  set (G := fun p : pt => px c * py p - py c * px p).
  rewrite (esum_ext _ (fun e => shoelace_term e + (G (snd e) - G (fst e)))).
  - rewrite esum_plus, (esum_edges_tele G). ring.
  - intros [[ax ay] [bx by_]]. destruct c as [cx cy]. unfold G, shoelace_term, emap, vadd; qsimp. ring.
Qed.

Lemma shift_cx c P : esum cxterm (edges (map (vadd c) P)) == esum cxterm (edges P) + 3 * px c * esum shoelace_term (edges P).
Proof.
  rewrite edges_map, esum_map.
  set (G := fun p : pt => 2 * px c * px c * py p - 2 * px c * py c * px p + px c * (px p * py p) - py c * (px p * px p)).
  rewrite (esum_ext _ (fun e => (cxterm e + 3 * px c * shoelace_term e) + (G (snd e) - G (fst e)))).
  - rewrite esum_plus, esum_plus, esum_scale, (esum_edges_tele G). ring.
  - intros [[ax ay] [bx by_]]. destruct c as [cx cy]. unfold G, cxterm, shoelace_term, emap, vadd; qsimp. ring.
Qed.

Lemma shift_cy c P : esum cyterm (edges (map (vadd c) P)) == esum cyterm (edges P) + 3 * py c * esum shoelace_term (edges P).
Proof.
  rewrite edges_map, esum_map.
  set (G := fun p : pt => 2 * py c * px c * py p - 2 * py c * py c * px p + px c * (py p * py p) - py c * (px p * py p)).
  rewrite (esum_ext _ (fun e => (cyterm e + 3 * py c * shoelace_term e) + (G (snd e) - G (fst e)))).
  - rewrite esum_plus, esum_plus, esum_scale, (esum_edges_tele G). ring.
  - intros [[ax ay] [bx by_]]. destruct c as [cx cy]. unfold G, cyterm, shoelace_term, emap, vadd; qsimp. ring.
Qed.

(* a polygon symmetric about the origin: vs followed by the mirror images *)
Definition vopp (v : pt) : pt := (- px v, - py v).

Lemma steps_app : forall l1 l2 a b, steps ((a :: l1) ++ (b :: l2)) = steps (a :: l1) ++ [(last (a :: l1) a, b)] ++ steps (b :: l2).
Proof.
  induction l1 as [|x t IH]; intros l2 a b.
  - reflexivity.
  - change ((a :: x :: t) ++ b :: l2) with (a :: ((x :: t) ++ b :: l2)).
    change (steps (a :: (x :: t) ++ b :: l2)) with ((a, x) :: steps ((x :: t) ++ b :: l2)).
    change (steps (a :: x :: t)) with ((a, x) :: steps (x :: t)).
    rewrite IH.
    assert (El : last (a :: x :: t) a = last (x :: t) x) by (change (last (a :: x :: t) a) with (last (x :: t) a); apply last_indep; discriminate).
    rewrite El. reflexivity.
Qed.

Lemma last_app_nonempty {A} (l1 l2 : list A) d : l2 <> [] -> last (l1 ++ l2) d = last l2 d.
Proof.
  induction l1 as [|a t IH]; intros H; [reflexivity|]. cbn [app].
  assert (Hne : t ++ l2 <> []) by (destruct t; [exact H|discriminate]).
  destruct (t ++ l2) as [|x r] eqn:E; [congruence|]. change (last (a :: x :: r) d) with (last (x :: r) d).
  apply IH. exact H.
Qed.

Lemma cxterm_opp e : cxterm (emap vopp e) == - cxterm e.
Proof. destruct e as [[ax ay] [bx by_]]. unfold cxterm, shoelace_term, emap, vopp; qsimp. ring. Qed.
Lemma cyterm_opp e : cyterm (emap vopp e) == - cyterm e.
Proof. destruct e as [[ax ay] [bx by_]]. unfold cyterm, shoelace_term, emap, vopp; qsimp. ring. Qed.

Lemma esum_opp f l : esum (fun e => - f e) l == - esum f l.
Proof. induction l as [|e t IH]; cbn [esum]; [ring|rewrite IH; ring]. Qed.

Lemma sym_origin_sums vs : vs <> [] ->
  esum cxterm (edges (vs ++ map vopp vs)) == 0 /\ esum cyterm (edges (vs ++ map vopp vs)) == 0.
Proof.
  intros Hne. destruct vs as [|v0 t]; [congruence|].
  assert (E : edges ((v0 :: t) ++ map vopp (v0 :: t)) =
              steps (v0 :: t) ++ [(last (v0 :: t) v0, vopp v0)] ++ map (emap vopp) (steps (v0 :: t)) ++ [(vopp (last (v0 :: t) v0), v0)]).
  { change ((v0 :: t) ++ map vopp (v0 :: t)) with (v0 :: (t ++ map vopp (v0 :: t))).
    change (edges (v0 :: t ++ map vopp (v0 :: t))) with (edges_from v0 (v0 :: t ++ map vopp (v0 :: t))).
    rewrite edges_from_steps by discriminate.
    change (v0 :: t ++ map vopp (v0 :: t)) with ((v0 :: t) ++ (vopp v0 :: map vopp t)).
    rewrite steps_app. change (vopp v0 :: map vopp t) with (map vopp (v0 :: t)). rewrite steps_map.
    rewrite <- !app_assoc. do 3 f_equal.
    rewrite last_app_nonempty by discriminate.
    change (vopp v0 :: map vopp t) with (map vopp (v0 :: t)).
    rewrite (last_indep (map vopp (v0 :: t)) v0 (vopp v0)) by discriminate. rewrite last_map. reflexivity. }
  rewrite E. rewrite !esum_app, !esum_map. cbn [esum fst snd].
  split.
  - rewrite (esum_ext (fun e => cxterm (emap vopp e)) (fun e => - cxterm e) (steps (v0 :: t)) cxterm_opp). rewrite esum_opp.
    destruct v0 as [hx hy]. destruct (last ((hx, hy) :: t) (hx, hy)) as [lx ly]. unfold cxterm, shoelace_term, vopp; qsimp. ring.
  - rewrite (esum_ext (fun e => cyterm (emap vopp e)) (fun e => - cyterm e) (steps (v0 :: t)) cyterm_opp). rewrite esum_opp.
    destruct v0 as [hx hy]. destruct (last ((hx, hy) :: t) (hx, hy)) as [lx ly]. unfold cyterm, shoelace_term, vopp; qsimp. ring.
Qed.

(* a polygon symmetric about c, with any number of vertices: the points c + v followed by the points c - v
   (in this order the two halves of a centrally symmetric polygon are listed) *)
Definition sym_polygon (c : pt) (vs : list pt) : polygon := map (vadd c) (vs ++ map vopp vs).

Theorem polygon_centroid_symmetric c vs : vs <> [] -> ~ area2 (sym_polygon c vs) == 0 ->
  pt_eq (polygon_centroid (sym_polygon c vs)) c.
Proof.
  intros Hne Ha.
  assert (Ea : area2 (sym_polygon c vs) == esum shoelace_term (edges (sym_polygon c vs))).
  { unfold area2. rewrite fold_area. ring. }
  assert (Ha' : ~ esum shoelace_term (edges (sym_polygon c vs)) == 0) by (rewrite <- Ea; exact Ha).
  destruct (polygon_centroid_sums _ Ha') as [H1 H2].
  destruct (sym_origin_sums vs Hne) as [Z1 Z2].
  unfold sym_polygon in *.
  pose proof (shift_cx c (vs ++ map vopp vs)) as Sx. pose proof (shift_cy c (vs ++ map vopp vs)) as Sy.
  pose proof (shift_area c (vs ++ map vopp vs)) as Sa.
  rewrite Z1 in Sx. rewrite Z2 in Sy.
  unfold pt_eq in *; qsimp. rewrite H1, H2, Sx, Sy.
  set (A := esum shoelace_term (edges (map (vadd c) (vs ++ map vopp vs)))) in *.
  rewrite <- Sa. split; field; exact Ha'.
Qed.

(* and the vertex averages of such a list *)
Lemma sumx_map_opp vs : sumx (map vopp vs) == - sumx vs.
Proof. induction vs as [|v t IH]; cbn [map sumx]; [ring|rewrite IH; unfold vopp; qsimp; ring]. Qed.
Lemma sumy_map_opp vs : sumy (map vopp vs) == - sumy vs.
Proof. induction vs as [|v t IH]; cbn [map sumy]; [ring|rewrite IH; unfold vopp; qsimp; ring]. Qed.

Theorem vertex_centroids_sym_polygon c vs : vs <> [] ->
  pt_eq (rect_centroid (sym_polygon c vs)) c /\ pt_eq (vertices_centroid (sym_polygon c vs)) c.
Proof.
  intros Hne.
  assert (Hn : 0 < qn (length vs)) by (apply qn_pos; destruct vs; [congruence|cbn; apply Nat.lt_0_succ]).
  destruct (sum_pts_xy (sym_polygon c vs)) as [Hx Hy]. qsimp.
  assert (Hl : qlen (sym_polygon c vs) == qn (length vs) + qn (length vs)).
  { unfold qlen, sym_polygon. rewrite map_length, app_length, map_length. apply qn_add. }
  assert (Sx : sumx (sym_polygon c vs) == (qn (length vs) + qn (length vs)) * fst c).
  { unfold sym_polygon. rewrite sumx_map_add, app_length, map_length, qn_add, sumx_app, sumx_map_opp. unfold px. ring. }
  assert (Sy : sumy (sym_polygon c vs) == (qn (length vs) + qn (length vs)) * snd c).
  { unfold sym_polygon. rewrite sumy_map_add, app_length, map_length, qn_add, sumy_app, sumy_map_opp. unfold py. ring. }
  unfold rect_centroid, vertices_centroid, vdiv, pt_eq. qsimp.
  rewrite Hx, Hy, Hl, Sx, Sy. split; split; field; lra.
Qed.
