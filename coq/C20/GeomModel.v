(* MV.C20.GeomModel — executable models over exact rational arithmetic (Q) of the geometric primitives
   of toolkit/geometry/{vector,line_segment,polygon,circle}.go that property C20 names.
   The Go code computes in float64; each definition below is the same formula over Q.  Where the Go
   code takes a square root (distances) the model compares squares instead; this is said at each place.
   Two formulas are modelled as REPAIRED (fixes/C20-closest-point.patch, C20-rect-centroid.patch,
   C20-segment-overlap.patch, C20-closest-point-zero-length.patch), see docs/C20-NOTES.md.
   No proofs here. *)
From Coq Require Import QArith Qabs Qminmax List Bool.
Import ListNotations.
Open Scope Q_scope.

Definition pt := (Q * Q)%type.
Definition px (p : pt) : Q := fst p.
Definition py (p : pt) : Q := snd p.

Definition Qltb (a b : Q) : bool := negb (Qle_bool b a).
Definition pt_eqb (a b : pt) : bool := Qeq_bool (px a) (px b) && Qeq_bool (py a) (py b).   (* Vector.Equal *)

(* ---- vector.go ------------------------------------------------------------------------------ *)
Definition vsub (a b : pt) : pt := (px a - px b, py a - py b).
Definition vadd (a b : pt) : pt := (px a + px b, py a + py b).
Definition vmul (a : pt) (k : Q) : pt := (px a * k, py a * k).
Definition vdiv (a : pt) (k : Q) : pt := (px a / k, py a / k).
Definition dot (a b : pt) : Q := px a * px b + py a * py b.
Definition cross2 (a b : pt) : Q := px a * py b - py a * px b.                 (* Cross2D *)
(* DistanceSquared2D; Distance2D and Length are its square root *)
Definition dist2 (a b : pt) : Q := (px b - px a) * (px b - px a) + (py b - py a) * (py b - py a).

(* triangle.go: CalcTriangleAreaTwice(a,b,c) = bx*ay - ax*by with (ax,ay)=b-a, (bx,by)=c-a *)
Definition area_twice (a b c : pt) : Q :=
  (px c - px a) * (py b - py a) - (px b - px a) * (py c - py a).

(* maths.Clamp *)
Definition clamp (v lo hi : Q) : Q := if Qltb v lo then lo else if Qltb hi v then hi else v.

(* ---- line_segment.go ------------------------------------------------------------------------ *)
Definition seg := (pt * pt)%type.

Definition midpoint (s : seg) : pt := vdiv (vadd (fst s) (snd s)) 2.

(* ClosestPoint, repaired: the whole dot product is divided by the squared length
   (the Go text divides only the second product), and a zero-length segment yields its point *)
Definition closest_point (s : seg) (p : pt) : pt :=
  let a := fst s in let b := snd s in
  if pt_eqb a b then a else
  let ds := dist2 a b in
  let t := clamp (((px p - px a) * (px b - px a) + (py p - py a) * (py b - py a)) / ds) 0 1 in
  (px a + t * (px b - px a), py a + t * (py b - py a)).

(* the formula as written in /repo (kept to state what is wrong with it) *)
Definition closest_point_as_written (s : seg) (p : pt) : pt :=
  let a := fst s in let b := snd s in
  let ds := dist2 a b in
  let t := clamp ((px p - px a) * (px b - px a) + (py p - py a) * (py b - py a) / ds) 0 1 in
  (px a + t * (px b - px a), py a + t * (py b - py a)).

(* IsPointOnSegment: |d1 + d2 - length| < 1e-9 and the point inside the bounding box of the end points.
   Exact form of the first test, with the roots removed by squaring: d1 + d2 = length  iff
   k := length^2 - d1^2 - d2^2 >= 0  and  4 d1^2 d2^2 = k^2. *)
Definition in_range (v a b : Q) : bool := Qle_bool (Qmin a b) v && Qle_bool v (Qmax a b).
Definition on_segment (s : seg) (p : pt) : bool :=
  let a := fst s in let b := snd s in
  let s1 := dist2 p a in let s2 := dist2 p b in let sl := dist2 a b in
  let k := sl - s1 - s2 in
  Qle_bool 0 k && Qeq_bool (4 * s1 * s2) (k * k) &&
  in_range (px p) (px a) (px b) && in_range (py p) (py a) (py b).

(* CalcLineSegmentPointProjection: foot of the perpendicular on the carrying line.  The Go code
   normalises the direction (a square root); the result is the rational point below. *)
Definition projection (s : seg) (p : pt) : pt :=
  let a := fst s in let b := snd s in
  let t := dot (vsub p a) (vsub b a) / dist2 a b in
  (px a + t * (px b - px a), py a + t * (py b - py a)).

(* CalcLineSegmentDistanceToPoint, squared: 0 on the segment; distance to the projection when it is on the
   segment; otherwise the smaller end-point distance *)
Definition seg_dist2 (s : seg) (p : pt) : Q :=
  if on_segment s p then 0
  else if on_segment s (projection s p) then dist2 p (projection s p)
  else Qmin (dist2 p (fst s)) (dist2 p (snd s)).

(* CalcLineSegmentCollinearWithEpsilon *)
Definition collinear_eps (l1 l2 : seg) (e : Q) : bool :=
  Qle_bool (Qabs (area_twice (fst l1) (snd l1) (fst l2))) e &&
  Qle_bool (Qabs (area_twice (fst l1) (snd l1) (snd l2))) e.

(* CalcLineSegmentOverlap: the four end points, tagged with their segment, are sorted by (x, then y)
   (sort.Slice on 4 elements = stable insertion sort); repaired test: the two segments are disjoint
   iff the two smallest points belong to the same segment (the Go text looks at the two middle ones). *)
Definition lex_lt (a b : pt) : bool := Qltb (px a) (px b) || (Qeq_bool (px a) (px b) && Qltb (py a) (py b)).
Fixpoint ins_sorted (x : pt * bool) (l : list (pt * bool)) : list (pt * bool) :=
  match l with
  | [] => [x]
  | y :: t => if lex_lt (fst x) (fst y) then x :: y :: t else y :: ins_sorted x t
  end.
Definition sort4 (l : list (pt * bool)) : list (pt * bool) := fold_left (fun acc x => ins_sorted x acc) l [].

Definition overlap_with (repaired : bool) (l1 l2 : seg) : option seg :=
  match sort4 [(fst l1, true); (snd l1, true); (fst l2, false); (snd l2, false)] with
  | [s0; s1; s2; s3] =>
    let not_overlap := if repaired then Bool.eqb (snd s0) (snd s1) else Bool.eqb (snd s1) (snd s2) in
    let single := pt_eqb (fst s1) (fst s2) in
    if not_overlap || single then None else Some (fst s1, fst s2)
  | _ => None
  end.
Definition overlap : seg -> seg -> option seg := overlap_with true.
Definition overlap_as_written : seg -> seg -> option seg := overlap_with false.

(* ---- polygon.go ----------------------------------------------------------------------------- *)
Definition polygon := list pt.

(* GetEdges: (p[i], p[(i+1) % n]) *)
Fixpoint edges_from (first : pt) (l : list pt) : list seg :=
  match l with
  | [] => []
  | [a] => [(a, first)]
  | a :: (b :: _) as t => (a, b) :: edges_from first t
  end.
Definition edges (p : polygon) : list seg :=
  match p with [] => [] | a :: _ => edges_from a p end.

(* IsPointInside: ray casting, for i, j := 0, n-1; i < n; i, j = i+1, i *)
Definition crosses (x y : Q) (pi pj : pt) : bool :=
  ((Qle_bool (py pi) y && Qltb y (py pj)) || (Qle_bool (py pj) y && Qltb y (py pi))) &&
  Qltb x ((px pj - px pi) * (y - py pi) / (py pj - py pi) + px pi).
Fixpoint ray_loop (x y : Q) (pj : pt) (l : list pt) (inside : bool) : bool :=
  match l with
  | [] => inside
  | pi :: t => ray_loop x y pi t (if crosses x y pi pj then negb inside else inside)
  end.
Definition point_inside (p : polygon) (q : pt) : bool :=
  ray_loop (px q) (py q) (last p (0, 0)) p false.

(* IsPointOnEdge *)
Definition point_on_edge (p : polygon) (q : pt) : bool := existsb (fun e => on_segment e q) (edges p).

Definition sum_pts (l : list pt) : pt := fold_left vadd l (0, 0).
Definition qlen (l : list pt) : Q := inject_Z (Z.of_nat (length l)).

(* CalcRectangleVerticesCentroid, repaired: (x, y), the Go text returns (x, x) *)
Definition rect_centroid (p : polygon) : pt := (px (sum_pts p) / qlen p, py (sum_pts p) / qlen p).
Definition rect_centroid_as_written (p : polygon) : pt := (px (sum_pts p) / qlen p, px (sum_pts p) / qlen p).
(* CalcPolygonVerticesCentroid (= CalcPolygonCircumscribedCircleCenter) *)
Definition vertices_centroid (p : polygon) : pt := vdiv (sum_pts p) (qlen p).

(* CalcPolygonCentroid: area-weighted (shoelace) *)
Definition shoelace_term (e : seg) : Q := px (fst e) * py (snd e) - px (snd e) * py (fst e).
Definition area2 (p : polygon) : Q := fold_left (fun acc e => acc + shoelace_term e) (edges p) 0.
Definition polygon_centroid (p : polygon) : pt :=
  let c := fold_left (fun acc e => vadd acc (vmul (vadd (fst e) (snd e)) (shoelace_term e))) (edges p) (0, 0) in
  vdiv c (6 * (area2 p / 2)).

(* CircumscribedCircleRadiusWithVerticesCentroid / CalcPolygonCircumscribedCircleRadius, squared:
   largest squared distance of a vertex from the (repaired) vertex average *)
Definition bounding_radius2 (p : polygon) : Q :=
  fold_left (fun acc v => Qmax acc (dist2 (rect_centroid p) v)) p 0.

(* CalcPolygonPointProjection, squared distance part: the smallest squared distance to an edge *)
Definition polygon_dist2 (p : polygon) (q : pt) : option Q :=
  match edges p with
  | [] => None
  | e :: t => Some (fold_left (fun acc e => Qmin acc (dist2 q (closest_point e q))) t (dist2 q (closest_point e q)))
  end.

(* ---- circle.go ------------------------------------------------------------------------------ *)
Record circle := { ccenter : pt; cradius : Q }.
(* Contains: |c - p| <= r;  Intersect: |c1 - c2| <= r1 + r2;  Overlap: |c1 - c2| < r1 + r2
   (a length is never negative, so a negative right-hand side makes them false) *)
Definition circle_contains (c : circle) (p : pt) : bool :=
  Qle_bool 0 (cradius c) && Qle_bool (dist2 (ccenter c) p) (cradius c * cradius c).
Definition circle_intersect (c1 c2 : circle) : bool :=
  let s := cradius c1 + cradius c2 in
  Qle_bool 0 s && Qle_bool (dist2 (ccenter c1) (ccenter c2)) (s * s).
Definition circle_overlap (c1 c2 : circle) : bool :=
  let s := cradius c1 + cradius c2 in
  Qltb 0 s && Qltb (dist2 (ccenter c1) (ccenter c2)) (s * s).
Definition center_dist2 (c1 c2 : circle) : Q := dist2 (ccenter c1) (ccenter c2).
