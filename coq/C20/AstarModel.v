(* MV.C20.AstarModel — executable model of toolkit/navigate/astar/{astar,path,priority}.go
   (astar.Find) together with the part of Go's container/heap it runs on (heap.Push / heap.Pop,
   up / down), so that the model reproduces the tie-breaking of the implementation.
   Nodes are identified with their ids (nat).  Costs and heuristic values are in Z (the harness
   only uses integers, which float64 represents and adds exactly).
   No proofs here: this file must keep evaluating even when a proof breaks. *)
From MV Require Import Lib.ListX.
Open Scope Z_scope.

(* ---- path.go ------------------------------------------------------------------------------- *)
Definition path := list nat.                        (* forward order, like the Go slice *)

(* path.Last (never called on an empty path) *)
Definition plast (p : path) : nat := last p 0%nat.

(* path.Extend: a fresh copy with one more node *)
Definition extend (p : path) (n : nat) : path := p ++ [n].

(* path.Cost: totalCost += f(p[i-1], p[i]) for i = 1 .. len-1 *)
Fixpoint path_cost (cost : nat -> nat -> Z) (p : path) : Z :=
  match p with
  | a :: (b :: _) as t => cost a b + path_cost cost t
  | _ => 0
  end.

(* ---- priority.go --------------------------------------------------------------------------- *)
(* heapItem: the Go field [priority] holds -(cost + heuristic); we store f = cost + heuristic, so
   Go's  Less(i,j) = priority_i > priority_j  is  f_i < f_j. *)
Record item := { iprio : Z; ipath : path }.

(* An abstract priority queue as used by Find: empty / heap.Push / heap.Pop. *)
Record pq_ops := {
  pq_t : Type;
  pq_empty : pq_t;
  pq_push : item -> pq_t -> pq_t;
  pq_pop : pq_t -> option (item * pq_t)
}.

(* ---- container/heap on a slice of items ---------------------------------------------------- *)
Definition dummy : item := {| iprio := 0; ipath := [] |}.
Definition hget (h : list item) (i : nat) : item := nth i h dummy.
Definition hless (h : list item) (i j : nat) : bool := iprio (hget h i) <? iprio (hget h j).
Definition hswap (h : list item) (i j : nat) : list item :=
  upd j (hget h i) (upd i (hget h j) h).

(* func up(h, j): for { i := (j-1)/2; if i == j || !h.Less(j, i) { break }; h.Swap(i, j); j = i }
   ((0-1)/2 = 0 both in Go's truncated int division and in nat arithmetic) *)
Fixpoint heap_up (fuel : nat) (h : list item) (j : nat) : list item :=
  match fuel with
  | O => h
  | S f =>
    let i := ((j - 1) / 2)%nat in
    if (i =? j)%nat || negb (hless h j i) then h
    else heap_up f (hswap h i j) i
  end.

(* func down(h, i0, n): for { j1 := 2*i+1; if j1 >= n { break }; j := j1;
     if j2 := j1+1; j2 < n && h.Less(j2, j1) { j = j2 }; if !h.Less(j, i) { break }; h.Swap(i, j); i = j } *)
Fixpoint heap_down (fuel : nat) (h : list item) (i n : nat) : list item :=
  match fuel with
  | O => h
  | S f =>
    let j1 := (2 * i + 1)%nat in
    if (n <=? j1)%nat then h
    else
      let j2 := (j1 + 1)%nat in
      let j := if (j2 <? n)%nat && hless h j2 j1 then j2 else j1 in
      if negb (hless h j i) then h
      else heap_down f (hswap h i j) j n
  end.

(* heap.Push: h.Push(x) (append); up(h, h.Len()-1) *)
Definition heap_push (x : item) (h : list item) : list item :=
  let h1 := h ++ [x] in
  heap_up (length h1) h1 (length h1 - 1).

(* heap.Pop: n := h.Len()-1; h.Swap(0, n); down(h, 0, n); return h.Pop() (removes the last element) *)
Definition heap_pop (h : list item) : option (item * list item) :=
  match h with
  | [] => None
  | _ =>
    let n := (length h - 1)%nat in
    let h1 := heap_down (length h) (hswap h 0 n) 0 n in
    Some (hget h1 n, firstn n h1)
  end.

Definition heap_pq : pq_ops :=
  {| pq_t := list item; pq_empty := []; pq_push := heap_push; pq_pop := heap_pop |}.

(* A second, simpler queue (reference): unsorted list, pop removes the first item of minimal f. *)
Fixpoint list_pop (l : list item) : option (item * list item) :=
  match l with
  | [] => None
  | x :: t =>
    match list_pop t with
    | None => Some (x, [])
    | Some (m, r) => if iprio m <? iprio x then Some (m, x :: r) else Some (x, t)
    end
  end.
Definition list_pq : pq_ops :=
  {| pq_t := list item; pq_empty := []; pq_push := fun x l => l ++ [x]; pq_pop := list_pop |}.

(* ---- astar.go ------------------------------------------------------------------------------ *)
(* A finite graph as Find sees it: GetNeighbours (in order, duplicates allowed), cost(a,b),
   heuristic(n, end) for the fixed end node; [nodes] lists every node id (used only for the fuel). *)
Record graph := {
  nodes : list nat;
  nbrs : nat -> list nat;
  cost : nat -> nat -> Z;
  heur : nat -> Z
}.

Inductive out :=
| OPath (p : path)     (* the returned non-empty slice *)
| ONone                (* return nil *)
| OOutOfFuel           (* excluded by C20_astar_terminates; counted by every correspondence run *)
| OBad.                (* never produced by the model: panic / unrepresentable implementation output *)

Definition mem (n : nat) (l : list nat) : bool := existsb (Nat.eqb n) l.

Section Find.
  Variable Q : pq_ops.
  Variable g : graph.
  Variable goal : nat.

  (* for _, nb := range graph.GetNeighbours(n) { cp := p.Extend(nb);
       heap.Push(h, {value: cp, priority: -(cp.Cost(cost) + heuristic(nb, end))}) } *)
  Definition push_nbrs (p : path) (q : pq_t Q) (l : list nat) : pq_t Q :=
    fold_left (fun q nb =>
                 let cp := extend p nb in
                 pq_push Q {| iprio := path_cost (cost g) cp + heur g nb; ipath := cp |} q) l q.

  (* for h.Len() > 0 { p := heap.Pop(h); n := p.Last(); if closed[n] { continue };
       if n == end { return p }; closed[n] = true; push neighbours }; return nil *)
  Fixpoint find_loop (fuel : nat) (q : pq_t Q) (closed : list nat) : out :=
    match fuel with
    | O => OOutOfFuel
    | S f =>
      match pq_pop Q q with
      | None => ONone
      | Some (it, q') =>
        let p := ipath it in
        let n := plast p in
        if mem n closed then find_loop f q' closed
        else if (n =? goal)%nat then OPath p
        else find_loop f (push_nbrs p q' (nbrs g n)) (n :: closed)
      end
    end.
End Find.

(* every iteration pops one item; items are pushed only when a node is closed, and each node is closed
   at most once: 1 + sum of out-degrees pops at most, one more iteration to see the empty queue *)
Definition find_fuel (g : graph) : nat :=
  (2 + fold_right (fun n acc => length (nbrs g n) + acc) 0 (nodes g))%nat.

(* heap.Push(h, &heapItem{value: path{start}}): priority is the zero value *)
Definition find_with (Q : pq_ops) (g : graph) (start goal : nat) : out :=
  find_loop Q g goal (find_fuel g) (pq_push Q {| iprio := 0; ipath := [start] |} (pq_empty Q)) [].

(* astar.Find *)
Definition find : graph -> nat -> nat -> out := find_with heap_pq.
(* the same search over the reference queue (used by the proofs as a cross-check of generality) *)
Definition find_ref : graph -> nat -> nat -> out := find_with list_pq.

(* ---- graphs given as tables (what the harness prints) --------------------------------------- *)
(* adjacency with costs per node id, heuristic per node id; absent = no neighbours / 0 *)
Definition tbl_nbrs (adj : list (list (nat * Z))) (n : nat) : list nat := map fst (nth n adj []).
Fixpoint assoc_cost (l : list (nat * Z)) (b : nat) : Z :=
  match l with
  | [] => 0
  | (k, c) :: t => if (k =? b)%nat then c else assoc_cost t b
  end.
Definition tbl_cost (adj : list (list (nat * Z))) (a b : nat) : Z := assoc_cost (nth a adj []) b.
Definition tbl_graph (adj : list (list (nat * Z))) (h : list Z) : graph :=
  {| nodes := seq 0 (length adj); nbrs := tbl_nbrs adj; cost := tbl_cost adj; heur := fun n => nth n h 0 |}.
