(* MV.C20.GeomRun — evaluation of recorded calls of the geometry package against the Q models (tie T1).
   Inputs are dyadic rationals; a float64 result is transmitted as the exact rational it denotes and
   compared with the model within 1e-9 (never float equality); results that are copies of inputs
   (overlap end points) and booleans are compared exactly; square-root results are compared through
   their squares. *)
From Coq Require Import QArith Qabs Qminmax List Bool ZArith.
From MV Require Import Lib.ListX C20.GeomModel.
Open Scope Q_scope.

Definition tol : Q := 1 # 1000000000.
Definition close (a b : Q) : bool := Qle_bool (Qabs (a - b)) tol.
Definition pt_close (a b : pt) : bool := close (px a) (px b) && close (py a) (py b).
(* v is within tol of the square root of d2 *)
Definition sqrt_close (d2 v : Q) : bool :=
  Qle_bool 0 v && Qle_bool d2 ((v + tol) * (v + tol)) && (Qle_bool v tol || Qle_bool ((v - tol) * (v - tol)) d2).

Inductive gout :=
| GPt (p : pt) | GBool (b : bool) | GNum (x : Q) | GSeg (o : option seg)
| GBad.   (* NaN / Inf / panic: never equal to a model output *)

Inductive gcall :=
| CClosest (s : seg) (p : pt)
| COnSeg (s : seg) (p : pt)
| CProj (s : seg) (p : pt)
| CSegDist (s : seg) (p : pt)
| CCollinear (l1 l2 : seg) (e : Q)
| COverlap (l1 l2 : seg)
| CMid (s : seg)
| CArea2 (a b c : pt)
| CInside (p : polygon) (q : pt)
| COnEdge (p : polygon) (q : pt)
| CRectCentroid (p : polygon)
| CVertCentroid (p : polygon)
| CPolyCentroid (p : polygon)
| CBoundR (p : polygon)
| CPolyDist (p : polygon) (q : pt)
| CContains (c : circle) (p : pt)
| CIntersect (c1 c2 : circle)
| COverlapC (c1 c2 : circle)
| CCenterDist (c1 c2 : circle).

Record case := { cid : N; ccall : gcall; cimpl : gout }.

Definition seg_opt_eqb (a b : option seg) : bool :=
  match a, b with
  | None, None => true
  | Some (a1, a2), Some (b1, b2) => pt_eqb a1 b1 && pt_eqb a2 b2
  | _, _ => false
  end.

Definition case_ok (c : case) : bool :=
  match ccall c, cimpl c with
  | CClosest s p, GPt r => pt_close (closest_point s p) r
  | COnSeg s p, GBool b => Bool.eqb (on_segment s p) b
  | CProj s p, GPt r => pt_close (projection s p) r
  | CSegDist s p, GNum v => sqrt_close (seg_dist2 s p) v
  | CCollinear l1 l2 e, GBool b => Bool.eqb (collinear_eps l1 l2 e) b
  | COverlap l1 l2, GSeg o => seg_opt_eqb (overlap l1 l2) o
  | CMid s, GPt r => pt_close (midpoint s) r
  | CArea2 a b c, GNum v => close (area_twice a b c) v
  | CInside p q, GBool b => Bool.eqb (point_inside p q) b
  | COnEdge p q, GBool b => Bool.eqb (point_on_edge p q) b
  | CRectCentroid p, GPt r => pt_close (rect_centroid p) r
  | CVertCentroid p, GPt r => pt_close (vertices_centroid p) r
  | CPolyCentroid p, GPt r => pt_close (polygon_centroid p) r
  | CBoundR p, GNum v => sqrt_close (bounding_radius2 p) v
  | CPolyDist p q, GNum v => match polygon_dist2 p q with Some d => sqrt_close d v | None => false end
  | CContains c p, GBool b => Bool.eqb (circle_contains c p) b
  | CIntersect c1 c2, GBool b => Bool.eqb (circle_intersect c1 c2) b
  | COverlapC c1 c2, GBool b => Bool.eqb (circle_overlap c1 c2) b
  | CCenterDist c1 c2, GNum v => sqrt_close (center_dist2 c1 c2) v
  | _, _ => false
  end.

Definition mismatches (cs : list case) : list nat := fail_ids case_ok (fun c => N.to_nat (cid c)) cs.

(* constructors for the generated shards (plain applications; argument scopes follow from the types) *)
Definition q (n : Z) (d : positive) : Q := n # d.
Definition P (x y : Q) : pt := (x, y).
Definition Sg (a b : pt) : seg := (a, b).
Definition pcns (a : pt) (l : polygon) : polygon := a :: l.
Definition pnil : polygon := [].
Definition Ci (c : pt) (r : Q) : circle := {| ccenter := c; cradius := r |}.
Definition SomeS (a b : pt) : option seg := Some (a, b).
Definition NoneS : option seg := None.
Definition mk (id : N) (c : gcall) (o : gout) : case := {| cid := id; ccall := c; cimpl := o |}.
