(* MV.C20.NavModel — a checker (tie T4) for the output of navmesh.FindPath, over exact rationals.
   The funnel algorithm itself (atan2 for the portal orientation, square roots in the A* costs) is NOT
   modelled: [path_ok mesh start goal path] validates one returned path: it starts and ends at the
   given points and every segment of it stays inside the union of the polygons.
   A segment is cut at every parameter where it meets the carrying line of a polygon edge; between
   two consecutive cuts both end points must lie in one common polygon, which (the polygons being
   intersections of closed half planes, hence convex) keeps the whole piece inside.
   No proofs here. *)
From Coq Require Import QArith Qabs Qminmax List Bool.
From MV Require Import C20.GeomModel.
Import ListNotations.
Open Scope Q_scope.

Definition mesh := list polygon.

(* which side of the directed edge e the point p is on: > 0 left, < 0 right, 0 on the carrying line *)
Definition side (e : seg) (p : pt) : Q := cross2 (vsub (snd e) (fst e)) (vsub p (fst e)).

(* the closed convex region bounded by the polygon: on the left of every edge (counter-clockwise
   vertex order) or on the right of every edge (clockwise order) *)
Definition all_left (P : polygon) (p : pt) : bool := forallb (fun e => Qle_bool 0 (side e p)) (edges P).
Definition all_right (P : polygon) (p : pt) : bool := forallb (fun e => Qle_bool (side e p) 0) (edges P).
Definition in_poly_b (P : polygon) (p : pt) : bool :=
  match edges P with
  | [] => false
  | _ => all_left P p || all_right P p
  end.
(* both points in the region, on the same side of every edge *)
Definition both_in_b (P : polygon) (p1 p2 : pt) : bool :=
  match edges P with
  | [] => false
  | _ => (all_left P p1 && all_left P p2) || (all_right P p1 && all_right P p2)
  end.

Definition in_mesh_b (m : mesh) (p : pt) : bool := existsb (fun P => in_poly_b P p) m.

(* point at parameter t of the segment a-b *)
Definition at_param (a b : pt) (t : Q) : pt := (px a + t * (px b - px a), py a + t * (py b - py a)).

(* parameters strictly between 0 and 1 at which a-b meets the carrying line of e *)
Definition cut_of (a b : pt) (e : seg) : list Q :=
  let fa := side e a in let fb := side e b in
  if Qeq_bool fa fb then []
  else let t := fa / (fa - fb) in
       if Qltb 0 t && Qltb t 1 then [t] else [].

Fixpoint ins_q (x : Q) (l : list Q) : list Q :=
  match l with
  | [] => [x]
  | y :: t => if Qle_bool x y then x :: y :: t else y :: ins_q x t
  end.
Definition sort_q (l : list Q) : list Q := fold_right ins_q [] l.

Definition cuts (m : mesh) (a b : pt) : list Q :=
  0 :: sort_q (flat_map (fun P => flat_map (cut_of a b) (edges P)) m) ++ [1].

(* consecutive parameters ascend and the two points lie in one common polygon *)
Fixpoint chain_ok (m : mesh) (a b : pt) (ts : list Q) : bool :=
  match ts with
  | t1 :: (t2 :: _) as rest =>
    Qle_bool t1 t2 &&
    existsb (fun P => both_in_b P (at_param a b t1) (at_param a b t2)) m &&
    chain_ok m a b rest
  | _ => true
  end.

Definition seg_ok (m : mesh) (a b : pt) : bool := chain_ok m a b (cuts m a b).

Fixpoint segs_ok (m : mesh) (path : list pt) : bool :=
  match path with
  | a :: (b :: _) as rest => seg_ok m a b && segs_ok m rest
  | [a] => in_mesh_b m a
  | [] => false
  end.

Definition path_ok (m : mesh) (start goal : pt) (path : list pt) : bool :=
  match path with
  | [] => false
  | a :: _ => pt_eqb a start && pt_eqb (last path a) goal && segs_ok m path
  end.
