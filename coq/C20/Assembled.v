(* MV.C20.Assembled — the multi-part statements of Properties.v put together from the lemmas of the proof files,
   and the concrete witnesses of the three "as written" refutations. *)
From Coq Require Import QArith Lqa Permutation SetoidList.
From MV Require Import Lib.ListX C20.AstarModel C20.AstarProofs C20.HeapProofs
  C20.GeomModel C20.GeomProofs C20.PolyProofs C20.CentroidProofs C20.NavModel C20.NavProofs.

Lemma astar_terminates_assembled : forall (g : graph) (start goal : nat),
  finite_graph g -> In start (nodes g) ->
  find g start goal <> OOutOfFuel /\ find g start goal <> OBad.
Proof. intros g s t Hf Hs. split; [exact (find_terminates g s t Hf Hs)|exact (find_not_bad g s t)]. Qed.

Lemma heap_is_a_priority_queue_assembled : forall (h : list item),
  heap_ok h ->
  (forall x, heap_ok (heap_push x h) /\ Permutation (heap_push x h) (x :: h)) /\
  (forall x h', heap_pop h = Some (x, h') ->
     heap_ok h' /\ Permutation h (x :: h') /\ forall y, In y h -> (iprio x <= iprio y)%Z) /\
  (heap_pop h = None -> h = []).
Proof.
  intros h Hok. split; [intros x; exact (heap_push_ok x h Hok)|].
  split; [intros x h' H; exact (heap_pop_ok h x h' Hok H)|exact (heap_pop_none h)].
Qed.

Open Scope Q_scope.

Lemma closest_point_as_written_refuted_assembled : exists (s : seg) (p : pt) (t : Q),
  0 <= t /\ t <= 1 /\ dist2 p (seg_at s t) < dist2 p (closest_point_as_written s p).
Proof. exists ((0, 0), (4, 0)), (1, 3), (1 # 4). vm_compute. repeat split; intros; discriminate. Qed.

Lemma centroid_symmetric_assembled :
  (forall (c : pt) (vs : list pt), vs <> [] ->
     pt_eq (rect_centroid (sym_polygon c vs)) c /\ pt_eq (vertices_centroid (sym_polygon c vs)) c /\
     (~ area2 (sym_polygon c vs) == 0 -> pt_eq (polygon_centroid (sym_polygon c vs)) c)) /\
  (forall a b c : pt, ~ area2 [a; b; c] == 0 ->
     pt_eq (polygon_centroid [a; b; c]) ((px a + px b + px c) / 3, (py a + py b + py c) / 3)).
Proof.
  split; [|exact polygon_centroid_triangle].
  intros c vs Hne. destruct (vertex_centroids_sym_polygon c vs Hne) as [H1 H2].
  split; [exact H1|]. split; [exact H2|exact (polygon_centroid_symmetric c vs Hne)].
Qed.

Lemma rect_centroid_as_written_refuted_assembled : exists (c : pt) (vs : list pt),
  vs <> [] /\ ~ pt_eq (rect_centroid_as_written (sym_polygon c vs)) c.
Proof.
  exists (1, 3), [(-1, -1); (1, -1)]. split; [discriminate|]. intros [_ H]. vm_compute in H. discriminate.
Qed.

Lemma collinear_overlap_iff_assembled : forall (l1 l2 : seg),
  (forall u v, overlap l1 l2 = Some (u, v) ->
     ~ pt_eq u v /\
     forall x, orient (fst l1) (snd l1) x == 0 -> orient (fst l2) (snd l2) x == 0 -> orient u v x == 0 ->
       ((on_seg l1 x /\ on_seg l2 x) <-> on_seg (u, v) x)) /\
  (overlap l1 l2 = None ->
     forall x y, on_seg l1 x -> on_seg l2 x -> on_seg l1 y -> on_seg l2 y -> pt_eq x y) /\
  seg_opt_eq (overlap l1 l2) (overlap_spec l1 l2).
Proof.
  intros l1 l2. destruct (overlap_geometric l1 l2) as [H1 H2].
  split; [exact H1|]. split; [exact H2|exact (overlap_matches_spec l1 l2)].
Qed.

Lemma collinear_overlap_as_written_refuted_assembled : exists (l1 l2 : seg),
  ~ seg_opt_eq (overlap_as_written l1 l2) (overlap_spec l1 l2).
Proof. exists ((0, 0), (10, 0)), ((2, 0), (5, 0)). vm_compute. tauto. Qed.

Lemma point_in_triangle_or_rectangle_assembled :
  (forall a b c q : pt, 0 < orient a b c ->
     (0 < orient a b q -> 0 < orient b c q -> 0 < orient c a q -> point_inside [a; b; c] q = true) /\
     (orient a b q < 0 \/ orient b c q < 0 \/ orient c a q < 0 -> point_inside [a; b; c] q = false)) /\
  (forall a b c q : pt, orient a b c < 0 ->
     (orient a b q < 0 -> orient b c q < 0 -> orient c a q < 0 -> point_inside [a; b; c] q = true) /\
     (0 < orient a b q \/ 0 < orient b c q \/ 0 < orient c a q -> point_inside [a; b; c] q = false)) /\
  (forall x0 y0 x1 y1 x y : Q, x0 < x1 -> y0 < y1 ->
     (x0 < x -> x < x1 -> y0 < y -> y < y1 -> point_inside [(x0, y0); (x1, y0); (x1, y1); (x0, y1)] (x, y) = true) /\
     (x < x0 \/ x1 < x \/ y < y0 \/ y1 < y -> point_inside [(x0, y0); (x1, y0); (x1, y1); (x0, y1)] (x, y) = false)).
Proof.
  split; [exact point_in_triangle_ccw|]. split; [exact point_in_triangle_cw|exact point_in_rectangle].
Qed.

Lemma circle_relations_assembled : forall (c1 c2 : circle),
  (forall p, circle_contains c1 p = true <-> 0 <= cradius c1 /\ in_disk c1 p) /\
  (0 <= cradius c1 -> 0 <= cradius c2 ->
     (circle_intersect c1 c2 = true <-> exists p, in_disk c1 p /\ in_disk c2 p)) /\
  (0 < cradius c1 -> 0 < cradius c2 ->
     (circle_overlap c1 c2 = true <-> exists p, in_open_disk c1 p /\ in_open_disk c2 p)).
Proof.
  intros c1 c2. split; [intros p; exact (circle_contains_iff c1 p)|].
  split; [exact (circle_intersect_iff c1 c2)|exact (circle_overlap_iff c1 c2)].
Qed.
