(* MV.C20.Properties — the statements of property C20 and nothing else.
   Every theorem is closed by [exact <lemma>] and followed by Print Assumptions. *)
From Coq Require Import QArith Lqa Permutation SetoidList.
From MV Require Import Lib.ListX C20.AstarModel C20.AstarProofs C20.HeapProofs
  C20.GeomModel C20.GeomProofs C20.PolyProofs C20.CentroidProofs C20.NavModel C20.NavProofs C20.Assembled.

(* ============================================================ A* (toolkit/navigate/astar) ===== *)
(* [find g start goal] is the model of astar.Find over the container/heap model; a graph g gives
   GetNeighbours (nbrs), cost and the heuristic towards the goal (heur); nodes are their ids. *)

(* The returned path starts at the start node, ends at the goal and moves only along graph edges
   (for every graph, every cost function and every heuristic, consistent or not). *)
Theorem C20_astar_valid : forall (g : graph) (start goal : nat) (p : path),
  find g start goal = OPath p ->
  p <> [] /\ hd 0%nat p = start /\ plast p = goal /\ is_walk g p.
Proof. exact find_valid. Qed.
Print Assumptions C20_astar_valid.

(* With a consistent heuristic (h(a) <= c(a,b) + h(b) on every edge) the cost of the returned path is the
   minimum over all walks from start to goal.  Costs may be zero; non-negativity is not even needed. *)
Theorem C20_astar_optimal : forall (g : graph) (start goal : nat) (p : path),
  consistent g -> find g start goal = OPath p ->
  forall w, walk_from_to g start goal w -> (pcost g p <= pcost g w)%Z.
Proof. exact find_optimal. Qed.
Print Assumptions C20_astar_optimal.

(* Nothing is returned exactly when the goal is unreachable (finite graph: [nodes g] lists the nodes
   without repetition and is closed under neighbours). *)
Theorem C20_astar_none_iff_unreachable : forall (g : graph) (start goal : nat),
  finite_graph g -> In start (nodes g) ->
  (find g start goal = ONone <-> ~ reachable g start goal).
Proof. exact find_none_iff. Qed.
Print Assumptions C20_astar_none_iff_unreachable.

(* The fuel 2 + sum of out-degrees is never exhausted on a finite graph, and OBad is never produced. *)
Theorem C20_astar_terminates : forall (g : graph) (start goal : nat),
  finite_graph g -> In start (nodes g) ->
  find g start goal <> OOutOfFuel /\ find g start goal <> OBad.
Proof. exact astar_terminates_assembled. Qed.
Print Assumptions C20_astar_terminates.

(* The cost found does not depend on how the queue breaks ties: the search over the container/heap model
   and the search over a plain list queue return paths of equal cost. *)
Theorem C20_astar_cost_independent_of_tie_breaking : forall (g : graph) (start goal : nat) (p p' : path),
  consistent g -> find g start goal = OPath p -> find_ref g start goal = OPath p' -> pcost g p = pcost g p'.
Proof. exact find_cost_queue_independent. Qed.
Print Assumptions C20_astar_cost_independent_of_tie_breaking.

(* container/heap as transcribed (up/down on a slice): Pop returns an item of minimal f = cost + heuristic and
   removes exactly that item; Push adds exactly one item; both keep the heap shape. *)
Theorem C20_heap_is_a_priority_queue : forall (h : list item),
  heap_ok h ->
  (forall x, heap_ok (heap_push x h) /\ Permutation (heap_push x h) (x :: h)) /\
  (forall x h', heap_pop h = Some (x, h') ->
     heap_ok h' /\ Permutation h (x :: h') /\ forall y, In y h -> (iprio x <= iprio y)%Z) /\
  (heap_pop h = None -> h = []).
Proof. exact heap_is_a_priority_queue_assembled. Qed.
Print Assumptions C20_heap_is_a_priority_queue.

(* non-vacuity: a diamond with two cheapest routes and a consistent heuristic; an unreachable goal; start = goal *)
Definition ex_graph : graph := tbl_graph [[(1%nat, 1%Z); (2%nat, 1%Z)]; [(3%nat, 1%Z)]; [(3%nat, 1%Z)]; []; []] [2; 1; 1; 0; 0]%Z.
Example C20_astar_example :
  find ex_graph 0 3 = OPath [0; 1; 3]%nat /\ find ex_graph 0 4 = ONone /\ find ex_graph 2 2 = OPath [2%nat] /\
  find_ref ex_graph 0 3 = OPath [0; 1; 3]%nat.
Proof. vm_compute. repeat split. Qed.
Example C20_astar_example_hypotheses : consistent ex_graph /\ finite_graph ex_graph /\ In 0%nat (nodes ex_graph).
Proof.
  split; [|split].
  - intros a b. destruct a as [|[|[|[|[|[|a]]]]]]; cbn; intros H; repeat (destruct H as [<-|H]; [vm_compute; discriminate|]); destruct H.
  - apply tbl_graph_finite. intros a b. destruct a as [|[|[|[|[|[|a]]]]]]; cbn; intros H; repeat (destruct H as [<-|H]; [lia|]); destruct H.
  - cbn. tauto.
Qed.

(* ============================================================ geometry (toolkit/geometry) ===== *)
Open Scope Q_scope.

(* The closest point on a segment (REPAIRED formula, see fixes/C20-closest-point*.patch) lies on the segment,
   and no point of the segment is closer (distances compared squared). *)
Theorem C20_closest_on_segment_and_minimal : forall (s : seg) (p : pt),
  (exists t, 0 <= t /\ t <= 1 /\ pt_eq (closest_point s p) (seg_at s t)) /\
  (forall t, 0 <= t -> t <= 1 -> dist2 p (closest_point s p) <= dist2 p (seg_at s t)).
Proof. exact closest_point_spec. Qed.
Print Assumptions C20_closest_on_segment_and_minimal.

(* The formula as written in /repo (only the second product is divided by the squared length) is not the
   closest point: for (1,3) and the segment (0,0)-(4,0) it yields (4,0), and (1,0) is closer. *)
Theorem C20_closest_point_as_written_refuted : exists (s : seg) (p : pt) (t : Q),
  0 <= t /\ t <= 1 /\ dist2 p (seg_at s t) < dist2 p (closest_point_as_written s p).
Proof. exact closest_point_as_written_refuted_assembled. Qed.
Print Assumptions C20_closest_point_as_written_refuted.

(* IsPointOnSegment (exact form of "d1 + d2 = length and inside the bounding box") holds exactly for the
   points a + t (b - a), 0 <= t <= 1. *)
Theorem C20_on_segment_iff : forall (s : seg) (p : pt),
  on_segment s p = true <-> exists t, 0 <= t /\ t <= 1 /\ pt_eq p (seg_at s t).
Proof. exact on_segment_iff. Qed.
Print Assumptions C20_on_segment_iff.

(* Centroids of symmetric shapes are their centres.  [sym_polygon c vs] is a polygon symmetric about c with any
   number of vertices: the points c + v (v in vs) followed by the points c - v.  Both vertex averages
   (CalcRectangleVerticesCentroid as REPAIRED, CalcPolygonVerticesCentroid) and, when the area is not zero, the
   area centroid (CalcPolygonCentroid, shoelace formula) are c.  Last part: the area centroid of any triangle is
   the mean of its vertices. *)
Theorem C20_centroid_symmetric :
  (forall (c : pt) (vs : list pt), vs <> [] ->
     pt_eq (rect_centroid (sym_polygon c vs)) c /\ pt_eq (vertices_centroid (sym_polygon c vs)) c /\
     (~ area2 (sym_polygon c vs) == 0 -> pt_eq (polygon_centroid (sym_polygon c vs)) c)) /\
  (forall a b c : pt, ~ area2 [a; b; c] == 0 ->
     pt_eq (polygon_centroid [a; b; c]) ((px a + px b + px c) / 3, (py a + py b + py c) / 3)).
Proof. exact centroid_symmetric_assembled. Qed.
Print Assumptions C20_centroid_symmetric.

(* CalcRectangleVerticesCentroid as written returns (x, x): the rectangle (0,2)-(2,4), symmetric about (1,3),
   gets (1,1). *)
Theorem C20_rect_centroid_as_written_refuted : exists (c : pt) (vs : list pt),
  vs <> [] /\ ~ pt_eq (rect_centroid_as_written (sym_polygon c vs)) c.
Proof. exact rect_centroid_as_written_refuted_assembled. Qed.
Print Assumptions C20_rect_centroid_as_written_refuted.

(* CalcLineSegmentOverlap (REPAIRED index, fixes/C20-segment-overlap.patch), geometrically: when a segment
   (u,v) is reported it is not a single point and, among the points x of the common carrying line, those lying
   on both input segments are exactly those lying on (u,v); when nothing is reported the two segments share at
   most one point.  (orient a b x == 0 says x is on the line through a and b; u and v are end points of the
   inputs.)  Third part: the result equals the brute-force definition [max of the lower ends, min of the upper
   ends] in the order by (x, then y), which is the order in which the Go code sorts the four end points. *)
Theorem C20_collinear_overlap_iff : forall (l1 l2 : seg),
  (forall u v, overlap l1 l2 = Some (u, v) ->
     ~ pt_eq u v /\
     forall x, orient (fst l1) (snd l1) x == 0 -> orient (fst l2) (snd l2) x == 0 -> orient u v x == 0 ->
       ((on_seg l1 x /\ on_seg l2 x) <-> on_seg (u, v) x)) /\
  (overlap l1 l2 = None ->
     forall x y, on_seg l1 x -> on_seg l2 x -> on_seg l1 y -> on_seg l2 y -> pt_eq x y) /\
  seg_opt_eq (overlap l1 l2) (overlap_spec l1 l2).
Proof. exact collinear_overlap_iff_assembled. Qed.
Print Assumptions C20_collinear_overlap_iff.

(* As written (the two middle end points are compared) a contained segment is reported as no overlap. *)
Theorem C20_collinear_overlap_as_written_refuted : exists (l1 l2 : seg),
  ~ seg_opt_eq (overlap_as_written l1 l2) (overlap_spec l1 l2).
Proof. exact collinear_overlap_as_written_refuted_assembled. Qed.
Print Assumptions C20_collinear_overlap_as_written_refuted.

(* Point-in-polygon by ray casting (IsPointInside) agrees with the definition by orientation tests for every
   strictly convex polygon with any number of vertices, listed counter-clockwise (P) or clockwise (rev P):
   a point strictly inside (on the inner side of every edge of GetEdges) is accepted, a point strictly outside
   (on the outer side of some edge) is rejected.  Points on the boundary are not claimed: the Go code treats
   edges half-open.  [convex_ccw P]: the vertices are pairwise different and every vertex lies strictly on the
   left of every edge it is not an end point of. *)
Theorem C20_point_in_convex_polygon_iff : forall (P : polygon) (q : pt),
  P <> [] -> convex_ccw P ->
  ((forall e, In e (edges P) -> 0 < orient (fst e) (snd e) q) ->
     point_inside P q = true /\ point_inside (rev P) q = true) /\
  ((exists e, In e (edges P) /\ orient (fst e) (snd e) q < 0) ->
     point_inside P q = false /\ point_inside (rev P) q = false).
Proof. exact point_in_convex_polygon. Qed.
Print Assumptions C20_point_in_convex_polygon_iff.

(* The same, spelled out for triangles (either orientation) and axis-aligned rectangles. *)
Theorem C20_point_in_triangle_or_rectangle :
  (forall a b c q : pt, 0 < orient a b c ->
     (0 < orient a b q -> 0 < orient b c q -> 0 < orient c a q -> point_inside [a; b; c] q = true) /\
     (orient a b q < 0 \/ orient b c q < 0 \/ orient c a q < 0 -> point_inside [a; b; c] q = false)) /\
  (forall a b c q : pt, orient a b c < 0 ->
     (orient a b q < 0 -> orient b c q < 0 -> orient c a q < 0 -> point_inside [a; b; c] q = true) /\
     (0 < orient a b q \/ 0 < orient b c q \/ 0 < orient c a q -> point_inside [a; b; c] q = false)) /\
  (forall x0 y0 x1 y1 x y : Q, x0 < x1 -> y0 < y1 ->
     (x0 < x -> x < x1 -> y0 < y -> y < y1 -> point_inside [(x0, y0); (x1, y0); (x1, y1); (x0, y1)] (x, y) = true) /\
     (x < x0 \/ x1 < x \/ y < y0 \/ y1 < y -> point_inside [(x0, y0); (x1, y0); (x1, y1); (x0, y1)] (x, y) = false)).
Proof. exact point_in_triangle_or_rectangle_assembled. Qed.
Print Assumptions C20_point_in_triangle_or_rectangle.

(* non-vacuity: a pentagon satisfying the hypotheses, a point strictly inside, a point outside *)
Definition ex_pent : polygon := [(0, 0); (4, 0); (5, 3); (2, 5); (-1, 3)].
Example C20_convex_polygon_example :
  convex_ccw ex_pent /\ (forall e, In e (edges ex_pent) -> 0 < orient (fst e) (snd e) (2, 2)) /\
  point_inside ex_pent (2, 2) = true /\ point_inside ex_pent (6, 2) = false /\ point_inside (rev ex_pent) (2, 2) = true.
Proof.
  split; [split|split; [|vm_compute; repeat split]].
  - repeat (constructor; [intros H; repeat (apply InA_cons in H; destruct H as [[E1 E2]|H]; [vm_compute in E1; vm_compute in E2; try discriminate|]); apply InA_nil in H; exact H|]). constructor.
  - intros e v He Hv N1 N2. vm_compute in He.
    repeat (destruct He as [<-|He]; [
      repeat (destruct Hv as [<-|Hv]; [first [exfalso; apply N1; split; reflexivity | exfalso; apply N2; split; reflexivity | vm_compute; reflexivity]|]); destruct Hv |]).
    destruct He.
  - intros e He. vm_compute in He. repeat (destruct He as [<-|He]; [vm_compute; reflexivity|]). destruct He.
Qed.

(* Circle relations match their definitions: Contains = the point is in the closed disk; Intersect = the closed
   disks share a point; Overlap = the open disks share a point. *)
Theorem C20_circle_relations : forall (c1 c2 : circle),
  (forall p, circle_contains c1 p = true <-> 0 <= cradius c1 /\ in_disk c1 p) /\
  (0 <= cradius c1 -> 0 <= cradius c2 ->
     (circle_intersect c1 c2 = true <-> exists p, in_disk c1 p /\ in_disk c2 p)) /\
  (0 < cradius c1 -> 0 < cradius c2 ->
     (circle_overlap c1 c2 = true <-> exists p, in_open_disk c1 p /\ in_open_disk c2 p)).
Proof. exact circle_relations_assembled. Qed.
Print Assumptions C20_circle_relations.

(* non-vacuity *)
Example C20_geometry_examples :
  pt_eq (closest_point ((0, 0), (4, 0)) (1, 3)) (1, 0) /\
  on_segment ((0, 0), (4, 2)) (2, 1) = true /\ on_segment ((0, 0), (4, 2)) (6, 3) = false /\
  seg_opt_eq (overlap ((0, 0), (10, 0)) ((2, 0), (5, 0))) (Some ((2, 0), (5, 0))) /\
  overlap ((0, 0), (5, 0)) ((6, 0), (10, 0)) = None /\
  circle_intersect {| ccenter := (0, 0); cradius := 2 |} {| ccenter := (3, 4); cradius := 3 |} = true /\
  circle_overlap {| ccenter := (0, 0); cradius := 2 |} {| ccenter := (3, 4); cradius := 3 |} = false /\
  pt_eq (rect_centroid [(0, 2); (2, 2); (2, 4); (0, 4)]) (1, 3) /\
  pt_eq (polygon_centroid (sym_polygon (1, 3) [(2, 0); (1, 2); (-1, 1)])) (1, 3) /\ ~ area2 (sym_polygon (1, 3) [(2, 0); (1, 2); (-1, 1)]) == 0 /\
  point_inside [(0, 0); (4, 2); (0, 4)] (1, 2) = true /\ point_inside [(0, 0); (4, 2); (0, 4)] (-1, 2) = false /\
  point_inside [(2, 0); (4, 2); (2, 4); (0, 2)] (-1, 2) = false.
Proof. vm_compute. repeat split; try (intros H; discriminate). Qed.

(* ============================================================ nav mesh (toolkit/navigate/navmesh) ===== *)
(* T4: the checker through which the harness passes every path returned by NavMesh.FindPath is sound:
   an accepted path starts and ends at the given points and every point of every segment of it lies in one of
   the polygons (closed convex regions).  This validates outputs; the funnel algorithm itself is not modelled. *)
Theorem C20_path_checker_sound_partial : forall (m : mesh) (start goal : pt) (path : list pt),
  path_ok m start goal path = true ->
  exists a rest, path = a :: rest /\ pt_eq a start /\ pt_eq (last path a) goal /\ path_inside m path.
Proof. exact path_ok_sound. Qed.
Print Assumptions C20_path_checker_sound_partial.

(* non-vacuity: two unit-wide cells with a gap: a path inside one cell is accepted, a path across the gap is not;
   an L of three squares: the path around the corner is accepted, the straight line is not *)
Example C20_path_checker_example :
  let gap := [[(0, 0); (1, 0); (1, 3); (0, 3)]; [(2, 0); (3, 0); (3, 3); (2, 3)]] in
  let ell := [[(0, 0); (2, 0); (2, 2); (0, 2)]; [(2, 0); (4, 0); (4, 2); (2, 2)]; [(2, 2); (4, 2); (4, 4); (2, 4)]] in
  path_ok gap (1 # 2, 1) (1 # 2, 2) [(1 # 2, 1); (1 # 2, 2)] = true /\
  path_ok gap (1 # 2, 1) (5 # 2, 1) [(1 # 2, 1); (5 # 2, 1)] = false /\
  path_ok ell (1, 1) (3, 7 # 2) [(1, 1); (2, 2); (3, 7 # 2)] = true /\
  path_ok ell (1 # 2, 1) (3, 7 # 2) [(1 # 2, 1); (3, 7 # 2)] = false.
Proof. vm_compute. repeat split. Qed.
