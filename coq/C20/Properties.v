(* MV.C20.Properties — placeholder while the pipeline is assembled *)
From MV Require Import Lib.ListX C20.AstarModel.
Theorem C20_placeholder : True. Proof. exact I. Qed.
Print Assumptions C20_placeholder.
