(* MV.C20.NavProofs — soundness of the nav-mesh path checker. *)
From Coq Require Import QArith Qabs Qminmax Lqa List Bool.
From MV Require Import C20.GeomModel C20.GeomProofs C20.NavModel.
Import ListNotations.
Open Scope Q_scope.

(* the closed convex region bounded by a polygon: on the left of every edge, or on the right of every edge *)
Definition in_poly (P : polygon) (p : pt) : Prop :=
  edges P <> [] /\
  ((forall e, In e (edges P) -> 0 <= side e p) \/ (forall e, In e (edges P) -> side e p <= 0)).
Definition in_mesh (m : mesh) (p : pt) : Prop := exists P, In P m /\ in_poly P p.

Lemma all_left_iff P p : all_left P p = true <-> forall e, In e (edges P) -> 0 <= side e p.
Proof. unfold all_left. rewrite forallb_forall. split; intros H e He; specialize (H e He); apply Qle_bool_iff; exact H. Qed.
Lemma all_right_iff P p : all_right P p = true <-> forall e, In e (edges P) -> side e p <= 0.
Proof. unfold all_right. rewrite forallb_forall. split; intros H e He; specialize (H e He); apply Qle_bool_iff; exact H. Qed.

Lemma in_poly_b_sound P p : in_poly_b P p = true -> in_poly P p.
Proof.
  unfold in_poly_b, in_poly. destruct (edges P) as [|e0 t] eqn:E; [discriminate|]. rewrite <- E.
  rewrite orb_true_iff, all_left_iff, all_right_iff. intros H. split; [rewrite E; discriminate|exact H].
Qed.

(* side is affine along a segment *)
Lemma side_at_param e a b t : side e (at_param a b t) == side e a + t * (side e b - side e a).
Proof.
  destruct e as [[ex ey] [fx fy]], a as [ax ay], b as [bx by_].
  unfold side, at_param, cross2, vsub; qsimp. ring.
Qed.

Lemma affine_between_nonneg al be t1 t2 t :
  0 <= al + t1 * be -> 0 <= al + t2 * be -> t1 <= t -> t <= t2 -> 0 <= al + t * be.
Proof.
  intros H1 H2 Hl Hr. destruct (Qlt_le_dec be 0) as [Hb|Hb].
  - assert (t2 * be <= t * be) by nra. lra.
  - assert (t1 * be <= t * be) by nra. lra.
Qed.
Lemma affine_between_nonpos al be t1 t2 t :
  al + t1 * be <= 0 -> al + t2 * be <= 0 -> t1 <= t -> t <= t2 -> al + t * be <= 0.
Proof.
  intros H1 H2 Hl Hr. destruct (Qlt_le_dec be 0) as [Hb|Hb].
  - assert (t * be <= t1 * be) by nra. lra.
  - assert (t * be <= t2 * be) by nra. lra.
Qed.

(* convexity: between two parameters whose points lie in the region on the same side of every edge,
   every point lies in the region *)
Lemma both_in_between P a b t1 t2 t :
  both_in_b P (at_param a b t1) (at_param a b t2) = true -> t1 <= t -> t <= t2 -> in_poly P (at_param a b t).
Proof.
  unfold both_in_b, in_poly. destruct (edges P) as [|e0 l] eqn:E; [discriminate|]. rewrite <- E.
  rewrite orb_true_iff, !andb_true_iff, !all_left_iff, !all_right_iff.
  intros H Hl Hr. split; [rewrite E; discriminate|].
  destruct H as [[H1 H2]|[H1 H2]]; [left|right]; intros e He; specialize (H1 e He); specialize (H2 e He);
    rewrite side_at_param in *.
  - apply (affine_between_nonneg _ _ t1 t2 t); assumption.
  - apply (affine_between_nonpos _ _ t1 t2 t); assumption.
Qed.

Lemma last_default {A} (l : list A) (d d' : A) : l <> [] -> last l d = last l d'.
Proof. induction l as [|x t IH]; [congruence|]. intros _. destruct t; [reflexivity|]. cbn [last] in *. apply IH. discriminate. Qed.

Lemma chain_sound m a b : forall ts t1 t2,
  chain_ok m a b (t1 :: t2 :: ts) = true ->
  forall t, t1 <= t -> t <= last (t2 :: ts) t2 -> in_mesh m (at_param a b t).
Proof.
  induction ts as [|t3 ts IH]; intros t1 t2 H t Hl Hr.
  - cbn [chain_ok last] in *. rewrite !andb_true_iff in H. destruct H as [[Hle Hex] _].
    apply existsb_exists in Hex. destruct Hex as (P & HP & Hb).
    exists P. split; [exact HP|]. eapply both_in_between; eassumption.
  - change (chain_ok m a b (t1 :: t2 :: t3 :: ts)) with
      (Qle_bool t1 t2 && existsb (fun P => both_in_b P (at_param a b t1) (at_param a b t2)) m && chain_ok m a b (t2 :: t3 :: ts)) in H.
    rewrite !andb_true_iff in H. destruct H as [[Hle Hex] Hrest].
    destruct (Qlt_le_dec t2 t) as [Hgt|Hle2].
    + apply (IH t2 t3 Hrest t); [lra|].
      change (last (t2 :: t3 :: ts) t2) with (last (t3 :: ts) t2) in Hr.
      rewrite (last_default (t3 :: ts) t2 t3) in Hr by discriminate. exact Hr.
    + apply existsb_exists in Hex. destruct Hex as (P & HP & Hb).
      exists P. split; [exact HP|]. eapply both_in_between; eassumption.
Qed.

Lemma last_app_one {A} (l : list A) (x d : A) : last (l ++ [x]) d = x.
Proof. apply last_last. Qed.

Lemma seg_ok_sound m a b : seg_ok m a b = true -> forall t, 0 <= t -> t <= 1 -> in_mesh m (at_param a b t).
Proof.
  unfold seg_ok, cuts. intros H t H0 H1.
  set (l := sort_q _) in *.
  destruct (l ++ [1]) as [|t2 ts] eqn:E; [destruct l; discriminate|].
  apply (chain_sound m a b ts 0 t2 H t H0).
  assert (Hl : last (t2 :: ts) t2 = 1) by (rewrite <- E; apply last_app_one).
  rewrite Hl. exact H1.
Qed.

(* every segment of the path stays inside the mesh *)
Fixpoint path_inside (m : mesh) (path : list pt) : Prop :=
  match path with
  | a :: (b :: _) as rest => (forall t, 0 <= t -> t <= 1 -> in_mesh m (at_param a b t)) /\ path_inside m rest
  | [a] => in_mesh m a
  | [] => False
  end.

Lemma segs_ok_sound m : forall path, segs_ok m path = true -> path_inside m path.
Proof.
  induction path as [|a rest IH]; [discriminate|].
  destruct rest as [|b rest'].
  - cbn. intros H. apply existsb_exists in H. destruct H as (P & HP & Hb).
    exists P. split; [exact HP|apply in_poly_b_sound; exact Hb].
  - change (segs_ok m (a :: b :: rest')) with (seg_ok m a b && segs_ok m (b :: rest')).
    rewrite andb_true_iff. intros [H1 H2]. split; [apply seg_ok_sound; exact H1|apply IH; exact H2].
Qed.

Lemma pt_eqb_pt_eq a b : pt_eqb a b = true -> pt_eq a b.
Proof. unfold pt_eqb, pt_eq. rewrite andb_true_iff, !Qeq_bool_iff. tauto. Qed.

Theorem path_ok_sound m start goal path : path_ok m start goal path = true ->
  exists a rest, path = a :: rest /\ pt_eq a start /\ pt_eq (last path a) goal /\ path_inside m path.
Proof.
  unfold path_ok. destruct path as [|a rest]; [discriminate|].
  rewrite !andb_true_iff. intros [[H1 H2] H3].
  exists a, rest. split; [reflexivity|]. split; [apply pt_eqb_pt_eq; exact H1|].
  split; [apply pt_eqb_pt_eq; exact H2|apply segs_ok_sound; exact H3].
Qed.
