(* MV.C20.AstarProofs — proofs about the model of astar.Find.
   Part 1: generic over any priority queue satisfying [pq_spec] (pop returns an item of minimal
   priority, push/pop preserve the multiset of items): validity, optimality under a consistent
   heuristic, nothing returned <-> goal unreachable, termination within the fuel.
   Part 2 (HeapProofs.v) shows that the container/heap model satisfies [pq_spec]. *)
From Coq Require Import Permutation.
From MV Require Import Lib.ListX C20.AstarModel.
Open Scope Z_scope.
Arguments Z.add : simpl never.
Arguments Z.mul : simpl never.
Arguments Z.sub : simpl never.

(* ------------------------------------------------------------------ specification vocabulary *)
Section Spec.
  Variable g : graph.

  Fixpoint is_walk (p : path) : Prop :=
    match p with
    | a :: (b :: _) as t => In b (nbrs g a) /\ is_walk t
    | _ => True
    end.

  (* p is a non-empty sequence of nodes from a to b moving only along edges *)
  Definition walk_from_to (a b : nat) (p : path) : Prop :=
    p <> [] /\ hd 0%nat p = a /\ plast p = b /\ is_walk p.

  Definition reachable (a b : nat) : Prop := exists p, walk_from_to a b p.

  Definition pcost (p : path) : Z := path_cost (cost g) p.

  (* h(a) <= c(a,b) + h(b) on every edge *)
  Definition consistent : Prop :=
    forall a b, In b (nbrs g a) -> heur g a <= cost g a b + heur g b.

  (* finite graph: [nodes] has no repetition and is closed under neighbours *)
  Definition finite_graph : Prop :=
    NoDup (nodes g) /\ forall a b, In a (nodes g) -> In b (nbrs g a) -> In b (nodes g).
End Spec.

(* what Find needs from its priority queue *)
Record pq_spec (Q : pq_ops) := {
  pq_inv : pq_t Q -> Prop;
  pq_items : pq_t Q -> list item;
  pq_empty_inv : pq_inv (pq_empty Q);
  pq_empty_items : pq_items (pq_empty Q) = [];
  pq_push_inv : forall x q, pq_inv q -> pq_inv (pq_push Q x q);
  pq_push_items : forall x q, pq_inv q -> Permutation (pq_items (pq_push Q x q)) (x :: pq_items q);
  pq_pop_none : forall q, pq_inv q -> pq_pop Q q = None -> pq_items q = [];
  pq_pop_inv : forall q x q', pq_inv q -> pq_pop Q q = Some (x, q') -> pq_inv q';
  pq_pop_items : forall q x q', pq_inv q -> pq_pop Q q = Some (x, q') -> Permutation (pq_items q) (x :: pq_items q');
  pq_pop_min : forall q x q', pq_inv q -> pq_pop Q q = Some (x, q') -> forall y, In y (pq_items q) -> iprio x <= iprio y
}.

(* ------------------------------------------------------------------ paths *)
Lemma plast_snoc p n : plast (p ++ [n]) = n.
Proof. unfold plast. apply last_last. Qed.

Lemma plast_cons a p : p <> [] -> plast (a :: p) = plast p.
Proof. intros H. unfold plast. destruct p; [congruence|reflexivity]. Qed.

Lemma path_cost_snoc c p n : p <> [] -> path_cost c (p ++ [n]) = path_cost c p + c (plast p) n.
Proof.
  induction p as [|a t IH]; [congruence|]. intros _.
  destruct t as [|b t'].
  - cbn. unfold plast; cbn. lia.
  - change ((a :: b :: t') ++ [n]) with (a :: ((b :: t') ++ [n])).
    change (path_cost c (a :: (b :: t') ++ [n])) with (c a b + path_cost c ((b :: t') ++ [n])).
    rewrite IH by congruence.
    change (path_cost c (a :: b :: t')) with (c a b + path_cost c (b :: t')).
    rewrite (plast_cons a (b :: t')) by congruence. lia.
Qed.

Lemma is_walk_snoc g p n : p <> [] -> is_walk g p -> In n (nbrs g (plast p)) -> is_walk g (p ++ [n]).
Proof.
  induction p as [|a t IH]; [congruence|]. intros _ Hw Hn.
  destruct t as [|b t'].
  - cbn in *. unfold plast in Hn; cbn in Hn. auto.
  - change ((a :: b :: t') ++ [n]) with (a :: b :: (t' ++ [n])).
    destruct Hw as [Hab Hw]. split; [exact Hab|].
    change (b :: t' ++ [n]) with ((b :: t') ++ [n]). apply IH; [congruence|exact Hw|].
    rewrite (plast_cons a (b :: t')) in Hn by congruence. exact Hn.
Qed.

Lemma is_walk_app_l g p1 p2 : is_walk g (p1 ++ p2) -> is_walk g p1.
Proof.
  induction p1 as [|a t IH]; [intros; exact I|].
  destruct t as [|b t']; [intros; exact I|].
  change ((a :: b :: t') ++ p2) with (a :: b :: (t' ++ p2)). intros [H1 H2]. split; [exact H1|].
  apply IH. exact H2.
Qed.

Lemma is_walk_snoc_inv g p n : p <> [] -> is_walk g (p ++ [n]) -> In n (nbrs g (plast p)).
Proof.
  induction p as [|a t IH]; [congruence|]. intros _ Hw.
  destruct t as [|b t'].
  - cbn in Hw. unfold plast; cbn. tauto.
  - change ((a :: b :: t') ++ [n]) with (a :: b :: (t' ++ [n])) in Hw. destruct Hw as [_ Hw].
    rewrite (plast_cons a (b :: t')) by congruence. apply IH; [congruence|exact Hw].
Qed.

Lemma hd_app {A} (d : A) p q : p <> [] -> hd d (p ++ q) = hd d p.
Proof. intros H. destruct p; [congruence|reflexivity]. Qed.

(* the potential argument: with a consistent heuristic, cost + h never decreases along a walk *)
Lemma consistent_along g p1 p2 :
  consistent g -> p1 <> [] -> is_walk g (p1 ++ p2) ->
  pcost g p1 + heur g (plast p1) <= pcost g (p1 ++ p2) + heur g (plast (p1 ++ p2)).
Proof.
  intros Hc Hne. induction p2 as [|n t IH] using rev_ind.
  - rewrite app_nil_r. lia.
  - rewrite app_assoc. intros Hw.
    assert (Hne' : p1 ++ t <> []) by (destruct p1; [congruence|discriminate]).
    pose proof (is_walk_app_l _ _ _ Hw) as Hw'.
    specialize (IH Hw').
    pose proof (is_walk_snoc_inv _ _ _ Hne' Hw) as Hedge.
    unfold pcost in *. rewrite path_cost_snoc by exact Hne'. rewrite plast_snoc.
    specialize (Hc _ _ Hedge). lia.
Qed.

(* ------------------------------------------------------------------ the search loop *)
Section Generic.
  Variable Q : pq_ops.
  Variable S : pq_spec Q.
  Variable g : graph.
  Variables start goal : nat.

  Let items := pq_items Q S.
  Let qinv := pq_inv Q S.

  Definition nb_item (p : path) (nb : nat) : item :=
    {| iprio := path_cost (cost g) (extend p nb) + heur g nb; ipath := extend p nb |}.

  Definition good_item (it : item) : Prop :=
    ipath it <> [] /\ hd 0%nat (ipath it) = start /\ is_walk g (ipath it) /\
    iprio it = pcost g (ipath it) + heur g (plast (ipath it)).

  (* v was closed through the walk pv, which is a cheapest one when the heuristic is consistent, and every
     neighbour of v is closed too or waits in the queue at a cost no larger than via pv *)
  Definition closed_ok (its : list item) (closed : list nat) (v : nat) : Prop :=
    exists pv, walk_from_to g start v pv /\
      (consistent g -> forall w, walk_from_to g start v w -> pcost g pv <= pcost g w) /\
      forall n, In n (nbrs g v) ->
        In n closed \/ exists it, In it its /\ plast (ipath it) = n /\ pcost g (ipath it) <= pcost g pv + cost g v n.

  Record Inv (q : pq_t Q) (closed : list nat) : Prop := {
    inv_q : qinv q;
    inv_start : In start closed;
    inv_goal : ~ In goal closed;
    inv_items : forall it, In it (items q) -> good_item it;
    inv_closed : forall v, In v closed -> closed_ok (items q) closed v
  }.

  Lemma push_nbrs_spec p l : forall q, qinv q ->
    qinv (push_nbrs Q g p q l) /\ Permutation (items (push_nbrs Q g p q l)) (map (nb_item p) l ++ items q).
  Proof.
    induction l as [|nb t IH]; intros q Hq; cbn [push_nbrs fold_left map app].
    - split; [exact Hq|apply Permutation_refl].
    - unfold push_nbrs in IH.
      destruct (IH (pq_push Q (nb_item p nb) q) (pq_push_inv Q S _ _ Hq)) as [Hi Hp].
      split; [exact Hi|].
      eapply Permutation_trans; [exact Hp|].
      eapply Permutation_trans; [apply Permutation_app_head; apply (pq_push_items Q S); exact Hq|].
      apply Permutation_sym, Permutation_middle.
  Qed.

  (* Every walk from the start to a node that is not closed passes through the last node of some queued
     item, which is not closed and was reached at most as expensively as along the walk. *)
  Lemma frontier q closed : Inv q closed ->
    forall w t, walk_from_to g start t w -> ~ In t closed ->
    exists it w1 w2, In it (items q) /\ w = w1 ++ w2 /\ w1 <> [] /\
      plast w1 = plast (ipath it) /\ ~ In (plast w1) closed /\
      (consistent g -> pcost g (ipath it) <= pcost g w1).
  Proof.
    intros HI. induction w as [|t' w' IH] using rev_ind; intros t (Hne & Hhd & Hlast & Hw) Hnc.
    - congruence.
    - rewrite plast_snoc in Hlast. subst t'.
      destruct w' as [|a w''].
      + cbn in Hhd. subst t. exfalso. apply Hnc. apply (inv_start _ _ HI).
      + set (w' := a :: w'') in *.
        assert (Hne' : w' <> []) by (unfold w'; congruence).
        pose proof (is_walk_snoc_inv _ _ _ Hne' Hw) as Hedge.
        assert (Hw' : walk_from_to g start (plast w') w').
        { split; [exact Hne'|]. split; [|split; [reflexivity|]].
          - rewrite hd_app in Hhd by exact Hne'. exact Hhd.
          - eapply is_walk_app_l; exact Hw. }
        destruct (in_dec Nat.eq_dec (plast w') closed) as [Hc|Hc].
        * destruct (inv_closed _ _ HI _ Hc) as (pv & Hpv & Hopt & Hn).
          destruct (Hn _ Hedge) as [Hcl|(it & Hin & Hl & Hcost)]; [contradiction|].
          exists it, (w' ++ [t]), []. rewrite app_nil_r, plast_snoc.
          split; [exact Hin|]. split; [reflexivity|]. split; [unfold w'; discriminate|].
          split; [symmetry; exact Hl|]. split; [exact Hnc|].
          intros Hcons. unfold pcost in *. rewrite path_cost_snoc by exact Hne'.
             specialize (Hopt Hcons _ Hw'). unfold pcost in Hopt. lia.
        * destruct (IH _ Hw' Hc) as (it & w1 & w2 & Hin & Heq & Hn1 & Hl & Hnc1 & Hcost).
          exists it, w1, (w2 ++ [t]). rewrite app_assoc, <- Heq.
          split; [exact Hin|]. split; [reflexivity|]. split; [exact Hn1|]. split; [exact Hl|]. split; [exact Hnc1|exact Hcost].
  Qed.

  (* the item popped reaches its last node at least as cheaply as any walk does *)
  Lemma popped_is_cheapest q closed x q' :
    Inv q closed -> pq_pop Q q = Some (x, q') -> ~ In (plast (ipath x)) closed ->
    consistent g -> forall w, walk_from_to g start (plast (ipath x)) w -> pcost g (ipath x) <= pcost g w.
  Proof.
    intros HI Hpop Hnc Hcons w Hw.
    destruct (frontier _ _ HI _ _ Hw Hnc) as (it & w1 & w2 & Hin & Heq & Hn1 & Hl & _ & Hcost).
    pose proof (pq_pop_min Q S _ _ _ (inv_q _ _ HI) Hpop _ Hin) as Hmin.
    assert (Hx : In x (items q)).
    { eapply Permutation_in; [apply Permutation_sym, (pq_pop_items Q S _ _ _ (inv_q _ _ HI) Hpop)|left; reflexivity]. }
    destruct (inv_items _ _ HI _ Hx) as (_ & _ & _ & Hex).
    destruct (inv_items _ _ HI _ Hin) as (_ & _ & _ & Hei).
    destruct Hw as (_ & _ & Hlast & Hww). subst w.
    pose proof (consistent_along _ _ _ Hcons Hn1 Hww) as Hal.
    specialize (Hcost Hcons). rewrite Hlast in Hal. rewrite Hl in Hal. lia.
  Qed.

  Lemma good_nb_item p nb :
    p <> [] -> hd 0%nat p = start -> is_walk g p -> In nb (nbrs g (plast p)) -> good_item (nb_item p nb).
  Proof.
    intros Hne Hhd Hw Hnb. unfold good_item, nb_item, extend; cbn [ipath iprio].
    split; [destruct p; discriminate|]. split; [rewrite hd_app by exact Hne; exact Hhd|].
    split; [apply is_walk_snoc; assumption|]. rewrite plast_snoc. reflexivity.
  Qed.

  (* closing the last node u of a cheapest path p and queueing its neighbours re-establishes the invariant *)
  Lemma expand_inv q' closed p :
    qinv q' ->
    (forall it, In it (items q') -> good_item it) ->
    p <> [] -> hd 0%nat p = start -> is_walk g p ->
    ~ In (plast p) closed -> plast p <> goal -> ~ In goal closed ->
    (In start closed \/ plast p = start) ->
    (consistent g -> forall w, walk_from_to g start (plast p) w -> pcost g p <= pcost g w) ->
    (forall v, In v closed -> exists pv, walk_from_to g start v pv /\
        (consistent g -> forall w, walk_from_to g start v w -> pcost g pv <= pcost g w) /\
        forall n, In n (nbrs g v) -> In n closed \/ n = plast p \/
          exists it, In it (items q') /\ plast (ipath it) = n /\ pcost g (ipath it) <= pcost g pv + cost g v n) ->
    Inv (push_nbrs Q g p q' (nbrs g (plast p))) (plast p :: closed).
  Proof.
    intros Hq Hit Hne Hhd Hw Hnc Hng Hgc Hst Hopt Hcl.
    destruct (push_nbrs_spec p (nbrs g (plast p)) q' Hq) as [Hq2 Hperm].
    constructor.
    - exact Hq2.
    - destruct Hst as [H|H]; [right; exact H|left; exact H].
    - intros [H|H]; [apply Hng; exact H|contradiction].
    - intros it Hin. apply (Permutation_in _ Hperm) in Hin. apply in_app_or in Hin as [Hin|Hin].
      + apply in_map_iff in Hin as (nb & <- & Hnb). apply good_nb_item; assumption.
      + apply Hit; exact Hin.
    - intros v [Hv|Hv].
      + subst v. exists p. split; [repeat split; assumption|]. split; [exact Hopt|].
        intros n Hn. right. exists (nb_item p n). split.
        * apply (Permutation_in _ (Permutation_sym Hperm)). apply in_or_app. left. apply in_map. exact Hn.
        * unfold nb_item, extend; cbn [ipath]. rewrite plast_snoc. split; [reflexivity|].
          unfold pcost. rewrite path_cost_snoc by exact Hne. lia.
      + destruct (Hcl _ Hv) as (pv & Hpv & Hoptv & Hn). exists pv. split; [exact Hpv|]. split; [exact Hoptv|].
        intros n Hnn. destruct (Hn _ Hnn) as [H|[H|(it & Hin & Hl & Hc)]].
        * left. right. exact H.
        * left. left. symmetry. exact H.
        * right. exists it. split; [|split; assumption].
          apply (Permutation_in _ (Permutation_sym Hperm)). apply in_or_app. right. exact Hin.
  Qed.

  Lemma mem_In n l : mem n l = true <-> In n l.
  Proof.
    unfold mem. rewrite existsb_exists. split.
    - intros (x & Hx & He). apply Nat.eqb_eq in He. subst. exact Hx.
    - intros H. exists n. split; [exact H|apply Nat.eqb_refl].
  Qed.

  Definition result_ok (o : out) : Prop :=
    match o with
    | OPath p => walk_from_to g start goal p /\
                 (consistent g -> forall w, walk_from_to g start goal w -> pcost g p <= pcost g w)
    | ONone => ~ reachable g start goal
    | OOutOfFuel => True
    | OBad => False
    end.

  Lemma loop_correct : forall fuel q closed, Inv q closed -> result_ok (find_loop Q g goal fuel q closed).
  Proof.
    induction fuel as [|f IH]; intros q closed HI; cbn [find_loop]; [exact I|].
    destruct (pq_pop Q q) as [[x q']|] eqn:Hpop.
    - pose proof (pq_pop_items Q S _ _ _ (inv_q _ _ HI) Hpop) as Hperm.
      pose proof (pq_pop_inv Q S _ _ _ (inv_q _ _ HI) Hpop) as Hq'.
      assert (Hx : In x (items q)) by (eapply Permutation_in; [apply Permutation_sym, Hperm|left; reflexivity]).
      assert (Hsub : forall it, In it (items q') -> In it (items q))
        by (intros it Hin; eapply Permutation_in; [apply Permutation_sym, Hperm|right; exact Hin]).
      destruct (inv_items _ _ HI _ Hx) as (Hne & Hhd & Hw & Hex).
      destruct (mem (plast (ipath x)) closed) eqn:Hmem.
      + (* already closed: drop the item *)
        apply mem_In in Hmem. apply IH. constructor.
        * exact Hq'.
        * apply (inv_start _ _ HI).
        * apply (inv_goal _ _ HI).
        * intros it Hin. apply (inv_items _ _ HI). apply Hsub. exact Hin.
        * intros v Hv. destruct (inv_closed _ _ HI _ Hv) as (pv & Hpv & Hopt & Hn).
          exists pv. split; [exact Hpv|]. split; [exact Hopt|].
          intros n Hnn. destruct (Hn _ Hnn) as [H|(it & Hin & Hl & Hc)]; [left; exact H|].
          apply (Permutation_in _ Hperm) in Hin. destruct Hin as [Hin|Hin].
          -- subst it. left. rewrite <- Hl. exact Hmem.
          -- right. exists it. auto.
      + assert (Hnc : ~ In (plast (ipath x)) closed).
        { intros H. apply mem_In in H. congruence. }
        destruct (Nat.eqb_spec (plast (ipath x)) goal) as [Hg|Hg].
        * (* the goal is reached *)
          cbn [result_ok]. split.
          -- repeat split; assumption.
          -- intros Hcons w Hww. rewrite <- Hg in Hww.
             eapply popped_is_cheapest; eassumption.
        * apply IH. apply expand_inv; try assumption.
          -- intros it Hin. apply (inv_items _ _ HI). apply Hsub. exact Hin.
          -- apply (inv_goal _ _ HI).
          -- left. apply (inv_start _ _ HI).
          -- intros Hcons w Hww. eapply popped_is_cheapest; eassumption.
          -- intros v Hv. destruct (inv_closed _ _ HI _ Hv) as (pv & Hpv & Hopt & Hn).
             exists pv. split; [exact Hpv|]. split; [exact Hopt|].
             intros n Hnn. destruct (Hn _ Hnn) as [H|(it & Hin & Hl & Hc)]; [left; exact H|].
             apply (Permutation_in _ Hperm) in Hin. destruct Hin as [Hin|Hin].
             ++ subst it. right. left. symmetry. exact Hl.
             ++ right. right. exists it. auto.
    - (* the queue is empty: no walk to the goal can exist *)
      cbn [result_ok]. intros (w & Hw).
      pose proof (pq_pop_none Q S _ (inv_q _ _ HI) Hpop) as Hemp.
      destruct (frontier _ _ HI _ _ Hw (inv_goal _ _ HI)) as (it & _ & _ & Hin & _).
      fold items in Hemp. rewrite Hemp in Hin. exact Hin.
  Qed.
End Generic.

(* ------------------------------------------------------------------ Find = first pop + loop *)
Section Top.
  Variable Q : pq_ops.
  Variable S : pq_spec Q.
  Variable g : graph.
  Variables start goal : nat.

  Let items := pq_items Q S.
  Let qinv := pq_inv Q S.
  Let x0 : item := {| iprio := 0; ipath := [start] |}.
  Let q0 := pq_push Q x0 (pq_empty Q).

  Lemma q0_inv : qinv q0.
  Proof. apply (pq_push_inv Q S). apply (pq_empty_inv Q S). Qed.

  Lemma q0_items : Permutation (items q0) [x0].
  Proof.
    pose proof (pq_push_items Q S x0 _ (pq_empty_inv Q S)) as H.
    rewrite (pq_empty_items Q S) in H. exact H.
  Qed.

  (* the first pop yields the start item and leaves the queue empty *)
  Lemma first_pop : exists q', pq_pop Q q0 = Some (x0, q') /\ qinv q' /\ items q' = [].
  Proof.
    destruct (pq_pop Q q0) as [[x q']|] eqn:Hpop.
    - pose proof (pq_pop_items Q S _ _ _ q0_inv Hpop) as Hp.
      pose proof (Permutation_trans (Permutation_sym q0_items) Hp) as Hp2.
      apply Permutation_length_1_inv in Hp2. injection Hp2 as Hx Hrest. subst x.
      exists q'. split; [reflexivity|]. split; [eapply (pq_pop_inv Q S); [apply q0_inv|exact Hpop]|exact Hrest].
    - pose proof (pq_pop_none Q S _ q0_inv Hpop) as He.
      pose proof q0_items as Hp. fold items in He. rewrite He in Hp.
      apply Permutation_nil in Hp. discriminate.
  Qed.

  Lemma closed_walk_nonneg : consistent g -> forall w, walk_from_to g start start w -> 0 <= pcost g w.
  Proof.
    intros Hc w (Hne & Hhd & Hl & Hw). destruct w as [|a t]; [congruence|]. cbn in Hhd. subst a.
    change (start :: t) with ([start] ++ t) in *.
    pose proof (consistent_along g [start] t Hc ltac:(discriminate) Hw) as H.
    rewrite Hl in H. unfold pcost in *. cbn [path_cost] in H. unfold plast in H at 1. cbn [last] in H. lia.
  Qed.

  Theorem find_with_ok : result_ok g start goal (find_with Q g start goal).
  Proof.
    unfold find_with, find_fuel.
    set (k := fold_right _ _ _). change (2 + k)%nat with (Datatypes.S (Datatypes.S k)).
    remember (Datatypes.S k) as f eqn:Hf. clear Hf. cbn [find_loop]. fold x0. fold q0.
    destruct first_pop as (q' & Hpop & Hq' & Hemp). rewrite Hpop.
    cbn [ipath x0]. change (plast [start]) with start. cbn [mem existsb].
    destruct (Nat.eqb_spec start goal) as [Hsg|Hsg].
    - cbn [result_ok]. split.
      + repeat split; [discriminate|exact Hsg].
      + intros Hc w Hw. rewrite <- Hsg in Hw. unfold pcost at 1. cbn [path_cost].
        apply closed_walk_nonneg; assumption.
    - apply (loop_correct Q S).
      change start with (plast [start]) at 2 4.
      apply expand_inv.
      + exact Hq'.
      + intros it Hin. fold items in Hin. rewrite Hemp in Hin. destruct Hin.
      + discriminate.
      + reflexivity.
      + exact I.
      + intros [].
      + exact Hsg.
      + intros [].
      + right. reflexivity.
      + intros Hc w Hw. unfold pcost at 1. cbn [path_cost]. apply closed_walk_nonneg; assumption.
      + intros v [].
  Qed.

  (* ---- termination within the fuel, on finite graphs *)
  Definition deg (n : nat) : nat := length (nbrs g n).
  Fixpoint open_deg (closed : list nat) (ns : list nat) : nat :=
    match ns with
    | [] => 0
    | n :: t => ((if mem n closed then 0 else deg n) + open_deg closed t)%nat
    end.

  Lemma open_deg_notin u closed ns : ~ In u ns -> open_deg (u :: closed) ns = open_deg closed ns.
  Proof.
    induction ns as [|n t IH]; intros Hn; cbn [open_deg]; [reflexivity|].
    rewrite IH by (intros H; apply Hn; right; exact H).
    cbn [mem existsb]. destruct (Nat.eqb_spec n u) as [->|]; [exfalso; apply Hn; left; reflexivity|reflexivity].
  Qed.

  Lemma open_deg_close u closed ns :
    NoDup ns -> In u ns -> mem u closed = false -> (open_deg (u :: closed) ns + deg u = open_deg closed ns)%nat.
  Proof.
    induction ns as [|n t IH]; intros Hnd Hin Hm; [destruct Hin|].
    inversion Hnd as [|? ? Hnt Hndt]; subst. cbn [open_deg].
    destruct Hin as [->|Hin].
    - rewrite open_deg_notin by exact Hnt. rewrite Hm. cbn [mem existsb]. rewrite Nat.eqb_refl. cbn [orb]. lia.
    - specialize (IH Hndt Hin Hm).
      cbn [mem existsb]. destruct (Nat.eqb_spec n u) as [->|]; [contradiction|]. cbn [orb].
      change (existsb (Nat.eqb n) closed) with (mem n closed). lia.
  Qed.

  Lemma open_deg_nil ns : open_deg [] ns = fold_right (fun n acc => (length (nbrs g n) + acc)%nat) 0%nat ns.
  Proof. induction ns as [|n t IH]; cbn; [reflexivity|]. unfold deg. rewrite <- IH. reflexivity. Qed.

  Hypothesis Hfin : finite_graph g.
  Hypothesis Hstart : In start (nodes g).

  Definition in_graph (q : pq_t Q) : Prop :=
    qinv q /\ forall it, In it (items q) -> ipath it <> [] /\ In (plast (ipath it)) (nodes g).

  Lemma loop_fuel : forall fuel q closed, in_graph q ->
    (length (items q) + open_deg closed (nodes g) < fuel)%nat ->
    find_loop Q g goal fuel q closed <> OOutOfFuel.
  Proof.
    destruct Hfin as [Hnd Hclosed].
    induction fuel as [|f IH]; intros q closed [Hq Hit] Hlt; [lia|]. cbn [find_loop].
    destruct (pq_pop Q q) as [[x q']|] eqn:Hpop; [|discriminate].
    pose proof (pq_pop_items Q S _ _ _ Hq Hpop) as Hperm.
    pose proof (pq_pop_inv Q S _ _ _ Hq Hpop) as Hq'.
    pose proof (Permutation_length Hperm) as Hlen. cbn [length] in Hlen. fold items in Hlen.
    assert (Hx : In x (items q)) by (eapply Permutation_in; [apply Permutation_sym, Hperm|left; reflexivity]).
    assert (Hsub : forall it, In it (items q') -> In it (items q))
      by (intros it Hin; eapply Permutation_in; [apply Permutation_sym, Hperm|right; exact Hin]).
    destruct (Hit _ Hx) as [Hne Hxn].
    destruct (mem (plast (ipath x)) closed) eqn:Hmem.
    - apply IH; [split; [exact Hq'|intros it Hin; apply Hit, Hsub, Hin]|lia].
    - destruct (Nat.eqb_spec (plast (ipath x)) goal); [discriminate|].
      destruct (push_nbrs_spec Q S g (ipath x) (nbrs g (plast (ipath x))) q' Hq') as [Hq2 Hp2].
      apply IH.
      + split; [exact Hq2|]. intros it Hin. apply (Permutation_in _ Hp2) in Hin.
        apply in_app_or in Hin as [Hin|Hin].
        * apply in_map_iff in Hin as (nb & <- & Hnb). unfold nb_item, extend; cbn [ipath].
          rewrite plast_snoc. split; [destruct (ipath x); discriminate|]. eapply Hclosed; eassumption.
        * apply Hit, Hsub, Hin.
      + pose proof (Permutation_length Hp2) as Hl2. rewrite app_length, map_length in Hl2. fold items in Hl2.
        pose proof (open_deg_close _ closed _ Hnd Hxn Hmem) as Hod. unfold deg in Hod. lia.
  Qed.

  Theorem find_with_terminates : find_with Q g start goal <> OOutOfFuel.
  Proof.
    unfold find_with. apply loop_fuel.
    - split; [apply q0_inv|]. intros it Hin. apply (Permutation_in _ q0_items) in Hin.
      destruct Hin as [<-|[]]. cbn. split; [discriminate|exact Hstart].
    - pose proof (Permutation_length q0_items) as Hl. cbn [length] in Hl.
      change (length (items q0) = 1%nat) in Hl. change (pq_push Q _ (pq_empty Q)) with q0.
      rewrite Hl. rewrite open_deg_nil. unfold find_fuel. lia.
  Qed.

  Theorem find_with_none_iff : find_with Q g start goal = ONone <-> ~ reachable g start goal.
  Proof.
    pose proof find_with_ok as Hok. pose proof find_with_terminates as Ht.
    destruct (find_with Q g start goal) as [p| | |] eqn:E; cbn [result_ok] in Hok.
    - split; [discriminate|]. intros Hn. exfalso. apply Hn. exists p. apply Hok.
    - split; [intros _; exact Hok|reflexivity].
    - congruence.
    - destruct Hok.
  Qed.
End Top.
