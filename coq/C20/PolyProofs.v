(* MV.C20.PolyProofs — ray casting (IsPointInside) on strictly convex polygons with any number of vertices. *)
From Coq Require Import QArith Qabs Qminmax Lqa Lia List Bool SetoidList Permutation.
From MV Require Import C20.GeomModel C20.GeomProofs.
Import ListNotations.
Open Scope Q_scope.

(* ---- the algebra: two edges crossing the level y of q = (x, y) *)
Section Core.
  Variables ax ay bx by_ cx cy dx dy x y : Q.
  Let A : pt := (ax, ay). Let B : pt := (bx, by_). Let C : pt := (cx, cy). Let D : pt := (dx, dy).
  Let q : pt := (x, y).

  (* two upward edges A->B and C->D at the level of q: impossible when C is strictly left of A->B and
     D, A, B are weakly on the inner sides *)
  Lemma two_ups : ay <= y -> y < by_ -> cy <= y -> y < dy ->
    0 < orient A B C -> 0 <= orient A B D -> 0 <= orient C D A -> 0 <= orient C D B -> False.
  Proof.
    unfold orient, A, B, C, D; qsimp. intros.
    set (W1 := (dy - y) * ((bx - ax) * (cy - ay) - (by_ - ay) * (cx - ax)) + (y - cy) * ((bx - ax) * (dy - ay) - (by_ - ay) * (dx - ax))).
    set (W2 := (by_ - y) * ((dx - cx) * (ay - cy) - (dy - cy) * (ax - cx)) + (y - ay) * ((dx - cx) * (by_ - cy) - (dy - cy) * (bx - cx))).
    assert (E : W1 + W2 == 0) by (unfold W1, W2; ring).
    assert (P1 : 0 < W1) by (unfold W1; nra).
    assert (P2 : 0 <= W2) by (unfold W2; nra).
    lra.
  Qed.

  (* two downward edges *)
  Lemma two_downs : by_ <= y -> y < ay -> dy <= y -> y < cy ->
    0 < orient A B D -> 0 <= orient A B C -> 0 <= orient C D A -> 0 <= orient C D B -> False.
  Proof.
    unfold orient, A, B, C, D; qsimp. intros.
    set (W1 := (y - dy) * ((bx - ax) * (cy - ay) - (by_ - ay) * (cx - ax)) + (cy - y) * ((bx - ax) * (dy - ay) - (by_ - ay) * (dx - ax))).
    set (W2 := (y - by_) * ((dx - cx) * (ay - cy) - (dy - cy) * (ax - cx)) + (ay - y) * ((dx - cx) * (by_ - cy) - (dy - cy) * (bx - cx))).
    assert (E : W1 + W2 == 0) by (unfold W1, W2; ring).
    assert (P1 : 0 < W1) by (unfold W1; nra).
    assert (P2 : 0 <= W2) by (unfold W2; nra).
    lra.
  Qed.

  (* A->B upward, C->D downward, C and D weakly left of A->B: q cannot be right of (or on) A->B and right of C->D *)
  Lemma up_down_order : ay <= y -> y < by_ -> dy <= y -> y < cy ->
    0 <= orient A B C -> 0 <= orient A B D ->
    0 <= (cy - dy) * orient A B q + (by_ - ay) * orient C D q.
  Proof.
    unfold orient, A, B, C, D, q; qsimp. intros.
    set (W := (y - dy) * ((bx - ax) * (cy - ay) - (by_ - ay) * (cx - ax)) + (cy - y) * ((bx - ax) * (dy - ay) - (by_ - ay) * (dx - ax))).
    assert (E : W == (cy - dy) * ((bx - ax) * (y - ay) - (by_ - ay) * (x - ax)) + (by_ - ay) * ((dx - cx) * (y - cy) - (dy - cy) * (x - cx))) by (unfold W; ring).
    assert (P : 0 <= W) by (unfold W; nra).
    lra.
  Qed.

  (* q on the chord between the downward edge C->D and the upward edge A->B is on the inner side of every
     edge E->F that has A, B, C, D weakly on its inner side *)
  Variables ex ey fx fy : Q.
  Let E : pt := (ex, ey). Let F : pt := (fx, fy).
  Lemma chord_inside : ay <= y -> y < by_ -> dy <= y -> y < cy ->
    0 < orient A B q -> 0 <= orient C D q ->
    0 <= orient E F A -> 0 <= orient E F B -> 0 <= orient E F C -> 0 <= orient E F D ->
    0 <= orient E F q.
  Proof.
    unfold orient, A, B, C, D, E, F, q; qsimp. intros H1 H2 H3 H4 HU HD GA GB GC GD.
    set (OU := (bx - ax) * (y - ay) - (by_ - ay) * (x - ax)) in *.
    set (OD := (dx - cx) * (y - cy) - (dy - cy) * (x - cx)) in *.
    set (gA := (fx - ex) * (ay - ey) - (fy - ey) * (ax - ex)) in *.
    set (gB := (fx - ex) * (by_ - ey) - (fy - ey) * (bx - ex)) in *.
    set (gC := (fx - ex) * (cy - ey) - (fy - ey) * (cx - ex)) in *.
    set (gD := (fx - ex) * (dy - ey) - (fy - ey) * (dx - ex)) in *.
    set (gq := (fx - ex) * (y - ey) - (fy - ey) * (x - ex)).
    assert (Id : gq * ((cy - dy) * OU + (by_ - ay) * OD) ==
                 OU * ((y - dy) * gC + (cy - y) * gD) + OD * ((by_ - y) * gA + (y - ay) * gB))
      by (unfold gq, OU, OD, gA, gB, gC, gD; ring).
    assert (K : 0 < (cy - dy) * OU + (by_ - ay) * OD) by nra.
    assert (R : 0 <= OU * ((y - dy) * gC + (cy - y) * gD) + OD * ((by_ - y) * gA + (y - ay) * gB)).
    { assert (0 <= (y - dy) * gC + (cy - y) * gD) by nra.
      assert (0 <= (by_ - y) * gA + (y - ay) * gB) by nra. nra. }
    destruct (Qlt_le_dec gq 0) as [Hn|Hn]; [|exact Hn]. exfalso.
    assert (gq * ((cy - dy) * OU + (by_ - ay) * OD) < 0) by nra. lra.
  Qed.
End Core.

(* q strictly inside the corner U, V, W (left of U->V and of V->W): its height relative to V *)
Lemma corner_height (U V W q : pt) :
  orient U V W * (py q - py V) == orient V W q * (py U - py V) + orient U V q * (py W - py V).
Proof. destruct U, V, W, q. unfold orient; qsimp. ring. Qed.


(* ---- the closed chain of edges that the ray-casting loop walks: (p[n-1],p[0]), (p[0],p[1]), ... *)
Fixpoint steps (c : list pt) : list (pt * pt) :=
  match c with
  | a :: (b :: _) as t => (a, b) :: steps t
  | _ => []
  end.
Definition cedges (P : polygon) : list (pt * pt) := steps (last P (0, 0) :: P).

Definition crosses_e (x y : Q) (e : pt * pt) : bool := crosses x y (snd e) (fst e).
Definition b2n (b : bool) : nat := if b then 1%nat else 0%nat.

Lemma ray_loop_steps x y : forall l pj b,
  ray_loop x y pj l b = xorb b (Nat.odd (length (filter (crosses_e x y) (steps (pj :: l))))).
Proof.
  induction l as [|pi t IH]; intros pj b.
  - cbn. destruct b; reflexivity.
  - change (steps (pj :: pi :: t)) with ((pj, pi) :: steps (pi :: t)).
    cbn [ray_loop filter]. rewrite IH. unfold crosses_e at 2. cbn [fst snd].
    destruct (crosses x y pi pj).
    + cbn [length]. rewrite Nat.odd_succ, <- Nat.negb_odd. destruct b, (Nat.odd _); reflexivity.
    + reflexivity.
Qed.

Lemma point_inside_count P q :
  point_inside P q = Nat.odd (length (filter (crosses_e (px q) (py q)) (cedges P))).
Proof. unfold point_inside, cedges. rewrite ray_loop_steps. destruct (Nat.odd _); reflexivity. Qed.

(* level of q relative to the end points of an edge *)
Definition above (y : Q) (p : pt) : bool := Qltb y (py p).
Definition upb (y : Q) (e : pt * pt) : bool := negb (above y (fst e)) && above y (snd e).
Definition downb (y : Q) (e : pt * pt) : bool := above y (fst e) && negb (above y (snd e)).
Definition posb (q : pt) (e : pt * pt) : bool := Qltb 0 (orient (fst e) (snd e) q).
Definition negb_ (q : pt) (e : pt * pt) : bool := Qltb (orient (fst e) (snd e) q) 0.

Lemma crosses_e_updown x y e :
  crosses_e x y e = (upb y e && posb (x, y) e) || (downb y e && negb_ (x, y) e).
Proof.
  unfold crosses_e, upb, downb, posb, negb_, above. rewrite crosses_bool.
  destruct (Qltb y (py (snd e))); destruct (Qltb y (py (fst e))); cbn [xorb andb negb orb]; try reflexivity.
  - rewrite orb_false_r. reflexivity.
Qed.

Lemma last_indep {A} (l : list A) (d d' : A) : l <> [] -> last l d = last l d'.
Proof. induction l as [|x t IH]; [congruence|]. intros _. destruct t; [reflexivity|]. cbn [last] in *. apply IH. discriminate. Qed.

(* along any chain, (#down - #up) = above(first) - above(last) *)
Lemma ups_downs_chain y : forall c a,
  (b2n (above y (last c a)) + length (filter (downb y) (steps (a :: c))) =
   b2n (above y a) + length (filter (upb y) (steps (a :: c))))%nat.
Proof.
  induction c as [|b t IH]; intros a.
  - cbn. lia.
  - change (steps (a :: b :: t)) with ((a, b) :: steps (b :: t)). cbn [filter].
    assert (El : last (b :: t) a = last t b).
    { destruct t as [|p t']; [reflexivity|]. change (last (b :: p :: t') a) with (last (p :: t') a). apply last_indep. discriminate. }
    rewrite El.
    specialize (IH b). unfold upb, downb in *. cbn [fst snd].
    destruct (above y a), (above y b); cbn [negb andb length b2n] in *; lia.
Qed.

Lemma last_in {A} (l : list A) d : l <> [] -> In (last l d) l.
Proof.
  induction l as [|a t IH]; [congruence|]. intros _. destruct t as [|b t']; [left; reflexivity|].
  right. apply IH. discriminate.
Qed.

Lemma cedges_ups_eq_downs y P : P <> [] ->
  length (filter (upb y) (cedges P)) = length (filter (downb y) (cedges P)).
Proof.
  intros Hne. unfold cedges. pose proof (ups_downs_chain y P (last P (0, 0))) as H.
  rewrite (last_indep P (last P (0,0)) (0,0)) in H by exact Hne. lia.
Qed.

(* ---- structure of the chain *)
Lemma steps_in : forall c a b, In (a, b) (steps c) -> In a c /\ In b c.
Proof.
  induction c as [|x t IH]; intros a b H; [destruct H|].
  destruct t as [|z t']; [destruct H|].
  change (steps (x :: z :: t')) with ((x, z) :: steps (z :: t')) in H. destruct H as [H|H].
  - inversion H; subst. split; [left; reflexivity|right; left; reflexivity].
  - destruct (IH _ _ H) as [H1 H2]. split; right; assumption.
Qed.

Lemma cedges_in P e : P <> [] -> In e (cedges P) -> In (fst e) P /\ In (snd e) P.
Proof.
  intros Hne H. destruct e as [a b]. apply steps_in in H. cbn [fst snd].
  pose proof (last_in P (0, 0) Hne) as Hl.
  destruct H as [[<-|H1] [<-|H2]]; auto.
Qed.

Lemma map_snd_steps : forall l a, map snd (steps (a :: l)) = l.
Proof.
  induction l as [|b t IH]; intros a; [reflexivity|].
  change (steps (a :: b :: t)) with ((a, b) :: steps (b :: t)). cbn [map snd]. rewrite IH. reflexivity.
Qed.

Lemma map_fst_steps : forall l a, map fst (steps (a :: l)) = removelast (a :: l).
Proof.
  induction l as [|b t IH]; intros a; [reflexivity|].
  change (steps (a :: b :: t)) with ((a, b) :: steps (b :: t)). cbn [map fst]. rewrite IH. reflexivity.
Qed.

Lemma steps_pred : forall l a v, In v l -> exists U, In (U, v) (steps (a :: l)).
Proof.
  induction l as [|b t IH]; intros a v H; [destruct H|].
  change (steps (a :: b :: t)) with ((a, b) :: steps (b :: t)). destruct H as [<-|H].
  - exists a. left. reflexivity.
  - destruct (IH b v H) as [U HU]. exists U. right. exact HU.
Qed.

Lemma steps_succ : forall l a v, In v (removelast (a :: l)) -> exists W, In (v, W) (steps (a :: l)).
Proof.
  induction l as [|b t IH]; intros a v H; [destruct H|].
  change (steps (a :: b :: t)) with ((a, b) :: steps (b :: t)).
  change (removelast (a :: b :: t)) with (a :: removelast (b :: t)) in H. destruct H as [<-|H].
  - exists b. left. reflexivity.
  - destruct (IH b v H) as [W HW]. exists W. right. exact HW.
Qed.

Lemma cedges_pred_succ P v : In v P -> exists U W, In (U, v) (cedges P) /\ In (v, W) (cedges P).
Proof.
  intros Hv. assert (Hne : P <> []) by (destruct P; [destruct Hv|discriminate]).
  destruct (steps_pred P (last P (0, 0)) v Hv) as [U HU].
  assert (Hr : In v (removelast (last P (0, 0) :: P))).
  { destruct P as [|p0 t]; [congruence|]. change (removelast (last (p0 :: t) (0, 0) :: p0 :: t)) with (last (p0 :: t) (0, 0) :: removelast (p0 :: t)).
    rewrite (app_removelast_last (0, 0) Hne) in Hv. apply in_app_or in Hv. destruct Hv as [Hv|[<-|[]]]; [right; exact Hv|left; reflexivity]. }
  destruct (steps_succ P (last P (0, 0)) v Hr) as [W HW].
  exists U, W. split; assumption.
Qed.

Lemma filter_le_1 {A} (f : A -> bool) : forall l,
  (forall l1 e1 l2 e2 l3, l = l1 ++ e1 :: l2 ++ e2 :: l3 -> f e1 = true -> f e2 = true -> False) ->
  (length (filter f l) <= 1)%nat.
Proof.
  induction l as [|a t IH]; intros H; [cbn; lia|]. cbn [filter].
  destruct (f a) eqn:Fa.
  - assert (Hn : filter f t = []).
    { destruct (filter f t) as [|e2 r] eqn:E; [reflexivity|]. exfalso.
      assert (Hin : In e2 (filter f t)) by (rewrite E; left; reflexivity).
      apply filter_In in Hin. destruct Hin as [Hin Fe]. apply in_split in Hin. destruct Hin as (l2 & l3 & ->).
      apply (H [] a l2 e2 l3); [reflexivity|exact Fa|exact Fe]. }
    rewrite Hn. cbn. lia.
  - apply IH. intros l1 e1 l2 e2 l3 -> F1 F2. apply (H (a :: l1) e1 l2 e2 l3); [reflexivity|exact F1|exact F2].
Qed.

(* vertices pairwise different *)
#[export] Instance pt_eq_equiv : Equivalence pt_eq.
Proof.
  split.
  - intros [x y]. unfold pt_eq; qsimp. split; reflexivity.
  - intros a b. apply pt_eq_sym.
  - intros [x y] [x' y'] [x'' y''] [H1 H2] [H3 H4]. unfold pt_eq in *; qsimp. split; [rewrite H1|rewrite H2]; assumption.
Qed.

Lemma NoDupA_split_neq (l1 : list pt) a l2 b l3 : NoDupA pt_eq (l1 ++ a :: l2 ++ b :: l3) -> ~ pt_eq a b.
Proof.
  induction l1 as [|x t IH]; intros H.
  - cbn in H. inversion H as [|? ? Hn _]; subst. intros He. apply Hn.
    apply InA_app_iff. right. left. exact He.
  - inversion H; subst. apply IH. assumption.
Qed.

Lemma NoDupA_rotate (l : list pt) x : NoDupA pt_eq (l ++ [x]) -> NoDupA pt_eq (x :: l).
Proof.
  intros H. apply NoDupA_rev in H; [|exact pt_eq_equiv]. rewrite rev_app_distr in H. cbn in H.
  inversion H as [|? ? Hn Hr]; subst. constructor.
  - intros Hi. apply Hn. apply InA_rev. exact Hi.
  - apply NoDupA_rev in Hr; [|exact pt_eq_equiv]. rewrite rev_involutive in Hr. exact Hr.
Qed.

Lemma cedges_distinct P l1 e1 l2 e2 l3 : NoDupA pt_eq P -> cedges P = l1 ++ e1 :: l2 ++ e2 :: l3 ->
  ~ pt_eq (fst e1) (fst e2) /\ ~ pt_eq (snd e1) (snd e2).
Proof.
  intros Hnd He.
  assert (Hne : P <> []) by (intros ->; cbn in He; destruct l1; discriminate).
  split.
  - assert (Hf : map fst (cedges P) = last P (0, 0) :: removelast P).
    { unfold cedges. rewrite map_fst_steps. destruct P; [congruence|reflexivity]. }
    rewrite He in Hf. rewrite !map_app in Hf. cbn [map] in Hf. rewrite !map_app in Hf. cbn [map] in Hf.
    assert (Hr : NoDupA pt_eq (last P (0, 0) :: removelast P)).
    { apply NoDupA_rotate. rewrite <- app_removelast_last by exact Hne. exact Hnd. }
    rewrite <- Hf in Hr. apply NoDupA_split_neq in Hr. exact Hr.
  - assert (Hs : map snd (cedges P) = P) by (unfold cedges; apply map_snd_steps).
    rewrite He in Hs. rewrite !map_app in Hs. cbn [map] in Hs. rewrite !map_app in Hs. cbn [map] in Hs.
    rewrite <- Hs in Hnd. apply NoDupA_split_neq in Hnd. exact Hnd.
Qed.

(* ---- strictly convex polygons, counter-clockwise *)
Definition oe (e : pt * pt) (v : pt) : Q := orient (fst e) (snd e) v.

(* pairwise different vertices, and every vertex strictly on the left of every edge it is not an end point of *)
Definition strictly_convex_ccw (P : polygon) : Prop :=
  NoDupA pt_eq P /\
  forall e v, In e (cedges P) -> In v P -> ~ pt_eq v (fst e) -> ~ pt_eq v (snd e) -> 0 < oe e v.

Lemma pt_eq_dec a b : {pt_eq a b} + {~ pt_eq a b}.
Proof.
  destruct a as [x y], b as [x' y']. unfold pt_eq; qsimp.
  destruct (Qeq_dec x x'); [destruct (Qeq_dec y y')|]; [left; split; assumption|right; tauto|right; tauto].
Qed.

Lemma orient_at_fst a b v : pt_eq v a -> orient a b v == 0.
Proof. destruct a, b, v. unfold pt_eq, orient; qsimp. intros [H1 H2]. rewrite H1, H2. ring. Qed.
Lemma orient_at_snd a b v : pt_eq v b -> orient a b v == 0.
Proof. destruct a, b, v. unfold pt_eq, orient; qsimp. intros [H1 H2]. rewrite H1, H2. ring. Qed.

Lemma convex_weak P e v : strictly_convex_ccw P -> In e (cedges P) -> In v P -> 0 <= oe e v.
Proof.
  intros [_ Hc] He Hv. unfold oe.
  destruct (pt_eq_dec v (fst e)) as [E1|E1]; [rewrite (orient_at_fst _ _ _ E1); lra|].
  destruct (pt_eq_dec v (snd e)) as [E2|E2]; [rewrite (orient_at_snd _ _ _ E2); lra|].
  specialize (Hc e v He Hv E1 E2). unfold oe in Hc. lra.
Qed.

Lemma above_true y p : above y p = true <-> y < py p.
Proof. apply Qltb_lt. Qed.
Lemma above_false y p : above y p = false <-> py p <= y.
Proof. apply Qltb_ge. Qed.
Lemma upb_iff y e : upb y e = true <-> py (fst e) <= y /\ y < py (snd e).
Proof. unfold upb. rewrite andb_true_iff, negb_true_iff, above_false, above_true. reflexivity. Qed.
Lemma downb_iff y e : downb y e = true <-> py (snd e) <= y /\ y < py (fst e).
Proof. unfold downb. rewrite andb_true_iff, negb_true_iff, above_false, above_true. tauto. Qed.

Lemma in_split_mid {A} (l1 : list A) e1 l2 e2 l3 :
  In e1 (l1 ++ e1 :: l2 ++ e2 :: l3) /\ In e2 (l1 ++ e1 :: l2 ++ e2 :: l3).
Proof.
  split; apply in_or_app; right; [left; reflexivity|]. right. apply in_or_app. right. left. reflexivity.
Qed.

(* a horizontal line meets the boundary of a strictly convex polygon in at most one upward edge ... *)
Lemma ups_le_1 P y : strictly_convex_ccw P -> (length (filter (upb y) (cedges P)) <= 1)%nat.
Proof.
  intros HP. apply filter_le_1. intros l1 e1 l2 e2 l3 He U1 U2.
  assert (Hne : P <> []) by (intros ->; cbn in He; destruct l1; discriminate).
  destruct (in_split_mid l1 e1 l2 e2 l3) as [I1 I2]. rewrite <- He in I1, I2.
  destruct (cedges_in P e1 Hne I1) as [A1 B1]. destruct (cedges_in P e2 Hne I2) as [C1 D1].
  destruct (cedges_distinct P l1 e1 l2 e2 l3 (proj1 HP) He) as [Nf _].
  apply upb_iff in U1. apply upb_iff in U2. destruct U1 as [Ua Ub]. destruct U2 as [Uc Ud].
  assert (S1 : 0 < oe e1 (fst e2)).
  { apply (proj2 HP); try assumption.
    - intros E. apply Nf. apply pt_eq_sym. exact E.
    - intros [_ E]. lra. }
  pose proof (convex_weak P e1 (snd e2) HP I1 D1) as W1.
  pose proof (convex_weak P e2 (fst e1) HP I2 A1) as W2.
  pose proof (convex_weak P e2 (snd e1) HP I2 B1) as W3.
  destruct e1 as [[ax ay] [bx by_]], e2 as [[cx cy] [dx dy]]. unfold oe in *; qsimp.
  exact (two_ups ax ay bx by_ cx cy dx dy y Ua Ub Uc Ud S1 W1 W2 W3).
Qed.

(* ... and at most one downward edge *)
Lemma downs_le_1 P y : strictly_convex_ccw P -> (length (filter (downb y) (cedges P)) <= 1)%nat.
Proof.
  intros HP. apply filter_le_1. intros l1 e1 l2 e2 l3 He U1 U2.
  assert (Hne : P <> []) by (intros ->; cbn in He; destruct l1; discriminate).
  destruct (in_split_mid l1 e1 l2 e2 l3) as [I1 I2]. rewrite <- He in I1, I2.
  destruct (cedges_in P e1 Hne I1) as [A1 B1]. destruct (cedges_in P e2 Hne I2) as [C1 D1].
  destruct (cedges_distinct P l1 e1 l2 e2 l3 (proj1 HP) He) as [_ Ns].
  apply downb_iff in U1. apply downb_iff in U2. destruct U1 as [Ub Ua]. destruct U2 as [Ud Uc].
  assert (S1 : 0 < oe e1 (snd e2)).
  { apply (proj2 HP); try assumption.
    - intros [_ E]. lra.
    - intros E. apply Ns. apply pt_eq_sym. exact E. }
  pose proof (convex_weak P e1 (fst e2) HP I1 C1) as W1.
  pose proof (convex_weak P e2 (fst e1) HP I2 A1) as W2.
  pose proof (convex_weak P e2 (snd e1) HP I2 B1) as W3.
  destruct e1 as [[ax ay] [bx by_]], e2 as [[cx cy] [dx dy]]. unfold oe in *; qsimp.
  exact (two_downs ax ay bx by_ cx cy dx dy y Ub Ua Ud Uc S1 W1 W2 W3).
Qed.

(* ---- q strictly inside: some edge passes its level upwards *)
Lemma two_nonpos_zero s1 s2 d1 d2 : 0 < s1 -> 0 < s2 -> d1 <= 0 -> d2 <= 0 -> 0 <= s1 * d1 + s2 * d2 -> d1 == 0 /\ d2 == 0.
Proof.
  intros P1 P2 N1 N2 H.
  assert (s1 * d1 <= 0) by nra. assert (s2 * d2 <= 0) by nra.
  assert (Z1 : s1 * d1 == 0) by lra. assert (Z2 : s2 * d2 == 0) by lra.
  apply Qmult_integral in Z1. apply Qmult_integral in Z2. split; [destruct Z1|destruct Z2]; lra.
Qed.

Lemma corner_top P q U V W : strictly_convex_ccw P -> In (U, V) (cedges P) -> In (V, W) (cedges P) ->
  0 < orient U V q -> 0 < orient V W q -> py U <= py V -> py W <= py V -> py V <= py q -> False.
Proof.
  intros HP I1 I2 O1 O2 HU HW Hq.
  assert (Hne : P <> []) by (intros ->; destruct I1).
  destruct (cedges_in P _ Hne I1) as [UP VP]. destruct (cedges_in P _ Hne I2) as [_ WP]. cbn [fst snd] in *.
  pose proof (convex_weak P (U, V) W HP I1 WP) as D0. unfold oe in D0. cbn [fst snd] in D0.
  pose proof (corner_height U V W q) as Hc.
  assert (Hd : 0 <= orient U V W * (py q - py V)) by (apply Qmult_le_0_compat; lra).
  destruct (two_nonpos_zero (orient V W q) (orient U V q) (py U - py V) (py W - py V)) as [Z1 Z2]; try lra.
  assert (S : 0 < orient U V W).
  { apply (proj2 HP (U, V) W I1 WP); cbn [fst snd].
    - (* W differs from U: W is to the right of V, which is to the right of U *)
      destruct U as [ux uy], V as [vx vy], W as [wx wy], q as [x y]. unfold orient, pt_eq in *; qsimp.
      intros [E1 E2].
      assert (A1 : (vy - uy) * (x - ux) == 0) by (setoid_replace (vy - uy) with 0 by lra; ring).
      assert (A2 : (wy - vy) * (x - vx) == 0) by (setoid_replace (wy - vy) with 0 by lra; ring).
      assert (B1 : 0 < (vx - ux) * (y - uy)) by lra. assert (B2 : 0 < (wx - vx) * (y - vy)) by lra.
      assert (0 <= y - uy) by lra. assert (0 <= y - vy) by lra. nra.
    - destruct U as [ux uy], V as [vx vy], W as [wx wy], q as [x y]. unfold orient, pt_eq in *; qsimp.
      intros [E1 E2].
      assert (A2 : (wy - vy) * (x - vx) == 0) by (setoid_replace (wy - vy) with 0 by lra; ring).
      assert (B2 : 0 < (wx - vx) * (y - vy)) by lra. nra. }
  destruct U as [ux uy], V as [vx vy], W as [wx wy]. unfold orient in S; qsimp.
  assert (A1 : (vx - ux) * (wy - uy) == 0) by (setoid_replace (wy - uy) with 0 by lra; ring).
  assert (A2 : (vy - uy) * (wx - ux) == 0) by (setoid_replace (vy - uy) with 0 by lra; ring).
  lra.
Qed.

Lemma corner_bottom P q U V W : strictly_convex_ccw P -> In (U, V) (cedges P) -> In (V, W) (cedges P) ->
  0 < orient U V q -> 0 < orient V W q -> py V <= py U -> py V <= py W -> py q < py V -> False.
Proof.
  intros HP I1 I2 O1 O2 HU HW Hq.
  assert (Hne : P <> []) by (intros ->; destruct I1).
  destruct (cedges_in P _ Hne I1) as [UP VP]. destruct (cedges_in P _ Hne I2) as [_ WP]. cbn [fst snd] in *.
  pose proof (convex_weak P (U, V) W HP I1 WP) as D0. unfold oe in D0. cbn [fst snd] in D0.
  pose proof (corner_height U V W q) as Hc.
  assert (Hd : orient U V W * (py q - py V) <= 0).
  { setoid_replace (orient U V W * (py q - py V)) with (- (orient U V W * (py V - py q))) by ring.
    assert (0 <= orient U V W * (py V - py q)) by (apply Qmult_le_0_compat; lra). lra. }
  destruct (two_nonpos_zero (orient V W q) (orient U V q) (py V - py U) (py V - py W)) as [Z1 Z2]; try lra.
  assert (S : 0 < orient U V W).
  { apply (proj2 HP (U, V) W I1 WP); cbn [fst snd].
    - destruct U as [ux uy], V as [vx vy], W as [wx wy], q as [x y]. unfold orient, pt_eq in *; qsimp.
      intros [E1 E2].
      assert (A1 : (vy - uy) * (x - ux) == 0) by (setoid_replace (vy - uy) with 0 by lra; ring).
      assert (A2 : (wy - vy) * (x - vx) == 0) by (setoid_replace (wy - vy) with 0 by lra; ring).
      assert (B1 : 0 < (vx - ux) * (y - uy)) by lra. assert (B2 : 0 < (wx - vx) * (y - vy)) by lra.
      assert (y - uy < 0) by lra. assert (y - vy < 0) by lra. nra.
    - destruct U as [ux uy], V as [vx vy], W as [wx wy], q as [x y]. unfold orient, pt_eq in *; qsimp.
      intros [E1 E2].
      assert (A2 : (wy - vy) * (x - vx) == 0) by (setoid_replace (wy - vy) with 0 by lra; ring).
      assert (B2 : 0 < (wx - vx) * (y - vy)) by lra. nra. }
  destruct U as [ux uy], V as [vx vy], W as [wx wy]. unfold orient in S; qsimp.
  assert (A1 : (vx - ux) * (wy - uy) == 0) by (setoid_replace (wy - uy) with 0 by lra; ring).
  assert (A2 : (vy - uy) * (wx - ux) == 0) by (setoid_replace (vy - uy) with 0 by lra; ring).
  lra.
Qed.

Lemma const_chain y : forall c a,
  filter (upb y) (steps (a :: c)) = [] -> filter (downb y) (steps (a :: c)) = [] ->
  forall v, In v c -> above y v = above y a.
Proof.
  induction c as [|b t IH]; intros a Hu Hd v Hv; [destruct Hv|].
  change (steps (a :: b :: t)) with ((a, b) :: steps (b :: t)) in Hu, Hd. cbn [filter] in Hu, Hd.
  destruct (upb y (a, b)) eqn:U; [discriminate|]. destruct (downb y (a, b)) eqn:Dn; [discriminate|].
  assert (Hab : above y b = above y a).
  { unfold upb, downb in U, Dn. cbn [fst snd] in *. destruct (above y a), (above y b); cbn in *; congruence. }
  destruct Hv as [<-|Hv]; [exact Hab|]. rewrite <- Hab. apply IH; assumption.
Qed.

Lemma max_vertex : forall P : polygon, P <> [] -> exists V, In V P /\ forall w, In w P -> py w <= py V.
Proof.
  induction P as [|a t IH]; [congruence|]. intros _. destruct t as [|b t'].
  - exists a. split; [left; reflexivity|]. intros w [<-|[]]. lra.
  - destruct (IH ltac:(discriminate)) as (V & HV & Hm).
    destruct (Qlt_le_dec (py V) (py a)) as [Hl|Hl].
    + exists a. split; [left; reflexivity|]. intros w [<-|Hw]; [lra|]. specialize (Hm w Hw). lra.
    + exists V. split; [right; exact HV|]. intros w [<-|Hw]; [exact Hl|apply Hm; exact Hw].
Qed.

Lemma min_vertex : forall P : polygon, P <> [] -> exists V, In V P /\ forall w, In w P -> py V <= py w.
Proof.
  induction P as [|a t IH]; [congruence|]. intros _. destruct t as [|b t'].
  - exists a. split; [left; reflexivity|]. intros w [<-|[]]. lra.
  - destruct (IH ltac:(discriminate)) as (V & HV & Hm).
    destruct (Qlt_le_dec (py a) (py V)) as [Hl|Hl].
    + exists a. split; [left; reflexivity|]. intros w [<-|Hw]; [lra|]. specialize (Hm w Hw). lra.
    + exists V. split; [right; exact HV|]. intros w [<-|Hw]; [exact Hl|apply Hm; exact Hw].
Qed.

(* strictly inside: on the left of every edge *)
Definition strictly_inside (P : polygon) (q : pt) : Prop := forall e, In e (cedges P) -> 0 < oe e q.

Lemma inside_has_up P q : P <> [] -> strictly_convex_ccw P -> strictly_inside P q ->
  filter (upb (py q)) (cedges P) <> [].
Proof.
  intros Hne HP Hin Hu.
  assert (Hd : filter (downb (py q)) (cedges P) = []).
  { pose proof (cedges_ups_eq_downs (py q) P Hne) as H. rewrite Hu in H.
    destruct (filter (downb (py q)) (cedges P)) as [|e0 r0]; [reflexivity|]. exfalso. cbn [length] in H. lia. }
  pose proof (const_chain (py q) P (last P (0, 0)) Hu Hd) as Hc.
  destruct (above (py q) (last P (0, 0))) eqn:Ab.
  - (* every vertex strictly above q: look at a lowest vertex *)
    destruct (min_vertex P Hne) as (V & HV & Hm).
    destruct (cedges_pred_succ P V HV) as (U & W & I1 & I2).
    destruct (cedges_in P _ Hne I1) as [UP _]. destruct (cedges_in P _ Hne I2) as [_ WP]. cbn [fst snd] in *.
    apply (corner_bottom P q U V W HP I1 I2).
    + apply (Hin (U, V) I1).
    + apply (Hin (V, W) I2).
    + apply Hm; exact UP.
    + apply Hm; exact WP.
    + apply above_true. apply Hc. exact HV.
  - destruct (max_vertex P Hne) as (V & HV & Hm).
    destruct (cedges_pred_succ P V HV) as (U & W & I1 & I2).
    destruct (cedges_in P _ Hne I1) as [UP _]. destruct (cedges_in P _ Hne I2) as [_ WP]. cbn [fst snd] in *.
    apply (corner_top P q U V W HP I1 I2).
    + apply (Hin (U, V) I1).
    + apply (Hin (V, W) I2).
    + apply Hm; exact UP.
    + apply Hm; exact WP.
    + apply above_false. apply Hc. exact HV.
Qed.

Theorem convex_inside_true P q : P <> [] -> strictly_convex_ccw P -> strictly_inside P q ->
  point_inside P q = true.
Proof.
  intros Hne HP Hin. rewrite point_inside_count.
  assert (Hf : filter (crosses_e (px q) (py q)) (cedges P) = filter (upb (py q)) (cedges P)).
  { apply filter_ext_in. intros e He. rewrite crosses_e_updown.
    replace (px q, py q) with q by (destruct q; reflexivity).
    specialize (Hin e He). unfold oe in Hin.
    assert (Pb : posb q e = true) by (apply Qltb_lt; exact Hin).
    assert (Nb : negb_ q e = false) by (apply Qltb_ge; lra).
    rewrite Pb, Nb. rewrite andb_true_r, andb_false_r, orb_false_r. reflexivity. }
  rewrite Hf.
  pose proof (ups_le_1 P (py q) HP) as Hle.
  pose proof (inside_has_up P q Hne HP Hin) as Hnz.
  destruct (filter (upb (py q)) (cedges P)) as [|e1 [|e2 r]]; [congruence|reflexivity|cbn in Hle; lia].
Qed.

(* ---- q strictly outside *)
Lemma filter_andb {A} (f g : A -> bool) l : filter (fun e => f e && g e) l = filter g (filter f l).
Proof.
  induction l as [|a t IH]; [reflexivity|]. cbn [filter]. destruct (f a); cbn [andb filter]; [|exact IH].
  destruct (g a); rewrite IH; reflexivity.
Qed.

Lemma filter_orb_excl {A} (f g : A -> bool) l : (forall e, In e l -> f e = true -> g e = true -> False) ->
  length (filter (fun e => f e || g e) l) = (length (filter f l) + length (filter g l))%nat.
Proof.
  induction l as [|a t IH]; intros H; [reflexivity|]. cbn [filter].
  assert (IH' : length (filter (fun e => f e || g e) t) = (length (filter f t) + length (filter g t))%nat)
    by (apply IH; intros e He; apply H; right; exact He).
  destruct (f a) eqn:Fa; destruct (g a) eqn:Ga; cbn [orb length]; try lia.
  exfalso. apply (H a); [left; reflexivity|assumption|assumption].
Qed.

Theorem convex_outside_false P q : P <> [] -> strictly_convex_ccw P ->
  (exists e0, In e0 (cedges P) /\ oe e0 q < 0) -> point_inside P q = false.
Proof.
  intros Hne HP (e0 & I0 & H0). rewrite point_inside_count.
  set (y := py q). set (L := cedges P).
  assert (Hcnt : length (filter (crosses_e (px q) y) L) =
                 (length (filter (posb q) (filter (upb y) L)) + length (filter (negb_ q) (filter (downb y) L)))%nat).
  { rewrite <- !filter_andb. rewrite <- filter_orb_excl.
    - f_equal. apply filter_ext. intros e. rewrite crosses_e_updown.
      replace (px q, y) with q by (destruct q; reflexivity). reflexivity.
    - intros e _ H1 H2. apply andb_true_iff in H1. apply andb_true_iff in H2.
      destruct H1 as [H1 _]. destruct H2 as [H2 _]. unfold upb, downb in *.
      destruct (above y (fst e)); cbn in *; congruence. }
  rewrite Hcnt.
  pose proof (ups_le_1 P y HP) as Hu. pose proof (downs_le_1 P y HP) as Hd.
  pose proof (cedges_ups_eq_downs y P Hne) as Heq. fold L in Hu, Hd, Heq.
  destruct (filter (upb y) L) as [|eU [|? ?]] eqn:EU; [| |cbn in Hu; lia];
  destruct (filter (downb y) L) as [|eD [|? ?]] eqn:ED; try (cbn in Heq; lia); [reflexivity|].
  assert (IU : In eU (filter (upb y) L)) by (rewrite EU; left; reflexivity).
  assert (ID : In eD (filter (downb y) L)) by (rewrite ED; left; reflexivity).
  apply filter_In in IU. destruct IU as [IU UU]. apply filter_In in ID. destruct ID as [ID DD].
  apply upb_iff in UU. apply downb_iff in DD. destruct UU as [Ua Ub]. destruct DD as [Dd Dc].
  destruct (cedges_in P eU Hne IU) as [AP BP]. destruct (cedges_in P eD Hne ID) as [CP DP].
  destruct (cedges_in P e0 Hne I0) as [EP FP].
  cbn [filter]. unfold posb at 1, negb_ at 1.
  destruct (Qltb 0 (orient (fst eU) (snd eU) q)) eqn:PU; destruct (Qltb (orient (fst eD) (snd eD) q) 0) eqn:ND;
    cbn [length Nat.add]; try reflexivity; exfalso; bool_to_prop.
  - (* left of the upward edge and not right of the downward edge: q is on the chord, hence inside *)
    pose proof (convex_weak P e0 _ HP I0 AP) as GA. pose proof (convex_weak P e0 _ HP I0 BP) as GB.
    pose proof (convex_weak P e0 _ HP I0 CP) as GC. pose proof (convex_weak P e0 _ HP I0 DP) as GD.
    destruct eU as [[ax ay] [bx by_]], eD as [[cx cy] [dx dy]], e0 as [[ex ey] [fx fy]], q as [x yy].
    unfold oe, y in *; qsimp.
    pose proof (chord_inside ax ay bx by_ cx cy dx dy x yy ex ey fx fy Ua Ub Dd Dc PU ND GA GB GC GD) as R. lra.
  - (* right of (or on) the upward edge and right of the downward edge: impossible *)
    pose proof (convex_weak P eU _ HP IU CP) as WC. pose proof (convex_weak P eU _ HP IU DP) as WD.
    destruct eU as [[ax ay] [bx by_]], eD as [[cx cy] [dx dy]], q as [x yy].
    unfold oe, y in *; qsimp.
    pose proof (up_down_order ax ay bx by_ cx cy dx dy x yy Ua Ub Dd Dc WC WD) as R. nra.
Qed.

(* ---- clockwise polygons: ray casting does not depend on the direction in which the vertices are listed *)
Lemma crosses_sym x y a b : crosses x y a b = crosses x y b a.
Proof.
  rewrite !crosses_bool. pose proof (orient_swap a b (x, y)) as Hs.
  destruct (Qltb y (py a)) eqn:Ua; destruct (Qltb y (py b)) eqn:Ub; cbn [xorb andb]; try reflexivity.
  - destruct (Qltb 0 (orient b a (x, y))) eqn:E1; destruct (Qltb (orient a b (x, y)) 0) eqn:E2; try reflexivity; exfalso; bool_to_prop; lra.
  - destruct (Qltb (orient b a (x, y)) 0) eqn:E1; destruct (Qltb 0 (orient a b (x, y))) eqn:E2; try reflexivity; exfalso; bool_to_prop; lra.
Qed.

Definition swap (e : pt * pt) : pt * pt := (snd e, fst e).

Lemma steps_app_one : forall c a b, steps ((c ++ [a]) ++ [b]) = steps (c ++ [a]) ++ [(a, b)].
Proof.
  induction c as [|x t IH]; intros a b; [reflexivity|].
  destruct t as [|z t'].
  - reflexivity.
  - change (((x :: z :: t') ++ [a]) ++ [b]) with (x :: ((z :: t') ++ [a]) ++ [b]).
    change ((x :: z :: t') ++ [a]) with (x :: (z :: t') ++ [a]).
    change (steps (x :: ((z :: t') ++ [a]) ++ [b])) with ((x, z) :: steps (((z :: t') ++ [a]) ++ [b])).
    change (steps (x :: (z :: t') ++ [a])) with ((x, z) :: steps ((z :: t') ++ [a])).
    rewrite IH. reflexivity.
Qed.

Lemma steps_rev : forall c, steps (rev c) = rev (map swap (steps c)).
Proof.
  induction c as [|a t IH]; [reflexivity|].
  destruct t as [|b t']; [reflexivity|].
  change (steps (a :: b :: t')) with ((a, b) :: steps (b :: t')). cbn [map rev]. rewrite <- IH.
  change (rev (a :: b :: t')) with ((rev t' ++ [b]) ++ [a]). change (rev (b :: t')) with (rev t' ++ [b]).
  rewrite steps_app_one. reflexivity.
Qed.


Lemma steps_snoc_perm : forall l a b, Permutation (steps ((a :: l) ++ [b])) ((last (a :: l) a, b) :: steps (a :: l)).
Proof.
  induction l as [|x t IH]; intros a b; [apply Permutation_refl|].
  change ((a :: x :: t) ++ [b]) with (a :: (x :: t) ++ [b]).
  change (steps (a :: (x :: t) ++ [b])) with ((a, x) :: steps ((x :: t) ++ [b])).
  change (steps (a :: x :: t)) with ((a, x) :: steps (x :: t)).
  assert (El : last (a :: x :: t) a = last (x :: t) x) by (change (last (a :: x :: t) a) with (last (x :: t) a); apply last_indep; discriminate).
  rewrite El. eapply Permutation_trans; [apply perm_skip; apply IH|apply perm_swap].
Qed.

(* the closed chains of P and of rev P have the same edges, reversed *)
Lemma cedges_rev_perm P : Permutation (cedges (rev P)) (map swap (cedges P)).
Proof.
  destruct P as [|p0 t]; [apply Permutation_refl|].
  unfold cedges.
  assert (E1 : last (rev (p0 :: t)) (0, 0) = p0) by (cbn [rev]; apply last_last).
  rewrite E1.
  change (p0 :: rev (p0 :: t)) with (rev ((p0 :: t) ++ [p0])) || idtac.
  assert (E2 : p0 :: rev (p0 :: t) = rev ((p0 :: t) ++ [p0])) by (rewrite rev_app_distr; reflexivity).
  rewrite E2, steps_rev.
  eapply Permutation_trans; [apply Permutation_sym, Permutation_rev|].
  apply Permutation_map.
  eapply Permutation_trans; [apply steps_snoc_perm|].
  assert (E3 : last (p0 :: t) p0 = last (p0 :: t) (0, 0)) by (apply last_indep; discriminate).
  rewrite E3.
  change (steps (last (p0 :: t) (0, 0) :: p0 :: t)) with ((last (p0 :: t) (0, 0), p0) :: steps (p0 :: t)).
  apply Permutation_refl.
Qed.

Lemma filter_length_perm {A} (f : A -> bool) l l' : Permutation l l' -> length (filter f l) = length (filter f l').
Proof.
  induction 1; cbn [filter]; try lia.
  - destruct (f x); cbn [length]; lia.
  - destruct (f x), (f y); cbn [length]; lia.
Qed.

Lemma filter_map_length {A B} (g : A -> B) (f : B -> bool) l : length (filter f (map g l)) = length (filter (fun a => f (g a)) l).
Proof. induction l as [|a t IH]; [reflexivity|]. cbn [map filter]. destruct (f (g a)); cbn [length]; lia. Qed.

Theorem point_inside_rev P q : point_inside (rev P) q = point_inside P q.
Proof.
  rewrite !point_inside_count. f_equal.
  rewrite (filter_length_perm _ _ _ (cedges_rev_perm P)), filter_map_length.
  f_equal. apply filter_ext. intros e. unfold crosses_e, swap. cbn [fst snd]. apply crosses_sym.
Qed.

(* ---- the chain walked by the loop has the same edges as GetEdges *)
Lemma edges_from_steps : forall l f, l <> [] -> edges_from f l = steps l ++ [(last l f, f)].
Proof.
  induction l as [|a t IH]; intros f Hne; [congruence|].
  destruct t as [|b t']; [reflexivity|].
  change (edges_from f (a :: b :: t')) with ((a, b) :: edges_from f (b :: t')).
  change (steps (a :: b :: t')) with ((a, b) :: steps (b :: t')).
  rewrite IH by discriminate. reflexivity.
Qed.

Lemma cedges_edges_in P e : In e (cedges P) <-> In e (edges P).
Proof.
  destruct P as [|p0 t]; [reflexivity|].
  unfold edges, cedges. rewrite edges_from_steps by discriminate.
  change (steps (last (p0 :: t) (0, 0) :: p0 :: t)) with ((last (p0 :: t) (0, 0), p0) :: steps (p0 :: t)).
  rewrite (last_indep (p0 :: t) p0 (0, 0)) by discriminate.
  rewrite in_app_iff. cbn [In]. tauto.
Qed.

(* ---- the statement over GetEdges, both vertex orders *)
(* counter-clockwise and strictly convex: pairwise different vertices, every vertex strictly on the left of every
   edge it is not an end point of *)
Definition convex_ccw (P : polygon) : Prop :=
  NoDupA pt_eq P /\
  forall e v, In e (edges P) -> In v P -> ~ pt_eq v (fst e) -> ~ pt_eq v (snd e) -> 0 < orient (fst e) (snd e) v.

Lemma convex_ccw_iff P : convex_ccw P <-> strictly_convex_ccw P.
Proof.
  unfold convex_ccw, strictly_convex_ccw, oe. split; intros [H1 H2]; (split; [exact H1|]); intros e v He; apply H2; apply cedges_edges_in; exact He.
Qed.

Theorem point_in_convex_polygon P q : P <> [] -> convex_ccw P ->
  ((forall e, In e (edges P) -> 0 < orient (fst e) (snd e) q) -> point_inside P q = true /\ point_inside (rev P) q = true) /\
  ((exists e, In e (edges P) /\ orient (fst e) (snd e) q < 0) -> point_inside P q = false /\ point_inside (rev P) q = false).
Proof.
  intros Hne HP. apply convex_ccw_iff in HP. split.
  - intros Hin. rewrite point_inside_rev.
    assert (H : point_inside P q = true).
    { apply convex_inside_true; try assumption. intros e He. apply Hin. apply cedges_edges_in. exact He. }
    split; exact H.
  - intros (e & He & Hn). rewrite point_inside_rev.
    assert (H : point_inside P q = false).
    { apply convex_outside_false; try assumption. exists e. split; [apply cedges_edges_in; exact He|exact Hn]. }
    split; exact H.
Qed.
