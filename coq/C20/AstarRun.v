(* MV.C20.AstarRun — evaluation of recorded runs of astar.Find against the model (tie T1).
   A case = graph tables, start, goal, whether the harness checked the heuristic to be consistent,
   and the implementation's result.  The model follows container/heap, so the exact path is compared;
   for consistent heuristics the cost found by the reference-queue search must agree as well. *)
From MV Require Import Lib.ListX C20.AstarModel.
Open Scope Z_scope.

Definition out_eqb (a b : out) : bool :=
  match a, b with
  | OPath p, OPath q => list_eqb Nat.eqb p q
  | ONone, ONone => true
  | _, _ => false
  end.

Record case := {
  cid : N;   (* binary: ids run into the hundreds of thousands *)
  cadj : list (list (nat * Z));
  ch : list Z;
  cstart : nat;
  cgoal : nat;
  cconsistent : bool;
  cimpl : out
}.

Definition case_graph (c : case) : graph := tbl_graph (cadj c) (ch c).
Definition model_out (c : case) : out := find (case_graph c) (cstart c) (cgoal c).

Definition out_cost (g : graph) (o : out) : option Z :=
  match o with
  | OPath p => Some (path_cost (cost g) p)
  | _ => None
  end.

Definition ref_agrees (c : case) : bool :=
  match find_ref (case_graph c) (cstart c) (cgoal c), cimpl c with
  | OPath p, OPath q => path_cost (cost (case_graph c)) p =? path_cost (cost (case_graph c)) q
  | ONone, ONone => true
  | _, _ => false
  end.

Definition case_ok (c : case) : bool :=
  out_eqb (model_out c) (cimpl c) && (negb (cconsistent c) || ref_agrees c).

Definition mismatches (cs : list case) : list nat := fail_ids case_ok (fun c => N.to_nat (cid c)) cs.

(* Constructors for the generated shards.  Plain applications elaborate several times faster than the
   list and record notations, and the argument scopes follow from the types.  Node ids travel as Z
   (binary numerals; a nat numeral costs time proportional to its value) and are converted here. *)
Definition ecns (t : Z) (c : Z) (l : list (nat * Z)) : list (nat * Z) := (Z.to_nat t, c) :: l.
Definition enil : list (nat * Z) := [].
Definition acns (x : list (nat * Z)) (l : list (list (nat * Z))) : list (list (nat * Z)) := x :: l.
Definition anil : list (list (nat * Z)) := [].
Definition zcns (x : Z) (l : list Z) : list Z := x :: l.
Definition znil : list Z := [].
Definition ncns (x : Z) (l : list nat) : list nat := Z.to_nat x :: l.
Definition nnil : list nat := [].
Definition mk (id : N) (adj : list (list (nat * Z))) (h : list Z) (s g : Z) (cons : bool) (impl : out) : case :=
  {| cid := id; cadj := adj; ch := h; cstart := Z.to_nat s; cgoal := Z.to_nat g; cconsistent := cons; cimpl := impl |}.

(* Grid inputs are transmitted as (width, height, obstacle bit mask) and expanded here exactly as
   gridCase of harness/cmd/c20astar does: cell r*w+c; neighbours in the order up, down, left, right
   (cost 1, Manhattan heuristic) or, with [diag], those four at cost 10 followed by the four
   diagonals at cost 14 (octile heuristic); only free cells are neighbours. *)
Definition grid_free (w h : Z) (blocked : N) (r c : Z) : bool :=
  (0 <=? r) && (r <? h) && (0 <=? c) && (c <? w) && negb (N.testbit blocked (Z.to_N (r * w + c))).

Definition grid_dirs (diag : bool) : list (Z * Z * Z) :=
  if diag then [(-1, 0, 10); (1, 0, 10); (0, -1, 10); (0, 1, 10); (-1, -1, 14); (-1, 1, 14); (1, -1, 14); (1, 1, 14)]
  else [(-1, 0, 1); (1, 0, 1); (0, -1, 1); (0, 1, 1)].

Definition grid_cell_adj (w h : Z) (blocked : N) (diag : bool) (i : nat) : list (nat * Z) :=
  let r := Z.of_nat i / w in
  let c := Z.of_nat i mod w in
  flat_map (fun d => match d with (dr, dc, k) =>
                       if grid_free w h blocked (r + dr) (c + dc)
                       then [(Z.to_nat ((r + dr) * w + (c + dc)), k)] else [] end) (grid_dirs diag).

Definition grid_adj (w h : nat) (blocked : N) (diag : bool) : list (list (nat * Z)) :=
  map (grid_cell_adj (Z.of_nat w) (Z.of_nat h) blocked diag) (seq 0 (w * h)).

Definition grid_heur (w h : nat) (diag : bool) (goal : nat) : list Z :=
  let W := Z.of_nat w in
  let gr := Z.of_nat goal / W in
  let gc := Z.of_nat goal mod W in
  map (fun i => let dx := Z.abs (Z.of_nat i mod W - gc) in
                let dy := Z.abs (Z.of_nat i / W - gr) in
                if diag then 10 * (Z.max dx dy - Z.min dx dy) + 14 * Z.min dx dy else dx + dy)
      (seq 0 (w * h)).

Definition mkgrid (id : N) (w h : nat) (blocked : N) (diag : bool) (s g : nat) (cons : bool) (impl : out) : case :=
  {| cid := id; cadj := grid_adj w h blocked diag; ch := grid_heur w h diag g;
     cstart := s; cgoal := g; cconsistent := cons; cimpl := impl |}.
