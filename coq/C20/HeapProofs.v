(* MV.C20.HeapProofs — the two queues of AstarModel satisfy [pq_spec]:
   the reference list queue (easy) and the transcription of container/heap (binary heap in a slice:
   heap.Push = append + up, heap.Pop = swap(0,n-1) + down + remove last). *)
From Coq Require Import Permutation.
From MV Require Import Lib.ListX C20.AstarModel C20.AstarProofs.
Open Scope Z_scope.
Arguments Z.add : simpl never.
Arguments Z.mul : simpl never.
Arguments Z.sub : simpl never.
Arguments Nat.div : simpl never.
Arguments Nat.modulo : simpl never.
Arguments Nat.sub : simpl never.
Arguments Nat.mul : simpl never.
Arguments Nat.add : simpl never.

(* ------------------------------------------------------------------ the list queue *)
Lemma list_pop_spec : forall l x r, list_pop l = Some (x, r) ->
  Permutation l (x :: r) /\ forall y, In y l -> iprio x <= iprio y.
Proof.
  induction l as [|a t IH]; intros x r H; cbn [list_pop] in H; [discriminate|].
  destruct (list_pop t) as [[m r']|] eqn:E.
  - destruct (IH _ _ eq_refl) as [Hp Hm].
    destruct (Z.ltb_spec (iprio m) (iprio a)) as [Hlt|Hge]; inversion H; subst; clear H.
    + split.
      * eapply Permutation_trans; [apply perm_skip; exact Hp|apply perm_swap].
      * intros y [<-|Hy]; [lia|apply Hm; exact Hy].
    + split; [apply Permutation_refl|].
      intros y [<-|Hy]; [lia|]. specialize (Hm _ Hy). lia.
  - inversion H; subst; clear H. destruct t as [|b t']; [|cbn [list_pop] in E; destruct (list_pop t') as [[? ?]|]; [destruct (_ <? _)|]; discriminate].
    split; [apply Permutation_refl|]. intros y [<-|[]]. lia.
Qed.

Lemma list_pop_none l : list_pop l = None -> l = [].
Proof.
  destruct l as [|a t]; [reflexivity|]. cbn [list_pop].
  destruct (list_pop t) as [[m r]|]; [destruct (_ <? _)|]; discriminate.
Qed.

Definition list_pq_spec : pq_spec list_pq.
Proof.
  refine {| pq_inv := fun _ => True; pq_items := fun l : pq_t list_pq => l |}; cbn.
  - exact I.
  - reflexivity.
  - intros; exact I.
  - intros x q _. apply Permutation_sym, Permutation_cons_append.
  - intros q _ H. apply list_pop_none; exact H.
  - intros; exact I.
  - intros q x q' _ H. apply (list_pop_spec _ _ _ H).
  - intros q x q' _ H. apply (list_pop_spec _ _ _ H).
Defined.

(* ------------------------------------------------------------------ container/heap *)
From Coq Require Import ZifyBool ZifyNat.
Ltac Zify.zify_post_hook ::= Z.div_mod_to_equations.

Definition key (h : list item) (i : nat) : Z := iprio (hget h i).
Definition parent (i : nat) : nat := ((i - 1) / 2)%nat.

(* the first n slots form a binary min-heap *)
Definition heap_ok_n (h : list item) (n : nat) : Prop :=
  forall c, (0 < c < n)%nat -> key h (parent c) <= key h c.
Definition heap_ok (h : list item) : Prop := heap_ok_n h (length h).

Lemma hswap_length h i j : length (hswap h i j) = length h.
Proof. unfold hswap. rewrite !upd_length. reflexivity. Qed.

Lemma hget_hswap h i j k : (i < length h)%nat -> (j < length h)%nat ->
  hget (hswap h i j) k = if (k =? j)%nat then hget h i else if (k =? i)%nat then hget h j else hget h k.
Proof.
  intros Hi Hj. unfold hswap, hget.
  destruct (Nat.eqb_spec k j) as [->|Hkj].
  - apply nth_upd_same. rewrite upd_length. exact Hj.
  - rewrite nth_upd_other by congruence.
    destruct (Nat.eqb_spec k i) as [->|Hki].
    + apply nth_upd_same. exact Hi.
    + apply nth_upd_other. congruence.
Qed.

Lemma key_hswap h i j k : (i < length h)%nat -> (j < length h)%nat ->
  key (hswap h i j) k = if (k =? j)%nat then key h i else if (k =? i)%nat then key h j else key h k.
Proof.
  intros Hi Hj. unfold key. rewrite hget_hswap by assumption.
  destruct (k =? j)%nat; [reflexivity|]. destruct (k =? i)%nat; reflexivity.
Qed.

Lemma hswap_perm h i j : (i < length h)%nat -> (j < length h)%nat -> Permutation (hswap h i j) h.
Proof.
  intros Hi Hj. apply Permutation_sym.
  apply (Permutation_nth h (hswap h i j) dummy). split; [apply hswap_length|].
  exists (fun k => if (k =? j)%nat then i else if (k =? i)%nat then j else k).
  split; [|split].
  - intros k Hk. destruct (Nat.eqb_spec k j); [lia|]. destruct (Nat.eqb_spec k i); lia.
  - intros a b Ha Hb.
    destruct (Nat.eqb_spec a j), (Nat.eqb_spec a i), (Nat.eqb_spec b j), (Nat.eqb_spec b i); lia.
  - intros k Hk. pose proof (hget_hswap h i j k Hi Hj) as H. unfold hget in H. rewrite H.
    destruct (k =? j)%nat; [reflexivity|]. destruct (k =? i)%nat; reflexivity.
Qed.

Lemma hless_spec h a b : hless h a b = true <-> key h a < key h b.
Proof. unfold hless, key. apply Z.ltb_lt. Qed.

(* ---- up *)
Definition up_pre (h : list item) (j : nat) : Prop :=
  (forall c, (0 < c < length h)%nat -> c <> j -> key h (parent c) <= key h c) /\
  (forall c, (0 < c < length h)%nat -> parent c = j -> (0 < j)%nat -> key h (parent j) <= key h c).

Lemma heap_up_ok : forall fuel h j, (j < length h)%nat -> (j < fuel)%nat -> up_pre h j ->
  heap_ok (heap_up fuel h j) /\ Permutation (heap_up fuel h j) h.
Proof.
  induction fuel as [|f IH]; intros h j Hj Hf [H1 H2]; [lia|]. cbn [heap_up]. fold (parent j).
  destruct (Nat.eqb_spec (parent j) j) as [Hpj|Hpj]; cbn [orb].
  - split; [|apply Permutation_refl]. intros c Hc. apply H1; [exact Hc|]. unfold parent in Hpj. lia.
  - destruct (hless h j (parent j)) eqn:Hl; cbn [negb].
    + apply hless_spec in Hl.
      assert (Hpl : (parent j < j)%nat) by (unfold parent in *; lia).
      assert (Hpi : (parent j < length h)%nat) by lia.
      destruct (IH (hswap h (parent j) j) (parent j)) as [Hok Hperm].
      * rewrite hswap_length. exact Hpi.
      * lia.
      * split.
        -- intros c Hc Hcn. rewrite hswap_length in Hc. rewrite !key_hswap by assumption.
           destruct (Nat.eqb_spec c j) as [->|Hcj].
           ++ rewrite Nat.eqb_refl. destruct (Nat.eqb_spec (parent j) j); [lia|]. lia.
           ++ destruct (Nat.eqb_spec c (parent j)); [congruence|].
              destruct (Nat.eqb_spec (parent c) j) as [Hpc|Hpc].
              ** apply H2; [exact Hc|exact Hpc|lia].
              ** destruct (Nat.eqb_spec (parent c) (parent j)) as [Hpp|Hpp].
                 --- specialize (H1 c Hc Hcj). rewrite Hpp in H1. lia.
                 --- apply H1; assumption.
        -- intros c Hc Hpc Hpos. rewrite hswap_length in Hc. rewrite !key_hswap by assumption.
           assert (Hppj : (parent (parent j) < parent j)%nat) by (unfold parent in *; lia).
           destruct (Nat.eqb_spec (parent (parent j)) j); [lia|].
           destruct (Nat.eqb_spec (parent (parent j)) (parent j)); [lia|].
           assert (Hgp : key h (parent (parent j)) <= key h (parent j)) by (apply H1; lia).
           destruct (Nat.eqb_spec c j) as [->|Hcj]; [exact Hgp|].
           destruct (Nat.eqb_spec c (parent j)) as [->|Hcp]; [unfold parent in *; lia|].
           specialize (H1 c Hc Hcj). rewrite Hpc in H1. lia.
      * split; [exact Hok|]. eapply Permutation_trans; [exact Hperm|]. apply hswap_perm; assumption.
    + split; [|apply Permutation_refl].
      assert (Hge : key h (parent j) <= key h j).
      { destruct (Z.le_gt_cases (key h (parent j)) (key h j)) as [H|H]; [exact H|].
        apply hless_spec in H. congruence. }
      intros c Hc. destruct (Nat.eq_dec c j) as [->|Hcj]; [exact Hge|]. apply H1; assumption.
Qed.

Lemma hget_app_l h x i : (i < length h)%nat -> hget (h ++ [x]) i = hget h i.
Proof. intros H. unfold hget. apply app_nth1. exact H. Qed.

Lemma heap_push_ok x h : heap_ok h -> heap_ok (heap_push x h) /\ Permutation (heap_push x h) (x :: h).
Proof.
  intros Hok. unfold heap_push.
  assert (Hlen : length (h ++ [x]) = Datatypes.S (length h)) by (rewrite app_length; cbn; lia).
  destruct (heap_up_ok (length (h ++ [x])) (h ++ [x]) (length (h ++ [x]) - 1)) as [H1 H2].
  - lia.
  - lia.
  - split.
    + intros c Hc Hcn. rewrite Hlen in *.
      assert (Hc' : (c < length h)%nat) by lia.
      assert (Hp' : (parent c < length h)%nat) by (unfold parent; lia).
      unfold key. rewrite !hget_app_l by assumption. apply Hok. lia.
    + intros c Hc Hpc _. rewrite Hlen in *. unfold parent in Hpc. lia.
  - split; [exact H1|]. eapply Permutation_trans; [exact H2|].
    apply Permutation_sym, Permutation_cons_append.
Qed.

(* ---- down *)
Definition down_pre (h : list item) (i n : nat) : Prop :=
  (forall c, (0 < c < n)%nat -> parent c <> i -> key h (parent c) <= key h c) /\
  (forall c, (0 < c < n)%nat -> parent c = i -> (0 < i)%nat -> key h (parent i) <= key h c).

Lemma heap_down_ok : forall fuel h i n, (n <= length h)%nat -> (n < fuel + i)%nat -> down_pre h i n ->
  let h' := heap_down fuel h i n in
  heap_ok_n h' n /\ Permutation h' h /\ length h' = length h /\
  forall k, (n <= k)%nat -> hget h' k = hget h k.
Proof.
  induction fuel as [|f IH]; intros h i n Hn Hf [H1 H2]; cbn zeta.
  - (* no fuel: then n <= i and there is nothing below i *)
    cbn [heap_down]. split; [|split; [apply Permutation_refl|split; reflexivity]].
    intros c Hc. apply H1; [exact Hc|]. unfold parent. lia.
  - cbn [heap_down].
    destruct (Nat.leb_spec n (2 * i + 1)) as [Hle|Hgt].
    + split; [|split; [apply Permutation_refl|split; reflexivity]].
      intros c Hc. apply H1; [exact Hc|]. unfold parent. lia.
    + set (j1 := (2 * i + 1)%nat) in *. set (j2 := (j1 + 1)%nat).
      set (j := if (j2 <? n)%nat && hless h j2 j1 then j2 else j1).
      assert (Hj : (j = j1 \/ j = j2 /\ j2 < n)%nat /\
                   (forall c, (0 < c < n)%nat -> parent c = i -> key h j <= key h c)).
      { unfold j. destruct (Nat.ltb_spec j2 n) as [H2n|H2n]; cbn [andb].
        - destruct (hless h j2 j1) eqn:Hl.
          + apply hless_spec in Hl. split; [right; split; [reflexivity|exact H2n]|].
            intros c Hc Hpc. assert (c = j1 \/ c = j2) as [->| ->] by (unfold parent, j1, j2 in *; lia); lia.
          + assert (Hge : key h j1 <= key h j2).
            { destruct (Z.le_gt_cases (key h j1) (key h j2)) as [H|H]; [exact H|]. apply hless_spec in H. congruence. }
            split; [left; reflexivity|].
            intros c Hc Hpc. assert (c = j1 \/ c = j2) as [->| ->] by (unfold parent, j1, j2 in *; lia); lia.
        - split; [left; reflexivity|].
          intros c Hc Hpc. assert (c = j1) as -> by (unfold parent, j1, j2 in *; lia). lia. }
      destruct Hj as [Hjc Hjmin].
      assert (Hjn : (j < n)%nat) by (destruct Hjc as [->|[-> ?]]; [exact Hgt|assumption]).
      assert (Hij : (i < j)%nat) by (destruct Hjc as [->|[-> ?]]; unfold j1, j2; lia).
      assert (Hpj : parent j = i) by (destruct Hjc as [->|[-> ?]]; unfold parent, j1, j2; lia).
      destruct (hless h j i) eqn:Hl; cbn [negb].
      * apply hless_spec in Hl.
        assert (Hil : (i < length h)%nat) by lia. assert (Hjl : (j < length h)%nat) by lia.
        destruct (IH (hswap h i j) j n) as (Hok & Hperm & Hlen & Hrest).
        -- rewrite hswap_length. exact Hn.
        -- lia.
        -- split.
           ++ intros c Hc Hpc. rewrite !key_hswap by assumption.
              destruct (Nat.eqb_spec c j) as [->|Hcj].
              ** rewrite Hpj. destruct (Nat.eqb_spec i j); [lia|]. rewrite Nat.eqb_refl. lia.
              ** destruct (Nat.eqb_spec c i) as [->|Hci].
                 --- assert (Hppi : (parent i < i)%nat) by (unfold parent; lia).
                     destruct (Nat.eqb_spec (parent i) j); [lia|]. destruct (Nat.eqb_spec (parent i) i); [lia|].
                     apply H2; [lia|exact Hpj|lia].
                 --- destruct (Nat.eqb_spec (parent c) j); [congruence|].
                     destruct (Nat.eqb_spec (parent c) i) as [Hpci|Hpci].
                     +++ apply Hjmin; assumption.
                     +++ apply H1; assumption.
           ++ intros c Hc Hpc _. rewrite !key_hswap by assumption.
              rewrite Hpj. destruct (Nat.eqb_spec i j); [lia|]. rewrite Nat.eqb_refl.
              assert (Hcj : (j < c)%nat) by (unfold parent in Hpc; lia).
              destruct (Nat.eqb_spec c j); [lia|]. destruct (Nat.eqb_spec c i); [lia|].
              specialize (H1 c Hc). rewrite Hpc in H1. apply H1. lia.
        -- split; [exact Hok|]. split; [|split].
           ++ eapply Permutation_trans; [exact Hperm|]. apply hswap_perm; assumption.
           ++ rewrite Hlen. apply hswap_length.
           ++ intros k Hk. rewrite Hrest by exact Hk. rewrite hget_hswap by assumption.
              destruct (Nat.eqb_spec k j); [lia|]. destruct (Nat.eqb_spec k i); [lia|]. reflexivity.
      * split; [|split; [apply Permutation_refl|split; reflexivity]].
        assert (Hge : key h i <= key h j).
        { destruct (Z.le_gt_cases (key h i) (key h j)) as [H|H]; [exact H|]. apply hless_spec in H. congruence. }
        intros c Hc. destruct (Nat.eq_dec (parent c) i) as [Hpc|Hpc].
        -- rewrite Hpc. specialize (Hjmin c Hc Hpc). lia.
        -- apply H1; assumption.
Qed.

Lemma root_min h n : heap_ok_n h n -> forall i, (i < n)%nat -> key h 0 <= key h i.
Proof.
  intros Hok i. induction i as [i IH] using lt_wf_ind. intros Hi.
  destruct i as [|i']; [lia|].
  assert (Hp : (parent (Datatypes.S i') < Datatypes.S i')%nat) by (unfold parent; lia).
  specialize (IH _ Hp ltac:(lia)). specialize (Hok (Datatypes.S i') ltac:(lia)). lia.
Qed.

Lemma hget_firstn h n i : (i < n)%nat -> hget (firstn n h) i = hget h i.
Proof.
  unfold hget. revert n i. induction h as [|a t IH]; intros n i Hi.
  - rewrite firstn_nil. reflexivity.
  - destruct n as [|n]; [lia|]. destruct i as [|i]; [reflexivity|]. cbn. apply IH. lia.
Qed.

Lemma heap_pop_ok h x h' : heap_ok h -> heap_pop h = Some (x, h') ->
  heap_ok h' /\ Permutation h (x :: h') /\ forall y, In y h -> iprio x <= iprio y.
Proof.
  intros Hok Hpop. unfold heap_pop in Hpop.
  destruct h as [|a t] eqn:Eh; [discriminate|]. rewrite <- Eh in *.
  assert (Hlen : (0 < length h)%nat) by (rewrite Eh; cbn; lia).
  set (n := (length h - 1)%nat) in *.
  assert (Hsl : length (hswap h 0 n) = length h) by apply hswap_length.
  destruct (heap_down_ok (length h) (hswap h 0 n) 0 n) as (Hd1 & Hd2 & Hd3 & Hd4).
  - rewrite Hsl. lia.
  - lia.
  - split.
    + intros c Hc Hpc. rewrite !key_hswap by lia.
      destruct (Nat.eqb_spec c n); [lia|]. destruct (Nat.eqb_spec c 0); [lia|].
      destruct (Nat.eqb_spec (parent c) n); [unfold parent in *; lia|].
      destruct (Nat.eqb_spec (parent c) 0); [congruence|].
      apply Hok. lia.
    + intros c Hc Hpc Hpos. lia.
  - cbn zeta in *. set (h1 := heap_down (length h) (hswap h 0 n) 0 n) in *.
    inversion Hpop; subst x h'; clear Hpop.
    assert (Hl1 : length h1 = length h) by lia.
    assert (Hroot : hget h1 n = hget h 0).
    { rewrite Hd4 by lia. rewrite hget_hswap by lia. rewrite Nat.eqb_refl. reflexivity. }
    split; [|split].
    + intros c Hc. rewrite firstn_length in Hc.
      assert (Hcn : (c < n)%nat) by lia.
      unfold key. rewrite !hget_firstn by (unfold parent; lia). apply Hd1. lia.
    + assert (Hsplit : h1 = firstn n h1 ++ [hget h1 n]).
      { rewrite <- (firstn_skipn n h1) at 1. f_equal.
        unfold hget. rewrite (skipn_nth_cons h1 n dummy) by lia.
        f_equal. apply skipn_all2. lia. }
      eapply Permutation_trans; [apply Permutation_sym, (hswap_perm h 0 n); lia|].
      eapply Permutation_trans; [apply Permutation_sym; exact Hd2|].
      rewrite Hsplit at 1. apply Permutation_sym, Permutation_cons_append.
    + intros y Hy. rewrite Hroot. destruct (In_nth _ _ dummy Hy) as (k & Hk & <-).
      apply (root_min h (length h) Hok k Hk).
Qed.

Lemma heap_pop_none h : heap_pop h = None -> h = [].
Proof. destruct h; [reflexivity|discriminate]. Qed.

Definition heap_pq_spec : pq_spec heap_pq.
Proof.
  refine (Build_pq_spec heap_pq heap_ok (fun l => l) _ _ _ _ _ _ _ _); cbn.
  - intros c Hc. cbn in Hc. lia.
  - reflexivity.
  - intros x q H. apply (heap_push_ok x q H).
  - intros x q H. apply (heap_push_ok x q H).
  - intros q _ H. apply heap_pop_none; exact H.
  - intros q x q' Hq H. apply (heap_pop_ok _ _ _ Hq H).
  - intros q x q' Hq H. apply (heap_pop_ok _ _ _ Hq H).
  - intros q x q' Hq H. apply (heap_pop_ok _ _ _ Hq H).
Defined.

(* ------------------------------------------------------------------ astar.Find (heap queue) *)
Lemma find_valid g s t p : find g s t = OPath p -> walk_from_to g s t p.
Proof.
  intros H. pose proof (find_with_ok heap_pq heap_pq_spec g s t) as Hok.
  unfold find in H. rewrite H in Hok. apply Hok.
Qed.

Lemma find_optimal g s t p : consistent g -> find g s t = OPath p ->
  forall w, walk_from_to g s t w -> pcost g p <= pcost g w.
Proof.
  intros Hc H. pose proof (find_with_ok heap_pq heap_pq_spec g s t) as Hok.
  unfold find in H. rewrite H in Hok. apply Hok. exact Hc.
Qed.

Lemma find_none_unreachable g s t : find g s t = ONone -> ~ reachable g s t.
Proof.
  intros H. pose proof (find_with_ok heap_pq heap_pq_spec g s t) as Hok.
  unfold find in H. rewrite H in Hok. exact Hok.
Qed.

Lemma find_not_bad g s t : find g s t <> OBad.
Proof.
  intros H. pose proof (find_with_ok heap_pq heap_pq_spec g s t) as Hok.
  unfold find in H. rewrite H in Hok. exact Hok.
Qed.

Lemma find_terminates g s t : finite_graph g -> In s (nodes g) -> find g s t <> OOutOfFuel.
Proof. intros Hf Hs. apply (find_with_terminates heap_pq heap_pq_spec g s t Hf Hs). Qed.

Lemma find_none_iff g s t : finite_graph g -> In s (nodes g) -> (find g s t = ONone <-> ~ reachable g s t).
Proof. intros Hf Hs. apply (find_with_none_iff heap_pq heap_pq_spec g s t Hf Hs). Qed.

(* with a consistent heuristic the cost found does not depend on how the queue breaks ties:
   the heap-based search and the reference list-based search return paths of equal cost *)
Lemma find_cost_queue_independent g s t p p' : consistent g ->
  find g s t = OPath p -> find_ref g s t = OPath p' -> pcost g p = pcost g p'.
Proof.
  intros Hc H H'.
  pose proof (find_with_ok heap_pq heap_pq_spec g s t) as Hok. unfold find in H. rewrite H in Hok.
  pose proof (find_with_ok list_pq list_pq_spec g s t) as Hok'. unfold find_ref in H'. rewrite H' in Hok'.
  destruct Hok as [Hw Ho]. destruct Hok' as [Hw' Ho'].
  specialize (Ho Hc _ Hw'). specialize (Ho' Hc _ Hw). lia.
Qed.

(* the tables printed by the harness describe finite graphs as soon as every listed neighbour is a node *)
Lemma tbl_graph_finite adj h :
  (forall a b, In b (tbl_nbrs adj a) -> (b < length adj)%nat) -> finite_graph (tbl_graph adj h).
Proof.
  intros H. split; cbn.
  - apply seq_NoDup.
  - intros a b _ Hb. apply in_seq. specialize (H _ _ Hb). lia.
Qed.
