(* MV.C20.NavRun — every path returned by navmesh.FindPath in the harness goes through the checker. *)
From Coq Require Import QArith List Bool ZArith.
From MV Require Import Lib.ListX C20.GeomModel C20.GeomRun C20.NavModel.
Open Scope Q_scope.

Inductive nout :=
| NPath (p : list pt)
| NNone          (* FindPath returned nothing: nothing to validate (the Go monitor judges reachability) *)
| NBad.          (* panic or non-finite coordinates *)

Record case := { cid : N; cmesh : mesh; cstart : pt; cgoal : pt; cimpl : nout }.

Definition case_ok (c : case) : bool :=
  match cimpl c with
  | NPath p => path_ok (cmesh c) (cstart c) (cgoal c) p
  | NNone => true
  | NBad => false
  end.

Definition mismatches (cs : list case) : list nat := fail_ids case_ok (fun c => N.to_nat (cid c)) cs.

Definition mcns (p : polygon) (m : mesh) : mesh := p :: m.
Definition mnil : mesh := [].
Definition mk (id : N) (m : mesh) (s g : pt) (o : nout) : case :=
  {| cid := id; cmesh := m; cstart := s; cgoal := g; cimpl := o |}.
