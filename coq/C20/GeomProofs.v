(* MV.C20.GeomProofs — the Q models of the geometric primitives satisfy their geometric definitions. *)
From Coq Require Import QArith Qabs Qminmax Lqa Lia List Bool.
From MV Require Import C20.GeomModel.
Import ListNotations.
Open Scope Q_scope.

Lemma Qltb_lt a b : Qltb a b = true <-> a < b.
Proof.
  unfold Qltb. rewrite negb_true_iff. split.
  - intros H. apply Qnot_le_lt. intros Hle. apply Qle_bool_iff in Hle. congruence.
  - intros H. destruct (Qle_bool b a) eqn:E; [|reflexivity]. apply Qle_bool_iff in E. lra.
Qed.

Lemma Qltb_ge a b : Qltb a b = false <-> b <= a.
Proof.
  unfold Qltb. rewrite negb_false_iff. apply Qle_bool_iff.
Qed.

Lemma Qle_bool_false a b : Qle_bool a b = false <-> b < a.
Proof.
  split.
  - intros H. apply Qnot_le_lt. intros Hle. apply Qle_bool_iff in Hle. congruence.
  - intros H. destruct (Qle_bool a b) eqn:E; [|reflexivity]. apply Qle_bool_iff in E. lra.
Qed.

Lemma Qeq_bool_false a b : Qeq_bool a b = false <-> ~ a == b.
Proof.
  split.
  - intros H He. apply Qeq_bool_iff in He. congruence.
  - intros H. destruct (Qeq_bool a b) eqn:E; [|reflexivity]. apply Qeq_bool_iff in E. contradiction.
Qed.

(* ------------------------------------------------------------------ closest point on a segment *)
Definition seg_at (s : seg) (t : Q) : pt :=
  (px (fst s) + t * (px (snd s) - px (fst s)), py (fst s) + t * (py (snd s) - py (fst s))).
Definition pt_eq (a b : pt) : Prop := px a == px b /\ py a == py b.
(* c is a point of the closed segment s *)
Definition on_seg (s : seg) (c : pt) : Prop := exists t, 0 <= t /\ t <= 1 /\ pt_eq c (seg_at s t).

Ltac qsimp := unfold px, py in *; cbn [fst snd] in *.

Lemma sq_nonneg a : 0 <= a * a.
Proof. nra. Qed.

Lemma clamp_cases v : (v < 0 /\ clamp v 0 1 = 0) \/ (0 <= v /\ 1 < v /\ clamp v 0 1 = 1) \/ (0 <= v /\ v <= 1 /\ clamp v 0 1 = v).
Proof.
  unfold clamp. destruct (Qltb v 0) eqn:E1.
  - apply Qltb_lt in E1. left. split; [exact E1|reflexivity].
  - apply Qltb_ge in E1. destruct (Qltb 1 v) eqn:E2.
    + apply Qltb_lt in E2. right; left. repeat split; assumption.
    + apply Qltb_ge in E2. right; right. repeat split; assumption.
Qed.

Lemma closest_nondegenerate ax ay bx by_ x y :
  0 < (bx - ax) * (bx - ax) + (by_ - ay) * (by_ - ay) ->
  let ds := (bx - ax) * (bx - ax) + (by_ - ay) * (by_ - ay) in
  let t0 := clamp (((x - ax) * (bx - ax) + (y - ay) * (by_ - ay)) / ds) 0 1 in
  (0 <= t0 /\ t0 <= 1) /\
  forall t, 0 <= t -> t <= 1 ->
    (ax + t0 * (bx - ax) - x) * (ax + t0 * (bx - ax) - x) + (ay + t0 * (by_ - ay) - y) * (ay + t0 * (by_ - ay) - y) <=
    (ax + t * (bx - ax) - x) * (ax + t * (bx - ax) - x) + (ay + t * (by_ - ay) - y) * (ay + t * (by_ - ay) - y).
Proof.
  intros Hds ds t0.
  set (dt := (x - ax) * (bx - ax) + (y - ay) * (by_ - ay)) in *.
  assert (Hts : dt / ds * ds == dt) by (field; unfold ds; lra).
  remember (dt / ds) as ts eqn:Ets. clear Ets.
  destruct (clamp_cases ts) as [[H1 H2]|[(H0 & H1 & H2)|(H0 & H1 & H2)]]; unfold t0; rewrite H2; clear H2 t0.
  - split; [lra|]. intros t Ht0 Ht1.
    assert (Hk : 0 <= ds * (t * (t - 2 * ts))) by (apply Qmult_le_0_compat; [unfold ds; lra|apply Qmult_le_0_compat; lra]).
    assert (Hm : t * (ts * ds) == t * dt) by (rewrite Hts; reflexivity).
    unfold dt, ds in *. nra.
  - split; [lra|]. intros t Ht0 Ht1.
    assert (Hk : 0 <= ds * ((1 - t) * (2 * ts - t - 1))) by (apply Qmult_le_0_compat; [unfold ds; lra|apply Qmult_le_0_compat; lra]).
    assert (Hm : t * (ts * ds) == t * dt) by (rewrite Hts; reflexivity).
    unfold dt, ds in *. nra.
  - split; [lra|]. intros t Ht0 Ht1.
    assert (Hk : 0 <= ds * ((t - ts) * (t - ts))) by (apply Qmult_le_0_compat; [unfold ds; lra|apply sq_nonneg]).
    assert (Hm : t * (ts * ds) == t * dt) by (rewrite Hts; reflexivity).
    assert (Hm2 : ts * (ts * ds) == ts * dt) by (rewrite Hts; reflexivity).
    unfold dt, ds in *. nra.
Qed.

Lemma sq_pos a : ~ a == 0 -> 0 < a * a.
Proof.
  intros H. destruct (Qlt_le_dec a 0) as [Hl|Hl]; [nra|].
  destruct (Qlt_le_dec 0 a) as [Hg|Hg]; [nra|]. exfalso. apply H. lra.
Qed.

Lemma closest_point_spec : forall (s : seg) (p : pt),
  on_seg s (closest_point s p) /\
  forall t, 0 <= t -> t <= 1 -> dist2 p (closest_point s p) <= dist2 p (seg_at s t).
Proof.
  intros [[ax ay] [bx by_]] [x y]. unfold closest_point, on_seg, seg_at, pt_eq, pt_eqb, dist2. qsimp.
  assert (Hnd : 0 < (bx - ax) * (bx - ax) + (by_ - ay) * (by_ - ay) ->
    (exists t : Q, 0 <= t /\ t <= 1 /\
       ax + clamp (((x - ax) * (bx - ax) + (y - ay) * (by_ - ay)) / ((bx - ax) * (bx - ax) + (by_ - ay) * (by_ - ay))) 0 1 * (bx - ax) == ax + t * (bx - ax) /\
       ay + clamp (((x - ax) * (bx - ax) + (y - ay) * (by_ - ay)) / ((bx - ax) * (bx - ax) + (by_ - ay) * (by_ - ay))) 0 1 * (by_ - ay) == ay + t * (by_ - ay)) /\
    (forall t : Q, 0 <= t -> t <= 1 ->
       (ax + clamp (((x - ax) * (bx - ax) + (y - ay) * (by_ - ay)) / ((bx - ax) * (bx - ax) + (by_ - ay) * (by_ - ay))) 0 1 * (bx - ax) - x) *
       (ax + clamp (((x - ax) * (bx - ax) + (y - ay) * (by_ - ay)) / ((bx - ax) * (bx - ax) + (by_ - ay) * (by_ - ay))) 0 1 * (bx - ax) - x) +
       (ay + clamp (((x - ax) * (bx - ax) + (y - ay) * (by_ - ay)) / ((bx - ax) * (bx - ax) + (by_ - ay) * (by_ - ay))) 0 1 * (by_ - ay) - y) *
       (ay + clamp (((x - ax) * (bx - ax) + (y - ay) * (by_ - ay)) / ((bx - ax) * (bx - ax) + (by_ - ay) * (by_ - ay))) 0 1 * (by_ - ay) - y) <=
       (ax + t * (bx - ax) - x) * (ax + t * (bx - ax) - x) + (ay + t * (by_ - ay) - y) * (ay + t * (by_ - ay) - y))).
  { intros Hds. destruct (closest_nondegenerate ax ay bx by_ x y Hds) as [[H0 H1] Hmin]. cbn zeta in *.
    split; [|exact Hmin]. eexists. split; [exact H0|]. split; [exact H1|]. split; reflexivity. }
  destruct (Qeq_bool ax bx) eqn:Ex; [destruct (Qeq_bool ay by_) eqn:Ey|]; cbn [andb]; qsimp.
  - (* zero length *)
    apply Qeq_bool_iff in Ex. apply Qeq_bool_iff in Ey. split.
    + exists 0. split; [lra|]. split; [lra|]. split; lra.
    + intros t _ _.
      assert (E1 : t * (bx - ax) == 0) by (setoid_replace (bx - ax) with 0 by lra; ring).
      assert (E2 : t * (by_ - ay) == 0) by (setoid_replace (by_ - ay) with 0 by lra; ring).
      nra.
  - apply Qeq_bool_false in Ey. apply Hnd.
    assert (0 < (by_ - ay) * (by_ - ay)) by (apply sq_pos; lra).
    pose proof (sq_nonneg (bx - ax)). lra.
  - apply Qeq_bool_false in Ex. apply Hnd.
    assert (0 < (bx - ax) * (bx - ax)) by (apply sq_pos; lra).
    pose proof (sq_nonneg (by_ - ay)). lra.
Qed.

(* ------------------------------------------------------------------ point on a segment *)
Lemma mul_nonneg_cancel t d : 0 < d -> 0 <= t * d -> 0 <= t.
Proof. intros Hd H. destruct (Qlt_le_dec t 0) as [Hl|Hl]; [|exact Hl]. exfalso. nra. Qed.
Lemma mul_le_cancel t d : 0 < d -> t * d <= d -> t <= 1.
Proof. intros Hd H. destruct (Qlt_le_dec 1 t) as [Hl|Hl]; [|exact Hl]. exfalso. nra. Qed.
Lemma mul_nonpos_cancel t d : d < 0 -> t * d <= 0 -> 0 <= t.
Proof. intros Hd H. destruct (Qlt_le_dec t 0) as [Hl|Hl]; [|exact Hl]. exfalso. nra. Qed.
Lemma mul_ge_cancel t d : d < 0 -> d <= t * d -> t <= 1.
Proof. intros Hd H. destruct (Qlt_le_dec 1 t) as [Hl|Hl]; [|exact Hl]. exfalso. nra. Qed.

Lemma sq_zero a : a * a == 0 -> a == 0.
Proof.
  intros H. destruct (Qeq_dec a 0) as [E|E]; [exact E|]. pose proof (sq_pos a E). lra.
Qed.

Lemma in_range_iff v a b : in_range v a b = true <-> Qmin a b <= v /\ v <= Qmax a b.
Proof. unfold in_range. rewrite andb_true_iff, !Qle_bool_iff. reflexivity. Qed.

(* a parameter in [0,1] along one coordinate *)
Lemma param_exists v a b : ~ a == b -> Qmin a b <= v -> v <= Qmax a b ->
  exists t, 0 <= t /\ t <= 1 /\ t * (b - a) == v - a.
Proof.
  intros Hab Hlo Hhi. exists ((v - a) / (b - a)).
  assert (Ht : (v - a) / (b - a) * (b - a) == v - a) by (field; lra).
  remember ((v - a) / (b - a)) as t eqn:Et. clear Et.
  destruct (Q.min_spec a b) as [[Hlt Hm]|[Hle Hm]]; destruct (Q.max_spec a b) as [[Hlt' HM]|[Hle' HM]]; rewrite Hm in Hlo; rewrite HM in Hhi; try lra.
  - split; [apply (mul_nonneg_cancel t (b - a)); lra|]. split; [apply (mul_le_cancel t (b - a)); lra|exact Ht].
  - assert (b < a) by (destruct (Qlt_le_dec b a); [assumption|exfalso; apply Hab; lra]).
    split; [apply (mul_nonpos_cancel t (b - a)); lra|]. split; [apply (mul_ge_cancel t (b - a)); lra|exact Ht].
Qed.

Lemma on_segment_iff : forall s p, on_segment s p = true <-> on_seg s p.
Proof.
  intros [[ax ay] [bx by_]] [x y]. unfold on_segment, on_seg, seg_at, pt_eq, dist2. qsimp.
  rewrite !andb_true_iff, !in_range_iff, Qle_bool_iff, Qeq_bool_iff.
  set (s1 := (ax - x) * (ax - x) + (ay - y) * (ay - y)).
  set (s2 := (bx - x) * (bx - x) + (by_ - y) * (by_ - y)).
  set (sl := (bx - ax) * (bx - ax) + (by_ - ay) * (by_ - ay)).
  set (c := (bx - ax) * (y - ay) - (by_ - ay) * (x - ax)).
  assert (Hid : 4 * s1 * s2 - (sl - s1 - s2) * (sl - s1 - s2) == 4 * (c * c)) by (unfold s1, s2, sl, c; ring).
  split.
  - intros [[[Hk Heq] [Hx1 Hx2]] [Hy1 Hy2]].
    assert (Hc : c == 0) by (apply sq_zero; lra). unfold c in Hc.
    destruct (Qeq_dec ax bx) as [Ex|Ex].
    + destruct (Qeq_dec ay by_) as [Ey|Ey].
      * exists 0. split; [lra|]. split; [lra|].
        destruct (Q.min_spec ax bx) as [[? Hm]|[? Hm]]; destruct (Q.max_spec ax bx) as [[? HM]|[? HM]];
        destruct (Q.min_spec ay by_) as [[? Hm']|[? Hm']]; destruct (Q.max_spec ay by_) as [[? HM']|[? HM']];
        rewrite ?Hm, ?HM, ?Hm', ?HM' in *; split; lra.
      * destruct (param_exists y ay by_ Ey Hy1 Hy2) as (t & H0 & H1 & Ht).
        exists t. split; [exact H0|]. split; [exact H1|]. split; [|lra].
        assert (x == ax).
        { destruct (Q.min_spec ax bx) as [[? Hm]|[? Hm]]; destruct (Q.max_spec ax bx) as [[? HM]|[? HM]];
          rewrite ?Hm, ?HM in *; lra. }
        assert (E : t * (bx - ax) == 0) by (setoid_replace (bx - ax) with 0 by lra; ring). lra.
    + destruct (param_exists x ax bx Ex Hx1 Hx2) as (t & H0 & H1 & Ht).
      exists t. split; [exact H0|]. split; [exact H1|]. split; [lra|].
      (* (bx-ax)(y-ay) = (by-ay)(x-ax) = (by-ay) t (bx-ax) *)
      assert (E : (bx - ax) * (y - ay - t * (by_ - ay)) == 0).
      { setoid_replace ((bx - ax) * (y - ay - t * (by_ - ay))) with ((bx - ax) * (y - ay) - (by_ - ay) * (t * (bx - ax))) by ring.
        rewrite Ht. lra. }
      apply Qmult_integral in E. destruct E as [E|E]; [exfalso; apply Ex; lra|lra].
  - intros (t & H0 & H1 & Hx & Hy).
    assert (Es1 : s1 == t * t * sl) by (unfold s1, sl; rewrite Hx, Hy; ring).
    assert (Es2 : s2 == (1 - t) * (1 - t) * sl) by (unfold s2, sl; rewrite Hx, Hy; ring).
    assert (Hsl : 0 <= sl) by (unfold sl; pose proof (sq_nonneg (bx - ax)); pose proof (sq_nonneg (by_ - ay)); lra).
    assert (Ek : sl - s1 - s2 == 2 * (t * (1 - t)) * sl) by (rewrite Es1, Es2; ring).
    assert (Ht : 0 <= t * (1 - t)) by (apply Qmult_le_0_compat; lra).
    split; [split; [split|]|].
    + rewrite Ek. apply Qmult_le_0_compat; [lra|exact Hsl].
    + rewrite Ek, Es1, Es2. ring.
    + rewrite Hx. destruct (Q.min_spec ax bx) as [[? Hm]|[? Hm]]; destruct (Q.max_spec ax bx) as [[? HM]|[? HM]];
        rewrite ?Hm, ?HM; split; nra.
    + rewrite Hy. destruct (Q.min_spec ay by_) as [[? Hm]|[? Hm]]; destruct (Q.max_spec ay by_) as [[? HM]|[? HM]];
        rewrite ?Hm, ?HM; split; nra.
Qed.

(* ------------------------------------------------------------------ circles *)
Definition in_disk (c : circle) (p : pt) : Prop := dist2 (ccenter c) p <= cradius c * cradius c.
Definition in_open_disk (c : circle) (p : pt) : Prop := dist2 (ccenter c) p < cradius c * cradius c.

Lemma circle_contains_iff c p : circle_contains c p = true <-> 0 <= cradius c /\ in_disk c p.
Proof. unfold circle_contains, in_disk. rewrite andb_true_iff, !Qle_bool_iff. reflexivity. Qed.

Lemma sq_le_cancel a b : 0 <= b -> a * a <= b * b -> a <= b.
Proof. intros Hb H. destruct (Qlt_le_dec b a) as [Hl|Hl]; [|exact Hl]. exfalso. nra. Qed.
Lemma sq_lt_cancel a b : 0 <= b -> a * a < b * b -> a < b.
Proof. intros Hb H. destruct (Qlt_le_dec a b) as [Hl|Hl]; [exact Hl|]. exfalso. nra. Qed.

Lemma mul_le_l z x y : 0 <= z -> x <= y -> z * x <= z * y.
Proof. intros Hz H. rewrite (Qmult_comm z x), (Qmult_comm z y). apply Qmult_le_compat_r; assumption. Qed.

(* triangle inequality in squared form *)
Lemma tri_sq ux uy vx vy r1 r2 : 0 <= r1 -> 0 <= r2 ->
  ux * ux + uy * uy <= r1 * r1 -> vx * vx + vy * vy <= r2 * r2 ->
  (ux + vx) * (ux + vx) + (uy + vy) * (uy + vy) <= (r1 + r2) * (r1 + r2).
Proof.
  intros H1 H2 Hu Hv.
  assert (Hl : (ux * vx + uy * vy) * (ux * vx + uy * vy) <= (ux * ux + uy * uy) * (vx * vx + vy * vy)).
  { pose proof (sq_nonneg (ux * vy - uy * vx)). nra. }
  assert (Hm : (ux * ux + uy * uy) * (vx * vx + vy * vy) <= (r1 * r1) * (r2 * r2)).
  { pose proof (sq_nonneg ux). pose proof (sq_nonneg uy). pose proof (sq_nonneg vx). pose proof (sq_nonneg vy).
    apply Qmult_le_compat_nonneg; split; lra. }
  assert (Hd : ux * vx + uy * vy <= r1 * r2).
  { apply sq_le_cancel; [apply Qmult_le_0_compat; assumption|]. nra. }
  nra.
Qed.

Lemma tri_sq_strict ux uy vx vy r1 r2 : 0 < r1 -> 0 < r2 ->
  ux * ux + uy * uy < r1 * r1 -> vx * vx + vy * vy < r2 * r2 ->
  (ux + vx) * (ux + vx) + (uy + vy) * (uy + vy) < (r1 + r2) * (r1 + r2).
Proof.
  intros H1 H2 Hu Hv.
  pose proof (tri_sq ux uy vx vy r1 r2 ltac:(lra) ltac:(lra) ltac:(lra) ltac:(lra)) as H.
  assert (Hd : ux * vx + uy * vy <= r1 * r2).
  { assert (Hl : (ux * vx + uy * vy) * (ux * vx + uy * vy) <= (ux * ux + uy * uy) * (vx * vx + vy * vy)).
    { pose proof (sq_nonneg (ux * vy - uy * vx)). nra. }
    assert (Hm : (ux * ux + uy * uy) * (vx * vx + vy * vy) <= (r1 * r1) * (r2 * r2)).
    { pose proof (sq_nonneg ux). pose proof (sq_nonneg uy). pose proof (sq_nonneg vx). pose proof (sq_nonneg vy).
      apply Qmult_le_compat_nonneg; split; lra. }
    apply sq_le_cancel; [apply Qmult_le_0_compat; lra|]. nra. }
  nra.
Qed.

Lemma circle_intersect_iff c1 c2 : 0 <= cradius c1 -> 0 <= cradius c2 ->
  (circle_intersect c1 c2 = true <-> exists p, in_disk c1 p /\ in_disk c2 p).
Proof.
  destruct c1 as [[x1 y1] r1], c2 as [[x2 y2] r2]. unfold circle_intersect, in_disk, dist2; cbn [ccenter cradius]. qsimp.
  intros H1 H2. rewrite andb_true_iff, !Qle_bool_iff. split.
  - intros [_ Hd].
    destruct (Qeq_dec (r1 + r2) 0) as [Es|Es].
    + exists (x1, y1). qsimp. assert (r1 == 0) by lra. assert (r2 == 0) by lra.
      assert (Z1 : r1 * r1 == 0) by (setoid_replace r1 with 0 by lra; ring).
      assert (Z2 : r2 * r2 == 0) by (setoid_replace r2 with 0 by lra; ring).
      assert (Z3 : (r1 + r2) * (r1 + r2) == 0) by (setoid_replace (r1 + r2) with 0 by lra; ring).
      split; nra.
    + assert (El : r1 / (r1 + r2) * (r1 + r2) == r1) by (field; exact Es).
      remember (r1 / (r1 + r2)) as l eqn:E. clear E.
      assert (Hl0 : 0 <= l) by (apply (mul_nonneg_cancel l (r1 + r2)); lra).
      assert (Hl1 : l <= 1) by (apply (mul_le_cancel l (r1 + r2)); lra).
      exists (x1 + l * (x2 - x1), y1 + l * (y2 - y1)). qsimp.
      set (d := (x2 - x1) * (x2 - x1) + (y2 - y1) * (y2 - y1)) in *.
      set (s := r1 + r2) in *.
      assert (E1 : r1 * r1 == (l * l) * (s * s)) by (rewrite <- El; ring).
      assert (E2 : r2 * r2 == ((1 - l) * (1 - l)) * (s * s)).
      { assert (r2 == (1 - l) * s) by (unfold s in *; lra). rewrite H at 1 2. ring. }
      split.
      * setoid_replace ((x1 + l * (x2 - x1) - x1) * (x1 + l * (x2 - x1) - x1) + (y1 + l * (y2 - y1) - y1) * (y1 + l * (y2 - y1) - y1)) with ((l * l) * d) by (unfold d; ring).
        rewrite E1. apply mul_le_l; [apply sq_nonneg|exact Hd].
      * setoid_replace ((x1 + l * (x2 - x1) - x2) * (x1 + l * (x2 - x1) - x2) + (y1 + l * (y2 - y1) - y2) * (y1 + l * (y2 - y1) - y2)) with (((1 - l) * (1 - l)) * d) by (unfold d; ring).
        rewrite E2. apply mul_le_l; [apply sq_nonneg|exact Hd].
  - intros [[x y] [Hp1 Hp2]]. qsimp. split; [lra|].
    pose proof (tri_sq (x - x1) (y - y1) (x2 - x) (y2 - y) r1 r2 H1 H2) as H.
    setoid_replace ((x2 - x1) * (x2 - x1) + (y2 - y1) * (y2 - y1)) with ((x - x1 + (x2 - x)) * (x - x1 + (x2 - x)) + (y - y1 + (y2 - y)) * (y - y1 + (y2 - y))) by ring.
    apply H; nra.
Qed.

Lemma mul_lt_l z x y : 0 < z -> x < y -> z * x < z * y.
Proof. intros Hz H. apply Qmult_lt_l; assumption. Qed.

Lemma circle_overlap_iff c1 c2 : 0 < cradius c1 -> 0 < cradius c2 ->
  (circle_overlap c1 c2 = true <-> exists p, in_open_disk c1 p /\ in_open_disk c2 p).
Proof.
  destruct c1 as [[x1 y1] r1], c2 as [[x2 y2] r2]. unfold circle_overlap, in_open_disk, dist2; cbn [ccenter cradius]. qsimp.
  intros H1 H2. rewrite andb_true_iff, !Qltb_lt. split.
  - intros [_ Hd].
    assert (Es : ~ r1 + r2 == 0) by lra.
    assert (El : r1 / (r1 + r2) * (r1 + r2) == r1) by (field; exact Es).
    remember (r1 / (r1 + r2)) as l eqn:E. clear E.
    assert (Hl0 : 0 < l).
    { destruct (Qlt_le_dec 0 l) as [H|H]; [exact H|]. exfalso. nra. }
    assert (Hl1 : l < 1).
    { destruct (Qlt_le_dec l 1) as [H|H]; [exact H|]. exfalso. nra. }
    exists (x1 + l * (x2 - x1), y1 + l * (y2 - y1)). qsimp.
    set (d := (x2 - x1) * (x2 - x1) + (y2 - y1) * (y2 - y1)) in *.
    set (s := r1 + r2) in *.
    assert (E1 : r1 * r1 == (l * l) * (s * s)) by (rewrite <- El; ring).
    assert (E2 : r2 * r2 == ((1 - l) * (1 - l)) * (s * s)).
    { assert (r2 == (1 - l) * s) by (unfold s in *; lra). rewrite H at 1 2. ring. }
    split.
    + setoid_replace ((x1 + l * (x2 - x1) - x1) * (x1 + l * (x2 - x1) - x1) + (y1 + l * (y2 - y1) - y1) * (y1 + l * (y2 - y1) - y1)) with ((l * l) * d) by (unfold d; ring).
      rewrite E1. apply mul_lt_l; [nra|exact Hd].
    + setoid_replace ((x1 + l * (x2 - x1) - x2) * (x1 + l * (x2 - x1) - x2) + (y1 + l * (y2 - y1) - y2) * (y1 + l * (y2 - y1) - y2)) with (((1 - l) * (1 - l)) * d) by (unfold d; ring).
      rewrite E2. apply mul_lt_l; [nra|exact Hd].
  - intros [[x y] [Hp1 Hp2]]. qsimp. split; [lra|].
    pose proof (tri_sq_strict (x - x1) (y - y1) (x2 - x) (y2 - y) r1 r2 H1 H2) as H.
    setoid_replace ((x2 - x1) * (x2 - x1) + (y2 - y1) * (y2 - y1)) with ((x - x1 + (x2 - x)) * (x - x1 + (x2 - x)) + (y - y1 + (y2 - y)) * (y - y1 + (y2 - y))) by ring.
    apply H; nra.
Qed.

(* ------------------------------------------------------------------ centroids *)
Fixpoint sumx (l : list pt) : Q := match l with [] => 0 | p :: t => px p + sumx t end.
Fixpoint sumy (l : list pt) : Q := match l with [] => 0 | p :: t => py p + sumy t end.

Lemma fold_vadd l : forall acc, pt_eq (fold_left vadd l acc) (px acc + sumx l, py acc + sumy l).
Proof.
  induction l as [|p t IH]; intros acc; cbn [fold_left sumx sumy].
  - unfold pt_eq; qsimp. split; ring.
  - destruct (IH (vadd acc p)) as [H1 H2]. unfold pt_eq, vadd in *; qsimp. split; [rewrite H1|rewrite H2]; ring.
Qed.

Lemma sum_pts_xy l : pt_eq (sum_pts l) (sumx l, sumy l).
Proof. unfold sum_pts. destruct (fold_vadd l (0, 0)) as [H1 H2]. unfold pt_eq in *; qsimp. split; lra. Qed.

Lemma sumx_app l1 l2 : sumx (l1 ++ l2) == sumx l1 + sumx l2.
Proof. induction l1 as [|p t IH]; cbn [app sumx]; [ring|rewrite IH; ring]. Qed.
Lemma sumy_app l1 l2 : sumy (l1 ++ l2) == sumy l1 + sumy l2.
Proof. induction l1 as [|p t IH]; cbn [app sumy]; [ring|rewrite IH; ring]. Qed.

Definition qn (n : nat) : Q := inject_Z (Z.of_nat n).
Lemma qn_S n : qn (S n) == qn n + 1.
Proof. unfold qn. rewrite Nat2Z.inj_succ. unfold Z.succ. rewrite inject_Z_plus. reflexivity. Qed.
Lemma qn_add n m : qn (n + m) == qn n + qn m.
Proof. unfold qn. rewrite Nat2Z.inj_add, inject_Z_plus. reflexivity. Qed.
Lemma qn_pos n : (0 < n)%nat -> 0 < qn n.
Proof. intros H. unfold qn. change 0 with (inject_Z 0). rewrite <- Zlt_Qlt. apply (Nat2Z.inj_lt 0 n). exact H. Qed.

Lemma sumx_map_add c vs : sumx (map (vadd c) vs) == qn (length vs) * px c + sumx vs.
Proof.
  induction vs as [|v t IH]; cbn [map sumx length]; [unfold qn; cbn; ring|].
  rewrite IH, qn_S. unfold vadd; qsimp. ring.
Qed.
Lemma sumy_map_add c vs : sumy (map (vadd c) vs) == qn (length vs) * py c + sumy vs.
Proof.
  induction vs as [|v t IH]; cbn [map sumy length]; [unfold qn; cbn; ring|].
  rewrite IH, qn_S. unfold vadd; qsimp. ring.
Qed.
Lemma sumx_map_sub c vs : sumx (map (vsub c) vs) == qn (length vs) * px c - sumx vs.
Proof.
  induction vs as [|v t IH]; cbn [map sumx length]; [unfold qn; cbn; ring|].
  rewrite IH, qn_S. unfold vsub; qsimp. ring.
Qed.
Lemma sumy_map_sub c vs : sumy (map (vsub c) vs) == qn (length vs) * py c - sumy vs.
Proof.
  induction vs as [|v t IH]; cbn [map sumy length]; [unfold qn; cbn; ring|].
  rewrite IH, qn_S. unfold vsub; qsimp. ring.
Qed.

(* a vertex list that is symmetric about c: the points c + v followed by their mirror images c - v *)
Definition sym_poly (c : pt) (vs : list pt) : polygon := map (vadd c) vs ++ map (vsub c) vs.

Lemma vertex_centroids_symmetric c vs : vs <> [] ->
  pt_eq (rect_centroid (sym_poly c vs)) c /\ pt_eq (vertices_centroid (sym_poly c vs)) c.
Proof.
  intros Hne.
  assert (Hn : 0 < qn (length vs)) by (apply qn_pos; destruct vs; [congruence|cbn; apply Nat.lt_0_succ]).
  destruct (sum_pts_xy (sym_poly c vs)) as [Hx Hy]. qsimp.
  assert (Hl : qlen (sym_poly c vs) == qn (length vs) + qn (length vs)).
  { unfold qlen, sym_poly. rewrite app_length, !map_length. apply qn_add. }
  assert (Sx : sumx (sym_poly c vs) == (qn (length vs) + qn (length vs)) * fst c).
  { unfold sym_poly. rewrite sumx_app, sumx_map_add, sumx_map_sub. unfold px. ring. }
  assert (Sy : sumy (sym_poly c vs) == (qn (length vs) + qn (length vs)) * snd c).
  { unfold sym_poly. rewrite sumy_app, sumy_map_add, sumy_map_sub. unfold py. ring. }
  unfold rect_centroid, vertices_centroid, vdiv, pt_eq. qsimp.
  rewrite Hx, Hy, Hl, Sx, Sy. split; split; field; lra.
Qed.

(* area centroid of a parallelogram a b c (a+c-b): the intersection of the diagonals *)
Lemma polygon_centroid_parallelogram (a b c : pt) :
  let d := (px a + px c - px b, py a + py c - py b) in
  ~ area2 [a; b; c; d] == 0 ->
  pt_eq (polygon_centroid [a; b; c; d]) ((px a + px c) / 2, (py a + py c) / 2).
Proof.
  destruct a as [ax ay], b as [bx by_], c as [cx cy]. cbn zeta.
  unfold polygon_centroid, area2, edges, edges_from, shoelace_term, vadd, vmul, vdiv, pt_eq. cbn [fold_left]. qsimp.
  intros Ha. split; field; intros H; apply Ha; lra.
Qed.

Lemma polygon_centroid_triangle (a b c : pt) :
  ~ area2 [a; b; c] == 0 ->
  pt_eq (polygon_centroid [a; b; c]) ((px a + px b + px c) / 3, (py a + py b + py c) / 3).
Proof.
  destruct a as [ax ay], b as [bx by_], c as [cx cy].
  unfold polygon_centroid, area2, edges, edges_from, shoelace_term, vadd, vmul, vdiv, pt_eq. cbn [fold_left]. qsimp.
  intros Ha. split; field; intros H; apply Ha; lra.
Qed.

(* ------------------------------------------------------------------ overlap of collinear segments *)
(* the order in which CalcLineSegmentOverlap sorts points: by x, then by y *)
Definition plt (a b : pt) : Prop := px a < px b \/ (px a == px b /\ py a < py b).
Definition ple (a b : pt) : Prop := plt a b \/ pt_eq a b.
Lemma plt_total : forall x y, plt x y \/ pt_eq x y \/ plt y x.
Proof. intros [x y] [x' y']. unfold plt, pt_eq; qsimp. lra. Qed.

Lemma lex_lt_true a b : lex_lt a b = true <-> plt a b.
Proof.
  unfold lex_lt, plt. rewrite orb_true_iff, andb_true_iff, !Qltb_lt, Qeq_bool_iff. reflexivity.
Qed.
Lemma lex_lt_false a b : lex_lt a b = false <-> ple b a.
Proof.
  split.
  - intros H. destruct (lex_lt b a) eqn:E.
    + left. apply lex_lt_true. exact E.
    + right. revert H E. unfold lex_lt, pt_eq, pt_eq.
      rewrite !orb_false_iff, !andb_false_iff. intros [H1 H2] [H3 H4].
      apply Qltb_ge in H1. apply Qltb_ge in H3.
      assert (Hx : px b == px a) by lra. split; [exact Hx|].
      destruct H2 as [H2|H2]; [apply Qeq_bool_false in H2; exfalso; apply H2; lra|].
      destruct H4 as [H4|H4]; [apply Qeq_bool_false in H4; exfalso; apply H4; lra|].
      apply Qltb_ge in H2. apply Qltb_ge in H4. lra.
  - intros H. destruct (lex_lt a b) eqn:E; [|reflexivity]. apply lex_lt_true in E. exfalso.
    unfold ple, plt, pt_eq in *. lra.
Qed.
Lemma pt_eqb_true a b : pt_eqb a b = true <-> pt_eq a b.
Proof. unfold pt_eqb, pt_eq, pt_eq. rewrite andb_true_iff, !Qeq_bool_iff. reflexivity. Qed.
Lemma pt_eqb_false a b : pt_eqb a b = false <-> ~ pt_eq a b.
Proof.
  split.
  - intros H He. apply pt_eqb_true in He. congruence.
  - intros H. destruct (pt_eqb a b) eqn:E; [|reflexivity]. apply pt_eqb_true in E. contradiction.
Qed.

Definition lex_min (a b : pt) : pt := if lex_lt b a then b else a.
Definition lex_max (a b : pt) : pt := if lex_lt a b then b else a.

(* brute-force definition: the common part of the two segments in the sorting order, when it is more than a point *)
Definition overlap_spec (l1 l2 : seg) : option seg :=
  let lo := lex_max (lex_min (fst l1) (snd l1)) (lex_min (fst l2) (snd l2)) in
  let hi := lex_min (lex_max (fst l1) (snd l1)) (lex_max (fst l2) (snd l2)) in
  if lex_lt lo hi then Some (lo, hi) else None.

Definition seg_opt_eq (a b : option seg) : Prop :=
  match a, b with
  | None, None => True
  | Some (a1, a2), Some (b1, b2) => pt_eq a1 b1 /\ pt_eq a2 b2
  | _, _ => False
  end.

(* ---- ranks: the number of end points strictly before a point; turns order reasoning into linear integer arithmetic *)
Section Rank.
  Variables a1 b1 a2 b2 : pt.
  Definition b2z (b : bool) : Z := if b then 1%Z else 0%Z.
  Definition rk (x : pt) : Z := (b2z (lex_lt a1 x) + b2z (lex_lt b1 x) + b2z (lex_lt a2 x) + b2z (lex_lt b2 x))%Z.
  Definition four (x : pt) : Prop := x = a1 \/ x = b1 \/ x = a2 \/ x = b2.

  Lemma b2z_mono p x y : ple x y -> (b2z (lex_lt p x) <= b2z (lex_lt p y))%Z.
  Proof.
    intros H. destruct (lex_lt p x) eqn:E1; destruct (lex_lt p y) eqn:E2; cbn; try lia.
    apply lex_lt_true in E1. apply lex_lt_false in E2. exfalso.
    unfold ple, plt, pt_eq in *. lra.
  Qed.
  Lemma rk_le x y : ple x y -> (rk x <= rk y)%Z.
  Proof.
    intros H. unfold rk.
    pose proof (b2z_mono a1 x y H). pose proof (b2z_mono b1 x y H).
    pose proof (b2z_mono a2 x y H). pose proof (b2z_mono b2 x y H). lia.
  Qed.
  Lemma b2z_strict x y : plt x y -> (b2z (lex_lt x x) < b2z (lex_lt x y))%Z.
  Proof.
    intros H. destruct (lex_lt x x) eqn:E1; [apply lex_lt_true in E1; exfalso; unfold plt in *; lra|].
    destruct (lex_lt x y) eqn:E2; [cbn; lia|]. apply lex_lt_false in E2. exfalso.
    unfold ple, plt, pt_eq in *. lra.
  Qed.
  Lemma rk_lt x y : four x -> plt x y -> (rk x < rk y)%Z.
  Proof.
    intros Hx H. assert (Hle : ple x y) by (left; exact H). unfold rk.
    pose proof (b2z_mono a1 x y Hle). pose proof (b2z_mono b1 x y Hle).
    pose proof (b2z_mono a2 x y Hle). pose proof (b2z_mono b2 x y Hle).
    pose proof (b2z_strict x y H) as Hs.
    destruct Hx as [->|[->|[->| ->]]]; lia.
  Qed.
  Lemma rk_eq x y : four x -> four y -> rk x = rk y -> pt_eq x y.
  Proof.
    intros Hx Hy H. destruct (plt_total x y) as [Hl|[He|Hg]]; [|exact He|].
    - pose proof (rk_lt x y Hx Hl). lia.
    - pose proof (rk_lt y x Hy Hg). lia.
  Qed.
  Lemma rk_of_lex_true x y : four x -> lex_lt x y = true -> (rk x < rk y)%Z.
  Proof. intros Hx H. apply rk_lt; [exact Hx|apply lex_lt_true; exact H]. Qed.
  Lemma rk_of_lex_false x y : lex_lt x y = false -> (rk y <= rk x)%Z.
  Proof. intros H. apply rk_le. apply lex_lt_false. exact H. Qed.
  Lemma rk_of_eqb_true x y : pt_eqb x y = true -> rk x = rk y.
  Proof.
    intros H. apply pt_eqb_true in H.
    assert (H1 : ple x y) by (right; exact H).
    assert (H2 : ple y x) by (right; destruct H; split; symmetry; assumption).
    pose proof (rk_le x y H1). pose proof (rk_le y x H2). lia.
  Qed.
  Lemma rk_of_eqb_false x y : four x -> four y -> pt_eqb x y = false -> rk x <> rk y.
  Proof.
    intros Hx Hy H He. apply pt_eqb_false in H. apply H. apply rk_eq; assumption.
  Qed.
End Rank.

Ltac four_solve := unfold four;
  first [left; reflexivity | right; left; reflexivity | right; right; left; reflexivity | right; right; right; reflexivity].

Ltac lex_step a1 b1 a2 b2 :=
  match goal with
  | |- context [lex_lt ?a ?b] => is_var a; is_var b;
      let E := fresh "E" in destruct (lex_lt a b) eqn:E;
      [ pose proof (rk_of_lex_true a1 b1 a2 b2 a b ltac:(four_solve) E)
      | pose proof (rk_of_lex_false a1 b1 a2 b2 a b E) ]; clear E; try (exfalso; lia)
  | |- context [pt_eqb ?a ?b] => is_var a; is_var b;
      let E := fresh "E" in destruct (pt_eqb a b) eqn:E;
      [ pose proof (rk_of_eqb_true a1 b1 a2 b2 a b E)
      | pose proof (rk_of_eqb_false a1 b1 a2 b2 a b ltac:(four_solve) ltac:(four_solve) E) ]; clear E; try (exfalso; lia)
  end; cbn [fold_left ins_sorted fst snd eqb orb seg_opt_eq].

Lemma overlap_matches_spec l1 l2 : seg_opt_eq (overlap l1 l2) (overlap_spec l1 l2).
Proof.
  destruct l1 as [a1 b1], l2 as [a2 b2].
  unfold overlap, overlap_with, overlap_spec, sort4, lex_min, lex_max. cbn [fold_left ins_sorted fst snd].
  repeat (lex_step a1 b1 a2 b2);
    try exact I; try (exfalso; lia);
    try (split; (apply (rk_eq a1 b1 a2 b2); [four_solve|four_solve|lia])).
Qed.

(* what the brute-force definition means: [lo,hi] is the intersection of the two intervals of the sorting order *)
Definition lex_between (s : seg) (x : pt) : Prop :=
  ple (lex_min (fst s) (snd s)) x /\ ple x (lex_max (fst s) (snd s)).

Ltac coords :=
  unfold ple, plt, pt_eq in *;
  repeat match goal with p : pt |- _ => destruct p end; qsimp.

Lemma ple_trans a b c : ple a b -> ple b c -> ple a c.
Proof. coords. lra. Qed.
Lemma ple_antisym a b : ple a b -> ple b a -> pt_eq a b.
Proof. coords. lra. Qed.
Lemma ple_refl a : ple a a.
Proof. coords. lra. Qed.

Lemma lex_max_le p q x : ple (lex_max p q) x <-> ple p x /\ ple q x.
Proof.
  unfold lex_max. destruct (lex_lt p q) eqn:E.
  - apply lex_lt_true in E. split; [intros H; split; [|exact H]|intros [_ H]; exact H].
    eapply ple_trans; [left; exact E|exact H].
  - apply lex_lt_false in E. split; [intros H; split; [exact H|]|intros [H _]; exact H].
    eapply ple_trans; [exact E|exact H].
Qed.
Lemma lex_min_ge p q x : ple x (lex_min p q) <-> ple x p /\ ple x q.
Proof.
  unfold lex_min. destruct (lex_lt q p) eqn:E.
  - apply lex_lt_true in E. split; [intros H; split; [|exact H]|intros [_ H]; exact H].
    eapply ple_trans; [exact H|left; exact E].
  - apply lex_lt_false in E. split; [intros H; split; [exact H|]|intros [H _]; exact H].
    eapply ple_trans; [exact H|exact E].
Qed.

Lemma lex_between_both l1 l2 x :
  (lex_between l1 x /\ lex_between l2 x) <->
  (ple (lex_max (lex_min (fst l1) (snd l1)) (lex_min (fst l2) (snd l2))) x /\
   ple x (lex_min (lex_max (fst l1) (snd l1)) (lex_max (fst l2) (snd l2)))).
Proof. unfold lex_between. rewrite lex_max_le, lex_min_ge. tauto. Qed.

Lemma overlap_spec_some l1 l2 u v : overlap_spec l1 l2 = Some (u, v) ->
  plt u v /\ forall x, (lex_between l1 x /\ lex_between l2 x) <-> (ple u x /\ ple x v).
Proof.
  unfold overlap_spec. cbn zeta.
  destruct (lex_lt _ _) eqn:E; [|discriminate]. intros H. inversion H; subst u v; clear H.
  split; [apply lex_lt_true; exact E|]. intros x. apply lex_between_both.
Qed.

Lemma overlap_spec_none l1 l2 : overlap_spec l1 l2 = None ->
  forall x y, lex_between l1 x -> lex_between l2 x -> lex_between l1 y -> lex_between l2 y -> pt_eq x y.
Proof.
  unfold overlap_spec. cbn zeta.
  destruct (lex_lt _ _) eqn:E; [discriminate|]. intros _ x y Hx1 Hx2 Hy1 Hy2.
  apply lex_lt_false in E.
  destruct (proj1 (lex_between_both l1 l2 x) (conj Hx1 Hx2)) as [Hxl Hxh].
  destruct (proj1 (lex_between_both l1 l2 y) (conj Hy1 Hy2)) as [Hyl Hyh].
  apply ple_antisym.
  - eapply ple_trans; [exact Hxh|]. eapply ple_trans; [exact E|exact Hyl].
  - eapply ple_trans; [exact Hyh|]. eapply ple_trans; [exact E|exact Hxl].
Qed.

(* ------------------------------------------------------------------ point in polygon (ray casting) *)
(* > 0: q is on the left of the directed line a -> b *)
Definition orient (a b q : pt) : Q := (px b - px a) * (py q - py a) - (py b - py a) * (px q - px a).

Lemma div_lt_pos z n d : 0 < d -> (z < n / d <-> z * d < n).
Proof.
  intros Hd. assert (E : n / d * d == n) by (field; lra). remember (n / d) as r eqn:Er. clear Er.
  split; intros H.
  - assert (z * d < r * d) by (apply Qmult_lt_r; assumption). lra.
  - destruct (Qlt_le_dec z r) as [Hl|Hl]; [exact Hl|]. exfalso.
    assert (r * d <= z * d) by (apply Qmult_le_compat_r; lra). lra.
Qed.
Lemma div_lt_neg z n d : d < 0 -> (z < n / d <-> n < z * d).
Proof.
  intros Hd. assert (E : n / d * d == n) by (field; lra). remember (n / d) as r eqn:Er. clear Er.
  split; intros H.
  - assert (z * (- d) < r * (- d)) by (apply Qmult_lt_r; lra). lra.
  - destruct (Qlt_le_dec z r) as [Hl|Hl]; [exact Hl|]. exfalso.
    assert (r * (- d) <= z * (- d)) by (apply Qmult_le_compat_r; lra). lra.
Qed.

(* the ray from q to the right crosses the edge pj -> pi iff the edge passes the level of q upwards with q on
   its left, or downwards with q on its right (half-open in y, as in the Go code) *)
Lemma crosses_iff x y pi pj :
  crosses x y pi pj = true <->
  (py pi <= y /\ y < py pj /\ orient pj pi (x, y) < 0) \/ (py pj <= y /\ y < py pi /\ 0 < orient pj pi (x, y)).
Proof.
  destruct pi as [ix iy], pj as [jx jy]. unfold crosses, orient. qsimp.
  rewrite andb_true_iff, orb_true_iff, !andb_true_iff, !Qle_bool_iff, !Qltb_lt.
  remember ((jx - ix) * (y - iy) / (jy - iy)) as r eqn:Er.
  assert (Hr : forall z, z < r <-> z < (jx - ix) * (y - iy) / (jy - iy)) by (intros z; rewrite Er; reflexivity).
  clear Er.
  split.
  - intros [[[H1 H2]|[H1 H2]] H3].
    + left. split; [exact H1|]. split; [exact H2|].
      assert (Hx : x - ix < r) by lra. apply Hr in Hx.
      assert (Hd : 0 < jy - iy) by lra.
      pose proof (proj1 (div_lt_pos _ _ _ Hd) Hx) as Hy. nra.
    + right. split; [exact H1|]. split; [exact H2|].
      assert (Hx : x - ix < r) by lra. apply Hr in Hx.
      assert (Hd : jy - iy < 0) by lra.
      pose proof (proj1 (div_lt_neg _ _ _ Hd) Hx) as Hy. nra.
  - intros [(H1 & H2 & H3)|(H1 & H2 & H3)].
    + split; [left; split; assumption|].
      assert (Hx : x - ix < r) by (apply Hr; apply div_lt_pos; lra). lra.
    + split; [right; split; assumption|].
      assert (Hx : x - ix < r) by (apply Hr; apply div_lt_neg; lra). lra.
Qed.

(* the same as a boolean formula: the edge is active when exactly one end is above the level of q *)
Lemma crosses_bool x y pi pj :
  crosses x y pi pj =
  xorb (Qltb y (py pi)) (Qltb y (py pj)) &&
  (if Qltb y (py pi) then Qltb 0 (orient pj pi (x, y)) else Qltb (orient pj pi (x, y)) 0).
Proof.
  destruct (crosses x y pi pj) eqn:E.
  - apply crosses_iff in E. destruct E as [(H1 & H2 & H3)|(H1 & H2 & H3)].
    + apply Qltb_ge in H1. apply Qltb_lt in H2. apply Qltb_lt in H3. rewrite H1, H2, H3. reflexivity.
    + apply Qltb_ge in H1. apply Qltb_lt in H2. apply Qltb_lt in H3. rewrite H1, H2, H3. reflexivity.
  - symmetry. destruct (Qltb y (py pi)) eqn:Ui; destruct (Qltb y (py pj)) eqn:Uj; cbn [xorb andb]; try reflexivity.
    + destruct (Qltb 0 (orient pj pi (x, y))) eqn:Es; [|reflexivity].
      apply Qltb_lt in Ui. apply Qltb_ge in Uj. apply Qltb_lt in Es.
      assert (C : crosses x y pi pj = true) by (apply crosses_iff; right; repeat split; assumption). congruence.
    + destruct (Qltb (orient pj pi (x, y)) 0) eqn:Es; [|reflexivity].
      apply Qltb_ge in Ui. apply Qltb_lt in Uj. apply Qltb_lt in Es.
      assert (C : crosses x y pi pj = true) by (apply crosses_iff; left; repeat split; assumption). congruence.
Qed.

Lemma tri_identities a b c q :
  orient c a q + orient a b q + orient b c q == orient a b c /\
  orient b c q * (py a - py q) + orient c a q * (py b - py q) + orient a b q * (py c - py q) == 0.
Proof. destruct a, b, c, q. unfold orient; qsimp. split; ring. Qed.

Ltac bool_to_prop :=
  repeat match goal with
  | H : Qltb _ _ = true |- _ => apply Qltb_lt in H
  | H : Qltb _ _ = false |- _ => apply Qltb_ge in H
  end.

(* counter-clockwise triangle: strictly inside -> true, strictly outside -> false *)
Lemma tri_flat a b c : orient a b c == (px b - px a) * (py c - py a) - (py b - py a) * (px c - px a).
Proof. reflexivity. Qed.

Lemma pos_mul_nonpos_sum s1 s2 s3 d1 d2 d3 :
  0 < s1 -> 0 < s2 -> 0 < s3 -> d1 <= 0 -> d2 <= 0 -> d3 <= 0 ->
  s1 * d1 + s2 * d2 + s3 * d3 == 0 -> d1 == 0 /\ d2 == 0 /\ d3 == 0.
Proof.
  intros P1 P2 P3 N1 N2 N3 H.
  assert (s1 * d1 <= 0) by nra. assert (s2 * d2 <= 0) by nra. assert (s3 * d3 <= 0) by nra.
  assert (Z1 : s1 * d1 == 0) by lra. assert (Z2 : s2 * d2 == 0) by lra. assert (Z3 : s3 * d3 == 0) by lra.
  apply Qmult_integral in Z1. apply Qmult_integral in Z2. apply Qmult_integral in Z3.
  repeat split; [destruct Z1|destruct Z2|destruct Z3]; lra.
Qed.

(* counter-clockwise triangle: strictly inside -> true, strictly outside -> false *)
Lemma point_in_triangle_ccw a b c q : 0 < orient a b c ->
  (0 < orient a b q -> 0 < orient b c q -> 0 < orient c a q -> point_inside [a; b; c] q = true) /\
  (orient a b q < 0 \/ orient b c q < 0 \/ orient c a q < 0 -> point_inside [a; b; c] q = false).
Proof.
  intros HA. destruct (tri_identities a b c q) as [I1 I2]. pose proof (tri_flat a b c) as I3.
  unfold point_inside. cbn [last ray_loop]. rewrite !crosses_bool.
  replace (px q, py q) with q by (destruct q; reflexivity).
  remember (orient c a q) as S1 eqn:E1. remember (orient a b q) as S2 eqn:E2. remember (orient b c q) as S3 eqn:E3.
  remember (orient a b c) as A eqn:EA. clear E1 E2 E3 EA.
  remember (py a) as ya. remember (py b) as yb. remember (py c) as yc. remember (py q) as y.
  remember (px b - px a) as X1. remember (px c - px a) as X2.
  clear Heqya Heqyb Heqyc Heqy HeqX1 HeqX2.
  split.
  - intros H2 H3 H1.
    destruct (Qltb y ya) eqn:Ua; destruct (Qltb y yb) eqn:Ub; destruct (Qltb y yc) eqn:Uc; cbn [xorb andb negb];
      repeat match goal with |- context [Qltb ?u ?v] => destruct (Qltb u v) eqn:? end; cbn [xorb andb negb];
      try reflexivity; exfalso; bool_to_prop; try nra.
    (* all three vertices at or below the level of q *)
    destruct (pos_mul_nonpos_sum S3 S1 S2 (ya - y) (yb - y) (yc - y)) as (Z1 & Z2 & Z3); try lra.
    assert (EA : A == 0).
    { rewrite I3. setoid_replace (yc - ya) with 0 by lra. setoid_replace (yb - ya) with 0 by lra. ring. }
    lra.
  - intros Hout.
    destruct (Qltb y ya) eqn:Ua; destruct (Qltb y yb) eqn:Ub; destruct (Qltb y yc) eqn:Uc; cbn [xorb andb negb];
      repeat match goal with |- context [Qltb ?u ?v] => destruct (Qltb u v) eqn:? end; cbn [xorb andb negb];
      try reflexivity; exfalso; bool_to_prop; try nra.
Qed.

(* clockwise triangle *)
Lemma point_in_triangle_cw a b c q : orient a b c < 0 ->
  (orient a b q < 0 -> orient b c q < 0 -> orient c a q < 0 -> point_inside [a; b; c] q = true) /\
  (0 < orient a b q \/ 0 < orient b c q \/ 0 < orient c a q -> point_inside [a; b; c] q = false).
Proof.
  intros HA. destruct (tri_identities a b c q) as [I1 I2]. pose proof (tri_flat a b c) as I3.
  unfold point_inside. cbn [last ray_loop]. rewrite !crosses_bool.
  replace (px q, py q) with q by (destruct q; reflexivity).
  remember (orient c a q) as S1 eqn:E1. remember (orient a b q) as S2 eqn:E2. remember (orient b c q) as S3 eqn:E3.
  remember (orient a b c) as A eqn:EA. clear E1 E2 E3 EA.
  remember (py a) as ya. remember (py b) as yb. remember (py c) as yc. remember (py q) as y.
  remember (px b - px a) as X1. remember (px c - px a) as X2.
  clear Heqya Heqyb Heqyc Heqy HeqX1 HeqX2.
  split.
  - intros H2 H3 H1.
    destruct (Qltb y ya) eqn:Ua; destruct (Qltb y yb) eqn:Ub; destruct (Qltb y yc) eqn:Uc; cbn [xorb andb negb];
      repeat match goal with |- context [Qltb ?u ?v] => destruct (Qltb u v) eqn:? end; cbn [xorb andb negb];
      try reflexivity; exfalso; bool_to_prop; try nra.
    destruct (pos_mul_nonpos_sum (- S3) (- S1) (- S2) (ya - y) (yb - y) (yc - y)) as (Z1 & Z2 & Z3); try lra.
    assert (EA : A == 0).
    { rewrite I3. setoid_replace (yc - ya) with 0 by lra. setoid_replace (yb - ya) with 0 by lra. ring. }
    lra.
  - intros Hout.
    destruct (Qltb y ya) eqn:Ua; destruct (Qltb y yb) eqn:Ub; destruct (Qltb y yc) eqn:Uc; cbn [xorb andb negb];
      repeat match goal with |- context [Qltb ?u ?v] => destruct (Qltb u v) eqn:? end; cbn [xorb andb negb];
      try reflexivity; exfalso; bool_to_prop; try nra.
Qed.

(* axis-aligned rectangle *)
Lemma point_in_rectangle x0 y0 x1 y1 x y : x0 < x1 -> y0 < y1 ->
  let R := [(x0, y0); (x1, y0); (x1, y1); (x0, y1)] in
  (x0 < x -> x < x1 -> y0 < y -> y < y1 -> point_inside R (x, y) = true) /\
  (x < x0 \/ x1 < x \/ y < y0 \/ y1 < y -> point_inside R (x, y) = false).
Proof.
  intros Hx Hy R. unfold R, point_inside. cbn [last ray_loop]. rewrite !crosses_bool. unfold orient. qsimp.
  split.
  - intros A1 A2 A3 A4.
    repeat match goal with |- context [Qltb ?u ?v] => destruct (Qltb u v) eqn:? end; cbn [xorb andb negb];
      try reflexivity; exfalso; bool_to_prop; nra.
  - intros Hout.
    repeat match goal with |- context [Qltb ?u ?v] => destruct (Qltb u v) eqn:? end; cbn [xorb andb negb];
      try reflexivity; exfalso; bool_to_prop; nra.
Qed.

(* ------------------------------------------------------------------ the sorting order along a line *)
(* On the carrying line of a segment, "between the end points in the order by (x, then y)" is the same as
   "on the segment": this is what makes the order-theoretic overlap the geometric one. *)
Lemma t_cases t : 0 <= t -> t <= 1 -> t == 0 \/ t == 1 \/ (0 < t /\ t < 1).
Proof. intros. destruct (Qeq_dec t 0); [left; assumption|]. destruct (Qeq_dec t 1); [right; left; assumption|]. right; right. split; lra. Qed.

Lemma seg_at_between_lt a b t : plt a b -> 0 <= t -> t <= 1 ->
  ple a (seg_at (a, b) t) /\ ple (seg_at (a, b) t) b.
Proof.
  destruct a as [ax ay], b as [bx by_]. unfold ple, plt, pt_eq, seg_at; qsimp. intros Hab H0 H1.
  destruct (t_cases t H0 H1) as [T|[T|[T0 T1]]].
  - assert (E1 : t * (bx - ax) == 0) by (rewrite T; ring). assert (E2 : t * (by_ - ay) == 0) by (rewrite T; ring).
    split; [right; split; nra|]. destruct Hab as [Hab|[Hab Hab']]; [left; left; nra|left; right; split; nra].
  - assert (E1 : t * (bx - ax) == bx - ax) by (rewrite T; ring). assert (E2 : t * (by_ - ay) == by_ - ay) by (rewrite T; ring).
    split; [|right; split; nra]. destruct Hab as [Hab|[Hab Hab']]; [left; left; nra|left; right; split; nra].
  - destruct Hab as [Hab|[Hab Hab']].
    + assert (0 < t * (bx - ax)) by (apply Qmult_lt_0_compat; nra).
      assert (t * (bx - ax) < bx - ax) by nra.
      split; left; left; nra.
    + assert (Z : t * (bx - ax) == 0) by (setoid_replace (bx - ax) with 0 by nra; ring).
      assert (0 < t * (by_ - ay)) by (apply Qmult_lt_0_compat; nra).
      assert (t * (by_ - ay) < by_ - ay) by nra.
      split; left; right; split; nra.
Qed.

Lemma seg_at_between_gt a b t : plt b a -> 0 <= t -> t <= 1 ->
  ple b (seg_at (a, b) t) /\ ple (seg_at (a, b) t) a.
Proof.
  destruct a as [ax ay], b as [bx by_]. unfold ple, plt, pt_eq, seg_at; qsimp. intros Hab H0 H1.
  destruct (t_cases t H0 H1) as [T|[T|[T0 T1]]].
  - assert (E1 : t * (bx - ax) == 0) by (rewrite T; ring). assert (E2 : t * (by_ - ay) == 0) by (rewrite T; ring).
    split; [|right; split; nra]. destruct Hab as [Hab|[Hab Hab']]; [left; left; nra|left; right; split; nra].
  - assert (E1 : t * (bx - ax) == bx - ax) by (rewrite T; ring). assert (E2 : t * (by_ - ay) == by_ - ay) by (rewrite T; ring).
    split; [right; split; nra|]. destruct Hab as [Hab|[Hab Hab']]; [left; left; nra|left; right; split; nra].
  - destruct Hab as [Hab|[Hab Hab']].
    + assert (t * (bx - ax) < 0) by nra.
      assert (bx - ax < t * (bx - ax)) by nra.
      split; left; left; nra.
    + assert (Z : t * (bx - ax) == 0) by (setoid_replace (bx - ax) with 0 by nra; ring).
      assert (t * (by_ - ay) < 0) by nra.
      assert (by_ - ay < t * (by_ - ay)) by nra.
      split; left; right; split; nra.
Qed.

Lemma ple_of_eq a b : pt_eq a b -> ple a b.
Proof. intros H. right. exact H. Qed.

Lemma ple_eq_l a a' b : pt_eq a a' -> ple a b -> ple a' b.
Proof. destruct a, a', b. unfold ple, plt, pt_eq; qsimp. lra. Qed.
Lemma ple_eq_r a b b' : pt_eq b b' -> ple a b -> ple a b'.
Proof. destruct a, b, b'. unfold ple, plt, pt_eq; qsimp. lra. Qed.

Lemma lex_min_max_cases a b :
  (plt a b /\ lex_min a b = a /\ lex_max a b = b) \/
  (plt b a /\ lex_min a b = b /\ lex_max a b = a) \/
  (pt_eq a b /\ lex_min a b = a /\ lex_max a b = a).
Proof.
  unfold lex_min, lex_max.
  destruct (lex_lt b a) eqn:E1; destruct (lex_lt a b) eqn:E2.
  - apply lex_lt_true in E1. apply lex_lt_true in E2. exfalso. destruct a, b. unfold plt in *; qsimp. lra.
  - apply lex_lt_true in E1. right; left. auto.
  - apply lex_lt_true in E2. left. auto.
  - apply lex_lt_false in E1. apply lex_lt_false in E2. right; right. split; [|auto].
    apply ple_antisym; assumption.
Qed.

(* on the segment -> between its end points in the sorting order *)
Lemma on_seg_lex_between a b x : on_seg (a, b) x -> lex_between (a, b) x.
Proof.
  intros (t & H0 & H1 & Hx). unfold lex_between. cbn [fst snd].
  assert (Hs : pt_eq (seg_at (a, b) t) x) by (destruct Hx; split; symmetry; assumption).
  destruct (lex_min_max_cases a b) as [(Hl & -> & ->)|[(Hl & -> & ->)|(He & -> & ->)]].
  - destruct (seg_at_between_lt a b t Hl H0 H1) as [A B].
    split; [eapply ple_eq_r; eassumption|eapply ple_eq_l; eassumption].
  - destruct (seg_at_between_gt a b t Hl H0 H1) as [A B].
    split; [eapply ple_eq_r; eassumption|eapply ple_eq_l; eassumption].
  - (* a = b: the segment is the point a *)
    assert (pt_eq a x).
    { destruct a as [ax ay], b as [bx by_], x as [xx xy]. unfold pt_eq, seg_at in *; qsimp.
      destruct He as [E1 E2]. destruct Hx as [X1 X2].
      assert (Z1 : t * (bx - ax) == 0) by (setoid_replace (bx - ax) with 0 by lra; ring).
      assert (Z2 : t * (by_ - ay) == 0) by (setoid_replace (by_ - ay) with 0 by lra; ring).
      split; lra. }
    split; right; [assumption|destruct H; split; symmetry; assumption].
Qed.

(* a point of the carrying line whose x (or, on a vertical line, y) lies between the end points is on the segment *)
Lemma on_line_param ax ay bx by_ xx xy t :
  (bx - ax) * (xy - ay) - (by_ - ay) * (xx - ax) == 0 -> ~ ax == bx -> t * (bx - ax) == xx - ax ->
  xy == ay + t * (by_ - ay).
Proof.
  intros Hc Ex Ht.
  assert (E : (bx - ax) * (xy - ay - t * (by_ - ay)) == 0).
  { setoid_replace ((bx - ax) * (xy - ay - t * (by_ - ay))) with ((bx - ax) * (xy - ay) - (by_ - ay) * (t * (bx - ax))) by ring.
    rewrite Ht. lra. }
  apply Qmult_integral in E. destruct E as [E|E]; [exfalso; apply Ex; lra|lra].
Qed.

Lemma min_max_le a b : a <= b -> Qmin a b == a /\ Qmax a b == b.
Proof. intros H. split; [apply Q.min_l; exact H|apply Q.max_r; exact H]. Qed.
Lemma min_max_ge a b : b <= a -> Qmin a b == b /\ Qmax a b == a.
Proof. intros H. split; [apply Q.min_r; exact H|apply Q.max_l; exact H]. Qed.

Lemma between_on_seg_lt a b x : plt a b -> orient a b x == 0 -> ple a x -> ple x b -> on_seg (a, b) x.
Proof.
  destruct a as [ax ay], b as [bx by_], x as [xx xy]. unfold on_seg, seg_at, orient, ple, plt, pt_eq; qsimp.
  intros Hab Hc H1 H2.
  destruct Hab as [Hab|[Hab Hab']].
  - assert (Hr : ax <= xx /\ xx <= bx) by lra.
    destruct (min_max_le ax bx ltac:(lra)) as [Em EM].
    destruct (param_exists xx ax bx ltac:(lra) ltac:(lra) ltac:(lra)) as (t & T0 & T1 & Ht).
    exists t. split; [exact T0|]. split; [exact T1|]. split; [lra|].
    apply (on_line_param ax ay bx by_ xx xy t); [exact Hc|lra|exact Ht].
  - assert (Ex : xx == ax) by lra.
    assert (Hr : ay <= xy /\ xy <= by_) by lra.
    destruct (min_max_le ay by_ ltac:(lra)) as [Em EM].
    destruct (param_exists xy ay by_ ltac:(lra) ltac:(lra) ltac:(lra)) as (t & T0 & T1 & Ht).
    exists t. split; [exact T0|]. split; [exact T1|].
    assert (Z : t * (bx - ax) == 0) by (setoid_replace (bx - ax) with 0 by lra; ring).
    split; lra.
Qed.

Lemma on_seg_swap a b x : on_seg (b, a) x -> on_seg (a, b) x.
Proof.
  intros (t & H0 & H1 & Hx). exists (1 - t). split; [lra|]. split; [lra|].
  destruct a as [ax ay], b as [bx by_], x as [xx xy]. unfold pt_eq, seg_at in *; qsimp.
  destruct Hx as [X1 X2]. split; [rewrite X1|rewrite X2]; ring.
Qed.

Lemma orient_swap a b x : orient b a x == - orient a b x.
Proof. destruct a, b, x. unfold orient; qsimp. ring. Qed.

(* between the end points in the sorting order and on the carrying line -> on the segment *)
Lemma lex_between_on_seg a b x : orient a b x == 0 -> lex_between (a, b) x -> on_seg (a, b) x.
Proof.
  intros Hc [H1 H2]. cbn [fst snd] in *.
  destruct (lex_min_max_cases a b) as [(Hl & E1 & E2)|[(Hl & E1 & E2)|(He & E1 & E2)]]; rewrite E1 in H1; rewrite E2 in H2.
  - apply between_on_seg_lt; assumption.
  - apply on_seg_swap. apply between_on_seg_lt; try assumption. rewrite orient_swap, Hc. reflexivity.
  - exists 0. split; [lra|]. split; [lra|].
    pose proof (ple_antisym _ _ H1 H2) as Hax.
    destruct a as [ax ay], b as [bx by_], x as [xx xy]. unfold pt_eq, seg_at in *; qsimp. split; lra.
Qed.

Theorem on_seg_iff_lex_between a b x : orient a b x == 0 -> (on_seg (a, b) x <-> lex_between (a, b) x).
Proof. intros Hc. split; [apply on_seg_lex_between|apply lex_between_on_seg; exact Hc]. Qed.

Lemma plt_eq_l a a' b : pt_eq a a' -> plt a b -> plt a' b.
Proof. destruct a, a', b. unfold plt, pt_eq; qsimp. lra. Qed.
Lemma plt_eq_r a b b' : pt_eq b b' -> plt a b -> plt a b'.
Proof. destruct a, b, b'. unfold plt, pt_eq; qsimp. lra. Qed.
Lemma pt_eq_sym a b : pt_eq a b -> pt_eq b a.
Proof. intros [H1 H2]. split; symmetry; assumption. Qed.

(* The geometric reading of the result of CalcLineSegmentOverlap (repaired): for points x of the common line,
   x is on both segments iff it is on the reported one; and when nothing is reported the two segments share at
   most one point. *)
Theorem overlap_geometric l1 l2 :
  (forall u v, overlap l1 l2 = Some (u, v) ->
     ~ pt_eq u v /\
     forall x, orient (fst l1) (snd l1) x == 0 -> orient (fst l2) (snd l2) x == 0 -> orient u v x == 0 ->
       ((on_seg l1 x /\ on_seg l2 x) <-> on_seg (u, v) x)) /\
  (overlap l1 l2 = None ->
     forall x y, on_seg l1 x -> on_seg l2 x -> on_seg l1 y -> on_seg l2 y -> pt_eq x y).
Proof.
  pose proof (overlap_matches_spec l1 l2) as Hm. split.
  - intros u v Ho. rewrite Ho in Hm. destruct (overlap_spec l1 l2) as [[u' v']|] eqn:Es; [|destruct Hm].
    destruct Hm as [Hu Hv]. destruct (overlap_spec_some l1 l2 u' v' Es) as [Hlt Hiff].
    assert (Hlt' : plt u v) by (apply (plt_eq_l u'); [apply pt_eq_sym; exact Hu|]; apply (plt_eq_r _ v'); [apply pt_eq_sym; exact Hv|exact Hlt]).
    split.
    { intros He. destruct u, v. unfold plt, pt_eq in *; qsimp. lra. }
    intros x C1 C2 C3. destruct l1 as [a1 b1], l2 as [a2 b2]. cbn [fst snd] in *.
    rewrite (on_seg_iff_lex_between a1 b1 x C1), (on_seg_iff_lex_between a2 b2 x C2), (on_seg_iff_lex_between u v x C3).
    rewrite Hiff. unfold lex_between. cbn [fst snd].
    destruct (lex_min_max_cases u v) as [(_ & -> & ->)|[(Hl & _ & _)|(He & _ & _)]].
    + split; intros [A B]; split.
      * eapply ple_eq_l; [apply pt_eq_sym; exact Hu|exact A].
      * eapply ple_eq_r; [apply pt_eq_sym; exact Hv|exact B].
      * eapply ple_eq_l; [exact Hu|exact A].
      * eapply ple_eq_r; [exact Hv|exact B].
    + exfalso. destruct u, v. unfold plt in *; qsimp. lra.
    + exfalso. destruct u, v. unfold plt, pt_eq in *; qsimp. lra.
  - intros Ho x y X1 X2 Y1 Y2. rewrite Ho in Hm. destruct (overlap_spec l1 l2) as [[u' v']|] eqn:Es; [destruct Hm|].
    destruct l1 as [a1 b1], l2 as [a2 b2].
    apply (overlap_spec_none _ _ Es); apply on_seg_lex_between; assumption.
Qed.
