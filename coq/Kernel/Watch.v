(* MV.Kernel.Watch — C06, "actors that did not watch and are not the parent are not notified":
   in every run of the kernel from the freshly started system, for every role table, a termination notice
   OnTerminated(w) is only ever queued for — and hence handled by — an address x that issued a Watch for w
   earlier in the run, or that is the parent of an actor object created under address w.

   Invariant WI (relative to a trace tr of observations): every watcher entry of an object at address t is
   backed by an observation OW x t in tr; so is every queued Watch request; every queued or in-flight
   notice "w terminated" in the mailbox of an object at address x is backed by OW x w in tr or by an object
   with address w whose parent is x. *)
From MV Require Import Lib.ListX Kernel.Model Kernel.Lifecycle Kernel.Status Kernel.Registry Kernel.Frame Kernel.Queue.
Open Scope Z_scope.

Definition msgs (a : actor) : list (env smsg) :=
  match a_inflight a with Some (MS e) => [e] | _ => [] end ++ a_sysq a.
Definition interesting (e : env smsg) : bool :=
  match e_msg e with SWatch | STerminatedOf _ => true | _ => false end.

Section W.
Variable roles : list role.
Variable tr : list obs.

Definition just (s : kstate) (x w : ref) : Prop :=
  In (OW x w) tr \/ exists c ac, get s c = Some ac /\ a_tok ac = w /\ a_parent ac = x.

Definition good (s : kstate) (tok : ref) (e : env smsg) : Prop :=
  match e_msg e with
  | SWatch => In (OW (e_snd e) tok) tr
  | STerminatedOf w => w = tok \/ just s tok w
  | _ => True
  end.

Definition WIa (s : kstate) (a : actor) : Prop :=
  (forall x, In x (a_watchers a) -> In (OW x (a_tok a)) tr) /\
  (forall e, In e (msgs a) -> good s (a_tok a) e) /\
  (* every user message in flight or queued at an object is addressed to that object's own address *)
  (forall e, In e (seq a) -> e_rcv e = a_tok a).

Definition WI (s : kstate) : Prop := RI s /\ forall u a, get s u = Some a -> WIa s a.

(* objects persist with their address and parent *)
Definition idk (s s' : kstate) : Prop :=
  forall c ac, get s c = Some ac -> exists ac', get s' c = Some ac' /\ a_tok ac' = a_tok ac /\ a_parent ac' = a_parent ac.
Lemma idk_refl s : idk s s.
Proof. intros c ac H. exists ac. auto. Qed.
Lemma idk_trans a b c : idk a b -> idk b c -> idk a c.
Proof.
  intros H1 H2 u x Hx. destruct (H1 u x Hx) as (y & Hy & T1 & P1). destruct (H2 u y Hy) as (z & Hz & T2 & P2).
  exists z. split; [exact Hz|]. split; congruence.
Qed.
Lemma idk_of_mono s s' : mono s s' -> idk s s'.
Proof. intros M c ac H. destruct (M c ac H) as (ac' & H' & _ & (I1 & I2 & _)). exists ac'. auto. Qed.
Lemma idk_of_ext s s' : ext s s' -> idk s s'.
Proof. intros [M _]. apply idk_of_mono. exact M. Qed.

Lemma just_idk s s' x w : idk s s' -> just s x w -> just s' x w.
Proof.
  intros K [H|(c & ac & Hc & Ht & Hp)]; [left; exact H|right].
  destruct (K c ac Hc) as (ac' & Hc' & T & P). exists c, ac'. split; [exact Hc'|]. split; congruence.
Qed.
Lemma good_idk s s' tok e : idk s s' -> good s tok e -> good s' tok e.
Proof.
  intros K. unfold good. destruct (e_msg e); auto. intros [H|H]; [left; exact H|right; eapply just_idk; eassumption].
Qed.
Lemma good_plain s tok e : interesting e = false -> good s tok e.
Proof. unfold interesting, good. destruct (e_msg e); try discriminate; auto. Qed.

(* the core preservation lemma: every object of s' either satisfies WIa outright, or stems from an object of s
   with the same address whose watchers and interesting messages it inherits *)
Lemma WI_step s s' :
  WI s -> RI s' -> idk s s' ->
  (forall u a', get s' u = Some a' ->
     WIa s' a' \/
     exists a, get s u = Some a /\ a_tok a' = a_tok a /\ incl (a_watchers a') (a_watchers a) /\
               (forall e, In e (msgs a') -> interesting e = true -> In e (msgs a)) /\
               (forall e, In e (seq a') -> In e (seq a))) ->
  WI s'.
Proof.
  intros [_ HW] HR K H. split; [exact HR|]. intros u a' Hg. destruct (H u a' Hg) as [Hd|(a & Ha & Ht & Hw & Hm & Hq)]; [exact Hd|].
  destruct (HW u a Ha) as [W1 [W2 W3]]. split; [|split].
  - intros x Hx. rewrite Ht. apply W1. apply Hw. exact Hx.
  - intros e He. destruct (interesting e) eqn:Ei; [|apply good_plain; exact Ei].
    rewrite Ht. eapply good_idk; [exact K|]. apply W2. apply Hm; assumption.
  - intros e He. rewrite Ht. apply W3. apply Hq. exact He.
Qed.

Lemma RI_put s u a0 b : RI s -> get s u = Some a0 -> a_tok b = a_tok a0 -> RI (put s u b).
Proof.
  intros HR Hu Ht t v H. change (registry (put s u b)) with (registry s) in H. destruct (HR t v H) as (a & Ha & Hta).
  destruct (Nat.eq_dec u v) as [->|Hne].
  - exists b. split; [eapply get_put_same; exact Hu|]. rewrite Hu in Ha. inversion Ha; subst. congruence.
  - exists a. split; [rewrite get_put_other by assumption; exact Ha|exact Hta].
Qed.
Lemma idk_put s u a0 b : get s u = Some a0 -> a_tok b = a_tok a0 -> a_parent b = a_parent a0 -> idk s (put s u b).
Proof.
  intros Hu Ht Hp c ac Hc. destruct (Nat.eq_dec u c) as [->|Hne].
  - exists b. split; [eapply get_put_same; exact Hu|]. rewrite Hu in Hc. inversion Hc; subst. auto.
  - exists ac. split; [rewrite get_put_other by assumption; exact Hc|auto].
Qed.

(* replacing object u by b, where b keeps the address and parent and either inherits or justifies its content *)
Lemma WI_put s u a0 b :
  WI s -> get s u = Some a0 -> a_tok b = a_tok a0 -> a_parent b = a_parent a0 ->
  (forall x, In x (a_watchers b) -> In x (a_watchers a0) \/ In (OW x (a_tok a0)) tr) ->
  (forall e, In e (msgs b) -> In e (msgs a0) \/ good s (a_tok a0) e) ->
  (forall e, In e (seq b) -> In e (seq a0) \/ e_rcv e = a_tok a0) ->
  WI (put s u b).
Proof.
  intros HW Hu Ht Hp Hws Hms Hqs. pose proof (idk_put s u a0 b Hu Ht Hp) as K.
  split; [eapply RI_put; [apply HW|exact Hu|exact Ht]|]. destruct HW as [HR HW].
  intros v a' Hg. destruct (Nat.eq_dec u v) as [->|Hne].
  - rewrite (get_put_same s v b a0 Hu) in Hg. inversion Hg; subst a'. destruct (HW v a0 Hu) as [W1 [W2 W3]]. split; [|split].
    + intros x Hx. rewrite Ht. destruct (Hws x Hx) as [H|H]; [apply W1; exact H|exact H].
    + intros e He. rewrite Ht. eapply good_idk; [exact K|]. destruct (Hms e He) as [H|H]; [apply W2; exact H|exact H].
    + intros e He. rewrite Ht. destruct (Hqs e He) as [H|H]; [apply W3; exact H|exact H].
  - rewrite get_put_other in Hg by assumption. destruct (HW v a' Hg) as [W1 [W2 W3]]. split; [exact W1|]. split; [|exact W3].
    intros e He. eapply good_idk; [exact K|]. apply W2. exact He.
Qed.

Lemma WI_upd_actor s u f :
  (forall a, a_tok (f a) = a_tok a /\ a_parent (f a) = a_parent a /\ incl (a_watchers (f a)) (a_watchers a) /\
             (forall e, In e (msgs (f a)) -> In e (msgs a) \/ interesting e = false) /\
             (forall e, In e (seq (f a)) -> In e (seq a))) ->
  WI s -> WI (upd_actor s u f).
Proof.
  intros Hf HW. unfold upd_actor. destruct (get s u) as [a0|] eqn:E; [|exact HW].
  destruct (Hf a0) as (H1 & H2 & H3 & H4 & H5). eapply WI_put; eauto.
  intros e He. destruct (H4 e He) as [H|H]; [left; exact H|right; apply good_plain; exact H].
Qed.

(* a tactic for the many updates that do not touch the watcher table or the system queue *)
Ltac wp := intros; split; [reflexivity|split; [reflexivity|split; [apply incl_refl|split; [intros ? ?; left; assumption|intros ? Hq; exact Hq]]]].

Lemma msgs_push a e : msgs (w_sysq (a_sysq a ++ [e]) a) = msgs a ++ [e].
Proof. unfold msgs. cbn [a_inflight a_sysq w_sysq]. rewrite app_assoc. reflexivity. Qed.

Lemma WI_push_plain s u e : interesting e = false -> WI s -> WI (push_sys s u e).
Proof.
  intros Hi. unfold push_sys. apply WI_upd_actor. intros a. unfold interesting in Hi.
  destruct (e_msg e) eqn:Em; try discriminate; try (split; [reflexivity|split; [reflexivity|split; [apply incl_refl|split; [|intros ? Hq; exact Hq]]]]);
    try (intros e0 H0; left; exact H0);
    (intros e0 H0; rewrite msgs_push in H0; apply in_app_or in H0; destruct H0 as [H0|[H0|[]]]; [left; exact H0|right; subst e0; unfold interesting; rewrite Em; reflexivity]).
Qed.

Lemma WI_push_good s u a e : get s u = Some a -> good s (a_tok a) e -> WI s -> WI (push_sys s u e).
Proof.
  intros Hu Hg HW. destruct (interesting e) eqn:Ei; [|apply WI_push_plain; assumption].
  unfold push_sys, upd_actor. rewrite Hu. unfold interesting in Ei.
  destruct (e_msg e) eqn:Em; try discriminate;
    (eapply WI_put; [exact HW|exact Hu|reflexivity|reflexivity|intros x Hx; left; exact Hx| |intros e1 H1; left; exact H1];
     intros e0 H0; rewrite msgs_push in H0; apply in_app_or in H0; destruct H0 as [H0|[H0|[]]]; [left; exact H0|right; subst e0; exact Hg]).
Qed.

Lemma WI_deliver_plain s t snd m :
  m <> SWatch -> (forall w, m <> STerminatedOf w) -> WI s -> WI (deliver_sys s t snd m).
Proof.
  intros H1 H2 HW. unfold deliver_sys. destruct (lookup t (registry s)).
  - apply WI_push_plain; [|exact HW]. unfold interesting. cbn [e_msg mk_env]. destruct m; try reflexivity; [exfalso; eapply H2; reflexivity|contradiction].
  - destruct m; try exact HW. contradiction.
Qed.

Lemma WI_deliver_watch s t snd : In (OW snd t) tr -> WI s -> WI (deliver_sys s t snd SWatch).
Proof.
  intros Hin HW. unfold deliver_sys. destruct (lookup t (registry s)) as [u|] eqn:El.
  - destruct HW as [HR HW0]. destruct (HR t u El) as (a & Ha & Ht).
    eapply WI_push_good; [exact Ha| |split; assumption]. unfold good. cbn [e_msg mk_env e_snd]. rewrite Ht. exact Hin.
  - destruct (lookup snd (registry s)) as [w|] eqn:Ew; [|exact HW].
    destruct HW as [HR HW0]. destruct (HR snd w Ew) as (a & Ha & Ht).
    eapply WI_push_good; [exact Ha| |split; assumption]. unfold good. cbn [e_msg mk_env]. right. left. rewrite Ht. exact Hin.
Qed.

Lemma WI_deliver_term s x self : x = self \/ just s x self -> WI s -> WI (deliver_sys s x self (STerminatedOf self)).
Proof.
  intros Hj HW. unfold deliver_sys. destruct (lookup x (registry s)) as [u|] eqn:El; [|exact HW].
  destruct HW as [HR HW0]. destruct (HR x u El) as (a & Ha & Ht).
  eapply WI_push_good; [exact Ha| |split; assumption]. unfold good. cbn [e_msg mk_env]. rewrite Ht.
  destruct Hj as [->|Hj]; [left; reflexivity|right; exact Hj].
Qed.

Lemma WI_to_sub s : WI s -> WI (to_sub s).
Proof.
  intros HW. unfold to_sub. destruct (lookup rSub (registry s)) as [u|] eqn:El; [|exact HW].
  pose proof HW as [HR _]. destruct (HR rSub u El) as (a & Ha & Ht). unfold upd_actor. rewrite Ha.
  eapply WI_put; [exact HW|exact Ha|reflexivity|reflexivity|intros x Hx; left; exact Hx|intros e He; left; exact He|].
  intros e He. unfold seq, inflight_user in *. cbn [a_inflight a_userq w_userq] in He. rewrite app_assoc in He.
  apply in_app_or in He. destruct He as [He|[He|[]]]; [left; exact He|right; subst e; cbn [e_rcv mk_env]; congruence].
Qed.
Lemma WI_abyss_user s snd rcv m s' o : abyss_user s snd rcv m = (s', o) -> WI s -> WI s'.
Proof.
  unfold abyss_user. destruct m; intros H; inversion H; subst; auto; destruct (rcv =? rSub); auto; apply WI_to_sub.
Qed.
Lemma WI_deliver_user s t snd m s' o : deliver_user s t snd m = (s', o) -> WI s -> WI s'.
Proof.
  unfold deliver_user. destruct (lookup t (registry s)) as [u|] eqn:El; [|apply WI_abyss_user].
  destruct (get s u) as [a|] eqn:E; [|apply WI_abyss_user].
  intros H HW; inversion H; subst. pose proof HW as [HR _]. destruct (HR t u El) as (a1 & Ha1 & Ht). rewrite E in Ha1. inversion Ha1; subst a1.
  eapply WI_put; [exact HW|exact E|reflexivity|reflexivity|intros x Hx; left; exact Hx|intros e He; left; exact He|].
  intros e He. unfold seq, inflight_user in *. cbn [a_inflight a_userq w_userq] in He. rewrite app_assoc in He.
  apply in_app_or in He. destruct He as [He|[He|[]]]; [left; exact He|right; subst e; cbn [e_rcv mk_env]; congruence].
Qed.
Lemma WI_terminate s self t g s' o : terminate s self t g = (s', o) -> WI s -> WI s'.
Proof.
  unfold terminate. destruct g; [apply WI_deliver_user|]. intros H; inversion H; subst. apply WI_deliver_plain; [discriminate|intros w; discriminate].
Qed.
Lemma WI_terminate_all cs : forall s self g s' o, terminate_all s self cs g = (s', o) -> WI s -> WI s'.
Proof.
  induction cs as [|c rest IH]; intros s self g s' o; cbn [terminate_all].
  - intros H; inversion H; subst. auto.
  - destruct (terminate s self c g) as [s1 o1] eqn:E1. destruct (terminate_all s1 self rest g) as [s2 o2] eqn:E2.
    intros H HW; inversion H; subst. eapply IH; [exact E2|]. eapply WI_terminate; [exact E1|exact HW].
Qed.
Lemma WI_restart_all cs : forall s self, WI s -> WI (restart_all s self cs).
Proof.
  induction cs as [|c rest IH]; intros s self HW; cbn [restart_all]; [exact HW|].
  apply IH. apply WI_deliver_plain; [discriminate|intros w; discriminate|exact HW].
Qed.

Lemma idk_deliver_sys s t snd m : idk s (deliver_sys s t snd m).
Proof. apply idk_of_mono, keep_mono, keep_deliver_sys. Qed.

Lemma WI_notify_all ws : forall s self, (forall w, In w ws -> w = self \/ just s w self) -> WI s -> WI (notify_all s self ws).
Proof.
  induction ws as [|w rest IH]; intros s self Hj HW; cbn [notify_all]; [exact HW|].
  apply IH.
  - intros w' Hw'. destruct (Hj w' (or_intror Hw')) as [H|H]; [left; exact H|right]. eapply just_idk; [apply idk_deliver_sys|exact H].
  - apply WI_deliver_term; [apply Hj; left; reflexivity|exact HW].
Qed.

Lemma WI_same s s' : actors s' = actors s -> registry s' = registry s -> WI s -> WI s'.
Proof.
  intros Ea Er [HR HW]. assert (G : forall u, get s' u = get s u) by (intros u; unfold get; rewrite Ea; reflexivity).
  split.
  - intros t u H. rewrite Er in H. rewrite G. apply HR. exact H.
  - intros u a Hg. rewrite G in Hg. destruct (HW u a Hg) as [W1 [W2 W3]]. split; [exact W1|]. split; [|exact W3].
    intros e He. eapply good_idk; [|apply W2; exact He]. intros c ac Hc. exists ac. rewrite G. auto.
Qed.

Lemma WI_spawn s u self t r s' o p : spawn s u self t r = (s', o, p) -> WI s -> WI s'.
Proof.
  intros E HW. pose proof (ext_spawn _ _ _ _ _ _ _ _ E) as X.
  revert E. unfold spawn. destruct (provide s t) as [s1 inst] eqn:Ep.
  assert (W1 : WI s1). { unfold provide in Ep. inversion Ep; subst. eapply WI_same; [| |exact HW]; reflexivity. }
  assert (Wapp : forall x, a_watchers x = [] -> msgs x = [] -> seq x = [] -> WI (set_actors s1 (actors s1 ++ [x]))).
  { intros x Hx1 Hx2 Hx3. set (sx := set_actors s1 (actors s1 ++ [x])). destruct W1 as [HR1 HW1]. split.
    - intros t0 v H. change (registry sx) with (registry s1) in H. destruct (HR1 t0 v H) as (a & Ha & Hta). exists a. split; [|exact Hta].
      unfold get, sx, set_actors; cbn [actors]. rewrite nth_error_app1; [exact Ha|]. apply nth_error_Some. unfold get in Ha. congruence.
    - intros v a Hg. unfold get, sx, set_actors in Hg; cbn [actors] in Hg.
      destruct (Nat.lt_ge_cases v (length (actors s1))) as [Hlt|Hge].
      + rewrite nth_error_app1 in Hg by exact Hlt. destruct (HW1 v a Hg) as [A1 [A2 A3]]. split; [exact A1|]. split; [|exact A3].
        intros e He. eapply good_idk; [|apply A2; exact He]. intros c ac Hc. exists ac. split; [|auto].
        unfold get, sx, set_actors; cbn [actors]. rewrite nth_error_app1; [exact Hc|]. apply nth_error_Some. unfold get in Hc. congruence.
      + rewrite nth_error_app2 in Hg by exact Hge. destruct (v - length (actors s1))%nat as [|k]; cbn in Hg.
        * inversion Hg; subst a. unfold WIa. rewrite Hx1, Hx2, Hx3. split; [intros y []|split; intros e []].
        * destruct k; discriminate. }
  set (s2 := set_actors s1 (actors s1 ++ [new_actor t self r inst])).
  assert (W2 : WI s2) by (apply Wapp; reflexivity).
  change (registry s2) with (registry s1) in *. destruct (lookup t (registry s1)).
  - intros H; inversion H; subst. apply Wapp; reflexivity.
  - set (s5 := deliver_sys _ t self SLaunch).
    assert (W5 : WI s5).
    { unfold s5. apply WI_deliver_plain; [discriminate|intros w; discriminate|].
    apply WI_upd_actor; [wp|]. apply (WI_step s2); [exact W2| |intros c ac Hc; exists ac; auto|].
    + intros t0 v H0. cbn [registry set_registry set_key lookup] in H0. destruct (t0 =? t) eqn:Et.
      * inversion H0; subst v. apply Z.eqb_eq in Et. subst t0. exists (new_actor t self r inst). split; [|reflexivity].
        unfold get, s2, set_actors, set_registry; cbn [actors]. rewrite nth_error_app2 by apply Nat.le_refl. rewrite Nat.sub_diag. reflexivity.
      * destruct W2 as [HR2 _]. apply HR2. eapply lookup_remove_key. exact H0.
    + intros v a' Hg. right. exists a'. split; [exact Hg|]. split; [reflexivity|]. split; [apply incl_refl|]. split; auto. }
    unfold stop_if_parent_gone. destruct (get s5 u) as [pa|]; [|intros H; inversion H; subst; exact W5].
    destruct (not_alive (a_st pa)); [|intros H; inversion H; subst; exact W5].
    destruct (terminate s5 self t (a_graceful pa)) as [s6 o6] eqn:E6. intros H; inversion H; subst. eapply WI_terminate; [exact E6|exact W5].
Qed.

Lemma WI_escalate s u r s' o p : escalate s u r = (s', o, p) -> WI s -> WI s'.
Proof.
  unfold escalate. destruct (get s u) as [a|]; [|intros H; inversion H; subst; auto].
  destruct (a_parent a =? rNone); intros H HW; inversion H; subst.
  - eapply WI_same; [| |exact HW]; reflexivity.
  - apply WI_deliver_plain; [discriminate|intros w; discriminate|exact HW].
Qed.

Lemma WI_report_abnormal s u s' o p : report_abnormal roles s u = (s', o, p) -> WI s -> WI s'.
Proof.
  unfold report_abnormal. destruct (get s u) as [a|]; [|intros H; inversion H; subst; auto].
  destruct (a_st a); try (intros H0; inversion H0; subst; auto; fail).
  intros H HW. eapply WI_escalate; [exact H|]. apply WI_deliver_plain; [discriminate|intros w; discriminate|].
  apply WI_upd_actor; [wp|exact HW].
Qed.

Lemma WI_send_each ts : forall s self n k s' o, send_each s self ts n k = (s', o) -> WI s -> WI s'.
Proof.
  induction ts as [|t rest IH]; intros s self n k s' o; cbn [send_each].
  - intros H; inversion H; subst. auto.
  - destruct (deliver_user s t self (UProbe n k)) as [s1 o1] eqn:E1.
    destruct (send_each s1 self rest n k) as [s2 o2] eqn:E2. intros H HW; inversion H; subst.
    eapply IH; [exact E2|]. eapply WI_deliver_user; [exact E1|exact HW].
Qed.

Lemma WI_next_serial s : WI s -> WI (fst (next_serial s)).
Proof. apply WI_same; reflexivity. Qed.

Lemma incl_app_l {A} (a b c : list A) : incl (a ++ b) c -> incl a c.
Proof. intros H x Hx. apply H. apply in_or_app. left. exact Hx. Qed.
Lemma incl_app_r {A} (a b c : list A) : incl (a ++ b) c -> incl b c.
Proof. intros H x Hx. apply H. apply in_or_app. right. exact Hx. Qed.
Lemma incl_cons_tl {A} (x : A) a c : incl (x :: a) c -> incl a c.
Proof. intros H y Hy. apply H. right. exact Hy. Qed.

Lemma WI_do_action s u snd act s' o p : do_action roles s u snd act = (s', o, p) -> incl o tr -> WI s -> WI s'.
Proof.
  unfold do_action. destruct (get s u) as [a|]; [|intros H; inversion H; subst; auto].
  destruct act.
  - destruct (next_serial s) as [s1 k] eqn:En. destruct (deliver_user s1 t rNone (UProbe n k)) as [s2 o2] eqn:E.
    intros H _ HW; inversion H; subst. eapply WI_deliver_user; [exact E|]. change s1 with (fst (s1, k)). rewrite <- En. apply WI_next_serial. exact HW.
  - destruct (next_serial s) as [s1 k] eqn:En. destruct (deliver_user s1 t (a_tok a) (UProbe n k)) as [s2 o2] eqn:E.
    intros H _ HW; inversion H; subst. eapply WI_deliver_user; [exact E|]. change s1 with (fst (s1, k)). rewrite <- En. apply WI_next_serial. exact HW.
  - destruct (next_serial s) as [s1 k] eqn:En. destruct (deliver_user s1 snd (a_tok a) (UProbe n k)) as [s2 o2] eqn:E.
    intros H _ HW; inversion H; subst. eapply WI_deliver_user; [exact E|]. change s1 with (fst (s1, k)). rewrite <- En. apply WI_next_serial. exact HW.
  - destruct (next_serial s) as [s1 k] eqn:En. destruct (send_each s1 (a_tok a) (a_children a) n k) as [s2 o2] eqn:E.
    intros H _ HW; inversion H; subst. eapply WI_send_each; [exact E|]. change s1 with (fst (s1, k)). rewrite <- En. apply WI_next_serial. exact HW.
  - destruct (spawn s u (a_tok a) t r) as [[s1 o1] p1] eqn:E. intros H _ HW; inversion H; subst. eapply WI_spawn; [exact E|exact HW].
  - destruct (terminate s (a_tok a) t g) as [s1 o1] eqn:E. intros H _ HW; inversion H; subst. eapply WI_terminate; [exact E|exact HW].
  - intros H Hi HW; inversion H; subst. apply WI_deliver_watch; [apply Hi; left; reflexivity|exact HW].
  - intros H _ HW; inversion H; subst. apply WI_deliver_plain; [discriminate|intros w; discriminate|exact HW].
  - destruct (report_abnormal roles s u) as [[s1 o1] p1] eqn:E. intros H _ HW; inversion H; subst. eapply WI_report_abnormal; [exact E|exact HW].
  - intros H _ HW; inversion H; subst. exact HW.
Qed.

Lemma bind_WI (r : R) f s3 o3 p3 :
  (forall s1 o1 p1, r = (s1, o1, p1) -> incl o1 tr -> WI s1) ->
  (forall s1 o1 s2 o2 p2, r = (s1, o1, false) -> WI s1 -> f s1 = (s2, o2, p2) -> incl o2 tr -> WI s2) ->
  r >>= f = (s3, o3, p3) -> incl o3 tr -> WI s3.
Proof.
  intros H1 H2. destruct r as [[s1 o1] p1]. unfold bind. destruct p1.
  - intros H Hi; inversion H; subst. eapply H1; [reflexivity|exact Hi].
  - destruct (f s1) as [[s2 o2] p2] eqn:E. intros H Hi; inversion H; subst.
    eapply H2; [reflexivity|eapply H1; [reflexivity|eapply incl_app_l; exact Hi]|exact E|eapply incl_app_r; exact Hi].
Qed.

Lemma WI_do_actions acts : forall s u snd s' o p, do_actions roles s u snd acts = (s', o, p) -> incl o tr -> WI s -> WI s'.
Proof.
  induction acts as [|act rest IH]; intros s u snd s' o p; cbn [do_actions].
  - intros H _ HW; inversion H; subst. exact HW.
  - intros H Hi HW. revert H Hi. apply bind_WI.
    + intros s1 o1 p1 E Hi. eapply WI_do_action; [exact E|exact Hi|exact HW].
    + intros s1 o1 s2 o2 p2 _ W1 E Hi. eapply IH; [exact E|exact Hi|exact W1].
Qed.

Lemma WI_handle_q q s u t k snd s' o p : handle_q roles q s u t k snd = (s', o, p) -> incl o tr -> WI s -> WI s'.
Proof.
  unfold handle_q. destruct (get s u) as [a|]; [|intros H; inversion H; subst; auto].
  destruct q; [intros H; inversion H; subst; auto|].
  destruct (do_actions roles s u snd (find_rule (rules (role_of roles a)) t (a_inst a))) as [[s1 o1] p1] eqn:E.
  intros H Hi HW; inversion H; subst. eapply WI_do_actions; [exact E|eapply incl_cons_tl; exact Hi|exact HW].
Qed.
Lemma WI_handle s u t k snd s' o p : handle roles s u t k snd = (s', o, p) -> incl o tr -> WI s -> WI s'.
Proof. unfold handle. destruct (get s u) as [a|]; [apply WI_handle_q|intros H; inversion H; subst; auto]. Qed.

Lemma WI_set_registry s r' :
  (forall t v, lookup t r' = Some v -> lookup t (registry s) = Some v) -> WI s -> WI (set_registry s r').
Proof.
  intros Hr [HR HW]. split.
  - intros t v H. apply (HR t v). apply Hr. exact H.
  - intros u a Hg. destruct (HW u a Hg) as [W1 [W2 W3]]. split; [exact W1|]. split; [|exact W3].
    intros e He. eapply good_idk; [|apply W2; exact He]. intros c ac Hc. exists ac. auto.
Qed.

Lemma idk_get s s' u a : idk s s' -> get s u = Some a -> exists a', get s' u = Some a' /\ a_tok a' = a_tok a /\ a_parent a' = a_parent a.
Proof. intros K H. exact (K u a H). Qed.

Lemma WI_try_terminated s u snd s' o p : try_terminated roles s u snd = (s', o, p) -> incl o tr -> WI s -> WI s'.
Proof.
  unfold try_terminated. destruct (get s u) as [a|] eqn:Ea; [|intros H; inversion H; subst; auto].
  destruct (a_children a); [|intros H; inversion H; subst; auto].
  destruct (a_st a); try (intros H; inversion H; subst; auto; fail).
  intros H Hi HW. pose proof HW as [_ HW0]. destruct (HW0 u a Ea) as [Wat _].
  set (s1 := upd_actor s u (w_st Terminated)) in *.
  assert (K1 : idk s s1) by (unfold s1, upd_actor; rewrite Ea; eapply idk_put; [exact Ea|reflexivity|reflexivity]).
  revert H Hi. apply bind_WI.
  - intros sa oa pa E Hia. eapply WI_handle; [exact E|exact Hia|]. unfold s1. apply WI_upd_actor; [wp|exact HW].
  - intros s2 o2 sb ob pb E2 W2 E Hib.
    assert (K2 : idk s1 s2) by (apply idk_of_ext; eapply ext_handle; exact E2).
    set (s3 := set_registry s2 (remove_key (a_tok a) (registry s2))) in *.
    assert (W3 : WI s3) by (apply WI_set_registry; [intros t v Hl; eapply lookup_remove_key; exact Hl|exact W2]).
    set (ws := filter (fun w => negb (w =? a_parent a)) (a_watchers a)) in *.
    set (s4 := notify_all s3 (a_tok a) ws) in *.
    assert (W4 : WI s4).
    { apply WI_notify_all; [|exact W3]. intros w Hw. right. left. apply Wat. unfold ws in Hw. apply filter_In in Hw. apply Hw. }
    assert (K4 : idk s s4).
    { eapply idk_trans; [exact K1|]. eapply idk_trans; [exact K2|]. eapply idk_trans; [|apply idk_of_mono, keep_mono, keep_notify_all].
      intros c ac Hc. exists ac. auto. }
    destruct (a_parent a =? rNone).
    + inversion E; subst. eapply WI_same; [| |exact W4]; reflexivity.
    + inversion E; subst. apply WI_deliver_term; [|exact W4]. right. right.
      destruct (idk_get _ _ _ _ K4 Ea) as (a' & Ha' & T' & P'). exists u, a'. auto.
Qed.

Lemma WI_provide s t : WI s -> WI (fst (provide s t)).
Proof. apply WI_same; reflexivity. Qed.

Lemma WI_start_instance s u self parent s' o p : start_instance roles s u self parent = (s', o, p) -> incl o tr -> WI s -> WI s'.
Proof.
  unfold start_instance. destruct (handle roles s u TRD 0%nat self) as [[s1 o1] p1] eqn:E1.
  destruct (handle roles s1 u TL 0%nat parent) as [[s2 o2] p2] eqn:E2. intros H Hi HW; inversion H; subst.
  assert (W1 : WI s1) by (eapply WI_handle; [exact E1|eapply incl_app_l; exact Hi|exact HW]).
  assert (W2 : WI s2) by (eapply WI_handle; [exact E2|eapply incl_app_r; exact Hi|exact W1]).
  destruct p2; [exact W2|apply WI_upd_actor; [wp|exact W2]].
Qed.

Lemma WI_try_restarted s u snd s' o p : try_restarted roles s u snd = (s', o, p) -> incl o tr -> WI s -> WI s'.
Proof.
  unfold try_restarted. destruct (get s u) as [a|] eqn:Ea; [|intros H; inversion H; subst; auto].
  destruct (a_children a); [|intros H; inversion H; subst; auto].
  destruct (a_st a); try (intros H; inversion H; subst; auto; fail).
  destruct (provide s (a_tok a)) as [s0 inst] eqn:Ep.
  intros H Hi HW. assert (W0 : WI s0) by (change s0 with (fst (s0, inst)); rewrite <- Ep; apply WI_provide; exact HW).
  revert H Hi. apply bind_WI.
  - intros sa oa pa E Hia. eapply WI_handle; [exact E|exact Hia|exact W0].
  - intros s1 o1 sb ob pb _ W1. apply bind_WI.
    + intros sa oa pa E Hia. eapply WI_handle; [exact E|exact Hia|exact W1].
    + intros s2 o2 sc oc pc _ W2.
      intros E Hi3. eapply WI_start_instance; [exact E|exact Hi3|].
      apply WI_deliver_plain; [discriminate|intros w; discriminate|].
      apply WI_upd_actor; [wp|]. exact W2.
Qed.

Lemma WI_apply_directive s u r d snd s' o p : apply_directive roles s u r d snd = (s', o, p) -> incl o tr -> WI s -> WI s'.
Proof.
  unfold apply_directive. destruct (get s u) as [a|]; [|intros H; inversion H; subst; auto].
  destruct d.
  - intros H _ HW; inversion H; subst. apply WI_deliver_plain; [discriminate|intros w; discriminate|exact HW].
  - destruct (terminate s (a_tok a) (ar_vref r) false) as [s1 o1] eqn:E1.
    destruct (try_terminated roles s1 u snd) as [[s2 o2] p2] eqn:E2. intros H Hi HW; inversion H; subst.
    eapply WI_try_terminated; [exact E2| |eapply WI_terminate; [exact E1|exact HW]].
    eapply incl_app_r. eapply incl_cons_tl. exact Hi.
  - intros H _ HW; inversion H; subst. apply WI_deliver_plain; [discriminate|intros w; discriminate|exact HW].
  - destruct (escalate s u r) as [[s1 o1] p1] eqn:E. intros H _ HW; inversion H; subst. eapply WI_escalate; [exact E|exact HW].
  - intros H _ HW; inversion H; subst. apply WI_restart_all. exact HW.
Qed.

Lemma WI_on_accident s u r snd s' o p : on_accident roles s u r snd = (s', o, p) -> incl o tr -> WI s -> WI s'.
Proof.
  unfold on_accident. destruct (get s u) as [a|]; [|intros H; inversion H; subst; auto].
  destruct (ar_strategy r); [apply WI_apply_directive|].
  destruct (sup (role_of roles a)); [intros H _; eapply WI_escalate; exact H|apply WI_apply_directive].
Qed.

Lemma in_insert_sorted k l x : In x (insert_sorted k l) -> x = k \/ In x l.
Proof.
  induction l as [|y t IH]; cbn [insert_sorted].
  - intros [H|[]]; left; auto.
  - destruct (k <? y); [intros [H|H]; [left; auto|right; exact H]|].
    destruct (k =? y); [intros H; right; exact H|]. intros [H|H]; [right; left; exact H|].
    destruct (IH H) as [H1|H1]; [left; exact H1|right; right; exact H1].
Qed.
Lemma incl_remove_ref k l : incl (remove_ref k l) l.
Proof.
  induction l as [|y t IH]; cbn [remove_ref]; [apply incl_refl|].
  destruct (k =? y); [apply incl_tl; exact IH|]. intros x [H|H]; [left; exact H|right; apply IH; exact H].
Qed.

Lemma WI_drop_child s u w : WI s -> WI (drop_child s u w).
Proof. unfold drop_child. destruct (lookup w (registry s)); [auto|apply WI_upd_actor; wp]. Qed.

Lemma WI_process_sys s u e a s' o p :
  get s u = Some a -> good s (a_tok a) e -> process_sys roles s u e = (s', o, p) -> incl o tr -> WI s -> WI s'.
Proof.
  intros Ea Hg. unfold process_sys. rewrite Ea.
  destruct (match a_st a, e_msg e with Terminated, SWatch => false | Terminated, _ => true | _, _ => false end);
    [intros H; inversion H; subst; auto|].
  destruct (e_msg e) as [| |g|who| |r| | | | |] eqn:Em.
  - (* SLaunch *) intros H Hi HW. revert H Hi. apply bind_WI.
    + intros s1 o1 p1 E Hi1. eapply WI_handle; [exact E|exact Hi1|exact HW].
    + intros s1 o1 s2 o2 p2 _ W1 E _. inversion E; subst. apply WI_upd_actor; [wp|exact W1].
  - (* SRestarted *) apply WI_handle.
  - (* STerminate *)
    assert (HT : forall s0, WI s0 ->
       handle roles s0 u TT 0%nat (e_snd e) >>= (fun s3 => match get s3 u with
         | None => ok s3 []
         | Some a3 => let '(s4, o4) := terminate_all s3 (a_tok a3) (a_children a3) (g || a_graceful a3) in
                      let '(s5, o5, p) := try_terminated roles s4 u (e_snd e) in (s5, o4 ++ o5, p) end) = (s', o, p) ->
       incl o tr -> WI s').
    { intros s0 W0. apply bind_WI.
      - intros s1 o1 p1 E Hi1. eapply WI_handle; [exact E|exact Hi1|exact W0].
      - intros s1 o1 s2 o2 p2 _ W1. destruct (get s1 u) as [a3|]; [|intros H _; inversion H; subst; exact W1].
        destruct (terminate_all s1 (a_tok a3) (a_children a3) (g || a_graceful a3)) as [s4 o4] eqn:E4.
        destruct (try_terminated roles s4 u (e_snd e)) as [[s5 o5] p5] eqn:E5. intros H Hi2; inversion H; subst.
        eapply WI_try_terminated; [exact E5|eapply incl_app_r; exact Hi2|eapply WI_terminate_all; [exact E4|exact W1]]. }
    destruct (a_st a); try (intros H; inversion H; subst; auto; fail);
      (intros H Hi HW; eapply HT; [|exact H|exact Hi];
       apply WI_deliver_plain; [discriminate|intros w; discriminate|]; apply WI_upd_actor; [wp|exact HW]).
  - (* STerminatedOf *) intros H Hi HW. revert H Hi. apply bind_WI.
    + intros s1 o1 p1 E Hi1. eapply WI_handle; [exact E|exact Hi1|apply WI_drop_child; exact HW].
    + intros s1 o1 s2 o2 p2 _ W1. destruct (get s1 u) as [a2|]; [|intros H _; inversion H; subst; exact W1].
      destruct (a_st a2); try (intros H _; inversion H; subst; exact W1).
      * intros H Hi2. eapply WI_try_restarted; [exact H|exact Hi2|exact W1].
      * intros H Hi2. eapply WI_try_terminated; [exact H|exact Hi2|exact W1].
  - (* SRestart *) destruct (a_st a); try (intros H; inversion H; subst; auto; fail).
    intros H Hi HW. revert H Hi. apply bind_WI.
    + intros s1 o1 p1 E Hi1. eapply WI_handle; [exact E|exact Hi1|].
      apply WI_deliver_plain; [discriminate|intros w; discriminate|]. apply WI_upd_actor; [wp|exact HW].
    + intros s1 o1 s2 o2 p2 _ W1. destruct (get s1 u) as [a2|]; [|intros H _; inversion H; subst; exact W1].
      destruct (terminate_all s1 (a_tok a2) (a_children a2) false) as [s3 o3] eqn:E3.
      destruct (try_restarted roles s3 u (e_snd e)) as [[s4 o4] p4] eqn:E4. intros H Hi2; inversion H; subst.
      eapply WI_try_restarted; [exact E4|eapply incl_app_r; exact Hi2|eapply WI_terminate_all; [exact E3|exact W1]].
  - (* SAccident *) apply WI_on_accident.
  - (* SWatch *) unfold good in Hg. rewrite Em in Hg.
    destruct (e_snd e =? a_parent a); [intros H; inversion H; subst; auto|].
    destruct (st_ge_terminating (a_st a)).
    + intros H _ HW; inversion H; subst. apply WI_deliver_term; [|exact HW]. right. left. exact Hg.
    + intros H _ HW; inversion H; subst. unfold upd_actor. rewrite Ea.
      eapply WI_put; [exact HW|exact Ea|reflexivity|reflexivity| |intros e0 H0; left; exact H0|intros e1 H1; left; exact H1].
      cbn [a_watchers w_watchers]. intros x Hx. destruct (in_insert_sorted _ _ _ Hx) as [->|Hx']; [right; exact Hg|left; exact Hx'].
  - (* SUnwatch *) intros H _ HW; inversion H; subst. apply WI_upd_actor; [|exact HW].
    intros b. split; [reflexivity|split; [reflexivity|split; [cbn [a_watchers w_watchers]; apply incl_remove_ref|split; [intros e0 H0; left; exact H0|intros e1 H1; exact H1]]]].
  - intros H; inversion H; subst; auto.
  - intros H; inversion H; subst; auto.
  - (* SResumeReq *) destruct (a_st a); intros H _ HW; inversion H; subst; try exact HW.
    apply WI_deliver_plain; [discriminate|intros w; discriminate|exact HW].
Qed.

Lemma WI_process_user s u e s' o p : process_user roles s u e = (s', o, p) -> incl o tr -> WI s -> WI s'.
Proof.
  unfold process_user. destruct (get s u) as [a|]; [|intros H; inversion H; subst; auto].
  destruct (st_ge_terminating (a_st a)).
  - destruct (abyss_user s (e_snd e) (e_rcv e) (e_msg e)) as [s1 o1] eqn:E. intros H _ HW; inversion H; subst.
    eapply WI_abyss_user; [exact E|exact HW].
  - destruct (e_msg e).
    + apply WI_handle_q.
    + intros H _ HW; inversion H; subst. apply WI_deliver_plain; [discriminate|intros w; discriminate|]. apply WI_upd_actor; [wp|exact HW].
    + intros H; inversion H; subst; auto.
Qed.

Lemma WI_run_actor s u s' o : run_actor roles s u = Some (s', o) -> incl o tr -> WI s -> WI s'.
Proof.
  unfold run_actor. destruct (get s u) as [a|] eqn:Ea; [|discriminate].
  destruct (a_inflight a) as [m|] eqn:Em; [|discriminate].
  intros H Hi HW.
  set (s0 := upd_actor s u (w_inflight None)) in *.
  assert (W0 : WI s0).
  { unfold s0. apply WI_upd_actor; [|exact HW]. intros b. split; [reflexivity|split; [reflexivity|split; [apply incl_refl|split]]].
    - intros e0 H0. left. unfold msgs in *. cbn [a_inflight a_sysq w_inflight] in H0. apply in_or_app. right. exact H0.
    - intros e0 H0. unfold seq, inflight_user in *. cbn [a_inflight a_userq w_inflight] in H0. apply in_or_app. right. exact H0. }
  assert (Ea0 : get s0 u = Some (w_inflight None a)) by (apply get_upd_actor_same; exact Ea).
  assert (K0 : idk s s0) by (unfold s0, upd_actor; rewrite Ea; eapply idk_put; [exact Ea|reflexivity|reflexivity]).
  assert (P : forall s1 o1 p1, (match m with MS e => process_sys roles s0 u e | MU e => process_user roles s0 u e end) = (s1, o1, p1) ->
              incl o1 tr -> WI s1).
  { intros s1 o1 p1 E Hi1. destruct m as [e|e].
    - eapply WI_process_sys; [exact Ea0| |exact E|exact Hi1|exact W0]. cbn [a_tok w_inflight].
      eapply good_idk; [exact K0|]. destruct HW as [_ HW0]. destruct (HW0 u a Ea) as [_ [W2 _]]. apply W2.
      unfold msgs. rewrite Em. left. reflexivity.
    - eapply WI_process_user; [exact E|exact Hi1|exact W0]. }
  destruct (match m with MS e => process_sys roles s0 u e | MU e => process_user roles s0 u e end) as [[s1 o1] p1] eqn:E.
  destruct p1.
  - destruct (crashed s1).
    + inversion H; subst. eapply P; [reflexivity|exact Hi].
    + destruct (report_abnormal roles s1 u) as [[s2 o2] p2] eqn:E2. inversion H; subst.
      eapply WI_report_abnormal; [exact E2|]. eapply P; [reflexivity|eapply incl_app_l; exact Hi].
  - inversion H; subst. eapply P; [reflexivity|exact Hi].
Qed.

Lemma msgs_pop1 a : msgs (pop1 a) = msgs a.
Proof.
  unfold pop1, msgs. destruct (a_inflight a) as [m|] eqn:Ei; [rewrite Ei; reflexivity|].
  destruct (a_sysq a) as [|e t] eqn:Es.
  - destruct (a_susp a); [rewrite Ei, Es; reflexivity|]. destruct (a_userq a); [rewrite Ei, Es; reflexivity|].
    cbn [a_inflight a_sysq w_inflight w_userq]. rewrite Es. reflexivity.
  - cbn [a_inflight a_sysq w_inflight w_sysq]. reflexivity.
Qed.
Lemma pop1_watchers a : a_watchers (pop1 a) = a_watchers a.
Proof.
  unfold pop1. destruct (a_inflight a); [reflexivity|]. destruct (a_sysq a); [|reflexivity].
  destruct (a_susp a); [reflexivity|]. destruct (a_userq a); reflexivity.
Qed.

Lemma get_normalize s u : get (normalize s) u = option_map pop1 (get s u).
Proof. unfold get, normalize, set_actors; cbn [actors]. apply nth_error_map. Qed.

Lemma WI_normalize s : WI s -> WI (normalize s).
Proof.
  intros HW. apply (WI_step s); [exact HW| | |].
  - destruct HW as [HR _]. intros t v H. change (registry (normalize s)) with (registry s) in H.
    destruct (HR t v H) as (a & Ha & Ht). exists (pop1 a). rewrite get_normalize, Ha. split; [reflexivity|]. destruct (pop1_id a) as (I1 & _). congruence.
  - intros c ac Hc. exists (pop1 ac). rewrite get_normalize, Hc. destruct (pop1_id ac) as (I1 & I2 & _). auto.
  - intros v a' Hg. rewrite get_normalize in Hg. destruct (get s v) as [a|] eqn:Ea; [|discriminate]. inversion Hg; subst a'.
    right. exists a. split; [reflexivity|]. destruct (pop1_id a) as (I1 & _). split; [exact I1|].
    split; [rewrite pop1_watchers; apply incl_refl|]. split; [intros e He _; rewrite msgs_pop1 in He; exact He|intros e He; rewrite seq_pop1 in He; exact He].
Qed.

Theorem kstep_WI s l s' o : kstep roles s l = Some (s', o) -> incl o tr -> WI s -> WI s'.
Proof.
  destruct l; cbn [kstep].
  - destruct (run_actor roles s (Z.to_nat u)) as [[s1 o1]|] eqn:E; [|discriminate]. intros H Hi HW; inversion H; subst.
    apply WI_normalize. eapply WI_run_actor; [exact E|exact Hi|exact HW].
  - destruct (next_serial s) as [s1 k] eqn:En. destruct (deliver_user s1 t rNone (UProbe n k)) as [s2 o2] eqn:E.
    intros H _ HW; inversion H; subst. apply WI_normalize. eapply WI_deliver_user; [exact E|].
    change s1 with (fst (s1, k)). rewrite <- En. apply WI_next_serial. exact HW.
  - destruct (next_serial s) as [s1 k] eqn:En. destruct (deliver_user s1 t rGuard (UProbe n k)) as [s2 o2] eqn:E.
    intros H _ HW; inversion H; subst. apply WI_normalize. eapply WI_deliver_user; [exact E|].
    change s1 with (fst (s1, k)). rewrite <- En. apply WI_next_serial. exact HW.
  - destruct (terminate s rGuard t g) as [s1 o1] eqn:E. intros H _ HW; inversion H; subst.
    apply WI_normalize. eapply WI_terminate; [exact E|exact HW].
  - destruct (spawn s guard_uid rGuard t r) as [[s1 o1] p] eqn:E. intros H _ HW; inversion H; subst.
    apply WI_normalize. eapply WI_spawn; [exact E|exact HW].
  - destruct (terminate s rGuard rGuard g) as [s1 o1] eqn:E. intros H _ HW; inversion H; subst.
    apply WI_normalize. eapply WI_terminate; [exact E|exact HW].
  - intros H _ HW; inversion H; subst. exact HW.
Qed.

Theorem krun_WI ls : forall s s' os, krun roles s ls = Some (s', os) -> incl (concat os) tr -> WI s -> WI s'.
Proof.
  induction ls as [|l t IH]; intros s s' os; cbn [krun].
  - intros H _ HW; inversion H; subst. exact HW.
  - destruct (kstep roles s l) as [[s1 o]|] eqn:E; [|discriminate].
    destruct (krun roles s1 t) as [[s2 os2]|] eqn:E2; [|discriminate]. intros H Hi HW; inversion H; subst.
    cbn [concat] in Hi. eapply IH; [exact E2|eapply incl_app_r; exact Hi|].
    eapply kstep_WI; [exact E|eapply incl_app_l; exact Hi|exact HW].
Qed.

Lemma WI_init : WI kinit.
Proof.
  split; [apply RI_init|]. intros u a H. destruct u as [|[|u]]; cbn in H; try (destruct u; discriminate);
    inversion H; subst; (split; [intros x []|split; intros e []]).
Qed.

End W.

(* ---------- where an OnTerminated(w) observation can come from: only from the step of a mailbox that has the notice
   "w terminated" in flight ---------- *)
Definition is_tto (ob : obs) : bool := match ob with OH _ _ (TTO _) _ _ => true | _ => false end.
Definition nt (o : list obs) : Prop := existsb is_tto o = false.
Lemma nt_nil : nt []. Proof. reflexivity. Qed.
Lemma nt_app a b : nt a -> nt b -> nt (a ++ b).
Proof. unfold nt. intros Ha Hb. rewrite existsb_app, Ha, Hb. reflexivity. Qed.
Lemma nt_cons x o : is_tto x = false -> nt o -> nt (x :: o).
Proof. unfold nt. intros Hx Ho. cbn [existsb]. rewrite Hx, Ho. reflexivity. Qed.
Lemma nt_in o x i w sn sd : nt o -> ~ In (OH x i (TTO w) sn sd) o.
Proof.
  unfold nt. intros H Hin. assert (existsb is_tto o = true) by (apply existsb_exists; eexists; split; [exact Hin|reflexivity]). congruence.
Qed.

Section O.
Variable roles : list role.

Lemma nt_abyss_user s snd rcv m s' o : abyss_user s snd rcv m = (s', o) -> nt o.
Proof. unfold abyss_user. destruct m; intros H; inversion H; subst; reflexivity. Qed.
Lemma nt_deliver_user s t snd m s' o : deliver_user s t snd m = (s', o) -> nt o.
Proof.
  unfold deliver_user. destruct (lookup t (registry s)) as [u|]; [|apply nt_abyss_user].
  destruct (get s u); [intros H; inversion H; subst; reflexivity|apply nt_abyss_user].
Qed.
Lemma nt_terminate s self t g s' o : terminate s self t g = (s', o) -> nt o.
Proof. unfold terminate. destruct g; [apply nt_deliver_user|intros H; inversion H; subst; reflexivity]. Qed.
Lemma nt_terminate_all cs : forall s self g s' o, terminate_all s self cs g = (s', o) -> nt o.
Proof.
  induction cs as [|c rest IH]; intros s self g s' o; cbn [terminate_all]; [intros H; inversion H; subst; reflexivity|].
  destruct (terminate s self c g) as [s1 o1] eqn:E1. destruct (terminate_all s1 self rest g) as [s2 o2] eqn:E2.
  intros H; inversion H; subst. apply nt_app; [eapply nt_terminate; exact E1|eapply IH; exact E2].
Qed.
Lemma nt_send_each ts : forall s self n k s' o, send_each s self ts n k = (s', o) -> nt o.
Proof.
  induction ts as [|t rest IH]; intros s self n k s' o; cbn [send_each]; [intros H; inversion H; subst; reflexivity|].
  destruct (deliver_user s t self (UProbe n k)) as [s1 o1] eqn:E1. destruct (send_each s1 self rest n k) as [s2 o2] eqn:E2.
  intros H; inversion H; subst. apply nt_app; [eapply nt_deliver_user; exact E1|eapply IH; exact E2].
Qed.
Lemma nt_spawn s u self t r s' o p : spawn s u self t r = (s', o, p) -> nt o.
Proof.
  unfold spawn. destruct (provide s t) as [s1 inst]. destruct (lookup t _); [intros H; inversion H; subst; reflexivity|].
  unfold stop_if_parent_gone. destruct (get _ u) as [pa|]; [|intros H; inversion H; subst; reflexivity].
  destruct (not_alive (a_st pa)); [|intros H; inversion H; subst; reflexivity].
  destruct (terminate _ self t (a_graceful pa)) as [sa oa] eqn:E. intros H; inversion H; subst. eapply nt_terminate; exact E.
Qed.
Lemma nt_escalate s u r s' o p : escalate s u r = (s', o, p) -> nt o.
Proof.
  unfold escalate. destruct (get s u) as [a|]; [|intros H; inversion H; subst; reflexivity].
  destruct (a_parent a =? rNone); intros H; inversion H; subst; reflexivity.
Qed.
Lemma nt_report_abnormal s u s' o p : report_abnormal roles s u = (s', o, p) -> nt o.
Proof.
  unfold report_abnormal. destruct (get s u) as [a|]; [|intros H; inversion H; subst; reflexivity].
  destruct (a_st a); try (intros H; inversion H; subst; reflexivity). apply nt_escalate.
Qed.
Lemma nt_map_OS self sn (l : list ref) : nt (map (fun t => OS self t sn) l).
Proof. induction l as [|x t IH]; [reflexivity|]. cbn [map]. apply nt_cons; [reflexivity|exact IH]. Qed.

Lemma nt_do_action s u snd act s' o p : do_action roles s u snd act = (s', o, p) -> nt o.
Proof.
  unfold do_action. destruct (get s u) as [a|]; [|intros H; inversion H; subst; reflexivity].
  destruct act.
  - destruct (next_serial s) as [s1 k]. destruct (deliver_user s1 t rNone (UProbe n k)) as [s2 o2] eqn:E.
    intros H; inversion H; subst. apply nt_cons; [reflexivity|eapply nt_deliver_user; exact E].
  - destruct (next_serial s) as [s1 k]. destruct (deliver_user s1 t (a_tok a) (UProbe n k)) as [s2 o2] eqn:E.
    intros H; inversion H; subst. apply nt_cons; [reflexivity|eapply nt_deliver_user; exact E].
  - destruct (next_serial s) as [s1 k]. destruct (deliver_user s1 snd (a_tok a) (UProbe n k)) as [s2 o2] eqn:E.
    intros H; inversion H; subst. apply nt_cons; [reflexivity|eapply nt_deliver_user; exact E].
  - destruct (next_serial s) as [s1 k]. destruct (send_each s1 (a_tok a) (a_children a) n k) as [s2 o2] eqn:E.
    intros H; inversion H; subst. apply nt_app; [apply nt_map_OS|eapply nt_send_each; exact E].
  - destruct (spawn s u (a_tok a) t r) as [[s1 o1] p1] eqn:E. intros H; inversion H; subst.
    apply nt_cons; [reflexivity|eapply nt_spawn; exact E].
  - destruct (terminate s (a_tok a) t g) as [s1 o1] eqn:E. intros H; inversion H; subst.
    apply nt_cons; [reflexivity|eapply nt_terminate; exact E].
  - intros H; inversion H; subst. reflexivity.
  - intros H; inversion H; subst. reflexivity.
  - destruct (report_abnormal roles s u) as [[s1 o1] p1] eqn:E. intros H; inversion H; subst.
    apply nt_cons; [reflexivity|eapply nt_report_abnormal; exact E].
  - intros H; inversion H; subst. reflexivity.
Qed.

Lemma bind_nt (r : R) f s3 o3 p3 :
  (forall s1 o1 p1, r = (s1, o1, p1) -> nt o1) -> (forall s1 s2 o2 p2, f s1 = (s2, o2, p2) -> nt o2) ->
  r >>= f = (s3, o3, p3) -> nt o3.
Proof.
  intros H1 H2. destruct r as [[s1 o1] p1]. unfold bind. destruct p1.
  - intros H; inversion H; subst. eapply H1; reflexivity.
  - destruct (f s1) as [[s2 o2] p2] eqn:E. intros H; inversion H; subst. apply nt_app; [eapply H1; reflexivity|eapply H2; exact E].
Qed.

Lemma nt_do_actions acts : forall s u snd s' o p, do_actions roles s u snd acts = (s', o, p) -> nt o.
Proof.
  induction acts as [|act rest IH]; intros s u snd s' o p; cbn [do_actions]; [intros H; inversion H; subst; reflexivity|].
  apply bind_nt; [intros s1 o1 p1 E; eapply nt_do_action; exact E|intros s1 s2 o2 p2 E; eapply IH; exact E].
Qed.

(* a handler invocation shows exactly one Handled observation, first, for the trigger it was invoked with *)
Lemma handle_q_shape q s u t k snd s' o p :
  handle_q roles q s u t k snd = (s', o, p) ->
  o = [] \/ exists a o1, get s u = Some a /\ o = OH (a_tok a) (a_inst a) t k (match t with TP _ => snd | _ => rNone end) :: o1 /\ nt o1.
Proof.
  unfold handle_q. destruct (get s u) as [a|]; [|intros H; inversion H; subst; left; reflexivity].
  destruct q; [intros H; inversion H; subst; left; reflexivity|].
  destruct (do_actions roles s u snd (find_rule (rules (role_of roles a)) t (a_inst a))) as [[s1 o1] p1] eqn:E.
  intros H; inversion H; subst. right. exists a, o1. split; [reflexivity|]. split; [reflexivity|eapply nt_do_actions; exact E].
Qed.
Lemma nt_handle_q q s u t k snd s' o p : (forall w, t <> TTO w) -> handle_q roles q s u t k snd = (s', o, p) -> nt o.
Proof.
  intros Ht H. destruct (handle_q_shape _ _ _ _ _ _ _ _ _ H) as [->|(a & o1 & _ & -> & Hn)]; [reflexivity|].
  apply nt_cons; [|exact Hn]. destruct t; try reflexivity. exfalso. eapply Ht. reflexivity.
Qed.
Lemma nt_handle s u t k snd s' o p : (forall w, t <> TTO w) -> handle roles s u t k snd = (s', o, p) -> nt o.
Proof. intros Ht. unfold handle. destruct (get s u); [apply nt_handle_q; exact Ht|intros H; inversion H; subst; reflexivity]. Qed.

Lemma nt_try_terminated s u snd s' o p : try_terminated roles s u snd = (s', o, p) -> nt o.
Proof.
  unfold try_terminated. destruct (get s u) as [a|]; [|intros H; inversion H; subst; reflexivity].
  destruct (a_children a); [|intros H; inversion H; subst; reflexivity].
  destruct (a_st a); try (intros H; inversion H; subst; reflexivity).
  apply bind_nt.
  - intros s1 o1 p1 E. eapply nt_handle; [|exact E]. intros w; discriminate.
  - intros s1 s2 o2 p2. destruct (a_parent a =? rNone); intros H; inversion H; subst; reflexivity.
Qed.
Lemma nt_try_restarted s u snd s' o p : try_restarted roles s u snd = (s', o, p) -> nt o.
Proof.
  unfold try_restarted. destruct (get s u) as [a|]; [|intros H; inversion H; subst; reflexivity].
  destruct (a_children a); [|intros H; inversion H; subst; reflexivity].
  destruct (a_st a); try (intros H; inversion H; subst; reflexivity).
  destruct (provide s (a_tok a)) as [s0 inst].
  apply bind_nt.
  - intros s1 o1 p1 E. eapply nt_handle; [|exact E]. intros w; discriminate.
  - intros s1 s2 o2 p2. apply bind_nt.
    + intros sa oa pa E. eapply nt_handle; [|exact E]. intros w; discriminate.
    + intros sa sb ob pb. unfold start_instance.
      match goal with |- context [handle roles ?x u TRD 0%nat ?y] => destruct (handle roles x u TRD 0%nat y) as [[sc oc] pc] eqn:Ec end.
      destruct (handle roles sc u TL 0%nat (a_parent a)) as [[sd od] pd] eqn:Ed. intros H; inversion H; subst.
      apply nt_app; [eapply nt_handle; [|exact Ec]; intros w; discriminate|eapply nt_handle; [|exact Ed]; intros w; discriminate].
Qed.
Lemma nt_apply_directive s u r d snd s' o p : apply_directive roles s u r d snd = (s', o, p) -> nt o.
Proof.
  unfold apply_directive. destruct (get s u) as [a|]; [|intros H; inversion H; subst; reflexivity].
  destruct d.
  - intros H; inversion H; subst; reflexivity.
  - destruct (terminate s (a_tok a) (ar_vref r) false) as [s1 o1] eqn:E1.
    destruct (try_terminated roles s1 u snd) as [[s2 o2] p2] eqn:E2. intros H; inversion H; subst.
    apply nt_cons; [reflexivity|]. apply nt_app; [eapply nt_terminate; exact E1|eapply nt_try_terminated; exact E2].
  - intros H; inversion H; subst; reflexivity.
  - destruct (escalate s u r) as [[s1 o1] p1] eqn:E. intros H; inversion H; subst.
    apply nt_cons; [reflexivity|eapply nt_escalate; exact E].
  - intros H; inversion H; subst; reflexivity.
Qed.
Lemma nt_on_accident s u r snd s' o p : on_accident roles s u r snd = (s', o, p) -> nt o.
Proof.
  unfold on_accident. destruct (get s u) as [a|]; [|intros H; inversion H; subst; reflexivity].
  destruct (ar_strategy r); [apply nt_apply_directive|].
  destruct (sup (role_of roles a)); [apply nt_escalate|apply nt_apply_directive].
Qed.

Lemma get_drop_child_tok s u w a : get s u = Some a -> exists a', get (drop_child s u w) u = Some a' /\ a_tok a' = a_tok a.
Proof.
  intros H. unfold drop_child. destruct (lookup w (registry s)); [exists a; auto|].
  eexists. split; [apply get_upd_actor_same; exact H|reflexivity].
Qed.

(* the system branch: an OnTerminated(w) observation only while processing the notice "w terminated", by the
   object's own address *)
Lemma process_sys_tto s u e a s' o p x i w sn sd :
  get s u = Some a -> process_sys roles s u e = (s', o, p) -> In (OH x i (TTO w) sn sd) o ->
  e_msg e = STerminatedOf w /\ x = a_tok a /\ w <> a_tok a.
Proof.
  intros Ea. unfold process_sys. rewrite Ea.
  destruct (match a_st a, e_msg e with Terminated, SWatch => false | Terminated, _ => true | _, _ => false end);
    [intros H Hin; inversion H; subst; destruct Hin|].
  assert (NT : forall o0, nt o0 -> In (OH x i (TTO w) sn sd) o0 -> False) by (intros o0 Hn Hin; eapply nt_in; eassumption).
  destruct (e_msg e) as [| |g|who| |r| | | | |] eqn:Em.
  - intros H Hin. exfalso. eapply NT; [|exact Hin]. revert H. apply bind_nt.
    + intros s1 o1 p1 E. eapply nt_handle; [|exact E]. intros w0; discriminate.
    + intros s1 s2 o2 p2 E. inversion E; subst. reflexivity.
  - intros H Hin. exfalso. eapply NT; [|exact Hin]. eapply nt_handle; [|exact H]. intros w0; discriminate.
  - intros H Hin. exfalso. eapply NT; [|exact Hin]. revert H.
    assert (HT : forall s0, handle roles s0 u TT 0%nat (e_snd e) >>= (fun s3 => match get s3 u with
         | None => ok s3 []
         | Some a3 => let '(s4, o4) := terminate_all s3 (a_tok a3) (a_children a3) (g || a_graceful a3) in
                      let '(s5, o5, p) := try_terminated roles s4 u (e_snd e) in (s5, o4 ++ o5, p) end) = (s', o, p) -> nt o).
    { intros s0. apply bind_nt.
      - intros s1 o1 p1 E. eapply nt_handle; [|exact E]. intros w0; discriminate.
      - intros s1 s2 o2 p2. destruct (get s1 u) as [a3|]; [|intros H; inversion H; subst; reflexivity].
        destruct (terminate_all s1 (a_tok a3) (a_children a3) (g || a_graceful a3)) as [s4 o4] eqn:E4.
        destruct (try_terminated roles s4 u (e_snd e)) as [[s5 o5] p5] eqn:E5. intros H; inversion H; subst.
        apply nt_app; [eapply nt_terminate_all; exact E4|eapply nt_try_terminated; exact E5]. }
    destruct (a_st a); try (intros H; inversion H; subst; reflexivity); apply HT.
  - (* STerminatedOf who *)
    destruct (get_drop_child_tok s u who a Ea) as (a1 & Ea1 & Et1).
    destruct (handle roles (drop_child s u who) u (if who =? a_tok a then TTS else TTO who) 0%nat (e_snd e)) as [[s1 o1] p1] eqn:E1.
    assert (Head : In (OH x i (TTO w) sn sd) o1 -> STerminatedOf who = STerminatedOf w /\ x = a_tok a /\ w <> a_tok a).
    { intros Hin. unfold handle in E1. rewrite Ea1 in E1.
      destruct (handle_q_shape _ _ _ _ _ _ _ _ _ E1) as [->|(a' & o' & Ha' & -> & Hn)]; [destruct Hin|].
      rewrite Ea1 in Ha'. inversion Ha'; subst a'. destruct Hin as [Hin|Hin]; [|exfalso; eapply NT; eassumption].
      destruct (who =? a_tok a) eqn:Ew; [discriminate|]. inversion Hin; subst. apply Z.eqb_neq in Ew. rewrite Et1. auto. }
    unfold bind. destruct p1.
    + intros H Hin; inversion H; subst. apply Head. exact Hin.
    + destruct (match get s1 u with Some a2 => _ | None => _ end) as [[s2 o2] p2] eqn:E2.
      assert (N2 : nt o2).
      { revert E2. destruct (get s1 u) as [a2|]; [|intros H; inversion H; subst; reflexivity].
        destruct (a_st a2); try (intros H; inversion H; subst; reflexivity); [apply nt_try_restarted|apply nt_try_terminated]. }
      intros H Hin; inversion H; subst. apply in_app_or in Hin. destruct Hin as [Hin|Hin]; [apply Head; exact Hin|].
      exfalso. eapply NT; [exact N2|exact Hin].
  - destruct (a_st a); try (intros H Hin; inversion H; subst; destruct Hin).
    intros H Hin. exfalso. eapply NT; [|exact Hin]. revert H. apply bind_nt.
    + intros s1 o1 p1 E. eapply nt_handle; [|exact E]. intros w0; discriminate.
    + intros s1 s2 o2 p2. destruct (get s1 u) as [a2|]; [|intros H; inversion H; subst; reflexivity].
      destruct (terminate_all s1 (a_tok a2) (a_children a2) false) as [s3 o3] eqn:E3.
      destruct (try_restarted roles s3 u (e_snd e)) as [[s4 o4] p4] eqn:E4. intros H; inversion H; subst.
      apply nt_app; [eapply nt_terminate_all; exact E3|eapply nt_try_restarted; exact E4].
  - intros H Hin. exfalso. eapply NT; [eapply nt_on_accident; exact H|exact Hin].
  - destruct (e_snd e =? a_parent a); [intros H Hin; inversion H; subst; destruct Hin|].
    destruct (st_ge_terminating (a_st a)); intros H Hin; inversion H; subst; destruct Hin.
  - intros H Hin; inversion H; subst; destruct Hin.
  - intros H Hin; inversion H; subst; destruct Hin.
  - intros H Hin; inversion H; subst; destruct Hin.
  - (* SResumeReq *) destruct (a_st a); intros H Hin; inversion H; subst; destruct Hin.
Qed.

Lemma nt_process_user s u e s' o p : process_user roles s u e = (s', o, p) -> nt o.
Proof.
  unfold process_user. destruct (get s u) as [a|]; [|intros H; inversion H; subst; reflexivity].
  destruct (st_ge_terminating (a_st a)).
  - destruct (abyss_user s (e_snd e) (e_rcv e) (e_msg e)) as [s1 o1] eqn:E. intros H; inversion H; subst. eapply nt_abyss_user; exact E.
  - destruct (e_msg e).
    + apply nt_handle_q. intros w; discriminate.
    + intros H; inversion H; subst; reflexivity.
    + intros H; inversion H; subst; reflexivity.
Qed.

Theorem run_actor_tto s u s' o x i w sn sd :
  run_actor roles s u = Some (s', o) -> In (OH x i (TTO w) sn sd) o ->
  exists a e, get s u = Some a /\ a_inflight a = Some (MS e) /\ e_msg e = STerminatedOf w /\ a_tok a = x /\ w <> x.
Proof.
  unfold run_actor. destruct (get s u) as [a|] eqn:Ea; [|discriminate].
  destruct (a_inflight a) as [m|] eqn:Em; [|discriminate].
  set (s0 := upd_actor s u (w_inflight None)).
  assert (Ea0 : get s0 u = Some (w_inflight None a)) by (apply get_upd_actor_same; exact Ea).
  destruct (match m with MS e => process_sys roles s0 u e | MU e => process_user roles s0 u e end) as [[s1 o1] p1] eqn:E.
  assert (Main : In (OH x i (TTO w) sn sd) o1 -> exists a0 e, Some a = Some a0 /\ a_inflight a0 = Some (MS e) /\ e_msg e = STerminatedOf w /\ a_tok a0 = x /\ w <> x).
  { intros Hin. destruct m as [e|e].
    - destruct (process_sys_tto _ _ _ _ _ _ _ _ _ _ _ _ Ea0 E Hin) as (H1 & H2 & H3). cbn [a_tok w_inflight] in *.
      exists a, e. subst x. rewrite Em. auto.
    - exfalso. eapply nt_in; [eapply nt_process_user; exact E|exact Hin]. }
  intros H Hin. destruct p1.
  - destruct (crashed s1).
    + inversion H; subst. apply Main. exact Hin.
    + destruct (report_abnormal roles s1 u) as [[s2 o2] p2] eqn:E2. inversion H; subst.
      apply in_app_or in Hin. destruct Hin as [Hin|Hin]; [apply Main; exact Hin|].
      exfalso. eapply nt_in; [eapply nt_report_abnormal; exact E2|exact Hin].
  - inversion H; subst. apply Main. exact Hin.
Qed.

(* C06, last sentence: whenever, after any run from the freshly started system, a step shows address x handling
   OnTerminated(w), then x issued a Watch for w earlier in the run, or x is the parent of an actor object with address w *)
Theorem notified_only_if_entitled ls s os l s' o x i w sn sd :
  krun roles kinit ls = Some (s, os) -> kstep roles s l = Some (s', o) -> In (OH x i (TTO w) sn sd) o ->
  In (OW x w) (concat os) \/ exists c ac, get s c = Some ac /\ a_tok ac = w /\ a_parent ac = x.
Proof.
  intros Hrun Hstep Hin.
  assert (HW : WI (concat os) s) by (eapply krun_WI; [exact Hrun|apply incl_refl|apply WI_init]).
  destruct l; cbn [kstep] in Hstep.
  - destruct (run_actor roles s (Z.to_nat u)) as [[s1 o1]|] eqn:E; [|discriminate]. inversion Hstep; subst.
    destruct (run_actor_tto _ _ _ _ _ _ _ _ _ E Hin) as (a & e & Ha & Hi & Hm & Hx & Hne).
    destruct HW as [_ HW0]. destruct (HW0 _ a Ha) as [_ [W2 _]].
    assert (G : good (concat os) s (a_tok a) e) by (apply W2; unfold msgs; rewrite Hi; left; reflexivity).
    unfold good in G. rewrite Hm in G. subst x. destruct G as [G|G]; [contradiction|exact G].
  - destruct (next_serial s) as [s1 k]. destruct (deliver_user s1 t rNone (UProbe n k)) as [s2 o2] eqn:E.
    inversion Hstep; subst. destruct Hin as [Hin|Hin]; [discriminate|]. exfalso. eapply nt_in; [eapply nt_deliver_user; exact E|exact Hin].
  - destruct (next_serial s) as [s1 k]. destruct (deliver_user s1 t rGuard (UProbe n k)) as [s2 o2] eqn:E.
    inversion Hstep; subst. destruct Hin as [Hin|Hin]; [discriminate|]. exfalso. eapply nt_in; [eapply nt_deliver_user; exact E|exact Hin].
  - destruct (terminate s rGuard t g) as [s1 o1] eqn:E. inversion Hstep; subst.
    destruct Hin as [Hin|Hin]; [discriminate|]. exfalso. eapply nt_in; [eapply nt_terminate; exact E|exact Hin].
  - destruct (spawn s guard_uid rGuard t r) as [[s1 o1] p] eqn:E. inversion Hstep; subst.
    destruct Hin as [Hin|Hin]; [discriminate|]. apply in_app_or in Hin. destruct Hin as [Hin|Hin].
    + exfalso. eapply nt_in; [eapply nt_spawn; exact E|exact Hin].
    + destruct p; [destruct Hin as [Hin|[]]; discriminate|destruct Hin].
  - destruct (terminate s rGuard rGuard g) as [s1 o1] eqn:E. inversion Hstep; subst.
    exfalso. eapply nt_in; [eapply nt_terminate; exact E|exact Hin].
  - inversion Hstep; subst. destruct Hin as [Hin|[]]; discriminate.
Qed.

End O.

(* by-product of the invariant: in every state reachable from the fresh system, every user message in flight or queued
   at an actor object is addressed to that object's own address *)
Theorem addressed_reachable roles ls s os :
  krun roles kinit ls = Some (s, os) -> forall u a e, get s u = Some a -> In e (seq a) -> e_rcv e = a_tok a.
Proof.
  intros Hrun u a e Ha He.
  assert (HW : WI (concat os) s) by (eapply krun_WI; [exact Hrun|apply incl_refl|apply WI_init]).
  destruct HW as [_ HW0]. destruct (HW0 u a Ha) as (_ & _ & W3). apply W3. exact He.
Qed.
